import OvniModel.Emu.Sort

/-! Helper lemmas for `Props/C20.lean` (sort module). Free to change. -/
namespace Ovni.Emu.Sort

/-! ### reads and writes on `pre ++ x :: post` -/

theorem rd_append_at (pre : List Int) (x : Int) (post : List Int) :
    rd (pre ++ x :: post) pre.length = x := by
  simp [rd, List.getD_eq_getElem?_getD]

theorem rd_append_lt (pre l : List Int) (i : Nat) (h : i < pre.length) :
    rd (pre ++ l) i = pre[i] := by
  simp [rd, List.getD_eq_getElem?_getD, List.getElem?_append_left h, h]

theorem rd_append_ge (pre l : List Int) (k : Nat) :
    rd (pre ++ l) (pre.length + k) = rd l k := by
  simp [rd, List.getD_eq_getElem?_getD, List.getElem?_append_right]

theorem set_append_at (pre : List Int) (x v : Int) (post : List Int) :
    (pre ++ x :: post).set pre.length v = pre ++ v :: post := by
  induction pre with
  | nil => rfl
  | cons a t ih => simp [ih]

/-! ### `insertSorted` -/

theorem insertSorted_perm (x : Int) (l : List Int) : (insertSorted x l).Perm (x :: l) := by
  induction l with
  | nil => exact List.Perm.refl _
  | cons y ys ih =>
    unfold insertSorted
    split
    · exact (List.Perm.cons y ih).trans (List.Perm.swap x y ys)
    · exact List.Perm.refl _

theorem insertSorted_sorted (x : Int) (l : List Int) (h : Sorted l) : Sorted (insertSorted x l) := by
  induction l with
  | nil => simp [insertSorted, Sorted]
  | cons y ys ih =>
    have hy := List.pairwise_cons.1 h
    unfold insertSorted
    split
    next hle =>
      apply List.pairwise_cons.2
      refine ⟨?_, ih hy.2⟩
      intro z hz
      have := (insertSorted_perm x ys).mem_iff.1 hz
      rcases List.mem_cons.1 this with rfl | hz'
      · exact hle
      · exact hy.1 z hz'
    next hnle =>
      apply List.pairwise_cons.2
      refine ⟨?_, h⟩
      intro z hz
      rcases List.mem_cons.1 hz with rfl | hz'
      · omega
      · have := hy.1 z hz'; omega

/-- Elements `≤ x` in front are skipped. -/
theorem insertSorted_append_le (x : Int) (pre post : List Int) (h : ∀ z ∈ pre, z ≤ x) :
    insertSorted x (pre ++ post) = pre ++ insertSorted x post := by
  induction pre with
  | nil => rfl
  | cons a t ih =>
    have ha : a ≤ x := h a (List.mem_cons_self ..)
    have ht : ∀ z ∈ t, z ≤ x := fun z hz => h z (List.mem_cons_of_mem _ hz)
    rw [List.cons_append, insertSorted, if_pos ha, ih ht, List.cons_append]

/-- A tail of elements `> x` is not looked at (beyond its head). -/
theorem insertSorted_append_gt (x : Int) (pre post : List Int) (h : ∀ z ∈ post, x < z) :
    insertSorted x (pre ++ post) = insertSorted x pre ++ post := by
  induction pre with
  | nil =>
    cases post with
    | nil => rfl
    | cons p ps =>
      have : ¬ p ≤ x := by have := h p (List.mem_cons_self ..); omega
      simp [insertSorted, this]
  | cons a t ih =>
    show insertSorted x (a :: (t ++ post)) = insertSorted x (a :: t) ++ post
    unfold insertSorted
    split
    · simp only [ih, List.cons_append]
    · rfl

theorem insertSorted_snoc_gt (x y : Int) (l : List Int) (h : x < y) :
    insertSorted x (l ++ [y]) = insertSorted x l ++ [y] :=
  insertSorted_append_gt x l [y] (by intro z hz; simp at hz; omega)

theorem insertSorted_all_le (x : Int) (l : List Int) (h : ∀ z ∈ l, z ≤ x) :
    insertSorted x l = l ++ [x] := by
  have := insertSorted_append_le x l [] h
  simpa [insertSorted] using this

/-! ### the three loops -/

theorem skipLt_spec (pre : List Int) (y : Int) (post : List Int) (old : Int)
    (hpre : ∀ z ∈ pre, z < old) (hy : ¬ y < old) :
    ∀ (fuel i : Nat), i ≤ pre.length → pre.length - i ≤ fuel →
      skipLt (pre ++ y :: post) old fuel i = pre.length := by
  intro fuel
  induction fuel with
  | zero => intro i h1 h2; simp only [skipLt]; omega
  | succ f ih =>
    intro i h1 h2
    simp only [skipLt]
    by_cases hi : i = pre.length
    · subst hi
      rw [rd_append_at]
      simp [hy]
    · have hlt : i < pre.length := by omega
      rw [rd_append_lt _ _ _ hlt]
      have : pre[i] < old := hpre _ (List.getElem_mem hlt)
      simp only [this, if_true]
      exact ih (i + 1) (by omega) (by omega)

theorem shiftLeft_spec (new : Int) (n : Nat) :
    ∀ (post pre : List Int) (x : Int) (fuel : Nat),
      n = pre.length + 1 + post.length → post.length ≤ fuel →
      let r := shiftLeft n new fuel (pre ++ x :: post) pre.length
      r.1.set r.2 new = pre ++ insertSorted new post := by
  intro post
  induction post with
  | nil =>
    intro pre x fuel hn _
    have hc : ¬ (pre.length + 1 < n) := by simp at hn; omega
    cases fuel with
    | zero => simp [shiftLeft, insertSorted]
    | succ f => simp [shiftLeft, hc, insertSorted]
  | cons y ys ih =>
    intro pre x fuel hn hf
    cases fuel with
    | zero => simp at hf
    | succ f =>
      have hc : pre.length + 1 < n := by simp at hn; omega
      have hrd : rd (pre ++ x :: y :: ys) (pre.length + 1) = y := by
        rw [rd_append_ge]; rfl
      simp only [shiftLeft, hc, hrd, true_and]
      by_cases hle : y ≤ new
      · simp only [hle, if_true]
        rw [set_append_at]
        have e : pre ++ y :: y :: ys = (pre ++ [y]) ++ y :: ys := by simp
        have hl : pre.length + 1 = (pre ++ [y]).length := by simp
        rw [e, hl]
        have := ih (pre ++ [y]) y f (by simp at hn ⊢; omega) (by simp at hf; omega)
        simp only at this
        rw [this]
        simp [insertSorted, hle]
      · simp only [hle, if_false]
        rw [set_append_at]
        simp [insertSorted, hle]

/-- Reference for the right-to-left scan: insert into the *reversed* prefix. -/
def insRev (new : Int) : List Int → List Int
  | [] => [new]
  | y :: ys => if y > new then y :: insRev new ys else new :: y :: ys

theorem shiftRight_spec (new : Int) :
    ∀ (rpre : List Int) (x : Int) (post : List Int),
      let r := shiftRight new (rpre.reverse ++ x :: post) rpre.length
      r.1.set r.2 new = (insRev new rpre).reverse ++ post := by
  intro rpre
  induction rpre with
  | nil => intro x post; simp [shiftRight, insRev]
  | cons y ys ih =>
    intro x post
    have e : (y :: ys).reverse ++ x :: post = ys.reverse ++ y :: x :: post := by simp
    have hl : ys.length = ys.reverse.length := by simp
    have hrd : rd (ys.reverse ++ y :: x :: post) ys.length = y := by
      rw [hl, rd_append_at]
    simp only [List.length_cons, shiftRight, e, hrd]
    by_cases hgt : y > new
    · simp only [hgt, if_true]
      have e2 : ys.reverse ++ y :: x :: post = (ys.reverse ++ [y]) ++ x :: post := by simp
      have hl2 : ys.length + 1 = (ys.reverse ++ [y]).length := by simp
      rw [e2, hl2, set_append_at]
      have e3 : (ys.reverse ++ [y]) ++ y :: post = ys.reverse ++ y :: (y :: post) := by simp
      rw [e3]
      have := ih y (y :: post)
      simp only at this
      rw [this]
      simp [insRev, hgt]
    · simp only [hgt, if_false]
      have e2 : ys.reverse ++ y :: x :: post = (ys.reverse ++ [y]) ++ x :: post := by simp
      have hl2 : ys.length + 1 = (ys.reverse ++ [y]).length := by simp
      rw [e2, hl2, set_append_at]
      simp [insRev, hgt]

theorem insRev_reverse (new : Int) :
    ∀ rpre : List Int, Sorted rpre.reverse → (insRev new rpre).reverse = insertSorted new rpre.reverse := by
  intro rpre
  induction rpre with
  | nil => intro _; rfl
  | cons y ys ih =>
    intro hs
    have hs' : Sorted (ys.reverse ++ [y]) := by simpa using hs
    have hp := List.pairwise_append.1 hs'
    by_cases hgt : y > new
    · simp only [insRev, hgt, if_true, List.reverse_cons]
      rw [ih hp.1, insertSorted_snoc_gt _ _ _ hgt]
    · simp only [insRev, hgt, if_false, List.reverse_cons]
      have hall : ∀ z ∈ ys.reverse ++ [y], z ≤ new := by
        intro z hz
        rcases List.mem_append.1 hz with h1 | h1
        · have := hp.2.2 z h1 y (by simp); omega
        · simp at h1; omega
      rw [insertSorted_all_le _ _ hall]

/-! ### decomposition of a sorted array around the first `old` -/

theorem sorted_split (arr : List Int) (old : Int) (hs : Sorted arr) (hm : old ∈ arr) :
    ∃ pre post, arr = pre ++ old :: post ∧ (∀ z ∈ pre, z < old) ∧ (∀ z ∈ post, old ≤ z) ∧
      Sorted pre := by
  induction arr with
  | nil => cases hm
  | cons a t ih =>
    have ha := List.pairwise_cons.1 hs
    by_cases hao : a = old
    · subst hao
      exact ⟨[], t, rfl, by simp, ha.1, List.Pairwise.nil⟩
    · have hmt : old ∈ t := by
        rcases List.mem_cons.1 hm with h | h
        · exact absurd h.symm hao
        · exact h
      obtain ⟨pre, post, e, h1, h2, h3⟩ := ih ha.2 hmt
      refine ⟨a :: pre, post, by simp [e], ?_, h2, ?_⟩
      · intro z hz
        rcases List.mem_cons.1 hz with rfl | hz
        · have := ha.1 old hmt; omega
        · exact h1 z hz
      · apply List.pairwise_cons.2
        refine ⟨?_, h3⟩
        intro z hz
        exact ha.1 z (by rw [e]; exact List.mem_append_left _ hz)

theorem erase_split (pre post : List Int) (old : Int) (h : ∀ z ∈ pre, z < old) :
    (pre ++ old :: post).erase old = pre ++ post := by
  induction pre with
  | nil => simp
  | cons a t ih =>
    have ha : a ≠ old := by have := h a (List.mem_cons_self ..); omega
    have ht : ∀ z ∈ t, z < old := fun z hz => h z (List.mem_cons_of_mem _ hz)
    simp [ha, ih ht]

/-- No element from the first `old` on is `< old` (in-bounds reads only). -/
theorem not_lt_from_split (pre post : List Int) (old : Int) (h2 : ∀ z ∈ post, old ≤ z)
    (k : Nat) (hk : pre.length ≤ k) (hkn : k < (pre ++ old :: post).length) :
    ¬ rd (pre ++ old :: post) k < old := by
  obtain ⟨j, rfl⟩ : ∃ j, k = pre.length + j := ⟨k - pre.length, by omega⟩
  rw [rd_append_ge]
  cases j with
  | zero => simp [rd]
  | succ j =>
    have hj : j < post.length := by simp at hkn; omega
    have : rd (old :: post) (j + 1) = post[j] := by
      simp [rd, List.getD_eq_getElem?_getD, hj]
    rw [this]
    have := h2 _ (List.getElem_mem hj)
    omega

/-! ### the refinement -/

theorem sortReplace_eq (arr : List Int) (old new : Int)
    (hs : Sorted arr) (hm : old ∈ arr) (hne : old ≠ new) :
    sortReplace arr old new = some (insertSorted new (arr.erase old)) := by
  obtain ⟨pre, post, e, h1, h2, h3⟩ := sorted_split arr old hs hm
  subst e
  rw [erase_split pre post old h1]
  have hlen : (pre ++ old :: post).length = pre.length + 1 + post.length := by simp; omega
  unfold sortReplace
  simp only [hne, if_false]
  by_cases hlt : old < new
  · simp only [hlt, if_true]
    -- the n/2 shortcut lands at or before the first `old`
    have hi0 : (if rd (pre ++ old :: post) ((pre ++ old :: post).length / 2) < old
                then (pre ++ old :: post).length / 2 else 0) ≤ pre.length := by
      split
      next hm' =>
        apply Nat.le_of_lt
        apply Classical.byContradiction
        intro hc
        exact not_lt_from_split pre post old h2 _ (by omega) (by omega) hm'
      next => omega
    rw [skipLt_spec pre old post old h1 (by omega) _ _ hi0 (by omega)]
    have := shiftLeft_spec new (pre ++ old :: post).length post pre old
      ((pre ++ old :: post).length - pre.length) hlen (by omega)
    simp only at this
    rw [this, insertSorted_append_le new pre post (fun z hz => by have := h1 z hz; omega)]
  · simp only [hlt, if_false]
    have hnl : new < old := by omega
    rw [skipLt_spec pre old post old h1 (by omega) _ 0 (by omega) (by omega)]
    have := shiftRight_spec new pre.reverse old post
    simp only [List.reverse_reverse, List.length_reverse] at this
    rw [this, insRev_reverse new pre.reverse (by simpa using h3), List.reverse_reverse,
      insertSorted_append_gt new pre post (fun z hz => by have := h2 z hz; omega)]

end Ovni.Emu.Sort
