import OvniModel.Lemmas.JsonRoundTrip

/-! `prepare` (NUL cut and the two `remove_comments` passes) is the identity on
    serializations and on their prefixes: outside strings a serialization has no
    `/`, and no byte of it is 0. -/
namespace Ovni.Json

/-- The string tracking of `remove_comments` over a text without NUL and without
    `/` outside strings: the final `(in_string, escaped)`, or `none` if such a
    character occurs. -/
def quiet : Bool → Bool → List Nat → Option (Bool × Bool)
  | i, e, [] => some (i, e)
  | i, e, c :: r =>
    if c = 0 then none
    else if c = 92 ∧ e = false then quiet i true r
    else if c = 34 ∧ e = false then quiet (!i) false r
    else if i = false ∧ c = 47 then none
    else quiet i false r

theorem quiet_append : ∀ (a b : List Nat) (i e : Bool),
    quiet i e (a ++ b) = match quiet i e a with | some (i', e') => quiet i' e' b | none => none
  | [], b, i, e => by simp [quiet]
  | c :: a, b, i, e => by
    simp only [List.cons_append, quiet]
    split
    · rfl
    split
    · exact quiet_append a b i true
    split
    · exact quiet_append a b (!i) false
    split
    · rfl
    · exact quiet_append a b i false

theorem quiet_no_zero : ∀ (a : List Nat) (i e : Bool) (p : Bool × Bool), quiet i e a = some p → ∀ x ∈ a, x ≠ 0
  | [], _, _, _, _, x, hx => by simp at hx
  | c :: a, i, e, p, h, x, hx => by
    simp only [quiet] at h
    split at h
    · cases h
    rename_i hc
    rcases List.mem_cons.1 hx with rfl | hx
    · exact hc
    split at h
    · exact quiet_no_zero a _ _ p h x hx
    split at h
    · exact quiet_no_zero a _ _ p h x hx
    split at h
    · cases h
    · exact quiet_no_zero a _ _ p h x hx

/-- `remove_comments` leaves a quiet text alone (start token beginning with `/`). -/
theorem rcGo_quiet (st' en : List Nat) : ∀ (a b : List Nat) (i e i' e' : Bool), quiet i e a = some (i', e') →
    rcGo (47 :: st') en i e .code (a ++ b) = a ++ rcGo (47 :: st') en i' e' .code b
  | [], b, i, e, i', e', h => by
    simp only [quiet, Option.some.injEq, Prod.mk.injEq] at h
    rw [h.1, h.2]; rfl
  | c :: a, b, i, e, i', e', h => by
    simp only [quiet] at h
    simp only [List.cons_append, rcGo]
    split at h
    · cases h
    split at h
    · rename_i hc
      simp only [hc, and_self, if_true]
      rw [rcGo_quiet st' en a b _ _ _ _ h]
    rename_i h1
    split at h
    · rename_i hc
      obtain ⟨rfl, rfl⟩ := hc
      simp only [show ¬ ((34 : Nat) = 92 ∧ True) by decide, and_self, if_false, if_true]
      rw [rcGo_quiet st' en a b _ _ _ _ h]
    rename_i h2
    split at h
    · cases h
    rename_i h3
    simp only [h1, h2, if_false]
    have : ¬ (i = false ∧ (47 :: st').isPrefixOf (c :: (a ++ b)) = true) := by
      intro ⟨hi, hp⟩
      simp only [List.isPrefixOf, Bool.and_eq_true, beq_iff_eq] at hp
      exact h3 ⟨hi, hp.1.symm⟩
    simp only [this, if_false]
    rw [rcGo_quiet st' en a b _ _ _ _ h]

theorem removeComments_quiet (st' en : List Nat) {a : List Nat} {p : Bool × Bool} (h : quiet false false a = some p) :
    removeComments (47 :: st') en a = a := by
  obtain ⟨i', e'⟩ := p
  have := rcGo_quiet st' en a [] false false i' e' h
  simp only [List.append_nil] at this
  unfold removeComments
  rw [this]; simp [rcGo]

/-- NUL cut and both comment passes do nothing to a quiet text. -/
theorem prepare_quiet {a : List Nat} {p : Bool × Bool} (h : quiet false false a = some p) : prepare a = a := by
  unfold prepare stripComments
  have h0 : cstr a = a := by
    unfold cstr
    apply takeWhile_all
    intro x hx
    simpa using quiet_no_zero a _ _ p h x hx
  rw [h0, removeComments_quiet _ _ h, removeComments_quiet _ _ h]

theorem quiet_prefix {a t : List Nat} {p : Bool × Bool} (h : quiet false false t = some p) (hp : a <+: t) :
    ∃ q, quiet false false a = some q := by
  obtain ⟨u, rfl⟩ := hp
  rw [quiet_append] at h
  cases hq : quiet false false a with
  | none => rw [hq] at h; cases h
  | some q => exact ⟨q, rfl⟩

/-! ### serializations are quiet -/

/-- characters that change nothing outside a string -/
def plain (c : Nat) : Prop := c ≠ 0 ∧ c ≠ 92 ∧ c ≠ 34 ∧ c ≠ 47

theorem quiet_plain_cons {c : Nat} (hc : plain c) (e : Bool) (r : List Nat) :
    quiet false e (c :: r) = quiet false false r := by
  obtain ⟨h0, h1, h2, h3⟩ := hc
  simp [quiet, h0, h1, h2, h3]

theorem quiet_plain : ∀ (l : List Nat) (x : List Nat) (e : Bool), (∀ c ∈ l, plain c) → l ≠ [] →
    quiet false e (l ++ x) = quiet false false x
  | [], _, _, _, hne => absurd rfl hne
  | [c], x, e, h, _ => quiet_plain_cons (h c (by simp)) e x
  | c :: d :: l, x, e, h, _ => by
    rw [List.cons_append, quiet_plain_cons (h c (by simp))]
    exact quiet_plain (d :: l) x false (fun y hy => h y (List.mem_cons_of_mem _ hy)) (by simp)

theorem quiet_plain' (l x : List Nat) (h : ∀ c ∈ l, plain c) : quiet false false (l ++ x) = quiet false false x := by
  cases l with
  | nil => rfl
  | cons c l => exact quiet_plain (c :: l) x false h (by simp)

theorem plain_digit {c : Nat} (h : isDigit c = true) : plain c := by
  simp [isDigit] at h; unfold plain; omega

theorem quiet_escapeByte (c : Nat) (t : List Nat) : quiet true false (escapeByte c ++ t) = quiet true false t := by
  unfold escapeByte
  split
  · simp [quiet]
  split
  · simp [quiet]
  split
  · simp [quiet]
  split
  · simp [quiet]
  split
  · simp [quiet]
  split
  · simp [quiet]
  split
  · simp [quiet]
  split
  · rename_i h
    obtain ⟨_, a1, a2, a3, a4⟩ := hexDigit_facts c h
    have b1 : hexDigit (c / 16) ≠ 0 := by unfold hexDigit; split <;> omega
    have b2 : hexDigit (c % 16) ≠ 0 := by unfold hexDigit; split <;> omega
    simp [quiet, a1, a2, a3, a4, b1, b2]
  split
  · simp [quiet]
  · rename_i h1 h2 h3 h4 h5 h6 h7 h8 h9
    have h0 : c ≠ 0 := by omega
    simp [quiet, h0, h1, h2]

theorem quiet_escape : ∀ (s t : List Nat), quiet true false (escape s ++ t) = quiet true false t
  | [], t => by simp [escape]
  | c :: s, t => by
    have : escape (c :: s) = escapeByte c ++ escape s := by simp [escape]
    rw [this, List.append_assoc, quiet_escapeByte, quiet_escape s t]

theorem quiet_serString (s x : List Nat) : quiet false false (serString s ++ x) = quiet false false x := by
  have : serString s ++ x = 34 :: (escape s ++ 34 :: x) := by simp [serString]
  rw [this]
  simp only [quiet, show (34 : Nat) ≠ 0 by decide, if_false,
    and_self, if_true, Bool.not_false]
  rw [quiet_escape]
  simp [quiet]

theorem plain_serNumber (n : Int) (k : Nat) : ∀ c ∈ serNumber n k, plain c := by
  intro c hc
  unfold serNumber at hc
  simp only at hc
  have hsign : ∀ c ∈ (if n < 0 then [45] else ([] : List Nat)), plain c := by
    intro c hc
    split at hc
    · simp only [List.mem_singleton] at hc; subst hc; unfold plain; decide
    · simp at hc
  split at hc
  · rcases List.mem_append.1 hc with h | h
    · exact hsign c h
    · exact plain_digit (natDec_digits _ c h)
  · simp only [List.append_assoc, List.mem_append, List.mem_singleton, List.mem_replicate] at hc
    rcases hc with h | h | h | h | h
    · exact hsign c h
    · exact plain_digit (natDec_digits _ c h)
    · subst h; unfold plain; decide
    · rw [h.2]; unfold plain; decide
    · exact plain_digit (natDec_digits _ c h)

theorem plain_indent (k : Nat) : ∀ c ∈ indent k, plain c := by
  intro c hc
  simp only [indent, List.mem_replicate] at hc
  rw [hc.2]; unfold plain; decide

theorem plain_sep (b : Bool) : ∀ c ∈ sep b, plain c := by
  intro c hc
  cases b <;> simp [sep] at hc <;> rcases hc with rfl | rfl <;> (unfold plain; decide)

mutual
theorem quiet_ser : ∀ (j : Json) (lvl : Nat) (x : List Nat), quiet false false (ser j lvl ++ x) = quiet false false x
  | .null, _, x => by simp only [ser]; exact quiet_plain' _ x (by unfold plain; decide)
  | .bool true, _, x => by simp only [ser]; exact quiet_plain' _ x (by unfold plain; decide)
  | .bool false, _, x => by simp only [ser]; exact quiet_plain' _ x (by unfold plain; decide)
  | .number n k, _, x => by simp only [ser]; exact quiet_plain' _ x (plain_serNumber n k)
  | .numberX _, _, x => by simp only [ser]; exact quiet_plain' _ x (by unfold plain; decide)
  | .string s, _, x => by simp only [ser]; exact quiet_serString s x
  | .array [], _, x => by simp only [ser]; exact quiet_plain' _ x (by unfold plain; decide)
  | .array (v :: vs), lvl, x => by
    have e : ser (.array (v :: vs)) lvl ++ x = [91, 10] ++ (serElems (v :: vs) lvl ++ (indent lvl ++ ([93] ++ x))) := by
      simp [ser]
    rw [e, quiet_plain' _ _ (by unfold plain; decide), quiet_serElems (v :: vs) lvl,
      quiet_plain' _ _ (plain_indent lvl), quiet_plain' _ _ (by unfold plain; decide)]
  | .object [], _, x => by simp only [ser]; exact quiet_plain' _ x (by unfold plain; decide)
  | .object (m :: ms), lvl, x => by
    have e : ser (.object (m :: ms)) lvl ++ x = [123, 10] ++ (serMembers (m :: ms) lvl ++ (indent lvl ++ ([125] ++ x))) := by
      simp [ser]
    rw [e, quiet_plain' _ _ (by unfold plain; decide), quiet_serMembers (m :: ms) lvl,
      quiet_plain' _ _ (plain_indent lvl), quiet_plain' _ _ (by unfold plain; decide)]
theorem quiet_serElems : ∀ (vs : List Json) (lvl : Nat) (x : List Nat),
    quiet false false (serElems vs lvl ++ x) = quiet false false x
  | [], _, x => by simp [serElems]
  | v :: vs, lvl, x => by
    rw [serElems_cons, quiet_plain' _ _ (plain_indent _), quiet_ser v, quiet_plain' _ _ (plain_sep _),
      quiet_serElems vs lvl x]
theorem quiet_serMembers : ∀ (ms : Members) (lvl : Nat) (x : List Nat),
    quiet false false (serMembers ms lvl ++ x) = quiet false false x
  | [], _, x => by simp [serMembers]
  | (k, v) :: ms, lvl, x => by
    rw [serMembers_cons, quiet_plain' _ _ (plain_indent _), quiet_serString,
      show (58 :: 32 :: (ser v (lvl + 1) ++ (sep ms.isEmpty ++ (serMembers ms lvl ++ x))))
        = [58, 32] ++ (ser v (lvl + 1) ++ (sep ms.isEmpty ++ (serMembers ms lvl ++ x))) by simp,
      quiet_plain' _ _ (by unfold plain; decide), quiet_ser v, quiet_plain' _ _ (plain_sep _),
      quiet_serMembers ms lvl x]
end

theorem quiet_serializePretty (j : Json) : quiet false false (serializePretty j) = some (false, false) := by
  have := quiet_ser j 0 []
  simpa [serializePretty, quiet] using this

/-- every prefix of a serialization is handed to `parse_value` unchanged -/
theorem prepare_prefix {j : Json} {p : List Nat} (hp : p <+: serializePretty j) : prepare p = p := by
  obtain ⟨q, hq⟩ := quiet_prefix (quiet_serializePretty j) hp
  exact prepare_quiet hq

end Ovni.Json
