import OvniModel.Lemmas.SystemMain

/-! `CpuOrderSafe` excludes the crash of `load_cpus` (helper lemmas for C15). -/
namespace Ovni.Emu.System

/-- Physical ids of the CPUs of loom `n`, in insertion order. -/
def phyids (cpus : List CpuRow) (n : Str) : List Int :=
  (cpus.filter (fun c => c.loom = n)).map (·.phyid)

theorem ncpus_eq_phyids (cpus : List CpuRow) (n : Str) : ncpus cpus n = (phyids cpus n).length := by
  simp [ncpus, phyids]

theorem findCpu_isSome_iff (cpus : List CpuRow) (n : Str) (p : Int) :
    (findCpu cpus n p).isSome = true ↔ p ∈ phyids cpus n := by
  unfold findCpu phyids
  rw [List.find?_isSome]
  simp only [decide_eq_true_eq, List.mem_map, List.mem_filter]
  constructor
  · rintro ⟨c, hc, h1, h2⟩; exact ⟨c, ⟨hc, h1⟩, h2⟩
  · rintro ⟨c, ⟨hc, h1⟩, h2⟩; exact ⟨c, hc, h1, h2⟩

theorem phyids_append_same (cpus : List CpuRow) (n : Str) (i p : Int) :
    phyids (cpus ++ [⟨n, i, p⟩]) n = phyids cpus n ++ [p] := by
  simp [phyids, List.filter_append]

theorem phyids_append_other (cpus : List CpuRow) (n n' : Str) (i p : Int) (h : n' ≠ n) :
    phyids (cpus ++ [⟨n, i, p⟩]) n' = phyids cpus n' := by
  simp [phyids, List.filter_append, h.symm]

/-- One entry: no crash under the safe condition, and `seen` evolves as in `safeSeq`. -/
theorem loadCpuEntry_safe {n : Str} {cpus : List CpuRow} {i p : Int}
    (hs : p ∈ phyids cpus n ∨ ((phyids cpus n).length : Int) ≤ i ∨ i < 0) :
    loadCpuEntry .asIs n cpus (i, p) ≠ .crash ∧
    ∀ cpus', loadCpuEntry .asIs n cpus (i, p) = .ok cpus' →
      phyids cpus' n = (if p ∈ phyids cpus n then phyids cpus n else phyids cpus n ++ [p]) ∧
      ∀ n', n' ≠ n → phyids cpus' n' = phyids cpus n' := by
  unfold loadCpuEntry
  simp only
  split
  · exact ⟨by simp, by intro _ h; cases h⟩
  split
  · exact ⟨by simp, by intro _ h; cases h⟩
  rename_i hi hp
  cases hf : findCpu cpus n p with
  | some c =>
    have hm : p ∈ phyids cpus n := (findCpu_isSome_iff cpus n p).1 (by rw [hf]; rfl)
    simp only
    split
    · exact ⟨by simp, by intro _ h; cases h⟩
    · refine ⟨by simp, ?_⟩
      intro cpus' h
      cases h
      exact ⟨by simp, fun _ _ => rfl⟩
  | none =>
    have hm : p ∉ phyids cpus n := by
      intro hm
      have := (findCpu_isSome_iff cpus n p).2 hm
      rw [hf] at this; cases this
    have hlen : ((phyids cpus n).length : Int) ≤ i := by
      rcases hs with h | h | h
      · exact absurd h hm
      · exact h
      · exact absurd h hi
    have hget : getCpuEarly .asIs cpus n i = .ok (decide (i = -1)) := by
      simp only [getCpuEarly]
      split
      · rename_i h; simp [h]
      · rename_i h
        rw [ncpus_eq_phyids]
        simp [h, hlen]
    simp only [hget]
    by_cases h1 : i = -1
    · simp only [h1, decide_true]
      exact ⟨by simp, by intro _ h; cases h⟩
    · simp only [h1, decide_false]
      split
      · exact ⟨by simp, by intro _ h; cases h⟩
      · refine ⟨by simp, ?_⟩
        intro cpus' h
        cases h
        exact ⟨by simp [phyids_append_same], fun n' hn => phyids_append_other cpus n n' i p hn⟩

theorem loadCpuList_safe {n : Str} (es : List (Int × Int)) :
    ∀ (cpus : List CpuRow) (rest : List (Int × Int)),
    safeSeq (phyids cpus n) (es ++ rest) = true →
    loadCpuList .asIs n cpus es ≠ .crash ∧
    ∀ cpus', loadCpuList .asIs n cpus es = .ok cpus' →
      safeSeq (phyids cpus' n) rest = true ∧ ∀ n', n' ≠ n → phyids cpus' n' = phyids cpus n' := by
  induction es with
  | nil =>
    intro cpus rest hs
    simp only [loadCpuList]
    refine ⟨by simp, ?_⟩
    intro cpus' h
    cases h
    exact ⟨by simpa using hs, fun _ _ => rfl⟩
  | cons e es ih =>
    intro cpus rest hs
    obtain ⟨i, p⟩ := e
    simp only [List.cons_append, safeSeq] at hs
    have hcond : p ∈ phyids cpus n ∨ ((phyids cpus n).length : Int) ≤ i ∨ i < 0 := by
      by_cases hm : p ∈ phyids cpus n
      · exact Or.inl hm
      · simp only [hm, if_false, Bool.and_eq_true, decide_eq_true_eq] at hs
        exact Or.inr hs.1
    obtain ⟨e1, e2⟩ := loadCpuEntry_safe hcond
    simp only [loadCpuList]
    cases he : loadCpuEntry .asIs n cpus (i, p) with
    | crash => exact absurd he e1
    | error x => exact ⟨by simp, by intro _ h; cases h⟩
    | ok c1 =>
      simp only
      obtain ⟨f1, f2⟩ := e2 c1 he
      have hs' : safeSeq (phyids c1 n) (es ++ rest) = true := by
        rw [f1]
        by_cases hm : p ∈ phyids cpus n
        · simpa [hm] using hs
        · simp only [hm, if_false, Bool.and_eq_true] at hs ⊢
          exact hs.2
      obtain ⟨g1, g2⟩ := ih c1 rest hs'
      refine ⟨g1, ?_⟩
      intro cpus' h
      obtain ⟨k1, k2⟩ := g2 cpus' h
      exact ⟨k1, fun n' hn => by rw [k2 n' hn, f2 n' hn]⟩

theorem loadCpus_safe {n : Str} (cpus : List CpuRow) (o : Option (List (Int × Int)))
    (rest : List (Int × Int)) (hs : safeSeq (phyids cpus n) (o.getD [] ++ rest) = true) :
    loadCpus .asIs n cpus o ≠ .crash ∧
    ∀ cpus', loadCpus .asIs n cpus o = .ok cpus' →
      safeSeq (phyids cpus' n) rest = true ∧ ∀ n', n' ≠ n → phyids cpus' n' = phyids cpus n' := by
  cases o with
  | none =>
    simp only [loadCpus]
    refine ⟨by simp, ?_⟩
    intro cpus' h
    cases h
    exact ⟨by simpa using hs, fun _ _ => rfl⟩
  | some es =>
    cases es with
    | nil => simp only [loadCpus]; exact ⟨by simp, by intro _ h; cases h⟩
    | cons e es =>
      simp only [loadCpus]
      exact loadCpuList_safe (e :: es) cpus rest (by simpa using hs)

theorem cpuSeq_cons (s : StreamMeta) (r : List StreamMeta) (n : Str) :
    cpuSeq (s :: r) n = (if isThr s ∧ s.tp.loom = some n then s.cpus.getD [] else []) ++ cpuSeq r n := by
  simp [cpuSeq]

/-- One stream: no crash, and the safe condition passes to the remaining streams. -/
theorem step_safe {sys : Sys} {s : StreamMeta} {r : List StreamMeta}
    (hs : ∀ n, safeSeq (phyids sys.cpus n) (cpuSeq (s :: r) n) = true) :
    step .asIs sys s ≠ .crash ∧
    ∀ sys', step .asIs sys s = .ok sys' → ∀ n, safeSeq (phyids sys'.cpus n) (cpuSeq r n) = true := by
  cases hpart : s.tp.part with
  | none => unfold step; simp [hpart]
  | some p =>
    by_cases hthr : p = sThread
    · subst hthr
      have histhr : isThr s := hpart
      cases hloom : s.tp.loom with
      | none => unfold step createLoom; simp [hpart, hloom, Res.bind]
      | some n =>
        rw [step_thread hpart hloom]
        have hn := hs n
        rw [cpuSeq_cons] at hn
        simp only [histhr, hloom, and_self, if_true] at hn
        obtain ⟨c1, c2⟩ := loadCpus_safe sys.cpus s.cpus (cpuSeq r n) hn
        cases hls : loomsStep sys.looms n with
        | crash => exact absurd hls (loomsStep_ne_crash _ _)
        | error e => exact ⟨by simp [Res.bind], by intro _ h; simp [Res.bind] at h⟩
        | ok ls =>
        simp only [Res.bind]
        cases hcs : loadCpus .asIs n sys.cpus s.cpus with
        | crash => exact absurd hcs c1
        | error e => exact ⟨by simp, by intro _ h; simp at h⟩
        | ok cs =>
        simp only
        obtain ⟨d1, d2⟩ := c2 cs hcs
        cases hps : createProc sys.procs n s with
        | crash => exact absurd hps (createProc_ne_crash _ _ _)
        | error e => exact ⟨by simp, by intro _ h; simp at h⟩
        | ok ps =>
        simp only
        cases hts : createThread sys.threads n s with
        | crash => exact absurd hts (createThread_ne_crash _ _ _)
        | error e => exact ⟨by simp, by intro _ h; simp at h⟩
        | ok ts =>
        refine ⟨by simp, ?_⟩
        intro sys' h
        simp only [Res.ok.injEq] at h
        subst h
        intro n'
        by_cases hnn : n' = n
        · subst hnn; exact d1
        · simp only
          rw [d2 n' hnn]
          have := hs n'
          rw [cpuSeq_cons] at this
          have hne : ¬ (isThr s ∧ s.tp.loom = some n') := by
            rintro ⟨_, h2⟩
            rw [hloom] at h2
            exact hnn (Option.some.inj h2).symm
          simpa [hne] using this
    · rw [step_other hpart hthr]
      refine ⟨by simp, ?_⟩
      intro sys' h
      cases h
      intro n
      have := hs n
      rw [cpuSeq_cons] at this
      have hne : ¬ (isThr s ∧ s.tp.loom = some n) := by
        rintro ⟨h1, _⟩
        unfold isThr at h1
        rw [hpart] at h1
        exact hthr (Option.some.inj h1)
      simpa [hne] using this

theorem createFrom_safe (r : List StreamMeta) : ∀ (sys : Sys),
    (∀ n, safeSeq (phyids sys.cpus n) (cpuSeq r n) = true) → createFrom .asIs sys r ≠ .crash := by
  induction r with
  | nil => intro sys _; simp [createFrom]
  | cons s r ih =>
    intro sys hs
    obtain ⟨a, b⟩ := step_safe hs
    simp only [createFrom]
    cases hst : step .asIs sys s with
    | crash => exact absurd hst a
    | error e => simp
    | ok sys' => simp only; exact ih sys' (b sys' hst)

theorem cpuSeq_nil_of_absent (l : List StreamMeta) (n : Str)
    (h : ∀ s ∈ l, s.tp.loom ≠ some n) : cpuSeq l n = [] := by
  unfold cpuSeq
  rw [List.flatMap_eq_nil_iff]
  intro s hs
  simp [h s hs]

/-- The explicit order condition excludes the crash. -/
theorem build_asIs_ne_crash_of_safe {ss : List StreamMeta} (h : CpuOrderSafe ss) :
    build .asIs ss ≠ .crash := by
  intro hb
  have hc := build_crash hb
  apply createFrom_safe (load ss) Sys.empty _ hc
  intro n
  show safeSeq [] (cpuSeq (load ss) n) = true
  by_cases hex : ∃ s ∈ ss, s.tp.loom = some n
  · obtain ⟨s, hs, hl⟩ := hex
    unfold CpuOrderSafe at h
    have := List.all_eq_true.1 h s hs
    simpa [hl] using this
  · rw [cpuSeq_nil_of_absent]
    · rfl
    · intro s hs hl
      exact hex ⟨s, (load_perm ss).mem_iff.1 hs, hl⟩

end Ovni.Emu.System
