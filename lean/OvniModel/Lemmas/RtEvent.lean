import OvniModel.Rt.Event

set_option linter.unusedSectionVars false
set_option linter.unusedSimpArgs false
namespace Ovni.Rt

/-! ### Little-endian words -/

theorem le_length (n v : Nat) : (le n v).length = n := by
  induction n generalizing v with
  | zero => rfl
  | succ n ih => simp [le, ih]

theorem unle_le (n v : Nat) : unle (le n v) = v % 256 ^ n := by
  induction n generalizing v with
  | zero => simp [le, unle, Nat.mod_one]
  | succ n ih =>
    simp only [le, unle, ih]
    rw [Nat.pow_succ, Nat.mul_comm (256 ^ n) 256, Nat.mod_mul]

theorem le_bytes (n v : Nat) : ∀ b ∈ le n v, b < 256 := by
  induction n generalizing v with
  | zero => simp [le]
  | succ n ih =>
    intro b hb
    simp only [le, List.mem_cons] at hb
    rcases hb with hb | hb
    · subst hb; omega
    · exact ih _ b hb

/-! ### Payload nibble -/

/-- A user event as the API leaves it: low nibble consistent with the payload
    bytes, no other flag bits. -/
structure Ev.WF (e : Ev) : Prop where
  size : payloadSize e.flags = e.payload.length
  small : e.flags < 16

theorem payloadSize_lt16 (f : Nat) (h : f < 16) : payloadSize f = if f = 0 then 0 else f + 1 := by
  unfold payloadSize
  simp only [Nat.mod_eq_of_lt h]

theorem isJumbo_small (f : Nat) (h : f < 16) : isJumbo f = false := by
  unfold isJumbo
  have : f / 16 = 0 := by omega
  simp [this]

theorem Ev.WF.len_le {e : Ev} (hw : e.WF) : e.payload.length ≤ 16 := by
  have h1 := hw.size
  have h2 := hw.small
  rw [payloadSize_lt16 _ h2] at h1
  split at h1 <;> omega

theorem payloadAdd_spec (e e' : Ev) (ch : List Nat) (hw : e.WF) (h : payloadAdd e ch = some e') :
    e'.WF ∧ e'.payload = e.payload ++ ch ∧ 2 ≤ ch.length ∧ e.payload.length + ch.length ≤ 16 ∧
      e'.m = e.m ∧ e'.c = e.c ∧ e'.v = e.v ∧ e'.clock = e.clock := by
  unfold payloadAdd at h
  rw [isJumbo_small _ hw.small] at h
  simp only [Bool.false_eq_true, if_false] at h
  split at h
  · cases h
  · rename_i h2
    split at h
    · cases h
    · rename_i h16
      cases h
      have hs := hw.size
      have hsm := hw.small
      have hdiv : e.flags / 16 = 0 := by omega
      refine ⟨⟨?_, ?_⟩, ?_, by omega, by omega, rfl, rfl, rfl, rfl⟩
      · simp only [hdiv, Nat.zero_mul, Nat.zero_add]
        rw [payloadSize_lt16 _ (Nat.mod_lt _ (by omega))]
        simp only [hs, List.take_length, List.length_append]
        split <;> omega
      · simp only [hdiv, Nat.zero_mul, Nat.zero_add]; exact Nat.mod_lt _ (by omega)
      · simp only [hs, List.take_length]

theorem payloadAddAll_spec (e e' : Ev) (chs : List (List Nat)) (hw : e.WF)
    (h : payloadAddAll e chs = some e') :
    e'.WF ∧ e'.payload = e.payload ++ chs.flatten ∧ (∀ c ∈ chs, 2 ≤ c.length) ∧
      e.payload.length + chs.flatten.length ≤ 16 ∧
      e'.m = e.m ∧ e'.c = e.c ∧ e'.v = e.v ∧ e'.clock = e.clock := by
  induction chs generalizing e with
  | nil =>
    simp only [payloadAddAll, Option.some.injEq] at h
    subst h
    have := hw.len_le
    simp [hw]; omega
  | cons ch chs ih =>
    simp only [payloadAddAll] at h
    cases h1 : payloadAdd e ch with
    | none => rw [h1] at h; cases h
    | some e1 =>
      rw [h1] at h
      obtain ⟨w1, p1, l1, t1, m1, c1, v1, k1⟩ := payloadAdd_spec e e1 ch hw h1
      obtain ⟨w2, p2, l2, t2, m2, c2, v2, k2⟩ := ih e1 w1 h
      refine ⟨w2, ?_, ?_, ?_, by rw [m2, m1], by rw [c2, c1], by rw [v2, v1], by rw [k2, k1]⟩
      · rw [p2, p1]; simp
      · intro c hc
        simp only [List.mem_cons] at hc
        rcases hc with hc | hc
        · subst hc; exact l1
        · exact l2 c hc
      · rw [p1] at t2
        simp only [List.length_append, List.flatten_cons] at t2 ⊢
        omega

theorem payloadAdd_accepts (e : Ev) (ch : List Nat) (hw : e.WF) (h2 : 2 ≤ ch.length)
    (h16 : e.payload.length + ch.length ≤ 16) : (payloadAdd e ch).isSome = true := by
  unfold payloadAdd
  rw [isJumbo_small _ hw.small]
  have hs := hw.size
  simp only [Bool.false_eq_true, if_false]
  have a : ¬ ch.length < 2 := by omega
  have b : ¬ payloadSize e.flags + ch.length > 16 := by omega
  simp [a, b]

theorem payloadAddAll_accepts (e : Ev) (chs : List (List Nat)) (hw : e.WF)
    (h2 : ∀ c ∈ chs, 2 ≤ c.length) (h16 : e.payload.length + chs.flatten.length ≤ 16) :
    (payloadAddAll e chs).isSome = true := by
  induction chs generalizing e with
  | nil => rfl
  | cons ch chs ih =>
    simp only [payloadAddAll]
    have hl : e.payload.length + ch.length ≤ 16 := by
      simp only [List.flatten_cons, List.length_append] at h16; omega
    have := payloadAdd_accepts e ch hw (h2 ch (by simp)) hl
    cases h1 : payloadAdd e ch with
    | none => rw [h1] at this; cases this
    | some e1 =>
      obtain ⟨w1, p1, _, _, _⟩ := payloadAdd_spec e e1 ch hw h1
      apply ih e1 w1 (fun c hc => h2 c (by simp [hc]))
      rw [p1]
      simp only [List.flatten_cons, List.length_append] at h16 ⊢
      omega

/-! ### Encoding length and decoder round trip -/

variable {D : Type} [JData D]

/-- Records the library puts in the buffer: API-built events, or jumbo records
    built by `ovni_ev_add_jumbo` (nibble 3 + jumbo bit, size below 2^32). -/
inductive Rec.WF : Rec D → Prop where
  | ev (e : Ev) : e.WF → Rec.WF (.ev e)
  | jumbo (e : Ev) (d : D) : e.flags = 19 → JData.len d < 2 ^ 32 → Rec.WF (.jumbo e d)

theorem headerBytes_length (e : Ev) : (headerBytes e).length = 12 := by
  simp [headerBytes, le_length]

theorem encode_length (r : Rec D) (h : r.WF) : r.encode.length = r.size := by
  cases h with
  | ev e hw =>
    simp only [Rec.encode, Rec.size, List.length_append, headerBytes_length, List.length_take]
    have := hw.size
    omega
  | jumbo e d hf hl =>
    simp only [Rec.encode, Rec.size, List.length_append, headerBytes_length, le_length,
      JData.len_eq]

theorem decodeOne_encode (r : Rec D) (h : r.WF) (rest : List Nat) :
    decodeOne (r.encode ++ rest) = some (r.toDec, rest) := by
  cases h with
  | ev e hw =>
    have hs := hw.size
    have hsm := hw.small
    have hj : isJumbo (e.flags % 256) = false := by
      rw [Nat.mod_eq_of_lt (by omega)]; exact isJumbo_small _ hsm
    have hp : payloadSize (e.flags % 256) = payloadSize e.flags := by
      rw [Nat.mod_eq_of_lt (by omega)]
    simp only [Rec.encode, headerBytes, List.cons_append, List.nil_append, List.append_assoc,
      decodeOne, Rec.toDec]
    have l8 : (le 8 e.clock).length = 8 := le_length 8 e.clock
    have hlen : ¬ ((le 8 e.clock ++ (List.take (payloadSize e.flags) e.payload ++ rest)).length < 8) := by
      simp only [List.length_append, l8]; omega
    simp only [hlen, if_false]
    have t8 : List.take 8 (le 8 e.clock ++ (List.take (payloadSize e.flags) e.payload ++ rest))
        = le 8 e.clock := by
      rw [List.take_append_of_le_length (by omega)]
      rw [List.take_of_length_le (by omega)]
    have d8 : List.drop 8 (le 8 e.clock ++ (List.take (payloadSize e.flags) e.payload ++ rest))
        = List.take (payloadSize e.flags) e.payload ++ rest := by
      rw [List.drop_append_of_le_length (by omega)]
      rw [List.drop_of_length_le (by omega)]; rfl
    simp only [t8, d8, hj, Bool.false_eq_true, if_false, hp, unle_le]
    have tl : (List.take (payloadSize e.flags) e.payload).length = payloadSize e.flags := by
      simp only [List.length_take]; omega
    have hlen2 : ¬ ((List.take (payloadSize e.flags) e.payload ++ rest).length < payloadSize e.flags) := by
      simp only [List.length_append, tl]; omega
    simp only [hlen2, if_false]
    rw [List.take_append_of_le_length (by omega), List.take_of_length_le (by omega)]
    rw [List.drop_append_of_le_length (by omega), List.drop_of_length_le (by omega)]
    simp
  | jumbo e d hf hl =>
    have hj : isJumbo (e.flags % 256) = true := by rw [hf]; decide
    simp only [Rec.encode, headerBytes, List.cons_append, List.nil_append, List.append_assoc,
      decodeOne, Rec.toDec]
    have l8 : (le 8 e.clock).length = 8 := le_length 8 e.clock
    have l4 : (le 4 (JData.len d)).length = 4 := le_length 4 _
    have hlen : ¬ ((le 8 e.clock ++ (le 4 (JData.len d) ++ (JData.bytes d ++ rest))).length < 8) := by
      simp only [List.length_append, l8]; omega
    simp only [hlen, if_false]
    have t8 : List.take 8 (le 8 e.clock ++ (le 4 (JData.len d) ++ (JData.bytes d ++ rest)))
        = le 8 e.clock := by
      rw [List.take_append_of_le_length (by omega)]
      rw [List.take_of_length_le (by omega)]
    have d8 : List.drop 8 (le 8 e.clock ++ (le 4 (JData.len d) ++ (JData.bytes d ++ rest)))
        = le 4 (JData.len d) ++ (JData.bytes d ++ rest) := by
      rw [List.drop_append_of_le_length (by omega)]
      rw [List.drop_of_length_le (by omega)]; rfl
    simp only [t8, d8, hj, if_true, unle_le]
    have hlen4 : ¬ ((le 4 (JData.len d) ++ (JData.bytes d ++ rest)).length < 4) := by
      simp only [List.length_append, l4]; omega
    simp only [hlen4, if_false]
    have t4 : List.take 4 (le 4 (JData.len d) ++ (JData.bytes d ++ rest)) = le 4 (JData.len d) := by
      rw [List.take_append_of_le_length (by omega), List.take_of_length_le (by omega)]
    have d4 : List.drop 4 (le 4 (JData.len d) ++ (JData.bytes d ++ rest)) = JData.bytes d ++ rest := by
      rw [List.drop_append_of_le_length (by omega), List.drop_of_length_le (by omega)]; rfl
    simp only [t4, d4, unle_le]
    have hmod : JData.len d % 256 ^ 4 = JData.len d := Nat.mod_eq_of_lt (by
      have : (256 : Nat) ^ 4 = 2 ^ 32 := by decide
      omega)
    have hb : (JData.bytes d).length = JData.len d := (JData.len_eq d).symm
    simp only [hmod]
    have hlen5 : ¬ ((JData.bytes d ++ rest).length < JData.len d) := by
      simp only [List.length_append, hb]; omega
    simp only [hlen5, if_false]
    rw [List.take_append_of_le_length (by omega), List.take_of_length_le (by omega)]
    rw [List.drop_append_of_le_length (by omega), List.drop_of_length_le (by omega)]
    simp

theorem encode_ne_nil (r : Rec D) (h : r.WF) : r.encode ≠ [] := by
  intro hn
  have := encode_length r h
  rw [hn] at this
  cases r <;> simp only [Rec.size, List.length_nil] at this <;> omega

theorem decodeAll_step (fuel : Nat) (bs : List Nat) (h : bs ≠ []) :
    decodeAll (fuel + 1) bs =
      match decodeOne bs with
      | none => none
      | some (e, rest) =>
        match decodeAll fuel rest with
        | none => none
        | some es => some (e :: es) := by
  cases bs with
  | nil => exact absurd rfl h
  | cons b bs => rfl

theorem decodeAll_encode (rs : List (Rec D)) (h : ∀ r ∈ rs, r.WF) (fuel : Nat)
    (hf : (rs.flatMap Rec.encode).length ≤ fuel) :
    decodeAll fuel (rs.flatMap Rec.encode) = some (rs.map Rec.toDec) := by
  induction rs generalizing fuel with
  | nil => cases fuel <;> rfl
  | cons r rs ih =>
    have hw := h r (by simp)
    have hne := encode_ne_nil r hw
    simp only [List.flatMap_cons, List.length_append] at hf ⊢
    have hpos : 0 < r.encode.length := List.length_pos_iff.mpr hne
    cases fuel with
    | zero => omega
    | succ fuel =>
      rw [decodeAll_step fuel _ (by simp [hne]), decodeOne_encode r hw]
      simp only
      rw [ih (fun x hx => h x (by simp [hx])) fuel (by omega)]
      simp

end Ovni.Rt
