import OvniModel.Emu.SystemSpec

/-! Invariants of the CPU table under `load_cpus` (helper lemmas for C15). -/
namespace Ovni.Emu.System

abbrev CFact := Str × Option (Int × Int)

def cpuFact (c : CpuRow) : CFact := (c.loom, some (c.index, c.phyid))

/-- Invariant of the CPU table with respect to the CPU facts `F` merged so far. -/
structure CpuInv (F : List CFact) (cpus : List CpuRow) : Prop where
  nodup : cpus.Pairwise (fun a b => ¬ (a.loom = b.loom ∧ a.phyid = b.phyid))
  sound : ∀ c ∈ cpus, cpuFact c ∈ F ∧ 0 ≤ c.index ∧ 0 ≤ c.phyid
  complete : ∀ n i p, (n, some (i, p)) ∈ F → (⟨n, i, p⟩ : CpuRow) ∈ cpus

/-- Clauses 2 and 3 of `CpuOK` (those that speak about entries). -/
def CpuOK2 (F : List CFact) : Prop :=
  (∀ n i p, (n, some (i, p)) ∈ F → 0 ≤ i ∧ 0 ≤ p) ∧
  (∀ n i i' p, (n, some (i, p)) ∈ F → (n, some (i', p)) ∈ F → i = i')

theorem CpuOK2.mono {F G : List CFact} (h : CpuOK2 G) (hs : F ⊆ G) : CpuOK2 F :=
  ⟨fun n i p hm => h.1 n i p (hs hm), fun n i i' p h1 h2 => h.2 n i i' p (hs h1) (hs h2)⟩

theorem IndexOK.mono {F G : List CFact} (h : IndexOK G) (hs : F ⊆ G) : IndexOK F :=
  fun n i p p' h1 h2 => h n i p p' (hs h1) (hs h2)

theorem CpuInv.nil : CpuInv [] [] := by
  refine ⟨List.Pairwise.nil, ?_, ?_⟩
  · intro c h; cases h
  · intro n i p h; cases h

theorem getCpuEarly_ne_error (m : Mode) (cpus : List CpuRow) (n : Str) (i : Int) (x : Err) :
    getCpuEarly m cpus n i ≠ .error x := by
  cases m <;> simp only [getCpuEarly] <;> repeat' split
  all_goals simp

theorem findCpu_some {cpus : List CpuRow} {n : Str} {p : Int} {c : CpuRow}
    (h : findCpu cpus n p = some c) : c ∈ cpus ∧ c.loom = n ∧ c.phyid = p := by
  unfold findCpu at h
  have h1 := List.mem_of_find?_eq_some h
  have h2 := List.find?_some h
  simp only [decide_eq_true_eq] at h2
  exact ⟨h1, h2.1, h2.2⟩

theorem findCpu_none {cpus : List CpuRow} {n : Str} {p : Int}
    (h : findCpu cpus n p = none) : ∀ c ∈ cpus, ¬ (c.loom = n ∧ c.phyid = p) := by
  unfold findCpu at h
  intro c hc
  have := List.find?_eq_none.1 h c hc
  simpa using this

theorem findCpuIdx_some {cpus : List CpuRow} {n : Str} {i : Int} {c : CpuRow}
    (h : findCpuIdx cpus n i = some c) : c ∈ cpus ∧ c.loom = n ∧ c.index = i := by
  unfold findCpuIdx at h
  have h1 := List.mem_of_find?_eq_some h
  have h2 := List.find?_some h
  simp only [decide_eq_true_eq] at h2
  exact ⟨h1, h2.1, h2.2⟩

/-- A successful iteration of `load_cpus` keeps the invariant, the entry is now
    part of the merged facts. -/
theorem loadCpuEntry_ok {m : Mode} {n : Str} {cpus cpus' : List CpuRow} {e : Int × Int}
    {F : List CFact} (h : loadCpuEntry m n cpus e = .ok cpus') (inv : CpuInv F cpus) :
    CpuInv (F ++ [(n, some e)]) cpus' := by
  obtain ⟨i, p⟩ := e
  unfold loadCpuEntry at h
  simp only at h
  split at h
  · cases h
  split at h
  · cases h
  rename_i hi hp
  split at h
  · -- phyid already known
    rename_i c hc
    obtain ⟨hcm, hcl, hcp⟩ := findCpu_some hc
    split at h
    · cases h
    rename_i hidx
    cases h
    have hidx : c.index = i := by simpa using hidx
    refine ⟨inv.nodup, ?_, ?_⟩
    · intro d hd
      have := inv.sound d hd
      exact ⟨List.mem_append_left _ this.1, this.2⟩
    · intro n' i' p' hm
      rcases List.mem_append.1 hm with hm | hm
      · exact inv.complete n' i' p' hm
      · simp only [List.mem_singleton, Prod.mk.injEq, Option.some.injEq] at hm
        obtain ⟨rfl, rfl, rfl⟩ := hm
        have : c = ⟨c.loom, c.index, c.phyid⟩ := rfl
        rw [← hcl, ← hidx, ← hcp, ← this]
        exact hcm
  · rename_i hnone
    have hno := findCpu_none hnone
    split at h
    · cases h
    · cases h
    · cases h
    · split at h
      · cases h
      rename_i hp2
      cases h
      refine ⟨?_, ?_, ?_⟩
      · refine List.pairwise_append.2 ⟨inv.nodup, List.pairwise_singleton _ _, ?_⟩
        intro a ha b hb
        simp only [List.mem_singleton] at hb
        subst hb
        exact hno a ha
      · intro d hd
        rcases List.mem_append.1 hd with hd | hd
        · have := inv.sound d hd
          exact ⟨List.mem_append_left _ this.1, this.2⟩
        · simp only [List.mem_singleton] at hd
          subst hd
          refine ⟨List.mem_append_right _ (by simp [cpuFact]), ?_, ?_⟩ <;> simp only <;> omega
      · intro n' i' p' hm
        rcases List.mem_append.1 hm with hm | hm
        · exact List.mem_append_left _ (inv.complete n' i' p' hm)
        · simp only [List.mem_singleton, Prod.mk.injEq, Option.some.injEq] at hm
          obtain ⟨rfl, rfl, rfl⟩ := hm
          exact List.mem_append_right _ (by simp)

/-- A failing iteration of `load_cpus` exhibits a contradiction among the facts. -/
theorem loadCpuEntry_error {m : Mode} {n : Str} {cpus : List CpuRow} {e : Int × Int} {x : Err}
    {F : List CFact} (h : loadCpuEntry m n cpus e = .error x) (inv : CpuInv F cpus) :
    ¬ (CpuOK2 (F ++ [(n, some e)]) ∧ IndexOK (F ++ [(n, some e)])) := by
  obtain ⟨i, p⟩ := e
  rintro ⟨ok2, iok⟩
  have hself : (n, some (i, p)) ∈ F ++ [(n, some (i, p))] := List.mem_append_right _ (by simp)
  have hpos := ok2.1 n i p hself
  unfold loadCpuEntry at h
  simp only at h
  split at h
  · omega
  split at h
  · omega
  split at h
  · rename_i c hc
    obtain ⟨hcm, hcl, hcp⟩ := findCpu_some hc
    split at h
    · rename_i hidx
      have hf := (inv.sound c hcm).1
      have : (n, some (c.index, p)) ∈ F ++ [(n, some (i, p))] := by
        apply List.mem_append_left
        simpa [cpuFact, hcl, hcp] using hf
      exact hidx (ok2.2 n c.index i p this hself)
    · cases h
  · rename_i hnone
    have hno := findCpu_none hnone
    split at h
    · cases h
    · rename_i hget
      exact absurd hget (getCpuEarly_ne_error _ _ _ _ _)
    · -- getCpuEarly returned a CPU
      rename_i hget
      cases m with
      | asIs =>
        simp only [getCpuEarly] at hget
        split at hget
        · omega
        · split at hget <;> cases hget
      | fixed =>
        simp only [getCpuEarly] at hget
        split at hget
        · omega
        · simp only [Res.ok.injEq] at hget
          cases hf : findCpuIdx cpus n i with
          | none => simp [hf] at hget
          | some c =>
            obtain ⟨hcm, hcl, hci⟩ := findCpuIdx_some hf
            have hfact := (inv.sound c hcm).1
            have : (n, some (i, c.phyid)) ∈ F ++ [(n, some (i, p))] := by
              apply List.mem_append_left
              simpa [cpuFact, hcl, hci] using hfact
            have := iok n i c.phyid p this hself
            exact hno c hcm ⟨hcl, this⟩
    · split at h
      · omega
      · cases h

theorem loadCpuList_ok {m : Mode} {n : Str} (es : List (Int × Int)) :
    ∀ {cpus cpus' : List CpuRow} {F : List CFact},
    loadCpuList m n cpus es = .ok cpus' → CpuInv F cpus →
    CpuInv (F ++ es.map (fun e => (n, some e))) cpus' := by
  induction es with
  | nil =>
    intro cpus cpus' F h inv
    simp only [loadCpuList] at h
    cases h
    simpa using inv
  | cons e es ih =>
    intro cpus cpus' F h inv
    simp only [loadCpuList] at h
    split at h
    · rename_i c1 h1
      have := ih h (loadCpuEntry_ok h1 inv)
      simpa [List.append_assoc] using this
    · cases h
    · cases h

theorem loadCpuList_error {m : Mode} {n : Str} (es : List (Int × Int)) :
    ∀ {cpus : List CpuRow} {x : Err} {F : List CFact},
    loadCpuList m n cpus es = .error x → CpuInv F cpus →
    ¬ (CpuOK2 (F ++ es.map (fun e => (n, some e))) ∧ IndexOK (F ++ es.map (fun e => (n, some e)))) := by
  induction es with
  | nil =>
    intro cpus x F h inv
    simp only [loadCpuList] at h
    cases h
  | cons e es ih =>
    intro cpus x F h inv
    simp only [loadCpuList] at h
    split at h
    · rename_i c1 h1
      have := ih h (loadCpuEntry_ok h1 inv)
      simpa [List.append_assoc] using this
    · rename_i x1 h1
      cases h
      have := loadCpuEntry_error h1 inv
      intro ⟨a, b⟩
      apply this
      have hs : F ++ [(n, some e)] ⊆ F ++ List.map (fun e => (n, some e)) (e :: es) := by
        intro y hy
        rcases List.mem_append.1 hy with hy | hy
        · exact List.mem_append_left _ hy
        · simp only [List.mem_singleton] at hy
          subst hy
          exact List.mem_append_right _ (by simp)
      exact ⟨a.mono hs, b.mono hs⟩
    · cases h

/-- Facts contributed by a list of entries / by an optional array, for loom `n`. -/
def entryFacts (n : Str) : Option (List (Int × Int)) → List CFact
  | none => []
  | some [] => [(n, none)]
  | some es => es.map fun e => (n, some e)

theorem loadCpus_ok {m : Mode} {n : Str} {cpus cpus' : List CpuRow} {F : List CFact}
    {o : Option (List (Int × Int))}
    (h : loadCpus m n cpus o = .ok cpus') (inv : CpuInv F cpus) :
    CpuInv (F ++ entryFacts n o) cpus' ∧ ∀ n', (n', none) ∉ entryFacts n o := by
  cases o with
  | none =>
    simp only [loadCpus] at h
    cases h
    simp [entryFacts, inv]
  | some es =>
    cases es with
    | nil => simp [loadCpus] at h
    | cons e es =>
      simp only [loadCpus] at h
      refine ⟨loadCpuList_ok _ h inv, ?_⟩
      intro n' hm
      simp [entryFacts] at hm

theorem loadCpus_error {m : Mode} {n : Str} {cpus : List CpuRow} {x : Err} {F : List CFact}
    {o : Option (List (Int × Int))}
    (h : loadCpus m n cpus o = .error x) (inv : CpuInv F cpus) :
    ¬ (CpuOK (F ++ entryFacts n o) ∧ IndexOK (F ++ entryFacts n o)) := by
  cases o with
  | none => simp [loadCpus] at h
  | some es =>
    cases es with
    | nil =>
      intro ⟨a, _⟩
      exact a.1 n (List.mem_append_right _ (by simp [entryFacts]))
    | cons e es =>
      simp only [loadCpus] at h
      have := loadCpuList_error _ h inv
      intro ⟨a, b⟩
      exact this ⟨⟨a.2.1, a.2.2⟩, b⟩

end Ovni.Emu.System
