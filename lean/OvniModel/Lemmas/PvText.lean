import OvniModel.Emu.PvText
import OvniModel.Lemmas.Version

/-
  C13 text level: helper lemmas — decimal numbers read back, lines split
  back, the length of the padded header field.
-/
namespace Ovni.Emu.PvText
open Ovni.Version (takeWhile_all dropWhile_all takeWhile_append_stop dropWhile_append_stop)

/-! ### splitting -/

theorem splitNl_ne_nil (t : Text) : splitNl t ≠ [] := by
  induction t with
  | nil => simp [splitNl]
  | cons c cs ih =>
    unfold splitNl
    split
    · simp
    · split <;> simp

/-- a newline-free piece followed by a newline is the first line -/
theorem splitNl_line (l rest : Text) (h : '\n' ∉ l) : splitNl (l ++ '\n' :: rest) = l :: splitNl rest := by
  induction l with
  | nil => simp [splitNl]
  | cons c cs ih =>
    have hc : c ≠ '\n' := by intro e; apply h; simp [e]
    have hcs : '\n' ∉ cs := by intro e; apply h; simp [e]
    rw [List.cons_append, splitNl, if_neg hc, ih hcs]

/-- a newline-free piece at the end is the last line -/
theorem splitNl_last (l : Text) (h : '\n' ∉ l) : splitNl l = [l] := by
  induction l with
  | nil => rfl
  | cons c cs ih =>
    have hc : c ≠ '\n' := by intro e; apply h; simp [e]
    have hcs : '\n' ∉ cs := by intro e; apply h; simp [e]
    rw [splitNl, if_neg hc, ih hcs]

/-- splitting distributes over a newline, whatever comes before it -/
theorem splitNl_append_nl (p q : Text) : ∃ a b, splitNl p = a ++ [b] ∧
    splitNl (p ++ '\n' :: q) = a ++ [b] ++ splitNl q := by
  induction p with
  | nil => exact ⟨[], [], rfl, by simp [splitNl]⟩
  | cons c cs ih =>
    obtain ⟨a, b, h1, h2⟩ := ih
    by_cases hc : c = '\n'
    · subst hc
      refine ⟨[] :: a, b, ?_, ?_⟩
      · rw [splitNl, if_pos rfl, h1]; rfl
      · rw [List.cons_append, splitNl, if_pos rfl, h2]; simp
    · cases a with
      | nil =>
        refine ⟨[], c :: b, ?_, ?_⟩
        · rw [splitNl, if_neg hc, h1]; rfl
        · rw [List.cons_append, splitNl, if_neg hc, h2]; rfl
      | cons a0 as =>
        refine ⟨(c :: a0) :: as, b, ?_, ?_⟩
        · rw [splitNl, if_neg hc, h1]; rfl
        · rw [List.cons_append, splitNl, if_neg hc, h2]; rfl

/-! ### literals -/

theorem expect_append (lit rest : Text) : expect lit (lit ++ rest) = some rest := by
  induction lit with
  | nil => cases rest <;> rfl
  | cons c cs ih => simp [expect, ih]

/-! ### decimal numbers -/

theorem natDec_digits (n : Nat) : ∀ c ∈ natDec n, c.isDigit = true :=
  fun _ hc => Nat.isDigit_of_mem_toDigits (by decide) (by decide) hc

theorem natDec_ne_nil (n : Nat) : natDec n ≠ [] := Nat.toDigits_ne_nil

theorem natDec_no_nl (n : Nat) : '\n' ∉ natDec n := by
  intro h; have := natDec_digits n _ h; revert this; decide

theorem natDec_val (n : Nat) : Nat.ofDigitChars 10 (natDec n) 0 = n := Nat.ofDigitChars_ten_toDigits

/-- digits followed by a non-digit (or nothing) are read back -/
theorem readNat_digits (ds rest : Text) (hne : ds ≠ []) (hd : ∀ c ∈ ds, c.isDigit = true)
    (hr : ∀ c r, rest = c :: r → c.isDigit = false) :
    readNat (ds ++ rest) = some (Nat.ofDigitChars 10 ds 0, rest) := by
  unfold readNat
  cases rest with
  | nil =>
    simp only [List.append_nil]
    rw [takeWhile_all _ _ hd, dropWhile_all _ _ hd]
    cases ds with
    | nil => exact absurd rfl hne
    | cons d ds => rfl
  | cons c r =>
    have hc := hr c r rfl
    rw [takeWhile_append_stop _ _ _ _ hd hc, dropWhile_append_stop _ _ _ _ hd hc]
    cases ds with
    | nil => exact absurd rfl hne
    | cons d ds => rfl

theorem readNat_natDec (n : Nat) (rest : Text) (hr : ∀ c r, rest = c :: r → c.isDigit = false) :
    readNat (natDec n ++ rest) = some (n, rest) := by
  rw [readNat_digits _ _ (natDec_ne_nil n) (natDec_digits n) hr, natDec_val]

theorem zeros_digits (k : Nat) : ∀ c ∈ List.replicate k '0', c.isDigit = true := by
  intro c hc; rw [(List.mem_replicate.mp hc).2]; decide

/-- leading zeros do not change the value -/
theorem readNat_padded (k n : Nat) (rest : Text) (hr : ∀ c r, rest = c :: r → c.isDigit = false) :
    readNat (List.replicate k '0' ++ natDec n ++ rest) = some (n, rest) := by
  rw [readNat_digits (List.replicate k '0' ++ natDec n) rest (by simp [natDec_ne_nil])
    (by intro c hc; rcases List.mem_append.mp hc with h | h
        · exact zeros_digits k c h
        · exact natDec_digits n c h) hr]
  rw [Nat.ofDigitChars_append, Nat.ofDigitChars_replicate_zero, Nat.mul_zero]
  have := Nat.ofDigitChars_eq_ofDigitChars_zero (l := natDec n) (init := 0)
  rw [natDec_val]

theorem natDec_head_ne_minus (n : Nat) (rest : Text) : ∃ d t, natDec n ++ rest = d :: t ∧ d ≠ '-' := by
  cases h : natDec n with
  | nil => exact absurd h (natDec_ne_nil n)
  | cons d ds =>
    refine ⟨d, ds ++ rest, rfl, ?_⟩
    intro e
    have := natDec_digits n d (by rw [h]; simp)
    rw [e] at this; revert this; decide

theorem readInt_of_not_minus (t : Text) (h : ∀ r, t ≠ '-' :: r) :
    readInt t = (readNat t).map fun nr => ((nr.1 : Int), nr.2) := by
  unfold readInt
  split
  · rename_i r; exact absurd rfl (h r)
  · rfl

theorem readInt_minus (t : Text) : readInt ('-' :: t) = (readNat t).map fun nr => (-(nr.1 : Int), nr.2) := by
  unfold readInt
  split
  · rename_i t' heq; cases heq; rfl
  · rename_i h; exact absurd rfl (h t)

theorem readInt_intDec (i : Int) (rest : Text) (hr : ∀ c r, rest = c :: r → c.isDigit = false) :
    readInt (intDec i ++ rest) = some (i, rest) := by
  cases i with
  | ofNat n =>
    show readInt (natDec n ++ rest) = _
    obtain ⟨d, t, e, hd⟩ := natDec_head_ne_minus n rest
    rw [readInt_of_not_minus _ (by intro r h; rw [e] at h; exact hd (List.cons.inj h).1), readNat_natDec n rest hr]
    rfl
  | negSucc n =>
    show readInt ('-' :: (natDec (n + 1) ++ rest)) = _
    rw [readInt_minus, readNat_natDec (n + 1) rest hr]
    simp only [Option.map_some, Option.some.injEq, Prod.mk.injEq, and_true]
    omega

theorem readInt_intPad0 (w : Nat) (i : Int) (rest : Text) (hr : ∀ c r, rest = c :: r → c.isDigit = false) :
    readInt (intPad0 w i ++ rest) = some (i, rest) := by
  cases i with
  | ofNat n =>
    show readInt (List.replicate _ '0' ++ natDec n ++ rest) = _
    have hnm : ∀ r, List.replicate (w - (natDec n).length) '0' ++ natDec n ++ rest ≠ '-' :: r := by
      intro r h
      cases hk : w - (natDec n).length with
      | zero =>
        rw [hk] at h
        obtain ⟨d, t, e, hd⟩ := natDec_head_ne_minus n rest
        simp only [List.replicate_zero, List.nil_append] at h
        rw [e] at h; exact hd (List.cons.inj h).1
      | succ k =>
        rw [hk, List.replicate_succ] at h
        simp only [List.cons_append] at h
        exact absurd (List.cons.inj h).1 (by decide)
    rw [readInt_of_not_minus _ hnm, readNat_padded _ n rest hr]
    rfl
  | negSucc n =>
    show readInt ('-' :: (List.replicate _ '0' ++ natDec (n + 1)) ++ rest) = _
    rw [List.cons_append, readInt_minus, readNat_padded _ (n + 1) rest hr]
    simp only [Option.map_some, Option.some.injEq, Prod.mk.injEq, and_true]
    omega

theorem intDec_no_nl (i : Int) : '\n' ∉ intDec i := by
  cases i with
  | ofNat n => exact natDec_no_nl n
  | negSucc n =>
    show '\n' ∉ '-' :: natDec (n + 1)
    intro h
    rcases List.mem_cons.mp h with h | h
    · revert h; decide
    · exact natDec_no_nl _ h

theorem intPad0_no_nl (w : Nat) (i : Int) : '\n' ∉ intPad0 w i := by
  cases i with
  | ofNat n =>
    show '\n' ∉ List.replicate _ '0' ++ natDec n
    intro h
    rcases List.mem_append.mp h with h | h
    · have := (List.mem_replicate.mp h).2; revert this; decide
    · exact natDec_no_nl _ h
  | negSucc n =>
    show '\n' ∉ '-' :: (List.replicate _ '0' ++ natDec (n + 1))
    intro h
    rcases List.mem_cons.mp h with h | h
    · revert h; decide
    · rcases List.mem_append.mp h with h | h
      · have := (List.mem_replicate.mp h).2; revert this; decide
      · exact natDec_no_nl _ h

/-! ### .prv: header and lines read back -/

/-- the header line without its newline -/
def prvHeaderLine (nrows : Nat) (duration : Int) : Text :=
  litParaver ++ (intPad0 20 duration ++ (litNs ++ (natDec nrows ++ litHdrEnd)))

theorem prvHeader_eq (nrows : Nat) (duration : Int) :
    prvHeader nrows duration = prvHeaderLine nrows duration ++ ['\n'] := by
  simp only [prvHeader, prvHeaderLine, List.append_assoc]

theorem lit_no_nl_1 : '\n' ∉ litParaver := by decide
theorem lit_no_nl_2 : '\n' ∉ litNs := by decide
theorem lit_no_nl_3 : '\n' ∉ litHdrEnd := by decide
theorem lit_no_nl_4 : '\n' ∉ litRec := by decide
theorem litNs_head : ∀ c r, litNs ++ t = c :: r → c.isDigit = false := by
  intro c r h
  have : litNs = '_' :: "ns:0:1:1(".toList := by decide
  rw [this] at h; cases h; decide
theorem litHdrEnd_head : ∀ c r, litHdrEnd = c :: r → c.isDigit = false := by
  intro c r h
  have : litHdrEnd = ':' :: "1)".toList := by decide
  rw [this] at h; cases h; decide

theorem prvHeaderLine_no_nl (nrows : Nat) (duration : Int) : '\n' ∉ prvHeaderLine nrows duration := by
  simp only [prvHeaderLine, List.mem_append, not_or]
  exact ⟨lit_no_nl_1, intPad0_no_nl _ _, lit_no_nl_2, natDec_no_nl _, lit_no_nl_3⟩

theorem parsePrvHeader_line (nrows : Nat) (duration : Int) :
    parsePrvHeader (prvHeaderLine nrows duration) = some (duration, nrows) := by
  unfold parsePrvHeader prvHeaderLine
  rw [expect_append]
  simp only [Option.bind_eq_bind, Option.bind_some]
  rw [readInt_intPad0 20 duration _ litNs_head]
  simp only [Option.bind_some]
  rw [expect_append]
  simp only [Option.bind_some]
  rw [readNat_natDec nrows _ litHdrEnd_head]
  simp only [Option.bind_some]
  have := expect_append litHdrEnd []
  rw [List.append_nil] at this
  rw [this]
  rfl

/-- a record line without its newline -/
def prvLineBody (l : Int × Nat × Nat × Int) : Text :=
  litRec ++ (natDec l.2.1 ++ (':' :: (intDec l.1 ++ (':' :: (natDec l.2.2.1 ++ (':' :: intDec l.2.2.2))))))

theorem prvLine_eq (l : Int × Nat × Nat × Int) : prvLine l = prvLineBody l ++ ['\n'] := by
  simp only [prvLine, prvLineBody, List.append_assoc, List.cons_append, List.nil_append]

theorem prvLineBody_no_nl (l : Int × Nat × Nat × Int) : '\n' ∉ prvLineBody l := by
  simp only [prvLineBody, List.mem_append, List.mem_cons, not_or]
  exact ⟨lit_no_nl_4, natDec_no_nl _, by decide, intDec_no_nl _, by decide, natDec_no_nl _, by decide, intDec_no_nl _⟩

theorem parsePrvLine_body (l : Int × Nat × Nat × Int) : parsePrvLine (prvLineBody l) = some l := by
  obtain ⟨t, row, ty, v⟩ := l
  unfold parsePrvLine prvLineBody
  rw [expect_append]
  simp only [Option.bind_eq_bind, Option.bind_some]
  rw [readNat_natDec row _ (by intro c r h; cases h; decide)]
  simp only [Option.bind_some, expect, if_true]
  rw [readInt_intDec t _ (by intro c r h; cases h; decide)]
  simp only [Option.bind_some, expect, if_true]
  rw [readNat_natDec ty _ (by intro c r h; cases h; decide)]
  simp only [Option.bind_some, expect, if_true]
  have := readInt_intDec v [] (by intro c r h; cases h)
  rw [List.append_nil] at this
  rw [this]
  rfl

theorem splitNl_prvBody (ls : List (Int × Nat × Nat × Int)) :
    splitNl (prvBody ls) = ls.map prvLineBody ++ [[]] := by
  induction ls with
  | nil => rfl
  | cons l ls ih =>
    show splitNl (prvLine l ++ prvBody ls) = _
    rw [prvLine_eq, List.append_assoc, List.singleton_append, splitNl_line _ _ (prvLineBody_no_nl l), ih]
    rfl

theorem mapM_parsePrvLine (ls : List (Int × Nat × Nat × Int)) :
    (ls.map prvLineBody).mapM parsePrvLine = some ls := by
  induction ls with
  | nil => rfl
  | cons l ls ih =>
    rw [List.map_cons, List.mapM_cons, parsePrvLine_body, ih]
    rfl

/-- **Round trip of a .prv file**, any header, any record list. -/
theorem parsePrv_text (nrows : Nat) (duration : Int) (ls : List (Int × Nat × Nat × Int)) :
    parsePrv (prvHeader nrows duration ++ prvBody ls) = some ((duration, nrows), ls) := by
  unfold parsePrv
  rw [prvHeader_eq, List.append_assoc, List.singleton_append,
    splitNl_line _ _ (prvHeaderLine_no_nl nrows duration), splitNl_prvBody]
  simp only [parsePrvHeader_line]
  rw [if_pos (by simp), List.dropLast_concat, mapM_parsePrvLine]
  rfl

/-! ### the header rewrite of `prv_close` -/

theorem natDec_length_le (n k : Nat) (hk : 0 < k) : (natDec n).length ≤ k ↔ n < 10 ^ k :=
  Nat.length_toDigits_le_iff (by decide) hk

/-- The `%020lld` field is exactly 20 characters wide iff the duration has at
    most 20 digits (19 after a minus sign). -/
theorem intPad0_length (d : Int) : (intPad0 20 d).length = 20 ↔ (-(10 : Int) ^ 19 < d ∧ d < (10 : Int) ^ 20) := by
  cases d with
  | ofNat n =>
    show (List.replicate (20 - (natDec n).length) '0' ++ natDec n).length = 20 ↔ _
    rw [List.length_append, List.length_replicate]
    have h := natDec_length_le n 20 (by decide)
    have e : ((10 : Int) ^ 20) = ((10 ^ 20 : Nat) : Int) := by norm_cast
    constructor
    · intro hl
      have : n < 10 ^ 20 := h.mp (by omega)
      refine ⟨?_, ?_⟩
      · have : (0 : Int) ≤ Int.ofNat n := Int.natCast_nonneg n
        have : -(10 : Int) ^ 19 < 0 := by decide
        omega
      · rw [e]; exact Int.ofNat_lt.mpr this
    · rintro ⟨_, h2⟩
      rw [e] at h2
      have : n < 10 ^ 20 := Int.ofNat_lt.mp h2
      have := h.mpr this
      omega
  | negSucc n =>
    show ('-' :: (List.replicate (20 - 1 - (natDec (n + 1)).length) '0' ++ natDec (n + 1))).length = 20 ↔ _
    rw [List.length_cons, List.length_append, List.length_replicate]
    have h := natDec_length_le (n + 1) 19 (by decide)
    have e : ((10 : Int) ^ 19) = ((10 ^ 19 : Nat) : Int) := by norm_cast
    constructor
    · intro hl
      have : n + 1 < 10 ^ 19 := h.mp (by omega)
      refine ⟨?_, ?_⟩
      · rw [e]; omega
      · have : (0 : Int) < (10 : Int) ^ 20 := by decide
        omega
    · rintro ⟨h1, _⟩
      rw [e] at h1
      have : n + 1 < 10 ^ 19 := by omega
      have := h.mpr this
      omega

theorem prvHeader_length (nrows : Nat) (d : Int) :
    (prvHeader nrows d).length = litParaver.length + (intPad0 20 d).length + litNs.length + (natDec nrows).length +
      litHdrEnd.length + 1 := by
  simp only [prvHeader, List.length_append, List.length_cons, List.length_nil]

theorem overwrite_same_length (new old0 body : Text) (h : new.length = old0.length) :
    overwrite new (old0 ++ body) = new ++ body := by
  unfold overwrite
  rw [h, List.drop_left]

/-! ### .row -/

theorem splitNl_names (names : List Text) (h : ∀ nm ∈ names, '\n' ∉ nm) :
    splitNl (names.flatMap (· ++ ['\n'])) = names ++ [[]] := by
  induction names with
  | nil => rfl
  | cons nm r ih =>
    rw [List.flatMap_cons, List.append_assoc, List.singleton_append,
      splitNl_line _ _ (h nm (by simp)), ih (fun x hx => h x (by simp [hx]))]
    rfl

theorem litRow_no_nl : '\n' ∉ litRowNode ∧ '\n' ∉ litRowHost ∧ '\n' ∉ litRowThread := by decide

/-- **The .row file reads back**: the declared size is the number of names
    and the names come back in order. -/
theorem parseRow_rowText (names : List Text) (h : ∀ nm ∈ names, '\n' ∉ nm) :
    parseRow (rowText names) = some (names.length, names) := by
  have e : rowText names = litRowNode ++ '\n' :: (litRowHost ++ '\n' :: ([] ++ '\n' ::
      ((litRowThread ++ natDec names.length) ++ '\n' :: names.flatMap (· ++ ['\n'])))) := by
    simp only [rowText, List.append_assoc, List.cons_append, List.nil_append]
  unfold parseRow
  rw [e, splitNl_line _ _ litRow_no_nl.1, splitNl_line _ _ litRow_no_nl.2.1, splitNl_line _ _ (by simp),
    splitNl_line _ _ (by
      intro hm; rcases List.mem_append.mp hm with hm | hm
      · exact litRow_no_nl.2.2 hm
      · exact natDec_no_nl _ hm), splitNl_names names h]
  simp only [true_and, List.getLast?_concat, if_true]
  rw [expect_append]
  have := readNat_natDec names.length [] (by intro c r hh; cases hh)
  rw [List.append_nil] at this
  simp only [this, List.dropLast_concat]

theorem Prf.addFrom_rows (todo : List Text) : ∀ (done : List Text) (p p' : Prf),
    p.rows = done.map some ++ List.replicate todo.length none →
    p.addFrom done.length todo = .ok p' →
    p'.rows = (done ++ todo).map some ∧ ∀ nm ∈ todo, nm.length < maxPrfLabel := by
  induction todo with
  | nil =>
    intro done p p' hp h
    simp only [Prf.addFrom, Except.ok.injEq] at h
    subst h
    simpa using hp
  | cons nm r ih =>
    intro done p p' hp h
    simp only [Prf.addFrom] at h
    have hget : p.rows[done.length]? = some none := by
      rw [hp, List.getElem?_append_right (by simp)]
      simp [List.replicate_succ]
    cases ha : p.add done.length nm with
    | error e => rw [ha] at h; cases h
    | ok p1 =>
      rw [ha] at h
      unfold Prf.add at ha
      rw [hget] at ha
      simp only at ha
      split at ha
      · cases ha
      · rename_i hlen
        cases ha
        have hp1 : (⟨p.rows.set done.length (some nm)⟩ : Prf).rows =
            (done ++ [nm]).map some ++ List.replicate r.length none := by
          show p.rows.set done.length (some nm) = _
          rw [hp, List.set_append_right _ _ (by simp)]
          simp [List.replicate_succ]
        have hl : (done ++ [nm]).length = done.length + 1 := by simp
        obtain ⟨h1, h2⟩ := ih (done ++ [nm]) _ p' hp1 (by rw [hl]; exact h)
        refine ⟨by simpa using h1, ?_⟩
        intro x hx
        rcases List.mem_cons.mp hx with rfl | hx
        · omega
        · exact h2 x hx

theorem mapM_id_map_some (names : List Text) : (names.map some).mapM id = some names := by
  induction names with
  | nil => rfl
  | cons a r ih => rw [List.map_cons, List.mapM_cons, ih]; rfl

/-- **What `prf_close` writes** when the emulator has added one name per row:
    exactly `rowText` of the names, and every name fits `MAX_PRF_LABEL`. -/
theorem rowFileOf_eq (names : List Text) (t : Text) (h : rowFileOf names = .ok t) :
    t = rowText names ∧ ∀ nm ∈ names, nm.length < maxPrfLabel := by
  unfold rowFileOf at h
  cases ha : (Prf.open names.length).addFrom 0 names with
  | error e => rw [ha] at h; cases h
  | ok p =>
    rw [ha] at h
    obtain ⟨h1, h2⟩ := Prf.addFrom_rows names [] (Prf.open names.length) p (by simp [Prf.open]) ha
    simp only [List.nil_append] at h1
    simp only [Prf.close, h1, mapM_id_map_some, Except.ok.injEq] at h
    exact ⟨h.symm, h2⟩

theorem neg_bound_of_nonneg {t : Int} (h : 0 ≤ t) : -(10 : Int) ^ 19 < t := by
  have : -(10 : Int) ^ 19 < 0 := by decide
  omega


/-! ### row names -/

theorem threadName_no_nl (appid tid : Int) : '\n' ∉ threadName appid tid := by
  simp only [threadName, List.mem_append, List.mem_cons, List.not_mem_nil, or_false, not_or]
  exact ⟨⟨⟨by decide, intDec_no_nl _⟩, by decide⟩, intDec_no_nl _⟩

theorem cpuName_no_nl (loom phyid : Nat) (virt : Bool) : '\n' ∉ cpuName loom phyid virt := by
  unfold cpuName
  split
  · simp only [List.mem_append, not_or]
    exact ⟨⟨by decide, natDec_no_nl _⟩, by decide⟩
  · simp only [List.mem_append, List.mem_cons, List.not_mem_nil, or_false, not_or]
    exact ⟨⟨⟨by decide, natDec_no_nl _⟩, by decide⟩, natDec_no_nl _⟩


end Ovni.Emu.PvText
