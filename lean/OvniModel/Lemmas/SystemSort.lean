import OvniModel.Emu.System

/-! Lemmas on `cmpStr`, `insertBy`, `sortBy` (helper lemmas for C15). -/
namespace Ovni.Emu.System

/-! ### strcmp -/

theorem cmpStr_swap (a b : Str) : cmpStr b a = (cmpStr a b).swap := by
  induction a generalizing b with
  | nil => cases b <;> simp [cmpStr, Ordering.swap]
  | cons x xs ih =>
    cases b with
    | nil => simp [cmpStr, Ordering.swap]
    | cons y ys =>
      simp only [cmpStr]
      by_cases h1 : x < y
      · have h2 : ¬ y < x := by omega
        simp [h1, h2, Ordering.swap]
      · by_cases h2 : y < x
        · simp [h1, h2, Ordering.swap]
        · simp [h1, h2, ih ys]

theorem cmpStr_eq_iff (a b : Str) : cmpStr a b = .eq ↔ a = b := by
  induction a generalizing b with
  | nil => cases b <;> simp [cmpStr]
  | cons x xs ih =>
    cases b with
    | nil => simp [cmpStr]
    | cons y ys =>
      simp only [cmpStr]
      by_cases h1 : x < y
      · simp [h1]; omega
      · by_cases h2 : y < x
        · simp [h1, h2]; omega
        · have : x = y := by omega
          simp [ih ys, this]

theorem leStr_total (a b : Str) : leStr a b = true ∨ leStr b a = true := by
  unfold leStr
  rw [cmpStr_swap a b]
  cases cmpStr a b <;> simp [Ordering.swap]

theorem leStr_antisymm (a b : Str) (h1 : leStr a b = true) (h2 : leStr b a = true) : a = b := by
  unfold leStr at h1 h2
  rw [cmpStr_swap a b] at h2
  apply (cmpStr_eq_iff a b).1
  cases h : cmpStr a b <;> simp [h, Ordering.swap] at h1 h2 ⊢

theorem leStr_trans (a b c : Str) (h1 : leStr a b = true) (h2 : leStr b c = true) : leStr a c = true := by
  induction a generalizing b c with
  | nil => cases c <;> simp [leStr, cmpStr]
  | cons x xs ih =>
    cases b with
    | nil => simp [leStr, cmpStr] at h1
    | cons y ys =>
      cases c with
      | nil => simp [leStr, cmpStr] at h2
      | cons z zs =>
        simp only [leStr, cmpStr] at h1 h2 ⊢
        by_cases hxy : x < y
        · by_cases hyz : y < z
          · have : x < z := by omega
            simp [this]
          · by_cases hzy : z < y
            · simp [hyz, hzy] at h2
            · have : x < z := by omega
              simp [this]
        · by_cases hyx : y < x
          · simp [hxy, hyx] at h1
          · have hxy' : x = y := by omega
            subst hxy'
            by_cases hyz : x < z
            · simp [hyz]
            · by_cases hzy : z < x
              · simp [hyz, hzy] at h2
              · simp only [hxy, hyz, hzy, if_false] at h1 h2 ⊢
                exact ih ys zs h1 h2

theorem leInt_total (a b : Int) : leInt a b = true ∨ leInt b a = true := by
  simp only [leInt, decide_eq_true_eq]; omega

theorem leInt_trans (a b c : Int) (h1 : leInt a b = true) (h2 : leInt b c = true) : leInt a c = true := by
  simp only [leInt, decide_eq_true_eq] at *; omega

/-! ### stable insertion sort -/

variable {α : Type}

theorem insertBy_perm (le : α → α → Bool) (x : α) (l : List α) : (insertBy le x l).Perm (x :: l) := by
  induction l with
  | nil => exact List.Perm.refl _
  | cons y ys ih =>
    simp only [insertBy]
    split
    · exact List.Perm.refl _
    · exact (List.Perm.cons y ih).trans (List.Perm.swap x y ys)

theorem sortBy_perm (le : α → α → Bool) (l : List α) : (sortBy le l).Perm l := by
  induction l with
  | nil => exact List.Perm.refl _
  | cons x xs ih =>
    simp only [sortBy]
    exact (insertBy_perm le x _).trans (List.Perm.cons x ih)

theorem mem_sortBy {le : α → α → Bool} {l : List α} {a : α} : a ∈ sortBy le l ↔ a ∈ l :=
  (sortBy_perm le l).mem_iff

theorem length_sortBy (le : α → α → Bool) (l : List α) : (sortBy le l).length = l.length :=
  (sortBy_perm le l).length_eq

theorem insertBy_sorted (le : α → α → Bool)
    (total : ∀ a b, le a b = true ∨ le b a = true)
    (trans : ∀ a b c, le a b = true → le b c = true → le a c = true)
    (x : α) (l : List α) (h : l.Pairwise (fun a b => le a b = true)) :
    (insertBy le x l).Pairwise (fun a b => le a b = true) := by
  induction l with
  | nil => simp [insertBy]
  | cons y ys ih =>
    simp only [insertBy]
    have hy := List.pairwise_cons.1 h
    split
    · rename_i hxy
      refine List.pairwise_cons.2 ⟨?_, h⟩
      intro z hz
      rcases List.mem_cons.1 hz with rfl | hz
      · exact hxy
      · exact trans _ _ _ hxy (hy.1 z hz)
    · rename_i hxy
      refine List.pairwise_cons.2 ⟨?_, ih hy.2⟩
      intro z hz
      have := (insertBy_perm le x ys).mem_iff.1 hz
      rcases List.mem_cons.1 this with rfl | hz
      · rcases total z y with h1 | h1
        · exact absurd h1 hxy
        · exact h1
      · exact hy.1 z hz

theorem sortBy_sorted (le : α → α → Bool)
    (total : ∀ a b, le a b = true ∨ le b a = true)
    (trans : ∀ a b c, le a b = true → le b c = true → le a c = true)
    (l : List α) : (sortBy le l).Pairwise (fun a b => le a b = true) := by
  induction l with
  | nil => simp [sortBy]
  | cons x xs ih => exact insertBy_sorted le total trans x _ ih

/-- A stable sort of a list whose keys are pairwise distinct does not depend on
    the order of the list. -/
theorem sortBy_eq_of_perm (le : α → α → Bool)
    (total : ∀ a b, le a b = true ∨ le b a = true)
    (trans : ∀ a b c, le a b = true → le b c = true → le a c = true)
    {l l' : List α} (hp : l.Perm l')
    (anti : ∀ a b, a ∈ l → b ∈ l → le a b = true → le b a = true → a = b) :
    sortBy le l = sortBy le l' := by
  apply List.Perm.eq_of_pairwise (le := fun a b => le a b = true)
  · intro a b ha hb h1 h2
    exact anti a b (mem_sortBy.1 ha) (hp.mem_iff.2 (mem_sortBy.1 hb)) h1 h2
  · exact sortBy_sorted le total trans l
  · exact sortBy_sorted le total trans l'
  · exact ((sortBy_perm le l).trans hp).trans (sortBy_perm le l').symm

theorem insertBy_map {β : Type} (f : α → β) (le : α → α → Bool) (le' : β → β → Bool)
    (h : ∀ a b, le a b = le' (f a) (f b)) (x : α) (l : List α) :
    (insertBy le x l).map f = insertBy le' (f x) (l.map f) := by
  induction l with
  | nil => rfl
  | cons y ys ih =>
    simp only [insertBy, List.map_cons, h x y]
    split <;> simp [ih]

theorem sortBy_map {β : Type} (f : α → β) (le : α → α → Bool) (le' : β → β → Bool)
    (h : ∀ a b, le a b = le' (f a) (f b)) (l : List α) :
    (sortBy le l).map f = sortBy le' (l.map f) := by
  induction l with
  | nil => rfl
  | cons x xs ih => simp only [sortBy, List.map_cons, insertBy_map f le le' h, ih]

/-- Pairwise-strict version: sorted and keys distinct. -/
theorem pairwise_lt_of_sorted_nodup {k : α → Int} {l : List α}
    (hs : l.Pairwise (fun a b => leInt (k a) (k b) = true))
    (hn : l.Pairwise (fun a b => k a ≠ k b)) :
    l.Pairwise (fun a b => k a < k b) := by
  induction l with
  | nil => exact List.Pairwise.nil
  | cons x xs ih =>
    have h1 := List.pairwise_cons.1 hs
    have h2 := List.pairwise_cons.1 hn
    refine List.pairwise_cons.2 ⟨?_, ih h1.2 h2.2⟩
    intro b hb
    have := h1.1 b hb
    have := h2.1 b hb
    simp only [leInt, decide_eq_true_eq] at *
    omega

/-- In a list where no two distinct positions are related by the symmetric `S`,
    related members are equal. -/
theorem eq_of_pairwise_not {S : α → α → Prop} (symm : ∀ a b, S a b → S b a) {l : List α}
    (h : l.Pairwise (fun a b => ¬ S a b)) {a b : α} (ha : a ∈ l) (hb : b ∈ l) (hs : S a b) : a = b := by
  induction l with
  | nil => cases ha
  | cons x xs ih =>
    have hc := List.pairwise_cons.1 h
    rcases List.mem_cons.1 ha with ha' | ha' <;> rcases List.mem_cons.1 hb with hb' | hb'
    · rw [ha', hb']
    · subst ha'; exact absurd hs (hc.1 b hb')
    · subst hb'; exact absurd (symm _ _ hs) (hc.1 a ha')
    · exact ih hc.2 ha' hb'

theorem eq_of_nodup_map {β : Type} {f : α → β} {l : List α} (h : (l.map f).Nodup)
    {a b : α} (ha : a ∈ l) (hb : b ∈ l) (hf : f a = f b) : a = b := by
  have : l.Pairwise (fun a b => ¬ (f a = f b)) := by
    have := List.pairwise_map.1 h
    exact this
  exact eq_of_pairwise_not (S := fun a b => f a = f b) (fun _ _ h => h.symm) this ha hb hf

end Ovni.Emu.System
