import OvniModel.Lemmas.PvPcf
import OvniModel.Props.C13

/-
  C13 text level: every line the emulator with its patch bay (`XEmu`,
  Emu/PvLines.lean) writes comes from a registration of `prv_register`, and
  every registration has a row of the file and a type the matching PCF gets.
-/
namespace Ovni.Emu.PvText
open Ovni.Emu Ovni.Generated Ovni.Props.C13

def laySpecTypes (s : ModelSpec) : List Nat := (List.range s.nch).map (s.pvtType.getD · 0)

def thTypesOf (l : XLayout) : List Nat :=
  [prvThreadCpu, prvThreadTid, prvThreadState] ++ l.specs.flatMap laySpecTypes

def cpuTypesOf (l : XLayout) : List Nat :=
  [prvCpuNrun, prvCpuPid, prvCpuTid] ++ l.specs.flatMap laySpecTypes

/-- a registration of the layout: a row of its file, a type of its file -/
def RegOk (l : XLayout) (r : PrvReg) : Prop :=
  (r.file = 0 ∧ 1 ≤ r.row ∧ r.row ≤ l.nT ∧ r.type ∈ thTypesOf l) ∨
  (r.file = 1 ∧ 1 ≤ r.row ∧ r.row ≤ l.nC ∧ r.type ∈ cpuTypesOf l)

theorem sysRegs_ok (l : XLayout) : ∀ r ∈ l.sysRegs, RegOk l r := by
  intro r hr
  simp only [XLayout.sysRegs, List.mem_append, List.mem_flatMap, List.mem_range, List.mem_cons,
    List.not_mem_nil, or_false] at hr
  rcases hr with ⟨g, hg, rfl | rfl | rfl⟩ | ⟨c, hc, rfl | rfl | rfl⟩
  all_goals first
    | exact Or.inl ⟨rfl, by simp, by simp; omega, by simp [thTypesOf]⟩
    | exact Or.inr ⟨rfl, by simp, by simp; omega, by simp [cpuTypesOf]⟩

theorem prvRegister_eq {b : Bay} {regs regs' : List PrvReg} {r : PrvReg}
    (h : prvRegister b regs r = .ok regs') : regs' = regs ++ [r] := by
  unfold prvRegister at h
  split at h
  · cases h
  · split at h
    · cases h
    · split at h
      · cases h; rfl
      · cases h

theorem mem_pairs {n m a i : Nat} : (a, i) ∈ pairs n m ↔ a < n ∧ i < m := by
  simp [pairs]

theorem laySpecTypes_mem {l : XLayout} {s : ModelSpec} (hs : s ∈ l.specs) {i : Nat} (hi : i < s.nch) :
    s.pvtType.getD i 0 ∈ l.specs.flatMap laySpecTypes :=
  List.mem_flatMap.mpr ⟨s, hs, List.mem_map.mpr ⟨i, List.mem_range.mpr hi, rfl⟩⟩

theorem connectThreads_ok (l : XLayout) (s : ModelSpec) (hs : s ∈ l.specs) :
    ∀ (js : List (Nat × Nat)) (b : Bay) (regs : List PrvReg) (b' : Bay) (regs' : List PrvReg),
    (∀ gi ∈ js, gi.1 < l.nT ∧ gi.2 < s.nch) → (∀ r ∈ regs, RegOk l r) →
    connectThreads l s js b regs = .ok (b', regs') → ∀ r ∈ regs', RegOk l r := by
  intro js
  induction js with
  | nil => intro b regs b' regs' _ hr h; simp only [connectThreads, Except.ok.injEq, Prod.mk.injEq] at h; rw [← h.2]; exact hr
  | cons gi js ih =>
    intro b regs b' regs' hj hr h
    obtain ⟨g, i⟩ := gi
    simp only [connectThreads] at h
    cases ht : b.trackThread (s.thTrack.getD i 0) (l.id (.thState g)) (l.id (.raw g s.char i)) with
    | error e => rw [ht] at h; cases h
    | ok bo =>
      obtain ⟨b1, out⟩ := bo
      rw [ht] at h
      simp only at h
      cases hp : prvRegister b1 regs ⟨out, 0, g + 1, s.pvtType.getD i 0, s.prvFlags.getD i 0⟩ with
      | error e => rw [hp] at h; cases h
      | ok regs1 =>
        rw [hp] at h
        have hgi := hj (g, i) (by simp)
        refine ih b1 regs1 b' regs' (fun x hx => hj x (by simp [hx])) ?_ h
        rw [prvRegister_eq hp]
        intro r hr'
        rcases List.mem_append.mp hr' with h1 | h1
        · exact hr r h1
        · simp only [List.mem_cons, List.not_mem_nil, or_false] at h1
          subst h1
          exact Or.inl ⟨rfl, by simp, by simp; omega, List.mem_append_right _ (laySpecTypes_mem hs hgi.2)⟩

theorem connectCpus_ok (l : XLayout) (s : ModelSpec) (hs : s ∈ l.specs) :
    ∀ (js : List (Nat × Nat)) (b : Bay) (regs : List PrvReg) (b' : Bay) (regs' : List PrvReg),
    (∀ ci ∈ js, ci.1 < l.nC ∧ ci.2 < s.nch) → (∀ r ∈ regs, RegOk l r) →
    connectCpus l s js b regs = .ok (b', regs') → ∀ r ∈ regs', RegOk l r := by
  intro js
  induction js with
  | nil => intro b regs b' regs' _ hr h; simp only [connectCpus, Except.ok.injEq, Prod.mk.injEq] at h; rw [← h.2]; exact hr
  | cons ci js ih =>
    intro b regs b' regs' hj hr h
    obtain ⟨c, i⟩ := ci
    simp only [connectCpus] at h
    split at h
    · cases h
    · cases ht : b.trackCpu (l.id (.cThrun c)) ((List.range l.nT).map fun g => l.id (.raw g s.char i))
          (xCpuDflt s i) with
      | error e => rw [ht] at h; cases h
      | ok bo =>
        obtain ⟨b1, out⟩ := bo
        rw [ht] at h
        simp only at h
        cases hp : prvRegister b1 regs ⟨out, 1, c + 1, s.pvtType.getD i 0, s.prvFlags.getD i 0⟩ with
        | error e => rw [hp] at h; cases h
        | ok regs1 =>
          rw [hp] at h
          have hci := hj (c, i) (by simp)
          refine ih b1 regs1 b' regs' (fun x hx => hj x (by simp [hx])) ?_ h
          rw [prvRegister_eq hp]
          intro r hr'
          rcases List.mem_append.mp hr' with h1 | h1
          · exact hr r h1
          · simp only [List.mem_cons, List.not_mem_nil, or_false] at h1
            subst h1
            exact Or.inr ⟨rfl, by simp, by simp; omega, List.mem_append_right _ (laySpecTypes_mem hs hci.2)⟩

theorem connectSpecs_ok (l : XLayout) : ∀ (ss : List ModelSpec) (b : Bay) (regs : List PrvReg) (b' : Bay)
    (regs' : List PrvReg), (∀ s ∈ ss, s ∈ l.specs) → (∀ r ∈ regs, RegOk l r) →
    connectSpecs l ss b regs = .ok (b', regs') → ∀ r ∈ regs', RegOk l r := by
  intro ss
  induction ss with
  | nil => intro b regs b' regs' _ hr h; simp only [connectSpecs, Except.ok.injEq, Prod.mk.injEq] at h; rw [← h.2]; exact hr
  | cons s ss ih =>
    intro b regs b' regs' hss hr h
    simp only [connectSpecs] at h
    cases h1 : connectThreads l s (pairs l.nT s.nch) b regs with
    | error e => rw [h1] at h; cases h
    | ok x1 =>
      obtain ⟨b1, r1⟩ := x1
      rw [h1] at h
      simp only at h
      cases h2 : connectCpus l s (pairs l.nC s.nch) b1 r1 with
      | error e => rw [h2] at h; cases h
      | ok x2 =>
        obtain ⟨b2, r2⟩ := x2
        rw [h2] at h
        have hs := hss s (by simp)
        have k1 := connectThreads_ok l s hs _ b regs b1 r1 (fun gi hgi => mem_pairs.mp hgi) hr h1
        have k2 := connectCpus_ok l s hs _ b1 r1 b2 r2 (fun ci hci => mem_pairs.mp hci) k1 h2
        exact ih b2 r2 b' regs' (fun x hx => hss x (by simp [hx])) k2 h

/-! ### lines come from registrations -/

/-- the line belongs to the registration: same file, row, type -/
def FromReg (regs : List PrvReg) (x : PrvRec) : Prop :=
  ∃ r ∈ regs, x.file = r.file ∧ x.row = r.row ∧ x.type = r.type

theorem emitWrite_from {r : PrvReg} {lv' : Option Value} {v : Value} {res : Option Value × List PrvRec}
    (h : emitWrite r lv' v = .ok res) : ∀ x ∈ res.2, x.file = r.file ∧ x.row = r.row ∧ x.type = r.type := by
  unfold emitWrite at h
  split at h
  · cases h
  · cases h
    intro x hx
    simp only [List.mem_cons, List.not_mem_nil, or_false] at hx
    subst hx
    exact ⟨rfl, rfl, rfl⟩

theorem emitOne_from {r : PrvReg} {lv : Option Value} {v : Value} {res : Option Value × List PrvRec}
    (h : emitOne r lv v = .ok res) : ∀ x ∈ res.2, x.file = r.file ∧ x.row = r.row ∧ x.type = r.type := by
  unfold emitOne at h
  split at h
  · exact emitWrite_from h
  · split at h
    · split at h
      · cases h; intro x hx; cases hx
      · split at h
        · split at h
          · cases h; intro x hx; cases hx
          · exact emitWrite_from h
        · cases h
    · exact emitWrite_from h

theorem emitWalk_from (regs : List PrvReg) (b : Bay) : ∀ (js : List Nat) (lvs lvs' : List (Option Value))
    (ls : List (Nat × PrvRec)), emitWalk regs b js lvs = .ok (lvs', ls) → ∀ x ∈ ls, FromReg regs x.2 := by
  intro js
  induction js with
  | nil =>
    intro lvs lvs' ls h
    simp only [emitWalk, Except.ok.injEq, Prod.mk.injEq] at h
    rw [← h.2]; intro x hx; cases hx
  | cons j js ih =>
    intro lvs lvs' ls h
    simp only [emitWalk] at h
    cases hr : regs[j]? with
    | none => rw [hr] at h; cases h
    | some r =>
      rw [hr] at h
      simp only at h
      cases he : emitOne r (lvs.getD j none) (b.chan r.chan).cur with
      | error e => rw [he] at h; cases h
      | ok res =>
        obtain ⟨lv', l1⟩ := res
        rw [he] at h
        simp only at h
        cases hw : emitWalk regs b js (lvs.set j lv') with
        | error e => rw [hw] at h; cases h
        | ok res2 =>
          obtain ⟨lvs2, l2⟩ := res2
          rw [hw] at h
          simp only [Except.ok.injEq, Prod.mk.injEq] at h
          rw [← h.2]
          intro x hx
          rcases List.mem_append.mp hx with hx | hx
          · obtain ⟨y, hy, rfl⟩ := List.mem_map.mp hx
            exact ⟨r, List.mem_of_getElem? hr, emitOne_from he y hy⟩
          · exact ih _ _ _ hw x hx

theorem propagateP_from {b b' : Bay} {regs : List PrvReg} {lvs lvs' : List (Option Value)}
    {ls : List (Nat × PrvRec)} (h : b.propagateP regs lvs = .ok (b', lvs', ls)) :
    ∀ x ∈ ls, FromReg regs x.2 := by
  unfold Bay.propagateP at h
  split at h
  · cases h
  · rename_i b1 _
    split at h
    · cases h
    · rename_i lvs1 ls1 hw
      split at h
      · cases h
      · simp only [Except.ok.injEq, Prod.mk.injEq] at h
        rw [← h.2.2]
        exact emitWalk_from regs b1 _ _ _ _ hw

theorem linesOf_from {regs : List PrvReg} {ls : List (Nat × PrvRec)} (h : ∀ x ∈ ls, FromReg regs x.2)
    (file : Nat) : ∀ r ∈ linesOf file ls, r.file = file ∧ FromReg regs r := by
  intro r hr
  simp only [linesOf, List.mem_filter, List.mem_map, beq_iff_eq] at hr
  obtain ⟨⟨x, hx, rfl⟩, hf⟩ := hr
  exact ⟨hf, h x hx⟩

theorem writeAll_lines (rs : List PrvRec) : ∀ (p : PrvFile),
    (p.writeAll rs).lines = p.lines ++ rs.map (fun r => (p.time, r.row, r.type, r.value)) := by
  induction rs with
  | nil => intro p; simp [PrvFile.writeAll]
  | cons r rs ih =>
    intro p
    show ((p.write r).writeAll rs).lines = _
    rw [ih (p.write r)]
    simp [PrvFile.write]

/-! ### the PCF declares the types of the registrations -/

theorem mem_insertByChar {x s : ModelSpec} : ∀ {l : List ModelSpec}, x ∈ insertByChar s l → x = s ∨ x ∈ l := by
  intro l
  induction l with
  | nil => intro h; simp only [insertByChar, List.mem_cons, List.not_mem_nil, or_false] at h; exact Or.inl h
  | cons y ys ih =>
    intro h
    simp only [insertByChar] at h
    split at h
    · rcases List.mem_cons.mp h with h | h
      · exact Or.inl h
      · exact Or.inr h
    · rcases List.mem_cons.mp h with h | h
      · exact Or.inr (by simp [h])
      · rcases ih h with h | h
        · exact Or.inl h
        · exact Or.inr (by simp [h])

theorem mem_sortByChar {x : ModelSpec} : ∀ {l : List ModelSpec}, x ∈ sortByChar l → x ∈ l := by
  intro l
  induction l with
  | nil => intro h; exact h
  | cons y ys ih =>
    intro h
    rcases mem_insertByChar h with h | h
    · simp [h]
    · exact List.mem_cons_of_mem _ (ih h)

theorem mem_connectOrder {enabled : List Nat} {extra : List ModelSpec} {s : ModelSpec}
    (h : s ∈ connectOrder enabled extra) : s ∈ allSpecs ∨ s ∈ extra := by
  unfold connectOrder at h
  obtain ⟨x, hx, hs⟩ := List.mem_flatMap.mp h
  have hx' := (List.mem_filter.mp (mem_sortByChar hx)).1
  split at hs
  · rcases List.mem_cons.mp hs with rfl | hs
    · exact Or.inl hx'
    · exact Or.inr hs
  · simp only [List.mem_cons, List.not_mem_nil, or_false] at hs
    subst hs; exact Or.inl hx'

/-- the eight models: a real model character, and the CPU types of the generated
    spec are the thread types (`model_pvt_spec` is shared) -/
theorem allSpecs_pcfInfo : ∀ s ∈ allSpecs, s.char ≠ markGroup ∧
    ∃ info, pcfInfo s.char = some info ∧ info.cpuType = s.pvtType := by decide

theorem range_map_getD (l : List Nat) : (List.range l.length).map (l.getD · 0) = l := by
  apply List.ext_getElem
  · simp
  · intro i h1 h2
    simp only [List.length_map, List.length_range] at h1
    simp [List.getD_eq_getElem?_getD, List.getElem?_eq_getElem h1]

/-- Every channel group the emulator connects contributes to both PCFs exactly
    the types of its channels (the mark group: 100 + type of every mark type). -/
theorem specPcfTypes_eq (cpu : Bool) {enabled : List Nat} {marks : List MarkType} {s : ModelSpec}
    (h : s ∈ connectOrder enabled (markExtra marks)) : specPcfTypes cpu marks s = laySpecTypes s := by
  rcases mem_connectOrder h with h | h
  · obtain ⟨hne, info, hi, hc⟩ := allSpecs_pcfInfo s h
    unfold specPcfTypes laySpecTypes
    rw [if_neg hne, hi]
    cases cpu
    · rfl
    · simp only [if_true, hc]
  · unfold markExtra at h
    split at h
    · cases h
    · simp only [List.mem_cons, List.not_mem_nil, or_false] at h
      subst h
      unfold specPcfTypes laySpecTypes
      rw [if_pos (show (markSpec marks).char = markGroup from rfl)]
      show _ = (List.range marks.length).map ((marks.map fun t => prvOvniMark + t.type.toNat).getD · 0)
      have := range_map_getD (marks.map fun t => prvOvniMark + t.type.toNat)
      rw [List.length_map] at this
      rw [this]
      rfl

theorem flatMap_congr' {α β} {f g : α → List β} : ∀ {l : List α}, (∀ a ∈ l, f a = g a) → l.flatMap f = l.flatMap g := by
  intro l
  induction l with
  | nil => intro _; rfl
  | cons a l ih =>
    intro h
    rw [List.flatMap_cons, List.flatMap_cons, h a (by simp), ih (fun x hx => h x (by simp [hx]))]

/-! ### the invariant of a run -/

/-- the line (time, row, type, value) was written by a registration of file `f` -/
def LineFrom (regs : List PrvReg) (f : Nat) (l : Int × Nat × Nat × Int) : Prop :=
  ∃ r ∈ regs, r.file = f ∧ l.2.1 = r.row ∧ l.2.2.1 = r.type

structure XInv (x : XEmu) : Prop where
  regs : ∀ r ∈ x.regs, RegOk x.lay r
  thRows : x.th.nrows = x.lay.nT
  cpuRows : x.cpu.nrows = x.lay.nC
  thLines : ∀ l ∈ x.th.lines, LineFrom x.regs 0 l
  cpuLines : ∀ l ∈ x.cpu.lines, LineFrom x.regs 1 l
  thMono : Mono x.th
  cpuMono : Mono x.cpu
  thTime : 0 ≤ x.th.time
  cpuTime : 0 ≤ x.cpu.time
  lay : x.lay = ⟨x.emu0.threads.length, x.emu0.cpus.length, connectOrder x.emu0.enabled x.emu0.extra⟩

theorem writeAll_lineFrom {regs : List PrvReg} {ls : List (Nat × PrvRec)} (h : ∀ x ∈ ls, FromReg regs x.2)
    (file : Nat) (p : PrvFile) (hp : ∀ l ∈ p.lines, LineFrom regs file l) :
    ∀ l ∈ (p.writeAll (linesOf file ls)).lines, LineFrom regs file l := by
  intro l hl
  rw [writeAll_lines] at hl
  rcases List.mem_append.mp hl with hl | hl
  · exact hp l hl
  · obtain ⟨r, hr, rfl⟩ := List.mem_map.mp hl
    obtain ⟨hf, q, hq, h1, h2, h3⟩ := linesOf_from h file r hr
    exact ⟨q, hq, by rw [← h1, hf], h2, h3⟩

theorem mono_empty (n : Nat) : Mono ({ nrows := n } : PrvFile) :=
  ⟨List.Pairwise.nil, by intro l hl; cases hl⟩

/-- `emu_init` + `emu_connect` establish the invariant. -/
theorem XEmu.init_inv {e : Emu} {x : XEmu} (h : XEmu.init e = .ok x) : XInv x ∧ x.emu0 = e := by
  unfold XEmu.init at h
  simp only at h
  split at h
  · cases h
  · rename_i b1 regs hc
    split at h
    · cases h
    · rename_i b2 _
      split at h
      · cases h
      · rename_i b3 lvs ls hp
        cases h
        have hregs := connectSpecs_ok _ _ _ _ _ _ (fun s hs => hs) (sysRegs_ok _) hc
        have hfrom := propagateP_from hp
        obtain ⟨m0, t0, n0⟩ := mono_writeAll (linesOf 0 ls) _ (mono_empty e.threads.length)
        obtain ⟨m1, t1, n1⟩ := mono_writeAll (linesOf 1 ls) _ (mono_empty e.cpus.length)
        refine ⟨⟨hregs, n0, n1, ?_, ?_, m0, m1, ?_, ?_, rfl⟩, rfl⟩
        · exact writeAll_lineFrom hfrom 0 _ (by intro l hl; cases hl)
        · exact writeAll_lineFrom hfrom 1 _ (by intro l hl; cases hl)
        · show 0 ≤ (PrvFile.writeAll _ _).time; rw [t0]; exact Int.le_refl _
        · show 0 ≤ (PrvFile.writeAll _ _).time; rw [t1]; exact Int.le_refl _

theorem advance_ok {p p' : PrvFile} {t : Int} (h : p.advance t = .ok p') :
    p' = { p with time := t } ∧ p.time ≤ t := by
  unfold PrvFile.advance at h
  split at h
  · cases h
  · cases h; exact ⟨rfl, by omega⟩

theorem mono_advance {p : PrvFile} {t : Int} (h : Mono p) (ht : p.time ≤ t) : Mono ({ p with time := t } : PrvFile) := by
  refine ⟨h.1, ?_⟩
  intro l hl
  have := h.2 l hl
  show l.1 ≤ t
  omega

/-- One accepted `emu_step` keeps the invariant; the clock of both files is the event's. -/
theorem XEmu.step_inv {x x' : XEmu} {t : Int} {ti m c v : Nat} {p : List Nat}
    {th mh : Emu → Nat → Nat → Nat → List Nat → Except Err Emu} (hi : XInv x)
    (h : x.step t ti m c v p th mh = .ok x') :
    XInv x' ∧ x'.emu0 = x.emu0 ∧ x'.th.time = t ∧ x'.cpu.time = t ∧ x.th.time ≤ t := by
  unfold XEmu.step at h
  split at h
  · rename_i pth pcpu hth hcpu
    obtain ⟨e1, l1⟩ := advance_ok hth
    obtain ⟨e2, l2⟩ := advance_ok hcpu
    split at h
    · cases h
    · rename_i e1' _
      simp only at h
      split at h
      · cases h
      · rename_i b2 lvs ls hp
        cases h
        have hfrom := propagateP_from hp
        subst e1 e2
        obtain ⟨m0, t0, n0⟩ := mono_writeAll (linesOf 0 ls) _ (mono_advance hi.thMono l1)
        obtain ⟨m1, t1, n1⟩ := mono_writeAll (linesOf 1 ls) _ (mono_advance hi.cpuMono l2)
        refine ⟨⟨hi.regs, ?_, ?_, ?_, ?_, m0, m1, ?_, ?_, hi.lay⟩, rfl, t0, t1, l1⟩
        · show (PrvFile.writeAll _ _).nrows = _; rw [n0]; exact hi.thRows
        · show (PrvFile.writeAll _ _).nrows = _; rw [n1]; exact hi.cpuRows
        · exact writeAll_lineFrom hfrom 0 _ hi.thLines
        · exact writeAll_lineFrom hfrom 1 _ hi.cpuLines
        · show 0 ≤ (PrvFile.writeAll _ _).time; rw [t0]; have := hi.thTime; show 0 ≤ t; omega
        · show 0 ≤ (PrvFile.writeAll _ _).time; rw [t1]; have := hi.cpuTime; show 0 ≤ t; omega
  · cases h
  · cases h

theorem XEmu.run_inv {th mh : Emu → Nat → Nat → Nat → List Nat → Except Err Emu} :
    ∀ (evs : List XEv) {x x' : XEmu}, XInv x → x.run th mh evs = .ok x' → XInv x' ∧ x'.emu0 = x.emu0 := by
  intro evs
  induction evs with
  | nil => intro x x' hi h; simp only [XEmu.run, Except.ok.injEq] at h; subst h; exact ⟨hi, rfl⟩
  | cons ev evs ih =>
    intro x x' hi h
    obtain ⟨t, ti, m, c, v, p⟩ := ev
    simp only [XEmu.run] at h
    cases hs : x.step t ti m c v p th mh with
    | error e => rw [hs] at h; cases h
    | ok x1 =>
      rw [hs] at h
      obtain ⟨hi1, he1, _⟩ := XEmu.step_inv hi hs
      obtain ⟨hi', he'⟩ := ih hi1 h
      exact ⟨hi', he'.trans he1⟩

/-- the header duration of an accepted run is the clock of its last event -/
theorem XEmu.run_time {th mh : Emu → Nat → Nat → Nat → List Nat → Except Err Emu} :
    ∀ (evs : List XEv) {x x' : XEmu}, XInv x → x.run th mh evs = .ok x' →
      x'.th.time = (match evs.getLast? with | some ev => ev.1 | none => x.th.time) ∧
      x'.cpu.time = (match evs.getLast? with | some ev => ev.1 | none => x.cpu.time) := by
  intro evs
  induction evs with
  | nil => intro x x' _ h; simp only [XEmu.run, Except.ok.injEq] at h; subst h; exact ⟨rfl, rfl⟩
  | cons ev evs ih =>
    intro x x' hi h
    obtain ⟨t, ti, m, c, v, p⟩ := ev
    simp only [XEmu.run] at h
    cases hs : x.step t ti m c v p th mh with
    | error e => rw [hs] at h; cases h
    | ok x1 =>
      rw [hs] at h
      obtain ⟨hi1, _, ht1, ht2, _⟩ := XEmu.step_inv hi hs
      obtain ⟨a, b⟩ := ih hi1 h
      cases evs with
      | nil => simp only [List.getLast?_singleton] at a b ⊢; simp only [List.getLast?_nil] at a b; exact ⟨a.trans ht1, b.trans ht2⟩
      | cons e2 es => rw [List.getLast?_cons_cons]; exact ⟨a, b⟩

end Ovni.Emu.PvText
