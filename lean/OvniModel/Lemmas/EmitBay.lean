import OvniModel.Lemmas.EmitReg
import OvniModel.Lemmas.BayMux
import OvniModel.Lemmas.CoreBayProp
import OvniModel.Lemmas.EmuCoreRec

/-
  C06 (emit side, 3/4): one event on ANY well-formed bay — writes, then
  `bay_propagate` with the PRV callbacks (`Bay.propagateP`) — against
  `Bay.viewRecs`, the records View.lean's `emitView` gives for the registered
  channels' values before and after the event.
-/
set_option linter.unusedSimpArgs false
namespace Ovni.Emu
open Ovni.Generated

/-! ### list helpers -/

theorem collect_error' : ∀ {l : List (Except Err (List PrvRec))} {e : Err}, collect l = .error e →
    ∃ x ∈ l, x = .error e
  | [], _, h => by cases h
  | a :: l, e, h => by
    unfold collect at h
    cases ha : a with
    | error err =>
      rw [ha] at h
      injection h with h; subst h
      exact ⟨_, by simp, rfl⟩
    | ok r =>
      rw [ha] at h
      simp only at h
      cases hl : collect l with
      | ok rs => rw [hl] at h; cases h
      | error err =>
        rw [hl] at h
        injection h with h; subst h
        obtain ⟨x, hx, hxe⟩ := collect_error' hl
        exact ⟨x, by simp [hx], hxe⟩

theorem collect_has_error : ∀ {l : List (Except Err (List PrvRec))}, (∃ x ∈ l, ∃ e, x = .error e) →
    ∃ e, collect l = .error e
  | [], h => by obtain ⟨x, hx, _⟩ := h; cases hx
  | a :: l, h => by
    unfold collect
    cases ha : a with
    | error err => exact ⟨err, rfl⟩
    | ok r =>
      simp only
      obtain ⟨x, hx, e, hxe⟩ := h
      rcases List.mem_cons.mp hx with rfl | hx'
      · rw [ha] at hxe; cases hxe
      · obtain ⟨e', he'⟩ := collect_has_error ⟨x, hx', e, hxe⟩
        exact ⟨e', by rw [he']⟩

theorem collect_map_ok {α} {f : α → Except Err (List PrvRec)} {g : α → List PrvRec} : ∀ {l : List α},
    (∀ a ∈ l, f a = .ok (g a)) → collect (l.map f) = .ok (l.flatMap g)
  | [], _ => rfl
  | a :: l, h => by
    have ha := h a (by simp)
    have hl := collect_map_ok (f := f) (g := g) (l := l) (fun x hx => h x (by simp [hx]))
    simp only [List.map_cons, collect, ha, hl, List.flatMap_cons]

theorem flatMap_eq_range {α β} (l : List α) (g : α → List β) :
    l.flatMap g = (List.range l.length).flatMap (fun j => match l[j]? with | some a => g a | none => []) := by
  induction l with
  | nil => rfl
  | cons a l ih =>
    rw [List.flatMap_cons, List.length_cons, List.range_succ_eq_map, List.flatMap_cons, List.flatMap_map]
    simp only [List.getElem?_cons_zero, List.getElem?_cons_succ]
    rw [← ih]

theorem flatMap_filter {α β} (p : α → Bool) (f : α → List β) : ∀ (l : List α),
    (l.filter p).flatMap f = l.flatMap (fun a => if p a then f a else [])
  | [] => rfl
  | a :: l => by
    rw [List.filter_cons, List.flatMap_cons]
    cases hp : p a
    · simp only [Bool.false_eq_true, if_false, List.nil_append]; exact flatMap_filter p f l
    · simp only [if_true, List.flatMap_cons]; rw [flatMap_filter p f l]

/-! ### what the rows show after a list of lines -/

theorem tvStep_length : ∀ (L : List (Nat × PrvRec)) (tvs : List Int), (tvStep tvs L).length = tvs.length
  | [], _ => rfl
  | x :: xs, tvs => by rw [tvStep, tvStep_length xs, List.length_set]

theorem tvStep_append : ∀ (A B : List (Nat × PrvRec)) (tvs : List Int),
    tvStep tvs (A ++ B) = tvStep (tvStep tvs A) B
  | [], _, _ => rfl
  | x :: xs, B, tvs => by rw [List.cons_append, tvStep, tvStep, tvStep_append xs B]

theorem tvStep_notin {j : Nat} : ∀ (A : List (Nat × PrvRec)) (tvs : List Int), (∀ x ∈ A, x.1 ≠ j) →
    (tvStep tvs A).getD j 0 = tvs.getD j 0
  | [], _, _ => rfl
  | x :: xs, tvs, h => by
    rw [tvStep, tvStep_notin xs _ (fun y hy => h y (by simp [hy])), getD_set_ne _ _ _ _ _ (h x (by simp))]

theorem tvStep_one {j : Nat} {c : List PrvRec} {tvs : List Int} (hc : c.length ≤ 1) (hj : j < tvs.length) :
    (tvStep tvs (c.map fun l => (j, l))).getD j 0 = tvNew (tvs.getD j 0) c := by
  match c, hc with
  | [], _ => rfl
  | [l], _ => simp only [List.map_cons, List.map_nil, tvStep, tvNew]; exact getD_set_eq _ _ _ _ hj
  | _ :: _ :: _, h => simp at h

theorem emitOne_len {r : PrvReg} {lv lv' : Option Value} {v : Value} {ls : List PrvRec}
    (h : emitOne r lv v = .ok (lv', ls)) : ls.length ≤ 1 := by
  have hw : ∀ l0, emitWrite r l0 v = .ok (lv', ls) → ls.length ≤ 1 := by
    intro l0 hw
    unfold emitWrite at hw
    cases hp : prvValue r.flags v with
    | error e => rw [hp] at hw; cases hw
    | ok x => rw [hp] at hw; injection hw with hw; injection hw with _ hw; rw [← hw]; simp
  unfold emitOne at h
  by_cases he : hasFlag r.flags prvEmitDup = true
  · simp only [he, if_true] at h; exact hw _ h
  · simp only [he, if_false] at h
    by_cases hl : lv = some v
    · simp only [hl, if_true] at h
      by_cases h1 : hasFlag r.flags prvSkipDup = true
      · simp only [h1, if_true] at h; injection h with h; injection h with _ h; rw [← h]; simp
      · simp only [h1, if_false] at h
        by_cases h2 : hasFlag r.flags prvSkipDupNull = true
        · simp only [h2, if_true] at h
          by_cases hn : v = Value.null
          · rw [if_pos hn] at h; injection h with h; injection h with _ h; rw [← h]; simp
          · rw [if_neg hn] at h; exact hw _ h
        · simp only [h2, if_false] at h; cases h
    · simp only [hl, if_false] at h; exact hw _ h

theorem linesAt_shape (regs : List PrvReg) (b : Bay) (lvs : List (Option Value)) (j : Nat) :
    ∃ c : List PrvRec, linesAt regs b lvs j = c.map (fun l => (j, l)) ∧ c.length ≤ 1 := by
  unfold linesAt
  cases he : emitAt regs b lvs j with
  | error e => exact ⟨[], rfl, by simp⟩
  | ok p =>
    obtain ⟨lv', ls⟩ := p
    refine ⟨ls, rfl, ?_⟩
    unfold emitAt at he
    cases hr : regs[j]? with
    | none => rw [hr] at he; cases he
    | some r => rw [hr] at he; exact emitOne_len he

/-- what the rows show after the lines of a duplicate-free call sequence -/
theorem tvStep_flatMap (regs : List PrvReg) (b : Bay) (lvs : List (Option Value)) : ∀ (js : List Nat)
    (tvs : List Int), js.Nodup → (∀ j ∈ js, j < tvs.length) → ∀ j,
    (tvStep tvs (js.flatMap (linesAt regs b lvs))).getD j 0 =
      if j ∈ js then tvNew (tvs.getD j 0) ((linesAt regs b lvs j).map (·.2)) else tvs.getD j 0 := by
  intro js
  induction js with
  | nil => intro tvs _ _ j; rfl
  | cons j0 js ih =>
    intro tvs hnd hlt j
    rw [List.nodup_cons] at hnd
    rw [List.flatMap_cons, tvStep_append]
    obtain ⟨c, hc, hlen⟩ := linesAt_shape regs b lvs j0
    have ih' := ih (tvStep tvs (linesAt regs b lvs j0)) hnd.2
      (fun j' hj' => by rw [tvStep_length]; exact hlt j' (by simp [hj'])) j
    rw [ih']
    by_cases hj : j = j0
    · subst hj
      simp only [hnd.1, if_false, List.mem_cons, true_or, if_true]
      rw [hc, tvStep_one hlen (hlt j (by simp)), List.map_map]
      have : ((fun x : Nat × PrvRec => x.2) ∘ fun l => (j, l)) = id := rfl
      rw [this, List.map_id]
    · have hno : (tvStep tvs (linesAt regs b lvs j0)).getD j 0 = tvs.getD j 0 := by
        apply tvStep_notin
        intro x hx
        rw [hc] at hx
        obtain ⟨l, _, rfl⟩ := List.mem_map.mp hx
        exact fun e => hj e.symm
      simp only [List.mem_cons, hj, false_or, hno]

/-! ### the dirty phase only changes channels it leaves dirty -/

theorem Bay.runCb_chan {b b' : Bay} {cb : Cb} (h : b.runCb cb = .ok b') (c : Nat) :
    b'.chan c = b.chan c ∨ (b'.chan c).dirty = true := by
  cases cb with
  | muxInput mj i =>
    obtain ⟨m, ic, _, _, hw⟩ := Bay.cbInput_ok h
    by_cases hc : c = m.out
    · subst hc
      rcases ((chanOp_set _) _ _ (Bay.write_chan_eq hw).1).1 with e | e
      · exact Or.inl e
      · exact Or.inr e
    · exact Or.inl (Bay.write_chan_ne hw hc)
  | muxSelect mj =>
    obtain ⟨m, s, _, _, _, _, hw⟩ := Bay.cbSelect_ok h
    by_cases hc : c = m.out
    · subst hc
      rcases ((chanOp_set _) _ _ (Bay.write_chan_eq hw).1).1 with e | e
      · left; rw [e, Bay.reselect_chan]
      · exact Or.inr e
    · left; rw [Bay.write_chan_ne hw hc, Bay.reselect_chan]

/-- A channel that is clean after the dirty phase was not touched by it. -/
theorem Bay.dirtyPhase_unchanged {b bP : Bay} (wf : b.WF) {fuel : Nat} (h : b.dirtyPhase fuel 0 = .ok bP) :
    ∀ c, (bP.chan c).dirty = false → bP.chan c = b.chan c := by
  let P : Bay → Nat → Prop := fun b' _ => ∀ c, (b'.chan c).dirty = false → b'.chan c = b.chan c
  have hstep : ∀ (b2 : Bay) (k c : Nat) (b3 : Bay), b2.WF → P b2 k → b2.dirty[k]? = some c →
      b2.propChan (b2.chanFuel c) c 0 = .ok b3 → P b3 (k + 1) := by
    intro b2 k c b3 wf2 hp _ hrun
    exact (Bay.propChan_rule c (fun b4 _ => P b4 0)
      (by
        intro b4 j cb b5 _ hp4 _ hrun4 _ c' hd
        rcases Bay.runCb_chan hrun4 c' with e | e
        · rw [e] at hd ⊢; exact hp4 c' hd
        · rw [e] at hd; cases hd)
      _ b2 0 b3 wf2 hp (Nat.zero_le _) hrun).2.2
  exact (Bay.dirtyPhase_rule P hstep fuel b 0 bP wf (fun _ _ => rfl) (Nat.zero_le _) h).2

/-! ### the invariant between the PRV writer and a clean bay -/

/-- `lvs[j]` is consistent with the value of the `j`-th registered channel,
    and `tvs[j]`, what row `j` shows, is that value converted. -/
structure EmitInv (regs : List PrvReg) (lvs : List (Option Value)) (tvs : List Int) (b : Bay) : Prop where
  lenL : lvs.length = regs.length
  lenT : tvs.length = regs.length
  lv : ∀ (j : Nat) (r : PrvReg), regs[j]? = some r → LvOk r.flags (lvs.getD j none) (b.chan r.chan).cur
  tv : ∀ (j : Nat) (r : PrvReg), regs[j]? = some r → prvValue r.flags (b.chan r.chan).cur = .ok (tvs.getD j 0)

/-- The records `emitView` (View.lean) gives for the registered channels when
    the bay goes from `b` to `bF`, in registration order. -/
def Bay.viewRecs (b : Bay) (regs : List PrvReg) (bF : Bay) : Except Err (List PrvRec) :=
  collect (regs.map fun r => emitView r.file r.row r.type r.flags (b.chan r.chan).cur (bF.chan r.chan).cur)

theorem Bay.viewRecs_error {b bF : Bay} {regs : List PrvReg} {x : Err} (h : b.viewRecs regs bF = .error x) :
    x = .prvZero := by
  obtain ⟨y, hy, hye⟩ := collect_error' h
  obtain ⟨r, _, rfl⟩ := List.mem_map.mp hy
  unfold emitView at hye
  split at hye
  · cases hye
  · cases hp : prvValue r.flags (bF.chan r.chan).cur with
    | ok v => simp only [hp, bind, Except.bind, pure, Except.pure] at hye; cases hye
    | error e =>
      simp only [hp, bind, Except.bind] at hye
      injection hye with hye
      rw [← hye]; exact prvValue_error hp

theorem emitOne_error {r : PrvReg} {lv : Option Value} {v : Value} {x : Err} (hdup : DupOk r.flags)
    (h : emitOne r lv v = .error x) : x = .prvZero := by
  have hw : ∀ lv', emitWrite r lv' v = .error x → x = .prvZero := by
    intro lv' hw
    unfold emitWrite at hw
    cases hp : prvValue r.flags v with
    | ok y => rw [hp] at hw; cases hw
    | error e => rw [hp] at hw; injection hw with hw; rw [← hw]; exact prvValue_error hp
  unfold emitOne at h
  by_cases he : hasFlag r.flags prvEmitDup = true
  · simp only [he, if_true] at h; exact hw _ h
  · simp only [he, if_false] at h
    by_cases hl : lv = some v
    · simp only [hl, if_true] at h
      by_cases h1 : hasFlag r.flags prvSkipDup = true
      · simp only [h1, if_true] at h; cases h
      · simp only [h1, if_false] at h
        have h2 : hasFlag r.flags prvSkipDupNull = true := by
          rcases hdup with h | h | h
          · exact absurd h he
          · exact absurd h h1
          · exact h
        simp only [h2, if_true] at h
        by_cases hn : v = Value.null
        · rw [if_pos hn] at h; cases h
        · rw [if_neg hn] at h; exact hw _ h
    · simp only [hl, if_false] at h; exact hw _ h

/-- **One event on a bay with registered channels.**  `b`: clean bay; `b1`: after
    the writes of the event; `bF`: after `bay_propagate`.  With `EmitInv` before
    the event and a duplicate policy but no `PRV_ZERO` on every registration:

    * `bay_propagate` with the PRV callbacks fails iff `viewRecs` does, and the
      only possible error is "forbidden value 0";
    * otherwise it ends in the same bay `bF` as `Bay.propagate`, the lines `L` it
      writes are, up to the order (dirty-list order vs registration order), a
      list `Lr` such that `viewRecs` = the lines of `Lr` that change what their
      row shows (the other lines repeat the value the row already shows);
    * `EmitInv` holds again, with the rows updated by `L`. -/
theorem Bay.emit_step {ok : Nat → Prop} {b b1 bF : Bay} {em : List (Nat × Value)} {regs : List PrvReg}
    {lvs : List (Option Value)} {tvs : List Int}
    (wf : b.WF) (hw : Bay.Writes ok b b1) (hp : b1.propagate = .ok (bF, em))
    (hinv : EmitInv regs lvs tvs b) (hfl : ∀ r ∈ regs, DupOk r.flags ∧ NoZero r.flags) :
    ((∃ x, b.viewRecs regs bF = .error x) ↔ (∃ y, b1.propagateP regs lvs = .error y)) ∧
    (∀ y, b1.propagateP regs lvs = .error y → y = .prvZero) ∧
    (∀ vr, b.viewRecs regs bF = .ok vr → ∃ lvs' L Lr, b1.propagateP regs lvs = .ok (bF, lvs', L) ∧
      L.Perm Lr ∧ vr = (Lr.filter (effective tvs)).map (·.2) ∧ EmitInv regs lvs' (tvStep tvs L) bF) := by
  obtain ⟨bP, b2, h1, h2, rfl, _⟩ := Bay.propagate_ok hp
  obtain ⟨wf1, _, _, _, _, hclean1⟩ := hw.inv wf
  have wfP : bP.WF := (Bay.dirtyPhase_length wf1 h1).1
  obtain ⟨_, _, hcurF, _⟩ := Bay.flush_result wfP h2
  have hunch := Bay.dirtyPhase_unchanged wf1 h1
  -- the walk `bay_propagate` performs
  have hPP : b1.propagateP regs lvs =
      match emitWalk regs bP (bP.emitSeq regs) lvs with
      | .error e => .error e
      | .ok (lvs', ls) => .ok (({ b2 with dirty := [] } : Bay), lvs', ls) := by
    unfold Bay.propagateP
    simp only [h1]
    cases emitWalk regs bP (bP.emitSeq regs) lvs with
    | error e => rfl
    | ok q => obtain ⟨l1, l2⟩ := q; simp only [h2]
  have hnd : (bP.emitSeq regs).Nodup := Bay.emitSeq_nodup wfP.dirtyNodup regs
  -- per registration
  let dOf : PrvReg → Bool := fun r => decide (r.chan ∈ bP.dirty)
  have hvn : ∀ r : PrvReg, ((({ b2 with dirty := [] } : Bay)).chan r.chan).cur = (bP.chan r.chan).cur :=
    fun r => hcurF r.chan
  have hdz : ∀ r : PrvReg, dOf r = false → (bP.chan r.chan).cur = (b.chan r.chan).cur := by
    intro r hd
    have hnm : r.chan ∉ bP.dirty := by simpa [dOf] using hd
    have hdf : (bP.chan r.chan).dirty = false := by
      cases hx : (bP.chan r.chan).dirty
      · rfl
      · exact absurd ((wfP.dirtyIff _).mpr hx) hnm
    have e1 := hunch _ hdf
    rw [e1] at hdf
    rw [e1, hclean1 _ hdf]
  have hreg : ∀ (j : Nat) (r : PrvReg), regs[j]? = some r →
      (∀ x, emitView r.file r.row r.type r.flags (b.chan r.chan).cur (bP.chan r.chan).cur = .error x →
        emitIf r (dOf r) (lvs.getD j none) (bP.chan r.chan).cur = .error x) ∧
      (∀ x, emitIf r (dOf r) (lvs.getD j none) (bP.chan r.chan).cur = .error x →
        emitView r.file r.row r.type r.flags (b.chan r.chan).cur (bP.chan r.chan).cur = .error x) ∧
      (∀ m, emitView r.file r.row r.type r.flags (b.chan r.chan).cur (bP.chan r.chan).cur = .ok m →
        ∃ lv' c, emitIf r (dOf r) (lvs.getD j none) (bP.chan r.chan).cur = .ok (lv', c) ∧
          LvOk r.flags lv' (bP.chan r.chan).cur ∧ prvValue r.flags (bP.chan r.chan).cur = .ok (tvNew (tvs.getD j 0) c) ∧
          m = c.filter (fun l => l.value != tvs.getD j 0) ∧ c.length ≤ 1) := by
    intro j r hr
    have hm : r ∈ regs := List.mem_of_getElem? hr
    exact emit_vs_view (hfl r hm).1 (hfl r hm).2 (hinv.lv j r hr) (hinv.tv j r hr) (hdz r)
  have hjs : ∀ j, j ∈ bP.emitSeq regs ↔ ∃ r, regs[j]? = some r ∧ dOf r = true := by
    intro j; rw [Bay.mem_emitSeq]; simp [dOf]
  have hat : ∀ (j : Nat) (r : PrvReg), regs[j]? = some r → dOf r = true →
      emitAt regs bP lvs j = emitIf r (dOf r) (lvs.getD j none) (bP.chan r.chan).cur := by
    intro j r hr hd
    unfold emitAt emitIf; rw [hr, hd]; rfl
  have hview : ∀ r : PrvReg,
      emitView r.file r.row r.type r.flags (b.chan r.chan).cur ((({ b2 with dirty := [] } : Bay)).chan r.chan).cur =
      emitView r.file r.row r.type r.flags (b.chan r.chan).cur (bP.chan r.chan).cur := fun r => by rw [hvn]
  refine ⟨⟨?_, ?_⟩, ?_, ?_⟩
  · -- `viewRecs` fails ⇒ the walk fails
    rintro ⟨x, hx⟩
    obtain ⟨y, hy, hye⟩ := collect_error' hx
    obtain ⟨r, hr, rfl⟩ := List.mem_map.mp hy
    obtain ⟨j, hj⟩ := List.mem_iff_getElem?.mp hr
    rw [hview] at hye
    have he := (hreg j r hj).1 x hye
    have hd : dOf r = true := by
      cases hdd : dOf r
      · unfold emitIf at he; rw [hdd] at he; simp at he
      · rfl
    rw [hPP]
    cases hwk : emitWalk regs bP (bP.emitSeq regs) lvs with
    | error e => exact ⟨e, rfl⟩
    | ok q =>
      exfalso
      obtain ⟨lvs', L⟩ := q
      obtain ⟨g1, _⟩ := emitWalk_ok regs bP _ lvs lvs' L hnd
        (fun j hj => by
          obtain ⟨r, hr, _⟩ := (hjs j).mp hj
          rw [hinv.lenL]; exact (List.getElem?_eq_some_iff.mp hr).1) hwk
      obtain ⟨lv', ls, q1, _⟩ := g1 j ((hjs j).mpr ⟨r, hj, hd⟩)
      rw [hat j r hj hd, he] at q1; cases q1
  · -- the walk fails ⇒ `viewRecs` fails
    rintro ⟨y, hy⟩
    rw [hPP] at hy
    cases hwk : emitWalk regs bP (bP.emitSeq regs) lvs with
    | ok q => obtain ⟨l1, l2⟩ := q; rw [hwk] at hy; cases hy
    | error e =>
      obtain ⟨j, hj, hje⟩ := emitWalk_error regs bP _ lvs e hnd hwk
      obtain ⟨r, hr, hd⟩ := (hjs j).mp hj
      rw [hat j r hr hd] at hje
      have := (hreg j r hr).2.1 e hje
      unfold Bay.viewRecs
      exact collect_has_error ⟨_, List.mem_map.mpr ⟨r, List.mem_of_getElem? hr, rfl⟩, e, by rw [hview]; exact this⟩
  · intro y hy
    rw [hPP] at hy
    cases hwk : emitWalk regs bP (bP.emitSeq regs) lvs with
    | ok q => obtain ⟨l1, l2⟩ := q; rw [hwk] at hy; cases hy
    | error e =>
      rw [hwk] at hy
      injection hy with hy; subst hy
      obtain ⟨j, hj, hje⟩ := emitWalk_error regs bP _ lvs e hnd hwk
      obtain ⟨r, hr, hd⟩ := (hjs j).mp hj
      unfold emitAt at hje
      rw [hr] at hje
      exact emitOne_error (hfl r (List.mem_of_getElem? hr)).1 hje
  · intro vr hvr
    -- every `emitView` succeeds, hence every callback
    have hall : ∀ (j : Nat) (r : PrvReg), regs[j]? = some r →
        ∃ m, emitView r.file r.row r.type r.flags (b.chan r.chan).cur (bP.chan r.chan).cur = .ok m := by
      intro j r hr
      obtain ⟨m, hm, _⟩ := collect_ok hvr _ (List.mem_map.mpr ⟨r, List.mem_of_getElem? hr, rfl⟩)
      rw [hview] at hm
      exact ⟨m, hm⟩
    obtain ⟨lvs', L, hwk⟩ := emitWalk_total regs bP (bP.emitSeq regs) lvs hnd (by
      intro j hj
      obtain ⟨r, hr, hd⟩ := (hjs j).mp hj
      obtain ⟨m, hm⟩ := hall j r hr
      obtain ⟨lv', c, hc, _⟩ := (hreg j r hr).2.2 m hm
      exact ⟨(lv', c), by rw [hat j r hr hd]; exact hc⟩)
    obtain ⟨g1, g2, g3, g4⟩ := emitWalk_ok regs bP _ lvs lvs' L hnd
      (fun j hj => by
        obtain ⟨r, hr, _⟩ := (hjs j).mp hj
        rw [hinv.lenL]; exact (List.getElem?_eq_some_iff.mp hr).1) hwk
    -- the lines in registration order
    let filt := (List.range regs.length).filter fun j =>
      match regs[j]? with
      | some r => decide (r.chan ∈ bP.dirty)
      | none => false
    have hperm : (bP.emitSeq regs).Perm filt := Bay.emitSeq_perm wfP.dirtyNodup regs
    refine ⟨lvs', L, filt.flatMap (linesAt regs bP lvs), by rw [hPP, hwk], ?_, ?_, ?_⟩
    · rw [g4]; exact List.Perm.flatMap_right _ hperm
    · -- `viewRecs` = the effective lines
      let g : PrvReg → List PrvRec := fun r =>
        match emitView r.file r.row r.type r.flags (b.chan r.chan).cur (bP.chan r.chan).cur with
        | .ok m => m
        | .error _ => []
      have hvr' : vr = regs.flatMap g := by
        have : b.viewRecs regs ({ b2 with dirty := [] } : Bay) = .ok (regs.flatMap g) := by
          unfold Bay.viewRecs
          apply collect_map_ok
          intro r hr
          obtain ⟨j, hj⟩ := List.mem_iff_getElem?.mp hr
          obtain ⟨m, hm⟩ := hall j r hj
          have hg : g r = m := by simp only [g, hm]
          rw [hview, hm, hg]
        rw [this] at hvr; injection hvr with hvr; exact hvr.symm
      rw [hvr', flatMap_eq_range, List.filter_flatMap, List.map_flatMap, flatMap_filter]
      apply flatMap_congr_mem
      intro j hj
      have hjl : j < regs.length := List.mem_range.mp hj
      have hr : regs[j]? = some regs[j] := List.getElem?_eq_getElem hjl
      obtain ⟨m, hm⟩ := hall j _ hr
      obtain ⟨lv', c, hc, _, _, hmc, _⟩ := (hreg j _ hr).2.2 m hm
      simp only [hr]
      have hg : g regs[j] = m := by simp only [g, hm]
      rw [hg]
      cases hd : dOf regs[j]
      · have : decide (regs[j].chan ∈ bP.dirty) = false := hd
        simp only [this, Bool.false_eq_true, if_false]
        unfold emitIf at hc; rw [hd] at hc
        simp only [Bool.false_eq_true, if_false] at hc
        injection hc with hc; injection hc with _ hc2
        rw [hmc, ← hc2]; rfl
      · have : decide (regs[j].chan ∈ bP.dirty) = true := hd
        simp only [this, if_true]
        have hl : linesAt regs bP lvs j = c.map fun l => (j, l) := by
          unfold linesAt; rw [hat j _ hr hd, hc]
        rw [hl, hmc, List.filter_map, List.map_map]
        have : ((fun x : Nat × PrvRec => x.2) ∘ fun l => (j, l)) = id := rfl
        rw [this, List.map_id]
        rfl
    · -- the invariant after the event
      have hlenT : (tvStep tvs L).length = regs.length := by rw [tvStep_length]; exact hinv.lenT
      refine ⟨by rw [g3]; exact hinv.lenL, hlenT, ?_, ?_⟩
      · intro j r hr
        rw [hvn]
        obtain ⟨m, hm⟩ := hall j r hr
        obtain ⟨lv', c, hc, hlv, _⟩ := (hreg j r hr).2.2 m hm
        cases hd : dOf r
        · have hnj : j ∉ bP.emitSeq regs := by
            intro hj
            obtain ⟨r', hr', hd'⟩ := (hjs j).mp hj
            rw [hr] at hr'; cases hr'; rw [hd] at hd'; cases hd'
          rw [g2 j hnj]
          unfold emitIf at hc; rw [hd] at hc
          simp only [Bool.false_eq_true, if_false] at hc
          injection hc with hc; injection hc with hc1 _
          rw [hc1]; exact hlv
        · obtain ⟨lv2, ls2, q1, q2⟩ := g1 j ((hjs j).mpr ⟨r, hr, hd⟩)
          rw [hat j r hr hd, hc] at q1
          injection q1 with q1; injection q1 with q1 _
          rw [q2, ← q1]; exact hlv
      · intro j r hr
        rw [hvn]
        obtain ⟨m, hm⟩ := hall j r hr
        obtain ⟨lv', c, hc, _, htv, _, hlen⟩ := (hreg j r hr).2.2 m hm
        have hjl : j < tvs.length := by rw [hinv.lenT]; exact (List.getElem?_eq_some_iff.mp hr).1
        have hts := tvStep_flatMap regs bP lvs (bP.emitSeq regs) tvs hnd
          (fun j' hj' => by
            obtain ⟨r', hr', _⟩ := (hjs j').mp hj'
            rw [hinv.lenT]; exact (List.getElem?_eq_some_iff.mp hr').1) j
        rw [g4, hts]
        cases hd : dOf r
        · have hnj : j ∉ bP.emitSeq regs := by
            intro hj
            obtain ⟨r', hr', hd'⟩ := (hjs j).mp hj
            rw [hr] at hr'; cases hr'; rw [hd] at hd'; cases hd'
          simp only [hnj, if_false]
          unfold emitIf at hc; rw [hd] at hc
          simp only [Bool.false_eq_true, if_false] at hc
          injection hc with hc; injection hc with _ hc2
          rw [← hc2] at htv; exact htv
        · have hj : j ∈ bP.emitSeq regs := (hjs j).mpr ⟨r, hr, hd⟩
          simp only [hj, if_true]
          have hl : linesAt regs bP lvs j = c.map fun l => (j, l) := by
            unfold linesAt; rw [hat j r hr hd, hc]
          rw [hl, List.map_map]
          have : ((fun x : Nat × PrvRec => x.2) ∘ fun l => (j, l)) = id := rfl
          rw [this, List.map_id]
          exact htv

end Ovni.Emu
