import OvniModel.Lemmas.TaskHook
import OvniModel.Lemmas.CoreBay
import OvniModel.Lemmas.CoreBayRaw
import OvniModel.Emu.MarkEmu

/-
  C06, the coupling between the task layer and the thread channels (2/3): what
  the handlers of `Emu/Core.lean` do to the RAW channels, at the level of
  `Emu.src`.

  * `withChan_src` / `applyWrites_src`: one channel operation (a list of them)
    changes exactly the named raw channel(s) of the event's thread;
  * `SimP.frame_raw`: a step that is a `SimP P` step (all handlers are) leaves
    every raw channel outside `P` alone — read off the bay that mirrors it;
  * no handler changes `Emu.maxStack`.
-/
set_option linter.unusedSimpArgs false
namespace Ovni.Emu
open Ovni.Generated

/-! ### `maxStack` is constant -/

theorem withChan_maxStack {e e' : Emu} {ti m i : Nat} {f : Chan → Except Err Chan}
    (h : Ovni.Emu.withChan e ti m i f = .ok e') : e'.maxStack = e.maxStack := by
  unfold Ovni.Emu.withChan at h
  simp only [bind, Except.bind, pure, Except.pure, throw, throwThe, MonadExceptOf.throw] at h
  repeat' split at h
  all_goals first | (cases h; done) | skip
  injection h with h; subst h; rfl

theorem cpuAddThread_maxStack {e e' : Emu} {ci ti : Nat} (h : Ovni.Emu.cpuAddThread e ci ti = .ok e') :
    e'.maxStack = e.maxStack := by
  unfold Ovni.Emu.cpuAddThread at h
  simp only [bind, Except.bind, pure, Except.pure, throw, throwThe, MonadExceptOf.throw] at h
  repeat' split at h
  all_goals first | (cases h; done) | skip
  all_goals (injection h with h; subst h; rfl)

theorem cpuRemoveThread_maxStack {e e' : Emu} {ci ti : Nat} (h : Ovni.Emu.cpuRemoveThread e ci ti = .ok e') :
    e'.maxStack = e.maxStack := by
  unfold Ovni.Emu.cpuRemoveThread at h
  simp only [bind, Except.bind, pure, Except.pure, throw, throwThe, MonadExceptOf.throw] at h
  repeat' split at h
  all_goals first | (cases h; done) | skip
  all_goals (injection h with h; subst h; rfl)

theorem cpuRefresh_maxStack {e e' : Emu} {ci : Nat} (h : Ovni.Emu.cpuRefresh e ci = .ok e') :
    e'.maxStack = e.maxStack := by
  unfold Ovni.Emu.cpuRefresh at h
  simp only [bind, Except.bind, pure, Except.pure, throw, throwThe, MonadExceptOf.throw] at h
  repeat' split at h
  all_goals first | (cases h; done) | skip
  all_goals (injection h with h; subst h; rfl)

theorem preThread_maxStack {e e' : Emu} {ti v : Nat} {p : List Nat} (h : Ovni.Emu.preThread e ti v p = .ok e') :
    e'.maxStack = e.maxStack := by
  unfold Ovni.Emu.preThread at h
  repeat' split at h
  · injection h with h; subst h; rfl
  · unfold Ovni.Emu.preThreadExecute at h
    simp only [bind, Except.bind, pure, Except.pure, throw, throwThe, MonadExceptOf.throw] at h
    repeat' split at h
    all_goals first | (cases h; done) | skip
    have hh := cpuAddThread_maxStack h
    exact hh
  · unfold Ovni.Emu.preThreadEnd at h
    simp only [bind, Except.bind, pure, Except.pure, throw, throwThe, MonadExceptOf.throw] at h
    repeat' split at h
    all_goals first | (cases h; done) | skip
    rename_i _ _ _ _ _ _ _ _ e1 hrm _ _ _
    injection h with h; subst h
    have hh := cpuRemoveThread_maxStack hrm
    exact hh
  all_goals first
    | (cases h; done)
    | (unfold Ovni.Emu.preThreadChange at h
       simp only [bind, Except.bind, pure, Except.pure, throw, throwThe, MonadExceptOf.throw] at h
       repeat' split at h
       all_goals first | (cases h; done) | skip
       have hh := cpuRefresh_maxStack h
       exact hh)

theorem migrate_maxStack {e e' : Emu} {ti fr to : Nat} (h : Ovni.Emu.migrate e ti fr to = .ok e') :
    e'.maxStack = e.maxStack := by
  unfold Ovni.Emu.migrate at h
  simp only [bind, Except.bind, pure, Except.pure, throw, throwThe, MonadExceptOf.throw] at h
  repeat' split at h
  all_goals first | (cases h; done) | skip
  rename_i _ e1 hrm _ e2 hadd _ t ht _ t1 h1
  injection h with h; subst h
  exact (cpuAddThread_maxStack hadd).trans (cpuRemoveThread_maxStack hrm)

theorem preAffinitySet_maxStack {e e' : Emu} {ti : Nat} {p : List Nat} (h : Ovni.Emu.preAffinitySet e ti p = .ok e') :
    e'.maxStack = e.maxStack := by
  unfold Ovni.Emu.preAffinitySet at h
  simp only [bind, Except.bind, pure, Except.pure, throw, throwThe, MonadExceptOf.throw] at h
  repeat' split at h
  all_goals first | (cases h; done) | skip
  · injection h with h; subst h; rfl
  · exact migrate_maxStack h

theorem preAffinityRemote_maxStack {e e' : Emu} {ti : Nat} {p : List Nat}
    (h : Ovni.Emu.preAffinityRemote e ti p = .ok e') : e'.maxStack = e.maxStack := by
  unfold Ovni.Emu.preAffinityRemote at h
  simp only [bind, Except.bind, pure, Except.pure, throw, throwThe, MonadExceptOf.throw] at h
  repeat' split at h
  all_goals first | (cases h; done) | skip
  exact migrate_maxStack h

theorem preFlush_maxStack {e e' : Emu} {ti v : Nat} (h : Ovni.Emu.preFlush e ti v = .ok e') :
    e'.maxStack = e.maxStack := by
  unfold Ovni.Emu.preFlush at h
  repeat' split at h
  · exact withChan_maxStack h
  · exact withChan_maxStack h
  · cases h

theorem markEvent_maxStack {tab : List MarkType} {e e' : Emu} {ti v : Nat} {p : List Nat}
    (h : markEvent tab e ti v p = .ok e') : e'.maxStack = e.maxStack := by
  simp only [markEvent] at h
  repeat' split at h
  all_goals first | (cases h; done) | skip
  all_goals exact withChan_maxStack h

theorem ovniEvent_maxStack {e e' : Emu} {ti c v : Nat} {p : List Nat}
    {mh : Emu → Nat → Nat → List Nat → Except Err Emu}
    (hmh : ∀ e ti v p e', mh e ti v p = .ok e' → e'.maxStack = e.maxStack)
    (h : Ovni.Emu.ovniEvent e ti c v p mh = .ok e') : e'.maxStack = e.maxStack := by
  unfold Ovni.Emu.ovniEvent at h
  simp only [bind, Except.bind, pure, Except.pure, throw, throwThe, MonadExceptOf.throw] at h
  repeat' split at h
  all_goals first | (cases h; done) | skip
  all_goals first
    | exact preThread_maxStack h
    | exact preAffinitySet_maxStack h
    | exact preAffinityRemote_maxStack h
    | exact preFlush_maxStack h
    | exact hmh _ _ _ _ _ h
    | (injection h with h; subst h; rfl)

theorem tableEvent_maxStack {e e' : Emu} {ti c v : Nat} {m : ModelSpec}
    (h : Ovni.Emu.tableEvent e ti m c v = .ok e') : e'.maxStack = e.maxStack := by
  unfold Ovni.Emu.tableEvent at h
  simp only [bind, Except.bind, pure, Except.pure, throw, throwThe, MonadExceptOf.throw] at h
  repeat' split at h
  all_goals first | (cases h; done) | skip
  all_goals (injection h with h; subst h)
  all_goals first
    | rfl
    | (have hh := withChan_maxStack (by assumption); exact hh)

theorem applyWrites_maxStack {ti mc : Nat} : ∀ (ws : List TaskWr) {e e' : Emu},
    applyWrites e ti mc ws = .ok e' → e'.maxStack = e.maxStack := by
  intro ws
  induction ws with
  | nil => intro e e' h; cases h; rfl
  | cons w ws ih =>
    intro e e' h
    rw [applyWrites_cons] at h
    split at h
    · cases h
    · rename_i e1 h1
      have : e1.maxStack = e.maxStack := by
        cases w <;> exact withChan_maxStack h1
      exact (ih h).trans this

theorem taskHook_maxStack {m : Ovni.Task.Model} {P : Ovni.Task.ProcInfo} {ε : Ovni.Task.Emu} {ev : Ovni.Task.Ev}
    {e e' : Emu} {ti a b : Nat} {p : List Nat} (h : taskHook m P ε ev e ti a b p = .ok e') :
    e'.maxStack = e.maxStack := by
  unfold taskHook at h
  simp only at h
  split at h
  · cases h
  · cases ev with
    | typeCreate _ _ _ => simp only at h; cases h; rfl
    | taskCreate _ _ _ => simp only at h; cases h; rfl
    | ssPush _ _ => cases h
    | ssPop _ _ => cases h
    | task th tv t bp =>
      simp only at h
      split at h
      · cases h
      · split at h
        · cases h
        · exact applyWrites_maxStack _ h

/-- **No handler changes `maxStack`** (hooks: by hypothesis). -/
theorem modelEvent_maxStack {e e' : Emu} {ti m c v : Nat} {p : List Nat}
    {th mh : Emu → Nat → Nat → Nat → List Nat → Except Err Emu}
    (hth : ∀ e ti a b p e', th e ti a b p = .ok e' → e'.maxStack = e.maxStack)
    (hmh : ∀ e ti a b p e', mh e ti a b p = .ok e' → e'.maxStack = e.maxStack)
    (h : Ovni.Emu.modelEvent e ti m c v p th mh = .ok e') : e'.maxStack = e.maxStack := by
  unfold Ovni.Emu.modelEvent at h
  simp only [bind, Except.bind, pure, Except.pure, throw, throwThe, MonadExceptOf.throw] at h
  repeat' split at h
  all_goals first | (cases h; done) | skip
  · exact ovniEvent_maxStack (fun e ti v p e' h => hmh e ti c v p e' h) h
  · exact hth _ _ _ _ _ _ h
  · exact tableEvent_maxStack h

/-! ### one channel operation, at the level of `Emu.src` -/

/-- **`withChan` changes exactly one raw channel**: channel `i` of the thread's
    group at the position `k` of the model `m` in the spec list. -/
theorem withChan_src {e e' : Emu} {ti m i k : Nat} {ms : ModelSpec} {f : Chan → Except Err Chan} (hs : Shaped e)
    (hk : e.specs[k]? = some ms) (hc : ms.char = m) (h : Ovni.Emu.withChan e ti m i f = .ok e') :
    ∃ c c', e.src (.raw ti k i) = some c ∧ f c = .ok c' ∧ e'.src (.raw ti k i) = some c' ∧
      (∀ s, s ≠ .raw ti k i → e'.src s = e.src s) := by
  unfold Ovni.Emu.withChan at h
  simp only [bind, Except.bind, pure, Except.pure, throw, throwThe, MonadExceptOf.throw] at h
  repeat' split at h
  all_goals first | (cases h; done) | skip
  rename_i _ t ht _ cs hcs _ c hcc _ c' hfc
  injection h with h; subst h
  obtain ⟨k0, hk0⟩ := Thread.getChans_at hcs
  have hnd := hs.keys ht
  have hkk : k0 = k := by
    obtain ⟨cs2, hcs2, _⟩ := hs.mch_of_spec ht hk
    have h1 : (t.mch.map (·.1))[k0]? = some m := by rw [List.getElem?_map, hk0]; rfl
    have h2 : (t.mch.map (·.1))[k]? = some m := by rw [List.getElem?_map, hcs2]; simp [hc]
    exact nodup_getElem?_inj hnd h1 h2
  subst hkk
  have hg : (t.setChans m (cs.set i c')).gindex = ti := hs.thIdx ti t ht
  have hlt : ti < e.threads.length := (List.getElem?_eq_some_iff.mp ht).1
  have hil : i < cs.length := (List.getElem?_eq_some_iff.mp hcc).1
  have hthr : (e.setThread (t.setChans m (cs.set i c'))).threads = e.threads.set ti (t.setChans m (cs.set i c')) := by
    simp only [Emu.setThread, hg]
  have hmch := Thread.setChans_getElem? (cs' := cs.set i c') hnd hk0
  refine ⟨c, c', by simp only [Emu.src, ht, hk0, hcc], hfc, ?_, ?_⟩
  · simp only [Emu.src, hthr, List.getElem?_set_self hlt, hmch, if_true, List.getElem?_set_self hil]
  · intro s hne
    cases s with
    | st g =>
      simp only [Emu.src, hthr]
      by_cases hgt : ti = g
      · subst hgt; simp only [List.getElem?_set_self hlt, ht, Option.map_some]; rfl
      · rw [List.getElem?_set_ne hgt]
    | run c => rfl
    | act c => rfl
    | raw g k' i' =>
      simp only [Emu.src, hthr]
      by_cases hgt : ti = g
      · subst hgt
        simp only [List.getElem?_set_self hlt, ht, hmch]
        by_cases hkk : k' = k0
        · subst hkk
          simp only [if_true, hk0]
          have : i ≠ i' := fun h => hne (by rw [h])
          rw [List.getElem?_set_ne this]
        · simp only [hkk, if_false]
      · rw [List.getElem?_set_ne hgt]

/-- the channel operation of one write of the task layer -/
def wrOp (n : Nat) : TaskWr → Chan → Except Err Chan
  | .set _ v => (·.set v)
  | .push _ v => (Chan.push n · v)
  | .pop _ v => (·.pop v)

theorem chanOp_wrOp (n : Nat) (w : TaskWr) : ChanOp (wrOp n w) := by
  cases w with
  | set c v => exact chanOp_set v
  | push c v => exact chanOp_push n v
  | pop c v => exact chanOp_pop v

/-- **`applyWrites` on distinct channels**: every listed channel of the thread's
    group gets its operation, nothing else changes. -/
theorem applyWrites_src {ti mc k : Nat} {ms : ModelSpec} : ∀ (ws : List TaskWr) {e e' : Emu}, Shaped e →
    e.specs[k]? = some ms → ms.char = mc → (ws.map TaskWr.chan).Nodup → applyWrites e ti mc ws = .ok e' →
    Shaped e' ∧ e'.shape = e.shape ∧
    (∀ w ∈ ws, ∃ c c', e.src (.raw ti k w.chan) = some c ∧ wrOp e.maxStack w c = .ok c' ∧
      e'.src (.raw ti k w.chan) = some c') ∧
    (∀ s, (∀ w ∈ ws, s ≠ .raw ti k w.chan) → e'.src s = e.src s) := by
  intro ws
  induction ws with
  | nil =>
    intro e e' hs _ _ _ h
    cases h
    exact ⟨hs, rfl, fun w hw => (by cases hw), fun _ _ => rfl⟩
  | cons w ws ih =>
    intro e e' hs hk hc hnd h
    rw [applyWrites_cons] at h
    rw [List.map_cons, List.nodup_cons] at hnd
    split at h
    · cases h
    · rename_i e1 h1
      have h1' : Ovni.Emu.withChan e ti mc w.chan (wrOp e.maxStack w) = .ok e1 := by
        cases w <;> exact h1
      obtain ⟨c, c', a1, a2, a3, a4⟩ := withChan_src hs hk hc h1'
      obtain ⟨hs1, hsh1⟩ := (SimP.withChan (chanOp_wrOp _ w) h1') hs |>.imp id (·.1)
      have hk1 : e1.specs[k]? = some ms := by
        have : e1.specs = e.specs := congrArg Shape.specs hsh1
        rw [this]; exact hk
      have hms : e1.maxStack = e.maxStack := withChan_maxStack h1'
      obtain ⟨hs', hsh', b1, b2⟩ := ih hs1 hk1 hc hnd.2 h
      refine ⟨hs', hsh'.trans hsh1, ?_, ?_⟩
      · intro w' hw'
        rcases List.mem_cons.mp hw' with rfl | hw'
        · refine ⟨c, c', a1, a2, ?_⟩
          rw [b2 _ (fun w2 hw2 hq => hnd.1 (by
            have : w'.chan = w2.chan := by injection hq
            rw [this]; exact List.mem_map.mpr ⟨w2, hw2, rfl⟩))]
          exact a3
        · obtain ⟨d, d', q1, q2, q3⟩ := b1 w' hw'
          refine ⟨d, d', ?_, hms ▸ q2, q3⟩
          rw [← a4 _ (fun hq => hnd.1 (by
            have : w'.chan = w.chan := by injection hq
            rw [← this]; exact List.mem_map.mpr ⟨w', hw', rfl⟩))]
          exact q1
      · intro s hne
        rw [b2 s (fun w2 hw2 => hne w2 (by simp [hw2])), a4 s (hne w (by simp))]

/-! ### frame of a `SimP` step on the raw channels -/

theorem Bay.Writes.chan_frame {ok : Nat → Prop} {b b1 : Bay} (h : Bay.Writes ok b b1) {c : Nat} (hc : ¬ ok c) :
    b1.chan c = b.chan c := by
  induction h with
  | nil => rfl
  | @snoc b1 b2 c0 f _ hok _ hw ih =>
    rw [Bay.write_chan_ne hw (fun e => hc (by rw [e]; exact hok))]; exact ih

theorem Shaped.src_raw_some {e : Emu} (hs : Shaped e) {g k i : Nat} {ms : ModelSpec} (hg : g < e.threads.length)
    (hk : e.specs[k]? = some ms) (hi : i < ms.nch) : ∃ ch, e.src (.raw g k i) = some ch := by
  have ht : e.threads[g]? = some e.threads[g] := List.getElem?_eq_getElem hg
  obtain ⟨cs, hcs, hlen⟩ := hs.mch_of_spec ht hk
  have hil : i < cs.length := by omega
  exact ⟨cs[i], by simp only [Emu.src, ht, hcs, List.getElem?_eq_getElem hil]⟩

/-- **A `SimP P` step leaves the raw channels outside `P` alone.**  (`b`: any bay
    mirroring `e`; the writes that lead to a bay mirroring `e'` only touch the
    channels of `P`.) -/
theorem SimP.frame_raw {P : Src → Prop} {e e' : Emu} {b : Bay} (h : SimP P e e') (hs : Shaped e)
    (hm : Mirrors e b) {g k i : Nat} {ch : Chan} (hsrc : e.src (.raw g k i) = some ch) (hnP : ¬ P (.raw g k i)) :
    e'.src (.raw g k i) = some ch := by
  obtain ⟨hs', hsh, hw⟩ := h hs
  obtain ⟨b1, hwr, hm1⟩ := hw b hm
  have hmem := hs.src_mem hsrc
  obtain ⟨hg, ms, hk, hi⟩ := (e.shape.mem_raw g k i).mp hmem
  have hlen : e'.threads.length = e.threads.length := by
    have := congrArg Shape.nT hsh; exact this
  have hspecs : e'.specs = e.specs := congrArg Shape.specs hsh
  obtain ⟨ch', hch'⟩ := hs'.src_raw_some (g := g) (k := k) (i := i) (ms := ms) (by rw [hlen]; exact hg)
    (by rw [hspecs]; exact hk) hi
  have h1 := Bay.chan_of_getElem? (hm1 _ _ hch')
  have h0 := Bay.chan_of_getElem? (hm _ _ hsrc)
  rw [hsh] at h1
  have hfr := hwr.chan_frame (c := e.shape.idx (.raw g k i)) (fun hok => hnP (Shape.okP_idx hmem hok))
  rw [h1, h0] at hfr
  rw [hch', hfr]

/-! ### events of another model: the class of raw channels of one model character -/

/-- raw channels of the groups whose spec has character `m` -/
def rawChar (specs : List ModelSpec) (m : Nat) (s : Src) : Prop :=
  ∃ g k0 i ms0, s = .raw g k0 i ∧ specs[k0]? = some ms0 ∧ ms0.char = m

/-- `SimP.withChan` with the model position named. -/
theorem SimP.withChanK {e e' : Emu} {ti m i : Nat} {f : Chan → Except Err Chan}
    (hf : ChanOp f) (h : Ovni.Emu.withChan e ti m i f = .ok e') : SimP (rawChar e.specs m) e e' := by
  unfold Ovni.Emu.withChan at h
  simp only [bind, Except.bind, pure, Except.pure, throw, throwThe, MonadExceptOf.throw] at h
  repeat' split at h
  all_goals first | (cases h; done) | skip
  rename_i _ t ht _ cs hcs _ c hc _ c' hfc
  injection h with h; subst h
  intro hs
  obtain ⟨k, hk⟩ := Thread.getChans_at hcs
  obtain ⟨ms0, hms0, hch0, _⟩ := hs.mch_at ht hk
  have hnd := hs.keys ht
  have hg : (t.setChans m (cs.set i c')).gindex = ti := hs.thIdx ti t ht
  have hlt : ti < e.threads.length := (List.getElem?_eq_some_iff.mp ht).1
  have hil : i < cs.length := (List.getElem?_eq_some_iff.mp hc).1
  have hthr : (e.setThread (t.setChans m (cs.set i c'))).threads = e.threads.set ti (t.setChans m (cs.set i c')) := by
    simp only [Emu.setThread, hg]
  have hmch := Thread.setChans_getElem? (cs' := cs.set i c') hnd hk
  refine SimP.of_write (fun hs => ⟨⟨?_, hs.cpuIdx, ?_, hs.chars, ?_, ?_⟩, ?_⟩) (.raw ti k i)
    ⟨ti, k, i, ms0, rfl, hms0, hch0⟩ hf
    (by simp only [Emu.src, ht, hk, hc]) hfc ?_ ?_ hs
  · intro g u hu
    rw [hthr] at hu
    rcases getElem?_set_some hu with ⟨rfl, rfl⟩ | ⟨_, h⟩
    · exact hg
    · exact hs.thIdx g u h
  · intro g u hu
    rw [hthr] at hu
    show _ = e.specs.map _
    rcases getElem?_set_some hu with ⟨rfl, rfl⟩ | ⟨_, h⟩
    · rw [← hs.mch g t ht]
      apply List.ext_getElem?
      intro k'
      simp only [List.getElem?_map, hmch]
      by_cases hkk : k' = k
      · subst hkk; simp [hk]
      · simp [hkk]
    · exact hs.mch g u h
  · intro c x hx
    rw [hthr, List.length_set]
    exact hs.run c x hx
  · intro g u hu
    rw [hthr] at hu
    rcases getElem?_set_some hu with ⟨rfl, rfl⟩ | ⟨_, h⟩
    · exact hs.st g t ht
    · exact hs.st g u h
  · simp only [Emu.shape, hthr, List.length_set]; rfl
  · simp only [Emu.src, hthr, List.getElem?_set_self hlt, hmch, if_true, List.getElem?_set_self hil]
  · intro s hne
    cases s with
    | st g =>
      simp only [Emu.src, hthr]
      by_cases hgt : ti = g
      · subst hgt; simp only [List.getElem?_set_self hlt, ht, Option.map_some]; rfl
      · rw [List.getElem?_set_ne hgt]
    | run c => rfl
    | act c => rfl
    | raw g k' i' =>
      simp only [Emu.src, hthr]
      by_cases hgt : ti = g
      · subst hgt
        simp only [List.getElem?_set_self hlt, ht, hmch]
        by_cases hkk : k' = k
        · subst hkk
          simp only [if_true, hk]
          have : i ≠ i' := fun h => hne (by rw [h])
          rw [List.getElem?_set_ne this]
        · simp only [hkk, if_false]
      · rw [List.getElem?_set_ne hgt]

/-- A table event writes raw channels of its own model only. -/
theorem SimP.tableEventK {e e' : Emu} {ti c v : Nat} {m : ModelSpec}
    (h : Ovni.Emu.tableEvent e ti m c v = .ok e') : SimP (rawChar e.specs m.char) e e' := by
  unfold Ovni.Emu.tableEvent at h
  cases ht : e.threads[ti]? with
  | none => simp [ht] at h
  | some t =>
    simp only [ht] at h
    simp only [bind, Except.bind, pure, Except.pure, throw, throwThe, MonadExceptOf.throw] at h
    repeat' split at h
    all_goals first | (cases h; done) | skip
    all_goals (injection h with h; subst h)
    all_goals first
      | exact SimP.refl _
      | exact SimP.withChanK (chanOp_push _ _) (by assumption)
      | exact SimP.withChanK (chanOp_pop _) (by assumption)
      | exact SimP.withChanK (chanOp_set _) (by assumption)
      | exact SimP.setOutOfCpu (by assumption)
      | exact (SimP.withChanK (chanOp_push _ _) (by assumption)).trans
          (SimP.setOutOfCpu (by assumption))
      | exact (SimP.withChanK (chanOp_pop _) (by assumption)).trans
          (SimP.setOutOfCpu (by assumption))
      | exact (SimP.withChanK (chanOp_set _) (by assumption)).trans
          (SimP.setOutOfCpu (by assumption))

theorem SimP.preFlushK {e e' : Emu} {ti v : Nat} (h : Ovni.Emu.preFlush e ti v = .ok e') :
    SimP (rawChar e.specs 79) e e' := by
  unfold Ovni.Emu.preFlush at h
  repeat' split at h
  · exact SimP.withChanK (chanOp_set _) h
  · exact SimP.withChanK (chanOp_set _) h
  · cases h

theorem SimP.markEventK {tab : List MarkType} {e e' : Emu} {ti v : Nat} {p : List Nat}
    (h : markEvent tab e ti v p = .ok e') : SimP (rawChar e.specs markGroup) e e' := by
  simp only [markEvent] at h
  repeat' split at h
  all_goals first | (cases h; done) | skip
  · exact SimP.withChanK (chanOp_push _ _) h
  · exact SimP.withChanK (chanOp_pop _) h
  · exact SimP.withChanK (chanOp_set _) h

/-- the raw channels of group `k` are kept -/
def RawKeep (k : Nat) (e e' : Emu) : Prop :=
  ∀ g i ch, e.src (.raw g k i) = some ch → e'.src (.raw g k i) = some ch

theorem RawKeep.of_sys {P : Src → Prop} {k : Nat} {e e' : Emu} {b : Bay} (h : SimP P e e') (hs : Shaped e)
    (hm : Mirrors e b) (hP : ∀ g i, ¬ P (.raw g k i)) : RawKeep k e e' :=
  fun g i _ hsrc => h.frame_raw hs hm hsrc (hP g i)

/-- a step that writes raw channels of model character `m` keeps the group of
    any other character -/
theorem RawKeep.of_char {k m : Nat} {ms : ModelSpec} {e e' : Emu} {b : Bay} (h : SimP (rawChar e.specs m) e e')
    (hs : Shaped e) (hm : Mirrors e b) (hk : e.specs[k]? = some ms) (hne : ms.char ≠ m) : RawKeep k e e' := by
  refine RawKeep.of_sys h hs hm ?_
  rintro g i ⟨g', k0, i', ms0, hq, h1, h2⟩
  injection hq with _ hq _
  subst hq
  rw [hk] at h1; cases h1
  exact hne h2

/-- **The ovni events keep the raw channels of every other model**: thread and
    affinity events write system channels, `OF[` / `OF]` the ovni model's own
    channel, the mark events the mark group. -/
theorem ovniEvent_keep {tab : List MarkType} {e e' : Emu} {b : Bay} {ti c v k : Nat} {p : List Nat} {ms : ModelSpec}
    (hs : Shaped e) (hm : Mirrors e b) (hk : e.specs[k]? = some ms) (h79 : ms.char ≠ 79) (hmg : ms.char ≠ markGroup)
    (h : Ovni.Emu.ovniEvent e ti c v p (fun e ti v p => markEvent tab e ti v p) = .ok e') : RawKeep k e e' := by
  have hsys : ∀ g i, ¬ Src.isSys (.raw g k i) := fun _ _ h => h
  unfold Ovni.Emu.ovniEvent at h
  simp only [bind, Except.bind, pure, Except.pure, throw, throwThe, MonadExceptOf.throw] at h
  repeat' split at h
  all_goals first | (cases h; done) | skip
  all_goals first
    | exact RawKeep.of_sys (SimP.preThread h) hs hm hsys
    | exact RawKeep.of_sys (SimP.preAffinitySet h) hs hm hsys
    | exact RawKeep.of_sys (SimP.preAffinityRemote h) hs hm hsys
    | exact RawKeep.of_char (SimP.preFlushK h) hs hm hk h79
    | exact RawKeep.of_char (SimP.markEventK h) hs hm hk hmg
    | (injection h with h; subst h; exact fun _ _ _ h => h)

/-- A table event of a model without `is_out_of_cpu` rows (all but the kernel
    model) is one channel operation, or nothing (action IGN). -/
theorem tableEvent_op {e e' : Emu} {ti c v : Nat} {m : ModelSpec} (hooc : m.outOfCpu = [])
    (h : Ovni.Emu.tableEvent e ti m c v = .ok e') :
    ∃ rc rv ch act st, m.table.find? (fun r => r.1 == c && r.2.1 == v) = some (rc, rv, ch, act, st) ∧
      ((act = 4 ∧ e' = e) ∨
       (act = 1 ∧ Ovni.Emu.withChan e ti m.char ch (Chan.push e.maxStack · (.int st)) = .ok e') ∨
       (act = 2 ∧ Ovni.Emu.withChan e ti m.char ch (·.pop (.int st)) = .ok e') ∨
       (act = 3 ∧ Ovni.Emu.withChan e ti m.char ch (·.set (.int st)) = .ok e')) := by
  cases hf : m.table.find? (fun r => r.1 == c && r.2.1 == v) with
  | none =>
    unfold Ovni.Emu.tableEvent at h
    simp only [hf, bind, Except.bind, pure, Except.pure, throw, throwThe, MonadExceptOf.throw] at h
    repeat' split at h
    all_goals cases h
  | some row =>
    obtain ⟨rc, rv, ch, act, st⟩ := row
    refine ⟨rc, rv, ch, act, st, rfl, ?_⟩
    unfold Ovni.Emu.tableEvent at h
    simp only [hf, hooc, List.find?_nil, bind, Except.bind, pure, Except.pure, throw, throwThe,
      MonadExceptOf.throw] at h
    repeat' split at h
    all_goals first | (cases h; done) | skip
    all_goals first
      | (injection h with h; subst h; exact Or.inl ⟨by assumption, rfl⟩)
      | (injection h with h; subst h; exact Or.inr (Or.inl ⟨by assumption, by assumption⟩))
      | (injection h with h; subst h; exact Or.inr (Or.inr (Or.inl ⟨by assumption, by assumption⟩)))
      | (injection h with h; subst h; exact Or.inr (Or.inr (Or.inr ⟨by assumption, by assumption⟩)))

end Ovni.Emu
