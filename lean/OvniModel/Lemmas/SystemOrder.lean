import OvniModel.Lemmas.SystemMain

/-! Order of the hierarchy produced by a successful `build` (helper lemmas for C15). -/
namespace Ovni.Emu.System

/-- Processes of loom `n` in the table. -/
def procsOf (sys : Sys) (n : Str) : List ProcRow := sys.procs.filter (fun p => p.loom = n)

theorem foldl_min_spec (ps : List ProcRow) : ∀ acc : Int,
    let r := ps.foldl (fun acc p => if p.rank < acc then p.rank else acc) acc
    r ≤ acc ∧ (∀ p ∈ ps, r ≤ p.rank) ∧ (r = acc ∨ ∃ p ∈ ps, p.rank = r) := by
  induction ps with
  | nil => intro acc; simp
  | cons x xs ih =>
    intro acc
    simp only [List.foldl_cons]
    by_cases hx : x.rank < acc
    · simp only [hx, if_true]
      obtain ⟨h1, h2, h3⟩ := ih x.rank
      refine ⟨by omega, ?_, ?_⟩
      · intro p hp
        rcases List.mem_cons.1 hp with rfl | hp
        · exact h1
        · exact h2 p hp
      · rcases h3 with h3 | ⟨p, hp, h3⟩
        · exact Or.inr ⟨x, List.mem_cons_self, h3.symm⟩
        · exact Or.inr ⟨p, List.mem_cons_of_mem _ hp, h3⟩
    · simp only [hx, if_false]
      obtain ⟨h1, h2, h3⟩ := ih acc
      refine ⟨h1, ?_, ?_⟩
      · intro p hp
        rcases List.mem_cons.1 hp with rfl | hp
        · omega
        · exact h2 p hp
      · rcases h3 with h3 | ⟨p, hp, h3⟩
        · exact Or.inl h3
        · exact Or.inr ⟨p, List.mem_cons_of_mem _ hp, h3⟩

theorem rankMinOf_spec (ps : List ProcRow) :
    (∀ p ∈ ps, rankMinOf ps ≤ p.rank) ∧ (rankMinOf ps = intMax ∨ ∃ p ∈ ps, p.rank = rankMinOf ps) := by
  have := foldl_min_spec ps intMax
  exact ⟨this.2.1, this.2.2⟩

/-- Anatomy of a loom built by `mkLoom`. -/
theorem mkLoom_ok {sys : Sys} {n : Str} {l : HLoom} (h : mkLoom sys n = .ok l) :
    l.name = n ∧ l.cpus = sortedCpus sys n ∧
    (l.rankEnabled = true →
      (∀ p ∈ procsOf sys n, 0 ≤ p.rank) ∧ l.rankMin = rankMinOf (procsOf sys n) ∧
      l.procs = (sortBy (fun a b => leInt a.rank b.rank) (procsOf sys n)).map (mkProc sys.threads)) ∧
    (l.rankEnabled = false →
      (∀ p ∈ procsOf sys n, p.rank < 0) ∧ l.rankMin = intMax ∧
      l.procs = (sortBy (fun a b => leInt a.pid b.pid) (procsOf sys n)).map (mkProc sys.threads)) := by
  unfold mkLoom at h
  simp only at h
  split at h
  · cases h
  rename_i hno
  cases h
  refine ⟨rfl, rfl, ?_, ?_⟩
  · intro he
    simp only at he
    refine ⟨?_, by simp [he, procsOf], by simp [he, procsOf]⟩
    intro p hp
    apply Classical.byContradiction
    intro hneg
    apply hno
    exact ⟨he, List.any_eq_true.2 ⟨p, hp, decide_eq_true (by omega)⟩⟩
  · intro he
    simp only at he
    refine ⟨?_, by simp [he], by simp [he, procsOf]⟩
    intro p hp
    apply Classical.byContradiction
    intro hneg
    have : (List.filter (fun p => decide (p.loom = n)) sys.procs).any (fun p => decide (p.rank ≥ 0)) = true :=
      List.any_eq_true.2 ⟨p, hp, decide_eq_true (by omega)⟩
    rw [this] at he
    cases he

theorem mem_procsOf {sys : Sys} {n : Str} {p : ProcRow} : p ∈ procsOf sys n ↔ p ∈ sys.procs ∧ p.loom = n := by
  unfold procsOf; rw [List.mem_filter]; simp

/-- Members of `l.procs` are the `mkProc` images of the processes of the loom. -/
theorem mem_loom_procs {sys : Sys} {n : Str} {l : HLoom} (h : mkLoom sys n = .ok l) {hp : HProc} :
    hp ∈ l.procs ↔ ∃ p ∈ sys.procs, p.loom = n ∧ hp = mkProc sys.threads p := by
  obtain ⟨_, _, h1, h2⟩ := mkLoom_ok h
  cases he : l.rankEnabled with
  | true =>
    rw [(h1 he).2.2, List.mem_map]
    constructor
    · rintro ⟨p, hp', rfl⟩
      have := mem_procsOf.1 (mem_sortBy.1 hp')
      exact ⟨p, this.1, this.2, rfl⟩
    · rintro ⟨p, hp', hl, rfl⟩
      exact ⟨p, mem_sortBy.2 (mem_procsOf.2 ⟨hp', hl⟩), rfl⟩
  | false =>
    rw [(h2 he).2.2, List.mem_map]
    constructor
    · rintro ⟨p, hp', rfl⟩
      have := mem_procsOf.1 (mem_sortBy.1 hp')
      exact ⟨p, this.1, this.2, rfl⟩
    · rintro ⟨p, hp', hl, rfl⟩
      exact ⟨p, mem_sortBy.2 (mem_procsOf.2 ⟨hp', hl⟩), rfl⟩

/-! ### Distinctness inherited from the invariant -/

theorem procsOf_pid_nodup {l : List StreamMeta} {sys : Sys} (inv : Inv l sys) (n : Str) :
    (procsOf sys n).Pairwise (fun a b => a.pid ≠ b.pid) := by
  have h1 : sys.procs.Pairwise (fun a b => pkey a ≠ pkey b) := List.pairwise_map.1 inv.procs.nodup
  have h2 := h1.filter (fun p => decide (p.loom = n))
  unfold procsOf
  refine List.Pairwise.imp_of_mem ?_ h2
  intro a b ha hb hne heq
  have ha' := (List.mem_filter.1 ha).2
  have hb' := (List.mem_filter.1 hb).2
  simp only [decide_eq_true_eq] at ha' hb'
  exact hne (by simp [pkey, ha', hb', heq])

theorem threads_tid_nodup {l : List StreamMeta} {sys : Sys} (inv : Inv l sys) (n : Str) (pid : Int) :
    (sys.threads.filter (fun t => t.loom = n ∧ t.pid = pid)).Pairwise (fun a b => a.tid ≠ b.tid) := by
  have h0 : (sys.threads.map tkey).Nodup := by rw [inv.thrRows]; exact inv.thrNodup
  have h1 : sys.threads.Pairwise (fun a b => tkey a ≠ tkey b) := List.pairwise_map.1 h0
  have h2 := h1.filter (fun t => decide (t.loom = n ∧ t.pid = pid))
  refine List.Pairwise.imp_of_mem ?_ h2
  intro a b ha hb hne heq
  have ha' := (List.mem_filter.1 ha).2
  have hb' := (List.mem_filter.1 hb).2
  simp only [decide_eq_true_eq] at ha' hb'
  exact hne (by simp [tkey, ha'.1, ha'.2, hb'.1, hb'.2, heq])

theorem cpus_phyid_nodup {l : List StreamMeta} {sys : Sys} (inv : Inv l sys) (n : Str) :
    (sys.cpus.filter (fun c => c.loom = n)).Pairwise (fun a b => a.phyid ≠ b.phyid) := by
  have h2 := inv.cpus.nodup.filter (fun c => decide (c.loom = n))
  refine List.Pairwise.imp_of_mem ?_ h2
  intro a b ha hb hne heq
  have ha' := (List.mem_filter.1 ha).2
  have hb' := (List.mem_filter.1 hb).2
  simp only [decide_eq_true_eq] at ha' hb'
  exact hne ⟨by rw [ha', hb'], heq⟩

/-- A stable sort by an integer key whose values are pairwise distinct gives a
    strictly increasing list. -/
theorem sortBy_strict {β : Type} (k : β → Int) (l : List β) (hn : l.Pairwise (fun a b => k a ≠ k b)) :
    (sortBy (fun a b => leInt (k a) (k b)) l).Pairwise (fun a b => k a < k b) := by
  apply pairwise_lt_of_sorted_nodup
  · exact sortBy_sorted (fun a b => leInt (k a) (k b)) (fun a b => leInt_total (k a) (k b))
      (fun a b c => leInt_trans (k a) (k b) (k c)) l
  · have h1 : (l.map k).Nodup := List.pairwise_map.2 hn
    have h2 : ((sortBy (fun a b => leInt (k a) (k b)) l).map k).Nodup :=
      ((sortBy_perm _ l).map k).nodup_iff.2 h1
    exact List.pairwise_map.1 h2

theorem sortBy_le {β : Type} (k : β → Int) (l : List β) :
    (sortBy (fun a b => leInt (k a) (k b)) l).Pairwise (fun a b => k a ≤ k b) := by
  have := sortBy_sorted (fun a b => leInt (k a) (k b)) (fun a b => leInt_total (k a) (k b))
    (fun a b c => leInt_trans (k a) (k b) (k c)) l
  exact this.imp (fun h => by simpa [leInt] using h)

theorem cmpStr_lt_of_le_ne {a b : Str} (h : leStr a b = true) (hne : a ≠ b) : cmpStr a b = .lt := by
  unfold leStr at h
  cases hc : cmpStr a b with
  | lt => rfl
  | eq => exact absurd ((cmpStr_eq_iff a b).1 hc) hne
  | gt => rw [hc] at h; simp at h

theorem initEndLoom_ok_rank {l : HLoom} (h : initEndLoom l = .ok ()) :
    l.rankEnabled = true → l.rankMin ≠ intMax := by
  unfold initEndLoom at h
  split at h
  · cases h
  split at h
  · cases h
  rename_i h1 h2
  intro he hm
  exact h2 ⟨he, hm⟩

theorem sortLooms_spec (ls : List HLoom) :
    (sortLooms ls).1 = ls.all (fun l => l.rankEnabled) ∧
    ((sortLooms ls).1 = true → (sortLooms ls).2.Pairwise (fun a b => a.rankMin ≤ b.rankMin)) ∧
    ((sortLooms ls).1 = false → (ls.map (·.name)).Nodup →
      (sortLooms ls).2.Pairwise (fun a b => cmpStr a.name b.name = .lt)) := by
  unfold sortLooms
  simp only
  refine ⟨trivial, ?_, ?_⟩
  · intro he
    rw [he]
    simp only [if_true]
    exact sortBy_le (fun l => l.rankMin) ls
  · intro he hn
    rw [he]
    simp only [Bool.false_eq_true, if_false]
    have h1 := sortBy_sorted (fun (a b : HLoom) => leStr a.name b.name)
      (fun a b => leStr_total a.name b.name) (fun a b c => leStr_trans a.name b.name c.name) ls
    have h2 : ((sortBy (fun (a b : HLoom) => leStr a.name b.name) ls).map (·.name)).Nodup :=
      ((sortBy_perm _ ls).map _).nodup_iff.2 hn
    have h3 := List.pairwise_map.1 h2
    exact (h1.and h3).imp (fun ⟨a, b⟩ => cmpStr_lt_of_le_ne a b)

/-- The hierarchy of a successful `finish` is ordered as the property demands. -/
theorem finish_ordered {l0 : List StreamMeta} {sys : Sys} {h : Hier} (inv : Inv l0 sys)
    (hf : finish sys = .ok h) : Ordered h := by
  obtain ⟨ls, h1, h2, h3, _⟩ := finish_ok hf
  obtain ⟨m1, m2⟩ := mkLooms_ok _ h1
  obtain ⟨s1, s2, s3⟩ := sortLooms_spec ls
  have hperm : h.looms.Perm ls := by rw [h2]; exact sortLooms_perm ls
  have hsr : h.sortByRank = (sortLooms ls).1 := by rw [h2]
  have hlo : h.looms = (sortLooms ls).2 := by rw [h2]
  refine ⟨?_, ?_, ?_, ?_⟩
  · rw [hsr, s1, List.all_eq_true]
    constructor
    · intro ha l hl; exact ha l (hperm.mem_iff.1 hl)
    · intro ha l hl; exact ha l (hperm.mem_iff.2 hl)
  · intro he; rw [hlo]; exact s2 (by rw [← hsr]; exact he)
  · intro he; rw [hlo]
    exact s3 (by rw [← hsr]; exact he) (by rw [m1]; exact inv.loomsNodup)
  · intro l hl
    obtain ⟨_, hmk, hie⟩ := (finish_ok_looms hf).2 l hl
    obtain ⟨a1, a2, a3, a4⟩ := mkLoom_ok hmk
    have hthreads : ∀ p ∈ l.procs, p.threads.Pairwise (fun a b => a.tid < b.tid) := by
      intro hp hhp
      obtain ⟨p, _, _, rfl⟩ := (mem_loom_procs hmk).1 hhp
      exact sortBy_strict (fun (t : ThreadRow) => t.tid) _ (threads_tid_nodup inv p.loom p.pid)
    refine ⟨?_, ?_, hthreads, ?_⟩
    · intro he
      obtain ⟨b1, b2, b3⟩ := a3 he
      obtain ⟨r1, r2⟩ := rankMinOf_spec (procsOf sys l.name)
      refine ⟨?_, ?_, ?_⟩
      · rw [b3]
        exact List.pairwise_map.2 (sortBy_le (fun (p : ProcRow) => p.rank) _)
      · intro hp hhp
        obtain ⟨p, pm, pl, rfl⟩ := (mem_loom_procs hmk).1 hhp
        have pm' := mem_procsOf.2 ⟨pm, pl⟩
        exact ⟨b1 p pm', by rw [b2]; exact r1 p pm'⟩
      · rcases r2 with r2 | ⟨p, pm, r2⟩
        · exact absurd (by rw [b2, r2]) (initEndLoom_ok_rank hie he)
        · have pm' := mem_procsOf.1 pm
          exact ⟨mkProc sys.threads p, (mem_loom_procs hmk).2 ⟨p, pm'.1, pm'.2, rfl⟩, by rw [b2, ← r2]; rfl⟩
    · intro he
      obtain ⟨b1, b2, b3⟩ := a4 he
      refine ⟨?_, ?_⟩
      · rw [b3]
        exact List.pairwise_map.2 (sortBy_strict (fun (p : ProcRow) => p.pid) _ (procsOf_pid_nodup inv l.name))
      · intro hp hhp
        obtain ⟨p, pm, pl, rfl⟩ := (mem_loom_procs hmk).1 hhp
        exact b1 p (mem_procsOf.2 ⟨pm, pl⟩)
    · rw [a2]
      exact sortBy_strict (fun (c : CpuRow) => c.phyid) _ (cpus_phyid_nodup inv l.name)

end Ovni.Emu.System
