import OvniModel.Emu.EvSpec

/-! Helper lemmas for C18: `ev_spec_print` is total on payloads of the declared
    shape. -/
namespace Ovni.Emu.EvSpec

/-! ### digit strings -/

theorem digitsAux_length_le (b : Nat) (fuel : Nat) :
    ∀ (k n : Nat), 0 < k → n < b ^ k → (digitsAux b fuel n).length ≤ k := by
  induction fuel with
  | zero => intro k n _ _; simp [digitsAux]
  | succ f ih =>
    intro k n hk hn
    unfold digitsAux
    split
    · simp; omega
    · rename_i hnb
      have hk2 : 2 ≤ k := by
        apply Classical.byContradiction
        intro hh
        have h1 : k = 1 := by omega
        subst h1
        rw [Nat.pow_one] at hn
        omega
      have hb : 0 < b := by
        cases b with
        | zero => rw [Nat.zero_pow (by omega)] at hn; omega
        | succ _ => omega
      have hdiv : n / b < b ^ (k - 1) := by
        apply Nat.div_lt_of_lt_mul
        have : b ^ k = b * b ^ (k - 1) := by
          have : k = (k - 1) + 1 := by omega
          rw [this, Nat.pow_succ, Nat.mul_comm]; simp
        omega
      have := ih (k - 1) (n / b) (by omega) hdiv
      simp only [List.length_append, List.length_cons, List.length_nil]
      omega

theorem decStr_length_le (k n : Nat) (hk : 0 < k) (h : n < 10 ^ k) : (decStr n).length ≤ k := by
  unfold decStr digits
  rw [List.length_map]
  exact digitsAux_length_le 10 _ k n hk h

theorem hexStr_length_le (up : Bool) (k n : Nat) (hk : 0 < k) (h : n < 16 ^ k) :
    (hexStr up n).length ≤ k := by
  unfold hexStr digits
  rw [List.length_map]
  exact digitsAux_length_le 16 _ k n hk h

theorem leVal_lt (bs : Str) : leVal bs < 256 ^ bs.length := by
  induction bs with
  | nil => simp [leVal]
  | cons b r ih =>
    simp only [leVal, List.length_cons, Nat.pow_succ]
    have : b % 256 < 256 := Nat.mod_lt _ (by omega)
    omega

/-! ### widths -/

/-- decimal digits that suffice for a value of `size` bytes -/
def decW : Nat → Nat
  | 1 => 3 | 2 => 5 | 4 => 10 | 8 => 20 | _ => 0

/-- an upper bound of the length of `renderNum cv t raw` for `raw < 256 ^ t.size` -/
def convWidth (cv : Conv) (t : ArgType) : Nat :=
  match cv with
  | .udec => decW t.size
  | .sdec => 1 + decW t.size
  | .hex _ hash => 2 * t.size + (if hash then 2 else 0)

theorem renderNum_length_le (cv : Conv) (t : ArgType) (ht : t ≠ .str) (raw : Nat)
    (hraw : raw < 256 ^ t.size) : (renderNum cv t raw).length ≤ convWidth cv t := by
  have h16 : (256 : Nat) ^ t.size = 16 ^ (2 * t.size) := by
    rw [Nat.pow_mul]
  have hsz : 0 < t.size := by cases t <;> simp [ArgType.size] at *
  have h10 : (256 : Nat) ^ t.size ≤ 10 ^ decW t.size ∧ 0 < decW t.size := by
    cases t <;> simp [ArgType.size, decW] at *
  cases cv with
  | udec =>
    simp only [renderNum, convWidth]
    exact decStr_length_le _ _ h10.2 (by omega)
  | hex up hash =>
    simp only [renderNum, convWidth, List.length_append]
    have := hexStr_length_le up (2 * t.size) raw (by omega) (by omega)
    cases hash
    · simp; omega
    · by_cases hr : raw = 0
      · subst hr; simp; omega
      · simp [hr]; omega
  | sdec =>
    simp only [renderNum, convWidth]
    split
    · have := decStr_length_le _ raw h10.2 (by omega)
      omega
    · have hlt : 2 ^ (8 * t.size) - raw < 10 ^ decW t.size := by
        cases t <;> simp [ArgType.size, decW] at * <;> omega
      have := decStr_length_le _ _ h10.2 hlt
      simp only [List.length_cons]
      omega

/-! ### the scanner only depends on its callback through the event list -/

/-- run a callback over a list of scanner events -/
def runSegs {σ : Type} (f : Seg → σ → Except PrintErr σ) : List Seg → σ → Except PrintErr σ
  | [], s => .ok s
  | g :: r, s =>
    match f g s with
    | .error e => .error e
    | .ok s' => runSegs f r s'

def collect : Seg → List Seg → Except PrintErr (List Seg) := fun g acc => .ok (acc ++ [g])

theorem scan_collect {σ : Type} (f : Seg → σ → Except PrintErr σ) (inp : Str) :
    ∀ (m : Mode) (acc segs : List Seg),
      scan collect m inp acc = .ok segs →
      ∃ tail, segs = acc ++ tail ∧ ∀ s : σ, scan f m inp s = runSegs f tail s := by
  induction inp with
  | nil =>
    intro m acc segs h
    cases m <;> simp [scan] at h
    subst h
    exact ⟨[], by simp, by intro s; simp [scan, runSegs]⟩
  | cons c r ih =>
    intro m acc segs h
    cases m with
    | text =>
      simp only [scan] at h
      split at h
      · rename_i hc
        simp only [collect] at h
        obtain ⟨tail, h1, h2⟩ := ih .afterPct (acc ++ [Seg.open]) segs h
        refine ⟨Seg.open :: tail, by rw [h1]; simp, ?_⟩
        intro s
        simp only [scan, hc, if_true, runSegs]
        cases hf : f Seg.open s with
        | error e => rfl
        | ok s' => exact h2 s'
      · rename_i hc
        simp only [collect] at h
        obtain ⟨tail, h1, h2⟩ := ih .text (acc ++ [Seg.lit c]) segs h
        refine ⟨Seg.lit c :: tail, by rw [h1]; simp, ?_⟩
        intro s
        simp only [scan, hc, runSegs]
        cases hf : f (Seg.lit c) s with
        | error e => rfl
        | ok s' => exact h2 s'
    | afterPct =>
      simp only [scan] at h
      split at h
      · rename_i hc
        simp only [collect] at h
        obtain ⟨tail, h1, h2⟩ := ih .text (acc ++ [Seg.pct]) segs h
        refine ⟨Seg.pct :: tail, by rw [h1]; simp, ?_⟩
        intro s
        simp only [scan, hc, if_true, runSegs]
        cases hf : f Seg.pct s with
        | error e => rfl
        | ok s' => exact h2 s'
      · rename_i hc
        split at h
        · rename_i hc2
          obtain ⟨tail, h1, h2⟩ := ih _ acc segs h
          exact ⟨tail, h1, fun s => by simp only [scan, hc, hc2, if_true]; exact h2 s⟩
        · rename_i hc2
          obtain ⟨tail, h1, h2⟩ := ih _ acc segs h
          exact ⟨tail, h1, fun s => by simp only [scan, hc, hc2]; exact h2 s⟩
    | inFmt a =>
      simp only [scan] at h
      split at h
      · rename_i hc
        obtain ⟨tail, h1, h2⟩ := ih _ acc segs h
        exact ⟨tail, h1, fun s => by simp only [scan, hc, if_true]; exact h2 s⟩
      · rename_i hc
        split at h
        · cases h
        · rename_i hc2
          obtain ⟨tail, h1, h2⟩ := ih _ acc segs h
          exact ⟨tail, h1, fun s => by simp only [scan, hc, hc2]; exact h2 s⟩
    | inName fm a =>
      simp only [scan] at h
      split at h
      · rename_i hc
        split at h
        · cases h
        · rename_i hc2
          simp only [collect] at h
          obtain ⟨tail, h1, h2⟩ := ih .text (acc ++ [Seg.hole fm a]) segs h
          refine ⟨Seg.hole fm a :: tail, by rw [h1]; simp, ?_⟩
          intro s
          simp only [scan, hc, hc2, if_true, runSegs]
          cases hf : f (Seg.hole fm a) s with
          | error e => rfl
          | ok s' => exact h2 s'
      · rename_i hc
        split at h
        · cases h
        · rename_i hc2
          split at h
          · cases h
          · rename_i hc3
            obtain ⟨tail, h1, h2⟩ := ih _ acc segs h
            exact ⟨tail, h1, fun s => by simp only [scan, hc, hc2, hc3]; exact h2 s⟩

/-! ### every scanner event of a printable description is served -/

/-- Upper bound of what a scanner event writes for any payload of the declared
    shape; `none` = the event may fail (unknown argument, format outside the
    modelled subset, field outside the payload). -/
def segW (s : Spec) : Seg → Option Nat
  | .open => some 0
  | .lit _ => some 1
  | .pct => some 1
  | .hole fmt name =>
    match s.findArg name with
    | none => none
    | some a =>
      if a.type == .str then
        (if fmt.getD a.type.defaultFmt == ofString "%s" && a.offset == s.payloadSize
          then some (MAX_LABEL - 1) else none)
      else if a.offset + a.type.size ≤ s.payloadSize then
        (convFor (fmt.getD a.type.defaultFmt) a.type).map (convWidth · a.type)
      else none

def totalW (s : Spec) : List Seg → Option Nat
  | [] => some 0
  | g :: r =>
    match segW s g, totalW s r with
    | some a, some b => some (a + b)
    | _, _ => none

/-- decidable sufficient condition for `print` to succeed on every payload of
    the declared shape with an output buffer of `outlen` bytes -/
def printable (s : Spec) (desc : Str) (outlen : Nat) : Bool :=
  (s.args.isEmpty || s.hasStr || 0 < s.payloadSize) &&
  match segsOf desc with
  | .ok segs =>
    match totalW s segs with
    | some w => w + 2 ≤ outlen
    | none => false
  | .error _ => false

theorem shape_length (s : Spec) (p : Str) (hp : Shape s p) : s.payloadSize ≤ p.length := by
  unfold Shape at hp
  split at hp
  · obtain ⟨lbl, h1, _⟩ := hp; omega
  · omega

theorem takeWhile_label (lbl : Str) (h : ∀ b ∈ lbl, b ≠ 0) :
    (lbl ++ [0]).takeWhile (· != 0) = lbl := by
  induction lbl with
  | nil => simp
  | cons x r ih =>
    have hx : x ≠ 0 := h x List.mem_cons_self
    simp only [List.cons_append, List.takeWhile_cons]
    have : (x != 0) = true := by simpa using hx
    rw [this]
    simp only [if_true]
    rw [ih (fun b hb => h b (List.mem_cons_of_mem _ hb))]

theorem seg_step (s : Spec) (p : Str) (hp : Shape s p) (g : Seg) (w : Nat)
    (hw : segW s g = some w) :
    ∃ txt, segText s p g = some txt ∧ txt.length ≤ w ∧
      ∀ (o : Str) (l : Nat), w + 1 ≤ l → emit s p g (o, l) = .ok (o ++ txt, l - txt.length) := by
  cases g with
  | «open» =>
    simp only [segW, Option.some.injEq] at hw
    subst hw
    refine ⟨[], rfl, by simp, ?_⟩
    intro o l hl
    have : (l == 0) = false := by simp; omega
    simp [emit, this]
  | lit c =>
    simp only [segW, Option.some.injEq] at hw
    subst hw
    refine ⟨[c], rfl, by simp, ?_⟩
    intro o l hl
    have : (l == 0) = false := by simp; omega
    simp [emit, this]
  | pct =>
    simp only [segW, Option.some.injEq] at hw
    subst hw
    refine ⟨[37], rfl, by simp, ?_⟩
    intro o l hl
    simp [emit]
  | hole fmt name =>
    simp only [segW] at hw
    cases hfa : s.findArg name with
    | none => rw [hfa] at hw; cases hw
    | some a =>
      rw [hfa] at hw
      simp only at hw
      have hmem : a ∈ s.args := by
        unfold Spec.findArg at hfa
        exact List.mem_of_find?_eq_some hfa
      have hlen := shape_length s p hp
      -- the text of the field
      have key : ∃ txt, formatArg a (fmt.getD a.type.defaultFmt) p = .ok txt ∧ txt.length ≤ w := by
        by_cases hstr : (a.type == ArgType.str) = true
        · rw [if_pos hstr] at hw
          split at hw
          · rename_i hc
            simp only [Bool.and_eq_true, beq_iff_eq] at hc
            simp only [Option.some.injEq] at hw
            have hhas : s.hasStr = true := by
              unfold Spec.hasStr
              rw [List.any_eq_true]
              exact ⟨a, hmem, hstr⟩
            unfold Shape at hp
            rw [if_pos hhas] at hp
            obtain ⟨lbl, h1, h2, h3, h4⟩ := hp
            refine ⟨lbl, ?_, ?_⟩
            · unfold formatArg
              rw [if_pos hstr]
              simp only [hc.2, h2]
              have : (lbl ++ [0]).contains 0 = true := by simp
              rw [this]
              simp only [Bool.not_true, Bool.false_eq_true, if_false]
              rw [hc.1]
              simp only [beq_self_eq_true, if_true]
              rw [takeWhile_label lbl h3]
            · unfold MAX_LABEL at *; omega
          · cases hw
        · rw [if_neg hstr] at hw
          split at hw
          · rename_i hoff
            cases hcv : convFor (fmt.getD a.type.defaultFmt) a.type with
            | none => rw [hcv] at hw; cases hw
            | some cv =>
              rw [hcv] at hw
              simp only [Option.map_some, Option.some.injEq] at hw
              subst hw
              refine ⟨renderNum cv a.type (leVal ((p.drop a.offset).take a.type.size)), ?_, ?_⟩
              · unfold formatArg
                rw [if_neg hstr]
                have : ¬ (a.offset + a.type.size > p.length) := by omega
                rw [if_neg this, hcv]
              · apply renderNum_length_le
                · intro h; apply hstr; simp [h]
                · have h1 := leVal_lt ((p.drop a.offset).take a.type.size)
                  have h2 : ((p.drop a.offset).take a.type.size).length = a.type.size := by
                    rw [List.length_take, List.length_drop]; omega
                  rw [h2] at h1
                  exact h1
          · cases hw
      obtain ⟨txt, hf, hl⟩ := key
      refine ⟨txt, ?_, hl, ?_⟩
      · simp only [segText, fieldText, hfa, hf]
      · intro o l hlw
        simp only [emit, hfa, hf]
        have : ¬ (txt.length ≥ l) := by omega
        rw [if_neg this]

theorem runSegs_emit (s : Spec) (p : Str) (hp : Shape s p) :
    ∀ (segs : List Seg) (w : Nat) (o : Str) (l : Nat), totalW s segs = some w → w + 1 ≤ l →
      ∃ txt, joinTexts s p segs = some txt ∧
        ∃ l', runSegs (emit s p) segs (o, l) = .ok (o ++ txt, l') := by
  intro segs
  induction segs with
  | nil =>
    intro w o l _ _
    exact ⟨[], rfl, l, by simp [runSegs]⟩
  | cons g r ih =>
    intro w o l hw hl
    simp only [totalW] at hw
    cases hg : segW s g with
    | none => rw [hg] at hw; cases hw
    | some a =>
      cases hr : totalW s r with
      | none => rw [hg, hr] at hw; cases hw
      | some b =>
        rw [hg, hr] at hw
        simp only [Option.some.injEq] at hw
        obtain ⟨t1, ht1, hlen, hemit⟩ := seg_step s p hp g a hg
        have h1 := hemit o l (by omega)
        obtain ⟨t2, ht2, l', hrun⟩ := ih b (o ++ t1) (l - t1.length) hr (by omega)
        refine ⟨t1 ++ t2, ?_, l', ?_⟩
        · simp only [joinTexts, ht1, ht2]
        · simp only [runSegs, h1, hrun, List.append_assoc]

/-- **`ev_spec_print` is total on payloads of the declared shape** and writes
    exactly the description with the fields substituted. -/
theorem print_of_printable (s : Spec) (desc p : Str) (outlen : Nat)
    (hpr : printable s desc outlen = true) (hp : Shape s p) :
    ∃ out, print s desc p outlen = .ok out ∧ substitute s desc p = some out := by
  unfold printable at hpr
  rw [Bool.and_eq_true] at hpr
  obtain ⟨hne, hpr⟩ := hpr
  have hlen := shape_length s p hp
  have hnonempty : s.args.isEmpty = false → p.isEmpty = false := by
    intro ha
    rw [ha] at hne
    simp only [Bool.false_or, Bool.or_eq_true, decide_eq_true_eq] at hne
    unfold Shape at hp
    rcases hne with hs | hz
    · rw [if_pos hs] at hp
      obtain ⟨lbl, h1, _⟩ := hp
      cases p with
      | nil => simp at h1
      | cons _ _ => rfl
    · cases p with
      | nil => simp at hlen; omega
      | cons _ _ => rfl
  cases hsegs : segsOf desc with
  | error e => rw [hsegs] at hpr; cases hpr
  | ok segs =>
    rw [hsegs] at hpr
    simp only at hpr
    cases hw : totalW s segs with
    | none => rw [hw] at hpr; cases hpr
    | some w =>
      rw [hw] at hpr
      simp only [decide_eq_true_eq] at hpr
      obtain ⟨tail, h1, h2⟩ := scan_collect (emit s p) (cstr desc) .text [] segs hsegs
      simp only [List.nil_append] at h1
      subst h1
      obtain ⟨txt, hj, l', hrun⟩ := runSegs_emit s p hp segs w [] (outlen - 1) hw (by omega)
      refine ⟨txt, ?_, ?_⟩
      · unfold print
        have : (outlen == 0) = false := by simp; omega
        rw [this]
        simp only [Bool.false_eq_true, if_false]
        have h3 : (!s.args.isEmpty && p.isEmpty) = false := by
          cases ha : s.args.isEmpty with
          | true => simp
          | false => simp [hnonempty ha]
        have h4 : (!s.args.isEmpty && decide (p.length < s.payloadSize)) = false := by
          have : ¬ (p.length < s.payloadSize) := by omega
          simp [this]
        rw [h3, h4]
        simp only [Bool.false_eq_true, if_false]
        rw [h2, hrun]
        simp
      · unfold substitute
        rw [hsegs]
        exact hj

end Ovni.Emu.EvSpec
