import OvniModel.Lemmas.CoreBayHandlers
import OvniModel.Emu.MarkEmu

/-
  C06, last composition step (4/4): the invariant that ties the reference
  emulator to the bay connected from its hierarchy, and its preservation by
  one event (handlers = writes, then `bay_propagate` = `flushAll`).

  `Inv b0 e b`: `b` has the muxes of the connected bay `b0`, is well formed,
  clean and safe, its source channels are the channels of `e`, and every mux is
  in sync — or still *virgin*: its select channel was never written, nothing was
  ever selected, the output is still null.  (A CPU track with a non-null
  default — the idle channel of nOS-V / Nanos6 — is in that state until the
  CPU's `th_running` is first written: the C code never emits the default at
  time 0, while `cpuView` shows it.)
-/
namespace Ovni.Emu
open Ovni.Generated

theorem Bay.Layered.frame {b : Bay} {L : Nat} (hl : b.Layered L) (mi : Nat) (m : Mux)
    (hm : b.muxes[mi]? = some m) : b.Frame mi m := by
  intro mj m' hm'
  obtain ⟨_, _, ho', _⟩ := hl mj m' hm'
  obtain ⟨hs, hi, _, hd⟩ := hl mi m hm
  refine ⟨by omega, ?_, fun hne => hd mj m' hm' hne⟩
  intro i e
  have := hi i _ e
  omega

/-- Select never written, nothing selected yet, output still null. -/
def Bay.Virgin (b : Bay) (mi : Nat) (m : Mux) : Prop :=
  (b.chan m.sel).cur = .null ∧ (b.chan m.out).cur = .null ∧ ∀ (c i : Nat), Cb.muxInput mi i ∉ b.cbsOf c

theorem Bay.Virgin.sync {b : Bay} {mi : Nat} {m : Mux} (hv : b.Virgin mi m) (hd : m.dflt = .null) :
    b.MuxSync false mi m := by
  obtain ⟨h1, h2, h3⟩ := hv
  have hen : ∀ i, ¬ b.enabled mi m i := by
    rintro i ⟨c, _, h⟩; exact h3 c i h
  refine ⟨fun i hi => absurd hi (hen i), none, by rw [h1]; rfl, ?_, by simp, Or.inl (by rw [h2]; exact hd.symm)⟩
  intro i; constructor
  · intro h; exact absurd h (hen i)
  · intro h; cases h

structure Inv (b0 : Bay) (e : Emu) (b : Bay) : Prop where
  wf : b.WF
  muxes : b.muxes = b0.muxes
  len : b.chans.length = b0.chans.length
  clean : b.Clean
  safe : b.Safe
  mirrors : Mirrors e b
  sync : ∀ (mi : Nat) (m : Mux), b.muxes[mi]? = some m → b.MuxSync false mi m ∨ b.Virgin mi m
  /-- channels that are no mux's input keep the callback list `mux_init` gave them -/
  selCbs : ∀ (s : Nat), (∀ (mi : Nat) (m : Mux) (i : Nat), b0.muxes[mi]? = some m →
    m.inputs[i]? ≠ some (some s)) → b.cbsOf s = b0.cbsOf s

/-! ### `flushAll` -/

theorem Emu.src_flushAll (e : Emu) (s : Src) : e.flushAll.src s = (e.src s).map Chan.flush := by
  cases s with
  | st g =>
    simp only [Emu.src, Emu.flushAll, List.getElem?_map]
    cases e.threads[g]? <;> rfl
  | run c =>
    simp only [Emu.src, Emu.flushAll, List.getElem?_map]
    cases e.cpus[c]? <;> rfl
  | act c =>
    simp only [Emu.src, Emu.flushAll, List.getElem?_map]
    cases e.cpus[c]? <;> rfl
  | raw g k i =>
    simp only [Emu.src, Emu.flushAll, List.getElem?_map]
    cases e.threads[g]? with
    | none => rfl
    | some t =>
      simp only [Option.map_some, List.getElem?_map]
      cases t.mch[k]? with
      | none => rfl
      | some x => simp only [Option.map_some, List.getElem?_map]

theorem Emu.shape_flushAll (e : Emu) : e.flushAll.shape = e.shape := by
  simp only [Emu.shape, Emu.flushAll, List.length_map]; rfl

theorem Shaped.flushAll {e : Emu} (hs : Shaped e) : Shaped e.flushAll := by
  have hspecs : e.flushAll.specs = e.specs := rfl
  constructor
  · intro g t ht
    simp only [Emu.flushAll, List.getElem?_map] at ht
    cases hu : e.threads[g]? with
    | none => rw [hu] at ht; cases ht
    | some u => rw [hu] at ht; cases ht; exact hs.thIdx g u hu
  · intro c x hx
    simp only [Emu.flushAll, List.getElem?_map] at hx
    cases hu : e.cpus[c]? with
    | none => rw [hu] at hx; cases hx
    | some u => rw [hu] at hx; cases hx; exact hs.cpuIdx c u hu
  · intro g t ht
    rw [hspecs]
    simp only [Emu.flushAll, List.getElem?_map] at ht
    cases hu : e.threads[g]? with
    | none => rw [hu] at ht; cases ht
    | some u =>
      rw [hu] at ht; cases ht
      rw [← hs.mch g u hu]
      simp [List.map_map, Function.comp_def]
  · exact hs.chars
  · intro c x hx
    simp only [Emu.flushAll, List.getElem?_map, List.length_map] at hx ⊢
    cases hu : e.cpus[c]? with
    | none => rw [hu] at hx; cases hx
    | some u =>
      rw [hu] at hx; cases hx
      simp only [Chan.flush_cur]
      exact hs.run c u hu
  · intro g t ht
    simp only [Emu.flushAll, List.getElem?_map] at ht
    cases hu : e.threads[g]? with
    | none => rw [hu] at ht; cases ht
    | some u =>
      rw [hu] at ht; cases ht
      simp only [Chan.flush_cur]
      refine ⟨(hs.st g u hu).1, ?_⟩
      have := (hs.st g u hu).2
      unfold Chan.flush; split <;> exact this

/-! ### the select functions are defined on mirrored select channels -/

theorem selOk_of_mirrors {e : Emu} {m : Mux} (ht : e.shape.IsTrack m) (hs : Shaped e) {b : Bay}
    (hm : Mirrors e b) : ∃ s, m.selectInput (b.chan m.sel).cur = .ok s := by
  cases ht with
  | th g k i ms out hg hk hi hna =>
    generalize (b.chan _).cur = v
    cases v with
    | null => exact ⟨none, rfl⟩
    | int s =>
      by_cases hr : ms.thTrack.getD i 0 = trackRun
      · simp only [Mux.selectInput, hr, if_true]; simp
      · simp only [Mux.selectInput, hr, if_false]; simp
  | cpu c k i ms out hc hk hi =>
    have hlt : c < e.cpus.length := hc
    have hx : e.cpus[c]? = some e.cpus[c] := List.getElem?_eq_getElem hlt
    have hsrc : e.src (.run c) = some e.cpus[c].chThrun := by simp only [Emu.src, hx, Option.map_some]
    have hb : b.chan (e.shape.idx (.run c)) = e.cpus[c].chThrun := Bay.chan_of_getElem? (hm _ _ hsrc)
    have hr := hs.run c _ hx
    simp only [hb]
    cases hv : e.cpus[c].chThrun.cur with
    | null => exact ⟨none, rfl⟩
    | int s =>
      rw [hv] at hr
      simp only [RunOk] at hr
      have hlen : ((e.shape.rawsOf k i).map some).length = e.threads.length := by
        simp [Shape.rawsOf, Emu.shape]
      simp only [Mux.selectInput, hlen]
      have : ¬ (s < 0 ∨ s ≥ (e.threads.length : Int)) := by omega
      simp only [this, if_false]
      exact ⟨_, rfl⟩

/-! ### one event -/

/-- **Step.**  If the bay mirrors the emulator and every mux is in sync, then
    after any `Sim` step of the emulator (in particular `modelEvent`): the writes
    lead to a bay mirroring the new state, `bay_propagate` succeeds, and the
    result mirrors the flushed new state with every mux in sync again. -/
theorem Inv.step_core {e e' : Emu} {b0 b b1 : Bay} (hc : e.shape.connect = .ok b0)
    (hi : Inv b0 e b) (hs' : Shaped e') (hshape : e'.shape = e.shape)
    (hw1 : Bay.Writes (· < e.shape.L) b b1) (hm1 : Mirrors e' b1) :
    (∀ c, b1.chan c = b.chan c ∨ c < e.shape.L) ∧
    ∃ b2 em, b1.propagate = .ok (b2, em) ∧ Inv b0 e'.flushAll b2 := by
  have hbuilt := Shape.connect_built hc
  have hlay : b.Layered e.shape.L := by
    have := hbuilt.topo.layered
    unfold Bay.Layered at this ⊢; rw [hi.muxes]; exact this
  obtain ⟨wf1, hcbs1, hsel1, hmx1, hkeep1, hclean1⟩ := hw1.inv hi.wf
  have hsrcNotOut : ∀ c, c < e.shape.L → ∀ (mj : Nat) (m' : Mux), b.muxes[mj]? = some m' → m'.out ≠ c := by
    intro c hc' mj m' hm'
    have := (hlay mj m' hm').2.2.1
    omega
  -- safe after the writes
  have sf1 : b1.Safe := by
    refine hw1.safe hi.wf hi.safe hsrcNotOut ?_
    intro mi m hm
    have ht : e.shape.IsTrack m := hbuilt.isTrack (hi.muxes ▸ hm)
    exact selOk_of_mirrors (hshape ▸ ht) hs' hm1
  obtain ⟨b2, em, hp, sf2⟩ := Bay.propagate_safe wf1 sf1
  obtain ⟨wf2, hcl2, hmx2⟩ := Bay.propagate_wf wf1 hp
  have hlen1 : b1.chans.length = b.chans.length := hw1.length
  have hlen2 := Bay.propagate_length wf1 hp
  refine ⟨?_, b2, em, hp, ?_⟩
  · intro c
    by_cases hcl : c < e.shape.L
    · exact Or.inr hcl
    · exact Or.inl (hkeep1 c hcl)
  refine ⟨wf2, (hmx2.trans hmx1).trans hi.muxes, (hlen2.trans hlen1).trans hi.len, hcl2, sf2, ?_, ?_, ?_⟩
  rotate_right
  · intro s hs0
    rw [Bay.propagate_cbs_noninput wf1 hp s (by rw [hmx1, hi.muxes]; exact hs0), Bay.cbsOf_congr hcbs1]
    exact hi.selCbs s hs0
  · -- the flushed sources
    intro s ch hsrc
    rw [Emu.src_flushAll] at hsrc
    cases h0 : e'.src s with
    | none => rw [h0] at hsrc; cases hsrc
    | some ch0 =>
      rw [h0] at hsrc
      simp only [Option.map_some, Option.some.injEq] at hsrc
      have hb1 := hm1 s ch0 h0
      have hmem := hs'.src_mem h0
      have hlt : e'.shape.idx s < e'.shape.L := e'.shape.idx_lt hmem
      rw [Emu.shape_flushAll]
      have hfl := Bay.propagate_src wf1 hp (e'.shape.idx s) (by
        intro mj m' hm'
        rw [hmx1] at hm'
        exact hsrcNotOut _ (hshape ▸ hlt) mj m' hm')
      rw [Bay.chan_of_getElem? hb1, hsrc] at hfl
      have hl2 : e'.shape.idx s < b2.chans.length := by
        rw [hlen2]; exact (List.getElem?_eq_some_iff.mp hb1).1
      rw [Bay.getElem?_chan hl2, hfl]
  · -- every mux
    intro mi m hm
    have hm1' : b1.muxes[mi]? = some m := by rw [← hmx2]; exact hm
    have hm0 : b.muxes[mi]? = some m := by rw [← hmx1]; exact hm1'
    have hfr : b.Frame mi m := hlay.frame mi m hm0
    have hfr1 : b1.Frame mi m := hfr.congr hmx1
    have hout : e.shape.L ≤ m.out := (hlay mi m hm0).2.2.1
    have hselL : m.sel < e.shape.L := (hlay mi m hm0).1
    rcases hi.sync mi m hm0 with hsync | hvir
    · obtain ⟨hweak1, hpre1⟩ := (hw1.mono (fun c (hc' : c < e.shape.L) => (by omega : c ≠ m.out))).pre hi.wf hsync
      exact Or.inl (Bay.propagate_sync wf1 hm1' hfr1 hweak1 hpre1 hp).2.2.2
    · obtain ⟨v1, v2, v3⟩ := hvir
      have hno1 : ∀ (c i : Nat), Cb.muxInput mi i ∉ b1.cbsOf c := by
        intro c i; rw [Bay.cbsOf_congr hcbs1]; exact v3 c i
      have hweak1 : b1.Weak mi m := by
        rintro i ⟨c, _, hcm⟩; exact absurd hcm (hno1 c i)
      cases hd : (b1.chan m.sel).dirty with
      | true =>
        exact Or.inl (Bay.propagate_sync (strong := false) wf1 hm1' hfr1 hweak1 (Or.inl hd) hp).2.2.2
      | false =>
        right
        obtain ⟨q1, _, q3⟩ := Bay.propagate_idle wf1 hm1' hfr1 ⟨hd, hno1⟩ hp
        refine ⟨?_, ?_, q3⟩
        · rw [Bay.propagate_raw wf1 hp m.sel (fun mj m' hm' => by
            rw [hmx1] at hm'; exact hsrcNotOut _ hselL mj m' hm'), hclean1 _ hd]
          exact v1
        · rw [q1, hkeep1 m.out (by omega)]; exact v2

theorem Inv.step {P : Src → Prop} {e e' : Emu} {b0 b : Bay} (hc : e.shape.connect = .ok b0) (hs : Shaped e)
    (hi : Inv b0 e b) (hsim : SimP P e e') :
    Shaped e'.flushAll ∧ e'.flushAll.shape = e.shape ∧
    ∃ b1 b2 em, Bay.Writes (e.shape.okP P) b b1 ∧ Mirrors e' b1 ∧
      (∀ c, b1.chan c = b.chan c ∨ c < e.shape.L) ∧
      b1.propagate = .ok (b2, em) ∧ Inv b0 e'.flushAll b2 := by
  obtain ⟨hs', hshape, hw⟩ := hsim hs
  obtain ⟨b1, hwP, hm1⟩ := hw b hi.mirrors
  obtain ⟨hk, b2, em, hp, hinv⟩ := hi.step_core hc hs' hshape (hwP.mono (fun _ h => Shape.okP_lt h)) hm1
  exact ⟨hs'.flushAll, (Emu.shape_flushAll e').trans hshape, b1, b2, em, hwP, hm1, hk, hp, hinv⟩

/-- **Simulation + step for one event of the reference emulator.** -/
theorem Inv.modelEvent {e e' : Emu} {b0 b : Bay} {ti m c v : Nat} {p : List Nat}
    {th mh : Emu → Nat → Nat → Nat → List Nat → Except Err Emu} (hth : HookSim th) (hmh : HookSim mh)
    (hc : e.shape.connect = .ok b0) (hs : Shaped e) (hi : Inv b0 e b)
    (h : modelEvent e ti m c v p th mh = .ok e') :
    Shaped e'.flushAll ∧ e'.flushAll.shape = e.shape ∧
    ∃ b1 b2 em, Bay.Writes (· < e.shape.L) b b1 ∧ Mirrors e' b1 ∧ (∀ c, b1.chan c = b.chan c ∨ c < e.shape.L) ∧
      b1.propagate = .ok (b2, em) ∧ Inv b0 e'.flushAll b2 := by
  obtain ⟨h1, h2, b1, b2, em, hw, h3, h4, h5, h6⟩ := hi.step hc hs (Sim.modelEvent hth hmh h)
  exact ⟨h1, h2, b1, b2, em, hw.mono (fun _ h => Shape.okP_lt h), h3, h4, h5, h6⟩

/-! ### the hooks in use -/

/-- the task layer is not part of `Emu/Core` (`Drivers/Emu.lean: noHook`) -/
theorem hookSim_none : HookSim (fun _ _ _ _ _ => .error .unknownEvent) := by
  intro e ti a b p e' h; cases h

/-- the mark events (`ovni/mark.c`): one push / pop / set on a raw channel -/
theorem hookSim_mark (tab : List MarkType) : HookSim (fun e ti _ v p => markEvent tab e ti v p) := by
  intro e ti a b p e' h
  simp only [markEvent] at h
  repeat' split at h
  all_goals first | (cases h; done) | skip
  · exact (SimP.withChan (chanOp_push _ _) h).sim
  · exact (SimP.withChan (chanOp_pop _) h).sim
  · exact (SimP.withChan (chanOp_set _) h).sim

end Ovni.Emu
