import OvniModel.Emu.MarkEmu

/-!
  Helper lemmas for C17 (mark definitions merge): label lists.

  `add_label` / `addLabels` keep a label list whose *values* are pairwise
  distinct (`KeysNodup`), accept a new list exactly when it agrees with the
  list so far and with itself (`LabelsAgree`), and produce the union.
-/
namespace Ovni.Emu.MarkL
open Ovni.Emu

/-- a list whose image under `f` has no duplicates is injective on its members -/
theorem eq_of_nodup_map {α β : Type} (f : α → β) :
    ∀ {l : List α}, (l.map f).Nodup → ∀ {x y : α}, x ∈ l → y ∈ l → f x = f y → x = y
  | [], _, _, _, hx, _, _ => by cases hx
  | a :: l, hn, x, y, hx, hy, hf => by
    rw [List.map_cons, List.nodup_cons] at hn
    obtain ⟨hna, hnl⟩ := hn
    rcases List.mem_cons.mp hx with rfl | hx'
    · rcases List.mem_cons.mp hy with rfl | hy'
      · rfl
      · exact absurd (hf ▸ List.mem_map_of_mem (f := f) hy') hna
    · rcases List.mem_cons.mp hy with rfl | hy'
      · exact absurd (hf ▸ List.mem_map_of_mem (f := f) hx') hna
      · exact eq_of_nodup_map f hnl hx' hy' hf

/-- no value is labelled twice (the label list is a finite map) -/
def KeysNodup (ls : List (Int × String)) : Prop := (ls.map (·.1)).Nodup

/-- two label lists give the same label to every value both of them label -/
def LabelsAgree (ls ls' : List (Int × String)) : Prop :=
  ∀ p ∈ ls, ∀ q ∈ ls', p.1 = q.1 → p.2 = q.2

instance (ls ls' : List (Int × String)) : Decidable (LabelsAgree ls ls') := by
  unfold LabelsAgree; infer_instance

theorem keysNodup_nil : KeysNodup [] := List.nodup_nil

theorem KeysNodup.eq_of_key {ls : List (Int × String)} (h : KeysNodup ls) {p q : Int × String}
    (hp : p ∈ ls) (hq : q ∈ ls) (hk : p.1 = q.1) : p = q :=
  eq_of_nodup_map (fun x : Int × String => x.1) (l := ls) h hp hq hk

theorem KeysNodup.nodup {ls : List (Int × String)} (h : KeysNodup ls) : ls.Nodup := by
  unfold KeysNodup at h
  induction ls with
  | nil => exact List.nodup_nil
  | cons a l ih =>
    rw [List.map_cons, List.nodup_cons] at h
    rw [List.nodup_cons]
    exact ⟨fun ha => h.1 (List.mem_map_of_mem (f := (·.1)) ha), ih h.2⟩

theorem KeysNodup.agree_self {ls : List (Int × String)} (h : KeysNodup ls) : LabelsAgree ls ls := by
  intro p hp q hq hk
  rw [h.eq_of_key hp hq hk]

theorem LabelsAgree.symm {a b : List (Int × String)} (h : LabelsAgree a b) : LabelsAgree b a :=
  fun p hp q hq hk => (h q hq p hp hk.symm).symm

theorem keysNodup_snoc {ls : List (Int × String)} {v : Int} {l : String} (h : KeysNodup ls)
    (hv : ∀ p ∈ ls, p.1 ≠ v) : KeysNodup (ls ++ [(v, l)]) := by
  unfold KeysNodup at *
  rw [List.map_append, List.nodup_append]
  refine ⟨h, by simp, ?_⟩
  intro a ha b hb
  simp only [List.map_cons, List.map_nil, List.mem_cons, List.not_mem_nil, or_false] at hb
  subst hb
  obtain ⟨p, hp, rfl⟩ := List.mem_map.mp ha
  exact hv p hp

/-! ### `add_label` -/

theorem find_key_some {ls : List (Int × String)} {v v' : Int} {l' : String}
    (h : ls.find? (·.1 == v) = some (v', l')) : v' = v ∧ (v, l') ∈ ls := by
  have h1 := List.find?_some h
  have h2 := List.mem_of_find?_eq_some h
  have : v' = v := by simpa using h1
  subst this
  exact ⟨rfl, h2⟩

theorem find_key_none {ls : List (Int × String)} {v : Int}
    (h : ls.find? (·.1 == v) = none) : ∀ p ∈ ls, p.1 ≠ v := by
  intro p hp
  have := List.find?_eq_none.mp h p hp
  simpa using this

/-- inversion of a successful `add_label` -/
theorem addLabel_ok_inv {ls ls' : List (Int × String)} {v : Int} {l : String}
    (h : addLabel ls v l = .ok ls') :
    (ls' = ls ∧ (v, l) ∈ ls) ∨ (ls' = ls ++ [(v, l)] ∧ ∀ p ∈ ls, p.1 ≠ v) := by
  unfold addLabel at h
  split at h
  · rename_i v' l' hf
    obtain ⟨_, hm⟩ := find_key_some hf
    split at h
    · rename_i hl
      subst hl
      injection h with h
      exact Or.inl ⟨h.symm, hm⟩
    · cases h
  · rename_i hf
    injection h with h
    exact Or.inr ⟨h.symm, find_key_none hf⟩

theorem addLabel_sound {ls ls' : List (Int × String)} {v : Int} {l : String}
    (hk : KeysNodup ls) (h : addLabel ls v l = .ok ls') :
    KeysNodup ls' ∧ ∀ p, p ∈ ls' ↔ p ∈ ls ∨ p = (v, l) := by
  rcases addLabel_ok_inv h with ⟨rfl, hm⟩ | ⟨rfl, hv⟩
  · refine ⟨hk, fun p => ⟨Or.inl, ?_⟩⟩
    rintro (hp | rfl)
    · exact hp
    · exact hm
  · refine ⟨keysNodup_snoc hk hv, fun p => ?_⟩
    simp [List.mem_append]

/-- `add_label` accepts a label whenever every label already recorded for the
    value is the same one. -/
theorem addLabel_complete {ls : List (Int × String)} {v : Int} {l : String}
    (h : ∀ p ∈ ls, p.1 = v → p.2 = l) : ∃ ls', addLabel ls v l = .ok ls' := by
  unfold addLabel
  split
  · rename_i v' l' hf
    obtain ⟨_, hm⟩ := find_key_some hf
    have : l' = l := h (v, l') hm rfl
    rw [if_pos this]
    exact ⟨_, rfl⟩
  · exact ⟨_, rfl⟩

/-- `add_label` refuses a second, different label for a value. -/
theorem addLabel_conflict {ls : List (Int × String)} {v : Int} {l l' : String}
    (hk : KeysNodup ls) (hm : (v, l') ∈ ls) (hne : l' ≠ l) : addLabel ls v l = .error .other := by
  unfold addLabel
  split
  · rename_i v' l'' hf
    obtain ⟨_, hm'⟩ := find_key_some hf
    have : (v, l'') = (v, l') := hk.eq_of_key hm' hm rfl
    injection this with _ hl
    subst hl
    rw [if_neg hne]
  · rename_i hf
    exact absurd rfl (find_key_none hf _ hm)

/-! ### `addLabels` (all labels of one definition) -/

theorem addLabels_sound : ∀ {new ls ls' : List (Int × String)}, KeysNodup ls →
    addLabels ls new = .ok ls' → KeysNodup ls' ∧ ∀ p, p ∈ ls' ↔ p ∈ ls ∨ p ∈ new
  | [], ls, ls', hk, h => by
    unfold addLabels at h
    injection h with h
    subst h
    exact ⟨hk, fun p => by simp⟩
  | (v, l) :: r, ls, ls', hk, h => by
    unfold addLabels at h
    split at h
    · cases h
    · rename_i ls1 h1
      obtain ⟨hk1, hm1⟩ := addLabel_sound hk h1
      obtain ⟨hk2, hm2⟩ := addLabels_sound hk1 h
      refine ⟨hk2, fun p => ?_⟩
      rw [hm2, hm1, List.mem_cons]
      constructor
      · rintro ((h | h) | h)
        · exact Or.inl h
        · exact Or.inr (Or.inl h)
        · exact Or.inr (Or.inr h)
      · rintro (h | h | h)
        · exact Or.inl (Or.inl h)
        · exact Or.inl (Or.inr h)
        · exact Or.inr h

theorem addLabels_complete : ∀ {new ls : List (Int × String)}, KeysNodup ls →
    LabelsAgree ls new → LabelsAgree new new → ∃ ls', addLabels ls new = .ok ls'
  | [], ls, _, _, _ => ⟨ls, by unfold addLabels; rfl⟩
  | (v, l) :: r, ls, hk, ha, hs => by
    obtain ⟨ls1, h1⟩ : ∃ ls1, addLabel ls v l = .ok ls1 :=
      addLabel_complete (fun p hp hv => ha p hp (v, l) (List.mem_cons_self) hv)
    obtain ⟨hk1, hm1⟩ := addLabel_sound hk h1
    have ha1 : LabelsAgree ls1 r := by
      intro p hp q hq hkq
      rcases (hm1 p).mp hp with hp' | rfl
      · exact ha p hp' q (List.mem_cons_of_mem _ hq) hkq
      · exact hs (v, l) List.mem_cons_self q (List.mem_cons_of_mem _ hq) hkq
    have hs1 : LabelsAgree r r := fun p hp q hq =>
      hs p (List.mem_cons_of_mem _ hp) q (List.mem_cons_of_mem _ hq)
    obtain ⟨ls', h2⟩ := addLabels_complete hk1 ha1 hs1
    refine ⟨ls', ?_⟩
    unfold addLabels
    rw [h1]
    exact h2

/-- `addLabels` succeeds exactly when the new labels agree with the old ones
    and with themselves. -/
theorem addLabels_ok_iff {new ls : List (Int × String)} (hk : KeysNodup ls) :
    (∃ ls', addLabels ls new = .ok ls') ↔ LabelsAgree ls new ∧ LabelsAgree new new := by
  constructor
  · rintro ⟨ls', h⟩
    obtain ⟨hk', hm⟩ := addLabels_sound hk h
    have hs := hk'.agree_self
    exact ⟨fun p hp q hq => hs p ((hm p).mpr (Or.inl hp)) q ((hm q).mpr (Or.inr hq)),
           fun p hp q hq => hs p ((hm p).mpr (Or.inr hp)) q ((hm q).mpr (Or.inr hq))⟩
  · rintro ⟨ha, hs⟩
    exact addLabels_complete hk ha hs

end Ovni.Emu.MarkL
