import OvniModel.Tools.Ovnisort
import OvniModel.Lemmas.OvnisortSort
/-! The ring of `ovnisort.c` refines "the last `min k (n-1)` event indices":
    `find_destination`, `rebuild_ring`, `ring_check` in closed form. -/
namespace Ovni.Ovnisort

/-! ### wrap-around arithmetic -/

theorem succ_mod (n j : Nat) (hn : 0 < n) :
    (j + 1) % n = if j % n + 1 ≥ n then 0 else j % n + 1 := by
  have hlt := Nat.mod_lt j hn
  have hj := Nat.div_add_mod j n
  split
  · have : j + 1 = n * (j / n + 1) := by
      rw [Nat.mul_add, Nat.mul_one]
      generalize n * (j / n) = a at *
      omega
    rw [this, Nat.mul_mod_right]
  · have : j + 1 = n * (j / n) + (j % n + 1) := by
      generalize n * (j / n) = a at *
      omega
    rw [this, Nat.mul_add_mod, Nat.mod_eq_of_lt (by omega)]

theorem incWrap_mod (n j : Nat) (hn : 0 < n) : incWrap n (j % n) = (j + 1) % n := by
  rw [succ_mod n j hn]; rfl

theorem decWrap_mod (n j : Nat) (hn : 0 < n) : decWrap n ((j + 1) % n) = j % n := by
  have hlt := Nat.mod_lt j hn
  rw [succ_mod n j hn]
  unfold decWrap
  split <;> split <;> omega

theorem mod_ne_of_lt {n j k : Nat} (h1 : j < k) (h2 : k < j + n) : j % n ≠ k % n := by
  intro h
  have h0 := Nat.sub_mod_eq_zero_of_mod_eq h.symm
  rw [Nat.mod_eq_of_lt (by omega)] at h0
  omega

theorem set_self {α} {l : List α} {i : Nat} {a : α} (h : l[i]? = some a) : l.set i a = l := by
  apply List.ext_getElem?
  intro j
  rw [List.getElem?_set]
  split
  · rename_i hij
    subst hij
    have hlt : i < l.length := by
      rcases Nat.lt_or_ge i l.length with hlt | hge
      · exact hlt
      · rw [List.getElem?_eq_none hge] at h; cases h
    simp only [hlt, if_true, h]
  · rfl

/-! ### the ring invariant -/

/-- After `k` calls of `ring_add` (with the event indices `0 … k-1`) on a ring
    of `n ≥ 1` slots. -/
structure RInv (n : Nat) (r : Ring) (k : Nat) : Prop where
  size : r.size = n
  len : r.ev.length = n
  tail : r.tail = k % n
  head : r.head = if k < n then 0 else (k + 1) % n
  slots : ∀ j, j < k → k ≤ j + n → r.ev[j % n]? = some j

theorem RInv.slot_eq {n r k} (h : RInv n r k) {j : Nat} (h1 : j < k) (h2 : k ≤ j + n) :
    slot r (j % n) = j := by
  unfold slot
  rw [List.getD_eq_getElem?_getD, h.slots j h1 h2]; rfl

theorem RInv.new (n : Nat) (hn : 0 < n) : RInv n (Ring.new n) 0 := by
  refine ⟨rfl, by simp [Ring.new], by simp [Ring.new], by simp [Ring.new, hn], ?_⟩
  intro j hj; omega

theorem ringAdd_inv {n r k} (hn : 0 < n) (h : RInv n r k) : RInv n (ringAdd r k) (k + 1) := by
  have hs := h.size
  have ht := h.tail
  have hh := h.head
  have hlt := Nat.mod_lt k hn
  have hsucc := succ_mod n k hn
  refine ⟨hs, ?_, ?_, ?_, ?_⟩
  · simp only [ringAdd, List.length_set]; exact h.len
  · simp only [ringAdd, hs, ht]
    rw [hsucc]
  · simp only [ringAdd, hs, ht, hh]
    have hsucc2 := succ_mod n (k + 1) hn
    have hkm : k < n → k % n = k := fun hk => Nat.mod_eq_of_lt hk
    generalize (k + 1 + 1) % n = c at *
    generalize (k + 1) % n = b at *
    generalize k % n = a at *
    by_cases h1 : a + 1 ≥ n <;> by_cases h2 : b + 1 ≥ n <;> by_cases h3 : k < n <;>
      by_cases h4 : k + 1 < n <;>
      simp only [h1, h2, h3, h4, if_true, if_false, true_implies] at hsucc hsucc2 hkm ⊢ <;>
      (repeat' split) <;> omega
  · intro j hj1 hj2
    simp only [ringAdd, ht]
    rw [List.getElem?_set]
    by_cases hjk : j = k
    · subst hjk
      simp only [if_true, h.len, hlt]
    · have hne : k % n ≠ j % n := fun e => mod_ne_of_lt (by omega : j < k) (by omega) e.symm
      simp only [hne, if_false]
      exact h.slots j (by omega) (by omega)

/-! ### find_destination -/

/-- Search backwards from index `k-1` over at most `cnt` events for an event
    with clock `< c`. -/
def scanBack (buf : List Ev) (c : Nat) : Nat → Nat → Option Nat
  | 0, _ => none
  | cnt + 1, k => if clockAt buf (k - 1) < c then some (k - 1) else scanBack buf c cnt (k - 1)

theorem scanBack_some {buf c} : ∀ {cnt k j}, scanBack buf c cnt k = some j → cnt ≤ k →
    j < k ∧ k ≤ j + cnt ∧ clockAt buf j < c ∧ ∀ i, j < i → i < k → c ≤ clockAt buf i := by
  intro cnt
  induction cnt with
  | zero => intro k j h; simp [scanBack] at h
  | succ cnt ih =>
    intro k j h hk
    unfold scanBack at h
    split at h
    · rename_i hlt
      injection h with h; subst h
      exact ⟨by omega, by omega, hlt, fun i h1 h2 => by omega⟩
    · rename_i hge
      obtain ⟨a, b, c', d⟩ := ih h (by omega)
      refine ⟨by omega, by omega, c', fun i h1 h2 => ?_⟩
      by_cases hi : i = k - 1
      · subst hi; omega
      · exact d i h1 (by omega)

theorem scanBack_none {buf c} : ∀ {cnt k}, scanBack buf c cnt k = none → cnt ≤ k →
    ∀ i, k - cnt ≤ i → i < k → c ≤ clockAt buf i := by
  intro cnt
  induction cnt with
  | zero => intro k _ _ i h1 h2; omega
  | succ cnt ih =>
    intro k h hk i h1 h2
    unfold scanBack at h
    split at h
    · cases h
    · rename_i hge
      by_cases hi : i = k - 1
      · subst hi; omega
      · exact ih h (by omega) i (by omega) (by omega)

theorem stop_eq {n r k} (hn : 0 < n) (h : RInv n r k) :
    decWrap n r.head = (k + n - 1 - min k (n - 1)) % n := by
  rw [h.head]
  by_cases hk : k < n
  · simp only [hk, if_true]
    have : min k (n - 1) = k := by omega
    rw [this]
    have : k + n - 1 - k = n - 1 := by omega
    rw [this, Nat.mod_eq_of_lt (by omega)]
    unfold decWrap; simp
  · simp only [hk, if_false]
    have : min k (n - 1) = n - 1 := by omega
    rw [this, decWrap_mod n k hn]
    congr 1; omega

theorem findLoop_scan {n r k} (buf : List Ev) (c : Nat) (hn : 0 < n) (h : RInv n r k) :
    ∀ cnt' b fuel, b + cnt' = min k (n - 1) → cnt' < fuel →
      findLoop buf r c (decWrap n r.head) fuel ((k + n - 1 - b) % n) b =
        match scanBack buf c cnt' (k - b) with
        | some j => (some (j % n), k - 1 - j)
        | none => (none, min k (n - 1)) := by
  intro cnt'
  induction cnt' with
  | zero =>
    intro b fuel hb hf
    obtain ⟨f, rfl⟩ : ∃ f, fuel = f + 1 := ⟨fuel - 1, by omega⟩
    unfold findLoop
    simp only [scanBack]
    rw [stop_eq hn h]
    have : b = min k (n - 1) := by omega
    rw [this]; simp
  | succ cnt' ih =>
    intro b fuel hb hf
    obtain ⟨f, rfl⟩ : ∃ f, fuel = f + 1 := ⟨fuel - 1, by omega⟩
    unfold findLoop
    have hne : (k + n - 1 - b) % n ≠ decWrap n r.head := by
      rw [stop_eq hn h]
      exact fun e => mod_ne_of_lt (by omega) (by omega) e.symm
    simp only [hne, if_false]
    have hi : (k + n - 1 - b) % n = (k - b - 1) % n := by
      have : k + n - 1 - b = (k - b - 1) + n := by omega
      rw [this, Nat.add_mod_right]
    have hslot : slot r ((k + n - 1 - b) % n) = k - b - 1 := by
      rw [hi]; exact h.slot_eq (by omega) (by omega)
    rw [hslot]
    unfold scanBack
    by_cases hc : clockAt buf (k - b - 1) < c
    · simp only [hc, if_true]
      rw [hi]
      congr 1; omega
    · simp only [hc, if_false]
      have hdec : decWrap r.size ((k + n - 1 - b) % n) = (k + n - 1 - (b + 1)) % n := by
        rw [h.size]
        have : k + n - 1 - b = (k + n - 1 - (b + 1)) + 1 := by omega
        rw [this, decWrap_mod n _ hn]
      rw [hdec]
      have := ih (b + 1) f (by omega) (by omega)
      rw [this]
      have : k - (b + 1) = k - b - 1 := by omega
      rw [this]

/-- `find_destination` in closed form. -/
theorem findDestination_eq {n r k} (buf : List Ev) (c : Nat) (hn : 0 < n) (h : RInv n r k) :
    findDestination buf r c =
      match scanBack buf c (min k (n - 1)) k with
      | some j => Dest.found (j % n)
      | none => if k + 1 < n then Dest.found 0 else Dest.notFound := by
  unfold findDestination
  have hstart : decWrap n r.tail = (k + n - 1 - 0) % n := by
    rw [h.tail]
    have : k % n = ((k + n - 1) + 1) % n := by
      have : k + n - 1 + 1 = k + n := by omega
      rw [this, Nat.add_mod_right]
    rw [this, decWrap_mod n _ hn]; rfl
  simp only [h.size, hstart]
  rw [findLoop_scan buf c hn h (min k (n - 1)) 0 (n + 1) (by omega) (by omega)]
  simp only [Nat.sub_zero]
  cases hsc : scanBack buf c (min k (n - 1)) k with
  | some j => rfl
  | none =>
    simp only
    by_cases hk : k + 1 < n
    · have h1 : min k (n - 1) + 1 < n := by omega
      have hh : r.head = 0 := by rw [h.head]; simp [show k < n by omega]
      have ht : r.tail = k := by rw [h.tail]; exact Nat.mod_eq_of_lt (by omega)
      simp only [h1, hk, if_true, hh, ht]
      simp [show ¬ (k + 1 ≥ n) by omega]
    · have h1 : ¬ (min k (n - 1) + 1 < n) := by omega
      simp only [h1, hk, if_false]

/-! ### rebuild_ring and ring_check -/

theorem rebuildLoop_id {n r k} (hn : 0 < n) (h : RInv n r k) :
    ∀ d ev fuel, ev + d = k → k < ev + n + (if d = 0 then 1 else 0) → d < fuel →
      rebuildLoop r k fuel (ev % n) ev = some (r, k) := by
  intro d
  induction d with
  | zero =>
    intro ev fuel he _ hf
    obtain ⟨f, rfl⟩ : ∃ f, fuel = f + 1 := ⟨fuel - 1, by omega⟩
    have : ev = k := by omega
    subst this
    unfold rebuildLoop
    simp [h.tail]
  | succ d ih =>
    intro ev fuel he hlt hf
    obtain ⟨f, rfl⟩ : ∃ f, fuel = f + 1 := ⟨fuel - 1, by omega⟩
    simp only [Nat.succ_ne_zero, if_false, Nat.add_zero] at hlt
    unfold rebuildLoop
    have hne : ev % n ≠ r.tail := by rw [h.tail]; exact mod_ne_of_lt (by omega) hlt
    have hge : ¬ (ev ≥ k) := by omega
    simp only [hne, hge, if_false]
    have hset : r.ev.set (ev % n) ev = r.ev := set_self (h.slots ev (by omega) (by omega))
    have hr : ({ r with ev := r.ev.set (ev % n) ev } : Ring) = r := by rw [hset]
    rw [hr, h.size, incWrap_mod n ev hn]
    exact ih (ev + 1) f (by omega) (by split <;> omega) (by omega)

theorem rebuildRing_id {n r k first} (hn : 0 < n) (h : RInv n r k) (h1 : first < k) (h2 : k < first + n) :
    rebuildRing r (first % n) first k = some r := by
  unfold rebuildRing
  rw [h.size, rebuildLoop_id hn h (k - first) first (n + 1) (by omega) (by split <;> omega) (by omega)]
  simp

/-- `ring_check` on consecutive events: clocks never decrease -/
def chainOk : Nat → List Ev → Bool
  | _, [] => true
  | last, e :: l => if e.clock < last then false else chainOk e.clock l

theorem ringCheckLoop_eq {n r} {buf : List Ev} (hn : 0 < n) (h : RInv n r buf.length) :
    ∀ d j fuel last, j + d = buf.length → buf.length < j + n + (if d = 0 then 1 else 0) → d < fuel →
      ringCheckLoop buf r fuel (j % n) last = chainOk last (buf.drop j) := by
  intro d
  induction d with
  | zero =>
    intro j fuel last he _ hf
    obtain ⟨f, rfl⟩ : ∃ f, fuel = f + 1 := ⟨fuel - 1, by omega⟩
    have : j = buf.length := by omega
    subst this
    unfold ringCheckLoop
    simp [h.tail, chainOk]
  | succ d ih =>
    intro j fuel last he hlt hf
    obtain ⟨f, rfl⟩ : ∃ f, fuel = f + 1 := ⟨fuel - 1, by omega⟩
    simp only [Nat.succ_ne_zero, if_false, Nat.add_zero] at hlt
    have hj : j < buf.length := by omega
    unfold ringCheckLoop
    have hne : j % n ≠ r.tail := by rw [h.tail]; exact mod_ne_of_lt hj hlt
    simp only [hne, if_false]
    rw [h.slot_eq hj (by omega), List.drop_eq_getElem_cons hj]
    have hc : clockAt buf j = buf[j].clock := by
      unfold clockAt
      rw [List.getD_eq_getElem?_getD, List.getElem?_eq_getElem hj]; rfl
    rw [hc]
    unfold chainOk
    split
    · rfl
    · rw [h.size, incWrap_mod n j hn]
      exact ih (j + 1) f _ (by omega) (by split <;> omega) (by omega)

/-- the loop of `region_in_place` is the same test -/
theorem inPlaceLoop_eq (last : Nat) (l : List Ev) : inPlaceLoop last l = chainOk last l := by
  induction l generalizing last with
  | nil => rfl
  | cons e t ih => unfold inPlaceLoop chainOk; rw [ih]

theorem chainOk_of_sorted {l : List Ev} (h : Sorted l) : ∀ last, (∀ e ∈ l, last ≤ e.clock) → chainOk last l = true := by
  unfold Sorted at h
  induction l with
  | nil => intros; rfl
  | cons a t ih =>
    intro last hl
    rw [List.pairwise_cons] at h
    unfold chainOk
    have := hl a List.mem_cons_self
    simp only [show ¬ (a.clock < last) by omega, if_false]
    exact ih h.2 _ h.1

theorem chainOk_sorted {l : List Ev} : ∀ {last}, chainOk last l = true →
    Sorted l ∧ ∀ e ∈ l, last ≤ e.clock := by
  induction l with
  | nil => intro _ _; exact ⟨List.Pairwise.nil, fun _ h => by cases h⟩
  | cons a t ih =>
    intro last h
    unfold chainOk at h
    split at h
    · cases h
    · rename_i hlt
      obtain ⟨h1, h2⟩ := ih h
      refine ⟨List.pairwise_cons.2 ⟨h2, h1⟩, fun e he => ?_⟩
      rcases List.mem_cons.1 he with rfl | he
      · omega
      · have := h2 e he; omega

/-! ### execute_sort_plan (the part that sorts) without the ring -/

theorem minClock_le_init (init : Nat) (l : List Ev) : minClock init l ≤ init := by
  unfold minClock
  induction l generalizing init with
  | nil => exact Nat.le_refl _
  | cons a t ih =>
    simp only [List.foldl_cons]
    split
    · exact Nat.le_trans (ih _) (by omega)
    · exact ih _

theorem minClock_le_mem (init : Nat) (l : List Ev) : ∀ e ∈ l, minClock init l ≤ e.clock := by
  unfold minClock
  induction l generalizing init with
  | nil => intro e he; cases he
  | cons a t ih =>
    intro e he
    simp only [List.foldl_cons]
    rcases List.mem_cons.1 he with rfl | he
    · have := minClock_le_init (if e.clock < init then e.clock else init) t
      unfold minClock at this
      have h2 : (if e.clock < init then e.clock else init) ≤ e.clock := by split <;> omega
      exact Nat.le_trans this h2
    · exact ih _ e he

theorem minClock_snoc (init : Nat) (l : List Ev) (e : Ev) :
    minClock init (l ++ [e]) = min (minClock init l) e.clock := by
  unfold minClock
  rw [List.foldl_append]
  simp only [List.foldl_cons, List.foldl_nil]
  split <;> omega

/-- the first event of the range to sort: the destination found, or the start
    of the stream while the ring is not yet full -/
def firstOf (n : Nat) (buf : List Ev) (m : Nat) : Option Nat :=
  match scanBack buf m (min buf.length (n - 1)) buf.length with
  | some j => some j
  | none => if buf.length + 1 < n then some 0 else none

def regionMin (buf : List Ev) (bad0 : Nat) : Nat := minClock (clockAt buf bad0) (buf.drop bad0)

def execAbs (sortFn : List Ev → List Ev) (n : Nat) (buf : List Ev) (bad0 : Nat) :
    Status × List Ev × Option (Nat × Nat) :=
  match firstOf n buf (regionMin buf bad0) with
  | none => (Status.errNoDest, buf, none)
  | some first =>
    let buf' := buf.take first ++ sortFn (buf.drop first)
    if chainOk 0 (sortFn (buf.drop first)) then (Status.ok, buf', some (first, buf.length))
    else (Status.errRingNotSorted, buf', some (first, buf.length))

theorem firstOf_lt {n buf m first} (hk : 1 ≤ buf.length) (h : firstOf n buf m = some first) :
    first < buf.length ∧ buf.length < first + n := by
  unfold firstOf at h
  split at h
  · rename_i j hj
    injection h with h; subst h
    obtain ⟨a, b, _, _⟩ := scanBack_some hj (by omega)
    omega
  · split at h
    · injection h with h; subst h; omega
    · cases h

theorem exec_eq {n r} (sortFn : List Ev → List Ev) (buf : List Ev) (bad0 : Nat) (hn : 0 < n)
    (h : RInv n r buf.length) (hk : 1 ≤ buf.length) (hlen : ∀ l, (sortFn l).length = l.length) :
    sortRegion sortFn buf r bad0 =
      ((execAbs sortFn n buf bad0).1, (execAbs sortFn n buf bad0).2.1, r, (execAbs sortFn n buf bad0).2.2) := by
  unfold sortRegion execAbs
  have hm : (if minClock (clockAt buf bad0) (buf.drop bad0) < clockAt buf bad0
      then minClock (clockAt buf bad0) (buf.drop bad0) else clockAt buf bad0) = regionMin buf bad0 := by
    have := minClock_le_init (clockAt buf bad0) (buf.drop bad0)
    unfold regionMin
    split <;> omega
  simp only [hm]
  rw [findDestination_eq buf _ hn h]
  cases hf : firstOf n buf (regionMin buf bad0) with
  | none =>
    unfold firstOf at hf
    split at hf
    · cases hf
    · rename_i hsc
      split at hf
      · cases hf
      · rename_i hk1
        simp only [hk1, if_false]
  | some first =>
    obtain ⟨hlt, hlt2⟩ := firstOf_lt hk hf
    have hslot : slot r (first % n) = first := h.slot_eq hlt (by omega)
    have hdest : (match scanBack buf (regionMin buf bad0) (min buf.length (n - 1)) buf.length with
        | some j => Dest.found (j % n)
        | none => if buf.length + 1 < n then Dest.found 0 else Dest.notFound) = Dest.found (first % n) := by
      unfold firstOf at hf
      split at hf
      · rename_i j hj
        injection hf with hf; subst hf; rfl
      · split at hf
        · rename_i hk1
          injection hf with hf; subst hf
          simp [hk1]
        · cases hf
    rw [hdest]
    simp only [hslot, show ¬ (first ≥ buf.length) by omega, if_false]
    rw [rebuildRing_id hn h hlt hlt2]
    simp only
    have hl' : (buf.take first ++ sortFn (buf.drop first)).length = buf.length := by
      rw [List.length_append, hlen, List.length_take, List.length_drop]; omega
    have hrc : ringCheck (buf.take first ++ sortFn (buf.drop first)) r (first % n)
        = chainOk 0 (sortFn (buf.drop first)) := by
      unfold ringCheck
      have h' : RInv n r (buf.take first ++ sortFn (buf.drop first)).length := by rw [hl']; exact h
      rw [h.size, ringCheckLoop_eq hn h' (buf.length - first) first (n + 1) 0 (by omega) (by split <;> omega) (by omega)]
      rw [List.drop_left' (by rw [List.length_take]; omega)]
    rw [hrc]
    split <;> rfl

end Ovni.Ovnisort
