import OvniModel.Lemmas.SystemOrder

/-! Each single contradiction prevents a successful `build` (helper lemmas for C15). -/
namespace Ovni.Emu.System

theorem mem_appFacts_load {ss : List StreamMeta} {x : AFact} : x ∈ appFacts (load ss) ↔ x ∈ appFacts ss :=
  ((load_perm ss).flatMap_right appFactsOf).mem_iff

theorem mem_rankFacts_load {ss : List StreamMeta} {x : RFact} : x ∈ rankFacts (load ss) ↔ x ∈ rankFacts ss :=
  ((load_perm ss).flatMap_right rankFactsOf).mem_iff

theorem mem_cpuFacts_load {ss : List StreamMeta} {x : CFact} : x ∈ cpuFacts (load ss) ↔ x ∈ cpuFacts ss :=
  ((load_perm ss).flatMap_right cpuFactsOf).mem_iff

theorem thrKeys_load_perm (ss : List StreamMeta) : (thrKeys (load ss)).Perm (thrKeys ss) := by
  unfold thrKeys
  exact ((load_perm ss).map _).flatMap_right _

/-- A thread stream of the list has its loom and its process in the tables. -/
theorem thread_stream_in_tables {l : List StreamMeta} {sys : Sys} (inv : Inv l sys)
    {s : StreamMeta} {n : Str} (hs : s ∈ l) (ht : isThr s) (hl : s.tp.loom = some n) :
    n ∈ sys.looms ∧ ∃ p ∈ sys.procs, p.loom = n ∧ p.pid = s.tp.pid := by
  have hk : (some n, s.tp.pid, s.tp.tid) ∈ thrKeys l := by
    unfold thrKeys
    rw [List.mem_flatMap]
    refine ⟨s.tp, List.mem_map.2 ⟨s, hs, rfl⟩, ?_⟩
    unfold isThr at ht
    simp [thrKeysOf, ht, hl]
  rw [← inv.thrRows] at hk
  obtain ⟨t, htm, hte⟩ := List.mem_map.1 hk
  simp only [tkey, Prod.mk.injEq, Option.some.injEq] at hte
  have h1 := inv.thrLoom t htm
  have h2 := inv.thrProc t htm
  obtain ⟨p, hp, hpk⟩ := List.mem_map.1 h2
  simp only [pkey, Prod.mk.injEq] at hpk
  exact ⟨by rw [← hte.1]; exact h1, p, hp, by rw [hpk.1, hte.1], by rw [hpk.2, hte.2.1]⟩

theorem conflict_never_ok {m : Mode} {ss : List StreamMeta} (hc : Conflict ss) (h : Hier) :
    build m ss ≠ .ok h := by
  intro hb
  obtain ⟨⟨k1, k2, k3, k4, k5⟩, k6⟩ := build_ok_noConflict hb
  obtain ⟨sys, hcr, hf⟩ := build_ok hb
  have inv := create_ok hcr
  cases hc with
  | appId n pid a b h1 h2 hne =>
    exact hne (k3.2 n pid a b (mem_appFacts_load.2 h1) (mem_appFacts_load.2 h2))
  | rank n pid r r' k k' h1 h2 hne =>
    exact hne (k4.2 n pid r k r' k' (mem_rankFacts_load.2 h1) (mem_rankFacts_load.2 h2)).1
  | nranks n pid r r' k k' h1 h2 hne =>
    exact hne (k4.2 n pid r k r' k' (mem_rankFacts_load.2 h1) (mem_rankFacts_load.2 h2)).2
  | indexTwoPhyids n i p p' h1 h2 hne =>
    exact hne (k6 n i p p' (mem_cpuFacts_load.2 h1) (mem_cpuFacts_load.2 h2))
  | phyidTwoIndexes n i i' p h1 h2 hne =>
    exact hne (k5.2.2 n i i' p (mem_cpuFacts_load.2 h1) (mem_cpuFacts_load.2 h2))
  | dupTid hd =>
    exact hd ((thrKeys_load_perm ss).nodup_iff.1 k2)
  | missingCpus s n hs ht hl hno =>
    have hs' : s ∈ load ss := (load_perm ss).mem_iff.2 hs
    obtain ⟨hn, _⟩ := thread_stream_in_tables inv hs' ht hl
    obtain ⟨l, _, hmk, hie⟩ := (finish_ok_looms hf).1 n hn
    obtain ⟨_, hne, _, _⟩ := initEndLoom_ok hie
    rw [mkLoom_cpus hmk] at hne
    cases hcs : sortedCpus sys n with
    | nil => exact hne hcs
    | cons c cs =>
      have hc : c ∈ sortedCpus sys n := by rw [hcs]; exact List.mem_cons_self
      obtain ⟨hcm, hcl⟩ := mem_sortedCpus.1 hc
      have := (inv.cpus.sound c hcm).1
      rw [cpuFact, hcl] at this
      exact hno _ (mem_cpuFacts_load.1 this)
  | missingAppId s n hs ht hl hno =>
    have hs' : s ∈ load ss := (load_perm ss).mem_iff.2 hs
    obtain ⟨hn, p, hp, hpl, hpp⟩ := thread_stream_in_tables inv hs' ht hl
    obtain ⟨l, _, hmk, hie⟩ := (finish_ok_looms hf).1 n hn
    obtain ⟨hpos, _, _, _⟩ := initEndLoom_ok hie
    have hmem : mkProc sys.threads p ∈ l.procs := (mem_loom_procs hmk).2 ⟨p, hp, hpl, rfl⟩
    have h0 : 0 < p.appid := hpos _ hmem
    rcases inv.procs.soundApp p hp with hz | ⟨hfact, _⟩
    · omega
    · rw [hpl, hpp] at hfact
      exact hno _ (mem_appFacts_load.1 hfact)

end Ovni.Emu.System
