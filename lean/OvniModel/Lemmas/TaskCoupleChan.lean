import OvniModel.Emu.TaskHook
import OvniModel.Lemmas.TaskEmu

/-
  C06, the coupling between the task layer's own copy of the task channels
  (`Ovni.Task.Emu.ch` / `.ss`, Emu/Task.lean) and the thread's real channels
  (Emu/Core.lean), one channel at a time.

  `SingleIs c dup v`: the flushed single channel `c` (duplicate policy `dup`)
  holds `v`; `StackIs c dup st`: the flushed stack channel `c` holds `st` (head =
  top).  On such channels `chan_set` / `chan_push` / `chan_pop` of chan.c
  (`Chan.set` / `.push` / `.pop`) and the task layer's `chanSet` / `ssPush` /
  `ssPop` accept the same operations and lead to related states again.
-/
set_option linter.unusedSimpArgs false
namespace Ovni.Emu
open Ovni.Generated

/-- a task-layer value as a channel value (`none` = `value_null()`) -/
def ofOpt : Option Int → Value
  | none => .null
  | some i => .int i

theorem ofOpt_inj {a b : Option Int} (h : ofOpt a = ofOpt b) : a = b := by
  cases a <;> cases b <;> simp_all [ofOpt]

/-- the flushed single channel `c` holds `v` -/
structure SingleIs (c : Chan) (dup : Bool) (v : Option Int) : Prop where
  isSt : c.isStack = false
  dup : c.allowDup = dup
  ign : c.ignoreDup = false
  clean : c.dirty = false
  cur : c.cur = ofOpt v
  last : c.last = ofOpt v

/-- the flushed stack channel `c` holds `st` (head = top) -/
structure StackIs (c : Chan) (dup : Bool) (st : List Int) : Prop where
  isSt : c.isStack = true
  dup : c.allowDup = dup
  ign : c.ignoreDup = false
  clean : c.dirty = false
  vals : c.vals = st.reverse.map Value.int
  last : c.last = c.cur

theorem Chan.flush_eq_of_clean {c : Chan} (h : c.dirty = false) : c.flush = c := by
  unfold Chan.flush; simp [h]

theorem Chan.flush_eq_of_dirty {c : Chan} (h : c.dirty = true) : c.flush = { c with last := c.cur, dirty := false } := by
  unfold Chan.flush; simp [h]

theorem SingleIs.flush {c : Chan} {dup : Bool} {v : Option Int} (h : SingleIs c dup v) : SingleIs c.flush dup v := by
  rw [Chan.flush_eq_of_clean h.clean]; exact h

theorem StackIs.flush {c : Chan} {dup : Bool} {st : List Int} (h : StackIs c dup st) : StackIs c.flush dup st := by
  rw [Chan.flush_eq_of_clean h.clean]; exact h

theorem getLast?_rev_int (st : List Int) : (st.reverse.map Value.int).getLast? = st.head?.map Value.int := by
  cases st with
  | nil => rfl
  | cons x r => simp

/-- what `chan_read` returns on a coupled stack channel: the top of the task layer's copy -/
theorem StackIs.cur_eq {c : Chan} {dup : Bool} {st : List Int} (h : StackIs c dup st) : c.cur = ofOpt st.head? := by
  unfold Chan.cur
  rw [h.vals, getLast?_rev_int]
  cases st with
  | nil => rfl
  | cons x r => rfl

/-! ### `chan_set` -/

/-- **`chan_set` on the real channel and `chanSet` on the copy: same verdict.** -/
theorem SingleIs.set_iff {c : Chan} {dup : Bool} {v0 : Option Int} (h : SingleIs c dup v0) (v : Option Int) :
    (∃ c', c.set (ofOpt v) = .ok c') ↔ (∃ w, Ovni.Task.chanSet dup v0 v = .ok w) := by
  unfold Chan.set Ovni.Task.chanSet
  simp only [h.isSt, h.clean, h.dup, h.ign, h.last, Bool.false_eq_true, if_false, Bool.false_and]
  by_cases hd : dup = true
  · simp [hd]
  · have hd' : dup = false := by cases dup <;> simp_all
    by_cases hv : v0 = v
    · subst hv; simp [hd']
    · have : ofOpt v0 ≠ ofOpt v := fun e => hv (ofOpt_inj e)
      simp [hd', hv, this]

/-- … and the results are coupled again after the flush. -/
theorem SingleIs.set_spec {c c' : Chan} {dup : Bool} {v0 : Option Int} (h : SingleIs c dup v0) {v : Option Int}
    (hs : c.set (ofOpt v) = .ok c') : Ovni.Task.chanSet dup v0 v = .ok v ∧ SingleIs c'.flush dup v := by
  have hex := (h.set_iff v).mp ⟨c', hs⟩
  constructor
  · obtain ⟨w, hw⟩ := hex
    unfold Ovni.Task.chanSet at hw ⊢
    split at hw
    · cases hw
    · rename_i hc; rw [if_neg hc]
  · unfold Chan.set at hs
    simp only [h.isSt, h.clean, h.ign, Bool.false_eq_true, if_false, Bool.false_and] at hs
    split at hs
    · cases hs
    · injection hs with hs
      subst hs
      have hcur : ({ c with vals := (match ofOpt v with | .null => [] | _ => [ofOpt v]), dirty := true } : Chan).cur
          = ofOpt v := by
        cases v <;> rfl
      rw [Chan.flush_eq_of_dirty rfl]
      exact ⟨by first | rfl | exact h.isSt, by first | exact h.dup | rfl, by first | rfl | exact h.ign, rfl, hcur, hcur⟩

/-! ### `chan_push` / `chan_pop` -/

theorem StackIs.len {c : Chan} {dup : Bool} {st : List Int} (h : StackIs c dup st) : c.vals.length = st.length := by
  rw [h.vals]; simp

theorem StackIs.last_eq {c : Chan} {dup : Bool} {st : List Int} (h : StackIs c dup st) (v : Int) :
    c.last = Value.int v ↔ st.head? = some v := by
  rw [h.last, h.cur_eq]
  cases st with
  | nil => simp [ofOpt]
  | cons x r => simp [ofOpt]

/-- **`chan_push` on the real channel and `ssPush` on the copy: same verdict.** -/
theorem StackIs.push_iff {c : Chan} {dup : Bool} {st : List Int} (h : StackIs c dup st) (v : Int) :
    (∃ c', c.push maxChanStack (.int v) = .ok c') ↔ (∃ st', Ovni.Task.ssPush dup st v = .ok st') := by
  unfold Chan.push Ovni.Task.ssPush
  simp only [h.isSt, h.clean, h.dup, h.ign, h.len, Bool.not_true, Bool.false_eq_true, if_false, Bool.false_and]
  by_cases hd : dup = true
  · by_cases hl : st.length ≥ maxChanStack <;> simp [hd, hl]
  · have hd' : dup = false := by cases dup <;> simp_all
    by_cases hv : st.head? = some v
    · have := (h.last_eq v).mpr hv
      simp [hd', hv, this]
    · have : c.last ≠ Value.int v := fun e => hv ((h.last_eq v).mp e)
      by_cases hl : st.length ≥ maxChanStack <;> simp [hd', hv, this, hl]

theorem StackIs.push_spec {c c' : Chan} {dup : Bool} {st : List Int} (h : StackIs c dup st) {v : Int}
    (hp : c.push maxChanStack (.int v) = .ok c') :
    Ovni.Task.ssPush dup st v = .ok (v :: st) ∧ StackIs c'.flush dup (v :: st) := by
  obtain ⟨st', hst⟩ := (h.push_iff v).mp ⟨c', hp⟩
  constructor
  · unfold Ovni.Task.ssPush at hst ⊢
    split at hst
    · cases hst
    · rename_i h1
      split at hst
      · cases hst
      · rename_i h2; rw [if_neg h1, if_neg h2]
  · unfold Chan.push at hp
    simp only [h.isSt, h.clean, h.ign, Bool.not_true, Bool.false_eq_true, if_false, Bool.false_and] at hp
    split at hp
    · cases hp
    · split at hp
      · cases hp
      · injection hp with hp
        subst hp
        rw [Chan.flush_eq_of_dirty rfl]
        refine ⟨by first | rfl | exact h.isSt, by first | exact h.dup | rfl, by first | rfl | exact h.ign, rfl, ?_, rfl⟩
        simp only [h.vals, List.reverse_cons, List.map_append, List.map_cons, List.map_nil]

/-- **`chan_pop` on the real channel and `ssPop` on the copy: same verdict.** -/
theorem StackIs.pop_iff {c : Chan} {dup : Bool} {st : List Int} (h : StackIs c dup st) (v : Int) :
    (∃ c', c.pop (.int v) = .ok c') ↔ (∃ st', Ovni.Task.ssPop st v = .ok st') := by
  unfold Chan.pop Ovni.Task.ssPop
  simp only [h.isSt, h.clean, Bool.not_true, Bool.false_eq_true, if_false, Bool.false_and, h.vals, getLast?_rev_int]
  cases st with
  | nil => simp
  | cons x r =>
    by_cases hx : x = v
    · simp [hx]
    · simp [hx]

theorem StackIs.pop_spec {c c' : Chan} {dup : Bool} {st : List Int} (h : StackIs c dup st) {v : Int}
    (hp : c.pop (.int v) = .ok c') : ∃ r, st = v :: r ∧ Ovni.Task.ssPop st v = .ok r ∧ StackIs c'.flush dup r := by
  obtain ⟨st', hst⟩ := (h.pop_iff v).mp ⟨c', hp⟩
  have hst0 := Ovni.Task.ssPop_ok.mp hst
  refine ⟨st', hst0, hst, ?_⟩
  unfold Chan.pop at hp
  simp only [h.isSt, h.clean, Bool.not_true, Bool.false_eq_true, if_false, Bool.false_and] at hp
  split at hp
  · cases hp
  · split at hp
    · cases hp
    · injection hp with hp
      subst hp
      rw [Chan.flush_eq_of_dirty rfl]
      refine ⟨by first | rfl | exact h.isSt, by first | exact h.dup | rfl, by first | rfl | exact h.ign, rfl, ?_, rfl⟩
      simp only [h.vals, hst0, List.reverse_cons, List.map_append, List.map_cons, List.map_nil,
        List.dropLast_concat]

end Ovni.Emu
