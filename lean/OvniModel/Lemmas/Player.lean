import OvniModel.Emu.Player
import OvniModel.Lemmas.Heap

/-! Helper lemmas for the player model.  Part 1 is a heap-free description of
    the replay (`AbsRun`: repeatedly take a stream with minimal `lastclock`
    out of a bag, emit its current event, put the advanced stream back) and
    the generic merge argument.  Part 2 shows that `run` on the concrete
    player (heap, re-insertion, clocks) is such a run. -/
namespace Ovni.Player
open Ovni.Heap

/-! ## Part 1: abstract replay -/

/-- A stream holding a current event whose corrected clock is `lastclock`. -/
def Wf (s : Stream) : Prop := ∃ e, s.cur = some e ∧ s.lastclock = e.clock + s.offset

/-- `stream_step` without its error check: move to the next event. -/
def adv (s : Stream) : Option Stream :=
  match s.rest with
  | [] => none
  | e :: r => some { s with cur := some e, rest := r, lastclock := e.clock + s.offset }

/-- pending event tagged with the stream's relpath and clock offset -/
abbrev PE := Str × Int × Ev

def PE.corr (x : PE) : Int := x.2.2.clock + x.2.1

/-- events of a stream not yet emitted (current one included) -/
def pendS (s : Stream) : List Ev := s.cur.toList ++ s.rest

def tagS (s : Stream) (l : List Ev) : List PE := l.map fun e => (s.relpath, s.offset, e)

def pendT (s : Stream) : List PE := tagS s (pendS s)

/-- what an output line says about its event: stream, offset used, event -/
def peOut (o : Out) : PE := (o.relpath, o.sclock - o.ev.clock, o.ev)

inductive AbsRun : List Stream → List Out → Prop
  | nil : AbsRun [] []
  | cons {B L' : List Stream} {s : Stream} {e : Ev} {o : Out} {os : List Out} :
      B.Perm (s :: L') → s.cur = some e → s.lastclock = e.clock + s.offset →
      (∀ x ∈ L', s.lastclock ≤ x.lastclock) →
      o.relpath = s.relpath → o.ev = e → o.sclock = s.lastclock →
      AbsRun ((adv s).toList ++ L') os → AbsRun B (o :: os)

theorem adv_pendT (s : Stream) : (adv s).toList.flatMap pendT = tagS s s.rest := by
  unfold adv
  cases h : s.rest with
  | nil => simp [tagS]
  | cons e r => simp [pendT, pendS, tagS]

theorem adv_pendS (s : Stream) : (adv s).toList.flatMap pendS = s.rest := by
  unfold adv
  cases h : s.rest with
  | nil => simp
  | cons e r => simp [pendS]

theorem adv_relpath (s s' : Stream) (h : adv s = some s') : s'.relpath = s.relpath ∧ s'.offset = s.offset := by
  unfold adv at h
  cases hr : s.rest with
  | nil => rw [hr] at h; cases h
  | cons e r => rw [hr] at h; cases h; exact ⟨rfl, rfl⟩

/-- Loss-free: the emitted events are exactly the pending ones. -/
theorem absRun_perm {B : List Stream} {os : List Out} (h : AbsRun B os) :
    (os.map peOut).Perm (B.flatMap pendT) := by
  induction h with
  | nil => exact List.Perm.refl _
  | @cons B L' s e o os hp hc hl _ hr he hs _ ih =>
    have e1 : peOut o = (s.relpath, s.offset, e) := by
      simp only [peOut, hr, he, hs, hl]
      congr 2; omega
    have e2 : pendT s = (s.relpath, s.offset, e) :: tagS s s.rest := by
      simp [pendT, pendS, tagS, hc]
    refine List.Perm.trans ?_ (List.Perm.flatMap_right pendT hp).symm
    simp only [List.map_cons, List.flatMap_cons, e1, e2, List.cons_append]
    refine List.Perm.cons _ ?_
    rw [List.flatMap_append, adv_pendT] at ih
    exact ih

/-- corrected clocks of a stream never go backwards from its cursor on -/
def SortedS (s : Stream) : Prop :=
  (∀ e ∈ s.rest, s.lastclock ≤ e.clock + s.offset) ∧
  s.rest.Pairwise (fun a b => a.clock + s.offset ≤ b.clock + s.offset)

theorem adv_sorted (s s' : Stream) (hs : SortedS s) (h : adv s = some s') :
    SortedS s' ∧ s.lastclock ≤ s'.lastclock := by
  unfold adv at h
  cases hr : s.rest with
  | nil => rw [hr] at h; cases h
  | cons e r =>
    rw [hr] at h; cases h
    obtain ⟨h1, h2⟩ := hs
    rw [hr] at h1 h2
    rw [List.pairwise_cons] at h2
    exact ⟨⟨fun x hx => h2.1 x hx, h2.2⟩, h1 e (by simp)⟩

theorem absRun_lb {B : List Stream} {os : List Out} (h : AbsRun B os) (c : Int)
    (hB : ∀ x ∈ B, SortedS x ∧ c ≤ x.lastclock) : ∀ o ∈ os, c ≤ o.sclock := by
  induction h generalizing c with
  | nil => intro o ho; cases ho
  | @cons B L' s e o os hp hc hl hmin hr he hs _ ih =>
    intro o' ho'
    have hsB := hB s (hp.symm.subset (by simp))
    rcases List.mem_cons.1 ho' with rfl | hin
    · rw [hs]; exact hsB.2
    · refine ih c ?_ o' hin
      intro x hx
      rcases List.mem_append.1 hx with hx | hx
      · have hx' : adv s = some x := by
          cases ha : adv s with
          | none => rw [ha] at hx; cases hx
          | some y => rw [ha] at hx; simp at hx; rw [hx]
        have := adv_sorted s x hsB.1 hx'
        exact ⟨this.1, by omega⟩
      · exact hB x (hp.symm.subset (List.mem_cons_of_mem _ hx))

/-- Time-ordered: with per-stream sorted inputs the emitted corrected clocks
    never decrease. -/
theorem absRun_sorted {B : List Stream} {os : List Out} (h : AbsRun B os)
    (hB : ∀ x ∈ B, SortedS x) : os.Pairwise (fun a b => a.sclock ≤ b.sclock) := by
  induction h with
  | nil => exact List.Pairwise.nil
  | @cons B L' s e o os hp hc hl hmin hr he hs hrun ih =>
    have hsB := hB s (hp.symm.subset (by simp))
    have hB' : ∀ x ∈ (adv s).toList ++ L', SortedS x ∧ s.lastclock ≤ x.lastclock := by
      intro x hx
      rcases List.mem_append.1 hx with hx | hx
      · have hx' : adv s = some x := by
          cases ha : adv s with
          | none => rw [ha] at hx; cases hx
          | some y => rw [ha] at hx; simp at hx; rw [hx]
        exact adv_sorted s x hsB hx'
      · exact ⟨hB x (hp.symm.subset (List.mem_cons_of_mem _ hx)), hmin x hx⟩
    rw [List.pairwise_cons]
    refine ⟨?_, ih (fun x hx => (hB' x hx).1)⟩
    intro o' ho'
    rw [hs]
    exact absRun_lb hrun s.lastclock hB' o' ho'

/-! ### Order inside each stream -/

/-- pending events of the stream called `r` -/
def pendR (r : Str) (B : List Stream) : List Ev := (B.filter fun s => s.relpath == r).flatMap pendS

theorem filter_key_le_one {β : Type} (f : β → Str) (r : Str) : ∀ (B : List β), (B.map f).Nodup →
    (B.filter fun s => f s == r).length ≤ 1 := by
  intro B
  induction B with
  | nil => intro _; simp
  | cons a B ih =>
    intro hn
    rw [List.map_cons, List.nodup_cons] at hn
    by_cases ha : f a = r
    · have : B.filter (fun s => f s == r) = [] := by
        rw [List.filter_eq_nil_iff]
        intro x hx hxr
        have : f x = r := by simpa using hxr
        exact hn.1 (by rw [ha, ← this]; exact List.mem_map_of_mem hx)
      simp [ha, this]
    · have := ih hn.2
      simp [ha]; exact this

theorem perm_short_eq {β : Type} {l1 l2 : List β} (hp : l1.Perm l2) (h : l1.length ≤ 1) : l1 = l2 := by
  match l1, l2, hp, h with
  | [], l2, hp, _ => exact (List.Perm.nil_eq hp)
  | [a], l2, hp, _ => exact (List.singleton_perm.1 hp)
  | _ :: _ :: _, _, _, h => simp at h

theorem pendR_perm (r : Str) {B1 B2 : List Stream} (hp : B1.Perm B2) (hn : (B1.map (·.relpath)).Nodup) :
    pendR r B1 = pendR r B2 := by
  unfold pendR
  rw [perm_short_eq (hp.filter _) (filter_key_le_one (·.relpath) r B1 hn)]

theorem pendR_absent (r : Str) (B : List Stream) (h : r ∉ B.map (·.relpath)) : pendR r B = [] := by
  unfold pendR
  have : B.filter (fun s => s.relpath == r) = [] := by
    rw [List.filter_eq_nil_iff]
    intro x hx hxr
    have : x.relpath = r := by simpa using hxr
    exact h (by rw [← this]; exact List.mem_map_of_mem (f := (·.relpath)) hx)
  rw [this]; rfl

theorem adv_toList_relpaths (s : Stream) :
    (adv s).toList.map (·.relpath) = [] ∨ (adv s).toList.map (·.relpath) = [s.relpath] := by
  cases h : adv s with
  | none => left; rfl
  | some s' => right; simp [(adv_relpath s s' h).1]

/-- Order-preserving: the events of one stream are emitted in stream order. -/
theorem absRun_order {B : List Stream} {os : List Out} (h : AbsRun B os)
    (hn : (B.map (·.relpath)).Nodup) (r : Str) :
    (os.filter fun o => o.relpath == r).map (·.ev) = pendR r B := by
  induction h with
  | nil => rfl
  | @cons B L' s e o os hp hc hl hmin hr he hs hrun ih =>
    have hn' : ((s :: L').map (·.relpath)).Nodup := (hp.map _).nodup_iff.1 hn
    rw [pendR_perm r hp hn]
    rw [List.map_cons, List.nodup_cons] at hn'
    have hnB' : (((adv s).toList ++ L').map (·.relpath)).Nodup := by
      rw [List.map_append]
      rcases adv_toList_relpaths s with e0 | e0 <;> rw [e0]
      · simpa using hn'.2
      · simpa using hn'
    have ih' := ih hnB'
    by_cases hsr : s.relpath = r
    · have hor : (o.relpath == r) = true := by simp [hr, hsr]
      have habs : pendR r L' = [] := pendR_absent r L' (by rw [← hsr]; exact hn'.1)
      have e1 : pendR r (s :: L') = e :: s.rest := by
        unfold pendR at habs ⊢
        simp only [List.filter_cons, hsr, beq_self_eq_true, if_true, List.flatMap_cons, habs,
          List.append_nil, pendS, hc, Option.toList_some, List.singleton_append]
      have e2 : pendR r ((adv s).toList ++ L') = s.rest := by
        unfold pendR at habs ⊢
        rw [List.filter_append, List.flatMap_append, habs, List.append_nil]
        cases ha : adv s with
        | none =>
          have := adv_pendS s; rw [ha] at this; simp at this
          simp [← this]
        | some s' =>
          have := adv_pendS s; rw [ha] at this
          simp only [Option.toList_some, List.flatMap_cons, List.flatMap_nil, List.append_nil] at this
          simp [(adv_relpath s s' ha).1, hsr, this]
      rw [List.filter_cons, hor]
      simp only [if_true, List.map_cons, e1, he]
      rw [ih', e2]
    · have hor : (o.relpath == r) = false := by simp [hr, hsr]
      have e1 : pendR r (s :: L') = pendR r L' := by
        unfold pendR; simp [hsr]
      have e2 : pendR r ((adv s).toList ++ L') = pendR r L' := by
        unfold pendR
        rw [List.filter_append]
        have : (adv s).toList.filter (fun s => s.relpath == r) = [] := by
          cases ha : adv s with
          | none => rfl
          | some s' => simp [(adv_relpath s s' ha).1, hsr]
        rw [this, List.nil_append]
      rw [List.filter_cons, hor]
      simp only [Bool.false_eq_true, if_false, e1]
      rw [ih', e2]

theorem absRun_of_perm {B B2 : List Stream} {os : List Out} (h : AbsRun B os) (hp : B2.Perm B) :
    AbsRun B2 os := by
  cases h with
  | nil => rw [List.Perm.eq_nil hp]; exact AbsRun.nil
  | cons h1 h2 h3 h4 h5 h6 h7 h8 => exact AbsRun.cons (hp.trans h1) h2 h3 h4 h5 h6 h7 h8

/-- number of steps an abstract run takes -/
def mu (B : List Stream) : Nat := (B.flatMap pendS).length

/-! ## Part 2: the concrete player refines the abstract replay -/

def skey (s : Stream) : Int := - s.lastclock

theorem sgt_key : GtKey sgt skey := by
  intro a b
  unfold sgt streamCmp skey
  by_cases h1 : a.lastclock < b.lastclock
  · simp [h1]
  · by_cases h2 : a.lastclock > b.lastclock
    · simp [h1, h2]
    · simp [h1, h2]

/-- a stepped stream as it sits in the heap or in `player->stream` -/
def WfA (s : Stream) : Prop := s.active = true ∧ Wf s

structure Inv (p : Player) : Prop where
  shape : Shape p.heap.root p.heap.size
  ordered : Ordered skey p.heap.root
  heapWf : ∀ s ∈ p.heap.root.toList, WfA s
  streamWf : ∀ s, p.stream = some s → WfA s

/-- the bag of streams that compete for the next event -/
def live (p : Player) : List Stream := (p.stream.bind adv).toList ++ p.heap.root.toList

theorem adv_wfA (s s' : Stream) (h : s.active = true) (ha : adv s = some s') : WfA s' ∧ s'.unsorted = s.unsorted := by
  unfold adv at ha
  cases hr : s.rest with
  | nil => rw [hr] at ha; cases ha
  | cons e r => rw [hr] at ha; cases ha; exact ⟨⟨h, e, rfl, rfl⟩, rfl⟩

theorem live_wf (p : Player) (hi : Inv p) : ∀ s ∈ live p, WfA s := by
  intro s hs
  rcases List.mem_append.1 hs with hs | hs
  · cases hst : p.stream with
    | none => rw [hst] at hs; cases hs
    | some s0 =>
      rw [hst] at hs
      cases ha : adv s0 with
      | none => simp [ha] at hs
      | some s1 =>
        simp [ha] at hs
        rw [hs]
        exact (adv_wfA s0 s1 (hi.streamWf s0 hst).1 ha).1
  · exact hi.heapWf s hs

/-- `stream_step` on a stepped stream: end of stream, backwards-clock error,
    or the advanced stream. -/
theorem streamStep_wf (s : Stream) (h : WfA s) :
    (s.rest = [] ∧ adv s = none ∧ ∃ s', streamStep s = .eof s') ∨
    (∃ e r, s.rest = e :: r ∧
      ((s.unsorted = false ∧ e.clock + s.offset < s.lastclock ∧ streamStep s = .err) ∨
       (¬ (s.unsorted = false ∧ e.clock + s.offset < s.lastclock) ∧
          ∃ s', adv s = some s' ∧ streamStep s = .ok s'))) := by
  obtain ⟨ha, e0, hc, _⟩ := h
  unfold streamStep adv
  simp only [ha, Bool.not_true, Bool.false_eq_true, if_false, hc]
  cases hr : s.rest with
  | nil => left; exact ⟨rfl, rfl, _, rfl⟩
  | cons e r =>
    right
    refine ⟨e, r, rfl, ?_⟩
    by_cases hu : s.unsorted = false ∧ e.clock + s.offset < s.lastclock
    · left; refine ⟨hu.1, hu.2, ?_⟩
      dsimp only
      rw [if_pos]
      simp [hu.1, Stream.evclock, hu.2]
    · right; refine ⟨hu, _, rfl, ?_⟩
      dsimp only
      rw [if_neg]
      · rfl
      · intro hh
        apply hu
        simp only [Bool.and_eq_true, Bool.not_eq_true'] at hh
        exact ⟨hh.1.1, of_decide_eq_true hh.2⟩

/-- `step_stream` on `player->stream`: fails only on a backwards clock of a
    sorted-mode stream; otherwise the heap afterwards holds exactly `live p`. -/
theorem readd_spec (p : Player) (hi : Inv p) :
    (readd p = none ∧ ∃ s e r, p.stream = some s ∧ s.rest = e :: r ∧ s.unsorted = false ∧
        e.clock + s.offset < s.lastclock) ∨
    (∃ p1, readd p = some p1 ∧ Shape p1.heap.root p1.heap.size ∧ Ordered skey p1.heap.root ∧
       p1.heap.root.toList.Perm (live p) ∧ p1.firstEvent = p.firstEvent ∧
       p1.firstclock = p.firstclock ∧ p1.lastclock = p.lastclock ∧ p1.unsorted = p.unsorted) := by
  unfold readd live
  cases hst : p.stream with
  | none =>
    right
    exact ⟨p, rfl, hi.shape, hi.ordered, List.Perm.refl _, rfl, rfl, rfl, rfl⟩
  | some s =>
    have hw := hi.streamWf s hst
    simp only [Option.bind_some]
    unfold stepStream
    simp only [hw.1, Bool.not_true, Bool.false_eq_true, if_false]
    rcases streamStep_wf s hw with ⟨_, ha, s', he⟩ | ⟨e, r, hr, ⟨hu, hlt, he⟩ | ⟨_, s', ha, he⟩⟩
    · right
      rw [he, ha]
      exact ⟨_, rfl, hi.shape, hi.ordered, List.Perm.refl _, rfl, rfl, rfl, rfl⟩
    · left
      rw [he]
      exact ⟨rfl, s, e, r, rfl, hr, hu, hlt⟩
    · right
      rw [he, ha]
      obtain ⟨h', hins, _, hs', ho', hp'⟩ := insert_inv sgt skey sgt_key p.heap s' hi.shape hi.ordered
      simp only [hins, Option.map_some]
      exact ⟨_, rfl, hs', ho', hp', rfl, rfl, rfl, rfl⟩

/-- What an emitting `player_step` establishes. -/
structure EvCond (p p' : Player) (o : Out) (s : Stream) (e : Ev) : Prop where
  inv : Inv p'
  stream : p'.stream = some s
  perm : (live p).Perm (s :: p'.heap.root.toList)
  cur : s.cur = some e
  clock : s.lastclock = e.clock + s.offset
  min : ∀ x ∈ p'.heap.root.toList, s.lastclock ≤ x.lastclock
  relpath : o.relpath = s.relpath
  ev : o.ev = e
  sclock : o.sclock = s.lastclock
  started : p'.firstEvent = false
  lastclock : p'.lastclock = s.lastclock
  firstclock : p'.firstclock = if p.firstEvent then s.lastclock else p.firstclock
  dclock : o.dclock = o.sclock - p'.firstclock
  unsorted : p'.unsorted = p.unsorted
  guard : p.unsorted = false → p.firstEvent = false → p.lastclock ≤ s.lastclock

theorem playerStep_cases (p : Player) (hi : Inv p) :
    (playerStep p = .err ∧
      ((∃ s e r, p.stream = some s ∧ s.rest = e :: r ∧ s.unsorted = false ∧
          e.clock + s.offset < s.lastclock) ∨
       (p.unsorted = false ∧ p.firstEvent = false ∧ ∃ s ∈ live p, s.lastclock < p.lastclock))) ∨
    (∃ p1, playerStep p = .fin p1 ∧ live p = []) ∨
    (∃ p' o s e, playerStep p = .ev p' o ∧ EvCond p p' o s e) := by
  unfold playerStep
  rcases readd_spec p hi with ⟨hr, hc⟩ | ⟨p1, hr, hs1, ho1, hp1, f1, f2, f3, f4⟩
  · left; rw [hr]; exact ⟨rfl, Or.inl hc⟩
  · rw [hr]
    simp only
    by_cases hnil : p1.heap.root = .nil
    · right; left
      rw [popMax_empty sgt p1.heap hnil]
      refine ⟨p1, rfl, ?_⟩
      rw [hnil] at hp1
      exact (List.Perm.nil_eq hp1).symm
    · obtain ⟨m, h', hpop, _, hs', ho', hperm, hmax⟩ := popMax_inv sgt skey sgt_key p1.heap hs1 ho1 hnil
      rw [hpop]
      simp only
      have hmin : ∀ x ∈ p1.heap.root.toList, m.lastclock ≤ x.lastclock := by
        intro x hx
        have := hmax x hx
        unfold skey at this; omega
      have hmem : m ∈ live p := hp1.subset (hperm.symm.subset (by simp))
      obtain ⟨hma, e, hmc, hml⟩ := live_wf p hi m hmem
      have hwf' : ∀ x ∈ h'.root.toList, WfA x := fun x hx =>
        live_wf p hi x (hp1.subset (hperm.symm.subset (List.mem_cons_of_mem _ hx)))
      unfold updateClocks
      cases hfe : p1.firstEvent with
      | true =>
        right; right
        simp only [if_true, Int.lt_irrefl, decide_false, Bool.false_and, Bool.false_eq_true, if_false, hmc]
        refine ⟨_, _, m, e, rfl, ?_⟩
        exact { inv := ⟨hs', ho', hwf', fun s hs => by cases hs; exact ⟨hma, e, hmc, hml⟩⟩
                stream := rfl
                perm := hp1.symm.trans hperm
                cur := hmc
                clock := hml
                min := fun x hx => hmin x (hperm.symm.subset (List.mem_cons_of_mem _ hx))
                relpath := rfl
                ev := rfl
                sclock := rfl
                started := rfl
                lastclock := rfl
                firstclock := by rw [← f1, hfe]; rfl
                dclock := rfl
                unsorted := f4
                guard := fun _ hh => by rw [← f1, hfe] at hh; cases hh }
      | false =>
        simp only [Bool.false_eq_true, if_false]
        by_cases hg : m.lastclock < p1.lastclock ∧ p1.unsorted = false
        · left
          have : (decide (m.lastclock < p1.lastclock) && !p1.unsorted) = true := by
            simp [hg.1, hg.2]
          rw [if_pos this]
          refine ⟨rfl, Or.inr ⟨by rw [← f4]; exact hg.2, by rw [← f1]; exact hfe, m, hmem, by rw [← f3]; exact hg.1⟩⟩
        · right; right
          have : ¬ (decide (m.lastclock < p1.lastclock) && !p1.unsorted) = true := by
            intro hh
            simp only [Bool.and_eq_true, decide_eq_true_eq, Bool.not_eq_true'] at hh
            exact hg hh
          rw [if_neg this]
          simp only [hmc]
          refine ⟨_, _, m, e, rfl, ?_⟩
          exact { inv := ⟨hs', ho', hwf', fun s hs => by cases hs; exact ⟨hma, e, hmc, hml⟩⟩
                  stream := rfl
                  perm := hp1.symm.trans hperm
                  cur := hmc
                  clock := hml
                  min := fun x hx => hmin x (hperm.symm.subset (List.mem_cons_of_mem _ hx))
                  relpath := rfl
                  ev := rfl
                  sclock := rfl
                  started := rfl
                  lastclock := rfl
                  firstclock := by rw [← f1, hfe]; exact f2
                  dclock := rfl
                  unsorted := f4
                  guard := fun hu _ => by
                    rw [← f4] at hu; rw [← f3]
                    have : ¬ m.lastclock < p1.lastclock := fun hh => hg ⟨hh, hu⟩
                    omega }

theorem live_of_ev {p p' : Player} {o : Out} {s : Stream} {e : Ev} (c : EvCond p p' o s e) :
    live p' = (adv s).toList ++ p'.heap.root.toList := by
  unfold live; rw [c.stream]; rfl

/-- The step loop is an abstract replay of the live bag. -/
theorem run_absRun : ∀ (f : Nat) (p : Player) (out : List Out), Inv p → run f p = some out →
    AbsRun (live p) out := by
  intro f
  induction f with
  | zero => intro p out _ h; simp [run] at h
  | succ f ih =>
    intro p out hi h
    unfold run at h
    rcases playerStep_cases p hi with ⟨he, _⟩ | ⟨p1, he, hl⟩ | ⟨p', o, s, e, he, c⟩
    · rw [he] at h; cases h
    · rw [he] at h; cases h; rw [hl]; exact AbsRun.nil
    · rw [he] at h
      simp only at h
      cases hrun : run f p' with
      | none => rw [hrun] at h; cases h
      | some out' =>
        rw [hrun] at h
        simp only [Option.map_some, Option.some.injEq] at h
        subst h
        have := ih p' out' c.inv hrun
        rw [live_of_ev c] at this
        exact AbsRun.cons c.perm c.cur c.clock c.min c.relpath c.ev c.sclock this

theorem run_dclock_started : ∀ (f : Nat) (p : Player) (out : List Out), Inv p → p.firstEvent = false →
    run f p = some out → ∀ o ∈ out, o.dclock = o.sclock - p.firstclock := by
  intro f
  induction f with
  | zero => intro p out _ _ h; simp [run] at h
  | succ f ih =>
    intro p out hi hf h
    unfold run at h
    rcases playerStep_cases p hi with ⟨he, _⟩ | ⟨p1, he, hl⟩ | ⟨p', o, s, e, he, c⟩
    · rw [he] at h; cases h
    · rw [he] at h; cases h; intro o ho; cases ho
    · rw [he] at h
      simp only at h
      cases hrun : run f p' with
      | none => rw [hrun] at h; cases h
      | some out' =>
        rw [hrun] at h
        simp only [Option.map_some, Option.some.injEq] at h
        subst h
        have hfc : p'.firstclock = p.firstclock := by rw [c.firstclock, hf]; rfl
        intro o' ho'
        rcases List.mem_cons.1 ho' with rfl | hin
        · rw [c.dclock, hfc]
        · rw [← hfc]; exact ih p' out' c.inv c.started hrun o' hin

/-- `dclock` is the corrected clock minus the corrected clock of the first
    event of the replay. -/
theorem run_dclock (f : Nat) (p : Player) (o0 : Out) (out : List Out) (hi : Inv p)
    (hf : p.firstEvent = true) (h : run f p = some (o0 :: out)) :
    ∀ o ∈ o0 :: out, o.dclock = o.sclock - o0.sclock := by
  cases f with
  | zero => simp [run] at h
  | succ f =>
    unfold run at h
    rcases playerStep_cases p hi with ⟨he, _⟩ | ⟨p1, he, hl⟩ | ⟨p', o, s, e, he, c⟩
    · rw [he] at h; cases h
    · rw [he] at h; cases h
    · rw [he] at h
      simp only at h
      cases hrun : run f p' with
      | none => rw [hrun] at h; cases h
      | some out' =>
        rw [hrun] at h
        simp only [Option.map_some, Option.some.injEq, List.cons.injEq] at h
        obtain ⟨rfl, rfl⟩ := h
        have hfc : p'.firstclock = o.sclock := by rw [c.firstclock, hf, c.sclock]; rfl
        intro o' ho'
        rcases List.mem_cons.1 ho' with rfl | hin
        · rw [c.dclock, hfc]
        · rw [← hfc]; exact run_dclock_started f p' out' c.inv c.started hrun o' hin

/-- In sorted mode `update_clocks` enforces the order by itself: whatever
    the streams contain, a replay that does not fail is time-ordered. -/
theorem run_sorted_mode : ∀ (f : Nat) (p : Player) (out : List Out), Inv p → p.unsorted = false →
    run f p = some out →
    out.Pairwise (fun a b => a.sclock ≤ b.sclock) ∧
    (p.firstEvent = false → ∀ o ∈ out, p.lastclock ≤ o.sclock) := by
  intro f
  induction f with
  | zero => intro p out _ _ h; simp [run] at h
  | succ f ih =>
    intro p out hi hu h
    unfold run at h
    rcases playerStep_cases p hi with ⟨he, _⟩ | ⟨p1, he, hl⟩ | ⟨p', o, s, e, he, c⟩
    · rw [he] at h; cases h
    · rw [he] at h; cases h
      exact ⟨List.Pairwise.nil, fun _ o ho => by cases ho⟩
    · rw [he] at h
      simp only at h
      cases hrun : run f p' with
      | none => rw [hrun] at h; cases h
      | some out' =>
        rw [hrun] at h
        simp only [Option.map_some, Option.some.injEq] at h
        subst h
        obtain ⟨i1, i2⟩ := ih p' out' c.inv (by rw [c.unsorted]; exact hu) hrun
        have i3 := i2 c.started
        rw [c.lastclock, ← c.sclock] at i3
        refine ⟨List.pairwise_cons.2 ⟨i3, i1⟩, fun hf o' ho' => ?_⟩
        have hg := c.guard hu hf
        rw [← c.sclock] at hg
        rcases List.mem_cons.1 ho' with rfl | hin
        · exact hg
        · have := i3 o' hin; omega

/-! ### The loop never fails on sorted streams (nor in unsorted mode) -/

/-- streams the player holds: the last emitted one and the heap -/
def sources (p : Player) : List Stream := p.stream.toList ++ p.heap.root.toList

structure Good (p : Player) : Prop where
  flag : p.unsorted = true → ∀ s ∈ sources p, s.unsorted = true
  sorted : p.unsorted = false → ∀ s ∈ sources p, SortedS s
  lb : p.unsorted = false → p.firstEvent = false → ∀ s ∈ live p, p.lastclock ≤ s.lastclock

theorem live_props (p : Player) (P : Stream → Prop) (h : ∀ s ∈ sources p, P s)
    (hadv : ∀ s s', P s → adv s = some s' → P s') : ∀ s ∈ live p, P s := by
  intro s hs
  unfold live at hs
  unfold sources at h
  rcases List.mem_append.1 hs with hs | hs
  · cases hst : p.stream with
    | none => rw [hst] at hs; cases hs
    | some s0 =>
      rw [hst] at hs h
      cases ha : adv s0 with
      | none => simp [ha] at hs
      | some s1 =>
        simp [ha] at hs
        rw [hs]
        exact hadv s0 s1 (h s0 (by simp)) ha
  · exact h s (List.mem_append_right _ hs)

theorem adv_unsorted (s s' : Stream) (h : adv s = some s') : s'.unsorted = s.unsorted := by
  unfold adv at h
  cases hr : s.rest with
  | nil => rw [hr] at h; cases h
  | cons e r => rw [hr] at h; cases h; rfl

theorem mu_cons (s : Stream) (L : List Stream) (e : Ev) (h : s.cur = some e) :
    mu (s :: L) = mu ((adv s).toList ++ L) + 1 := by
  unfold mu
  rw [List.flatMap_cons, List.flatMap_append, adv_pendS]
  simp [pendS, h]

theorem run_total : ∀ (f : Nat) (p : Player), Inv p → Good p → mu (live p) < f →
    ∃ out, run f p = some out := by
  intro f
  induction f with
  | zero => intro p _ _ h; omega
  | succ f ih =>
    intro p hi hg hmu
    unfold run
    rcases playerStep_cases p hi with ⟨he, hc⟩ | ⟨p1, he, hl⟩ | ⟨p', o, s, e, he, c⟩
    · exfalso
      rcases hc with ⟨s, e, r, hst, hr, hu, hlt⟩ | ⟨hu, hfe, s, hs, hlt⟩
      · have hsrc : s ∈ sources p := by unfold sources; rw [hst]; simp
        cases hpu : p.unsorted with
        | true => have := hg.flag hpu s hsrc; rw [hu] at this; cases this
        | false =>
          have := (hg.sorted hpu s hsrc).1 e (by rw [hr]; simp)
          omega
      · have := hg.lb hu hfe s hs; omega
    · rw [he]; exact ⟨[], rfl⟩
    · rw [he]
      simp only
      have hmu' : mu (live p') < f := by
        have e1 : mu (live p) = mu (s :: p'.heap.root.toList) := by
          unfold mu; exact (List.Perm.flatMap_right pendS c.perm).length_eq
        rw [live_of_ev c]
        rw [e1, mu_cons s _ e c.cur] at hmu
        omega
      have hsub : ∀ x ∈ sources p', x ∈ live p := by
        intro x hx
        unfold sources at hx
        rw [c.stream] at hx
        exact c.perm.symm.subset (by simpa using hx)
      have hg' : Good p' := by
        refine ⟨fun hu x hx => ?_, fun hu x hx => ?_, fun hu _ x hx => ?_⟩
        · rw [c.unsorted] at hu
          exact live_props p (fun s => s.unsorted = true) (hg.flag hu)
            (fun a b ha hab => by rw [adv_unsorted a b hab]; exact ha) x (hsub x hx)
        · rw [c.unsorted] at hu
          exact live_props p SortedS (hg.sorted hu)
            (fun a b ha hab => (adv_sorted a b ha hab).1) x (hsub x hx)
        · rw [c.unsorted] at hu
          rw [c.lastclock]
          rw [live_of_ev c] at hx
          rcases List.mem_append.1 hx with hx | hx
          · have hss : SortedS s := live_props p SortedS (hg.sorted hu)
              (fun a b ha hab => (adv_sorted a b ha hab).1) s (c.perm.symm.subset (by simp))
            cases ha : adv s with
            | none => rw [ha] at hx; cases hx
            | some s1 =>
              rw [ha] at hx; simp at hx; rw [hx]
              exact (adv_sorted s s1 hss ha).2
          · exact c.min x hx
      obtain ⟨out', hrun⟩ := ih p' c.inv hg' hmu'
      exact ⟨o :: out', by rw [hrun]; rfl⟩

/-! ### `player_init` -/

/-- a stream as `stream_load` (+ `stream_clkoff_set`) leaves it -/
def Loaded (s : Stream) : Prop :=
  s.cur = none ∧ s.active = !s.rest.isEmpty ∧ s.lastclock = 0 ∧ s.unsorted = false

/-- `stream_allow_unsorted` when the player runs in unsorted mode -/
def flag (u : Bool) (s : Stream) : Stream := if u then { s with unsorted := true } else s

/-- the stream positioned on its first event (`none` for a stream without events) -/
def start (u : Bool) (s : Stream) : Option Stream := adv (flag u s)

/-- the stream as the first `step_stream` leaves it in the trace list -/
def stepped (u : Bool) (s : Stream) : Stream := (start u s).getD (flag u s)

theorem flag_loaded (u : Bool) (s : Stream) (h : Loaded s) :
    (flag u s).cur = none ∧ (flag u s).active = !(flag u s).rest.isEmpty ∧ (flag u s).lastclock = 0 ∧
    (flag u s).unsorted = u ∧ (flag u s).rest = s.rest ∧ (flag u s).offset = s.offset ∧
    (flag u s).relpath = s.relpath := by
  obtain ⟨h1, h2, h3, h4⟩ := h
  cases u <;> simp [flag, h1, h2, h3, h4]

theorem stepStream_first (p : Player) (s : Stream) (hi : Inv p)
    (hc : s.cur = none) (ha : s.active = !s.rest.isEmpty) :
    (s.rest = [] ∧ adv s = none ∧ stepStream p s = some (p, s, 1)) ∨
    (∃ e r, s.rest = e :: r ∧ ∃ s' h', adv s = some s' ∧
          stepStream p s = some ({ p with heap := h', nprocessed := p.nprocessed + 1 }, s', 0) ∧
          Shape h'.root h'.size ∧ Ordered skey h'.root ∧
          h'.root.toList.Perm (s' :: p.heap.root.toList)) := by
  unfold stepStream
  cases hr : s.rest with
  | nil =>
    left
    rw [hr] at ha
    refine ⟨rfl, by unfold adv; rw [hr], ?_⟩
    simp [ha]
  | cons e r =>
    right
    rw [hr] at ha
    simp only [List.isEmpty_cons, Bool.not_false] at ha
    refine ⟨e, r, rfl, ?_⟩
    simp only [ha, Bool.not_true, Bool.false_eq_true, if_false]
    -- the first event of a stream is never compared with `lastclock`
    have hss : streamStep s =
        StepRes.ok { s with cur := some e, rest := r, lastclock := s.evclock e } := by
      unfold streamStep
      simp only [ha, Bool.not_true, Bool.false_eq_true, if_false, hc, hr, Option.isSome_none,
        Bool.and_false, Bool.false_and]
    have hadv : adv s = some { s with cur := some e, rest := r, lastclock := s.evclock e } := by
      unfold adv; rw [hr]; rfl
    rw [hss]
    obtain ⟨h', hins, _, hs', ho', hp'⟩ := insert_inv sgt skey sgt_key p.heap
      { s with cur := some e, rest := r, lastclock := s.evclock e } hi.shape hi.ordered
    simp only [hins]
    exact ⟨_, h', hadv, rfl, hs', ho', hp'⟩

theorem initLoop_cases (u : Bool) : ∀ (ss : List Stream) (p : Player), Inv p → p.stream = none →
    (∀ s ∈ ss, Loaded s) →
    (∃ p', initLoop u p ss = some (p', ss.map (stepped u)) ∧ Inv p' ∧ p'.stream = none ∧
      p'.heap.root.toList.Perm (ss.filterMap (start u) ++ p.heap.root.toList) ∧
      p'.firstEvent = p.firstEvent ∧ p'.unsorted = p.unsorted) := by
  intro ss
  induction ss with
  | nil =>
    intro p hi hst _
    exact ⟨p, rfl, hi, hst, List.Perm.refl _, rfl, rfl⟩
  | cons s ss ih =>
    intro p hi hst hl
    have hls := hl s (by simp)
    obtain ⟨f1, f2, f3, f4, f5, f6, f7⟩ := flag_loaded u s hls
    have hl' : ∀ x ∈ ss, Loaded x := fun x hx => hl x (List.mem_cons_of_mem _ hx)
    unfold initLoop
    simp only
    have efl : (if u = true then { s with unsorted := true } else s) = flag u s := rfl
    rw [efl]
    rcases stepStream_first p (flag u s) hi f1 f2 with ⟨hr, ha, he⟩ |
      ⟨e, r, hr, s', h', ha, he, hs', ho', hp'⟩
    · rw [he]
      simp only
      have hstart : start u s = none := ha
      have hstep : stepped u s = flag u s := by unfold stepped; rw [hstart]; rfl
      obtain ⟨p', h1, h2, h3, h4, h5, h6⟩ := ih p hi hst hl'
      rw [h1]
      refine ⟨p', by simp [hstep], h2, h3, ?_, h5, h6⟩
      simpa [List.filterMap_cons, hstart] using h4
    · rw [he]
      simp only
      have hstart : start u s = some s' := ha
      have hstep : stepped u s = s' := by unfold stepped; rw [hstart]; rfl
      have hact : (flag u s).active = true := by rw [f2, hr]; rfl
      have hw : WfA s' := (adv_wfA (flag u s) s' hact ha).1
      have hi2 : Inv { p with heap := h', nprocessed := p.nprocessed + 1 } := by
        refine ⟨hs', ho', fun x hx => ?_, fun x hx => by rw [hst] at hx; cases hx⟩
        rcases List.mem_cons.1 (hp'.subset hx) with rfl | hx
        · exact hw
        · exact hi.heapWf x hx
      obtain ⟨p', h1, h2, h3, h4, h5, h6⟩ :=
        ih { p with heap := h', nprocessed := p.nprocessed + 1 } hi2 hst hl'
      rw [h1]
      refine ⟨p', by simp [hstep], h2, h3, ?_, h5, h6⟩
      simp only [List.filterMap_cons, hstart]
      refine h4.trans ?_
      refine (List.Perm.append_left _ hp').trans ?_
      exact List.perm_middle

theorem inv_init0 (u : Bool) : Inv (Player.init0 u) :=
  ⟨shape_empty, trivial, (fun s hs => by cases hs), (fun s hs => by cases hs)⟩

theorem playerInit_cases (u : Bool) (ss : List Stream) (hl : ∀ s ∈ ss, Loaded s) :
    (playerInit ss u = none ∧ u = false ∧ clockGate (ss.map (stepped false)) = false) ∨
    (∃ p, playerInit ss u = some p ∧ Inv p ∧ p.stream = none ∧
      p.heap.root.toList.Perm (ss.filterMap (start u)) ∧ p.firstEvent = true ∧ p.unsorted = u) := by
  unfold playerInit
  obtain ⟨p', h1, h2, h3, h4, h5, h6⟩ :=
    initLoop_cases u ss (Player.init0 u) (inv_init0 u) rfl hl
  rw [h1]
  simp only
  by_cases hg : (!u && !clockGate (ss.map (stepped u))) = true
  · left
    rw [if_pos hg]
    simp only [Bool.and_eq_true, Bool.not_eq_true'] at hg
    refine ⟨rfl, hg.1, ?_⟩
    have := hg.2
    rw [hg.1] at this; exact this
  · right
    rw [if_neg hg]
    refine ⟨p', rfl, h2, h3, ?_, h5, h6⟩
    simpa [Player.init0, Heap.empty, Tree.toList] using h4

/-! ### From `replay` to the abstract run over the loaded streams -/

theorem filterMap_flatMap {β γ δ : Type} (f : β → Option γ) (g : γ → List δ) : ∀ (l : List β),
    (l.filterMap f).flatMap g = l.flatMap fun x => (f x).toList.flatMap g := by
  intro l
  induction l with
  | nil => rfl
  | cons a l ih =>
    rw [List.filterMap_cons, List.flatMap_cons]
    cases h : f a with
    | none => simp [ih]
    | some b => simp [ih]

theorem start_pendT (u : Bool) (s : Stream) (h : Loaded s) :
    (start u s).toList.flatMap pendT = tagS s s.rest := by
  obtain ⟨_, _, _, _, f5, f6, f7⟩ := flag_loaded u s h
  unfold start
  rw [adv_pendT, f5]
  unfold tagS
  rw [f6, f7]

theorem start_pendS (u : Bool) (s : Stream) (h : Loaded s) :
    (start u s).toList.flatMap pendS = s.rest := by
  obtain ⟨_, _, _, _, f5, _, _⟩ := flag_loaded u s h
  unfold start
  rw [adv_pendS, f5]

theorem start_relpath (u : Bool) (s s' : Stream) (h : Loaded s) (hs : start u s = some s') :
    s'.relpath = s.relpath ∧ s'.offset = s.offset := by
  obtain ⟨_, _, _, _, _, f6, f7⟩ := flag_loaded u s h
  have := adv_relpath (flag u s) s' hs
  rw [f6, f7] at this; exact this

theorem starts_pendT (u : Bool) (ss : List Stream) (hl : ∀ s ∈ ss, Loaded s) :
    (ss.filterMap (start u)).flatMap pendT = ss.flatMap fun s => tagS s s.rest := by
  rw [filterMap_flatMap]
  induction ss with
  | nil => rfl
  | cons a l ih =>
    simp only [List.flatMap_cons]
    rw [start_pendT u a (hl a (by simp)), ih (fun x hx => hl x (List.mem_cons_of_mem _ hx))]

theorem starts_mu (u : Bool) (ss : List Stream) (hl : ∀ s ∈ ss, Loaded s) :
    mu (ss.filterMap (start u)) = totalEvents ss := by
  unfold mu totalEvents
  rw [filterMap_flatMap]
  induction ss with
  | nil => rfl
  | cons a l ih =>
    simp only [List.flatMap_cons, List.length_append, List.map_cons, List.sum_cons]
    rw [start_pendS u a (hl a (by simp)), ih (fun x hx => hl x (List.mem_cons_of_mem _ hx))]

theorem starts_pendR (u : Bool) (r : Str) (ss : List Stream) (hl : ∀ s ∈ ss, Loaded s) :
    pendR r (ss.filterMap (start u)) = (ss.filter fun s => s.relpath == r).flatMap (·.rest) := by
  unfold pendR
  induction ss with
  | nil => rfl
  | cons a l ih =>
    have iha := ih (fun x hx => hl x (List.mem_cons_of_mem _ hx))
    have hla := hl a (by simp)
    rw [List.filterMap_cons]
    cases hs : start u a with
    | none =>
      have h0 := start_pendS u a hla
      rw [hs] at h0
      simp only [Option.toList_none, List.flatMap_nil] at h0
      simp only [iha, List.filter_cons]
      split
      · simp [← h0]
      · rfl
    | some a' =>
      have h0 := start_pendS u a hla
      rw [hs] at h0
      simp only [Option.toList_some, List.flatMap_cons, List.flatMap_nil, List.append_nil] at h0
      have hr := (start_relpath u a a' hla hs).1
      simp only [List.filter_cons, hr]
      split
      · simp [h0, iha]
      · exact iha

theorem starts_relpaths_sublist (u : Bool) (ss : List Stream) (hl : ∀ s ∈ ss, Loaded s) :
    ((ss.filterMap (start u)).map (·.relpath)).Sublist (ss.map (·.relpath)) := by
  induction ss with
  | nil => exact List.Sublist.slnil
  | cons a l ih =>
    have iha := ih (fun x hx => hl x (List.mem_cons_of_mem _ hx))
    rw [List.filterMap_cons]
    cases hs : start u a with
    | none => exact List.Sublist.cons _ iha
    | some a' =>
      simp only [List.map_cons, (start_relpath u a a' (hl a (by simp)) hs).1]
      exact List.Sublist.cons_cons _ iha

/-- corrected clocks of the stream never decrease -/
def SortedRest (s : Stream) : Prop :=
  s.rest.Pairwise fun a b => a.clock + s.offset ≤ b.clock + s.offset

theorem start_sorted (u : Bool) (s s' : Stream) (h : Loaded s) (hs : SortedRest s)
    (hst : start u s = some s') : SortedS s' := by
  obtain ⟨_, _, _, _, f5, f6, _⟩ := flag_loaded u s h
  unfold start adv at hst
  unfold SortedRest at hs
  rw [f5] at hst
  cases hr : s.rest with
  | nil => rw [hr] at hst; cases hst
  | cons e r =>
    rw [hr] at hst hs
    simp only [Option.some.injEq] at hst
    rw [List.pairwise_cons] at hs
    rw [← hst]
    simp only [SortedS, f6]
    exact ⟨fun x hx => hs.1 x hx, hs.2⟩

theorem replay_cases (u : Bool) (ss : List Stream) (hl : ∀ s ∈ ss, Loaded s) :
    (replay u ss = none ∧ playerInit ss u = none) ∨
    (∃ p, playerInit ss u = some p ∧ replay u ss = run (totalEvents ss + 1) p ∧ Inv p ∧
      p.stream = none ∧ (live p).Perm (ss.filterMap (start u)) ∧ p.firstEvent = true ∧
      p.unsorted = u) := by
  unfold replay
  rcases playerInit_cases u ss hl with ⟨h1, _⟩ | ⟨p, h1, h2, h3, h4, h5, h6⟩
  · left; rw [h1]; exact ⟨rfl, rfl⟩
  · right
    rw [h1]
    refine ⟨p, rfl, rfl, h2, h3, ?_, h5, h6⟩
    unfold live; rw [h3]; exact h4

theorem replay_absRun (u : Bool) (ss : List Stream) (out : List Out) (hl : ∀ s ∈ ss, Loaded s)
    (h : replay u ss = some out) : AbsRun (ss.filterMap (start u)) out := by
  rcases replay_cases u ss hl with ⟨h1, _⟩ | ⟨p, _, h1, h2, _, h4, _, _⟩
  · rw [h1] at h; cases h
  · rw [h1] at h
    exact absRun_of_perm (run_absRun _ p out h2 h) h4.symm

/-! ### `trace_load`: sorting by relpath removes the enumeration order -/

theorem strLe_total : ∀ (a b : Str), (strLe a b || strLe b a) = true := by
  intro a
  induction a with
  | nil => intro b; simp [strLe]
  | cons x a ih =>
    intro b
    cases b with
    | nil => simp [strLe]
    | cons y b =>
      simp only [strLe]
      by_cases h1 : x < y
      · simp [h1]
      · by_cases h2 : y < x
        · simp [h1, h2]
        · simp only [h1, h2, if_false]; exact ih b

theorem strLe_trans : ∀ (a b c : Str), strLe a b = true → strLe b c = true → strLe a c = true := by
  intro a
  induction a with
  | nil => intro b c _ _; simp [strLe]
  | cons x a ih =>
    intro b c h1 h2
    cases b with
    | nil => simp [strLe] at h1
    | cons y b =>
      cases c with
      | nil => simp [strLe] at h2
      | cons z c =>
        simp only [strLe] at h1 h2 ⊢
        by_cases xy : x < y
        · by_cases yz : y < z
          · have : x < z := by omega
            simp [this]
          · by_cases zy : z < y
            · simp [yz, zy] at h2
            · have : x < z := by omega
              simp [this]
        · by_cases yx : y < x
          · simp [xy, yx] at h1
          · simp only [xy, yx, if_false] at h1
            have exy : x = y := by omega
            subst exy
            by_cases yz : x < z
            · simp [yz]
            · by_cases zy : z < x
              · simp [yz, zy] at h2
              · simp only [yz, zy, if_false] at h2 ⊢
                exact ih b c h1 h2

theorem strLe_antisymm : ∀ (a b : Str), strLe a b = true → strLe b a = true → a = b := by
  intro a
  induction a with
  | nil =>
    intro b _ h2
    cases b with
    | nil => rfl
    | cons _ _ => simp [strLe] at h2
  | cons x a ih =>
    intro b h1 h2
    cases b with
    | nil => simp [strLe] at h1
    | cons y b =>
      simp only [strLe] at h1 h2
      by_cases xy : x < y
      · have : ¬ y < x := by omega
        simp [xy, this] at h2
      · by_cases yx : y < x
        · simp [xy, yx] at h1
        · simp only [xy, yx, if_false] at h1 h2
          have exy : x = y := by omega
          rw [exy, ih b h1 h2]

theorem eq_of_nodup_map {β : Type} (f : β → Str) : ∀ (l : List β), (l.map f).Nodup →
    ∀ a b, a ∈ l → b ∈ l → f a = f b → a = b := by
  intro l
  induction l with
  | nil => intro _ a b ha; cases ha
  | cons x l ih =>
    intro hn a b ha hb hab
    rw [List.map_cons, List.nodup_cons] at hn
    rcases List.mem_cons.1 ha with ea | ha' <;> rcases List.mem_cons.1 hb with eb | hb'
    · rw [ea, eb]
    · exact absurd (by rw [← ea, hab]; exact List.mem_map_of_mem hb') hn.1
    · exact absurd (by rw [← eb, ← hab]; exact List.mem_map_of_mem ha') hn.1
    · exact ih hn.2 a b ha' hb' hab

theorem traceLoad_perm_eq (l1 l2 : List Raw) (hp : l1.Perm l2) (hn : (l1.map (·.relpath)).Nodup) :
    traceLoad l1 = traceLoad l2 := by
  unfold traceLoad
  have tr : ∀ (a b c : Raw), strLe a.relpath b.relpath = true → strLe b.relpath c.relpath = true →
      strLe a.relpath c.relpath = true := fun a b c => strLe_trans _ _ _
  have to : ∀ (a b : Raw), (strLe a.relpath b.relpath || strLe b.relpath a.relpath) = true :=
    fun a b => strLe_total _ _
  refine List.Perm.eq_of_pairwise (le := fun a b => strLe a.relpath b.relpath = true) ?_
    (List.pairwise_mergeSort tr to l1) (List.pairwise_mergeSort tr to l2) ?_
  · intro a b ha hb h1 h2
    have ha' : a ∈ l1 := List.mem_mergeSort.1 ha
    have hb' : b ∈ l1 := hp.symm.subset (List.mem_mergeSort.1 hb)
    exact eq_of_nodup_map (·.relpath) l1 hn a b ha' hb' (strLe_antisymm _ _ h1 h2)
  · exact (List.mergeSort_perm l1 _).trans (hp.trans (List.mergeSort_perm l2 _).symm)

/-! ### `init_offsets` -/

/-- a loaded stream with the offset of its loom -/
def mkStream (ls : List (Str × Int)) (r : Raw) : Stream :=
  { Stream.load r.relpath r.evs with offset := offOf ls r.loom }

/-- The guards of `stream_clkoff_set` are dead on freshly loaded streams. -/
theorem setOffsets_eq (ls : List (Str × Int)) : ∀ (rs : List Raw),
    setOffsets ls rs = some (rs.map (mkStream ls)) := by
  intro rs
  induction rs with
  | nil => rfl
  | cons r rs ih =>
    unfold setOffsets
    rw [ih]
    simp [Stream.clkoffSet, Stream.load, mkStream]

theorem mkStream_loaded (ls : List (Str × Int)) (r : Raw) : Loaded (mkStream ls r) :=
  ⟨rfl, rfl, rfl, rfl⟩

theorem load_loaded (rp : Str) (evs : List Ev) : Loaded (Stream.load rp evs) :=
  ⟨rfl, rfl, rfl, rfl⟩

end Ovni.Player
