import OvniModel.Lemmas.C18.Check

/-! C18 table obligation of model `tampi`: evaluated by the kernel on the
    regenerated `Generated.Tampi` (evlist, table, model character). -/
namespace Ovni.Emu.Dispatch

theorem modelOk_tampi : modelOk .tampi = true := by decide +kernel

end Ovni.Emu.Dispatch
