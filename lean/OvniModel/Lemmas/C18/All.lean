import OvniModel.Lemmas.C18.Ovni
import OvniModel.Lemmas.C18.Nanos6
import OvniModel.Lemmas.C18.Nosv
import OvniModel.Lemmas.C18.Nodes
import OvniModel.Lemmas.C18.Tampi
import OvniModel.Lemmas.C18.Mpi
import OvniModel.Lemmas.C18.Kernel
import OvniModel.Lemmas.C18.Openmp

/-! C18: the per-model table obligations together, and what they unfold to. -/
namespace Ovni.Emu.Dispatch
open Ovni.Emu.EvSpec

theorem modelOk_all (M : ModelId) : modelOk M = true := by
  cases M
  · exact modelOk_ovni
  · exact modelOk_nanos6
  · exact modelOk_nosv
  · exact modelOk_nodes
  · exact modelOk_tampi
  · exact modelOk_mpi
  · exact modelOk_kernel
  · exact modelOk_openmp

/-- what `modelOk` says, unfolded -/
theorem modelOk_unfold (M : ModelId) :
    ∃ ds, initResult M = .ok ds ∧ decls M = ds ∧
      catalogueOk M (ds.map (·.1.mcv)) = true ∧ declsOk ds = true := by
  have h := modelOk_all M
  unfold modelOk at h
  cases hr : initResult M with
  | error e => rw [hr] at h; cases h
  | ok ds =>
    rw [hr] at h
    simp only [Bool.and_eq_true] at h
    exact ⟨ds, rfl, by unfold decls; rw [hr], h.1, h.2⟩

/-! ### generic facts about `model_evspec_init` -/

theorem initLoop_acc_subset (ch : Nat) (l : List (Str × Str)) :
    ∀ (acc : List Decl) (i : Nat) (ds : List Decl), initLoop ch l acc i = .ok ds →
      ∀ d ∈ acc, d ∈ ds := by
  induction l with
  | nil =>
    intro acc i ds h d hd
    simp only [initLoop, Except.ok.injEq] at h
    subst h
    exact List.mem_reverse.mpr hd
  | cons p r ih =>
    intro acc i ds h d hd
    obtain ⟨sig, desc⟩ := p
    simp only [initLoop] at h
    split at h
    · cases h
    · rename_i s hs
      split at h
      · cases h
      · split at h
        · cases h
        · exact ih _ _ _ h d (List.mem_cons_of_mem _ hd)

theorem initLoop_mem (ch : Nat) (l : List (Str × Str)) :
    ∀ (acc : List Decl) (i : Nat) (ds : List Decl), initLoop ch l acc i = .ok ds →
      ∀ p ∈ l, ∃ s, compile p.1 = .ok s ∧ s.m = ch ∧ (s, p.2) ∈ ds := by
  induction l with
  | nil => intro acc i ds _ p hp; cases hp
  | cons q r ih =>
    intro acc i ds h p hp
    obtain ⟨sig, desc⟩ := q
    simp only [initLoop] at h
    split at h
    · cases h
    · rename_i s hs
      split at h
      · cases h
      · split at h
        · cases h
        · rename_i hdup hm
          rcases List.mem_cons.mp hp with rfl | hp'
          · refine ⟨s, hs, ?_, ?_⟩
            · simpa using hm
            · exact initLoop_acc_subset ch r _ _ _ h _ List.mem_cons_self
          · exact ih _ _ _ h p hp'

theorem initLoop_nodup (ch : Nat) (l : List (Str × Str)) :
    ∀ (acc : List Decl) (i : Nat) (ds : List Decl), initLoop ch l acc i = .ok ds →
      (acc.map (·.1.mcv)).Nodup → (ds.map (·.1.mcv)).Nodup := by
  induction l with
  | nil =>
    intro acc i ds h hn
    simp only [initLoop, Except.ok.injEq] at h
    subst h
    rw [List.map_reverse]
    rw [List.nodup_iff_pairwise_ne, List.pairwise_reverse]
    rw [List.nodup_iff_pairwise_ne] at hn
    exact hn.imp (fun h => Ne.symm h)
  | cons q r ih =>
    intro acc i ds h hn
    obtain ⟨sig, desc⟩ := q
    simp only [initLoop] at h
    split at h
    · cases h
    · rename_i s hs
      split at h
      · cases h
      · split at h
        · cases h
        · rename_i hdup hm
          apply ih _ _ _ h
          simp only [List.map_cons, List.nodup_cons]
          refine ⟨?_, hn⟩
          intro hmem
          apply hdup
          rw [List.any_eq_true]
          obtain ⟨d, hd, he⟩ := List.mem_map.mp hmem
          exact ⟨d, hd, by simp [he]⟩

end Ovni.Emu.Dispatch
