import OvniModel.Lemmas.C18.Check

/-! C18 table obligation of model `kernel`: evaluated by the kernel on the
    regenerated `Generated.Kernel` (evlist, table, model character). -/
namespace Ovni.Emu.Dispatch

theorem modelOk_kernel : modelOk .kernel = true := by decide +kernel

end Ovni.Emu.Dispatch
