import OvniModel.Lemmas.C18.Check

/-! C18 table obligation of model `mpi`: evaluated by the kernel on the
    regenerated `Generated.Mpi` (evlist, table, model character). -/
namespace Ovni.Emu.Dispatch

theorem modelOk_mpi : modelOk .mpi = true := by decide +kernel

end Ovni.Emu.Dispatch
