import OvniModel.Lemmas.C18.Check

/-! C18 table obligation of model `nodes`: evaluated by the kernel on the
    regenerated `Generated.Nodes` (evlist, table, model character). -/
namespace Ovni.Emu.Dispatch

theorem modelOk_nodes : modelOk .nodes = true := by decide +kernel

end Ovni.Emu.Dispatch
