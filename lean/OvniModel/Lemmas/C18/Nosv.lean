import OvniModel.Lemmas.C18.Check

/-! C18 table obligation of model `nosv`: evaluated by the kernel on the
    regenerated `Generated.Nosv` (evlist, table, model character). -/
namespace Ovni.Emu.Dispatch

theorem modelOk_nosv : modelOk .nosv = true := by decide +kernel

end Ovni.Emu.Dispatch
