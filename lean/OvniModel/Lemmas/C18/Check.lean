import OvniModel.Lemmas.Dispatch
import OvniModel.Lemmas.EvSpec

/-! The decidable per-model obligation of C18: everything that depends on the
    generated `evlist` / `table` of one model, as one Boolean so the kernel
    walks the strings once.  `Lemmas/C18/<Model>.lean` evaluate it (one module
    each, so lake checks the eight models in parallel). -/
namespace Ovni.Emu.Dispatch
open Ovni.Emu.EvSpec

/-- `ovnidump`'s output buffer (`char buf[1024]` in `emit`) -/
def OUTLEN : Nat := 1024

/-- The two key lists coincide: the finite keys of the dispatcher are the
    declared codes plus the legacy ones, the declared codes are accepted, and
    the wildcard categories are the enumerated ones. -/
def catalogueOk (M : ModelId) (mcvs : List (Nat × Nat × Nat)) : Bool :=
  let fk := (disp M).finiteKeys (tableKeys M.table)
  (disp M).wild == wildCats M &&
  fk.all (fun k => mcvs.contains (M.char, k.1, k.2) || (legacy M).contains k) &&
  mcvs.all (fun t => t.1 == M.char && ((wildCats M).contains t.2.1 || fk.contains (t.2.1, t.2.2))) &&
  (legacy M).all (fun k => fk.contains k)

def declsOk (ds : List Decl) : Bool :=
  ds.all (fun d => layoutOk d.1 && printable d.1 d.2 OUTLEN)

def modelOk (M : ModelId) : Bool :=
  match initResult M with
  | .error _ => false
  | .ok ds => catalogueOk M (ds.map (·.1.mcv)) && declsOk ds

end Ovni.Emu.Dispatch
