import OvniModel.Lemmas.C18.Check

/-! C18 table obligation of model `ovni`: evaluated by the kernel on the
    regenerated `Generated.Ovni` (evlist, table, model character). -/
namespace Ovni.Emu.Dispatch

theorem modelOk_ovni : modelOk .ovni = true := by decide +kernel

end Ovni.Emu.Dispatch
