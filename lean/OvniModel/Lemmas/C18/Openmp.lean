import OvniModel.Lemmas.C18.Check

/-! C18 table obligation of model `openmp`: evaluated by the kernel on the
    regenerated `Generated.Openmp` (evlist, table, model character). -/
namespace Ovni.Emu.Dispatch

theorem modelOk_openmp : modelOk .openmp = true := by decide +kernel

end Ovni.Emu.Dispatch
