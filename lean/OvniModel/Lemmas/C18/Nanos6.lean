import OvniModel.Lemmas.C18.Check

/-! C18 table obligation of model `nanos6`: evaluated by the kernel on the
    regenerated `Generated.Nanos6` (evlist, table, model character). -/
namespace Ovni.Emu.Dispatch

theorem modelOk_nanos6 : modelOk .nanos6 = true := by decide +kernel

end Ovni.Emu.Dispatch
