import OvniModel.Rt.Conc

/-! Helper lemmas for C11 (free to change): basics, safe (thread-level) steps,
    the non-interference (unwinding) lemmas, the stream part. -/
set_option linter.unusedSectionVars false
set_option linter.unusedSimpArgs false
set_option linter.unusedVariables false
namespace Ovni.Rt.Conc
open Ovni.Rt
variable {D : Type} [JData D]

@[simp] theorem upd_same {α : Type} (f : Nat → α) (i : Nat) (v : α) : upd f i v i = v := by
  simp [upd]

@[simp] theorem upd_other {α : Type} (f : Nat → α) {i j : Nat} (v : α) (h : j ≠ i) : upd f i v j = f j := by
  simp [upd, h]

theorem upd_apply {α : Type} (f : Nat → α) (i j : Nat) (v : α) : upd f i v j = if j = i then v else f j := rfl

theorem runSched_nil (fp : Foot) (cap : Nat) (c : Cfg D) : runSched fp cap c [] = c := rfl

theorem runSched_cons (fp : Foot) (cap : Nat) (c : Cfg D) (i : Nat) (σ : List Nat) :
    runSched fp cap c (i :: σ) = runSched fp cap (tick fp cap c i) σ := rfl

theorem runSched_append (fp : Foot) (cap : Nat) (c : Cfg D) (σ τ : List Nat) :
    runSched fp cap c (σ ++ τ) = runSched fp cap (runSched fp cap c σ) τ := by
  simp [runSched, List.foldl_append]

@[simp] theorem tick_g (fp : Foot) (cap : Nat) (c : Cfg D) (i : Nat) :
    (tick fp cap c i).g = (tickEff fp cap c.g (c.th i)).g := rfl

@[simp] theorem tick_th (fp : Foot) (cap : Nat) (c : Cfg D) (i : Nat) :
    (tick fp cap c i).th = upd c.th i (tickEff fp cap c.g (c.th i)).x := rfl

@[simp] theorem tick_fs (fp : Foot) (cap : Nat) (c : Cfg D) (i : Nat) :
    (tick fp cap c i).fs = c.fs.write (tickEff fp cap c.g (c.th i)).w := rfl

/-! ## Non-interference -/

/-- A step that writes nothing shared, and initialises only with the thread's own tid. -/
def StepSafe (τ : Nat) : Step D → Prop
  | .st (.load _) => True
  | .st _ => False
  | .procWrite _ _ => False
  | .loc (.initTid t) => t = τ
  | _ => True

/-- A thread-level call (not `ovni_proc_init`/`ovni_proc_fini`) that uses the thread's own tid. -/
def CallSafe (τ : Nat) : Call D → Prop
  | .procInit _ => False
  | .procFini => False
  | .threadInit t => t = τ
  | _ => True

def ThrSafe (τ : Nat) (x : Thr D) : Prop :=
  x.t.tid = τ ∧ (∀ s ∈ x.pend, StepSafe τ s) ∧ (∀ k ∈ x.calls, CallSafe τ k)

theorem opName_mem (op : Op D) : opName op ∈ threadFns := by
  cases op with
  | mark k _ _ =>
    unfold opName
    by_cases h1 : k = 91
    · simp [h1, threadFns]
    · by_cases h2 : k = 93
      · simp [h1, h2, threadFns]
      · simp [h1, h2, threadFns]
  | _ => simp [opName, threadFns]

theorem fnOK_of_mem {fp : Foot} (h : fp.threadOK = true) {f : String} (hf : f ∈ threadFns) : fp.fnOK f = true := by
  unfold Foot.threadOK at h
  exact List.all_eq_true.mp h f hf

theorem shared_safe {fp : Foot} {f : String} (h : fp.fnOK f = true) (τ : Nat) (src : Proc) :
    ∀ s ∈ (fp.shared f src : List (Step D)), StepSafe τ s := by
  unfold Foot.fnOK at h
  simp only [Bool.and_eq_true, List.all_eq_true, List.isEmpty_iff] at h
  obtain ⟨hops, hw⟩ := h
  intro s hs
  unfold Foot.shared at hs
  rw [hw] at hs
  simp only [List.map_nil, List.append_nil, List.mem_map] at hs
  obtain ⟨r, hr, rfl⟩ := hs
  have := hops r hr
  unfold isLoadRaw at this
  split at this
  · next e he => rw [he]; trivial
  · simp at this

theorem expand_safe {fp : Foot} (h : fp.threadOK = true) (τ : Nat) (t : TLoc D) (k : Call D)
    (hk : CallSafe τ k) : ∀ s ∈ expand fp t k, StepSafe τ s := by
  have ok : ∀ f, f ∈ threadFns → ∀ src, ∀ s ∈ (fp.shared f src : List (Step D)), StepSafe τ s :=
    fun f hf src => shared_safe (fnOK_of_mem h hf) τ src
  intro s hs
  cases k with
  | procInit a => exact absurd hk (by simp [CallSafe])
  | procFini => exact absurd hk (by simp [CallSafe])
  | threadInit tid =>
    have ht : tid = τ := hk
    simp only [expand] at hs
    split at hs
    · simp at hs
    · rcases List.mem_append.mp hs with h1 | h1
      · exact ok _ (by simp [threadFns]) _ s h1
      · simp only [List.mem_cons, List.not_mem_nil, or_false] at h1
        rcases h1 with rfl | rfl | rfl | rfl | rfl | rfl <;> simp [StepSafe, ht]
  | threadFree =>
    simp only [expand] at hs
    rcases List.mem_append.mp hs with h1 | h1
    · exact ok _ (by simp [threadFns]) _ s h1
    · simp only [List.mem_cons, List.not_mem_nil, or_false] at h1
      rcases h1 with rfl | rfl | rfl <;> simp [StepSafe]
  | stream op =>
    simp only [expand] at hs
    rcases List.mem_append.mp hs with h1 | h1
    · exact ok _ (opName_mem op) _ s h1
    · simp only [List.mem_cons, List.not_mem_nil, or_false] at h1
      rcases h1 with rfl | rfl <;> simp [StepSafe]
  | addCpu i ph =>
    simp only [expand] at hs
    rcases List.mem_append.mp hs with h1 | h1
    · exact ok _ (by simp [threadFns]) _ s h1
    · simp only [List.mem_cons, List.not_mem_nil, or_false] at h1
      rcases h1 with rfl; simp [StepSafe]
  | setRank r n =>
    simp only [expand] at hs
    rcases List.mem_append.mp hs with h1 | h1
    · exact ok _ (by simp [threadFns]) _ s h1
    · simp only [List.mem_cons, List.not_mem_nil, or_false] at h1
      rcases h1 with rfl; simp [StepSafe]
  | require m v =>
    simp only [expand] at hs
    rcases List.mem_append.mp hs with h1 | h1
    · exact ok _ (by simp [threadFns]) _ s h1
    · simp only [List.mem_cons, List.not_mem_nil, or_false] at h1
      rcases h1 with rfl; simp [StepSafe]
  | attrSet k v =>
    simp only [expand] at hs
    rcases List.mem_append.mp hs with h1 | h1
    · exact ok _ (by simp [threadFns]) _ s h1
    · simp only [List.mem_cons, List.not_mem_nil, or_false] at h1
      rcases h1 with rfl; simp [StepSafe]
  | attrFlush =>
    simp only [expand] at hs
    rcases List.mem_append.mp hs with h1 | h1
    · exact ok _ (by simp [threadFns]) _ s h1
    · simp only [List.mem_cons, List.not_mem_nil, or_false] at h1
      rcases h1 with rfl | rfl <;> simp [StepSafe]

/-- Thread-local operations keep the tid, except the initialisation which sets it. -/
theorem locRun_tid (cap : Nat) (p : Proc) (t t' : TLoc D) (f : LocOp D) (h : f.run cap p t = some t')
    (hn : ∀ tid, f ≠ .initTid tid) : t'.tid = t.tid := by
  cases f with
  | initTid tid => exact absurd rfl (hn tid)
  | buf op =>
    simp only [LocOp.run, Option.map_eq_some_iff] at h
    obtain ⟨s', _, rfl⟩ := h
    rfl
  | populate =>
    simp only [LocOp.run, Option.some.injEq] at h
    subst h; rfl
  | metaSet k v =>
    by_cases hf : t.s.finished = true <;> by_cases hr : t.s.ready = true <;>
      simp [LocOp.run, hf, hr] at h <;> (subst h; rfl)
  | cpu i ph =>
    by_cases hr : t.s.ready = true <;> simp [LocOp.run, hr] at h <;> (subst h; rfl)
  | rank r n =>
    by_cases hr : t.s.ready = true <;> simp [LocOp.run, hr] at h <;> (subst h; rfl)
  | guard =>
    by_cases hf : t.s.finished = true <;> by_cases hr : t.s.ready = true <;>
      simp [LocOp.run, hf, hr] at h <;> (subst h; rfl)
  | finiMeta =>
    by_cases hf : t.s.finished = true <;> by_cases hr : t.s.ready = true <;>
      simp [LocOp.run, hf, hr] at h <;> (subst h; rfl)

theorem locRun_initTid (cap : Nat) (p : Proc) (t t' : TLoc D) (tid : Nat)
    (h : (LocOp.initTid tid : LocOp D).run cap p t = some t') : t'.tid = tid := by
  by_cases h0 : tid = 0 <;> simp [LocOp.run, h0] at h <;> (subst h; rfl)

/-- A thread with nothing to do does nothing. -/
theorem tickEff_stopped (fp : Foot) (cap : Nat) (g : Glob) (x : Thr D) (hp : x.pend = []) (hc : x.calls = []) :
    tickEff fp cap g x = ⟨g, x, none⟩ := by
  unfold tickEff
  split
  · rfl
  · simp [hp, hc]

theorem tickEff_dead (fp : Foot) (cap : Nat) (g : Glob) (x : Thr D) (hd : x.dead = true) :
    tickEff fp cap g x = ⟨g, x, none⟩ := by
  simp [tickEff, hd]

theorem tickEff_step (fp : Foot) (cap : Nat) (g : Glob) (x : Thr D) (hd : x.dead = false)
    (s : Step D) (r : List (Step D)) (hp : x.pend = s :: r) :
    tickEff fp cap g x = stepEff cap g { x with pend := r } s := by
  simp [tickEff, hd, hp]

theorem tickEff_call (fp : Foot) (cap : Nat) (g : Glob) (x : Thr D) (hd : x.dead = false)
    (hp : x.pend = []) (k : Call D) (ks : List (Call D)) (hc : x.calls = k :: ks) :
    tickEff fp cap g x = ⟨g, { x with pend := expand fp x.t k, calls := ks }, none⟩ := by
  simp [tickEff, hd, hp, hc]

/-- A tick of a safe thread leaves the shared state alone, keeps the thread
    safe and writes only files named after its own tid. -/
theorem tickEff_safe {fp : Foot} (hfp : fp.threadOK = true) (cap : Nat) (g : Glob) (τ : Nat) (x : Thr D)
    (hx : ThrSafe τ x) :
    (tickEff fp cap g x).g = g ∧ ThrSafe τ (tickEff fp cap g x).x ∧
      ∀ w, (tickEff fp cap g x).w = some w → w.1 = τ := by
  obtain ⟨ht, hp, hc⟩ := hx
  cases hd : x.dead with
  | true =>
    rw [tickEff_dead fp cap g x hd]
    exact ⟨rfl, ⟨ht, hp, hc⟩, fun w e => by simp at e⟩
  | false =>
    cases p : x.pend with
    | nil =>
      cases k : x.calls with
      | nil =>
        rw [tickEff_stopped fp cap g x p k]
        exact ⟨rfl, ⟨ht, hp, hc⟩, fun w e => by simp at e⟩
      | cons k1 ks =>
        rw [tickEff_call fp cap g x hd p k1 ks k]
        refine ⟨rfl, ⟨ht, ?_, ?_⟩, fun w e => by simp at e⟩
        · exact expand_safe hfp τ x.t k1 (hc k1 (by simp [k]))
        · intro k' hk'; exact hc k' (by simp only [k]; exact List.mem_cons_of_mem _ hk')
    | cons s r =>
      rw [tickEff_step fp cap g x hd s r p]
      have hs : StepSafe τ s := hp s (by simp [p])
      have hr : ∀ s' ∈ r, StepSafe τ s' := fun s' h' => hp s' (by simp [p, h'])
      have base : ThrSafe τ ({ x with pend := r } : Thr D) := ⟨ht, hr, hc⟩
      cases s with
      | st op =>
        cases op with
        | load e =>
          cases e with
          | none =>
            simp only [stepEff]
            exact ⟨trivial, base, fun w e => by simp at e⟩
          | some v =>
            simp only [stepEff]
            split
            · exact ⟨rfl, base, fun w e => by simp at e⟩
            · exact ⟨rfl, ⟨ht, hr, hc⟩, fun w e => by simp at e⟩
        | store v => exact absurd hs (by simp [StepSafe])
        | cas a b => exact absurd hs (by simp [StepSafe])
        | unknown => exact absurd hs (by simp [StepSafe])
      | procWrite m src => exact absurd hs (by simp [StepSafe])
      | loc f =>
        simp only [stepEff]
        cases hrun : f.run cap g.proc x.t with
        | none => exact ⟨rfl, ⟨ht, hr, hc⟩, fun w e => by simp at e⟩
        | some t' =>
          refine ⟨rfl, ⟨?_, hr, hc⟩, fun w e => by simp at e⟩
          by_cases hi : ∃ tid, f = .initTid tid
          · obtain ⟨tid, rfl⟩ := hi
            have e1 : tid = τ := hs
            rw [← e1]; exact locRun_initTid cap g.proc x.t t' tid hrun
          · have := locRun_tid cap g.proc x.t t' f hrun (fun tid e => hi ⟨tid, e⟩)
            exact this.trans ht
      | fsObs =>
        simp only [stepEff]
        exact ⟨trivial, base, fun w e => by simp only [Option.some.injEq] at e; subst e; exact ht⟩
      | fsJson =>
        simp only [stepEff]
        exact ⟨trivial, base, fun w e => by simp only [Option.some.injEq] at e; subst e; exact ht⟩

/-- Safe steps never win a compare-exchange. -/
theorem tickEff_safe_wins (fp : Foot) (cap : Nat) (g : Glob) (τ : Nat) (x : Thr D)
    (hp : ∀ s ∈ x.pend, StepSafe τ s) : (tickEff fp cap g x).x.wins = x.wins := by
  cases hd : x.dead with
  | true => rw [tickEff_dead fp cap g x hd]
  | false =>
    cases p : x.pend with
    | nil =>
      cases k : x.calls with
      | nil => rw [tickEff_stopped fp cap g x p k]
      | cons k1 ks => rw [tickEff_call fp cap g x hd p k1 ks k]
    | cons s r =>
      rw [tickEff_step fp cap g x hd s r p]
      have hs : StepSafe τ s := hp s (by simp [p])
      cases s with
      | st op =>
        cases op with
        | load e =>
          cases e with
          | none => rfl
          | some v => simp only [stepEff]; split <;> rfl
        | store v => exact absurd hs (by simp [StepSafe])
        | cas a b => exact absurd hs (by simp [StepSafe])
        | unknown => exact absurd hs (by simp [StepSafe])
      | procWrite m src => exact absurd hs (by simp [StepSafe])
      | loc f =>
        simp only [stepEff]
        cases f.run cap g.proc x.t <;> rfl
      | fsObs => rfl
      | fsJson => rfl

/-- Every thread is safe w.r.t. its own tid. -/
def SafeCfg (tidOf : Nat → Nat) (c : Cfg D) : Prop := ∀ i, ThrSafe (tidOf i) (c.th i)

/-- What thread `i` can observe: the shared state, its own state, its own files. -/
def Agree (tidOf : Nat → Nat) (i : Nat) (c1 c2 : Cfg D) : Prop :=
  c1.g = c2.g ∧ c1.th i = c2.th i ∧ ∀ k, c1.fs (tidOf i) k = c2.fs (tidOf i) k

def OthersStopped (i : Nat) (c : Cfg D) : Prop := ∀ j, j ≠ i → (c.th j).pend = [] ∧ (c.th j).calls = []

theorem safeCfg_tick {fp : Foot} (hfp : fp.threadOK = true) (cap : Nat) (tidOf : Nat → Nat) (c : Cfg D)
    (h : SafeCfg tidOf c) (j : Nat) : SafeCfg tidOf (tick fp cap c j) := by
  intro i
  simp only [tick_th]
  by_cases e : i = j
  · subst e; simp only [upd_same]
    exact (tickEff_safe hfp cap c.g (tidOf i) (c.th i) (h i)).2.1
  · simp only [upd_other _ _ e]; exact h i

theorem fs_write_other (fs : FS D) (w : Option (Nat × FKind × File D)) (τ : Nat) (k : FKind)
    (h : ∀ w', w = some w' → w'.1 ≠ τ) : fs.write w τ k = fs τ k := by
  cases w with
  | none => rfl
  | some w' =>
    obtain ⟨t, k', f⟩ := w'
    have : t ≠ τ := h _ rfl
    simp only [FS.write]
    have : ¬ (τ = t ∧ k = k') := fun a => this a.1.symm
    simp [this]

theorem fs_write_congr (fs1 fs2 : FS D) (w : Option (Nat × FKind × File D)) (τ : Nat) (k : FKind)
    (h : fs1 τ k = fs2 τ k) : fs1.write w τ k = fs2.write w τ k := by
  cases w with
  | none => exact h
  | some w' =>
    obtain ⟨t, k', f⟩ := w'
    simp only [FS.write]
    split
    · rfl
    · exact h

/-- Unwinding: whatever the other threads do in `c1` (and nothing in `c2`),
    thread `i` sees the same in both. -/
theorem agree_run {fp : Foot} (hfp : fp.threadOK = true) (cap : Nat) (tidOf : Nat → Nat)
    (hinj : ∀ a b, tidOf a = tidOf b → a = b) (i : Nat) (σ : List Nat) :
    ∀ c1 c2 : Cfg D, SafeCfg tidOf c1 → SafeCfg tidOf c2 → OthersStopped i c2 → Agree tidOf i c1 c2 →
      Agree tidOf i (runSched fp cap c1 σ) (runSched fp cap c2 σ) ∧
      SafeCfg tidOf (runSched fp cap c1 σ) := by
  induction σ with
  | nil => intro c1 c2 s1 _ _ a; exact ⟨a, s1⟩
  | cons j σ ih =>
    intro c1 c2 s1 s2 st a
    rw [runSched_cons, runSched_cons]
    have s1' := safeCfg_tick hfp cap tidOf c1 s1 j
    have s2' := safeCfg_tick hfp cap tidOf c2 s2 j
    obtain ⟨ag, at_, af⟩ := a
    by_cases e : j = i
    · subst e
      have st' : OthersStopped j (tick fp cap c2 j) := by
        intro k hk
        simp only [tick_th, upd_other _ _ hk]
        exact st k hk
      refine ih _ _ s1' s2' st' ⟨?_, ?_, ?_⟩
      · simp only [tick_g, ag, at_]
      · simp only [tick_th, upd_same, ag, at_]
      · intro k
        simp only [tick_fs, ag, at_]
        exact fs_write_congr _ _ _ _ _ (af k)
    · have hstop := st j e
      have e2 := tickEff_stopped fp cap c2.g (c2.th j) hstop.1 hstop.2
      have hs := tickEff_safe hfp cap c1.g (tidOf j) (c1.th j) (s1 j)
      have st' : OthersStopped i (tick fp cap c2 j) := by
        intro k hk
        simp only [tick_th]
        by_cases ek : k = j
        · subst ek; simp only [upd_same, e2]; exact hstop
        · simp only [upd_other _ _ ek]; exact st k hk
      have hne : i ≠ j := fun h => e h.symm
      refine ih _ _ s1' s2' st' ⟨?_, ?_, ?_⟩
      · simp only [tick_g, e2, hs.1]; exact ag
      · simp only [tick_th, upd_other _ _ hne]; exact at_
      · intro k
        simp only [tick_fs, e2]
        rw [fs_write_other _ _ _ _ (fun w' hw' h' => e (hinj _ _ ((hs.2.2 w' hw').symm.trans h' |>.symm) |>.symm))]
        exact af k

theorem safeCfg_solo (tidOf : Nat → Nat) (c : Cfg D) (h : SafeCfg tidOf c) (i : Nat) : SafeCfg tidOf (solo c i) := by
  intro j
  simp only [solo]
  by_cases e : j = i
  · simp only [e, if_true]; exact h i
  · simp only [e, if_false]
    exact ⟨(h j).1, by simp, by simp⟩

theorem othersStopped_solo (c : Cfg D) (i : Nat) : OthersStopped i (solo c i) := by
  intro j hj; simp [solo, hj]

theorem agree_solo (tidOf : Nat → Nat) (c : Cfg D) (i : Nat) : Agree tidOf i c (solo c i) := by
  refine ⟨rfl, ?_, fun _ => rfl⟩
  simp [solo]

theorem g_run {fp : Foot} (hfp : fp.threadOK = true) (cap : Nat) (tidOf : Nat → Nat) (σ : List Nat) :
    ∀ c : Cfg D, SafeCfg tidOf c → (runSched fp cap c σ).g = c.g := by
  induction σ with
  | nil => intro c _; rfl
  | cons j σ ih =>
    intro c h
    rw [runSched_cons, ih _ (safeCfg_tick hfp cap tidOf c h j), tick_g]
    exact (tickEff_safe hfp cap c.g (tidOf j) (c.th j) (h j)).1

/-- A stopped thread's tick changes nothing at all. -/
theorem tick_stopped (fp : Foot) (cap : Nat) (c : Cfg D) (j : Nat)
    (hp : (c.th j).pend = []) (hc : (c.th j).calls = []) : tick fp cap c j = c := by
  unfold tick
  rw [tickEff_stopped fp cap c.g (c.th j) hp hc]
  cases c with
  | mk g fs th =>
    simp only [FS.write]
    congr
    funext k
    by_cases e : k = j
    · subst e; simp
    · simp [e]

/-- Alone, only the thread's own ticks matter. -/
theorem run_filter (fp : Foot) (cap : Nat) (i : Nat) (σ : List Nat) :
    ∀ c : Cfg D, OthersStopped i c →
      runSched fp cap c σ = runSched fp cap c (σ.filter (· = i)) := by
  induction σ with
  | nil => intro c _; rfl
  | cons j σ ih =>
    intro c st
    by_cases e : j = i
    · subst e
      have st' : OthersStopped j (tick fp cap c j) := by
        intro k hk
        simp only [tick_th, upd_other _ _ hk]
        exact st k hk
      simp only [List.filter_cons, decide_true, if_true, runSched_cons]
      exact ih _ st'
    · have := st j e
      simp only [List.filter_cons, e, decide_false, runSched_cons, tick_stopped fp cap c j this.1 this.2]
      simpa using ih c st

/-! ## The stream part of a thread only moves by `Rt.step` -/

theorem run_append (cap : Nat) (l1 l2 : List (Op D)) (s : St D) :
    run cap s (l1 ++ l2) = (match run cap s l1 with | none => none | some s1 => run cap s1 l2) := by
  induction l1 generalizing s with
  | nil => rfl
  | cons o l ih =>
    simp only [List.cons_append, run]
    cases step cap s o with
    | none => rfl
    | some s1 => exact ih s1

theorem locRun_stream (cap : Nat) (p : Proc) (t t' : TLoc D) (f : LocOp D) (h : f.run cap p t = some t') :
    ∃ ops : List (Op D), ops.length ≤ 1 ∧ run cap t.s ops = some t'.s := by
  cases f with
  | initTid tid =>
    by_cases h0 : tid = 0 <;> simp [LocOp.run, h0] at h
    subst h; exact ⟨[], by simp, rfl⟩
  | buf op =>
    simp only [LocOp.run, Option.map_eq_some_iff] at h
    obtain ⟨s', hs, rfl⟩ := h
    exact ⟨[op], by simp, by simp [run, hs]⟩
  | populate =>
    simp only [LocOp.run, Option.some.injEq] at h
    subst h; exact ⟨[], by simp, rfl⟩
  | metaSet k v =>
    by_cases hf : t.s.finished = true <;> by_cases hr : t.s.ready = true <;>
      simp [LocOp.run, hf, hr] at h
    subst h; exact ⟨[], by simp, rfl⟩
  | cpu i ph =>
    by_cases hr : t.s.ready = true <;> simp [LocOp.run, hr] at h
    subst h; exact ⟨[], by simp, rfl⟩
  | rank r n =>
    by_cases hr : t.s.ready = true <;> simp [LocOp.run, hr] at h
    subst h; exact ⟨[], by simp, rfl⟩
  | guard =>
    by_cases hf : t.s.finished = true <;> by_cases hr : t.s.ready = true <;>
      simp [LocOp.run, hf, hr] at h
    subst h; exact ⟨[], by simp, rfl⟩
  | finiMeta =>
    by_cases hf : t.s.finished = true <;> by_cases hr : t.s.ready = true <;>
      simp [LocOp.run, hf, hr] at h
    subst h; exact ⟨[], by simp, rfl⟩

theorem tickEff_stream (fp : Foot) (cap : Nat) (g : Glob) (x : Thr D) :
    ∃ ops : List (Op D), run cap x.t.s ops = some (tickEff fp cap g x).x.t.s := by
  cases hd : x.dead with
  | true => rw [tickEff_dead fp cap g x hd]; exact ⟨[], rfl⟩
  | false =>
    cases p : x.pend with
    | nil =>
      cases k : x.calls with
      | nil => rw [tickEff_stopped fp cap g x p k]; exact ⟨[], rfl⟩
      | cons k1 ks => rw [tickEff_call fp cap g x hd p k1 ks k]; exact ⟨[], rfl⟩
    | cons s r =>
      rw [tickEff_step fp cap g x hd s r p]
      cases s with
      | st op =>
        cases op with
        | load e =>
          cases e with
          | none => exact ⟨[], rfl⟩
          | some v => simp only [stepEff]; split <;> exact ⟨[], rfl⟩
        | store v => exact ⟨[], rfl⟩
        | cas a b => simp only [stepEff]; split <;> exact ⟨[], rfl⟩
        | unknown => exact ⟨[], rfl⟩
      | procWrite m src => exact ⟨[], rfl⟩
      | loc f =>
        simp only [stepEff]
        cases hrun : f.run cap g.proc x.t with
        | none => exact ⟨[], rfl⟩
        | some t' =>
          obtain ⟨ops, _, h⟩ := locRun_stream cap g.proc x.t t' f hrun
          exact ⟨ops, h⟩
      | fsObs => exact ⟨[], rfl⟩
      | fsJson => exact ⟨[], rfl⟩

theorem stream_run (fp : Foot) (cap : Nat) (i : Nat) (σ : List Nat) :
    ∀ c : Cfg D, ∃ ops : List (Op D), run cap (c.th i).t.s ops = some ((runSched fp cap c σ).th i).t.s := by
  induction σ with
  | nil => intro c; exact ⟨[], rfl⟩
  | cons j σ ih =>
    intro c
    rw [runSched_cons]
    obtain ⟨ops2, h2⟩ := ih (tick fp cap c j)
    by_cases e : i = j
    · subst e
      obtain ⟨ops1, h1⟩ := tickEff_stream fp cap c.g (c.th i)
      refine ⟨ops1 ++ ops2, ?_⟩
      rw [run_append, h1]
      simpa using h2
    · refine ⟨ops2, ?_⟩
      simpa [upd_other _ _ e] using h2

end Ovni.Rt.Conc
