import OvniModel.Lemmas.CoreBayHandlers
import OvniModel.Lemmas.TaskHook
import OvniModel.Emu.MarkEmu

/-
  C06 (emit side): the SYSTEM channels (thread `cpu` / `tid` / state, CPU `pid`
  / `tid` / `nrunning`).  They are single channels without ALLOW_DUP and
  DIRTY_WRITE, written only by `chan_set`; so a handler can dirty each of them at
  most once per event, and only with a value different from `last_value`
  (`SysOk`); `last_value` itself only moves at the flush (`ChS`).  Structural
  induction over the handlers, parallel to `Sim.modelEvent`.
-/
set_option linter.unusedSimpArgs false
namespace Ovni.Emu
open Ovni.Generated

/-- a system channel: single, no ALLOW_DUP, no DIRTY_WRITE; when dirty it holds a
    value different from `last_value` -/
def SysOk (c : Chan) : Prop :=
  c.isStack = false ∧ c.allowDup = false ∧ c.dirtyWrite = false ∧ (c.dirty = true → c.cur ≠ c.last)

/-- one or more successful `chan_set`s took `c` to `c'` -/
def ChS (c c' : Chan) : Prop := (SysOk c → SysOk c') ∧ c'.last = c.last ∧ (c'.dirty = false → c' = c)

theorem ChS.refl (c : Chan) : ChS c c := ⟨id, rfl, fun _ => rfl⟩
theorem ChS.trans {a b c : Chan} (h1 : ChS a b) (h2 : ChS b c) : ChS a c :=
  ⟨fun h => h2.1 (h1.1 h), h2.2.1.trans h1.2.1, fun hd => by
    have e1 := h2.2.2 hd
    rw [e1] at hd ⊢
    exact h1.2.2 hd⟩

theorem Chan.set_sys {c c' : Chan} {v : Value} (h : c.set v = .ok c') : ChS c c' := by
  unfold Chan.set at h
  by_cases h1 : c.isStack = true
  · simp only [h1, if_true] at h; cases h
  · simp only [h1, Bool.false_eq_true, if_false] at h
    by_cases h2 : (c.dirty && !c.dirtyWrite) = true
    · simp only [h2, if_true] at h; cases h
    · simp only [h2, Bool.false_eq_true, if_false] at h
      by_cases h3 : (!c.allowDup && decide (c.last = v)) = true
      · simp only [h3, if_true] at h
        split at h
        · cases h; exact ChS.refl _
        · cases h
      · simp only [h3, Bool.false_eq_true, if_false] at h
        cases h
        refine ⟨fun ⟨s1, s2, s3, _⟩ => ⟨by first | rfl | exact s1, s2, s3, fun _ => ?_⟩, rfl,
          fun hd => by cases hd⟩
        have hne : c.last ≠ v := by
          intro e; apply h3; simp [s2, e]
        cases v with
        | null => exact fun e => hne (by simpa [Chan.cur] using e.symm)
        | int i => exact fun e => hne (by simpa [Chan.cur] using e.symm)

/-- the system channels of a thread / CPU evolve by `chan_set` only -/
def ThSys (t t' : Thread) : Prop :=
  t'.gindex = t.gindex ∧ ChS t.chCpu t'.chCpu ∧ ChS t.chTid t'.chTid ∧ ChS t.chState t'.chState

def CpuSys (c c' : Cpu) : Prop :=
  c'.gindex = c.gindex ∧ ChS c.chPid c'.chPid ∧ ChS c.chTid c'.chTid ∧ ChS c.chNrun c'.chNrun

theorem ThSys.refl (t : Thread) : ThSys t t := ⟨rfl, ChS.refl _, ChS.refl _, ChS.refl _⟩
theorem ThSys.trans {a b c : Thread} (h1 : ThSys a b) (h2 : ThSys b c) : ThSys a c :=
  ⟨h2.1.trans h1.1, h1.2.1.trans h2.2.1, h1.2.2.1.trans h2.2.2.1, h1.2.2.2.trans h2.2.2.2⟩
theorem CpuSys.refl (c : Cpu) : CpuSys c c := ⟨rfl, ChS.refl _, ChS.refl _, ChS.refl _⟩
theorem CpuSys.trans {a b c : Cpu} (h1 : CpuSys a b) (h2 : CpuSys b c) : CpuSys a c :=
  ⟨h2.1.trans h1.1, h1.2.1.trans h2.2.1, h1.2.2.1.trans h2.2.2.1, h1.2.2.2.trans h2.2.2.2⟩

/-- position by position, the system channels of `e'` come from those of `e` by `chan_set`s -/
def SysRel (e e' : Emu) : Prop :=
  e'.threads.length = e.threads.length ∧ e'.cpus.length = e.cpus.length ∧
  (∀ (g : Nat) (t t' : Thread), e.threads[g]? = some t → e'.threads[g]? = some t' → ThSys t t') ∧
  (∀ (c : Nat) (x x' : Cpu), e.cpus[c]? = some x → e'.cpus[c]? = some x' → CpuSys x x')

theorem SysRel.refl (e : Emu) : SysRel e e :=
  ⟨rfl, rfl, fun _ t t' h h' => by rw [h] at h'; cases h'; exact ThSys.refl _,
    fun _ x x' h h' => by rw [h] at h'; cases h'; exact CpuSys.refl _⟩

theorem SysRel.trans {a b c : Emu} (h1 : SysRel a b) (h2 : SysRel b c) : SysRel a c := by
  obtain ⟨l1, m1, t1, c1⟩ := h1
  obtain ⟨l2, m2, t2, c2⟩ := h2
  refine ⟨l2.trans l1, m2.trans m1, ?_, ?_⟩
  · intro g t t' ht ht'
    have hg : g < b.threads.length := by rw [l1]; exact (List.getElem?_eq_some_iff.mp ht).1
    have hb : b.threads[g]? = some b.threads[g] := List.getElem?_eq_getElem hg
    exact (t1 g t _ ht hb).trans (t2 g _ t' hb ht')
  · intro g x x' hx hx'
    have hg : g < b.cpus.length := by rw [m1]; exact (List.getElem?_eq_some_iff.mp hx).1
    have hb : b.cpus[g]? = some b.cpus[g] := List.getElem?_eq_getElem hg
    exact (c1 g x _ hx hb).trans (c2 g _ x' hb hx')

theorem SysRel.setThread {e : Emu} {ti : Nat} {t t' : Thread} (ht : e.threads[ti]? = some t)
    (hg : t'.gindex = ti) (h : ThSys t t') : SysRel e (e.setThread t') := by
  have hthr : (e.setThread t').threads = e.threads.set ti t' := by simp [Emu.setThread, hg]
  refine ⟨by rw [hthr, List.length_set], rfl, ?_, ?_⟩
  · intro g u u' hu hu'
    rw [hthr] at hu'
    rcases getElem?_set_some hu' with ⟨rfl, rfl⟩ | ⟨_, h'⟩
    · rw [ht] at hu; cases hu; exact h
    · rw [hu] at h'; cases h'; exact ThSys.refl _
  · intro c x x' hx hx'
    have : (e.setThread t').cpus = e.cpus := rfl
    rw [this, hx] at hx'; cases hx'; exact CpuSys.refl _

theorem SysRel.setCpu {e : Emu} {ci : Nat} {c c' : Cpu} (hc : e.cpus[ci]? = some c)
    (hg : c'.gindex = ci) (h : CpuSys c c') : SysRel e (e.setCpu c') := by
  have hcp : (e.setCpu c').cpus = e.cpus.set ci c' := by simp [Emu.setCpu, hg]
  refine ⟨rfl, by rw [hcp, List.length_set], ?_, ?_⟩
  · intro g u u' hu hu'
    have : (e.setCpu c').threads = e.threads := rfl
    rw [this, hu] at hu'; cases hu'; exact ThSys.refl _
  · intro g x x' hx hx'
    rw [hcp] at hx'
    rcases getElem?_set_some hx' with ⟨rfl, rfl⟩ | ⟨_, h'⟩
    · rw [hc] at hx; cases hx; exact h
    · rw [hx] at h'; cases h'; exact CpuSys.refl _

/-! ### thread.c / cpu.c -/

theorem Thread.setState_sys {t t' : Thread} {st : ThState} (h : t.setState st = .ok t') : ThSys t t' := by
  unfold Thread.setState at h
  simp only [bind, Except.bind, pure, Except.pure] at h
  split at h
  · cases h
  · split at h
    · cases h
    · rename_i cs hcs
      split at h
      · cases h
      · rename_i ct hct
        cases h
        exact ⟨rfl, ChS.refl _, Chan.set_sys hct, Chan.set_sys hcs⟩

theorem Thread.setCpu_sys {t t' : Thread} {ci : Nat} (h : t.setCpu ci = .ok t') : ThSys t t' := by
  unfold Thread.setCpu at h
  simp only [bind, Except.bind, pure, Except.pure] at h
  split at h
  · cases h
  · split at h
    · cases h
    · rename_i c hc
      cases h
      exact ⟨rfl, Chan.set_sys hc, ChS.refl _, ChS.refl _⟩

theorem Thread.unsetCpu_sys {t t' : Thread} (h : t.unsetCpu = .ok t') : ThSys t t' := by
  unfold Thread.unsetCpu at h
  simp only [bind, Except.bind, pure, Except.pure] at h
  split at h
  · cases h
  · split at h
    · cases h
    · rename_i c hc
      cases h
      exact ⟨rfl, Chan.set_sys hc, ChS.refl _, ChS.refl _⟩

theorem Thread.migrateCpu_sys {t t' : Thread} {ci : Nat} (h : t.migrateCpu ci = .ok t') : ThSys t t' := by
  unfold Thread.migrateCpu at h
  simp only [bind, Except.bind, pure, Except.pure] at h
  split at h
  · cases h
  · split at h
    · cases h
    · rename_i c hc
      cases h
      exact ⟨rfl, Chan.set_sys hc, ChS.refl _, ChS.refl _⟩

theorem cpuUpdate_sys {ths : List Thread} {c c' : Cpu} (h : cpuUpdate ths c = .ok c') : CpuSys c c' := by
  unfold cpuUpdate at h
  simp only [bind, Except.bind, pure, Except.pure] at h
  generalize List.filter (fun t => decide (t.state = ThState.running))
    (List.filterMap (fun g => ths[g]?) c.threads) = r at h
  split at h
  · simp [throw, throwThe, MonadExceptOf.throw] at h
  · split at h
    · cases h
    · rename_i v1 hv1
      split at h
      · cases h
      · rename_i v2 hv2
        split at h
        · cases h
        · split at h
          · cases h
          · rename_i v4 hv4
            split at h
            · cases h
            · cases h
              exact ⟨rfl, Chan.set_sys hv2, Chan.set_sys hv1, Chan.set_sys hv4⟩

/-! ### the handlers -/

/-- a handler respects the system channels -/
def SysS (e e' : Emu) : Prop := Shaped e → SysRel e e'

theorem SysS.refl (e : Emu) : SysS e e := fun _ => SysRel.refl e

theorem SysS.trans {P : Src → Prop} {e e1 e2 : Emu} (h1 : SysS e e1) (s1 : SimP P e e1) (h2 : SysS e1 e2) :
    SysS e e2 := fun hs => (h1 hs).trans (h2 (s1 hs).1)

theorem SysS.cpuUpdate {e : Emu} {ci : Nat} {c c0 c' : Cpu} (hc : e.cpus[ci]? = some c)
    (hg0 : c0.gindex = c.gindex) (h0 : c0.chPid = c.chPid ∧ c0.chTid = c.chTid ∧ c0.chNrun = c.chNrun)
    (hu : cpuUpdate e.threads c0 = .ok c') : SysS e (e.setCpu c') := by
  intro hs
  obtain ⟨g1, g2, g3, g4⟩ := cpuUpdate_sys hu
  rw [h0.1] at g2; rw [h0.2.1] at g3; rw [h0.2.2] at g4
  exact SysRel.setCpu hc ((g1.trans hg0).trans (hs.cpuIdx ci c hc)) ⟨g1.trans hg0, g2, g3, g4⟩

theorem SysS.cpuAddThread {e e' : Emu} {ci ti : Nat} (h : cpuAddThread e ci ti = .ok e') : SysS e e' := by
  unfold Ovni.Emu.cpuAddThread at h
  cases hc : e.cpus[ci]? with
  | none => simp [hc] at h
  | some c =>
    simp only [hc] at h
    by_cases hin : c.threads.contains ti = true
    · simp only [hin, if_true] at h; cases h
    · simp only [hin] at h
      cases hu : Ovni.Emu.cpuUpdate e.threads { c with threads := c.threads ++ [ti] } with
      | error err => simp only [hu] at h; cases h
      | ok c' =>
        simp only [hu] at h
        have : e.setCpu c' = e' := by injection h
        rw [← this]
        exact SysS.cpuUpdate (c0 := { c with threads := c.threads ++ [ti] }) hc rfl ⟨rfl, rfl, rfl⟩ hu

theorem SysS.cpuRemoveThread {e e' : Emu} {ci ti : Nat} (h : cpuRemoveThread e ci ti = .ok e') : SysS e e' := by
  unfold Ovni.Emu.cpuRemoveThread at h
  cases hc : e.cpus[ci]? with
  | none => simp [hc] at h
  | some c =>
    simp only [hc] at h
    by_cases hin : (!c.threads.contains ti) = true
    · simp only [hin, if_true] at h; cases h
    · simp only [hin] at h
      cases hu : Ovni.Emu.cpuUpdate e.threads { c with threads := c.threads.erase ti } with
      | error err => simp only [hu] at h; cases h
      | ok c' =>
        simp only [hu] at h
        have : e.setCpu c' = e' := by injection h
        rw [← this]
        exact SysS.cpuUpdate (c0 := { c with threads := c.threads.erase ti }) hc rfl ⟨rfl, rfl, rfl⟩ hu

theorem SysS.cpuRefresh {e e' : Emu} {ci : Nat} (h : cpuRefresh e ci = .ok e') : SysS e e' := by
  unfold Ovni.Emu.cpuRefresh at h
  cases hc : e.cpus[ci]? with
  | none => simp [hc] at h
  | some c =>
    simp only [hc] at h
    cases hu : Ovni.Emu.cpuUpdate e.threads c with
    | error err => simp only [hu] at h; cases h
    | ok c' =>
      simp only [hu] at h
      have : e.setCpu c' = e' := by injection h
      rw [← this]
      exact SysS.cpuUpdate (c0 := c) hc rfl ⟨rfl, rfl, rfl⟩ hu

theorem SysS.setThread {e : Emu} {ti : Nat} {t t' : Thread} (ht : e.threads[ti]? = some t) (h : ThSys t t') :
    SysS e (e.setThread t') :=
  fun hs => SysRel.setThread ht (h.1.trans (hs.thIdx ti t ht)) h

theorem SysS.preThreadExecute {e e' : Emu} {ti : Nat} {p : List Nat} (h : preThreadExecute e ti p = .ok e') :
    SysS e e' := by
  unfold Ovni.Emu.preThreadExecute at h
  cases ht : e.threads[ti]? with
  | none => simp [ht] at h
  | some t =>
    simp only [ht] at h
    simp only [bind, Except.bind, pure, Except.pure, throw, throwThe, MonadExceptOf.throw] at h
    repeat' split at h
    all_goals first | (cases h; done) | skip
    rename_i ci _ t1 h1 _ t2 h2
    obtain ⟨a1, a2, a3, _, _⟩ := Thread.setCpu_spec h1
    obtain ⟨b1, b2, b3, _, b5⟩ := Thread.setState_spec h2
    have s1 : SimP Src.isSys e (e.setThread t2) :=
      SimP.setThread trivial ht (b1.trans a1) (b2.trans a2) (chanOp_set _) (a3 ▸ b3)
        (fun hi => Or.inl (by rw [b5]; exact Chan.set_cur_noign hi (a3 ▸ b3)))
    exact (SysS.setThread ht ((Thread.setCpu_sys h1).trans (Thread.setState_sys h2))).trans s1
      (SysS.cpuAddThread h)

theorem SysS.preThreadEnd {e e' : Emu} {ti : Nat} (h : preThreadEnd e ti = .ok e') : SysS e e' := by
  unfold Ovni.Emu.preThreadEnd at h
  cases ht : e.threads[ti]? with
  | none => simp [ht] at h
  | some t =>
    simp only [ht] at h
    simp only [bind, Except.bind, pure, Except.pure, throw, throwThe, MonadExceptOf.throw] at h
    repeat' split at h
    all_goals first | (cases h; done) | skip
    rename_i _ t1 h1 _ ci hci _ e1 hrm _ t2 h2
    injection h with h; subst h
    intro hs
    obtain ⟨a1, a2, a3, _, a5⟩ := Thread.setState_spec h1
    have hti : t1.gindex = ti := a1.trans (hs.thIdx ti t ht)
    have hlt : ti < e.threads.length := (List.getElem?_eq_some_iff.mp ht).1
    have ht1 : e1.threads[ti]? = some t1 := by
      rw [cpuRemoveThread_threads hrm]
      simp only [Emu.setThread, hti, List.getElem?_set_self hlt]
    have s1 : SimP Src.isSys e (e.setThread t1) :=
      SimP.setThread trivial ht a1 a2 (chanOp_set _) a3
        (fun hi => Or.inl (by rw [a5]; exact Chan.set_cur_noign hi a3))
    have s2 : SimP Src.isSys (e.setThread t1) e1 := SimP.cpuRemoveThread hrm
    exact (((SysS.setThread ht (Thread.setState_sys h1)).trans s1 (SysS.cpuRemoveThread hrm)).trans
      (s1.trans s2) (SysS.setThread ht1 (Thread.unsetCpu_sys h2))) hs

theorem SysS.preThreadChange {e e' : Emu} {ti : Nat} {ok : ThState → Bool} {st : ThState}
    (h : preThreadChange e ti ok st = .ok e') : SysS e e' := by
  unfold Ovni.Emu.preThreadChange at h
  cases ht : e.threads[ti]? with
  | none => simp [ht] at h
  | some t =>
    simp only [ht] at h
    simp only [bind, Except.bind, pure, Except.pure, throw, throwThe, MonadExceptOf.throw] at h
    repeat' split at h
    all_goals first | (cases h; done) | skip
    rename_i _ t1 h1 _ ci hci
    obtain ⟨a1, a2, a3, _, a5⟩ := Thread.setState_spec h1
    have s1 : SimP Src.isSys e (e.setThread t1) :=
      SimP.setThread trivial ht a1 a2 (chanOp_set _) a3
        (fun hi => Or.inl (by rw [a5]; exact Chan.set_cur_noign hi a3))
    exact (SysS.setThread ht (Thread.setState_sys h1)).trans s1 (SysS.cpuRefresh h)

theorem SysS.preThread {e e' : Emu} {ti v : Nat} {p : List Nat} (h : preThread e ti v p = .ok e') :
    SysS e e' := by
  unfold Ovni.Emu.preThread at h
  repeat' split at h
  · injection h with h; subst h; exact SysS.refl _
  · exact SysS.preThreadExecute h
  · exact SysS.preThreadEnd h
  · exact SysS.preThreadChange h
  · exact SysS.preThreadChange h
  · exact SysS.preThreadChange h
  · exact SysS.preThreadChange h
  · cases h

theorem SysS.migrate {e e' : Emu} {ti fr to : Nat} (h : migrate e ti fr to = .ok e') : SysS e e' := by
  unfold Ovni.Emu.migrate at h
  simp only [bind, Except.bind, pure, Except.pure, throw, throwThe, MonadExceptOf.throw] at h
  repeat' split at h
  all_goals first | (cases h; done) | skip
  rename_i _ e1 hrm _ e2 hadd _ t ht _ t1 h1
  injection h with h; subst h
  have s1 : SimP Src.isSys e e1 := SimP.cpuRemoveThread hrm
  have s2 : SimP Src.isSys e1 e2 := SimP.cpuAddThread hadd
  exact ((SysS.cpuRemoveThread hrm).trans s1 (SysS.cpuAddThread hadd)).trans (s1.trans s2)
    (SysS.setThread ht (Thread.migrateCpu_sys h1))

theorem SysS.preAffinitySet {e e' : Emu} {ti : Nat} {p : List Nat} (h : preAffinitySet e ti p = .ok e') :
    SysS e e' := by
  unfold Ovni.Emu.preAffinitySet at h
  simp only [bind, Except.bind, pure, Except.pure, throw, throwThe, MonadExceptOf.throw] at h
  repeat' split at h
  all_goals first | (cases h; done) | skip
  · injection h with h; subst h; exact SysS.refl _
  · exact SysS.migrate h

theorem SysS.preAffinityRemote {e e' : Emu} {ti : Nat} {p : List Nat} (h : preAffinityRemote e ti p = .ok e') :
    SysS e e' := by
  unfold Ovni.Emu.preAffinityRemote at h
  simp only [bind, Except.bind, pure, Except.pure, throw, throwThe, MonadExceptOf.throw] at h
  repeat' split at h
  all_goals first | (cases h; done) | skip
  exact SysS.migrate h

theorem SysS.withChan {e e' : Emu} {ti m i : Nat} {f : Chan → Except Err Chan}
    (h : Ovni.Emu.withChan e ti m i f = .ok e') : SysS e e' := by
  unfold Ovni.Emu.withChan at h
  simp only [bind, Except.bind, pure, Except.pure, throw, throwThe, MonadExceptOf.throw] at h
  repeat' split at h
  all_goals first | (cases h; done) | skip
  rename_i _ t ht _ cs hcs _ c hc _ c' hfc
  injection h with h; subst h
  exact SysS.setThread ht ⟨rfl, ChS.refl _, ChS.refl _, ChS.refl _⟩

theorem SysS.preFlush {e e' : Emu} {ti v : Nat} (h : preFlush e ti v = .ok e') : SysS e e' := by
  unfold Ovni.Emu.preFlush at h
  repeat' split at h
  · exact SysS.withChan h
  · exact SysS.withChan h
  · cases h

/-- what the system-row theorem needs from a hook of `modelEvent` -/
def HookSys (hook : Emu → Nat → Nat → Nat → List Nat → Except Err Emu) : Prop :=
  ∀ (e : Emu) (ti a b : Nat) (p : List Nat) (e' : Emu), hook e ti a b p = .ok e' → SysS e e'

theorem SysS.ovniEvent {e e' : Emu} {ti c v : Nat} {p : List Nat}
    {mh : Emu → Nat → Nat → List Nat → Except Err Emu}
    (hmh : ∀ e ti v p e', mh e ti v p = .ok e' → SysS e e')
    (h : ovniEvent e ti c v p mh = .ok e') : SysS e e' := by
  unfold Ovni.Emu.ovniEvent at h
  simp only [bind, Except.bind, pure, Except.pure, throw, throwThe, MonadExceptOf.throw] at h
  repeat' split at h
  all_goals first | (cases h; done) | skip
  all_goals first
    | exact SysS.preThread h
    | exact SysS.preAffinitySet h
    | exact SysS.preAffinityRemote h
    | exact SysS.preFlush h
    | exact hmh _ _ _ _ _ h
    | (injection h with h; subst h; exact SysS.refl _)

theorem SysS.setOutOfCpu {e : Emu} {ti : Nat} {t : Thread} {b : Bool} (ht : e.threads[ti]? = some t) :
    SysS e (e.setThread { t with outOfCpu := b }) :=
  SysS.setThread ht ⟨rfl, ChS.refl _, ChS.refl _, ChS.refl _⟩

theorem SysS.tableEvent {e e' : Emu} {ti c v : Nat} {m : ModelSpec}
    (h : tableEvent e ti m c v = .ok e') : SysS e e' := by
  unfold Ovni.Emu.tableEvent at h
  cases ht : e.threads[ti]? with
  | none => simp [ht] at h
  | some t =>
    simp only [ht] at h
    simp only [bind, Except.bind, pure, Except.pure, throw, throwThe, MonadExceptOf.throw] at h
    repeat' split at h
    all_goals first | (cases h; done) | skip
    all_goals (injection h with h; subst h)
    all_goals first
      | exact SysS.refl _
      | exact SysS.withChan (by assumption)
      | exact SysS.setOutOfCpu (by assumption)
      | exact (SysS.withChan (by assumption)).trans (SimP.withChan (chanOp_push _ _) (by assumption))
          (SysS.setOutOfCpu (by assumption))
      | exact (SysS.withChan (by assumption)).trans (SimP.withChan (chanOp_pop _) (by assumption))
          (SysS.setOutOfCpu (by assumption))
      | exact (SysS.withChan (by assumption)).trans (SimP.withChan (chanOp_set _) (by assumption))
          (SysS.setOutOfCpu (by assumption))

/-- **The handlers of one event respect the system channels.** -/
theorem SysS.modelEvent {e e' : Emu} {ti m c v : Nat} {p : List Nat}
    {th mh : Emu → Nat → Nat → Nat → List Nat → Except Err Emu} (hth : HookSys th) (hmh : HookSys mh)
    (h : modelEvent e ti m c v p th mh = .ok e') : SysS e e' := by
  unfold Ovni.Emu.modelEvent at h
  simp only [bind, Except.bind, pure, Except.pure, throw, throwThe, MonadExceptOf.throw] at h
  repeat' split at h
  all_goals first | (cases h; done) | skip
  · exact SysS.ovniEvent (fun e ti v p e' h => hmh e ti c v p e' h) h
  · exact hth _ _ _ _ _ _ h
  · exact SysS.tableEvent h

/-! ### the hooks in use -/

theorem hookSys_none : HookSys (fun _ _ _ _ _ => .error .unknownEvent) := by
  intro e ti a b p e' h; cases h

theorem hookSys_mark (tab : List MarkType) : HookSys (fun e ti _ v p => markEvent tab e ti v p) := by
  intro e ti a b p e' h
  simp only [markEvent] at h
  repeat' split at h
  all_goals first | (cases h; done) | skip
  all_goals exact SysS.withChan h

theorem applyWrites_sys {ti mc : Nat} : ∀ (ws : List TaskWr) {e e' : Emu},
    applyWrites e ti mc ws = .ok e' → SysS e e' := by
  intro ws
  induction ws with
  | nil => intro e e' h; cases h; exact SysS.refl _
  | cons w ws ih =>
    intro e e' h
    rw [applyWrites_cons] at h
    split at h
    · cases h
    · rename_i e1 h1
      have hcs : ∀ w' ∈ [w], w'.chan ∈ [w.chan] := by
        intro w' hw'; simp only [List.mem_singleton] at hw'; subst hw'; simp
      cases w with
      | set c v =>
        exact (SysS.withChan h1).trans (SimP.withChan (chanOp_set _) h1) (ih h)
      | push c v =>
        exact (SysS.withChan h1).trans (SimP.withChan (chanOp_push _ _) h1) (ih h)
      | pop c v =>
        exact (SysS.withChan h1).trans (SimP.withChan (chanOp_pop _) h1) (ih h)

theorem hookSys_task (m : Ovni.Task.Model) (P : Ovni.Task.ProcInfo) (ε : Ovni.Task.Emu) (ev : Ovni.Task.Ev) :
    HookSys (taskHook m P ε ev) := by
  intro e ti a b p e' h
  unfold taskHook at h
  simp only at h
  split at h
  · cases h
  · cases ev with
    | typeCreate _ _ _ => simp only at h; cases h; exact SysS.refl _
    | taskCreate _ _ _ => simp only at h; cases h; exact SysS.refl _
    | ssPush _ _ => cases h
    | ssPop _ _ => cases h
    | task th tv t bp =>
      simp only at h
      split at h
      · cases h
      · split at h
        · cases h
        · exact applyWrites_sys _ h

end Ovni.Emu
