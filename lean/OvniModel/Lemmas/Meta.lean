import OvniModel.Emu.Meta

/-! Helper lemmas for the metadata gates (C12). -/
namespace Ovni.Emu.Meta

theorem checkStream_ok_iff (m : Meta) :
    checkStream m = .ok true ↔
      m.parsed = true ∧ m.version = some 3 ∧ m.part = some "thread" ∧
      (∃ name, m.loom = some name ∧ '/' ∉ name.toList) ∧ m.cpus ≠ some [] ∧ 0 < m.pid ∧
      (∀ a, m.appId = some a → 0 < a) ∧ 0 < m.tid ∧ m.finished = true := by
  unfold checkStream
  rw [show ((Ovni.Generated.metadataVersion : Nat) : Int) = 3 from rfl]
  by_cases c1 : m.parsed = false
  · simp [c1]
  rw [if_neg c1]
  by_cases c2 : m.version ≠ some 3
  · simp [c2]
  rw [if_neg c2]
  by_cases c3 : m.part = none
  · simp [c3]
  rw [if_neg c3]
  by_cases c4 : m.part ≠ some "thread"
  · simp [c4]
  rw [if_neg c4]
  by_cases c5 : m.loom = none
  · simp [c5]
  rw [if_neg c5]
  obtain ⟨name, hn⟩ : ∃ name, m.loom = some name := by
    cases h : m.loom with
    | none => exact absurd h c5
    | some n => exact ⟨n, rfl⟩
  by_cases c6 : '/' ∈ (m.loom.getD "").toList
  · rw [if_pos c6]; simp [hn] at c6 ⊢; intro _ _ _ h; exact absurd c6 h
  rw [if_neg c6]
  by_cases c7 : m.cpus = some []
  · simp [c7]
  rw [if_neg c7]
  by_cases c8 : m.pid ≤ 0
  · rw [if_pos c8]; constructor
    · intro h; cases h
    · rintro ⟨_, _, _, _, _, h6, _, _, _⟩; omega
  rw [if_neg c8]
  by_cases c9 : ∃ a, m.appId = some a ∧ a ≤ 0
  · rw [if_pos c9]; obtain ⟨a, ha, hle⟩ := c9; constructor
    · intro h; cases h
    · rintro ⟨_, _, _, _, _, _, h7, _, _⟩; have := h7 a ha; omega
  rw [if_neg c9]
  by_cases c10 : m.tid ≤ 0
  · rw [if_pos c10]; constructor
    · intro h; cases h
    · rintro ⟨_, _, _, _, _, _, _, h8, _⟩; omega
  rw [if_neg c10]
  by_cases c11 : m.finished = false
  · simp [c11]
  rw [if_neg c11]
  simp [hn] at c6
  simp only [true_iff]
  refine ⟨by simpa using c1, by simpa using c2, by simpa using c4, ⟨name, hn, c6⟩, c7, by omega, ?_, by omega, by simpa using c11⟩
  intro a ha
  by_cases hle : a ≤ 0
  · exact absurd ⟨a, ha, hle⟩ c9
  · omega

theorem checkStream_thread_cases (m : Meta) (hp : m.part = some "thread") :
    checkStream m = .ok true ∨ ∃ e, checkStream m = .error e := by
  have key : ∀ x, checkStream m = x → (x = .ok true ∨ ∃ e, x = .error e) := by
    intro x hx
    unfold checkStream at hx
    repeat' split at hx
    all_goals subst hx
    all_goals first
      | exact Or.inr ⟨_, rfl⟩
      | exact Or.inl rfl
      | (rename_i h; exact absurd hp h)
  exact key _ rfl

theorem checkStream_nopart (m : Meta) (hp : m.part = none) : ∃ e, checkStream m = .error e := by
  unfold checkStream
  rw [show ((Ovni.Generated.metadataVersion : Nat) : Int) = 3 from rfl]
  split
  · exact ⟨_, rfl⟩
  · split
    · exact ⟨_, rfl⟩
    · exact ⟨_, rfl⟩

end Ovni.Emu.Meta
