import OvniModel.Lemmas.FsThread
set_option linter.unusedSimpArgs false

/-! From the call list of the whole process to the calls of one thread. -/
namespace Ovni.Rt.Fs

/-- The call only changes directories and entries of thread τ. -/
def Own (τ : Nat) (op : FOp) : Prop := ∀ q ∈ touch op, q.isLeaf = false ∨ q ∈ tpaths τ

theorem tpaths_tid {τ τ' : Nat} {q : Path} (h : q ∈ tpaths τ) (h' : q ∈ tpaths τ') : τ = τ' := by
  simp [tpaths] at h h'
  rcases h with rfl | rfl | rfl | rfl | rfl <;> simp at h' <;> exact h'

theorem foreign_of_own {τ τ' : Nat} {op : FOp} (h : Own τ' op) (hne : τ ≠ τ') : Foreign τ op := by
  intro q hq hmem
  rcases h q hmem with hl | hin
  · rw [tpaths_leaf hq] at hl; cases hl
  · exact hne (tpaths_tid hq hin)

theorem own_of_foreign_all {τ : Nat} {op : FOp} (h : ∀ x ∈ touch op, x.isLeaf = false) : Own τ op :=
  fun q hq => Or.inl (h q hq)

theorem own_mkpath (τ : Nat) (comps : List (Path × Bool)) (h : ∀ c ∈ comps, c.1.isLeaf = false) :
    ∀ op ∈ ops (mkpathCalls comps), Own τ op := by
  intro op hop
  simp only [ops, mkpathCalls, List.mem_map, List.mem_flatMap] at hop
  obtain ⟨c, ⟨x, hx, hc⟩, rfl⟩ := hop
  have hl := h x hx
  apply own_of_foreign_all
  split at hc
  · simp only [List.mem_cons, List.not_mem_nil, or_false] at hc
    rcases hc with rfl | rfl <;> simp [touch, hl]
  · simp only [List.mem_cons, List.not_mem_nil, or_false] at hc
    subst hc
    simp [touch, hl]

theorem own_mkdirThread (τ nAnc : Nat) (r : Root) (tid : Nat) :
    ∀ op ∈ ops (mkdirThreadCalls nAnc r tid), Own τ op := by
  apply own_mkpath
  intro c hc
  simp only [List.mem_append, List.mem_cons, List.not_mem_nil, or_false] at hc
  rcases hc with hc | rfl | rfl | rfl | rfl
  · exact ancComps_dir _ c hc
  all_goals rfl

theorem own_store (r : Root) (τ : Nat) (js : List Nat) : ∀ op ∈ ops (storeCalls r τ js), Own τ op := by
  intro op hop
  simp only [ops, storeCalls, List.map_cons, List.map_nil, List.mem_cons, List.not_mem_nil, or_false] at hop
  rcases hop with rfl | rfl | rfl <;> (intro q hq; simp only [touch, List.mem_cons, List.not_mem_nil, or_false] at hq; subst hq; right; cases r <;> simp [tpaths])

theorem own_moveFile (τ : Nat) (n : FName) (c : List Nat) : ∀ op ∈ moveFileOps τ n c, Own τ op := by
  intro op hop
  simp only [moveFileOps, List.mem_append, List.mem_cons, List.not_mem_nil, or_false, List.mem_flatMap] at hop
  rcases hop with (((rfl | rfl) | ⟨b, _, rfl | rfl⟩) | rfl | rfl | rfl | rfl) <;>
    (intro q hq; simp only [touch, List.mem_cons, List.not_mem_nil, or_false] at hq; try subst hq; try (right; cases n <;> simp [tpaths]))

theorem own_thread (ser : Meta → List Nat) (p : Prog) (t : ThreadProg) :
    ∀ op ∈ ops (threadCalls ser p t), Own t.tid op := by
  intro op hop
  simp only [threadCalls, threadInitCalls, ops, List.map_append, List.mem_append] at hop
  rcases hop with ((((h | h) | h) | h) | h) | h
  · exact own_mkdirThread _ _ _ _ op h
  · split at h
    · exact own_mkdirThread _ _ _ _ op h
    · simp at h
  · simp only [List.map_cons, List.map_nil, List.mem_cons, List.not_mem_nil, or_false] at h
    rcases h with rfl | rfl <;>
      (intro q hq; simp only [touch, List.mem_cons, List.not_mem_nil, or_false] at hq;
       right; rcases hq with rfl | rfl <;> cases p.wr <;> simp [tpaths])
  · exact own_store _ _ _ op h
  · simp only [List.mem_map, List.mem_flatMap] at h
    obtain ⟨c, ⟨st, _, hc⟩, rfl⟩ := h
    cases st with
    | io chunks =>
      simp only [stepCalls, List.mem_map] at hc
      obtain ⟨d, _, rfl⟩ := hc
      intro q hq; simp only [touch, List.mem_cons, List.not_mem_nil, or_false] at hq
      right; rcases hq with rfl | rfl <;> cases p.wr <;> simp [tpaths]
    | attrFlush b =>
      exact own_store _ _ _ _ (by simp only [ops, List.mem_map]; exact ⟨c, hc, rfl⟩)
  · split at h
    · simp only [threadFreeCalls, List.map_append, List.mem_append] at h
      rcases h with (h | h) | h
      · exact own_store _ _ _ op h
      · simp at h; subst h; intro q hq; simp [touch] at hq
      · unfold relocCalls at h
        split at h
        · simp only [List.map_append, List.mem_append] at h
          rcases h with (h | h) | h
          · rw [← ops, ops_moveFile] at h; exact own_moveFile _ _ _ op h
          · rw [← ops, ops_moveFile] at h; exact own_moveFile _ _ _ op h
          · simp at h; subst h; exact own_of_foreign_all (by simp [touch, Path.isLeaf])
        · simp at h
    · simp at h

/-- Calls of another thread do not touch this thread's entries. -/
theorem foreign_thread (ser : Meta → List Nat) (p : Prog) (t : ThreadProg) {τ : Nat} (h : τ ≠ t.tid) :
    ∀ op ∈ ops (threadCalls ser p t), Foreign τ op :=
  fun op hop => foreign_of_own (own_thread ser p t op hop) h

theorem foreign_threads (ser : Meta → List Nat) (p : Prog) (ts : List ThreadProg) {τ : Nat}
    (h : ∀ t ∈ ts, τ ≠ t.tid) : ∀ op ∈ ops (ts.flatMap (threadCalls ser p)), Foreign τ op := by
  intro op hop
  simp only [ops, List.mem_map, List.mem_flatMap] at hop
  obtain ⟨c, ⟨t, ht, hc⟩, rfl⟩ := hop
  exact foreign_thread ser p t (h t ht) _ (by simp only [ops, List.mem_map]; exact ⟨c, hc, rfl⟩)

/-- The process' call list around the calls of one of its threads. -/
theorem calls_split (ser : Meta → List Nat) (p : Prog) (t : ThreadProg) (ht : t ∈ p.threads)
    (hnd : (p.threads.map (·.tid)).Nodup) :
    ∃ A B, ops (calls ser p) = A ++ ops (threadCalls ser p t) ++ B ∧
      (∀ op ∈ A, Foreign t.tid op) ∧ (∀ op ∈ B, Foreign t.tid op) := by
  obtain ⟨l1, l2, hl⟩ := List.append_of_mem ht
  have hne1 : ∀ x ∈ l1, t.tid ≠ x.tid := by
    intro x hx e
    rw [hl, List.map_append, List.map_cons] at hnd
    have := (List.nodup_append.mp hnd).2.2 x.tid (List.mem_map_of_mem hx) t.tid (by simp)
    exact this e.symm
  have hne2 : ∀ x ∈ l2, t.tid ≠ x.tid := by
    intro x hx e
    rw [hl, List.map_append, List.map_cons] at hnd
    have := (List.nodup_cons.mp (List.nodup_append.mp hnd).2.1).1
    exact this (by rw [e]; exact List.mem_map_of_mem hx)
  refine ⟨ops (procInitCalls p) ++ ops (l1.flatMap (threadCalls ser p)),
          ops (l2.flatMap (threadCalls ser p)) ++ ops (procFiniCalls p), ?_, ?_, ?_⟩
  · simp only [calls, hl, ops, List.flatMap_append, List.flatMap_cons, List.map_append, List.append_assoc]
  · intro op hop
    rcases List.mem_append.mp hop with h | h
    · exact foreign_procInit _ p op h
    · exact foreign_threads ser p l1 hne1 op h
  · intro op hop
    rcases List.mem_append.mp hop with h | h
    · exact foreign_threads ser p l2 hne2 op h
    · exact foreign_procFini _ p op h

theorem get_initAncs_leaf (n : Nat) {q : Path} (hq : q.isLeaf = true) : Fs.get (initAncs n) q = none := by
  induction n with
  | zero => rfl
  | succ n ih =>
    simp only [initAncs, Fs.get]
    rw [if_neg (by intro e; subst e; simp [Path.isLeaf] at hq)]
    exact ih

theorem viewOf_init (p : Prog) (τ : Nat) : viewOf p.init τ = View.empty := by
  simp only [viewOf, Prog.init, View.empty]
  rw [get_initAncs_leaf _ rfl, get_initAncs_leaf _ rfl, get_initAncs_leaf _ rfl, get_initAncs_leaf _ rfl,
      get_initAncs_leaf _ rfl]

theorem vrun_take_split (τ : Nat) (v : View) (A T B : List FOp) (hA : ∀ op ∈ A, Foreign τ op)
    (hB : ∀ op ∈ B, Foreign τ op) (k : Nat) :
    vrun τ v ((A ++ T ++ B).take k) = vrun τ v (T.take (k - A.length)) := by
  rw [List.take_append, List.take_append, vrun_append, vrun_append,
      vrun_foreign (fun op hop => hA op (List.mem_of_mem_take hop)),
      vrun_foreign (fun op hop => hB op (List.mem_of_mem_take hop))]

/-- What a crash after `k` calls leaves of thread `t`: some prefix of the
    thread's own calls applied to nothing. -/
theorem view_at_crash (ser : Meta → List Nat) (p : Prog) (t : ThreadProg) (ht : t ∈ p.threads)
    (hnd : (p.threads.map (·.tid)).Nodup) (k : Nat) :
    ∃ k', viewOf (run p.init (ops ((calls ser p).take k))) t.tid
        = vrun t.tid View.empty ((ops (threadCalls ser p t)).take k') := by
  obtain ⟨A, B, hsplit, hA, hB⟩ := calls_split ser p t ht hnd
  refine ⟨k - A.length, ?_⟩
  have : ops ((calls ser p).take k) = (ops (calls ser p)).take k := by simp [ops, List.map_take]
  rw [viewOf_run, viewOf_init, this, hsplit, vrun_take_split _ _ _ _ _ hA hB]

/-- The same, together with the position of the `i`-th call when that call is
    one of the thread's own. -/
theorem view_and_op_at (ser : Meta → List Nat) (p : Prog) (t : ThreadProg) (ht : t ∈ p.threads)
    (hnd : (p.threads.map (·.tid)).Nodup) (i : Nat) (op : FOp) (hop : (ops (calls ser p))[i]? = some op)
    (hnf : ¬ Foreign t.tid op) :
    ∃ k', viewOf (run p.init (ops ((calls ser p).take i))) t.tid
        = vrun t.tid View.empty ((ops (threadCalls ser p t)).take k') ∧
      (ops (threadCalls ser p t))[k']? = some op := by
  obtain ⟨A, B, hsplit, hA, hB⟩ := calls_split ser p t ht hnd
  refine ⟨i - A.length, ?_, ?_⟩
  · have : ops ((calls ser p).take i) = (ops (calls ser p)).take i := by simp [ops, List.map_take]
    rw [viewOf_run, viewOf_init, this, hsplit, vrun_take_split _ _ _ _ _ hA hB]
  · rw [hsplit] at hop
    by_cases h1 : i < A.length
    · exfalso
      rw [List.append_assoc, List.getElem?_append_left h1] at hop
      exact hnf (hA op (List.mem_of_getElem? hop))
    · rw [List.append_assoc, List.getElem?_append_right (Nat.le_of_not_lt h1)] at hop
      by_cases h2 : i - A.length < (ops (threadCalls ser p t)).length
      · rwa [List.getElem?_append_left h2] at hop
      · exfalso
        rw [List.getElem?_append_right (Nat.le_of_not_lt h2)] at hop
        exact hnf (hB op (List.mem_of_getElem? hop))

/-- Entries of a tid that is not a thread of the program never exist. -/
theorem view_of_stranger (ser : Meta → List Nat) (p : Prog) (τ : Nat) (h : ∀ t ∈ p.threads, τ ≠ t.tid) (k : Nat) :
    viewOf (run p.init (ops ((calls ser p).take k))) τ = View.empty := by
  rw [viewOf_run, viewOf_init]
  apply vrun_foreign
  intro op hop
  have : op ∈ ops (calls ser p) := by
    simp only [ops, List.mem_map] at hop ⊢
    obtain ⟨c, hc, rfl⟩ := hop
    exact ⟨c, List.mem_of_mem_take hc, rfl⟩
  simp only [calls, ops, List.map_append, List.mem_append] at this
  rcases this with (h1 | h2) | h3
  · exact foreign_procInit τ p op h1
  · exact foreign_threads ser p p.threads h op h2
  · exact foreign_procFini τ p op h3

end Ovni.Rt.Fs
