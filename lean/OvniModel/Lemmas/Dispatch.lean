import OvniModel.Emu.Dispatch

/-! Helper lemmas for C18: a dispatcher accepts exactly its keys. -/
namespace Ovni.Emu.Dispatch

theorem lookup_mem {β : Type} (a : Nat) (b : β) (l : List (Nat × β)) :
    l.lookup a = some b → (a, b) ∈ l := by
  induction l with
  | nil => intro h; simp [List.lookup] at h
  | cons x r ih =>
    obtain ⟨k, b'⟩ := x
    intro h
    rw [List.lookup_cons] at h
    by_cases hk : (a == k) = true
    · rw [hk] at h
      have : a = k := by simpa using hk
      subst this
      simp only [Option.some.injEq] at h
      subst h
      exact List.mem_cons_self
    · have hk' : (a == k) = false := by simpa using hk
      rw [hk'] at h
      exact List.mem_cons_of_mem _ (ih h)

theorem mem_wild_iff (d : Disp) (c : Nat) :
    c ∈ d.wild ↔ d.cats.lookup c = some Rule.any := by
  unfold Disp.wild
  rw [List.mem_filter]
  constructor
  · intro h; simpa using h.2
  · intro h
    refine ⟨?_, by simp [h]⟩
    exact List.mem_map.mpr ⟨(c, Rule.any), lookup_mem c _ _ h, rfl⟩

/-- **A dispatcher accepts exactly its keys**: a code is accepted iff its
    category is one of the wildcard categories or the code is in the finite
    key list computed from the `switch` cases and the table. -/
theorem accepts_iff (d : Disp) (keys : List (Nat × Nat)) (c v : Nat) :
    d.accepts keys c v = true ↔ c ∈ d.wild ∨ (c, v) ∈ d.finiteKeys keys := by
  constructor
  · intro h
    cases hl : d.cats.lookup c with
    | none =>
      right
      unfold Disp.finiteKeys
      rw [List.mem_filter]
      refine ⟨?_, by simp [h, hl]⟩
      unfold Disp.accepts at h
      rw [hl] at h
      simp only [Bool.and_eq_true, List.contains_eq_mem, decide_eq_true_eq] at h
      exact List.mem_append_right _ h.2
    | some r =>
      cases r with
      | any => left; exact (mem_wild_iff d c).2 hl
      | vals vs =>
        right
        unfold Disp.finiteKeys
        rw [List.mem_filter]
        refine ⟨?_, by simp [h, hl]⟩
        unfold Disp.accepts at h
        rw [hl] at h
        simp only [List.contains_eq_mem, decide_eq_true_eq] at h
        apply List.mem_append_left
        rw [List.mem_flatMap]
        exact ⟨(c, Rule.vals vs), lookup_mem c _ _ hl, List.mem_map.mpr ⟨v, h, rfl⟩⟩
      | tab =>
        right
        unfold Disp.finiteKeys
        rw [List.mem_filter]
        refine ⟨?_, by simp [h, hl]⟩
        unfold Disp.accepts at h
        rw [hl] at h
        simp only [List.contains_eq_mem, decide_eq_true_eq] at h
        exact List.mem_append_right _ h
  · rintro (h | h)
    · have := (mem_wild_iff d c).1 h
      unfold Disp.accepts
      rw [this]
    · unfold Disp.finiteKeys at h
      rw [List.mem_filter] at h
      have := h.2
      simp only [Bool.and_eq_true] at this
      exact this.1

end Ovni.Emu.Dispatch
