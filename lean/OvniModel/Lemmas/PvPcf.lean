import OvniModel.Lemmas.PvText

/-
  C13 text level: the types a .pcf text declares (`pcfDeclared`) contain the
  id of every type of the structure it was printed from, and which ids the
  emulator puts into thread.pcf / cpu.pcf.
-/
namespace Ovni.Emu.PvText
open Ovni.Emu Ovni.Generated

/-! ### the text declares every type of the structure -/

/-- a newline-free prefix stays at the head of the first line -/
theorem splitNl_prefix (x r : Text) (h : '\n' ∉ x) :
    ∃ r0 rs, splitNl (x ++ r) = (x ++ r0) :: rs := by
  induction x with
  | nil =>
    cases hs : splitNl r with
    | nil => exact absurd hs (splitNl_ne_nil r)
    | cons a as => exact ⟨a, as, by simpa using hs⟩
  | cons c cs ih =>
    have hc : c ≠ '\n' := by intro e; apply h; simp [e]
    obtain ⟨r0, rs, e⟩ := ih (by intro e; apply h; simp [e])
    refine ⟨r0, rs, ?_⟩
    rw [List.cons_append, splitNl, if_neg hc, e]
    rfl

theorem pcfScan_mem (a b : Text) (n : Nat) (ha : a = litEventType) (hb : pcfTypeOfLine b = some n) :
    ∀ (pre post : List Text), n ∈ pcfScan (pre ++ a :: b :: post) := by
  intro pre post
  induction pre with
  | nil =>
    simp only [List.nil_append, pcfScan, ha, if_true, hb]
    simp
  | cons x pre ih =>
    cases pre with
    | nil =>
      simp only [List.cons_append, List.nil_append] at ih ⊢
      rw [pcfScan]
      exact List.mem_append_right _ ih
    | cons y pre' =>
      simp only [List.cons_append] at ih ⊢
      rw [pcfScan]
      exact List.mem_append_right _ ih

theorem padRight_spaces (w : Nat) (t rest : Text) :
    ∃ k, padRight w t ++ ' ' :: rest = t ++ ' ' :: (List.replicate k ' ' ++ rest) := by
  unfold padRight
  refine ⟨w - t.length, ?_⟩
  rw [List.append_assoc]
  congr 1
  induction (w - t.length) with
  | zero => rfl
  | succ k ih => rw [List.replicate_succ, List.cons_append, ih]; rfl

/-- the line of a type reads back its id -/
theorem pcfTypeOfLine_line (id : Nat) (rest : Text) :
    pcfTypeOfLine (['0', ' '] ++ (padRight 10 (natDec id) ++ ' ' :: rest)) = some id := by
  obtain ⟨k, e⟩ := padRight_spaces 10 (natDec id) rest
  unfold pcfTypeOfLine
  rw [expect_append, e]
  simp only
  rw [readNat_natDec id _ (by intro c r h; cases h; decide)]
  rfl

theorem litEventType_no_nl : '\n' ∉ litEventType := by decide

theorem pcfTypeText_shape (t : PcfType) : ∃ rest,
    pcfTypeText t = [] ++ '\n' :: ([] ++ '\n' :: (litEventType ++ '\n' ::
      ((['0', ' '] ++ (padRight 10 (natDec t.id) ++ [' '])) ++ rest))) := by
  refine ⟨t.label ++ ['\n'] ++ litValues ++ ['\n'] ++ t.values.flatMap pcfValueLine, ?_⟩
  simp only [pcfTypeText, pcfTypeLine, List.append_assoc, List.cons_append, List.nil_append]

theorem typeLine_prefix_no_nl (id : Nat) : '\n' ∉ (['0', ' '] ++ (padRight 10 (natDec id) ++ [' '])) := by
  simp only [padRight, List.mem_append, List.mem_cons, List.mem_replicate, List.not_mem_nil, not_or]
  refine ⟨⟨by decide, by decide, fun h => h⟩, ⟨natDec_no_nl id, ?_⟩, by decide, fun h => h⟩
  intro h; exact absurd h.2 (by decide)

/-- **Every type of the structure is declared by the text** `pcf_close` writes. -/
theorem pcf_declares (p : Pcf) (t : PcfType) (ht : t ∈ p) : t.id ∈ pcfDeclared (pcfText p) := by
  obtain ⟨p1, p2, rfl⟩ := List.append_of_mem ht
  obtain ⟨rest, hshape⟩ := pcfTypeText_shape t
  have e : pcfText (p1 ++ t :: p2) =
      (pcfHeader ++ pcfColors ++ p1.flatMap pcfTypeText) ++ '\n' :: ([] ++ '\n' :: (litEventType ++ '\n' ::
        ((['0', ' '] ++ (padRight 10 (natDec t.id) ++ [' '])) ++ (rest ++ p2.flatMap pcfTypeText)))) := by
    unfold pcfText
    rw [List.flatMap_append, List.flatMap_cons, hshape]
    simp only [List.append_assoc, List.cons_append, List.nil_append]
  unfold pcfDeclared
  obtain ⟨a, b, _, h2⟩ := splitNl_append_nl (pcfHeader ++ pcfColors ++ p1.flatMap pcfTypeText)
    ([] ++ '\n' :: (litEventType ++ '\n' ::
        ((['0', ' '] ++ (padRight 10 (natDec t.id) ++ [' '])) ++ (rest ++ p2.flatMap pcfTypeText))))
  rw [e, h2, splitNl_line _ _ (by simp), splitNl_line _ _ litEventType_no_nl]
  obtain ⟨r0, rs, e3⟩ := splitNl_prefix (['0', ' '] ++ (padRight 10 (natDec t.id) ++ [' ']))
    (rest ++ p2.flatMap pcfTypeText) (typeLine_prefix_no_nl t.id)
  rw [e3]
  have hline : pcfTypeOfLine (['0', ' '] ++ (padRight 10 (natDec t.id) ++ [' ']) ++ r0) = some t.id := by
    have := pcfTypeOfLine_line t.id r0
    simpa only [List.append_assoc, List.cons_append, List.nil_append] using this
  have := pcfScan_mem litEventType _ t.id rfl hline (a ++ [b] ++ [[]]) rs
  simpa only [List.append_assoc, List.cons_append, List.nil_append] using this

/-! ### which ids the emulator adds -/

def ids (p : Pcf) : List Nat := p.map (·.id)

theorem pcfText_declares_ids {p : Pcf} {ty : Nat} (h : ty ∈ ids p) : ty ∈ pcfDeclared (pcfText p) := by
  obtain ⟨t, ht, rfl⟩ := List.mem_map.mp h
  exact pcf_declares p t ht


theorem pcfAddType_ids {p p' : Pcf} {id : Nat} {label : Text} (h : pcfAddType p id label = .ok p') :
    ids p' = ids p ++ [id] := by
  unfold pcfAddType at h
  split at h
  · cases h
  · split at h
    · cases h
    · cases h; simp [ids]

theorem pcfAddValue_ids {p p' : Pcf} {id : Nat} {v : Int} {label : Text} (h : pcfAddValue p id v label = .ok p') :
    ids p' = ids p := by
  unfold pcfAddValue at h
  split at h
  · cases h
  · split at h
    · cases h
    · split at h
      · cases h
      · cases h
        simp only [ids, List.map_map]
        apply List.map_congr_left
        intro x _
        simp only [Function.comp]
        split <;> rfl

theorem pcfAddValues_ids {id : Nat} : ∀ (vs : List (Int × Text)) {p p' : Pcf},
    pcfAddValues p id vs = .ok p' → ids p' = ids p := by
  intro vs
  induction vs with
  | nil => intro p p' h; simp only [pcfAddValues, Except.ok.injEq] at h; rw [h]
  | cons v r ih =>
    intro p p' h
    obtain ⟨v, l⟩ := v
    simp only [pcfAddValues] at h
    cases ha : pcfAddValue p id v l with
    | error e => rw [ha] at h; cases h
    | ok p1 => rw [ha] at h; rw [ih h, pcfAddValue_ids ha]

theorem pcfCreateType_ids {p p' : Pcf} {type mode : Nat} {pre : String} {vals : List (Int × String)}
    (h : pcfCreateType p type mode pre vals = .ok p') : ids p' = ids p ++ [type] := by
  unfold pcfCreateType at h
  simp only at h
  split at h
  · cases h
  · cases ha : pcfAddType p type (pre.toList ++ [' '] ++ (pcfSuffix mode).toList) with
    | error e => rw [ha] at h; cases h
    | ok p1 => rw [ha] at h; rw [pcfAddValues_ids _ h, pcfAddType_ids ha]

theorem pcfInitModel_ids (types tracks : List Nat) (info : PcfInfo) : ∀ (is : List Nat) {p p' : Pcf},
    pcfInitModel types tracks info is p = .ok p' → ids p' = ids p ++ is.map (types.getD · 0) := by
  intro is
  induction is with
  | nil => intro p p' h; simp only [pcfInitModel, Except.ok.injEq] at h; simp [h]
  | cons i r ih =>
    intro p p' h
    simp only [pcfInitModel] at h
    cases ha : pcfCreateType p (types.getD i 0) (tracks.getD i 0) (info.prefixes.getD i "") (info.labels.getD i []) with
    | error e => rw [ha] at h; cases h
    | ok p1 => rw [ha] at h; rw [ih h, pcfCreateType_ids ha]; simp

def markTypeId (t : MarkType) : Nat := prvOvniMark + t.type.toNat

theorem pcfInitMarks_ids : ∀ (ms : List MarkType) {p p' : Pcf},
    pcfInitMarks ms p = .ok p' → ids p' = ids p ++ ms.map markTypeId := by
  intro ms
  induction ms with
  | nil => intro p p' h; simp only [pcfInitMarks, Except.ok.injEq] at h; simp [h]
  | cons t r ih =>
    intro p p' h
    simp only [pcfInitMarks] at h
    cases ha : pcfAddType p (prvOvniMark + t.type.toNat) t.title.toList with
    | error e => rw [ha] at h; cases h
    | ok p1 =>
      rw [ha] at h
      simp only at h
      cases hb : pcfAddValues p1 (prvOvniMark + t.type.toNat) (t.labels.map fun v => (v.1, v.2.toList)) with
      | error e => rw [hb] at h; cases h
      | ok p2 =>
        rw [hb] at h
        rw [ih h, pcfAddValues_ids _ hb, pcfAddType_ids ha]
        simp [markTypeId]

/-- the ids one channel group contributes to a PCF (`cpu`: cpu.pcf) -/
def specPcfTypes (cpu : Bool) (marks : List MarkType) (s : ModelSpec) : List Nat :=
  if s.char = markGroup then marks.map markTypeId
  else match pcfInfo s.char with
    | none => []
    | some info => (List.range s.nch).map ((if cpu then info.cpuType else s.pvtType).getD · 0)

theorem pcfInitModels_ids (cpu : Bool) (marks : List MarkType) : ∀ (ss : List ModelSpec) {p p' : Pcf},
    pcfInitModels cpu marks ss p = .ok p' → ids p' = ids p ++ ss.flatMap (specPcfTypes cpu marks) := by
  intro ss
  induction ss with
  | nil => intro p p' h; simp only [pcfInitModels, Except.ok.injEq] at h; simp [h]
  | cons s r ih =>
    intro p p' h
    simp only [pcfInitModels] at h
    by_cases hm : s.char = markGroup
    · rw [if_pos hm] at h
      cases ha : pcfInitMarks marks p with
      | error e => rw [ha] at h; cases h
      | ok p1 =>
        rw [ha] at h
        rw [ih h, pcfInitMarks_ids _ ha, List.flatMap_cons, specPcfTypes, if_pos hm, List.append_assoc]
    · rw [if_neg hm] at h
      cases hi : pcfInfo s.char with
      | none => rw [hi] at h; cases h
      | some info =>
        rw [hi] at h
        simp only at h
        cases ha : pcfInitModel (if cpu then info.cpuType else s.pvtType) (if cpu then s.cpuTrack else s.thTrack)
            info (List.range s.nch) p with
        | error e => rw [ha] at h; cases h
        | ok p1 =>
          rw [ha] at h
          rw [ih h, pcfInitModel_ids _ _ _ _ ha, List.flatMap_cons, specPcfTypes, if_neg hm, hi, List.append_assoc]

theorem pcfSysTypes_ids : ∀ (l : List (Nat × String × List (Int × String))) {p p' : Pcf},
    pcfSysTypes l p = .ok p' → ids p' = ids p ++ l.map (·.1) := by
  intro l
  induction l with
  | nil => intro p p' h; simp only [pcfSysTypes, Except.ok.injEq] at h; simp [h]
  | cons x r ih =>
    intro p p' h
    obtain ⟨ty, name, vals⟩ := x
    simp only [pcfSysTypes] at h
    cases ha : pcfAddType p ty name.toList with
    | error e => rw [ha] at h; cases h
    | ok p1 =>
      rw [ha] at h
      simp only at h
      cases hb : pcfAddValues p1 ty (vals.map fun v => (v.1, v.2.toList)) with
      | error e => rw [hb] at h; cases h
      | ok p2 =>
        rw [hb] at h
        rw [ih h, pcfAddValues_ids _ hb, pcfAddType_ids ha]
        simp

theorem pcfTaskTypes_ids {id : Nat} : ∀ (ts : List (Int × Text)) {p p' : Pcf},
    pcfTaskTypes p id ts = .ok p' → ids p' = ids p := by
  intro ts
  induction ts with
  | nil => intro p p' h; simp only [pcfTaskTypes, Except.ok.injEq] at h; rw [h]
  | cons t r ih =>
    intro p p' h
    obtain ⟨gid, label⟩ := t
    simp only [pcfTaskTypes] at h
    split at h
    · split at h
      · exact ih h
      · cases h
    · cases ha : pcfAddValue p id gid label with
      | error e => rw [ha] at h; cases h
      | ok p1 => rw [ha] at h; rw [ih h, pcfAddValue_ids ha]

theorem pcfFinishTasks_go_ids {ty : Nat} : ∀ (ps : List (List (Int × Text))) {p p' : Pcf},
    pcfFinishTasks.go ty ps p = .ok p' → ids p' = ids p := by
  intro ps
  induction ps with
  | nil => intro p p' h; simp only [pcfFinishTasks.go, Except.ok.injEq] at h; rw [h]
  | cons ts r ih =>
    intro p p' h
    simp only [pcfFinishTasks.go] at h
    cases ha : pcfTaskTypes p ty ts with
    | error e => rw [ha] at h; cases h
    | ok p1 => rw [ha] at h; rw [ih h, pcfTaskTypes_ids _ ha]

theorem pcfFinishTasks_ids : ∀ (l : List (Nat × List (List (Int × Text)))) {p p' : Pcf},
    pcfFinishTasks l p = .ok p' → ids p' = ids p := by
  intro l
  induction l with
  | nil => intro p p' h; simp only [pcfFinishTasks, Except.ok.injEq] at h; rw [h]
  | cons x r ih =>
    intro p p' h
    obtain ⟨ch, procs⟩ := x
    simp only [pcfFinishTasks] at h
    cases ht : taskTypeOf ch with
    | none => rw [ht] at h; cases h
    | some ty =>
      rw [ht] at h
      simp only at h
      cases ha : pcfFinishTasks.go ty procs p with
      | error e => rw [ha] at h; cases h
      | ok p1 => rw [ha] at h; rw [ih h, pcfFinishTasks_go_ids _ ha]

/-- **The types of thread.pcf**: the three thread types, then per channel group
    (in `model_connect` order) the types of its channels. -/
theorem threadPcf_ids {e : Emu} {n : Names} {p : Pcf} (h : threadPcf e n = .ok p) :
    ids p = threadPcfTypes.map (·.1) ++ (connectOrder e.enabled e.extra).flatMap (specPcfTypes false n.marks) := by
  unfold threadPcf at h
  cases h1 : pcfSysTypes threadPcfTypes [] with
  | error er => rw [h1] at h; cases h
  | ok p1 =>
    rw [h1] at h
    simp only at h
    cases h2 : pcfAddValues p1 prvThreadCpu ((cpuNames e n).mapIdx fun g nm => ((g : Int) + 1, nm)) with
    | error er => rw [h2] at h; cases h
    | ok p2 =>
      rw [h2] at h
      simp only at h
      cases h3 : pcfInitModels false n.marks (connectOrder e.enabled e.extra) p2 with
      | error er => rw [h3] at h; cases h
      | ok p3 =>
        rw [h3] at h
        rw [pcfFinishTasks_ids _ h, pcfInitModels_ids _ _ _ h3, pcfAddValues_ids _ h2, pcfSysTypes_ids _ h1]
        rfl

theorem cpuPcf_ids {e : Emu} {n : Names} {p : Pcf} (h : cpuPcf e n = .ok p) :
    ids p = cpuPcfTypes.map (·.1) ++ (connectOrder e.enabled e.extra).flatMap (specPcfTypes true n.marks) := by
  unfold cpuPcf at h
  cases h1 : pcfSysTypes cpuPcfTypes [] with
  | error er => rw [h1] at h; cases h
  | ok p1 =>
    rw [h1] at h
    simp only at h
    cases h3 : pcfInitModels true n.marks (connectOrder e.enabled e.extra) p1 with
    | error er => rw [h3] at h; cases h
    | ok p3 =>
      rw [h3] at h
      rw [pcfFinishTasks_ids _ h, pcfInitModels_ids _ _ _ h3, pcfSysTypes_ids _ h1]
      rfl

end Ovni.Emu.PvText
