import OvniModel.Emu.SystemSpec

/-! Invariants of the process table under `create_proc` (helper lemmas for C15). -/
namespace Ovni.Emu.System

abbrev AFact := Str × Int × Int
abbrev RFact := Str × Int × Int × Option Int

def pkey (p : ProcRow) : Str × Int := (p.loom, p.pid)

structure ProcInv (A : List AFact) (R : List RFact) (procs : List ProcRow) : Prop where
  nodup : (procs.map pkey).Nodup
  soundApp : ∀ p ∈ procs, p.appid = 0 ∨ ((p.loom, p.pid, p.appid) ∈ A ∧ 0 < p.appid)
  soundRank : ∀ p ∈ procs, (p.rank = -1 ∧ p.nranks = 0) ∨
    ((p.loom, p.pid, p.rank, some p.nranks) ∈ R ∧ 0 ≤ p.rank ∧ p.rank < p.nranks)
  completeApp : ∀ n pid a, (n, pid, a) ∈ A → 0 < a ∧ ∃ p ∈ procs, p.loom = n ∧ p.pid = pid ∧ p.appid = a
  completeRank : ∀ n pid r k, (n, pid, r, k) ∈ R →
    ∃ p ∈ procs, p.loom = n ∧ p.pid = pid ∧ p.rank = r ∧ k = some p.nranks ∧ 0 ≤ r ∧ r < p.nranks

theorem ProcInv.nil : ProcInv [] [] [] := by
  refine ⟨List.nodup_nil, ?_, ?_, ?_, ?_⟩
  · intro p h; cases h
  · intro p h; cases h
  · intro n pid a h; cases h
  · intro n pid r k h; cases h

theorem AppOK.mono {F G : List AFact} (h : AppOK G) (hs : F ⊆ G) : AppOK F :=
  ⟨fun n pid a hm => h.1 n pid a (hs hm), fun n pid a b h1 h2 => h.2 n pid a b (hs h1) (hs h2)⟩

theorem RankOK.mono {F G : List RFact} (h : RankOK G) (hs : F ⊆ G) : RankOK F :=
  ⟨fun n pid r k hm => h.1 n pid r k (hs hm),
   fun n pid r k r' k' h1 h2 => h.2 n pid r k r' k' (hs h1) (hs h2)⟩

/-! ### load_appid / load_rank -/

theorem loadAppid_ok {p p' : ProcRow} {x : Option Int} (h : loadAppid p x = .ok p') :
    p'.loom = p.loom ∧ p'.pid = p.pid ∧ p'.rank = p.rank ∧ p'.nranks = p.nranks ∧
    (x = none → p'.appid = p.appid) ∧
    (∀ a, x = some a → p'.appid = a ∧ 0 < a ∧ (p.appid = 0 ∨ p.appid = a)) := by
  cases x with
  | none => simp only [loadAppid] at h; cases h; simp
  | some a =>
    simp only [loadAppid] at h
    split at h
    · cases h
    split at h
    · cases h
    rename_i h1 h2
    cases h
    refine ⟨rfl, rfl, rfl, rfl, by simp, ?_⟩
    intro b hb
    cases hb
    refine ⟨rfl, by omega, ?_⟩
    by_cases h0 : p.appid = 0
    · exact Or.inl h0
    · right
      apply Classical.byContradiction
      intro hne
      exact h1 ⟨h0, hne⟩

theorem loadAppid_error {p : ProcRow} {x : Option Int} {e : Err} (h : loadAppid p x = .error e) :
    ∃ a, x = some a ∧ ((p.appid ≠ 0 ∧ p.appid ≠ a) ∨ a ≤ 0) := by
  cases x with
  | none => simp [loadAppid] at h
  | some a =>
    refine ⟨a, rfl, ?_⟩
    simp only [loadAppid] at h
    split at h
    · rename_i h1; exact Or.inl h1
    split at h
    · rename_i h2; exact Or.inr h2
    · cases h

theorem loadAppid_ne_crash (p : ProcRow) (x : Option Int) : loadAppid p x ≠ .crash := by
  cases x <;> simp only [loadAppid] <;> repeat' split
  all_goals simp

theorem loadRank_ok {p p' : ProcRow} {x k : Option Int} (h : loadRank p x k = .ok p') :
    p'.loom = p.loom ∧ p'.pid = p.pid ∧ p'.appid = p.appid ∧
    (x = none → p'.rank = p.rank ∧ p'.nranks = p.nranks) ∧
    (∀ r, x = some r → ∃ nr, k = some nr ∧ p'.rank = r ∧ p'.nranks = nr ∧ 0 ≤ r ∧ r < nr ∧
      (p.rank < 0 ∨ p.rank = r) ∧ (p.nranks ≤ 0 ∨ p.nranks = nr)) := by
  cases x with
  | none => simp only [loadRank] at h; cases h; simp
  | some r =>
    simp only [loadRank] at h
    split at h
    · cases h
    split at h
    · cases h
    rename_i h1 h2
    cases k with
    | none => simp at h
    | some nr =>
      simp only at h
      split at h
      · cases h
      split at h
      · cases h
      split at h
      · cases h
      rename_i h3 h4 h5
      cases h
      refine ⟨rfl, rfl, rfl, by simp, ?_⟩
      intro r' hr
      cases hr
      refine ⟨nr, rfl, rfl, rfl, by omega, by omega, ?_, ?_⟩
      · by_cases h0 : p.rank < 0
        · exact Or.inl h0
        · right
          apply Classical.byContradiction
          intro hne
          exact h2 ⟨by omega, hne⟩
      · by_cases h0 : p.nranks ≤ 0
        · exact Or.inl h0
        · right
          apply Classical.byContradiction
          intro hne
          exact h4 ⟨by omega, hne⟩

theorem loadRank_error {p : ProcRow} {x k : Option Int} {e : Err} (h : loadRank p x k = .error e) :
    ∃ r, x = some r ∧ (r < 0 ∨ (0 ≤ p.rank ∧ p.rank ≠ r) ∨ k = none ∨
      ∃ nr, k = some nr ∧ (nr ≤ 0 ∨ (0 < p.nranks ∧ p.nranks ≠ nr) ∨ nr ≤ r)) := by
  cases x with
  | none => simp [loadRank] at h
  | some r =>
    refine ⟨r, rfl, ?_⟩
    simp only [loadRank] at h
    split at h
    · rename_i h1; exact Or.inl h1
    split at h
    · rename_i h2; exact Or.inr (Or.inl ⟨by omega, h2.2⟩)
    cases k with
    | none => exact Or.inr (Or.inr (Or.inl rfl))
    | some nr =>
      right; right; right
      refine ⟨nr, rfl, ?_⟩
      simp only at h
      split at h
      · rename_i h3; exact Or.inl h3
      split at h
      · rename_i h4; exact Or.inr (Or.inl ⟨by omega, h4.2⟩)
      split at h
      · rename_i h5; exact Or.inr (Or.inr (by omega))
      · cases h

theorem loadRank_ne_crash (p : ProcRow) (x k : Option Int) : loadRank p x k ≠ .crash := by
  cases x with
  | none => simp [loadRank]
  | some r =>
    cases k with
    | none => simp only [loadRank]; repeat' split
              all_goals simp
    | some nr => simp only [loadRank]; repeat' split
                 all_goals simp

/-! ### find / set -/

theorem findProc_some {procs : List ProcRow} {n : Str} {pid : Int} {p : ProcRow}
    (h : findProc procs n pid = some p) : p ∈ procs ∧ p.loom = n ∧ p.pid = pid := by
  unfold findProc at h
  have h1 := List.mem_of_find?_eq_some h
  have h2' := List.find?_some h
  have h2 : isProc n pid p := of_decide_eq_true h2'
  exact ⟨h1, h2.1, h2.2⟩

theorem findProc_none {procs : List ProcRow} {n : Str} {pid : Int}
    (h : findProc procs n pid = none) : ∀ p ∈ procs, ¬ (p.loom = n ∧ p.pid = pid) := by
  unfold findProc at h
  intro c hc
  have := List.find?_eq_none.1 h c hc
  intro hk
  exact this (decide_eq_true (p := isProc n pid c) hk)

theorem findProc_isSome_of_mem {procs : List ProcRow} {n : Str} {pid : Int} {p : ProcRow}
    (hm : p ∈ procs) (hk : p.loom = n ∧ p.pid = pid) : ∃ q, findProc procs n pid = some q := by
  cases h : findProc procs n pid with
  | some q => exact ⟨q, rfl⟩
  | none => exact absurd hk (findProc_none h p hm)

theorem setProc_map_pkey {procs : List ProcRow} {n : Str} {pid : Int} {q : ProcRow}
    (hq : q.loom = n ∧ q.pid = pid) : (setProc procs n pid q).map pkey = procs.map pkey := by
  unfold setProc
  rw [List.map_map]
  apply List.map_congr_left
  intro p _
  simp only [Function.comp]
  split
  · rename_i h
    simp only [isProc] at h
    simp [pkey, hq.1, hq.2, h.1, h.2]
  · rfl

theorem mem_setProc {procs : List ProcRow} {n : Str} {pid : Int} {q x : ProcRow} :
    x ∈ setProc procs n pid q ↔
      (x ∈ procs ∧ ¬ (x.loom = n ∧ x.pid = pid)) ∨ (x = q ∧ ∃ p ∈ procs, p.loom = n ∧ p.pid = pid) := by
  unfold setProc
  simp only [List.mem_map]
  constructor
  · rintro ⟨p, hp, rfl⟩
    split
    · rename_i h
      exact Or.inr ⟨rfl, p, hp, h⟩
    · rename_i h
      exact Or.inl ⟨hp, h⟩
  · rintro (⟨hx, hn⟩ | ⟨rfl, p, hp, hk⟩)
    · exact ⟨x, hx, by simp [isProc, hn]⟩
    · exact ⟨p, hp, by simp [isProc, hk]⟩

/-- Two rows of the table with the same key are the same row. -/
theorem ProcInv.key_inj {A : List AFact} {R : List RFact} {procs : List ProcRow}
    (inv : ProcInv A R procs) {p q : ProcRow} (hp : p ∈ procs) (hq : q ∈ procs)
    (h1 : p.loom = q.loom) (h2 : p.pid = q.pid) : p = q := by
  have := inv.nodup
  revert hp hq
  generalize procs = l at this
  induction l with
  | nil => intro hp; cases hp
  | cons x xs ih =>
    intro hp hq
    simp only [List.map_cons, List.nodup_cons, List.mem_map, not_exists, not_and] at this
    rcases List.mem_cons.1 hp with hp' | hp' <;> rcases List.mem_cons.1 hq with hq' | hq'
    · rw [hp', hq']
    · subst hp'
      exact absurd (by simp [pkey, h1, h2]) (this.1 q hq')
    · subst hq'
      exact absurd (by simp [pkey, h1, h2]) (this.1 p hp')
    · exact ih this.2 hp' hq'

/-- Facts that the stream adds for process `(n, pid)`. -/
def appF (n : Str) (pid : Int) : Option Int → List AFact
  | none => []
  | some a => [(n, pid, a)]

def rankF (n : Str) (pid : Int) (x k : Option Int) : List RFact :=
  match x with
  | none => []
  | some r => [(n, pid, r, k)]

theorem ProcInv.weaken_new {A : List AFact} {R : List RFact} {procs : List ProcRow}
    (inv : ProcInv A R procs) (n : Str) (pid : Int)
    (hno : ∀ p ∈ procs, ¬ (p.loom = n ∧ p.pid = pid)) :
    ProcInv A R (procs ++ [⟨n, pid, 0, -1, 0⟩]) := by
  refine ⟨?_, ?_, ?_, ?_, ?_⟩
  · rw [List.map_append, List.nodup_append]
    refine ⟨inv.nodup, by simp, ?_⟩
    intro a ha b hb
    simp only [List.map_cons, List.map_nil, List.mem_singleton] at hb
    subst hb
    obtain ⟨p, hp, rfl⟩ := List.mem_map.1 ha
    intro heq
    simp only [pkey, Prod.mk.injEq] at heq
    exact hno p hp heq
  · intro p hp
    rcases List.mem_append.1 hp with hp | hp
    · exact inv.soundApp p hp
    · simp only [List.mem_singleton] at hp; subst hp; exact Or.inl rfl
  · intro p hp
    rcases List.mem_append.1 hp with hp | hp
    · exact inv.soundRank p hp
    · simp only [List.mem_singleton] at hp; subst hp; exact Or.inl ⟨rfl, rfl⟩
  · intro n' pid' a h
    obtain ⟨h1, p, hp, h2⟩ := inv.completeApp n' pid' a h
    exact ⟨h1, p, List.mem_append_left _ hp, h2⟩
  · intro n' pid' r k h
    obtain ⟨p, hp, h2⟩ := inv.completeRank n' pid' r k h
    exact ⟨p, List.mem_append_left _ hp, h2⟩

/-- Replacing the row of `(n, pid)` by the result of `proc_load_metadata`. -/
theorem ProcInv.update {A : List AFact} {R : List RFact} {procs : List ProcRow}
    (inv : ProcInv A R procs) {p p1 p' : ProcRow} {s : StreamMeta}
    (hp : p ∈ procs) (ha : loadAppid p s.appId = .ok p1) (hr : loadRank p1 s.rank s.nranks = .ok p') :
    ProcInv (A ++ appF p.loom p.pid s.appId) (R ++ rankF p.loom p.pid s.rank s.nranks)
      (setProc procs p.loom p.pid p') := by
  obtain ⟨a1, a2, a3, a4, a5, a6⟩ := loadAppid_ok ha
  obtain ⟨r1, r2, r3, r5, r6⟩ := loadRank_ok hr
  have hk : p'.loom = p.loom ∧ p'.pid = p.pid := ⟨by rw [r1, a1], by rw [r2, a2]⟩
  have huniq : ∀ q ∈ procs, q.loom = p.loom → q.pid = p.pid → q = p :=
    fun q hq h1 h2 => inv.key_inj hq hp h1 h2
  refine ⟨?_, ?_, ?_, ?_, ?_⟩
  · rw [setProc_map_pkey hk]; exact inv.nodup
  · intro q hq
    rcases mem_setProc.1 hq with ⟨hq, _⟩ | ⟨rfl, _⟩
    · rcases inv.soundApp q hq with h | h
      · exact Or.inl h
      · exact Or.inr ⟨List.mem_append_left _ h.1, h.2⟩
    · rw [r3, hk.1, hk.2]
      cases hx : s.appId with
      | none =>
        rw [a5 hx]
        rcases inv.soundApp p hp with h | h
        · exact Or.inl h
        · exact Or.inr ⟨List.mem_append_left _ h.1, h.2⟩
      | some a =>
        obtain ⟨e1, e2, _⟩ := a6 a hx
        rw [e1]
        exact Or.inr ⟨List.mem_append_right _ (by simp [appF]), e2⟩
  · intro q hq
    rcases mem_setProc.1 hq with ⟨hq, _⟩ | ⟨rfl, _⟩
    · rcases inv.soundRank q hq with h | h
      · exact Or.inl h
      · exact Or.inr ⟨List.mem_append_left _ h.1, h.2⟩
    · rw [hk.1, hk.2]
      cases hx : s.rank with
      | none =>
        obtain ⟨e1, e2⟩ := r5 hx
        rw [e1, e2, a3, a4]
        rcases inv.soundRank p hp with h | h
        · exact Or.inl h
        · exact Or.inr ⟨List.mem_append_left _ h.1, h.2⟩
      | some r =>
        obtain ⟨nr, e0, e1, e2, e3, e4, _⟩ := r6 r hx
        rw [e1, e2]
        exact Or.inr ⟨List.mem_append_right _ (by simp [rankF, e0]), e3, e4⟩
  · intro n pid a hm
    rcases List.mem_append.1 hm with hm | hm
    · obtain ⟨hpos, q, hq, h1, h2, h3⟩ := inv.completeApp n pid a hm
      refine ⟨hpos, ?_⟩
      by_cases hkq : q.loom = p.loom ∧ q.pid = p.pid
      · have := huniq q hq hkq.1 hkq.2
        subst this
        refine ⟨p', mem_setProc.2 (Or.inr ⟨rfl, q, hq, rfl, rfl⟩), by rw [hk.1, h1], by rw [hk.2, h2], ?_⟩
        rw [r3]
        cases hx : s.appId with
        | none => rw [a5 hx, h3]
        | some b =>
          obtain ⟨e1, _, e3⟩ := a6 b hx
          rw [e1]
          rcases e3 with e3 | e3 <;> omega
      · exact ⟨q, mem_setProc.2 (Or.inl ⟨hq, hkq⟩), h1, h2, h3⟩
    · cases hx : s.appId with
      | none => simp [appF, hx] at hm
      | some b =>
        simp only [appF, hx, List.mem_singleton, Prod.mk.injEq] at hm
        obtain ⟨rfl, rfl, rfl⟩ := hm
        obtain ⟨e1, e2, _⟩ := a6 a hx
        exact ⟨e2, p', mem_setProc.2 (Or.inr ⟨rfl, p, hp, rfl, rfl⟩), hk.1, hk.2, by rw [r3, e1]⟩
  · intro n pid r k hm
    rcases List.mem_append.1 hm with hm | hm
    · obtain ⟨q, hq, h1, h2, h3, h4, h5, h6⟩ := inv.completeRank n pid r k hm
      by_cases hkq : q.loom = p.loom ∧ q.pid = p.pid
      · have := huniq q hq hkq.1 hkq.2
        subst this
        refine ⟨p', mem_setProc.2 (Or.inr ⟨rfl, q, hq, rfl, rfl⟩), by rw [hk.1, h1], by rw [hk.2, h2], ?_⟩
        cases hx : s.rank with
        | none =>
          obtain ⟨e1, e2⟩ := r5 hx
          rw [e1, e2, a3, a4]
          exact ⟨h3, h4, h5, h6⟩
        | some r' =>
          obtain ⟨nr, e0, e1, e2, e3, e4, e5, e6⟩ := r6 r' hx
          rw [a3] at e5
          rw [a4] at e6
          have : q.rank = r' := by rcases e5 with e5 | e5 <;> omega
          have : q.nranks = nr := by rcases e6 with e6 | e6 <;> omega
          rw [e1, e2]
          refine ⟨by omega, ?_, h5, by omega⟩
          rw [h4]; congr 1
      · exact ⟨q, mem_setProc.2 (Or.inl ⟨hq, hkq⟩), h1, h2, h3, h4, h5, h6⟩
    · cases hx : s.rank with
      | none => simp [rankF, hx] at hm
      | some r' =>
        simp only [rankF, hx, List.mem_singleton, Prod.mk.injEq] at hm
        obtain ⟨rfl, rfl, rfl, rfl⟩ := hm
        obtain ⟨nr, e0, e1, e2, e3, e4, _⟩ := r6 r hx
        exact ⟨p', mem_setProc.2 (Or.inr ⟨rfl, p, hp, rfl, rfl⟩), hk.1, hk.2, e1, by rw [e0, e2], e3, by rw [e2]; exact e4⟩

/-! ### create_proc -/

/-- The table after the "create when missing" half of `create_proc`. -/
def procs1 (procs : List ProcRow) (n : Str) (pid : Int) : List ProcRow :=
  match findProc procs n pid with
  | some _ => procs
  | none => procs ++ [⟨n, pid, 0, -1, 0⟩]

theorem procs1_spec {A : List AFact} {R : List RFact} {procs : List ProcRow}
    (inv : ProcInv A R procs) (n : Str) (pid : Int) :
    ProcInv A R (procs1 procs n pid) ∧
    (∃ p, findProc (procs1 procs n pid) n pid = some p) ∧
    (procs1 procs n pid).map pkey =
      (if (n, pid) ∈ procs.map pkey then procs.map pkey else procs.map pkey ++ [(n, pid)]) := by
  unfold procs1
  cases h : findProc procs n pid with
  | some p =>
    obtain ⟨hm, h1, h2⟩ := findProc_some h
    refine ⟨inv, ⟨p, h⟩, ?_⟩
    have : (n, pid) ∈ procs.map pkey := List.mem_map.2 ⟨p, hm, by simp [pkey, h1, h2]⟩
    simp [this]
  | none =>
    have hno := findProc_none h
    refine ⟨inv.weaken_new n pid hno, ?_, ?_⟩
    · exact findProc_isSome_of_mem (p := ⟨n, pid, 0, -1, 0⟩) (List.mem_append_right _ (by simp)) ⟨rfl, rfl⟩
    · have : (n, pid) ∉ procs.map pkey := by
        intro hm
        obtain ⟨p, hp, hk⟩ := List.mem_map.1 hm
        simp only [pkey, Prod.mk.injEq] at hk
        exact hno p hp hk
      simp [this, pkey]

theorem createProc_unfold (procs : List ProcRow) (n : Str) (s : StreamMeta) :
    createProc procs n s =
      if s.tp.pid ≤ 0 then .error .pid
      else match findProc (procs1 procs n s.tp.pid) n s.tp.pid with
        | none => .ok (procs1 procs n s.tp.pid)
        | some p => (loadProc p s).bind fun p' => .ok (setProc (procs1 procs n s.tp.pid) n s.tp.pid p') := by
  rfl

theorem createProc_ok {A : List AFact} {R : List RFact} {procs procs' : List ProcRow} {n : Str}
    {s : StreamMeta} (h : createProc procs n s = .ok procs') (inv : ProcInv A R procs) :
    0 < s.tp.pid ∧
    ProcInv (A ++ appF n s.tp.pid s.appId) (R ++ rankF n s.tp.pid s.rank s.nranks) procs' ∧
    procs'.map pkey =
      (if (n, s.tp.pid) ∈ procs.map pkey then procs.map pkey else procs.map pkey ++ [(n, s.tp.pid)]) := by
  rw [createProc_unfold] at h
  split at h
  · cases h
  rename_i hpid
  obtain ⟨inv1, ⟨p, hf⟩, hkeys⟩ := procs1_spec inv n s.tp.pid
  rw [hf] at h
  simp only at h
  obtain ⟨hpm, hl, hp⟩ := findProc_some hf
  unfold loadProc at h
  cases ha : loadAppid p s.appId with
  | error e => rw [ha] at h; simp [Res.bind] at h
  | crash => rw [ha] at h; simp [Res.bind] at h
  | ok p1 =>
    rw [ha] at h
    simp only [Res.bind] at h
    cases hr : loadRank p1 s.rank s.nranks with
    | error e => rw [hr] at h; simp at h
    | crash => rw [hr] at h; simp at h
    | ok p' =>
      rw [hr] at h
      simp only [Res.ok.injEq] at h
      subst h
      have := inv1.update hpm ha hr
      rw [hl, hp] at this
      refine ⟨by omega, this, ?_⟩
      obtain ⟨a1, a2, _⟩ := loadAppid_ok ha
      obtain ⟨r1, r2, _⟩ := loadRank_ok hr
      rw [setProc_map_pkey ⟨by rw [r1, a1, hl], by rw [r2, a2, hp]⟩, hkeys]

theorem createProc_error {A : List AFact} {R : List RFact} {procs : List ProcRow} {n : Str}
    {s : StreamMeta} {e : Err} (h : createProc procs n s = .error e) (inv : ProcInv A R procs) :
    s.tp.pid ≤ 0 ∨
    ¬ (AppOK (A ++ appF n s.tp.pid s.appId) ∧ RankOK (R ++ rankF n s.tp.pid s.rank s.nranks)) := by
  rw [createProc_unfold] at h
  split at h
  · rename_i hpid; exact Or.inl hpid
  right
  obtain ⟨inv1, ⟨p, hf⟩, _⟩ := procs1_spec inv n s.tp.pid
  rw [hf] at h
  simp only at h
  obtain ⟨hpm, hl, hp⟩ := findProc_some hf
  unfold loadProc at h
  rintro ⟨aok, rok⟩
  cases ha : loadAppid p s.appId with
  | crash => exact loadAppid_ne_crash _ _ ha
  | error e1 =>
    obtain ⟨a, hx, hbad⟩ := loadAppid_error ha
    have hnew : (n, s.tp.pid, a) ∈ A ++ appF n s.tp.pid s.appId :=
      List.mem_append_right _ (by simp [appF, hx])
    rcases hbad with ⟨h0, hne⟩ | hle
    · rcases inv1.soundApp p hpm with h | h
      · exact h0 h
      · have hold : (n, s.tp.pid, p.appid) ∈ A ++ appF n s.tp.pid s.appId := by
          apply List.mem_append_left
          rw [← hl, ← hp]; exact h.1
        exact hne (aok.2 _ _ _ _ hold hnew)
    · have := aok.1 _ _ _ hnew
      omega
  | ok p1 =>
    rw [ha] at h
    simp only [Res.bind] at h
    obtain ⟨a1, a2, a3, a4, _⟩ := loadAppid_ok ha
    cases hr : loadRank p1 s.rank s.nranks with
    | crash => exact loadRank_ne_crash _ _ _ hr
    | ok p' => rw [hr] at h; simp at h
    | error e1 =>
      obtain ⟨r, hx, hbad⟩ := loadRank_error hr
      have hnew : (n, s.tp.pid, r, s.nranks) ∈ R ++ rankF n s.tp.pid s.rank s.nranks :=
        List.mem_append_right _ (by simp [rankF, hx])
      obtain ⟨nr, hk, h0r, hrn⟩ := rok.1 _ _ _ _ hnew
      rw [a3, a4] at hbad
      have hold : ¬ (p.rank = -1 ∧ p.nranks = 0) →
          (n, s.tp.pid, p.rank, some p.nranks) ∈ R ++ rankF n s.tp.pid s.rank s.nranks := by
        intro hnn
        rcases inv1.soundRank p hpm with h | h
        · exact absurd h hnn
        · apply List.mem_append_left
          rw [← hl, ← hp]; exact h.1
      have hsr := inv1.soundRank p hpm
      rcases hbad with h1 | ⟨h1, h2⟩ | h1 | ⟨nr', hk', h1 | ⟨h1, h2⟩ | h1⟩
      · omega
      · have := hold (by omega)
        exact h2 (rok.2 _ _ _ _ _ _ this hnew).1
      · rw [h1] at hk; cases hk
      · rw [hk] at hk'; cases hk'; omega
      · rw [hk] at hk'; cases hk'
        have := hold (by omega)
        have := (rok.2 _ _ _ _ _ _ this hnew).2
        rw [hk] at this
        cases this
        exact h2 rfl
      · rw [hk] at hk'; cases hk'; omega

theorem createProc_ne_crash (procs : List ProcRow) (n : Str) (s : StreamMeta) :
    createProc procs n s ≠ .crash := by
  rw [createProc_unfold]
  split
  · simp
  split
  · simp
  · unfold loadProc
    rename_i p _
    cases ha : loadAppid p s.appId with
    | crash => exact absurd ha (loadAppid_ne_crash _ _)
    | error e => simp [Res.bind]
    | ok p1 =>
      simp only [Res.bind]
      cases hr : loadRank p1 s.rank s.nranks with
      | crash => exact absurd hr (loadRank_ne_crash _ _ _)
      | error e => simp
      | ok p' => simp

end Ovni.Emu.System
