import OvniModel.Lemmas.JsonBasic

/-! The extension lemma: a successful parse splits its input into the text it
    consumed and the rest, and the consumed text parses to the same value in
    front of any other rest (for numbers: any rest that starts with the same
    stop character).  Closed values are therefore prefix-free. -/
namespace Ovni.Json

theorem stopHead_ws {w : List Nat} (hw : ∀ x ∈ w, isSpace x = true) {d : Nat} (hd : isStop d = true)
    (x x' : List Nat) : StopHead (w ++ d :: x) (w ++ d :: x') := by
  cases w with
  | nil => exact ⟨d, x, x', hd, rfl, rfl⟩
  | cons a w' =>
    refine ⟨a, w' ++ d :: x, w' ++ d :: x', ?_, rfl, rfl⟩
    have := hw a (List.mem_cons_self ..)
    simp [isStop, this]

/-- the white space in front of `skipWs r` -/
theorem skipWs_split (r : List Nat) : ∃ w, r = w ++ skipWs r ∧ ∀ x ∈ w, isSpace x = true :=
  ⟨r.takeWhile isSpace, (List.takeWhile_append_dropWhile).symm, fun _ hx => mem_takeWhile hx⟩

def ExtV (f : Nat) : Prop := ∀ n s v r, parseValue f n s = .ok (v, r) →
  ∃ c, s = c ++ r ∧ ∀ r', (closed v = true ∨ StopHead r r') → parseValue f n (c ++ r') = .ok (v, r')
def ExtM (f : Nat) : Prop := ∀ n s seen ms r, parseMembers f n s seen = .ok (ms, r) →
  ∃ c, s = c ++ r ∧ c ≠ [] ∧ ∀ r', parseMembers f n (c ++ r') seen = .ok (ms, r')
def ExtE (f : Nat) : Prop := ∀ n s vs r, parseElems f n s = .ok (vs, r) →
  ∃ c, s = c ++ r ∧ c ≠ [] ∧ ∀ r', parseElems f n (c ++ r') = .ok (vs, r')

theorem extV_succ {f : Nat} (hM : ExtM f) (hE : ExtE f) : ExtV (f + 1) := by
  intro n s v r h
  rw [parseValue.eq_2] at h
  split at h
  · cases h
  rename_i hn
  split at h
  · cases h
  rename_i c t heq
  obtain ⟨w, hs, hw⟩ := skipWs_eq_cons heq
  have hcns := skipWs_head_not_space heq
  split at h
  · -- object
    rename_i hc
    subst hc
    split at h
    · cases h
    rename_i d t' heq2
    obtain ⟨w2, ht, hw2⟩ := skipWs_eq_cons heq2
    have hdns := skipWs_head_not_space heq2
    split at h
    · rename_i hd
      subst hd
      simp only [Res.ok.injEq, Prod.mk.injEq] at h
      obtain ⟨rfl, rfl⟩ := h
      refine ⟨w ++ 123 :: (w2 ++ [125]), by rw [hs, ht]; simp, fun r' _ => ?_⟩
      have e1 : (w ++ 123 :: (w2 ++ [125])) ++ r' = w ++ 123 :: (w2 ++ 125 :: r') := by simp
      rw [e1, parseValue.eq_2, if_neg hn, skipWs_ws_cons hw hcns]
      simp only [if_true]
      rw [skipWs_ws_cons hw2 hdns]
      simp
    · rename_i hd
      obtain ⟨⟨ms, rest⟩, hpm, h2⟩ := Res.bind_eq_ok.1 h
      simp only [Res.ok.injEq, Prod.mk.injEq] at h2
      obtain ⟨rfl, rfl⟩ := h2
      obtain ⟨cm, hcm, hne, hext⟩ := hM _ _ _ _ _ hpm
      cases cm with
      | nil => exact absurd rfl hne
      | cons a cm' =>
        simp only [List.cons_append, List.cons.injEq] at hcm
        obtain ⟨rfl, hcm⟩ := hcm
        refine ⟨w ++ 123 :: (w2 ++ d :: cm'), by rw [hs, ht, hcm]; simp, fun r' _ => ?_⟩
        have e1 : (w ++ 123 :: (w2 ++ d :: cm')) ++ r' = w ++ 123 :: (w2 ++ d :: (cm' ++ r')) := by simp
        rw [e1, parseValue.eq_2, if_neg hn, skipWs_ws_cons hw hcns]
        simp only [if_true]
        rw [skipWs_ws_cons hw2 hdns]
        simp only [hd, if_false]
        have := hext r'
        simp only [List.cons_append] at this
        rw [this]; rfl
  · split at h
    · -- array
      rename_i hc0 hc
      subst hc
      split at h
      · cases h
      rename_i d t' heq2
      obtain ⟨w2, ht, hw2⟩ := skipWs_eq_cons heq2
      have hdns := skipWs_head_not_space heq2
      split at h
      · rename_i hd
        subst hd
        simp only [Res.ok.injEq, Prod.mk.injEq] at h
        obtain ⟨rfl, rfl⟩ := h
        refine ⟨w ++ 91 :: (w2 ++ [93]), by rw [hs, ht]; simp, fun r' _ => ?_⟩
        have e1 : (w ++ 91 :: (w2 ++ [93])) ++ r' = w ++ 91 :: (w2 ++ 93 :: r') := by simp
        rw [e1, parseValue.eq_2, if_neg hn, skipWs_ws_cons hw hcns]
        simp only [if_true]
        rw [skipWs_ws_cons hw2 hdns]
        simp
      · rename_i hd
        obtain ⟨⟨vs, rest⟩, hpe, h2⟩ := Res.bind_eq_ok.1 h
        simp only [Res.ok.injEq, Prod.mk.injEq] at h2
        obtain ⟨rfl, rfl⟩ := h2
        obtain ⟨cm, hcm, hne, hext⟩ := hE _ _ _ _ hpe
        cases cm with
        | nil => exact absurd rfl hne
        | cons a cm' =>
          simp only [List.cons_append, List.cons.injEq] at hcm
          obtain ⟨rfl, hcm⟩ := hcm
          refine ⟨w ++ 91 :: (w2 ++ d :: cm'), by rw [hs, ht, hcm]; simp, fun r' _ => ?_⟩
          have e1 : (w ++ 91 :: (w2 ++ d :: cm')) ++ r' = w ++ 91 :: (w2 ++ d :: (cm' ++ r')) := by simp
          rw [e1, parseValue.eq_2, if_neg hn, skipWs_ws_cons hw hcns]
          simp only [if_true]
          rw [skipWs_ws_cons hw2 hdns]
          simp only [hd, if_false]
          have := hext r'
          simp only [List.cons_append] at this
          rw [this]; rfl
    · -- scalar
      rename_i hc1 hc2
      obtain ⟨cs, hcs, hext⟩ := parseScalar_ext h
      refine ⟨w ++ cs, by rw [hs, hcs]; simp, fun r' hr' => ?_⟩
      obtain ⟨hne, hp⟩ := hext r' hr'
      cases cs with
      | nil => exact absurd rfl hne
      | cons a cs' =>
        simp only [List.cons_append, List.cons.injEq] at hcs
        obtain ⟨rfl, hcs⟩ := hcs
        have e1 : (w ++ c :: cs') ++ r' = w ++ c :: (cs' ++ r') := by simp
        rw [e1, parseValue.eq_2, if_neg hn, skipWs_ws_cons hw hcns]
        simp only [hc1, hc2, if_false]
        simpa using hp

theorem isStop_of_space {a : Nat} (h : isSpace a = true) : isStop a = true := by simp [isStop, h]

theorem extM_succ {f : Nat} (hV : ExtV f) (hM : ExtM f) : ExtM (f + 1) := by
  intro n s seen ms r h
  rw [parseMembers.eq_2] at h
  split at h
  · cases h
  rename_i key r1 hq
  obtain ⟨ck, hs, hqext⟩ := quotedString_split hq
  split at h
  · cases h
  rename_i hk0
  split at h
  · cases h
  rename_i c r2 heq1
  obtain ⟨w1, hr1, hw1⟩ := skipWs_eq_cons heq1
  have hcns := skipWs_head_not_space heq1
  split at h
  · cases h
  rename_i hc
  have hc : c = 58 := by simpa using hc
  subst hc
  obtain ⟨⟨v, r3⟩, hpv, h2⟩ := Res.bind_eq_ok.1 h
  obtain ⟨cv, hr2, hvext⟩ := hV _ _ _ _ hpv
  simp only at h2
  split at h2
  · cases h2
  rename_i hseen
  split at h2
  · cases h2
  rename_i d r4 heq3
  obtain ⟨w3, hr3, hw3⟩ := skipWs_eq_cons heq3
  have hdns := skipWs_head_not_space heq3
  split at h2
  · -- another member follows
    rename_i hd
    subst hd
    obtain ⟨⟨ms', rest⟩, hpm, h3⟩ := Res.bind_eq_ok.1 h2
    simp only [Res.ok.injEq, Prod.mk.injEq] at h3
    obtain ⟨rfl, rfl⟩ := h3
    obtain ⟨cm, hcm, hne, hmext⟩ := hM _ _ _ _ _ hpm
    obtain ⟨w4, hr4, hw4⟩ := skipWs_split r4
    have hcmh : ∀ a cm', cm = a :: cm' → isSpace a = false := by
      intro a cm' e
      rw [e] at hcm
      exact skipWs_head_not_space (c := a) (r := cm' ++ rest) (by rw [skipWs_idem]; exact hcm)
    refine ⟨34 :: ck ++ (w1 ++ 58 :: (cv ++ (w3 ++ 44 :: (w4 ++ cm)))), ?_, by simp, fun r' => ?_⟩
    · rw [hs, hr1, hr2, hr3, hr4, hcm]; simp
    · have e1 : (34 :: ck ++ (w1 ++ 58 :: (cv ++ (w3 ++ 44 :: (w4 ++ cm))))) ++ r'
          = 34 :: ck ++ (w1 ++ 58 :: (cv ++ (w3 ++ 44 :: (w4 ++ (cm ++ r'))))) := by simp
      rw [e1, parseMembers.eq_2, hqext]
      simp only [hk0]
      rw [skipWs_ws_cons hw1 hcns]
      simp only [ne_eq, not_true_eq_false, if_false]
      rw [hvext _ (Or.inr (by rw [hr3]; exact stopHead_ws hw3 (by simp [isStop]) _ _))]
      simp only [Res.bind_ok, hseen]
      rw [skipWs_ws_cons hw3 hdns]
      simp only [if_true]
      cases cm with
      | nil => exact absurd rfl hne
      | cons a cm' =>
        rw [List.cons_append, skipWs_ws_cons hw4 (hcmh a cm' rfl)]
        have := hmext r'
        simp only [List.cons_append] at this
        rw [this]; rfl
  · split at h2
    · -- closing brace
      rename_i hd44 hd
      subst hd
      simp only [Res.ok.injEq, Prod.mk.injEq] at h2
      obtain ⟨rfl, rfl⟩ := h2
      refine ⟨34 :: ck ++ (w1 ++ 58 :: (cv ++ (w3 ++ [125]))), ?_, by simp, fun r' => ?_⟩
      · rw [hs, hr1, hr2, hr3]; simp
      · have e1 : (34 :: ck ++ (w1 ++ 58 :: (cv ++ (w3 ++ [125])))) ++ r'
            = 34 :: ck ++ (w1 ++ 58 :: (cv ++ (w3 ++ 125 :: r'))) := by simp
        rw [e1, parseMembers.eq_2, hqext]
        simp only [hk0]
        rw [skipWs_ws_cons hw1 hcns]
        simp only [ne_eq, not_true_eq_false, if_false]
        rw [hvext _ (Or.inr (by rw [hr3]; exact stopHead_ws hw3 (by simp [isStop]) _ _))]
        simp only [Res.bind_ok, hseen]
        rw [skipWs_ws_cons hw3 hdns]
        simp
    · cases h2

theorem extE_succ {f : Nat} (hV : ExtV f) (hE : ExtE f) : ExtE (f + 1) := by
  intro n s vs r h
  cases s with
  | nil => rw [parseElems.eq_2] at h; cases h
  | cons s0 s1 =>
  rw [parseElems.eq_3] at h
  obtain ⟨⟨v, r3⟩, hpv, h2⟩ := Res.bind_eq_ok.1 h
  obtain ⟨cv, hr2, hvext⟩ := hV _ _ _ _ hpv
  simp only at h2
  split at h2
  · cases h2
  rename_i d r4 heq3
  obtain ⟨w3, hr3, hw3⟩ := skipWs_eq_cons heq3
  have hdns := skipWs_head_not_space heq3
  split at h2
  · rename_i hd
    subst hd
    obtain ⟨⟨vs', rest⟩, hpe, h3⟩ := Res.bind_eq_ok.1 h2
    simp only [Res.ok.injEq, Prod.mk.injEq] at h3
    obtain ⟨rfl, rfl⟩ := h3
    obtain ⟨cm, hcm, hne, heext⟩ := hE _ _ _ _ hpe
    obtain ⟨w4, hr4, hw4⟩ := skipWs_split r4
    have hcmh : ∀ a cm', cm = a :: cm' → isSpace a = false := by
      intro a cm' e
      rw [e] at hcm
      exact skipWs_head_not_space (c := a) (r := cm' ++ rest) (by rw [skipWs_idem]; exact hcm)
    refine ⟨cv ++ (w3 ++ 44 :: (w4 ++ cm)), ?_, by simp, fun r' => ?_⟩
    · rw [hr2, hr3, hr4, hcm]; simp
    · have e1 : (cv ++ (w3 ++ 44 :: (w4 ++ cm))) ++ r' = cv ++ (w3 ++ 44 :: (w4 ++ (cm ++ r'))) := by simp
      have hvx := hvext (w3 ++ 44 :: (w4 ++ (cm ++ r')))
        (Or.inr (by rw [hr3]; exact stopHead_ws hw3 (by simp [isStop]) _ _))
      rw [e1]
      cases hcv : cv ++ (w3 ++ 44 :: (w4 ++ (cm ++ r'))) with
      | nil => simp at hcv
      | cons y ys =>
        rw [parseElems.eq_3, ← hcv, hvx]
        simp only [Res.bind_ok]
        rw [skipWs_ws_cons hw3 hdns]
        simp only [if_true]
        cases cm with
        | nil => exact absurd rfl hne
        | cons a cm' =>
          rw [List.cons_append, skipWs_ws_cons hw4 (hcmh a cm' rfl)]
          have := heext r'
          simp only [List.cons_append] at this
          rw [this]; rfl
  · split at h2
    · rename_i hd44 hd
      subst hd
      simp only [Res.ok.injEq, Prod.mk.injEq] at h2
      obtain ⟨rfl, rfl⟩ := h2
      refine ⟨cv ++ (w3 ++ [93]), ?_, by simp, fun r' => ?_⟩
      · rw [hr2, hr3]; simp
      · have e1 : (cv ++ (w3 ++ [93])) ++ r' = cv ++ (w3 ++ 93 :: r') := by simp
        have hvx := hvext (w3 ++ 93 :: r') (Or.inr (by rw [hr3]; exact stopHead_ws hw3 (by simp [isStop]) _ _))
        rw [e1]
        cases hcv : cv ++ (w3 ++ 93 :: r') with
        | nil => simp at hcv
        | cons y ys =>
          rw [parseElems.eq_3, ← hcv, hvx]
          simp only [Res.bind_ok]
          rw [skipWs_ws_cons hw3 hdns]
          simp
    · cases h2

theorem ext_all : ∀ f, ExtV f ∧ ExtM f ∧ ExtE f
  | 0 => by
    refine ⟨?_, ?_, ?_⟩
    · intro n s v r h; rw [parseValue.eq_1] at h; cases h
    · intro n s seen ms r h; rw [parseMembers.eq_1] at h; cases h
    · intro n s vs r h; rw [parseElems.eq_1] at h; cases h
  | f + 1 =>
    have ih := ext_all f
    ⟨extV_succ ih.2.1 ih.2.2, extM_succ ih.1 ih.2.1, extE_succ ih.1 ih.2.2⟩

/-- A successful `parse_value` consumed a prefix `c` of its input; in front of
    any other rest, `c` parses to the same value (for a number: any rest that
    begins with the same stop character). -/
theorem parseValue_ext {f n : Nat} {s : List Nat} {v : Json} {r : List Nat} (h : parseValue f n s = .ok (v, r)) :
    ∃ c, s = c ++ r ∧ ∀ r', (closed v = true ∨ StopHead r r') → parseValue f n (c ++ r') = .ok (v, r') :=
  (ext_all f).1 n s v r h

theorem parseValue_suffix {f n : Nat} {s : List Nat} {v : Json} {r : List Nat} (h : parseValue f n s = .ok (v, r)) :
    r <:+ s := by
  obtain ⟨c, hc, _⟩ := parseValue_ext h
  exact ⟨c, hc.symm⟩

theorem parseMembers_suffix {f n : Nat} {s : List Nat} {seen : List (List Nat)} {ms : Members} {r : List Nat}
    (h : parseMembers f n s seen = .ok (ms, r)) : r <:+ s := by
  obtain ⟨c, hc, _⟩ := (ext_all f).2.1 n s seen ms r h
  exact ⟨c, hc.symm⟩

theorem parseElems_suffix {f n : Nat} {s : List Nat} {vs : List Json} {r : List Nat}
    (h : parseElems f n s = .ok (vs, r)) : r <:+ s := by
  obtain ⟨c, hc, _⟩ := (ext_all f).2.2 n s vs r h
  exact ⟨c, hc.symm⟩

end Ovni.Json
