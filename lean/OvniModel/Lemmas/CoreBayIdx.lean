import OvniModel.Emu.View
import OvniModel.Lemmas.BayTopo

/-
  C06, last composition step (1/4): the bay the emulator connects for a given
  hierarchy.

  `Shape` = what `emu_init` knows when it connects: number of threads, number
  of CPUs, the channel specs of the enabled models (plus the run-time mark
  group).  `Src` names a *source* channel (thread state, a CPU's
  `th_running` / `th_active`, raw channel `i` of model number `k` of thread
  `g`); `Shape.addrs` is the order in which they are registered, so the bay id
  of a source is its position in that list (`Shape.idx`).  `Job` names one
  `track_th_input_chan` / one iteration of `connect_cpu`; `Shape.jobs` is the
  order in which `model_connect` performs them: per model, first
  `model_thread_connect` (thread, channel), then `model_cpu_connect` (CPU,
  channel) — so the select callbacks on a CPU's `th_running` are in model ×
  channel-index order.  The output channel of job number `j` is `L + j`.

  Not represented: the other system channels (thread `cpu` / `tid`, CPU
  `nrunning` / `pid` / `tid`): no mux reads them, their PRV rows are emitted
  from the raw channel (`emitRaw` in View.lean).  Channel ids differ from the C
  registration ids (there the track outputs are registered at create time);
  ids are only names, the dirty list is ordered by write time, the callback
  lists by `mux_init` order, which is the order modelled here.  Across models
  `model_connect` goes by model id, here by position in the spec list; no
  theorem depends on the cross-model order.
-/
namespace Ovni.Emu
open Ovni.Generated

/-- A source channel of the thread / CPU topology. -/
inductive Src where
  | st (g : Nat)
  | run (c : Nat)
  | act (c : Nat)
  | raw (g k i : Nat)
deriving DecidableEq, Repr

structure Shape where
  nT : Nat
  nC : Nat
  specs : List ModelSpec

def Shape.rawAddrs (σ : Shape) : List Src :=
  σ.specs.zipIdx.flatMap fun mk =>
    (List.range σ.nT).flatMap fun g => (List.range mk.1.nch).map (Src.raw g mk.2)

/-- Registration order of the source channels. -/
def Shape.addrs (σ : Shape) : List Src :=
  (List.range σ.nT).map Src.st ++
  ((List.range σ.nC).flatMap fun c => [Src.run c, Src.act c]) ++ σ.rawAddrs

/-- Number of source channels; ids below `L` are sources, above: track outputs. -/
def Shape.L (σ : Shape) : Nat := σ.addrs.length

/-- Bay id of a source channel. -/
def Shape.idx (σ : Shape) (s : Src) : Nat := σ.addrs.idxOf s

/-- The channel as `chan_init` + `chan_prop_set` leave it (`thread.c`, `cpu.c`,
    `model_thread.c: init_chan`). -/
def Shape.proto (σ : Shape) : Src → Chan
  | .st _ => {}
  | .run _ => { ignoreDup := true }
  | .act _ => { ignoreDup := true }
  | .raw _ k i =>
    match σ.specs[k]? with
    | some m => { isStack := m.chanStack.getD i false, allowDup := m.chanDup.getD i false }
    | none => {}

theorem Shape.mem_st (σ : Shape) (g : Nat) : Src.st g ∈ σ.addrs ↔ g < σ.nT := by
  simp [Shape.addrs, Shape.rawAddrs]

theorem Shape.mem_run (σ : Shape) (c : Nat) : Src.run c ∈ σ.addrs ↔ c < σ.nC := by
  simp [Shape.addrs, Shape.rawAddrs]

theorem Shape.mem_act (σ : Shape) (c : Nat) : Src.act c ∈ σ.addrs ↔ c < σ.nC := by
  simp [Shape.addrs, Shape.rawAddrs]

theorem Shape.mem_raw (σ : Shape) (g k i : Nat) :
    Src.raw g k i ∈ σ.addrs ↔ g < σ.nT ∧ ∃ m, σ.specs[k]? = some m ∧ i < m.nch := by
  simp only [Shape.addrs, Shape.rawAddrs, List.mem_append, List.mem_map, List.mem_flatMap,
    List.mem_range, List.mem_zipIdx_iff_getElem?]
  constructor
  · rintro ((⟨_, _, h⟩ | ⟨_, _, h⟩) | ⟨⟨m, k'⟩, hk, g', hg, i', hi, h⟩)
    · cases h
    · simp at h
    · cases h; exact ⟨hg, m, hk, hi⟩
  · rintro ⟨hg, m, hk, hi⟩
    exact Or.inr ⟨(m, k), hk, g, hg, i, hi, rfl⟩

theorem Shape.idx_lt (σ : Shape) {s : Src} (h : s ∈ σ.addrs) : σ.idx s < σ.L :=
  List.idxOf_lt_length_iff.mpr h

theorem Shape.getElem?_idx (σ : Shape) {s : Src} (h : s ∈ σ.addrs) : σ.addrs[σ.idx s]? = some s := by
  have hl := σ.idx_lt h
  rw [List.getElem?_eq_getElem hl]
  exact congrArg some (List.getElem_idxOf hl)

theorem Shape.idx_inj (σ : Shape) {s s' : Src} (h : s ∈ σ.addrs) (h' : s' ∈ σ.addrs)
    (e : σ.idx s = σ.idx s') : s = s' := by
  have h1 := σ.getElem?_idx h
  have h2 := σ.getElem?_idx h'
  rw [e, h2] at h1
  exact (Option.some.inj h1).symm

/-! ### the source channels -/

/-- `bay_register` of a list of channels, in order. -/
def Bay.registerAll (b : Bay) : List Chan → Bay
  | [] => b
  | c :: cs => Bay.registerAll (b.register c).1 cs

theorem Bay.registerAll_eq (cs : List Chan) : ∀ (b : Bay), b.registerAll cs =
    { b with chans := b.chans ++ cs, cbs := b.cbs ++ cs.map (fun _ => []),
             emits := b.emits ++ cs.map (fun _ => false) } := by
  induction cs with
  | nil => intro b; simp [Bay.registerAll]
  | cons c cs ih => intro b; simp [Bay.registerAll, ih, Bay.register]

theorem Bay.WF.registerAll (cs : List Chan) : ∀ (b : Bay), b.WF → (∀ c ∈ cs, c.dirty = false) →
    (b.registerAll cs).WF := by
  induction cs with
  | nil => intro b wf _; exact wf
  | cons c cs ih =>
    intro b wf h
    exact ih _ (wf.register c (h c (by simp))) (fun c' hc' => h c' (by simp [hc']))

/-- The bay with all source channels registered and nothing connected. -/
def Shape.bay0 (σ : Shape) : Bay := ({} : Bay).registerAll (σ.addrs.map σ.proto)

theorem Shape.proto_clean (σ : Shape) (s : Src) : (σ.proto s).dirty = false ∧ (σ.proto s).vals = [] ∧
    (σ.proto s).last = .null ∧ (σ.proto s).dirtyWrite = false := by
  cases s with
  | raw g k i =>
    cases h : σ.specs[k]? with
    | none => simp [Shape.proto, h]
    | some m => simp [Shape.proto, h]
  | _ => exact ⟨rfl, rfl, rfl, rfl⟩

theorem Shape.bay0_chans (σ : Shape) : σ.bay0.chans = σ.addrs.map σ.proto := by
  simp [Shape.bay0, Bay.registerAll_eq]

theorem Shape.bay0_topo (σ : Shape) : σ.bay0.Topo σ.L := by
  have hwf : σ.bay0.WF := Bay.WF.registerAll _ _ Bay.WF.empty (by
    intro c hc
    obtain ⟨s, _, rfl⟩ := List.mem_map.mp hc
    exact (σ.proto_clean s).1)
  have hmx : σ.bay0.muxes = [] := by simp [Shape.bay0, Bay.registerAll_eq]
  refine ⟨hwf, ?_, ?_, ?_, ?_⟩
  · intro mi m h; rw [hmx] at h; simp at h
  · intro c mj i h
    have : σ.bay0.cbsOf c = [] := by
      simp only [Shape.bay0, Bay.registerAll_eq, Bay.cbsOf, List.getD_eq_getElem?_getD]
      cases hx : (([] : List (List Cb)) ++ (σ.addrs.map σ.proto).map (fun _ => ([] : List Cb)))[c]? with
      | none => rfl
      | some l =>
        have := List.mem_of_getElem? hx
        simp at this
        simp [this.2]
    rw [this] at h; cases h
  · intro c
    simp only [Bay.chan, σ.bay0_chans, List.getD_eq_getElem?_getD, List.getElem?_map]
    cases hx : σ.addrs[c]? with
    | none => rfl
    | some s => simp [Chan.cur, (σ.proto_clean s).2.1]
  · rw [σ.bay0_chans]; simp [Shape.L]

theorem Shape.bay0_src (σ : Shape) {s : Src} (h : s ∈ σ.addrs) :
    σ.bay0.chans[σ.idx s]? = some (σ.proto s) := by
  rw [σ.bay0_chans, List.getElem?_map, σ.getElem?_idx h]; rfl

/-! ### the connection jobs -/

/-- One `track_th_input_chan(track[i], state, ch[i])` of thread `g`, or one
    iteration `i` of `connect_cpu` for CPU `c`; `k` is the model's position. -/
inductive Job where
  | th (g k i : Nat)
  | cpu (c k i : Nat)
deriving DecidableEq, Repr

/-- `model_connect`: per model, `model_thread_connect` then `model_cpu_connect`. -/
def Shape.jobs (σ : Shape) : List Job :=
  σ.specs.zipIdx.flatMap fun mk =>
    ((List.range σ.nT).flatMap fun g => (List.range mk.1.nch).map (Job.th g mk.2)) ++
    ((List.range σ.nC).flatMap fun c => (List.range mk.1.nch).map (Job.cpu c mk.2))

theorem Shape.mem_jobs_th (σ : Shape) (g k i : Nat) :
    Job.th g k i ∈ σ.jobs ↔ g < σ.nT ∧ ∃ m, σ.specs[k]? = some m ∧ i < m.nch := by
  simp only [Shape.jobs, List.mem_append, List.mem_map, List.mem_flatMap,
    List.mem_range, List.mem_zipIdx_iff_getElem?]
  constructor
  · rintro ⟨⟨m, k'⟩, hk, ⟨g', hg, i', hi, h⟩ | ⟨_, _, _, _, h⟩⟩
    · cases h; exact ⟨hg, m, hk, hi⟩
    · cases h
  · rintro ⟨hg, m, hk, hi⟩
    exact ⟨(m, k), hk, Or.inl ⟨g, hg, i, hi, rfl⟩⟩

theorem Shape.mem_jobs_cpu (σ : Shape) (c k i : Nat) :
    Job.cpu c k i ∈ σ.jobs ↔ c < σ.nC ∧ ∃ m, σ.specs[k]? = some m ∧ i < m.nch := by
  simp only [Shape.jobs, List.mem_append, List.mem_map, List.mem_flatMap,
    List.mem_range, List.mem_zipIdx_iff_getElem?]
  constructor
  · rintro ⟨⟨m, k'⟩, hk, ⟨_, _, _, _, h⟩ | ⟨c', hc, i', hi, h⟩⟩
    · cases h
    · cases h; exact ⟨hc, m, hk, hi⟩
  · rintro ⟨hc, m, hk, hi⟩
    exact ⟨(m, k), hk, Or.inr ⟨c, hc, i, hi, rfl⟩⟩

/-- `mux_set_default` value of the CPU track of channel `i` (what `cpuView`
    shows for a CPU without running thread). -/
def ModelSpec.cpuDflt (m : ModelSpec) (i : Nat) : Value :=
  match m.cpuDefault.find? (·.1 == i) with
  | some (_, v) => .int v
  | none => .null

/-- The raw channels `i` of model `k` of all threads, in `gindex` order: the
    inputs of a CPU track. -/
def Shape.rawsOf (σ : Shape) (k i : Nat) : List Nat := (List.range σ.nT).map fun g => σ.idx (.raw g k i)

/-- Perform one connection job; returns the track's output channel. -/
def Shape.runJob (σ : Shape) (b : Bay) : Job → Except Err (Bay × Nat)
  | .th g k i =>
    match σ.specs[k]? with
    | none => .error .other
    | some m => b.trackThread (m.thTrack.getD i 0) (σ.idx (.st g)) (σ.idx (.raw g k i))
  | .cpu c k i =>
    match σ.specs[k]? with
    | none => .error .other
    | some m =>
      -- "only TRACK_TH_RUN allowed"
      if m.cpuTrack.getD i trackRun = trackRun then
        b.trackCpu (σ.idx (.run c)) (σ.rawsOf k i) (m.cpuDflt i)
      else .error .other

def Shape.connectFrom (σ : Shape) : Bay → List Job → Except Err Bay
  | b, [] => .ok b
  | b, j :: js =>
    match σ.runJob b j with
    | .error e => .error e
    | .ok (b', _) => σ.connectFrom b' js

/-- `emu_connect` up to (not including) the initial `bay_propagate`. -/
def Shape.connect (σ : Shape) : Except Err Bay := σ.connectFrom σ.bay0 σ.jobs

/-- The mux a job creates, given its output channel (`none`: mode ANY, alias). -/
def Shape.muxOf (σ : Shape) : Job → Nat → Option Mux
  | .th g k i, out =>
    match σ.specs[k]? with
    | none => none
    | some m =>
      if m.thTrack.getD i 0 = trackAny then none
      else some { sel := σ.idx (.st g), out := out,
                  kind := if m.thTrack.getD i 0 = trackRun then .thRunning else .thActive,
                  inputs := [some (σ.idx (.raw g k i))] }
  | .cpu c k i, out =>
    match σ.specs[k]? with
    | none => none
    | some m => some { sel := σ.idx (.run c), out := out, kind := .byIndex,
                       inputs := (σ.rawsOf k i).map some, dflt := m.cpuDflt i }

/-- Output channel of the thread track (g, k, i): the raw channel itself for
    mode ANY, else the channel registered by the job. -/
def Shape.thOut (σ : Shape) (g k i : Nat) : Nat :=
  match σ.specs[k]? with
  | some m =>
    if m.thTrack.getD i 0 = trackAny then σ.idx (.raw g k i) else σ.L + σ.jobs.idxOf (.th g k i)
  | none => 0

/-- Output channel of the CPU track (c, k, i). -/
def Shape.cpuOut (σ : Shape) (c k i : Nat) : Nat := σ.L + σ.jobs.idxOf (.cpu c k i)

theorem Shape.getElem?_job (σ : Shape) {j : Job} (h : j ∈ σ.jobs) : σ.jobs[σ.jobs.idxOf j]? = some j := by
  have hl : σ.jobs.idxOf j < σ.jobs.length := List.idxOf_lt_length_iff.mpr h
  rw [List.getElem?_eq_getElem hl]
  exact congrArg some (List.getElem_idxOf hl)

end Ovni.Emu
