import OvniModel.Rt.Conc
import OvniModel.Lemmas.ConcSafe

/-! Helper lemmas for C11 (free to change): the compare-exchange race
    invariant, the effect of the winner, concrete configurations. -/
set_option linter.unusedSectionVars false
set_option linter.unusedSimpArgs false
set_option linter.unusedVariables false
namespace Ovni.Rt.Conc
open Ovni.Rt
variable {D : Type} [JData D]

/-! ## The compare-exchange race -/

/-- A later step of the winner: a plain store to an `rproc` member or a store
    to `st` of a value other than `frm`. -/
def Quiet (frm : PSt) : Step D → Prop
  | .procWrite _ _ => True
  | .st (.store v) => v ≠ frm
  | _ => False

/-- has not started its call -/
def Fresh (k : Call D) (x : Thr D) : Prop := x.dead = false ∧ x.wins = 0 ∧ x.pend = [] ∧ x.calls = [k]
/-- about to execute the compare-exchange -/
def Loaded (frm to : PSt) (r : List (Step D)) (x : Thr D) : Prop :=
  x.dead = false ∧ x.wins = 0 ∧ x.pend = .st (.cas frm to) :: r ∧ x.calls = []
/-- passed the compare-exchange -/
def Won (frm : PSt) (x : Thr D) : Prop :=
  x.dead = false ∧ x.wins = 1 ∧ x.calls = [] ∧ ∀ s ∈ x.pend, Quiet frm s
/-- failed the compare-exchange: die() -/
def Lost (x : Thr D) : Prop := x.dead = true ∧ x.wins = 0
def Idle (x : Thr D) : Prop := x.dead = false ∧ x.wins = 0 ∧ x.pend = [] ∧ x.calls = []

/-- The global part of the invariant. -/
def Gl (frm : PSt) (st : PSt) (th : Nat → Thr D) : Prop :=
  (st = frm → ∀ i, ¬ Won frm (th i) ∧ ¬ Lost (th i)) ∧
  (st ≠ frm → ∃ w, Won frm (th w)) ∧
  (∀ i k, Won frm (th i) → Won frm (th k) → i = k)

/-- The phase of every thread. -/
def Ph (frm to : PSt) (N : Nat) (kall : Nat → Call D) (rest : Nat → List (Step D)) (th : Nat → Thr D) : Prop :=
  ∀ i, (i < N ∧ (Fresh (kall i) (th i) ∨ Loaded frm to (rest i) (th i) ∨ Won frm (th i) ∨ Lost (th i)))
     ∨ (N ≤ i ∧ Idle (th i))

theorem gl_same {frm st st' : PSt} {th : Nat → Thr D} {j : Nat} {x' : Thr D}
    (h : Gl frm st th) (hst : st' = frm ↔ st = frm)
    (hw : Won frm x' ↔ Won frm (th j)) (hl : Lost x' ↔ Lost (th j)) :
    Gl frm st' (upd th j x') := by
  have W : ∀ i, Won frm (upd th j x' i) ↔ Won frm (th i) := by
    intro i; by_cases e : i = j
    · subst e; simpa using hw
    · simp [e]
  have L : ∀ i, Lost (upd th j x' i) ↔ Lost (th i) := by
    intro i; by_cases e : i = j
    · subst e; simpa using hl
    · simp [e]
  obtain ⟨h1, h2, h3⟩ := h
  refine ⟨?_, ?_, ?_⟩
  · intro e i; rw [W, L]; exact h1 (hst.mp e) i
  · intro e
    obtain ⟨w, hw'⟩ := h2 (fun e' => e (hst.mpr e'))
    exact ⟨w, (W w).mpr hw'⟩
  · intro i k a b; exact h3 i k ((W i).mp a) ((W k).mp b)

theorem ph_upd {frm to : PSt} {N : Nat} {kall : Nat → Call D} {rest : Nat → List (Step D)}
    {th : Nat → Thr D} {j : Nat} {x' : Thr D} (h : Ph frm to N kall rest th)
    (hj : (j < N ∧ (Fresh (kall j) x' ∨ Loaded frm to (rest j) x' ∨ Won frm x' ∨ Lost x')) ∨ (N ≤ j ∧ Idle x')) :
    Ph frm to N kall rest (upd th j x') := by
  intro i
  by_cases e : i = j
  · subst e; simpa using hj
  · simpa [e] using h i

/-- The invariant of a race of `N` threads for `compare_exchange(frm → to)`. -/
structure RaceInv (frm to : PSt) (N : Nat) (kall : Nat → Call D) (rest : Nat → List (Step D)) (c : Cfg D) : Prop where
  ph : Ph frm to N kall rest c.th
  gl : Gl frm c.g.st c.th

theorem not_won_of_wins0 {frm : PSt} {x : Thr D} (h : x.wins = 0) : ¬ Won frm x := by
  intro w; have := w.2.1; omega

theorem not_lost_of_alive {x : Thr D} (h : x.dead = false) : ¬ Lost x := by
  intro l; have := l.1; simp [h] at this

theorem not_won_of_dead {frm : PSt} {x : Thr D} (h : x.dead = true) : ¬ Won frm x := by
  intro w; have := w.1; simp [h] at this

/-- One tick preserves the race invariant. -/
theorem raceInv_tick (fp : Foot) (cap : Nat) {frm to : PSt} (hne : frm ≠ to) {N : Nat}
    {kall : Nat → Call D} {rest : Nat → List (Step D)}
    (hexp : ∀ i t, expand fp t (kall i) = .st (.cas frm to) :: rest i)
    (hq : ∀ i, ∀ s ∈ rest i, Quiet frm s)
    (c : Cfg D) (h : RaceInv frm to N kall rest c) (j : Nat) :
    RaceInv frm to N kall rest (tick fp cap c j) := by
  obtain ⟨ph, gl⟩ := h
  rcases ph j with ⟨hjN, hf | hl | hw | hd⟩ | ⟨hjN, hi⟩
  · -- fresh: the call is expanded
    obtain ⟨d, w, p, k⟩ := hf
    have e : tickEff fp cap c.g (c.th j) =
        ⟨c.g, { (c.th j) with pend := .st (.cas frm to) :: rest j, calls := [] }, none⟩ := by
      simp [tickEff, d, p, k, hexp]
    constructor
    · simp only [tick_th, e]
      exact ph_upd ph (Or.inl ⟨hjN, Or.inr (Or.inl ⟨d, w, rfl, rfl⟩)⟩)
    · simp only [tick_th, tick_g, e]
      exact gl_same gl Iff.rfl
        ⟨fun a => absurd a (not_won_of_wins0 w), fun a => absurd a (not_won_of_wins0 w)⟩
        ⟨fun a => absurd a (not_lost_of_alive d), fun a => absurd a (not_lost_of_alive d)⟩
  · -- loaded: the compare-exchange
    obtain ⟨d, w, p, k⟩ := hl
    by_cases hst : c.g.st = frm
    · have e : tickEff fp cap c.g (c.th j) =
          ⟨{ c.g with st := to }, { (c.th j) with pend := rest j, wins := 1 }, none⟩ := by
        simp [tickEff, stepEff, d, p, hst, w]
      have won' : Won frm ({ (c.th j) with pend := rest j, wins := 1 } : Thr D) := ⟨d, rfl, k, hq j⟩
      obtain ⟨g1, g2, g3⟩ := gl
      have none_before := g1 hst
      constructor
      · simp only [tick_th, e]
        exact ph_upd ph (Or.inl ⟨hjN, Or.inr (Or.inr (Or.inl won'))⟩)
      · simp only [tick_th, tick_g, e]
        have W : ∀ i, Won frm (upd c.th j ({ (c.th j) with pend := rest j, wins := 1 } : Thr D) i) → i = j := by
          intro i a
          by_cases e' : i = j
          · exact e'
          · rw [upd_other _ _ e'] at a; exact absurd a (none_before i).1
        refine ⟨fun e' => absurd e' (Ne.symm hne), fun _ => ⟨j, by simpa using won'⟩, ?_⟩
        intro i k' a b; rw [W i a, W k' b]
    · have e : tickEff fp cap c.g (c.th j) = ⟨c.g, { (c.th j) with pend := rest j, dead := true }, none⟩ := by
        simp [tickEff, stepEff, d, p, hst]
      constructor
      · simp only [tick_th, e]
        exact ph_upd ph (Or.inl ⟨hjN, Or.inr (Or.inr (Or.inr ⟨rfl, w⟩))⟩)
      · simp only [tick_th, tick_g, e]
        obtain ⟨g1, g2, g3⟩ := gl
        have W : ∀ i, Won frm (upd c.th j ({ (c.th j) with pend := rest j, dead := true } : Thr D) i) ↔
            Won frm (c.th i) := by
          intro i
          by_cases e' : i = j
          · subst e'
            simp only [upd_same]
            exact ⟨fun a => absurd a (not_won_of_dead rfl), fun a => absurd a (not_won_of_wins0 w)⟩
          · simp [e']
        refine ⟨fun e' => absurd e' hst, fun _ => ?_, ?_⟩
        · obtain ⟨w', hw'⟩ := g2 hst
          exact ⟨w', (W w').mpr hw'⟩
        · intro i k' a b; exact g3 i k' ((W i).mp a) ((W k').mp b)
  · -- won: a quiet step, or nothing left
    obtain ⟨d, w, k, q⟩ := hw
    have hst : c.g.st ≠ frm := fun e' => (gl.1 e' j).1 ⟨d, w, k, q⟩
    cases p : (c.th j).pend with
    | nil =>
      have e : tickEff fp cap c.g (c.th j) = ⟨c.g, c.th j, none⟩ := by simp [tickEff, d, p, k]
      constructor
      · simp only [tick_th, e]
        exact ph_upd ph (Or.inl ⟨hjN, Or.inr (Or.inr (Or.inl ⟨d, w, k, q⟩))⟩)
      · simp only [tick_th, tick_g, e]
        exact gl_same gl Iff.rfl Iff.rfl Iff.rfl
    | cons s r =>
      have qs : Quiet frm s := q s (by simp [p])
      have qr : ∀ s' ∈ r, Quiet frm s' := fun s' hs' => q s' (by simp [p, hs'])
      have won' : Won frm ({ (c.th j) with pend := r } : Thr D) := ⟨d, w, k, qr⟩
      have wiff : Won frm ({ (c.th j) with pend := r } : Thr D) ↔ Won frm (c.th j) :=
        ⟨fun _ => ⟨d, w, k, q⟩, fun _ => won'⟩
      have liff : Lost ({ (c.th j) with pend := r } : Thr D) ↔ Lost (c.th j) := Iff.rfl
      cases s with
      | procWrite m src =>
        have e : tickEff fp cap c.g (c.th j) =
            ⟨{ c.g with proc := c.g.proc.set m src }, { (c.th j) with pend := r }, none⟩ := by
          simp [tickEff, stepEff, d, p]
        constructor
        · simp only [tick_th, e]
          exact ph_upd ph (Or.inl ⟨hjN, Or.inr (Or.inr (Or.inl won'))⟩)
        · simp only [tick_th, tick_g, e]
          exact gl_same gl Iff.rfl wiff liff
      | st op =>
        cases op with
        | store v =>
          have hv : v ≠ frm := qs
          have e : tickEff fp cap c.g (c.th j) = ⟨{ c.g with st := v }, { (c.th j) with pend := r }, none⟩ := by
            simp [tickEff, stepEff, d, p]
          constructor
          · simp only [tick_th, e]
            exact ph_upd ph (Or.inl ⟨hjN, Or.inr (Or.inr (Or.inl won'))⟩)
          · simp only [tick_th, tick_g, e]
            exact gl_same gl ⟨fun a => absurd a hv, fun a => absurd a hst⟩ wiff liff
        | load _ => exact absurd qs (by simp [Quiet])
        | cas _ _ => exact absurd qs (by simp [Quiet])
        | unknown => exact absurd qs (by simp [Quiet])
      | loc _ => exact absurd qs (by simp [Quiet])
      | fsObs => exact absurd qs (by simp [Quiet])
      | fsJson => exact absurd qs (by simp [Quiet])
  · -- lost: dead threads do nothing
    have e : tickEff fp cap c.g (c.th j) = ⟨c.g, c.th j, none⟩ := by simp [tickEff, hd.1]
    constructor
    · simp only [tick_th, e]
      exact ph_upd ph (Or.inl ⟨hjN, Or.inr (Or.inr (Or.inr hd))⟩)
    · simp only [tick_th, tick_g, e]
      exact gl_same gl Iff.rfl Iff.rfl Iff.rfl
  · -- a thread that is not racing
    obtain ⟨d, w, p, k⟩ := hi
    have e : tickEff fp cap c.g (c.th j) = ⟨c.g, c.th j, none⟩ := by simp [tickEff, d, p, k]
    constructor
    · simp only [tick_th, e]
      exact ph_upd ph (Or.inr ⟨hjN, d, w, p, k⟩)
    · simp only [tick_th, tick_g, e]
      exact gl_same gl Iff.rfl Iff.rfl Iff.rfl

theorem raceInv_run (fp : Foot) (cap : Nat) {frm to : PSt} (hne : frm ≠ to) {N : Nat}
    {kall : Nat → Call D} {rest : Nat → List (Step D)}
    (hexp : ∀ i t, expand fp t (kall i) = .st (.cas frm to) :: rest i)
    (hq : ∀ i, ∀ s ∈ rest i, Quiet frm s) (σ : List Nat) :
    ∀ c : Cfg D, RaceInv frm to N kall rest c → RaceInv frm to N kall rest (runSched fp cap c σ) := by
  induction σ with
  | nil => intro c h; exact h
  | cons i σ ih => intro c h; exact ih _ (raceInv_tick fp cap hne hexp hq c h i)

/-- The shape test on the raw generated rows gives the step-level shape. -/
theorem quiet_of_raw (frm : PSt) (src : Proc) (r : Nat × Nat × Nat × String) (h : quietRaw frm r = true) :
    Quiet frm (toStep (D := D) src r) := by
  obtain ⟨k, a, b, m⟩ := r
  unfold quietRaw at h
  unfold toStep
  by_cases hk : k = F.kMemberWrite
  · simp [hk, Quiet]
  · simp only [hk, if_false] at h ⊢
    split at h
    · next v hv =>
      simp only [hv, Quiet]
      simpa using h
    · simp at h

theorem shape_of_raw (frm to : PSt) (src : Proc) (rows : List (Nat × Nat × Nat × String))
    (h : raceShapeRaw frm to rows = true) :
    rows.map (toStep (D := D) src) = .st (.cas frm to) :: (rows.map (toStep src)).tail ∧
      ∀ s ∈ (rows.map (toStep (D := D) src)).tail, Quiet frm s := by
  cases rows with
  | nil => simp [raceShapeRaw] at h
  | cons r rest =>
    obtain ⟨k, a, b, m⟩ := r
    simp only [raceShapeRaw, Bool.and_eq_true, bne_iff_ne, ne_eq, beq_iff_eq, List.all_eq_true] at h
    obtain ⟨⟨hk, hc⟩, hr⟩ := h
    refine ⟨?_, ?_⟩
    · simp [toStep, hk, hc]
    · intro s hs
      simp only [List.map_cons, List.tail_cons] at hs
      obtain ⟨r', hr', rfl⟩ := List.mem_map.mp hs
      exact quiet_of_raw frm src r' (hr r' hr')

/-! ## The effect of the winner -/

/-- Effect on the shared state of the winner's remaining steps. -/
def applyQ : List (Step D) → Glob → Glob
  | [], g => g
  | .procWrite m src :: r, g => applyQ r { g with proc := g.proc.set m src }
  | .st (.store v) :: r, g => applyQ r { g with st := v }
  | _ :: r, g => applyQ r g

/-- Until somebody wins, `rproc`'s members are untouched; afterwards the shared
    state is heading to what the winner's step list makes of `(to, p0)`. -/
def EffInv (frm to : PSt) (rest : Nat → List (Step D)) (p0 : Proc) (c : Cfg D) : Prop :=
  (c.g.st = frm → c.g.proc = p0) ∧
  (∀ w, Won frm (c.th w) → applyQ (c.th w).pend c.g = applyQ (rest w) ⟨to, p0⟩)

theorem effInv_tick (fp : Foot) (cap : Nat) {frm to : PSt} (hne : frm ≠ to) {N : Nat}
    {kall : Nat → Call D} {rest : Nat → List (Step D)}
    (hexp : ∀ i t, expand fp t (kall i) = .st (.cas frm to) :: rest i)
    (hq : ∀ i, ∀ s ∈ rest i, Quiet frm s) (p0 : Proc)
    (c : Cfg D) (h : RaceInv frm to N kall rest c) (he : EffInv frm to rest p0 c) (j : Nat) :
    EffInv frm to rest p0 (tick fp cap c j) := by
  obtain ⟨ph, gl⟩ := h
  obtain ⟨e1, e2⟩ := he
  -- when the tick changes neither the shared state nor who has won
  have same : ∀ x' : Thr D, tickEff fp cap c.g (c.th j) = ⟨c.g, x', none⟩ →
      (Won frm x' → Won frm (c.th j) ∧ x'.pend = (c.th j).pend) →
      EffInv frm to rest p0 (tick fp cap c j) := by
    intro x' e hw
    refine ⟨?_, ?_⟩
    · simp only [tick_g, e]; exact e1
    · intro w
      simp only [tick_th, tick_g, e]
      by_cases ew : w = j
      · subst ew
        simp only [upd_same]
        intro a
        obtain ⟨a1, a2⟩ := hw a
        rw [a2]; exact e2 w a1
      · simp only [upd_other _ _ ew]; exact e2 w
  rcases ph j with ⟨hjN, hf | hl | hw | hd⟩ | ⟨hjN, hi⟩
  · obtain ⟨d, w, p, k⟩ := hf
    exact same { (c.th j) with pend := .st (.cas frm to) :: rest j, calls := [] }
      (by simp [tickEff, d, p, k, hexp]) (fun a => absurd a (not_won_of_wins0 w))
  · obtain ⟨d, w, p, k⟩ := hl
    by_cases hst : c.g.st = frm
    · have e : tickEff fp cap c.g (c.th j) =
          ⟨{ c.g with st := to }, { (c.th j) with pend := rest j, wins := 1 }, none⟩ := by
        simp [tickEff, stepEff, d, p, hst, w]
      have none_before := gl.1 hst
      refine ⟨?_, ?_⟩
      · simp only [tick_g, e]; intro a; exact absurd a.symm hne
      · intro w'
        simp only [tick_th, tick_g, e]
        by_cases ew : w' = j
        · subst ew
          simp only [upd_same]
          intro _
          have : ({ c.g with st := to } : Glob) = ⟨to, p0⟩ := by rw [← e1 hst]
          rw [this]
        · simp only [upd_other _ _ ew]
          intro a; exact absurd a (none_before w').1
    · exact same { (c.th j) with pend := rest j, dead := true }
        (by simp [tickEff, stepEff, d, p, hst]) (fun a => absurd a (not_won_of_dead rfl))
  · obtain ⟨d, w, k, q⟩ := hw
    have hwon : Won frm (c.th j) := ⟨d, w, k, q⟩
    have hst : c.g.st ≠ frm := fun e' => (gl.1 e' j).1 hwon
    cases p : (c.th j).pend with
    | nil => exact same (c.th j) (by simp [tickEff, d, p, k]) (fun a => ⟨a, rfl⟩)
    | cons s r =>
      have qs : Quiet frm s := q s (by simp [p])
      have only_j : ∀ w', w' ≠ j → ¬ Won frm (c.th w') := fun w' ne a => ne (gl.2.2 w' j a hwon)
      have prev := e2 j hwon
      rw [p] at prev
      cases s with
      | procWrite m src =>
        have e : tickEff fp cap c.g (c.th j) =
            ⟨{ c.g with proc := c.g.proc.set m src }, { (c.th j) with pend := r }, none⟩ := by
          simp [tickEff, stepEff, d, p]
        refine ⟨?_, ?_⟩
        · simp only [tick_g, e]; intro a; exact absurd a hst
        · intro w'
          simp only [tick_th, tick_g, e]
          by_cases ew : w' = j
          · subst ew; simp only [upd_same]; intro _; exact prev
          · simp only [upd_other _ _ ew]; intro a; exact absurd a (only_j w' ew)
      | st op =>
        cases op with
        | store v =>
          have hv : v ≠ frm := qs
          have e : tickEff fp cap c.g (c.th j) = ⟨{ c.g with st := v }, { (c.th j) with pend := r }, none⟩ := by
            simp [tickEff, stepEff, d, p]
          refine ⟨?_, ?_⟩
          · simp only [tick_g, e]; intro a; exact absurd a hv
          · intro w'
            simp only [tick_th, tick_g, e]
            by_cases ew : w' = j
            · subst ew; simp only [upd_same]; intro _; exact prev
            · simp only [upd_other _ _ ew]; intro a; exact absurd a (only_j w' ew)
        | load _ => exact absurd qs (by simp [Quiet])
        | cas _ _ => exact absurd qs (by simp [Quiet])
        | unknown => exact absurd qs (by simp [Quiet])
      | loc _ => exact absurd qs (by simp [Quiet])
      | fsObs => exact absurd qs (by simp [Quiet])
      | fsJson => exact absurd qs (by simp [Quiet])
  · exact same (c.th j) (by simp [tickEff, hd.1]) (fun a => ⟨a, rfl⟩)
  · obtain ⟨d, w, p, k⟩ := hi
    exact same (c.th j) (by simp [tickEff, d, p, k]) (fun a => ⟨a, rfl⟩)

theorem effInv_run (fp : Foot) (cap : Nat) {frm to : PSt} (hne : frm ≠ to) {N : Nat}
    {kall : Nat → Call D} {rest : Nat → List (Step D)}
    (hexp : ∀ i t, expand fp t (kall i) = .st (.cas frm to) :: rest i)
    (hq : ∀ i, ∀ s ∈ rest i, Quiet frm s) (p0 : Proc) (σ : List Nat) :
    ∀ c : Cfg D, RaceInv frm to N kall rest c → EffInv frm to rest p0 c →
      EffInv frm to rest p0 (runSched fp cap c σ) := by
  induction σ with
  | nil => intro c _ h; exact h
  | cons i σ ih =>
    intro c h he
    exact ih _ (raceInv_tick fp cap hne hexp hq c h i) (effInv_tick fp cap hne hexp hq p0 c h he i)

/-! ## Concrete configurations (for the non-vacuity examples and the driver) -/

/-- `N` threads, thread `i` about to make the single call `k i`. -/
def raceCfg (N : Nat) (k : Nat → Call D) (st : PSt) : Cfg D :=
  { g := { st := st }, th := fun i => if i < N then { calls := [k i] } else {} }

/-- Round-robin schedule. -/
def roundRobin (n rounds : Nat) : List Nat := (List.replicate rounds (List.range n)).flatten

/-- A READY process whose thread `i` (OS tid `tidOf i`) runs `prog i`. -/
def threadsCfg (p : Proc) (tidOf : Nat → Nat) (prog : Nat → List (Call D)) : Cfg D :=
  { g := { st := .ready, proc := p },
    th := fun i => { t := { tid := tidOf i, s := { now := 1000 } }, calls := prog i } }

theorem threadsCfg_safe (p : Proc) (tidOf : Nat → Nat) (prog : Nat → List (Call D))
    (h : ∀ i, ∀ k ∈ prog i, CallSafe (tidOf i) k) : SafeCfg tidOf (threadsCfg p tidOf prog) := by
  intro i
  exact ⟨rfl, by simp [threadsCfg], h i⟩

/-- The footprint of a libovni in which `ovni_proc_init` tests and sets the
    state with a load followed by a store instead of a compare-exchange. -/
def loadStoreFoot : Foot :=
  { table := [],
    order := [("ovni_proc_init", [(F.kLoad, F.stUninit, 0, "st"), (F.kStore, F.stInit, 0, "st"),
                                 (F.kMemberWrite, 0, 0, "pid"), (F.kStore, F.stReady, 0, "st")])] }

def File.size : Option (File D) → Nat
  | some (.obs _ recs) => recs.length
  | some (.json kv) => kv.length
  | none => 0

end Ovni.Rt.Conc
