import OvniModel.Rt.Conc

/-! Helper lemmas for C11 (free to change): the compare-exchange race
    invariant and the non-interference (unwinding) lemmas. -/
set_option linter.unusedSectionVars false
set_option linter.unusedSimpArgs false
set_option linter.unusedVariables false
namespace Ovni.Rt.Conc
open Ovni.Rt
variable {D : Type} [JData D]

@[simp] theorem upd_same {α : Type} (f : Nat → α) (i : Nat) (v : α) : upd f i v i = v := by
  simp [upd]

@[simp] theorem upd_other {α : Type} (f : Nat → α) {i j : Nat} (v : α) (h : j ≠ i) : upd f i v j = f j := by
  simp [upd, h]

theorem upd_apply {α : Type} (f : Nat → α) (i j : Nat) (v : α) : upd f i v j = if j = i then v else f j := rfl

theorem runSched_nil (fp : Foot) (cap : Nat) (c : Cfg D) : runSched fp cap c [] = c := rfl

theorem runSched_cons (fp : Foot) (cap : Nat) (c : Cfg D) (i : Nat) (σ : List Nat) :
    runSched fp cap c (i :: σ) = runSched fp cap (tick fp cap c i) σ := rfl

theorem runSched_append (fp : Foot) (cap : Nat) (c : Cfg D) (σ τ : List Nat) :
    runSched fp cap c (σ ++ τ) = runSched fp cap (runSched fp cap c σ) τ := by
  simp [runSched, List.foldl_append]

@[simp] theorem tick_g (fp : Foot) (cap : Nat) (c : Cfg D) (i : Nat) :
    (tick fp cap c i).g = (tickEff fp cap c.g (c.th i)).g := rfl

@[simp] theorem tick_th (fp : Foot) (cap : Nat) (c : Cfg D) (i : Nat) :
    (tick fp cap c i).th = upd c.th i (tickEff fp cap c.g (c.th i)).x := rfl

@[simp] theorem tick_fs (fp : Foot) (cap : Nat) (c : Cfg D) (i : Nat) :
    (tick fp cap c i).fs = c.fs.write (tickEff fp cap c.g (c.th i)).w := rfl

/-! ## The compare-exchange race -/

/-- A later step of the winner: a plain store to an `rproc` member or a store
    to `st` of a value other than `frm`. -/
def Quiet (frm : PSt) : Step D → Prop
  | .procWrite _ _ => True
  | .st (.store v) => v ≠ frm
  | _ => False

/-- has not started its call -/
def Fresh (k : Call D) (x : Thr D) : Prop := x.dead = false ∧ x.wins = 0 ∧ x.pend = [] ∧ x.calls = [k]
/-- about to execute the compare-exchange -/
def Loaded (frm to : PSt) (r : List (Step D)) (x : Thr D) : Prop :=
  x.dead = false ∧ x.wins = 0 ∧ x.pend = .st (.cas frm to) :: r ∧ x.calls = []
/-- passed the compare-exchange -/
def Won (frm : PSt) (x : Thr D) : Prop :=
  x.dead = false ∧ x.wins = 1 ∧ x.calls = [] ∧ ∀ s ∈ x.pend, Quiet frm s
/-- failed the compare-exchange: die() -/
def Lost (x : Thr D) : Prop := x.dead = true ∧ x.wins = 0
def Idle (x : Thr D) : Prop := x.dead = false ∧ x.wins = 0 ∧ x.pend = [] ∧ x.calls = []

/-- The global part of the invariant. -/
def Gl (frm : PSt) (st : PSt) (th : Nat → Thr D) : Prop :=
  (st = frm → ∀ i, ¬ Won frm (th i) ∧ ¬ Lost (th i)) ∧
  (st ≠ frm → ∃ w, Won frm (th w)) ∧
  (∀ i k, Won frm (th i) → Won frm (th k) → i = k)

/-- The phase of every thread. -/
def Ph (frm to : PSt) (N : Nat) (kall : Nat → Call D) (rest : Nat → List (Step D)) (th : Nat → Thr D) : Prop :=
  ∀ i, (i < N ∧ (Fresh (kall i) (th i) ∨ Loaded frm to (rest i) (th i) ∨ Won frm (th i) ∨ Lost (th i)))
     ∨ (N ≤ i ∧ Idle (th i))

theorem gl_same {frm st st' : PSt} {th : Nat → Thr D} {j : Nat} {x' : Thr D}
    (h : Gl frm st th) (hst : st' = frm ↔ st = frm)
    (hw : Won frm x' ↔ Won frm (th j)) (hl : Lost x' ↔ Lost (th j)) :
    Gl frm st' (upd th j x') := by
  have W : ∀ i, Won frm (upd th j x' i) ↔ Won frm (th i) := by
    intro i; by_cases e : i = j
    · subst e; simpa using hw
    · simp [e]
  have L : ∀ i, Lost (upd th j x' i) ↔ Lost (th i) := by
    intro i; by_cases e : i = j
    · subst e; simpa using hl
    · simp [e]
  obtain ⟨h1, h2, h3⟩ := h
  refine ⟨?_, ?_, ?_⟩
  · intro e i; rw [W, L]; exact h1 (hst.mp e) i
  · intro e
    obtain ⟨w, hw'⟩ := h2 (fun e' => e (hst.mpr e'))
    exact ⟨w, (W w).mpr hw'⟩
  · intro i k a b; exact h3 i k ((W i).mp a) ((W k).mp b)

theorem ph_upd {frm to : PSt} {N : Nat} {kall : Nat → Call D} {rest : Nat → List (Step D)}
    {th : Nat → Thr D} {j : Nat} {x' : Thr D} (h : Ph frm to N kall rest th)
    (hj : (j < N ∧ (Fresh (kall j) x' ∨ Loaded frm to (rest j) x' ∨ Won frm x' ∨ Lost x')) ∨ (N ≤ j ∧ Idle x')) :
    Ph frm to N kall rest (upd th j x') := by
  intro i
  by_cases e : i = j
  · subst e; simpa using hj
  · simpa [e] using h i

/-- The invariant of a race of `N` threads for `compare_exchange(frm → to)`. -/
structure RaceInv (frm to : PSt) (N : Nat) (kall : Nat → Call D) (rest : Nat → List (Step D)) (c : Cfg D) : Prop where
  ph : Ph frm to N kall rest c.th
  gl : Gl frm c.g.st c.th

theorem not_won_of_wins0 {frm : PSt} {x : Thr D} (h : x.wins = 0) : ¬ Won frm x := by
  intro w; have := w.2.1; omega

theorem not_lost_of_alive {x : Thr D} (h : x.dead = false) : ¬ Lost x := by
  intro l; have := l.1; simp [h] at this

theorem not_won_of_dead {frm : PSt} {x : Thr D} (h : x.dead = true) : ¬ Won frm x := by
  intro w; have := w.1; simp [h] at this

/-- One tick preserves the race invariant. -/
theorem raceInv_tick (fp : Foot) (cap : Nat) {frm to : PSt} (hne : frm ≠ to) {N : Nat}
    {kall : Nat → Call D} {rest : Nat → List (Step D)}
    (hexp : ∀ i t, expand fp t (kall i) = .st (.cas frm to) :: rest i)
    (hq : ∀ i, ∀ s ∈ rest i, Quiet frm s)
    (c : Cfg D) (h : RaceInv frm to N kall rest c) (j : Nat) :
    RaceInv frm to N kall rest (tick fp cap c j) := by
  obtain ⟨ph, gl⟩ := h
  rcases ph j with ⟨hjN, hf | hl | hw | hd⟩ | ⟨hjN, hi⟩
  · -- fresh: the call is expanded
    obtain ⟨d, w, p, k⟩ := hf
    have e : tickEff fp cap c.g (c.th j) =
        ⟨c.g, { (c.th j) with pend := .st (.cas frm to) :: rest j, calls := [] }, none⟩ := by
      simp [tickEff, d, p, k, hexp]
    constructor
    · simp only [tick_th, e]
      exact ph_upd ph (Or.inl ⟨hjN, Or.inr (Or.inl ⟨d, w, rfl, rfl⟩)⟩)
    · simp only [tick_th, tick_g, e]
      exact gl_same gl Iff.rfl
        ⟨fun a => absurd a (not_won_of_wins0 w), fun a => absurd a (not_won_of_wins0 w)⟩
        ⟨fun a => absurd a (not_lost_of_alive d), fun a => absurd a (not_lost_of_alive d)⟩
  · -- loaded: the compare-exchange
    obtain ⟨d, w, p, k⟩ := hl
    by_cases hst : c.g.st = frm
    · have e : tickEff fp cap c.g (c.th j) =
          ⟨{ c.g with st := to }, { (c.th j) with pend := rest j, wins := 1 }, none⟩ := by
        simp [tickEff, stepEff, d, p, hst, w]
      have won' : Won frm ({ (c.th j) with pend := rest j, wins := 1 } : Thr D) := ⟨d, rfl, k, hq j⟩
      obtain ⟨g1, g2, g3⟩ := gl
      have none_before := g1 hst
      constructor
      · simp only [tick_th, e]
        exact ph_upd ph (Or.inl ⟨hjN, Or.inr (Or.inr (Or.inl won'))⟩)
      · simp only [tick_th, tick_g, e]
        have W : ∀ i, Won frm (upd c.th j ({ (c.th j) with pend := rest j, wins := 1 } : Thr D) i) → i = j := by
          intro i a
          by_cases e' : i = j
          · exact e'
          · rw [upd_other _ _ e'] at a; exact absurd a (none_before i).1
        refine ⟨fun e' => absurd e' (Ne.symm hne), fun _ => ⟨j, by simpa using won'⟩, ?_⟩
        intro i k' a b; rw [W i a, W k' b]
    · have e : tickEff fp cap c.g (c.th j) = ⟨c.g, { (c.th j) with pend := rest j, dead := true }, none⟩ := by
        simp [tickEff, stepEff, d, p, hst]
      constructor
      · simp only [tick_th, e]
        exact ph_upd ph (Or.inl ⟨hjN, Or.inr (Or.inr (Or.inr ⟨rfl, w⟩))⟩)
      · simp only [tick_th, tick_g, e]
        obtain ⟨g1, g2, g3⟩ := gl
        have W : ∀ i, Won frm (upd c.th j ({ (c.th j) with pend := rest j, dead := true } : Thr D) i) ↔
            Won frm (c.th i) := by
          intro i
          by_cases e' : i = j
          · subst e'
            simp only [upd_same]
            exact ⟨fun a => absurd a (not_won_of_dead rfl), fun a => absurd a (not_won_of_wins0 w)⟩
          · simp [e']
        refine ⟨fun e' => absurd e' hst, fun _ => ?_, ?_⟩
        · obtain ⟨w', hw'⟩ := g2 hst
          exact ⟨w', (W w').mpr hw'⟩
        · intro i k' a b; exact g3 i k' ((W i).mp a) ((W k').mp b)
  · -- won: a quiet step, or nothing left
    obtain ⟨d, w, k, q⟩ := hw
    have hst : c.g.st ≠ frm := fun e' => (gl.1 e' j).1 ⟨d, w, k, q⟩
    cases p : (c.th j).pend with
    | nil =>
      have e : tickEff fp cap c.g (c.th j) = ⟨c.g, c.th j, none⟩ := by simp [tickEff, d, p, k]
      constructor
      · simp only [tick_th, e]
        exact ph_upd ph (Or.inl ⟨hjN, Or.inr (Or.inr (Or.inl ⟨d, w, k, q⟩))⟩)
      · simp only [tick_th, tick_g, e]
        exact gl_same gl Iff.rfl Iff.rfl Iff.rfl
    | cons s r =>
      have qs : Quiet frm s := q s (by simp [p])
      have qr : ∀ s' ∈ r, Quiet frm s' := fun s' hs' => q s' (by simp [p, hs'])
      have won' : Won frm ({ (c.th j) with pend := r } : Thr D) := ⟨d, w, k, qr⟩
      have wiff : Won frm ({ (c.th j) with pend := r } : Thr D) ↔ Won frm (c.th j) :=
        ⟨fun _ => ⟨d, w, k, q⟩, fun _ => won'⟩
      have liff : Lost ({ (c.th j) with pend := r } : Thr D) ↔ Lost (c.th j) := Iff.rfl
      cases s with
      | procWrite m src =>
        have e : tickEff fp cap c.g (c.th j) =
            ⟨{ c.g with proc := c.g.proc.set m src }, { (c.th j) with pend := r }, none⟩ := by
          simp [tickEff, stepEff, d, p]
        constructor
        · simp only [tick_th, e]
          exact ph_upd ph (Or.inl ⟨hjN, Or.inr (Or.inr (Or.inl won'))⟩)
        · simp only [tick_th, tick_g, e]
          exact gl_same gl Iff.rfl wiff liff
      | st op =>
        cases op with
        | store v =>
          have hv : v ≠ frm := qs
          have e : tickEff fp cap c.g (c.th j) = ⟨{ c.g with st := v }, { (c.th j) with pend := r }, none⟩ := by
            simp [tickEff, stepEff, d, p]
          constructor
          · simp only [tick_th, e]
            exact ph_upd ph (Or.inl ⟨hjN, Or.inr (Or.inr (Or.inl won'))⟩)
          · simp only [tick_th, tick_g, e]
            exact gl_same gl ⟨fun a => absurd a hv, fun a => absurd a hst⟩ wiff liff
        | load _ => exact absurd qs (by simp [Quiet])
        | cas _ _ => exact absurd qs (by simp [Quiet])
        | unknown => exact absurd qs (by simp [Quiet])
      | loc _ => exact absurd qs (by simp [Quiet])
      | fsObs => exact absurd qs (by simp [Quiet])
      | fsJson => exact absurd qs (by simp [Quiet])
  · -- lost: dead threads do nothing
    have e : tickEff fp cap c.g (c.th j) = ⟨c.g, c.th j, none⟩ := by simp [tickEff, hd.1]
    constructor
    · simp only [tick_th, e]
      exact ph_upd ph (Or.inl ⟨hjN, Or.inr (Or.inr (Or.inr hd))⟩)
    · simp only [tick_th, tick_g, e]
      exact gl_same gl Iff.rfl Iff.rfl Iff.rfl
  · -- a thread that is not racing
    obtain ⟨d, w, p, k⟩ := hi
    have e : tickEff fp cap c.g (c.th j) = ⟨c.g, c.th j, none⟩ := by simp [tickEff, d, p, k]
    constructor
    · simp only [tick_th, e]
      exact ph_upd ph (Or.inr ⟨hjN, d, w, p, k⟩)
    · simp only [tick_th, tick_g, e]
      exact gl_same gl Iff.rfl Iff.rfl Iff.rfl

theorem raceInv_run (fp : Foot) (cap : Nat) {frm to : PSt} (hne : frm ≠ to) {N : Nat}
    {kall : Nat → Call D} {rest : Nat → List (Step D)}
    (hexp : ∀ i t, expand fp t (kall i) = .st (.cas frm to) :: rest i)
    (hq : ∀ i, ∀ s ∈ rest i, Quiet frm s) (σ : List Nat) :
    ∀ c : Cfg D, RaceInv frm to N kall rest c → RaceInv frm to N kall rest (runSched fp cap c σ) := by
  induction σ with
  | nil => intro c h; exact h
  | cons i σ ih => intro c h; exact ih _ (raceInv_tick fp cap hne hexp hq c h i)

/-- The shape test on the raw generated rows gives the step-level shape. -/
theorem quiet_of_raw (frm : PSt) (src : Proc) (r : Nat × Nat × Nat × String) (h : quietRaw frm r = true) :
    Quiet frm (toStep (D := D) src r) := by
  obtain ⟨k, a, b, m⟩ := r
  unfold quietRaw at h
  unfold toStep
  by_cases hk : k = F.kMemberWrite
  · simp [hk, Quiet]
  · simp only [hk, if_false] at h ⊢
    split at h
    · next v hv =>
      simp only [hv, Quiet]
      simpa using h
    · simp at h

theorem shape_of_raw (frm to : PSt) (src : Proc) (rows : List (Nat × Nat × Nat × String))
    (h : raceShapeRaw frm to rows = true) :
    rows.map (toStep (D := D) src) = .st (.cas frm to) :: (rows.map (toStep src)).tail ∧
      ∀ s ∈ (rows.map (toStep (D := D) src)).tail, Quiet frm s := by
  cases rows with
  | nil => simp [raceShapeRaw] at h
  | cons r rest =>
    obtain ⟨k, a, b, m⟩ := r
    simp only [raceShapeRaw, Bool.and_eq_true, bne_iff_ne, ne_eq, beq_iff_eq, List.all_eq_true] at h
    obtain ⟨⟨hk, hc⟩, hr⟩ := h
    refine ⟨?_, ?_⟩
    · simp [toStep, hk, hc]
    · intro s hs
      simp only [List.map_cons, List.tail_cons] at hs
      obtain ⟨r', hr', rfl⟩ := List.mem_map.mp hs
      exact quiet_of_raw frm src r' (hr r' hr')

/-! ## The effect of the winner -/

/-- Effect on the shared state of the winner's remaining steps. -/
def applyQ : List (Step D) → Glob → Glob
  | [], g => g
  | .procWrite m src :: r, g => applyQ r { g with proc := g.proc.set m src }
  | .st (.store v) :: r, g => applyQ r { g with st := v }
  | _ :: r, g => applyQ r g

/-- Until somebody wins, `rproc`'s members are untouched; afterwards the shared
    state is heading to what the winner's step list makes of `(to, p0)`. -/
def EffInv (frm to : PSt) (rest : Nat → List (Step D)) (p0 : Proc) (c : Cfg D) : Prop :=
  (c.g.st = frm → c.g.proc = p0) ∧
  (∀ w, Won frm (c.th w) → applyQ (c.th w).pend c.g = applyQ (rest w) ⟨to, p0⟩)

theorem effInv_tick (fp : Foot) (cap : Nat) {frm to : PSt} (hne : frm ≠ to) {N : Nat}
    {kall : Nat → Call D} {rest : Nat → List (Step D)}
    (hexp : ∀ i t, expand fp t (kall i) = .st (.cas frm to) :: rest i)
    (hq : ∀ i, ∀ s ∈ rest i, Quiet frm s) (p0 : Proc)
    (c : Cfg D) (h : RaceInv frm to N kall rest c) (he : EffInv frm to rest p0 c) (j : Nat) :
    EffInv frm to rest p0 (tick fp cap c j) := by
  obtain ⟨ph, gl⟩ := h
  obtain ⟨e1, e2⟩ := he
  -- when the tick changes neither the shared state nor who has won
  have same : ∀ x' : Thr D, tickEff fp cap c.g (c.th j) = ⟨c.g, x', none⟩ →
      (Won frm x' → Won frm (c.th j) ∧ x'.pend = (c.th j).pend) →
      EffInv frm to rest p0 (tick fp cap c j) := by
    intro x' e hw
    refine ⟨?_, ?_⟩
    · simp only [tick_g, e]; exact e1
    · intro w
      simp only [tick_th, tick_g, e]
      by_cases ew : w = j
      · subst ew
        simp only [upd_same]
        intro a
        obtain ⟨a1, a2⟩ := hw a
        rw [a2]; exact e2 w a1
      · simp only [upd_other _ _ ew]; exact e2 w
  rcases ph j with ⟨hjN, hf | hl | hw | hd⟩ | ⟨hjN, hi⟩
  · obtain ⟨d, w, p, k⟩ := hf
    exact same { (c.th j) with pend := .st (.cas frm to) :: rest j, calls := [] }
      (by simp [tickEff, d, p, k, hexp]) (fun a => absurd a (not_won_of_wins0 w))
  · obtain ⟨d, w, p, k⟩ := hl
    by_cases hst : c.g.st = frm
    · have e : tickEff fp cap c.g (c.th j) =
          ⟨{ c.g with st := to }, { (c.th j) with pend := rest j, wins := 1 }, none⟩ := by
        simp [tickEff, stepEff, d, p, hst, w]
      have none_before := gl.1 hst
      refine ⟨?_, ?_⟩
      · simp only [tick_g, e]; intro a; exact absurd a.symm hne
      · intro w'
        simp only [tick_th, tick_g, e]
        by_cases ew : w' = j
        · subst ew
          simp only [upd_same]
          intro _
          have : ({ c.g with st := to } : Glob) = ⟨to, p0⟩ := by rw [← e1 hst]
          rw [this]
        · simp only [upd_other _ _ ew]
          intro a; exact absurd a (none_before w').1
    · exact same { (c.th j) with pend := rest j, dead := true }
        (by simp [tickEff, stepEff, d, p, hst]) (fun a => absurd a (not_won_of_dead rfl))
  · obtain ⟨d, w, k, q⟩ := hw
    have hwon : Won frm (c.th j) := ⟨d, w, k, q⟩
    have hst : c.g.st ≠ frm := fun e' => (gl.1 e' j).1 hwon
    cases p : (c.th j).pend with
    | nil => exact same (c.th j) (by simp [tickEff, d, p, k]) (fun a => ⟨a, rfl⟩)
    | cons s r =>
      have qs : Quiet frm s := q s (by simp [p])
      have only_j : ∀ w', w' ≠ j → ¬ Won frm (c.th w') := fun w' ne a => ne (gl.2.2 w' j a hwon)
      have prev := e2 j hwon
      rw [p] at prev
      cases s with
      | procWrite m src =>
        have e : tickEff fp cap c.g (c.th j) =
            ⟨{ c.g with proc := c.g.proc.set m src }, { (c.th j) with pend := r }, none⟩ := by
          simp [tickEff, stepEff, d, p]
        refine ⟨?_, ?_⟩
        · simp only [tick_g, e]; intro a; exact absurd a hst
        · intro w'
          simp only [tick_th, tick_g, e]
          by_cases ew : w' = j
          · subst ew; simp only [upd_same]; intro _; exact prev
          · simp only [upd_other _ _ ew]; intro a; exact absurd a (only_j w' ew)
      | st op =>
        cases op with
        | store v =>
          have hv : v ≠ frm := qs
          have e : tickEff fp cap c.g (c.th j) = ⟨{ c.g with st := v }, { (c.th j) with pend := r }, none⟩ := by
            simp [tickEff, stepEff, d, p]
          refine ⟨?_, ?_⟩
          · simp only [tick_g, e]; intro a; exact absurd a hv
          · intro w'
            simp only [tick_th, tick_g, e]
            by_cases ew : w' = j
            · subst ew; simp only [upd_same]; intro _; exact prev
            · simp only [upd_other _ _ ew]; intro a; exact absurd a (only_j w' ew)
        | load _ => exact absurd qs (by simp [Quiet])
        | cas _ _ => exact absurd qs (by simp [Quiet])
        | unknown => exact absurd qs (by simp [Quiet])
      | loc _ => exact absurd qs (by simp [Quiet])
      | fsObs => exact absurd qs (by simp [Quiet])
      | fsJson => exact absurd qs (by simp [Quiet])
  · exact same (c.th j) (by simp [tickEff, hd.1]) (fun a => ⟨a, rfl⟩)
  · obtain ⟨d, w, p, k⟩ := hi
    exact same (c.th j) (by simp [tickEff, d, p, k]) (fun a => ⟨a, rfl⟩)

theorem effInv_run (fp : Foot) (cap : Nat) {frm to : PSt} (hne : frm ≠ to) {N : Nat}
    {kall : Nat → Call D} {rest : Nat → List (Step D)}
    (hexp : ∀ i t, expand fp t (kall i) = .st (.cas frm to) :: rest i)
    (hq : ∀ i, ∀ s ∈ rest i, Quiet frm s) (p0 : Proc) (σ : List Nat) :
    ∀ c : Cfg D, RaceInv frm to N kall rest c → EffInv frm to rest p0 c →
      EffInv frm to rest p0 (runSched fp cap c σ) := by
  induction σ with
  | nil => intro c _ h; exact h
  | cons i σ ih =>
    intro c h he
    exact ih _ (raceInv_tick fp cap hne hexp hq c h i) (effInv_tick fp cap hne hexp hq p0 c h he i)

/-! ## Non-interference -/

/-- A step that writes nothing shared, and initialises only with the thread's own tid. -/
def StepSafe (τ : Nat) : Step D → Prop
  | .st (.load _) => True
  | .st _ => False
  | .procWrite _ _ => False
  | .loc (.initTid t) => t = τ
  | _ => True

/-- A thread-level call (not `ovni_proc_init`/`ovni_proc_fini`) that uses the thread's own tid. -/
def CallSafe (τ : Nat) : Call D → Prop
  | .procInit _ => False
  | .procFini => False
  | .threadInit t => t = τ
  | _ => True

def ThrSafe (τ : Nat) (x : Thr D) : Prop :=
  x.t.tid = τ ∧ (∀ s ∈ x.pend, StepSafe τ s) ∧ (∀ k ∈ x.calls, CallSafe τ k)

theorem opName_mem (op : Op D) : opName op ∈ threadFns := by
  cases op with
  | mark k _ _ =>
    unfold opName
    by_cases h1 : k = 91
    · simp [h1, threadFns]
    · by_cases h2 : k = 93
      · simp [h1, h2, threadFns]
      · simp [h1, h2, threadFns]
  | _ => simp [opName, threadFns]

theorem fnOK_of_mem {fp : Foot} (h : fp.threadOK = true) {f : String} (hf : f ∈ threadFns) : fp.fnOK f = true := by
  unfold Foot.threadOK at h
  exact List.all_eq_true.mp h f hf

theorem shared_safe {fp : Foot} {f : String} (h : fp.fnOK f = true) (τ : Nat) (src : Proc) :
    ∀ s ∈ (fp.shared f src : List (Step D)), StepSafe τ s := by
  unfold Foot.fnOK at h
  simp only [Bool.and_eq_true, List.all_eq_true, List.isEmpty_iff] at h
  obtain ⟨hops, hw⟩ := h
  intro s hs
  unfold Foot.shared at hs
  rw [hw] at hs
  simp only [List.map_nil, List.append_nil, List.mem_map] at hs
  obtain ⟨r, hr, rfl⟩ := hs
  have := hops r hr
  unfold isLoadRaw at this
  split at this
  · next e he => rw [he]; trivial
  · simp at this

theorem expand_safe {fp : Foot} (h : fp.threadOK = true) (τ : Nat) (t : TLoc D) (k : Call D)
    (hk : CallSafe τ k) : ∀ s ∈ expand fp t k, StepSafe τ s := by
  have ok : ∀ f, f ∈ threadFns → ∀ src, ∀ s ∈ (fp.shared f src : List (Step D)), StepSafe τ s :=
    fun f hf src => shared_safe (fnOK_of_mem h hf) τ src
  intro s hs
  cases k with
  | procInit a => exact absurd hk (by simp [CallSafe])
  | procFini => exact absurd hk (by simp [CallSafe])
  | threadInit tid =>
    have ht : tid = τ := hk
    simp only [expand] at hs
    split at hs
    · simp at hs
    · rcases List.mem_append.mp hs with h1 | h1
      · exact ok _ (by simp [threadFns]) _ s h1
      · simp only [List.mem_cons, List.not_mem_nil, or_false] at h1
        rcases h1 with rfl | rfl | rfl | rfl | rfl | rfl <;> simp [StepSafe, ht]
  | threadFree =>
    simp only [expand] at hs
    rcases List.mem_append.mp hs with h1 | h1
    · exact ok _ (by simp [threadFns]) _ s h1
    · simp only [List.mem_cons, List.not_mem_nil, or_false] at h1
      rcases h1 with rfl | rfl | rfl <;> simp [StepSafe]
  | stream op =>
    simp only [expand] at hs
    rcases List.mem_append.mp hs with h1 | h1
    · exact ok _ (opName_mem op) _ s h1
    · simp only [List.mem_cons, List.not_mem_nil, or_false] at h1
      rcases h1 with rfl | rfl <;> simp [StepSafe]
  | addCpu i ph =>
    simp only [expand] at hs
    rcases List.mem_append.mp hs with h1 | h1
    · exact ok _ (by simp [threadFns]) _ s h1
    · simp only [List.mem_cons, List.not_mem_nil, or_false] at h1
      rcases h1 with rfl; simp [StepSafe]
  | setRank r n =>
    simp only [expand] at hs
    rcases List.mem_append.mp hs with h1 | h1
    · exact ok _ (by simp [threadFns]) _ s h1
    · simp only [List.mem_cons, List.not_mem_nil, or_false] at h1
      rcases h1 with rfl; simp [StepSafe]
  | require m v =>
    simp only [expand] at hs
    rcases List.mem_append.mp hs with h1 | h1
    · exact ok _ (by simp [threadFns]) _ s h1
    · simp only [List.mem_cons, List.not_mem_nil, or_false] at h1
      rcases h1 with rfl; simp [StepSafe]
  | attrSet k v =>
    simp only [expand] at hs
    rcases List.mem_append.mp hs with h1 | h1
    · exact ok _ (by simp [threadFns]) _ s h1
    · simp only [List.mem_cons, List.not_mem_nil, or_false] at h1
      rcases h1 with rfl; simp [StepSafe]
  | attrFlush =>
    simp only [expand] at hs
    rcases List.mem_append.mp hs with h1 | h1
    · exact ok _ (by simp [threadFns]) _ s h1
    · simp only [List.mem_cons, List.not_mem_nil, or_false] at h1
      rcases h1 with rfl | rfl <;> simp [StepSafe]

/-- Thread-local operations keep the tid, except the initialisation which sets it. -/
theorem locRun_tid (cap : Nat) (p : Proc) (t t' : TLoc D) (f : LocOp D) (h : f.run cap p t = some t')
    (hn : ∀ tid, f ≠ .initTid tid) : t'.tid = t.tid := by
  cases f with
  | initTid tid => exact absurd rfl (hn tid)
  | buf op =>
    simp only [LocOp.run, Option.map_eq_some_iff] at h
    obtain ⟨s', _, rfl⟩ := h
    rfl
  | populate =>
    simp only [LocOp.run, Option.some.injEq] at h
    subst h; rfl
  | metaSet k v =>
    by_cases hf : t.s.finished = true <;> by_cases hr : t.s.ready = true <;>
      simp [LocOp.run, hf, hr] at h <;> (subst h; rfl)
  | cpu i ph =>
    by_cases hr : t.s.ready = true <;> simp [LocOp.run, hr] at h <;> (subst h; rfl)
  | rank r n =>
    by_cases hr : t.s.ready = true <;> simp [LocOp.run, hr] at h <;> (subst h; rfl)
  | guard =>
    by_cases hf : t.s.finished = true <;> by_cases hr : t.s.ready = true <;>
      simp [LocOp.run, hf, hr] at h <;> (subst h; rfl)
  | finiMeta =>
    by_cases hf : t.s.finished = true <;> by_cases hr : t.s.ready = true <;>
      simp [LocOp.run, hf, hr] at h <;> (subst h; rfl)

theorem locRun_initTid (cap : Nat) (p : Proc) (t t' : TLoc D) (tid : Nat)
    (h : (LocOp.initTid tid : LocOp D).run cap p t = some t') : t'.tid = tid := by
  by_cases h0 : tid = 0 <;> simp [LocOp.run, h0] at h <;> (subst h; rfl)

/-- A thread with nothing to do does nothing. -/
theorem tickEff_stopped (fp : Foot) (cap : Nat) (g : Glob) (x : Thr D) (hp : x.pend = []) (hc : x.calls = []) :
    tickEff fp cap g x = ⟨g, x, none⟩ := by
  unfold tickEff
  split
  · rfl
  · simp [hp, hc]

theorem tickEff_dead (fp : Foot) (cap : Nat) (g : Glob) (x : Thr D) (hd : x.dead = true) :
    tickEff fp cap g x = ⟨g, x, none⟩ := by
  simp [tickEff, hd]

theorem tickEff_step (fp : Foot) (cap : Nat) (g : Glob) (x : Thr D) (hd : x.dead = false)
    (s : Step D) (r : List (Step D)) (hp : x.pend = s :: r) :
    tickEff fp cap g x = stepEff cap g { x with pend := r } s := by
  simp [tickEff, hd, hp]

theorem tickEff_call (fp : Foot) (cap : Nat) (g : Glob) (x : Thr D) (hd : x.dead = false)
    (hp : x.pend = []) (k : Call D) (ks : List (Call D)) (hc : x.calls = k :: ks) :
    tickEff fp cap g x = ⟨g, { x with pend := expand fp x.t k, calls := ks }, none⟩ := by
  simp [tickEff, hd, hp, hc]

/-- A tick of a safe thread leaves the shared state alone, keeps the thread
    safe and writes only files named after its own tid. -/
theorem tickEff_safe {fp : Foot} (hfp : fp.threadOK = true) (cap : Nat) (g : Glob) (τ : Nat) (x : Thr D)
    (hx : ThrSafe τ x) :
    (tickEff fp cap g x).g = g ∧ ThrSafe τ (tickEff fp cap g x).x ∧
      ∀ w, (tickEff fp cap g x).w = some w → w.1 = τ := by
  obtain ⟨ht, hp, hc⟩ := hx
  cases hd : x.dead with
  | true =>
    rw [tickEff_dead fp cap g x hd]
    exact ⟨rfl, ⟨ht, hp, hc⟩, fun w e => by simp at e⟩
  | false =>
    cases p : x.pend with
    | nil =>
      cases k : x.calls with
      | nil =>
        rw [tickEff_stopped fp cap g x p k]
        exact ⟨rfl, ⟨ht, hp, hc⟩, fun w e => by simp at e⟩
      | cons k1 ks =>
        rw [tickEff_call fp cap g x hd p k1 ks k]
        refine ⟨rfl, ⟨ht, ?_, ?_⟩, fun w e => by simp at e⟩
        · exact expand_safe hfp τ x.t k1 (hc k1 (by simp [k]))
        · intro k' hk'; exact hc k' (by simp only [k]; exact List.mem_cons_of_mem _ hk')
    | cons s r =>
      rw [tickEff_step fp cap g x hd s r p]
      have hs : StepSafe τ s := hp s (by simp [p])
      have hr : ∀ s' ∈ r, StepSafe τ s' := fun s' h' => hp s' (by simp [p, h'])
      have base : ThrSafe τ ({ x with pend := r } : Thr D) := ⟨ht, hr, hc⟩
      cases s with
      | st op =>
        cases op with
        | load e =>
          cases e with
          | none =>
            simp only [stepEff]
            exact ⟨trivial, base, fun w e => by simp at e⟩
          | some v =>
            simp only [stepEff]
            split
            · exact ⟨rfl, base, fun w e => by simp at e⟩
            · exact ⟨rfl, ⟨ht, hr, hc⟩, fun w e => by simp at e⟩
        | store v => exact absurd hs (by simp [StepSafe])
        | cas a b => exact absurd hs (by simp [StepSafe])
        | unknown => exact absurd hs (by simp [StepSafe])
      | procWrite m src => exact absurd hs (by simp [StepSafe])
      | loc f =>
        simp only [stepEff]
        cases hrun : f.run cap g.proc x.t with
        | none => exact ⟨rfl, ⟨ht, hr, hc⟩, fun w e => by simp at e⟩
        | some t' =>
          refine ⟨rfl, ⟨?_, hr, hc⟩, fun w e => by simp at e⟩
          by_cases hi : ∃ tid, f = .initTid tid
          · obtain ⟨tid, rfl⟩ := hi
            have e1 : tid = τ := hs
            rw [← e1]; exact locRun_initTid cap g.proc x.t t' tid hrun
          · have := locRun_tid cap g.proc x.t t' f hrun (fun tid e => hi ⟨tid, e⟩)
            exact this.trans ht
      | fsObs =>
        simp only [stepEff]
        exact ⟨trivial, base, fun w e => by simp only [Option.some.injEq] at e; subst e; exact ht⟩
      | fsJson =>
        simp only [stepEff]
        exact ⟨trivial, base, fun w e => by simp only [Option.some.injEq] at e; subst e; exact ht⟩

/-- Every thread is safe w.r.t. its own tid. -/
def SafeCfg (tidOf : Nat → Nat) (c : Cfg D) : Prop := ∀ i, ThrSafe (tidOf i) (c.th i)

/-- What thread `i` can observe: the shared state, its own state, its own files. -/
def Agree (tidOf : Nat → Nat) (i : Nat) (c1 c2 : Cfg D) : Prop :=
  c1.g = c2.g ∧ c1.th i = c2.th i ∧ ∀ k, c1.fs (tidOf i) k = c2.fs (tidOf i) k

def OthersStopped (i : Nat) (c : Cfg D) : Prop := ∀ j, j ≠ i → (c.th j).pend = [] ∧ (c.th j).calls = []

theorem safeCfg_tick {fp : Foot} (hfp : fp.threadOK = true) (cap : Nat) (tidOf : Nat → Nat) (c : Cfg D)
    (h : SafeCfg tidOf c) (j : Nat) : SafeCfg tidOf (tick fp cap c j) := by
  intro i
  simp only [tick_th]
  by_cases e : i = j
  · subst e; simp only [upd_same]
    exact (tickEff_safe hfp cap c.g (tidOf i) (c.th i) (h i)).2.1
  · simp only [upd_other _ _ e]; exact h i

theorem fs_write_other (fs : FS D) (w : Option (Nat × FKind × File D)) (τ : Nat) (k : FKind)
    (h : ∀ w', w = some w' → w'.1 ≠ τ) : fs.write w τ k = fs τ k := by
  cases w with
  | none => rfl
  | some w' =>
    obtain ⟨t, k', f⟩ := w'
    have : t ≠ τ := h _ rfl
    simp only [FS.write]
    have : ¬ (τ = t ∧ k = k') := fun a => this a.1.symm
    simp [this]

theorem fs_write_congr (fs1 fs2 : FS D) (w : Option (Nat × FKind × File D)) (τ : Nat) (k : FKind)
    (h : fs1 τ k = fs2 τ k) : fs1.write w τ k = fs2.write w τ k := by
  cases w with
  | none => exact h
  | some w' =>
    obtain ⟨t, k', f⟩ := w'
    simp only [FS.write]
    split
    · rfl
    · exact h

/-- Unwinding: whatever the other threads do in `c1` (and nothing in `c2`),
    thread `i` sees the same in both. -/
theorem agree_run {fp : Foot} (hfp : fp.threadOK = true) (cap : Nat) (tidOf : Nat → Nat)
    (hinj : ∀ a b, tidOf a = tidOf b → a = b) (i : Nat) (σ : List Nat) :
    ∀ c1 c2 : Cfg D, SafeCfg tidOf c1 → SafeCfg tidOf c2 → OthersStopped i c2 → Agree tidOf i c1 c2 →
      Agree tidOf i (runSched fp cap c1 σ) (runSched fp cap c2 σ) ∧
      SafeCfg tidOf (runSched fp cap c1 σ) := by
  induction σ with
  | nil => intro c1 c2 s1 _ _ a; exact ⟨a, s1⟩
  | cons j σ ih =>
    intro c1 c2 s1 s2 st a
    rw [runSched_cons, runSched_cons]
    have s1' := safeCfg_tick hfp cap tidOf c1 s1 j
    have s2' := safeCfg_tick hfp cap tidOf c2 s2 j
    obtain ⟨ag, at_, af⟩ := a
    by_cases e : j = i
    · subst e
      have st' : OthersStopped j (tick fp cap c2 j) := by
        intro k hk
        simp only [tick_th, upd_other _ _ hk]
        exact st k hk
      refine ih _ _ s1' s2' st' ⟨?_, ?_, ?_⟩
      · simp only [tick_g, ag, at_]
      · simp only [tick_th, upd_same, ag, at_]
      · intro k
        simp only [tick_fs, ag, at_]
        exact fs_write_congr _ _ _ _ _ (af k)
    · have hstop := st j e
      have e2 := tickEff_stopped fp cap c2.g (c2.th j) hstop.1 hstop.2
      have hs := tickEff_safe hfp cap c1.g (tidOf j) (c1.th j) (s1 j)
      have st' : OthersStopped i (tick fp cap c2 j) := by
        intro k hk
        simp only [tick_th]
        by_cases ek : k = j
        · subst ek; simp only [upd_same, e2]; exact hstop
        · simp only [upd_other _ _ ek]; exact st k hk
      have hne : i ≠ j := fun h => e h.symm
      refine ih _ _ s1' s2' st' ⟨?_, ?_, ?_⟩
      · simp only [tick_g, e2, hs.1]; exact ag
      · simp only [tick_th, upd_other _ _ hne]; exact at_
      · intro k
        simp only [tick_fs, e2]
        rw [fs_write_other _ _ _ _ (fun w' hw' h' => e (hinj _ _ ((hs.2.2 w' hw').symm.trans h' |>.symm) |>.symm))]
        exact af k

theorem safeCfg_solo (tidOf : Nat → Nat) (c : Cfg D) (h : SafeCfg tidOf c) (i : Nat) : SafeCfg tidOf (solo c i) := by
  intro j
  simp only [solo]
  by_cases e : j = i
  · simp only [e, if_true]; exact h i
  · simp only [e, if_false]
    exact ⟨(h j).1, by simp, by simp⟩

theorem othersStopped_solo (c : Cfg D) (i : Nat) : OthersStopped i (solo c i) := by
  intro j hj; simp [solo, hj]

theorem agree_solo (tidOf : Nat → Nat) (c : Cfg D) (i : Nat) : Agree tidOf i c (solo c i) := by
  refine ⟨rfl, ?_, fun _ => rfl⟩
  simp [solo]

theorem g_run {fp : Foot} (hfp : fp.threadOK = true) (cap : Nat) (tidOf : Nat → Nat) (σ : List Nat) :
    ∀ c : Cfg D, SafeCfg tidOf c → (runSched fp cap c σ).g = c.g := by
  induction σ with
  | nil => intro c _; rfl
  | cons j σ ih =>
    intro c h
    rw [runSched_cons, ih _ (safeCfg_tick hfp cap tidOf c h j), tick_g]
    exact (tickEff_safe hfp cap c.g (tidOf j) (c.th j) (h j)).1

/-- A stopped thread's tick changes nothing at all. -/
theorem tick_stopped (fp : Foot) (cap : Nat) (c : Cfg D) (j : Nat)
    (hp : (c.th j).pend = []) (hc : (c.th j).calls = []) : tick fp cap c j = c := by
  unfold tick
  rw [tickEff_stopped fp cap c.g (c.th j) hp hc]
  cases c with
  | mk g fs th =>
    simp only [FS.write]
    congr
    funext k
    by_cases e : k = j
    · subst e; simp
    · simp [e]

/-- Alone, only the thread's own ticks matter. -/
theorem run_filter (fp : Foot) (cap : Nat) (i : Nat) (σ : List Nat) :
    ∀ c : Cfg D, OthersStopped i c →
      runSched fp cap c σ = runSched fp cap c (σ.filter (· = i)) := by
  induction σ with
  | nil => intro c _; rfl
  | cons j σ ih =>
    intro c st
    by_cases e : j = i
    · subst e
      have st' : OthersStopped j (tick fp cap c j) := by
        intro k hk
        simp only [tick_th, upd_other _ _ hk]
        exact st k hk
      simp only [List.filter_cons, decide_true, if_true, runSched_cons]
      exact ih _ st'
    · have := st j e
      simp only [List.filter_cons, e, decide_false, runSched_cons, tick_stopped fp cap c j this.1 this.2]
      simpa using ih c st

/-! ## The stream part of a thread only moves by `Rt.step` -/

theorem run_append (cap : Nat) (l1 l2 : List (Op D)) (s : St D) :
    run cap s (l1 ++ l2) = (match run cap s l1 with | none => none | some s1 => run cap s1 l2) := by
  induction l1 generalizing s with
  | nil => rfl
  | cons o l ih =>
    simp only [List.cons_append, run]
    cases step cap s o with
    | none => rfl
    | some s1 => exact ih s1

theorem locRun_stream (cap : Nat) (p : Proc) (t t' : TLoc D) (f : LocOp D) (h : f.run cap p t = some t') :
    ∃ ops : List (Op D), ops.length ≤ 1 ∧ run cap t.s ops = some t'.s := by
  cases f with
  | initTid tid =>
    by_cases h0 : tid = 0 <;> simp [LocOp.run, h0] at h
    subst h; exact ⟨[], by simp, rfl⟩
  | buf op =>
    simp only [LocOp.run, Option.map_eq_some_iff] at h
    obtain ⟨s', hs, rfl⟩ := h
    exact ⟨[op], by simp, by simp [run, hs]⟩
  | populate =>
    simp only [LocOp.run, Option.some.injEq] at h
    subst h; exact ⟨[], by simp, rfl⟩
  | metaSet k v =>
    by_cases hf : t.s.finished = true <;> by_cases hr : t.s.ready = true <;>
      simp [LocOp.run, hf, hr] at h
    subst h; exact ⟨[], by simp, rfl⟩
  | cpu i ph =>
    by_cases hr : t.s.ready = true <;> simp [LocOp.run, hr] at h
    subst h; exact ⟨[], by simp, rfl⟩
  | rank r n =>
    by_cases hr : t.s.ready = true <;> simp [LocOp.run, hr] at h
    subst h; exact ⟨[], by simp, rfl⟩
  | guard =>
    by_cases hf : t.s.finished = true <;> by_cases hr : t.s.ready = true <;>
      simp [LocOp.run, hf, hr] at h
    subst h; exact ⟨[], by simp, rfl⟩
  | finiMeta =>
    by_cases hf : t.s.finished = true <;> by_cases hr : t.s.ready = true <;>
      simp [LocOp.run, hf, hr] at h
    subst h; exact ⟨[], by simp, rfl⟩

theorem tickEff_stream (fp : Foot) (cap : Nat) (g : Glob) (x : Thr D) :
    ∃ ops : List (Op D), run cap x.t.s ops = some (tickEff fp cap g x).x.t.s := by
  cases hd : x.dead with
  | true => rw [tickEff_dead fp cap g x hd]; exact ⟨[], rfl⟩
  | false =>
    cases p : x.pend with
    | nil =>
      cases k : x.calls with
      | nil => rw [tickEff_stopped fp cap g x p k]; exact ⟨[], rfl⟩
      | cons k1 ks => rw [tickEff_call fp cap g x hd p k1 ks k]; exact ⟨[], rfl⟩
    | cons s r =>
      rw [tickEff_step fp cap g x hd s r p]
      cases s with
      | st op =>
        cases op with
        | load e =>
          cases e with
          | none => exact ⟨[], rfl⟩
          | some v => simp only [stepEff]; split <;> exact ⟨[], rfl⟩
        | store v => exact ⟨[], rfl⟩
        | cas a b => simp only [stepEff]; split <;> exact ⟨[], rfl⟩
        | unknown => exact ⟨[], rfl⟩
      | procWrite m src => exact ⟨[], rfl⟩
      | loc f =>
        simp only [stepEff]
        cases hrun : f.run cap g.proc x.t with
        | none => exact ⟨[], rfl⟩
        | some t' =>
          obtain ⟨ops, _, h⟩ := locRun_stream cap g.proc x.t t' f hrun
          exact ⟨ops, h⟩
      | fsObs => exact ⟨[], rfl⟩
      | fsJson => exact ⟨[], rfl⟩

theorem stream_run (fp : Foot) (cap : Nat) (i : Nat) (σ : List Nat) :
    ∀ c : Cfg D, ∃ ops : List (Op D), run cap (c.th i).t.s ops = some ((runSched fp cap c σ).th i).t.s := by
  induction σ with
  | nil => intro c; exact ⟨[], rfl⟩
  | cons j σ ih =>
    intro c
    rw [runSched_cons]
    obtain ⟨ops2, h2⟩ := ih (tick fp cap c j)
    by_cases e : i = j
    · subst e
      obtain ⟨ops1, h1⟩ := tickEff_stream fp cap c.g (c.th i)
      refine ⟨ops1 ++ ops2, ?_⟩
      rw [run_append, h1]
      simpa using h2
    · refine ⟨ops2, ?_⟩
      simpa [upd_other _ _ e] using h2

/-! ## Concrete configurations (for the non-vacuity examples and the driver) -/

/-- `N` threads, thread `i` about to make the single call `k i`. -/
def raceCfg (N : Nat) (k : Nat → Call D) (st : PSt) : Cfg D :=
  { g := { st := st }, th := fun i => if i < N then { calls := [k i] } else {} }

/-- Round-robin schedule. -/
def roundRobin (n rounds : Nat) : List Nat := (List.replicate rounds (List.range n)).flatten

/-- A READY process whose thread `i` (OS tid `tidOf i`) runs `prog i`. -/
def threadsCfg (p : Proc) (tidOf : Nat → Nat) (prog : Nat → List (Call D)) : Cfg D :=
  { g := { st := .ready, proc := p },
    th := fun i => { t := { tid := tidOf i, s := { now := 1000 } }, calls := prog i } }

theorem threadsCfg_safe (p : Proc) (tidOf : Nat → Nat) (prog : Nat → List (Call D))
    (h : ∀ i, ∀ k ∈ prog i, CallSafe (tidOf i) k) : SafeCfg tidOf (threadsCfg p tidOf prog) := by
  intro i
  exact ⟨rfl, by simp [threadsCfg], h i⟩

/-- The footprint of a libovni in which `ovni_proc_init` tests and sets the
    state with a load followed by a store instead of a compare-exchange. -/
def loadStoreFoot : Foot :=
  { table := [],
    order := [("ovni_proc_init", [(F.kLoad, F.stUninit, 0, "st"), (F.kStore, F.stInit, 0, "st"),
                                 (F.kMemberWrite, 0, 0, "pid"), (F.kStore, F.stReady, 0, "st")])] }

def File.size : Option (File D) → Nat
  | some (.obs _ recs) => recs.length
  | some (.json kv) => kv.length
  | none => 0

end Ovni.Rt.Conc
