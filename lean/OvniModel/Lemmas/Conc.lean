import OvniModel.Rt.Conc
import OvniModel.Lemmas.ConcSafe

/-! Helper lemmas for C11 (free to change): the compare-exchange race
    invariant, the effect of the winner, concrete configurations. -/
set_option linter.unusedSectionVars false
set_option linter.unusedSimpArgs false
set_option linter.unusedVariables false
namespace Ovni.Rt.Conc
open Ovni.Rt
variable {D : Type} [JData D]

/-! ## The compare-exchange race -/

/-- A later step of the winner: a plain store to an `rproc` member or a store
    to `st` of a value other than `frm`. -/
def Quiet (frm : PSt) : Step D → Prop
  | .procWrite _ _ => True
  | .st (.store v) => v ≠ frm
  | _ => False

/-- has not started its call -/
def Fresh (k : Call D) (x : Thr D) : Prop := x.dead = false ∧ x.wins = 0 ∧ x.pend = [] ∧ x.calls = [k]
/-- about to execute the compare-exchange -/
def Loaded (frm to : PSt) (r : List (Step D)) (x : Thr D) : Prop :=
  x.dead = false ∧ x.wins = 0 ∧ x.pend = .st (.cas frm to) :: r ∧ x.calls = []
/-- passed the compare-exchange -/
def Won (frm : PSt) (x : Thr D) : Prop :=
  x.dead = false ∧ x.wins = 1 ∧ x.calls = [] ∧ ∀ s ∈ x.pend, Quiet frm s
/-- failed the compare-exchange: die() -/
def Lost (x : Thr D) : Prop := x.dead = true ∧ x.wins = 0
def Idle (x : Thr D) : Prop := x.dead = false ∧ x.wins = 0 ∧ x.pend = [] ∧ x.calls = []
/-- A thread that does not race: it runs a thread-level program (any state of
    progress, possibly dead) with its own tid. -/
def Bystander (τ : Nat) (x : Thr D) : Prop := ThrSafe τ x ∧ x.wins = 0

theorem bystander_of_idle {x : Thr D} (h : Idle x) : Bystander x.t.tid x :=
  ⟨⟨rfl, by simp [h.2.2.1], by simp [h.2.2.2]⟩, h.2.1⟩

/-- The global part of the invariant (about the racers `0 … N-1`). -/
def Gl (frm : PSt) (N : Nat) (st : PSt) (th : Nat → Thr D) : Prop :=
  (st = frm → ∀ i, i < N → ¬ Won frm (th i) ∧ ¬ Lost (th i)) ∧
  (st ≠ frm → ∃ w, w < N ∧ Won frm (th w)) ∧
  (∀ i k, i < N → k < N → Won frm (th i) → Won frm (th k) → i = k)

/-- The phase of every thread. -/
def Ph (frm to : PSt) (N : Nat) (kall : Nat → Call D) (rest : Nat → List (Step D)) (tidOf : Nat → Nat)
    (th : Nat → Thr D) : Prop :=
  ∀ i, (i < N ∧ (Fresh (kall i) (th i) ∨ Loaded frm to (rest i) (th i) ∨ Won frm (th i) ∨ Lost (th i)))
     ∨ (N ≤ i ∧ Bystander (tidOf i) (th i))

theorem gl_same {frm st st' : PSt} {N : Nat} {th : Nat → Thr D} {j : Nat} {x' : Thr D}
    (h : Gl frm N st th) (hst : st' = frm ↔ st = frm)
    (hw : j < N → (Won frm x' ↔ Won frm (th j))) (hl : j < N → (Lost x' ↔ Lost (th j))) :
    Gl frm N st' (upd th j x') := by
  have W : ∀ i, i < N → (Won frm (upd th j x' i) ↔ Won frm (th i)) := by
    intro i hi; by_cases e : i = j
    · subst e; simpa using hw hi
    · simp [e]
  have L : ∀ i, i < N → (Lost (upd th j x' i) ↔ Lost (th i)) := by
    intro i hi; by_cases e : i = j
    · subst e; simpa using hl hi
    · simp [e]
  obtain ⟨h1, h2, h3⟩ := h
  refine ⟨?_, ?_, ?_⟩
  · intro e i hi; rw [W i hi, L i hi]; exact h1 (hst.mp e) i hi
  · intro e
    obtain ⟨w, hwN, hw'⟩ := h2 (fun e' => e (hst.mpr e'))
    exact ⟨w, hwN, (W w hwN).mpr hw'⟩
  · intro i k hi hk a b; exact h3 i k hi hk ((W i hi).mp a) ((W k hk).mp b)

theorem ph_upd {frm to : PSt} {N : Nat} {kall : Nat → Call D} {rest : Nat → List (Step D)} {tidOf : Nat → Nat}
    {th : Nat → Thr D} {j : Nat} {x' : Thr D} (h : Ph frm to N kall rest tidOf th)
    (hj : (j < N ∧ (Fresh (kall j) x' ∨ Loaded frm to (rest j) x' ∨ Won frm x' ∨ Lost x')) ∨
          (N ≤ j ∧ Bystander (tidOf j) x')) :
    Ph frm to N kall rest tidOf (upd th j x') := by
  intro i
  by_cases e : i = j
  · subst e; simpa using hj
  · simpa [e] using h i

/-- The invariant of a race of `N` threads for `compare_exchange(frm → to)`
    while any number of other threads run thread-level programs. -/
structure RaceInv (frm to : PSt) (N : Nat) (kall : Nat → Call D) (rest : Nat → List (Step D))
    (tidOf : Nat → Nat) (c : Cfg D) : Prop where
  ph : Ph frm to N kall rest tidOf c.th
  gl : Gl frm N c.g.st c.th

theorem not_won_of_wins0 {frm : PSt} {x : Thr D} (h : x.wins = 0) : ¬ Won frm x := by
  intro w; have := w.2.1; omega

theorem not_lost_of_alive {x : Thr D} (h : x.dead = false) : ¬ Lost x := by
  intro l; have := l.1; simp [h] at this

theorem not_won_of_dead {frm : PSt} {x : Thr D} (h : x.dead = true) : ¬ Won frm x := by
  intro w; have := w.1; simp [h] at this

/-- One tick preserves the race invariant. -/
theorem raceInv_tick {fp : Foot} (hfp : fp.threadOK = true) (cap : Nat) {frm to : PSt} (hne : frm ≠ to) {N : Nat}
    {kall : Nat → Call D} {rest : Nat → List (Step D)} {tidOf : Nat → Nat}
    (hexp : ∀ i t, expand fp t (kall i) = .st (.cas frm to) :: rest i)
    (hq : ∀ i, ∀ s ∈ rest i, Quiet frm s)
    (c : Cfg D) (h : RaceInv frm to N kall rest tidOf c) (j : Nat) :
    RaceInv frm to N kall rest tidOf (tick fp cap c j) := by
  obtain ⟨ph, gl⟩ := h
  rcases ph j with ⟨hjN, hf | hl | hw | hd⟩ | ⟨hjN, hb⟩
  · -- fresh: the call is expanded
    obtain ⟨d, w, p, k⟩ := hf
    have e : tickEff fp cap c.g (c.th j) =
        ⟨c.g, { (c.th j) with pend := .st (.cas frm to) :: rest j, calls := [] }, none⟩ := by
      simp [tickEff, d, p, k, hexp]
    constructor
    · simp only [tick_th, e]
      exact ph_upd ph (Or.inl ⟨hjN, Or.inr (Or.inl ⟨d, w, rfl, rfl⟩)⟩)
    · simp only [tick_th, tick_g, e]
      exact gl_same gl Iff.rfl
        (fun _ => ⟨fun a => absurd a (not_won_of_wins0 w), fun a => absurd a (not_won_of_wins0 w)⟩)
        (fun _ => ⟨fun a => absurd a (not_lost_of_alive d), fun a => absurd a (not_lost_of_alive d)⟩)
  · -- loaded: the compare-exchange
    obtain ⟨d, w, p, k⟩ := hl
    by_cases hst : c.g.st = frm
    · have e : tickEff fp cap c.g (c.th j) =
          ⟨{ c.g with st := to }, { (c.th j) with pend := rest j, wins := 1 }, none⟩ := by
        simp [tickEff, stepEff, d, p, hst, w]
      have won' : Won frm ({ (c.th j) with pend := rest j, wins := 1 } : Thr D) := ⟨d, rfl, k, hq j⟩
      obtain ⟨g1, g2, g3⟩ := gl
      have none_before := g1 hst
      constructor
      · simp only [tick_th, e]
        exact ph_upd ph (Or.inl ⟨hjN, Or.inr (Or.inr (Or.inl won'))⟩)
      · simp only [tick_th, tick_g, e]
        have W : ∀ i, i < N →
            Won frm (upd c.th j ({ (c.th j) with pend := rest j, wins := 1 } : Thr D) i) → i = j := by
          intro i hi a
          by_cases e' : i = j
          · exact e'
          · rw [upd_other _ _ e'] at a; exact absurd a (none_before i hi).1
        refine ⟨fun e' => absurd e' (Ne.symm hne), fun _ => ⟨j, hjN, by simpa using won'⟩, ?_⟩
        intro i k' hi hk' a b; rw [W i hi a, W k' hk' b]
    · have e : tickEff fp cap c.g (c.th j) = ⟨c.g, { (c.th j) with pend := rest j, dead := true }, none⟩ := by
        simp [tickEff, stepEff, d, p, hst]
      constructor
      · simp only [tick_th, e]
        exact ph_upd ph (Or.inl ⟨hjN, Or.inr (Or.inr (Or.inr ⟨rfl, w⟩))⟩)
      · simp only [tick_th, tick_g, e]
        obtain ⟨g1, g2, g3⟩ := gl
        have W : ∀ i, Won frm (upd c.th j ({ (c.th j) with pend := rest j, dead := true } : Thr D) i) ↔
            Won frm (c.th i) := by
          intro i
          by_cases e' : i = j
          · subst e'
            simp only [upd_same]
            exact ⟨fun a => absurd a (not_won_of_dead rfl), fun a => absurd a (not_won_of_wins0 w)⟩
          · simp [e']
        refine ⟨fun e' => absurd e' hst, fun _ => ?_, ?_⟩
        · obtain ⟨w', hw'N, hw'⟩ := g2 hst
          exact ⟨w', hw'N, (W w').mpr hw'⟩
        · intro i k' hi hk' a b; exact g3 i k' hi hk' ((W i).mp a) ((W k').mp b)
  · -- won: a quiet step, or nothing left
    obtain ⟨d, w, k, q⟩ := hw
    have hst : c.g.st ≠ frm := fun e' => (gl.1 e' j hjN).1 ⟨d, w, k, q⟩
    cases p : (c.th j).pend with
    | nil =>
      have e : tickEff fp cap c.g (c.th j) = ⟨c.g, c.th j, none⟩ := by simp [tickEff, d, p, k]
      constructor
      · simp only [tick_th, e]
        exact ph_upd ph (Or.inl ⟨hjN, Or.inr (Or.inr (Or.inl ⟨d, w, k, q⟩))⟩)
      · simp only [tick_th, tick_g, e]
        exact gl_same gl Iff.rfl (fun _ => Iff.rfl) (fun _ => Iff.rfl)
    | cons s r =>
      have qs : Quiet frm s := q s (by simp [p])
      have qr : ∀ s' ∈ r, Quiet frm s' := fun s' hs' => q s' (by simp [p, hs'])
      have won' : Won frm ({ (c.th j) with pend := r } : Thr D) := ⟨d, w, k, qr⟩
      have wiff : Won frm ({ (c.th j) with pend := r } : Thr D) ↔ Won frm (c.th j) :=
        ⟨fun _ => ⟨d, w, k, q⟩, fun _ => won'⟩
      have liff : Lost ({ (c.th j) with pend := r } : Thr D) ↔ Lost (c.th j) := Iff.rfl
      cases s with
      | procWrite m src =>
        have e : tickEff fp cap c.g (c.th j) =
            ⟨{ c.g with proc := c.g.proc.set m src }, { (c.th j) with pend := r }, none⟩ := by
          simp [tickEff, stepEff, d, p]
        constructor
        · simp only [tick_th, e]
          exact ph_upd ph (Or.inl ⟨hjN, Or.inr (Or.inr (Or.inl won'))⟩)
        · simp only [tick_th, tick_g, e]
          exact gl_same gl Iff.rfl (fun _ => wiff) (fun _ => liff)
      | st op =>
        cases op with
        | store v =>
          have hv : v ≠ frm := qs
          have e : tickEff fp cap c.g (c.th j) = ⟨{ c.g with st := v }, { (c.th j) with pend := r }, none⟩ := by
            simp [tickEff, stepEff, d, p]
          constructor
          · simp only [tick_th, e]
            exact ph_upd ph (Or.inl ⟨hjN, Or.inr (Or.inr (Or.inl won'))⟩)
          · simp only [tick_th, tick_g, e]
            exact gl_same gl ⟨fun a => absurd a hv, fun a => absurd a hst⟩ (fun _ => wiff) (fun _ => liff)
        | load _ => exact absurd qs (by simp [Quiet])
        | cas _ _ => exact absurd qs (by simp [Quiet])
        | unknown => exact absurd qs (by simp [Quiet])
      | loc _ => exact absurd qs (by simp [Quiet])
      | fsObs => exact absurd qs (by simp [Quiet])
      | fsJson => exact absurd qs (by simp [Quiet])
  · -- lost: dead threads do nothing
    have e : tickEff fp cap c.g (c.th j) = ⟨c.g, c.th j, none⟩ := by simp [tickEff, hd.1]
    constructor
    · simp only [tick_th, e]
      exact ph_upd ph (Or.inl ⟨hjN, Or.inr (Or.inr (Or.inr hd))⟩)
    · simp only [tick_th, tick_g, e]
      exact gl_same gl Iff.rfl (fun _ => Iff.rfl) (fun _ => Iff.rfl)
  · -- a thread that is not racing: its step touches nothing shared
    obtain ⟨hs, hw0⟩ := hb
    have sf := tickEff_safe hfp cap c.g (tidOf j) (c.th j) hs
    have sw := tickEff_safe_wins fp cap c.g (tidOf j) (c.th j) hs.2.1
    have nj : ¬ j < N := by omega
    constructor
    · simp only [tick_th]
      exact ph_upd ph (Or.inr ⟨hjN, sf.2.1, by rw [sw]; exact hw0⟩)
    · simp only [tick_th, tick_g, sf.1]
      exact gl_same gl Iff.rfl (fun h => absurd h nj) (fun h => absurd h nj)

theorem raceInv_run {fp : Foot} (hfp : fp.threadOK = true) (cap : Nat) {frm to : PSt} (hne : frm ≠ to) {N : Nat}
    {kall : Nat → Call D} {rest : Nat → List (Step D)} {tidOf : Nat → Nat}
    (hexp : ∀ i t, expand fp t (kall i) = .st (.cas frm to) :: rest i)
    (hq : ∀ i, ∀ s ∈ rest i, Quiet frm s) (σ : List Nat) :
    ∀ c : Cfg D, RaceInv frm to N kall rest tidOf c → RaceInv frm to N kall rest tidOf (runSched fp cap c σ) := by
  induction σ with
  | nil => intro c h; exact h
  | cons i σ ih => intro c h; exact ih _ (raceInv_tick hfp cap hne hexp hq c h i)

/-- The shape test on the raw generated rows gives the step-level shape. -/
theorem quiet_of_raw (frm : PSt) (src : Proc) (r : Nat × Nat × Nat × String) (h : quietRaw frm r = true) :
    Quiet frm (toStep (D := D) src r) := by
  obtain ⟨k, a, b, m⟩ := r
  unfold quietRaw at h
  unfold toStep
  by_cases hk : k = F.kMemberWrite
  · simp [hk, Quiet]
  · simp only [hk, if_false] at h ⊢
    split at h
    · next v hv =>
      simp only [hv, Quiet]
      simpa using h
    · simp at h

theorem shape_of_raw (frm to : PSt) (src : Proc) (rows : List (Nat × Nat × Nat × String))
    (h : raceShapeRaw frm to rows = true) :
    rows.map (toStep (D := D) src) = .st (.cas frm to) :: (rows.map (toStep src)).tail ∧
      ∀ s ∈ (rows.map (toStep (D := D) src)).tail, Quiet frm s := by
  cases rows with
  | nil => simp [raceShapeRaw] at h
  | cons r rest =>
    obtain ⟨k, a, b, m⟩ := r
    simp only [raceShapeRaw, Bool.and_eq_true, bne_iff_ne, ne_eq, beq_iff_eq, List.all_eq_true] at h
    obtain ⟨⟨hk, hc⟩, hr⟩ := h
    refine ⟨?_, ?_⟩
    · simp [toStep, hk, hc]
    · intro s hs
      simp only [List.map_cons, List.tail_cons] at hs
      obtain ⟨r', hr', rfl⟩ := List.mem_map.mp hs
      exact quiet_of_raw frm src r' (hr r' hr')

/-! ## The effect of the winner -/

/-- Effect on the shared state of a list of the winner's steps. -/
def applyQ : List (Step D) → Glob → Glob
  | [], g => g
  | .procWrite m src :: r, g => applyQ r { g with proc := g.proc.set m src }
  | .st (.store v) :: r, g => applyQ r { g with st := v }
  | _ :: r, g => applyQ r g

theorem applyQ_append (a b : List (Step D)) (g : Glob) : applyQ (a ++ b) g = applyQ b (applyQ a g) := by
  induction a generalizing g with
  | nil => rfl
  | cons s r ih =>
    cases s with
    | st op => cases op <;> simp only [List.cons_append, applyQ, ih]
    | procWrite m src => simp only [List.cons_append, applyQ, ih]
    | loc f => simp only [List.cons_append, applyQ, ih]
    | fsObs => simp only [List.cons_append, applyQ, ih]
    | fsJson => simp only [List.cons_append, applyQ, ih]

/-- Until somebody wins, `rproc`'s members are untouched; afterwards the shared
    state is exactly what the steps the winner has executed so far made of
    `(to, p0)`. -/
def EffInv (frm to : PSt) (N : Nat) (rest : Nat → List (Step D)) (p0 : Proc) (c : Cfg D) : Prop :=
  (c.g.st = frm → c.g.proc = p0) ∧
  (∀ w, w < N → Won frm (c.th w) →
    ∃ done, rest w = done ++ (c.th w).pend ∧ c.g = applyQ done ⟨to, p0⟩)

theorem effInv_tick {fp : Foot} (hfp : fp.threadOK = true) (cap : Nat) {frm to : PSt} (hne : frm ≠ to) {N : Nat}
    {kall : Nat → Call D} {rest : Nat → List (Step D)} {tidOf : Nat → Nat}
    (hexp : ∀ i t, expand fp t (kall i) = .st (.cas frm to) :: rest i)
    (hq : ∀ i, ∀ s ∈ rest i, Quiet frm s) (p0 : Proc)
    (c : Cfg D) (h : RaceInv frm to N kall rest tidOf c) (he : EffInv frm to N rest p0 c) (j : Nat) :
    EffInv frm to N rest p0 (tick fp cap c j) := by
  obtain ⟨ph, gl⟩ := h
  obtain ⟨e1, e2⟩ := he
  -- when the tick changes neither the shared state nor the winner's progress
  have same : (tickEff fp cap c.g (c.th j)).g = c.g →
      (j < N → Won frm (tickEff fp cap c.g (c.th j)).x →
        Won frm (c.th j) ∧ (tickEff fp cap c.g (c.th j)).x.pend = (c.th j).pend) →
      EffInv frm to N rest p0 (tick fp cap c j) := by
    intro eg hw
    refine ⟨?_, ?_⟩
    · simp only [tick_g, eg]; exact e1
    · intro w hwN
      simp only [tick_th, tick_g, eg]
      by_cases ew : w = j
      · subst ew
        simp only [upd_same]
        intro a
        obtain ⟨a1, a2⟩ := hw hwN a
        rw [a2]; exact e2 w hwN a1
      · simp only [upd_other _ _ ew]; exact e2 w hwN
  rcases ph j with ⟨hjN, hf | hl | hw | hd⟩ | ⟨hjN, hb⟩
  · obtain ⟨d, w, p, k⟩ := hf
    have e : tickEff fp cap c.g (c.th j) =
        ⟨c.g, { (c.th j) with pend := .st (.cas frm to) :: rest j, calls := [] }, none⟩ := by
      simp [tickEff, d, p, k, hexp]
    exact same (by rw [e]) (fun _ a => by rw [e] at a; exact absurd a (not_won_of_wins0 w))
  · obtain ⟨d, w, p, k⟩ := hl
    by_cases hst : c.g.st = frm
    · have e : tickEff fp cap c.g (c.th j) =
          ⟨{ c.g with st := to }, { (c.th j) with pend := rest j, wins := 1 }, none⟩ := by
        simp [tickEff, stepEff, d, p, hst, w]
      have none_before := gl.1 hst
      refine ⟨?_, ?_⟩
      · simp only [tick_g, e]; intro a; exact absurd a.symm hne
      · intro w' hw'N
        simp only [tick_th, tick_g, e]
        by_cases ew : w' = j
        · subst ew
          simp only [upd_same]
          intro _
          refine ⟨[], rfl, ?_⟩
          rw [← e1 hst]; rfl
        · simp only [upd_other _ _ ew]
          intro a; exact absurd a (none_before w' hw'N).1
    · have e : tickEff fp cap c.g (c.th j) = ⟨c.g, { (c.th j) with pend := rest j, dead := true }, none⟩ := by
        simp [tickEff, stepEff, d, p, hst]
      exact same (by rw [e]) (fun _ a => by rw [e] at a; exact absurd a (not_won_of_dead rfl))
  · obtain ⟨d, w, k, q⟩ := hw
    have hwon : Won frm (c.th j) := ⟨d, w, k, q⟩
    have hst : c.g.st ≠ frm := fun e' => (gl.1 e' j hjN).1 hwon
    cases p : (c.th j).pend with
    | nil =>
      have e : tickEff fp cap c.g (c.th j) = ⟨c.g, c.th j, none⟩ := by simp [tickEff, d, p, k]
      exact same (by rw [e]) (fun _ a => by rw [e] at a ⊢; exact ⟨a, rfl⟩)
    | cons s r =>
      have qs : Quiet frm s := q s (by simp [p])
      have only_j : ∀ w', w' < N → w' ≠ j → ¬ Won frm (c.th w') :=
        fun w' hw' ne a => ne (gl.2.2 w' j hw' hjN a hwon)
      obtain ⟨done, hd1, hd2⟩ := e2 j hjN hwon
      rw [p] at hd1
      have split : rest j = (done ++ [s]) ++ r := by rw [hd1]; simp
      cases s with
      | procWrite m src =>
        have e : tickEff fp cap c.g (c.th j) =
            ⟨{ c.g with proc := c.g.proc.set m src }, { (c.th j) with pend := r }, none⟩ := by
          simp [tickEff, stepEff, d, p]
        refine ⟨?_, ?_⟩
        · simp only [tick_g, e]; intro a; exact absurd a hst
        · intro w' hw'N
          simp only [tick_th, tick_g, e]
          by_cases ew : w' = j
          · subst ew; simp only [upd_same]; intro _
            refine ⟨done ++ [.procWrite m src], split, ?_⟩
            rw [applyQ_append, ← hd2]; rfl
          · simp only [upd_other _ _ ew]; intro a; exact absurd a (only_j w' hw'N ew)
      | st op =>
        cases op with
        | store v =>
          have hv : v ≠ frm := qs
          have e : tickEff fp cap c.g (c.th j) = ⟨{ c.g with st := v }, { (c.th j) with pend := r }, none⟩ := by
            simp [tickEff, stepEff, d, p]
          refine ⟨?_, ?_⟩
          · simp only [tick_g, e]; intro a; exact absurd a hv
          · intro w' hw'N
            simp only [tick_th, tick_g, e]
            by_cases ew : w' = j
            · subst ew; simp only [upd_same]; intro _
              refine ⟨done ++ [.st (.store v)], split, ?_⟩
              rw [applyQ_append, ← hd2]; rfl
            · simp only [upd_other _ _ ew]; intro a; exact absurd a (only_j w' hw'N ew)
        | load _ => exact absurd qs (by simp [Quiet])
        | cas _ _ => exact absurd qs (by simp [Quiet])
        | unknown => exact absurd qs (by simp [Quiet])
      | loc _ => exact absurd qs (by simp [Quiet])
      | fsObs => exact absurd qs (by simp [Quiet])
      | fsJson => exact absurd qs (by simp [Quiet])
  · have e : tickEff fp cap c.g (c.th j) = ⟨c.g, c.th j, none⟩ := by simp [tickEff, hd.1]
    exact same (by rw [e]) (fun _ a => by rw [e] at a ⊢; exact ⟨a, rfl⟩)
  · have sf := tickEff_safe hfp cap c.g (tidOf j) (c.th j) hb.1
    exact same sf.1 (fun h => absurd h (by omega))

theorem effInv_run {fp : Foot} (hfp : fp.threadOK = true) (cap : Nat) {frm to : PSt} (hne : frm ≠ to) {N : Nat}
    {kall : Nat → Call D} {rest : Nat → List (Step D)} {tidOf : Nat → Nat}
    (hexp : ∀ i t, expand fp t (kall i) = .st (.cas frm to) :: rest i)
    (hq : ∀ i, ∀ s ∈ rest i, Quiet frm s) (p0 : Proc) (σ : List Nat) :
    ∀ c : Cfg D, RaceInv frm to N kall rest tidOf c → EffInv frm to N rest p0 c →
      EffInv frm to N rest p0 (runSched fp cap c σ) ∧ RaceInv frm to N kall rest tidOf (runSched fp cap c σ) := by
  induction σ with
  | nil => intro c h he; exact ⟨he, h⟩
  | cons i σ ih =>
    intro c h he
    exact ih _ (raceInv_tick hfp cap hne hexp hq c h i) (effInv_tick hfp cap hne hexp hq p0 c h he i)

theorem applyQ_st_raw (src : Proc) (rows : List (Nat × Nat × Nat × String)) (g : Glob) :
    (applyQ (rows.map (toStep (D := D) src)) g).st = stRaw rows g.st := by
  induction rows generalizing g with
  | nil => rfl
  | cons r rest ih =>
    obtain ⟨k, a, b, m⟩ := r
    simp only [List.map_cons, toStep, stRaw]
    by_cases hk : k = F.kMemberWrite
    · simp only [hk, if_true, applyQ]; exact ih _
    · simp only [hk, if_false]
      cases ho : StOp.ofRaw (k, a, b) with
      | store v => simp only [applyQ]; exact ih _
      | load e => simp only [applyQ]; exact ih _
      | cas x y => simp only [applyQ]; exact ih _
      | unknown => simp only [applyQ]; exact ih _

/-- If `fin` is only reached by the last generated event, then a winner whose
    executed steps left `st = fin` has nothing left to do. -/
theorem done_of_onlyLast (to fin : PSt) (src : Proc) (p0 : Proc) (rows : List (Nat × Nat × Nat × String))
    (h : onlyLastRaw to fin rows = true) (done pend : List (Step D))
    (hs : rows.map (toStep src) = done ++ pend) (hf : (applyQ done ⟨to, p0⟩).st = fin) : pend = [] := by
  obtain ⟨l1, l2, hl, h1, h2⟩ := List.map_eq_append_iff.mp hs
  cases l2 with
  | nil => simpa using h2.symm
  | cons x xs =>
    exfalso
    have hk : l1.length < rows.length := by rw [hl]; simp
    have ht : rows.take l1.length = l1 := by rw [hl]; simp
    unfold onlyLastRaw at h
    have := List.all_eq_true.mp h l1.length (List.mem_range.mpr hk)
    rw [ht] at this
    rw [← h1, applyQ_st_raw] at hf
    simp [hf] at this

/-! ## The hypotheses of the once-theorems -/

/-- A race: the process state is `frm`; threads `0 … N-1` are each about to
    make the call `kall i`; every other thread `i` (OS tid `tidOf i`) runs an
    arbitrary thread-level program, at any stage. -/
structure Race (frm : PSt) (N : Nat) (kall : Nat → Call D) (tidOf : Nat → Nat) (c : Cfg D) : Prop where
  st : c.g.st = frm
  racers : ∀ i, i < N → Fresh (kall i) (c.th i)
  others : ∀ i, N ≤ i → Bystander (tidOf i) (c.th i)

/-- The call of the thread returned (ran to its end without die()). -/
def Returned (x : Thr D) : Prop := x.dead = false ∧ x.pend = [] ∧ x.calls = []

theorem race_invariants {fp : Foot} (hfp : fp.threadOK = true) (cap : Nat) {frm to : PSt} (hne : frm ≠ to) {N : Nat}
    {kall : Nat → Call D} {rest : Nat → List (Step D)} {tidOf : Nat → Nat}
    (hexp : ∀ i t, expand fp t (kall i) = .st (.cas frm to) :: rest i)
    (hq : ∀ i, ∀ s ∈ rest i, Quiet frm s)
    (c0 : Cfg D) (h0 : Race frm N kall tidOf c0) (σ : List Nat) :
    RaceInv frm to N kall rest tidOf (runSched fp cap c0 σ) ∧
    EffInv frm to N rest c0.g.proc (runSched fp cap c0 σ) := by
  have inv0 : RaceInv frm to N kall rest tidOf c0 := by
    constructor
    · intro i
      by_cases h : i < N
      · exact Or.inl ⟨h, Or.inl (h0.racers i h)⟩
      · exact Or.inr ⟨Nat.le_of_not_lt h, h0.others i (Nat.le_of_not_lt h)⟩
    · have nw : ∀ i, i < N → ¬ Won frm (c0.th i) ∧ ¬ Lost (c0.th i) := by
        intro i h
        have f := h0.racers i h
        exact ⟨not_won_of_wins0 f.2.1, not_lost_of_alive f.1⟩
      exact ⟨fun _ => nw, fun h => absurd h0.st h, fun i k hi _ a _ => absurd a (nw i hi).1⟩
  have both := effInv_run hfp cap hne hexp hq c0.g.proc σ c0 inv0
    ⟨fun _ => rfl, fun w hw a => absurd a (inv0.gl.1 h0.st w hw).1⟩
  exact ⟨both.2, both.1⟩

/-! ## Concrete configurations (for the non-vacuity examples and the driver) -/

/-- `N` threads, thread `i` about to make the single call `k i`. -/
def raceCfg (N : Nat) (k : Nat → Call D) (st : PSt) : Cfg D :=
  { g := { st := st }, th := fun i => if i < N then { calls := [k i] } else {} }

/-- Round-robin schedule. -/
def roundRobin (n rounds : Nat) : List Nat := (List.replicate rounds (List.range n)).flatten

/-- A READY process whose thread `i` (OS tid `tidOf i`) runs `prog i`. -/
def threadsCfg (p : Proc) (tidOf : Nat → Nat) (prog : Nat → List (Call D)) : Cfg D :=
  { g := { st := .ready, proc := p },
    th := fun i => { t := { tid := tidOf i, s := { now := 1000 } }, calls := prog i } }

theorem threadsCfg_safe (p : Proc) (tidOf : Nat → Nat) (prog : Nat → List (Call D))
    (h : ∀ i, ∀ k ∈ prog i, CallSafe (tidOf i) k) : SafeCfg tidOf (threadsCfg p tidOf prog) := by
  intro i
  exact ⟨rfl, by simp [threadsCfg], h i⟩

/-- The footprint of a libovni in which `ovni_proc_init` tests and sets the
    state with a load followed by a store instead of a compare-exchange. -/
def loadStoreFoot : Foot :=
  { table := [],
    order := [("ovni_proc_init", [(F.kLoad, F.stUninit, 0, "st"), (F.kStore, F.stInit, 0, "st"),
                                 (F.kMemberWrite, 0, 0, "pid"), (F.kStore, F.stReady, 0, "st")])] }

def File.size : Option (File D) → Nat
  | some (.obs _ recs) => recs.length
  | some (.json kv) => kv.length
  | none => 0

end Ovni.Rt.Conc
