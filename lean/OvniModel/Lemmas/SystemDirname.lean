import OvniModel.Lemmas.SystemContent

/-! `build` does not depend on the names of the stream directories when no rank
    is shared by two processes (helper lemmas for C15). -/
namespace Ovni.Emu.System

/-! ### What depends on the core of a thread part only -/

def thrRowOf (t : ThreadPart) : List ThreadRow :=
  if t.part = some sThread then
    match t.loom with
    | some n => [⟨n, t.pid, t.tid, t.hasVersion, t.hasCommit⟩]
    | none => []
  else []

theorem thrRowOf_core (t : ThreadPart) : thrRowOf t.core = thrRowOf t := rfl
theorem thrKeysOf_core (t : ThreadPart) : thrKeysOf t.core = thrKeysOf t := rfl
theorem ThreadPartOK_core (t : ThreadPart) : ThreadPartOK t.core ↔ ThreadPartOK t := Iff.rfl

theorem skel_threads_foldl (ts : List ThreadPart) :
    ∀ sk : Skel, (ts.foldl skelStep sk).2.2 = sk.2.2 ++ ts.flatMap thrRowOf := by
  induction ts with
  | nil => intro sk; simp
  | cons t ts ih =>
    intro sk
    simp only [List.foldl_cons, List.flatMap_cons]
    rw [ih]
    cases hl : t.loom <;> by_cases hp : t.part = some sThread <;>
      simp [skelStep, thrRowOf, hl, hp]

theorem Inv.threads_eq {l : List StreamMeta} {sys : Sys} (inv : Inv l sys) :
    sys.threads = (l.map (·.tp)).flatMap thrRowOf := by
  have := inv.skelEq
  simp only [skel, skelOf] at this
  have h2 := congrArg (fun x => x.2.2) this
  simp only at h2
  rw [h2, skel_threads_foldl]
  simp

theorem flatMap_core {β : Type} (f : ThreadPart → List β) (hf : ∀ t, f t.core = f t)
    (l : List StreamMeta) : (l.map (·.tp)).flatMap f = (l.map (·.tp.core)).flatMap f := by
  induction l with
  | nil => rfl
  | cons s r ih => simp only [List.map_cons, List.flatMap_cons, ih, hf]

/-! ### Transfer of the absence of contradictions -/

def SameUnionModL (l l' : List StreamMeta) : Prop := SameUnionMod l l'

theorem SameUnionMod.load {ss ss' : List StreamMeta} (h : SameUnionMod ss ss') :
    SameUnionMod (load ss) (load ss') := by
  obtain ⟨h1, h2, h3, h4⟩ := h
  have p := load_perm ss
  have p' := load_perm ss'
  refine ⟨((p.map _).trans h1).trans (p'.map _).symm, ?_, ?_, ?_⟩
  · exact (SameSet.of_perm (p.flatMap_right appFactsOf)).trans
      (h2.trans (SameSet.of_perm (p'.flatMap_right appFactsOf)).symm)
  · exact (SameSet.of_perm (p.flatMap_right rankFactsOf)).trans
      (h3.trans (SameSet.of_perm (p'.flatMap_right rankFactsOf)).symm)
  · exact (SameSet.of_perm (p.flatMap_right cpuFactsOf)).trans
      (h4.trans (SameSet.of_perm (p'.flatMap_right cpuFactsOf)).symm)

theorem SameUnionMod.symm {l l' : List StreamMeta} (h : SameUnionMod l l') : SameUnionMod l' l :=
  ⟨h.1.symm, h.2.1.symm, h.2.2.1.symm, h.2.2.2.symm⟩

theorem thrKeys_perm_of_mod {l l' : List StreamMeta} (hu : SameUnionMod l l') :
    (thrKeys l).Perm (thrKeys l') := by
  unfold thrKeys
  rw [flatMap_core thrKeysOf thrKeysOf_core, flatMap_core thrKeysOf thrKeysOf_core]
  exact hu.1.flatMap_right _

theorem CreateOK.transferMod {l l' : List StreamMeta} (h : CreateOK l) (hu : SameUnionMod l l') :
    CreateOK l' := by
  obtain ⟨k1, k2, k3, k4, k5⟩ := h
  refine ⟨?_, (thrKeys_perm_of_mod hu).nodup_iff.1 k2, k3.mono hu.2.1.2, k4.mono hu.2.2.1.2,
    k5.mono hu.2.2.2.2⟩
  intro s hs
  have : s.tp.core ∈ l'.map (·.tp.core) := List.mem_map.2 ⟨s, hs, rfl⟩
  have := hu.1.mem_iff.2 this
  obtain ⟨s0, hs0, he⟩ := List.mem_map.1 this
  have := (ThreadPartOK_core s0.tp).2 (k1 s0 hs0)
  rw [he] at this
  exact (ThreadPartOK_core s.tp).1 this

/-! ### The tables of two successful merges are permutations of each other -/

structure TablesPerm (sys sys' : Sys) : Prop where
  looms : sys.looms.Perm sys'.looms
  procs : sys.procs.Perm sys'.procs
  threads : sys.threads.Perm sys'.threads
  cpus : sys.cpus.Perm sys'.cpus

theorem mem_looms_iff {l : List StreamMeta} {sys : Sys} (inv : Inv l sys) (n : Str) :
    n ∈ sys.looms ↔ ∃ pid tid, (some n, pid, tid) ∈ thrKeys l := by
  rw [← inv.thrRows]
  constructor
  · intro hn
    obtain ⟨t, ht, hte⟩ := inv.loomSrc n hn
    exact ⟨t.pid, t.tid, List.mem_map.2 ⟨t, ht, by simp [tkey, hte]⟩⟩
  · rintro ⟨pid, tid, hk⟩
    obtain ⟨t, ht, hte⟩ := List.mem_map.1 hk
    simp only [tkey, Prod.mk.injEq, Option.some.injEq] at hte
    rw [← hte.1]; exact inv.thrLoom t ht

theorem mem_pkeys_iff {l : List StreamMeta} {sys : Sys} (inv : Inv l sys) (k : Str × Int) :
    k ∈ sys.procs.map pkey ↔ ∃ tid, (some k.1, k.2, tid) ∈ thrKeys l := by
  rw [← inv.thrRows]
  constructor
  · intro hk
    obtain ⟨t, ht, hte⟩ := inv.procSrc k hk
    refine ⟨t.tid, List.mem_map.2 ⟨t, ht, ?_⟩⟩
    rw [← hte]; rfl
  · rintro ⟨tid, hk⟩
    obtain ⟨t, ht, hte⟩ := List.mem_map.1 hk
    simp only [tkey, Prod.mk.injEq, Option.some.injEq] at hte
    have := inv.thrProc t ht
    rw [hte.1, hte.2.1] at this
    exact this

theorem tables_perm {l l' : List StreamMeta} {sys sys' : Sys} (inv : Inv l sys) (inv' : Inv l' sys')
    (hu : SameUnionMod l l') : TablesPerm sys sys' := by
  have hk := thrKeys_perm_of_mod hu
  refine ⟨?_, ?_, ?_, cpus_perm inv.cpus inv'.cpus hu.2.2.2⟩
  · rw [List.perm_ext_iff_of_nodup inv.loomsNodup inv'.loomsNodup]
    intro n
    rw [mem_looms_iff inv, mem_looms_iff inv']
    constructor
    · rintro ⟨a, b, h⟩; exact ⟨a, b, hk.mem_iff.1 h⟩
    · rintro ⟨a, b, h⟩; exact ⟨a, b, hk.mem_iff.2 h⟩
  · have nd : ∀ {A R ps}, ProcInv A R ps → ps.Nodup := by
      intro A R ps i
      exact (List.pairwise_map.1 i.nodup).imp (fun {a b} h heq => h (by rw [heq]))
    rw [List.perm_ext_iff_of_nodup (nd inv.procs) (nd inv'.procs)]
    have half : ∀ {l l' : List StreamMeta} {sys sys' : Sys}, Inv l sys → Inv l' sys' → SameUnionMod l l' →
        (thrKeys l).Perm (thrKeys l') → ∀ p, p ∈ sys.procs → p ∈ sys'.procs := by
      intro l l' sys sys' inv inv' hu hk p hp
      have h1 : pkey p ∈ sys.procs.map pkey := List.mem_map.2 ⟨p, hp, rfl⟩
      obtain ⟨tid, h2⟩ := (mem_pkeys_iff inv _).1 h1
      have h3 := (mem_pkeys_iff inv' (pkey p)).2 ⟨tid, hk.mem_iff.1 h2⟩
      obtain ⟨q, hq, hqk⟩ := List.mem_map.1 h3
      have := procRow_determined inv.procs inv'.procs hu.2.1 hu.2.2.1 hp hq hqk.symm
      rw [this]; exact hq
    intro p
    exact ⟨half inv inv' hu hk p, half inv' inv hu.symm hk.symm p⟩
  · rw [inv.threads_eq, inv'.threads_eq, flatMap_core thrRowOf thrRowOf_core,
      flatMap_core thrRowOf thrRowOf_core]
    exact hu.1.flatMap_right _

/-! ### `finish` on permuted tables whose sort keys are distinct -/

structure Distinct (sys : Sys) : Prop where
  pids : ∀ n, (procsOf sys n).Pairwise (fun a b => a.pid ≠ b.pid)
  ranks : ∀ p ∈ sys.procs, ∀ q ∈ sys.procs, 0 ≤ p.rank → p.rank = q.rank → p = q
  tids : ∀ n pid, (sys.threads.filter (fun t => t.loom = n ∧ t.pid = pid)).Pairwise (fun a b => a.tid ≠ b.tid)
  cpus : sys.cpus.Pairwise (fun a b => ¬ (a.loom = b.loom ∧ a.phyid = b.phyid))

theorem rankMinOf_perm {ps ps' : List ProcRow} (h : ps.Perm ps') : rankMinOf ps = rankMinOf ps' := by
  unfold rankMinOf
  apply h.foldl_eq'
  intro x _ y _ z
  by_cases h1 : x.rank < z <;> by_cases h2 : y.rank < z <;> simp only [h1, h2, if_true, if_false]
  · by_cases h3 : y.rank < x.rank <;> by_cases h4 : x.rank < y.rank <;> simp only [h3, h4, if_true, if_false] <;> omega
  · have : ¬ y.rank < x.rank := by omega
    simp [this]
  · have : ¬ x.rank < y.rank := by omega
    simp [this]

theorem mkProc_perm {sys sys' : Sys} (tp : TablesPerm sys sys') (d : Distinct sys) (p : ProcRow) :
    mkProc sys.threads p = mkProc sys'.threads p := by
  unfold mkProc
  congr 1
  apply sortBy_eq_of_perm
  · intro a b; exact leInt_total _ _
  · intro a b c; exact leInt_trans _ _ _
  · exact tp.threads.filter _
  · intro a b ha hb h1 h2
    simp only [leInt, decide_eq_true_eq] at h1 h2
    exact eq_of_pairwise_not (S := fun (a b : ThreadRow) => a.tid = b.tid) (fun _ _ h => h.symm)
      (d.tids p.loom p.pid) ha hb (by omega)

theorem mkLoom_perm {sys sys' : Sys} (tp : TablesPerm sys sys') (d : Distinct sys) (n : Str) :
    mkLoom sys n = mkLoom sys' n := by
  have hps : (sys.procs.filter (fun p => p.loom = n)).Perm (sys'.procs.filter (fun p => p.loom = n)) :=
    tp.procs.filter _
  have e1 := hps.any_eq (f := fun p => decide (p.rank ≥ 0))
  have e2 := hps.any_eq (f := fun p => decide (p.rank < 0))
  have e3 := rankMinOf_perm hps
  have ecpu : sortBy (fun a b => leInt a.phyid b.phyid) (sys.cpus.filter (fun c => c.loom = n)) =
      sortBy (fun a b => leInt a.phyid b.phyid) (sys'.cpus.filter (fun c => c.loom = n)) :=
    sortedCpus_perm tp.cpus d.cpus n
  have eprocs : ∀ (l1 l2 : List ProcRow), l1 = l2 →
      l1.map (mkProc sys.threads) = l2.map (mkProc sys'.threads) := by
    intro l1 l2 h; subst h
    exact List.map_congr_left (fun p _ => mkProc_perm tp d p)
  have epid : sortBy (fun a b => leInt a.pid b.pid) (sys.procs.filter (fun p => p.loom = n)) =
      sortBy (fun a b => leInt a.pid b.pid) (sys'.procs.filter (fun p => p.loom = n)) := by
    apply sortBy_eq_of_perm (fun (a b : ProcRow) => leInt a.pid b.pid)
      (fun a b => leInt_total a.pid b.pid) (fun a b c => leInt_trans a.pid b.pid c.pid) hps
    intro a b ha hb h1 h2
    simp only [leInt, decide_eq_true_eq] at h1 h2
    exact eq_of_pairwise_not (S := fun (a b : ProcRow) => a.pid = b.pid) (fun _ _ h => h.symm)
      (d.pids n) ha hb (by omega)
  unfold mkLoom
  simp only [← e1, ← e2, ← e3, ← ecpu]
  split
  · rfl
  · rename_i hcond
    by_cases hen : (sys.procs.filter (fun p => p.loom = n)).any (fun p => decide (p.rank ≥ 0)) = true
    · have hallpos : ∀ p ∈ sys.procs.filter (fun p => p.loom = n), 0 ≤ p.rank := by
        intro p hp
        apply Classical.byContradiction
        intro hneg
        exact hcond ⟨hen, List.any_eq_true.2 ⟨p, hp, decide_eq_true (by omega)⟩⟩
      have erank : sortBy (fun a b => leInt a.rank b.rank) (sys.procs.filter (fun p => p.loom = n)) =
          sortBy (fun a b => leInt a.rank b.rank) (sys'.procs.filter (fun p => p.loom = n)) := by
        apply sortBy_eq_of_perm (fun (a b : ProcRow) => leInt a.rank b.rank)
          (fun a b => leInt_total a.rank b.rank) (fun a b c => leInt_trans a.rank b.rank c.rank) hps
        intro a b ha hb h1 h2
        simp only [leInt, decide_eq_true_eq] at h1 h2
        exact d.ranks a (List.mem_filter.1 ha).1 b (List.mem_filter.1 hb).1 (hallpos a ha) (by omega)
      simp only [hen, if_true]
      rw [eprocs _ _ erank]
    · simp only [hen, Bool.false_eq_true, if_false]
      rw [eprocs _ _ epid]

instance : Inhabited HLoom := ⟨⟨[], false, 0, [], []⟩⟩

/-- The loom built for name `n` (a default when `mkLoom` fails). -/
def loomOf (sys : Sys) (n : Str) : HLoom :=
  match mkLoom sys n with
  | .ok l => l
  | _ => default

theorem mkLooms_map {sys : Sys} (names : List Str) :
    ∀ ls, mkLooms sys names = .ok ls ↔
      (∀ n ∈ names, ∃ l, mkLoom sys n = .ok l) ∧ ls = names.map (loomOf sys) := by
  induction names with
  | nil => intro ls; simp [mkLooms, eq_comm]
  | cons n r ih =>
    intro ls
    simp only [mkLooms]
    cases hm : mkLoom sys n with
    | crash => simp [hm]
    | error e => simp [hm]
    | ok l =>
      simp only
      cases hr : mkLooms sys r with
      | crash =>
        simp only [Res.bind]
        constructor
        · intro h; cases h
        · rintro ⟨h1, _⟩
          have := (ih (r.map (loomOf sys))).2 ⟨fun x hx => h1 x (List.mem_cons_of_mem _ hx), rfl⟩
          rw [hr] at this; cases this
      | error e =>
        simp only [Res.bind]
        constructor
        · intro h; cases h
        · rintro ⟨h1, _⟩
          have := (ih (r.map (loomOf sys))).2 ⟨fun x hx => h1 x (List.mem_cons_of_mem _ hx), rfl⟩
          rw [hr] at this; cases this
      | ok ls' =>
        simp only [Res.bind, Res.ok.injEq]
        obtain ⟨i1, i2⟩ := (ih ls').1 hr
        have hl : loomOf sys n = l := by simp [loomOf, hm]
        constructor
        · intro h
          subst h
          refine ⟨?_, by simp [hl, i2]⟩
          intro x hx
          rcases List.mem_cons.1 hx with rfl | hx
          · exact ⟨l, hm⟩
          · exact i1 x hx
        · rintro ⟨_, h2⟩
          rw [h2]; simp [hl, i2]

/-- A successful `finish` is reproduced on permuted tables. -/
theorem finish_perm {sys sys' : Sys} {h : Hier} (tp : TablesPerm sys sys') (d : Distinct sys)
    (hf : finish sys = .ok h) : finish sys' = .ok h := by
  obtain ⟨ls, h1, h2, h3, h4⟩ := finish_ok hf
  obtain ⟨a1, a2⟩ := (mkLooms_map sys.looms ls).1 h1
  have hlo : ∀ n, loomOf sys' n = loomOf sys n := by
    intro n; simp only [loomOf, mkLoom_perm tp d n]
  have h1' : mkLooms sys' sys'.looms = .ok (sys'.looms.map (loomOf sys)) := by
    rw [mkLooms_map]
    refine ⟨?_, List.map_congr_left (fun n _ => (hlo n).symm)⟩
    intro n hn
    rw [← mkLoom_perm tp d n]
    exact a1 n (tp.looms.mem_iff.2 hn)
  have hperm : ls.Perm (sys'.looms.map (loomOf sys)) := by rw [a2]; exact tp.looms.map _
  have hlperm : h.looms.Perm ls := by rw [h2]; exact sortLooms_perm ls
  have hmk : ∀ a ∈ ls, mkLoom sys a.name = .ok a := (mkLooms_ok _ h1).2
  have huniq : ∀ a ∈ ls, ∀ b ∈ ls, a.name = b.name → a = b := by
    intro a ha b hb hn
    have h1 := hmk a ha
    rw [hn, hmk b hb] at h1
    exact (Res.ok.inj h1).symm
  have hsl : sortLooms (sys'.looms.map (loomOf sys)) = sortLooms ls := by
    unfold sortLooms
    simp only [← hperm.all_eq]
    congr 1
    split
    · rename_i hall
      apply sortBy_eq_of_perm (fun (a b : HLoom) => leInt a.rankMin b.rankMin)
        (fun a b => leInt_total a.rankMin b.rankMin)
        (fun a b c => leInt_trans a.rankMin b.rankMin c.rankMin) hperm.symm
      intro a b ha hb q1 q2
      have ha' := hperm.mem_iff.2 ha
      have hb' := hperm.mem_iff.2 hb
      simp only [leInt, decide_eq_true_eq] at q1 q2
      have hrm : a.rankMin = b.rankMin := by omega
      have wit : ∀ x ∈ ls, ∃ p ∈ sys.procs, p.loom = x.name ∧ p.rank = x.rankMin ∧ 0 ≤ p.rank := by
        intro x hx
        have hen : x.rankEnabled = true := (List.all_eq_true.1 hall) x hx
        have hie := initEnd_ok _ h3 x (hlperm.mem_iff.2 hx)
        obtain ⟨_, _, m3, _⟩ := mkLoom_ok (hmk x hx)
        obtain ⟨b1, b2, _⟩ := m3 hen
        rcases (rankMinOf_spec (procsOf sys x.name)).2 with r2 | ⟨p, pm, r2⟩
        · exact absurd (by rw [b2, r2]) (initEndLoom_ok_rank hie hen)
        · have pm' := mem_procsOf.1 pm
          exact ⟨p, pm'.1, pm'.2, by rw [b2, r2], b1 p pm⟩
      obtain ⟨p, pm, pl, pr, p0⟩ := wit a ha'
      obtain ⟨q, qm, ql, qr, _⟩ := wit b hb'
      have := d.ranks p pm q qm p0 (by rw [pr, qr, hrm])
      subst this
      exact huniq a ha' b hb' (by rw [← pl, ← ql])
    · apply sortBy_eq_of_perm (fun (a b : HLoom) => leStr a.name b.name)
        (fun a b => leStr_total a.name b.name)
        (fun a b c => leStr_trans a.name b.name c.name) hperm.symm
      intro a b ha hb q1 q2
      exact huniq a (hperm.mem_iff.2 ha) b (hperm.mem_iff.2 hb) (leStr_antisymm _ _ q1 q2)
  have hf' := hf
  unfold finish at hf' ⊢
  rw [h1] at hf'
  rw [h1']
  simp only [Res.bind] at hf' ⊢
  rw [hsl]
  exact hf'

/-! ### Assembly -/

theorem distinct_of_inv {l : List StreamMeta} {sys : Sys} (inv : Inv l sys) (hr : RanksDistinct l) :
    Distinct sys := by
  refine ⟨procsOf_pid_nodup inv, ?_, threads_tid_nodup inv, inv.cpus.nodup⟩
  intro p hp q hq h0 heq
  have fp : (p.loom, p.pid, p.rank, some p.nranks) ∈ rankFacts l := by
    rcases inv.procs.soundRank p hp with h | h
    · omega
    · exact h.1
  have fq : (q.loom, q.pid, q.rank, some q.nranks) ∈ rankFacts l := by
    rcases inv.procs.soundRank q hq with h | h
    · omega
    · exact h.1
  have := hr _ fp _ fq heq
  exact inv.procs.key_inj hp hq this.1 this.2

theorem RanksDistinct.load {ss : List StreamMeta} (h : RanksDistinct ss) : RanksDistinct (load ss) := by
  intro x hx y hy
  exact h x (mem_rankFacts_load.1 hx) y (mem_rankFacts_load.1 hy)

/-- One direction of directory-name independence. -/
theorem build_ok_transferMod {m m' : Mode} {ss ss' : List StreamMeta} {h : Hier}
    (hu : SameUnionMod ss ss') (hr : RanksDistinct ss) (hc' : build m' ss' ≠ .crash)
    (hb : build m ss = .ok h) : build m' ss' = .ok h := by
  have hul := hu.load
  obtain ⟨sys, hc, hf⟩ := build_ok hb
  obtain ⟨k1, k2⟩ := build_ok_noConflict hb
  have k1' := k1.transferMod hul
  have k2' : IndexOK (cpuFacts (load ss')) := k2.mono hul.2.2.2.2
  cases hcr : create m' (load ss') with
  | crash =>
    exfalso; apply hc'
    unfold build; rw [hcr]; rfl
  | error e => exact absurd ⟨k1', k2'⟩ (create_error hcr)
  | ok sys' =>
    have inv := create_ok hc
    have inv' := create_ok hcr
    have := finish_perm (tables_perm inv inv' hul) (distinct_of_inv inv hr.load) hf
    unfold build
    rw [hcr]
    exact this

theorem RanksDistinct.transfer {ss ss' : List StreamMeta} (h : RanksDistinct ss) (hu : SameUnionMod ss ss') :
    RanksDistinct ss' := by
  intro x hx y hy
  exact h x (hu.2.2.1.2 hx) y (hu.2.2.1.2 hy)

end Ovni.Emu.System
