import OvniModel.Lemmas.SystemSort
import OvniModel.Emu.SystemSpec

/-! What `system_init` does after `create_system` (helper lemmas for C15). -/
namespace Ovni.Emu.System

/-- The CPUs of loom `n` as `loom_sort` leaves them. -/
def sortedCpus (sys : Sys) (n : Str) : List CpuRow :=
  sortBy (fun a b => leInt a.phyid b.phyid) (sys.cpus.filter (fun c => c.loom = n))

theorem mkLoom_congr {sys sys' : Sys} (n : Str) (h1 : sys.procs = sys'.procs)
    (h2 : sys.threads = sys'.threads) (h3 : sortedCpus sys n = sortedCpus sys' n) :
    mkLoom sys n = mkLoom sys' n := by
  unfold mkLoom
  unfold sortedCpus at h3
  simp only [h1, h2, h3]

theorem mkLooms_congr {sys sys' : Sys} (names : List Str) (h1 : sys.procs = sys'.procs)
    (h2 : sys.threads = sys'.threads) (h3 : ∀ n, sortedCpus sys n = sortedCpus sys' n) :
    mkLooms sys names = mkLooms sys' names := by
  induction names with
  | nil => rfl
  | cons n r ih => simp only [mkLooms, mkLoom_congr n h1 h2 (h3 n), ih]

/-- `finish` reads the CPU table only through the per-loom sorted lists. -/
theorem finish_congr {sys sys' : Sys} (h0 : sys.looms = sys'.looms) (h1 : sys.procs = sys'.procs)
    (h2 : sys.threads = sys'.threads) (h3 : ∀ n, sortedCpus sys n = sortedCpus sys' n) :
    finish sys = finish sys' := by
  unfold finish
  rw [mkLooms_congr sys.looms h1 h2 h3, h0]

theorem sortedCpus_perm {sys sys' : Sys} (hp : sys.cpus.Perm sys'.cpus)
    (hn : sys.cpus.Pairwise (fun a b => ¬ (a.loom = b.loom ∧ a.phyid = b.phyid))) (n : Str) :
    sortedCpus sys n = sortedCpus sys' n := by
  unfold sortedCpus
  apply sortBy_eq_of_perm
  · intro a b; exact leInt_total _ _
  · intro a b c; exact leInt_trans _ _ _
  · exact hp.filter _
  · intro a b ha hb h1 h2
    have ha' := List.mem_filter.1 ha
    have hb' := List.mem_filter.1 hb
    simp only [decide_eq_true_eq] at ha' hb'
    simp only [leInt, decide_eq_true_eq] at h1 h2
    exact eq_of_pairwise_not (S := fun (a b : CpuRow) => a.loom = b.loom ∧ a.phyid = b.phyid)
      (fun _ _ h => ⟨h.1.symm, h.2.symm⟩) hn ha'.1 hb'.1 ⟨by rw [ha'.2, hb'.2], by omega⟩

/-! ### Success of the individual phases -/

theorem mkLoom_name {sys : Sys} {n : Str} {l : HLoom} (h : mkLoom sys n = .ok l) : l.name = n := by
  unfold mkLoom at h
  simp only at h
  split at h
  · cases h
  · cases h; rfl

theorem mkLooms_ok {sys : Sys} (names : List Str) :
    ∀ {ls : List HLoom}, mkLooms sys names = .ok ls →
    ls.map (·.name) = names ∧ ∀ l ∈ ls, mkLoom sys l.name = .ok l := by
  induction names with
  | nil => intro ls h; simp only [mkLooms] at h; cases h; simp
  | cons n r ih =>
    intro ls h
    simp only [mkLooms] at h
    split at h
    · rename_i l hl
      cases hr : mkLooms sys r with
      | error e => rw [hr] at h; simp [Res.bind] at h
      | crash => rw [hr] at h; simp [Res.bind] at h
      | ok ls' =>
        rw [hr] at h
        simp only [Res.bind, Res.ok.injEq] at h
        subst h
        obtain ⟨i1, i2⟩ := ih hr
        have hn := mkLoom_name hl
        refine ⟨by simp [i1, hn], ?_⟩
        intro x hx
        rcases List.mem_cons.1 hx with rfl | hx
        · rw [hn]; exact hl
        · exact i2 x hx
    · cases h
    · cases h

theorem mkLoom_ne_crash (sys : Sys) (n : Str) : mkLoom sys n ≠ .crash := by
  unfold mkLoom; simp only; split <;> simp

theorem mkLooms_ne_crash (sys : Sys) (names : List Str) : mkLooms sys names ≠ .crash := by
  induction names with
  | nil => simp [mkLooms]
  | cons n r ih =>
    simp only [mkLooms]
    split
    · cases hr : mkLooms sys r with
      | crash => exact absurd hr ih
      | error e => simp [Res.bind]
      | ok x => simp [Res.bind]
    · simp
    · rename_i h; exact absurd h (mkLoom_ne_crash _ _)

theorem fillArray_ok (n : Nat) (cs : List CpuRow) :
    ∀ {taken : List Int}, fillArray n taken cs = .ok () →
    (∀ c ∈ cs, 0 ≤ c.index ∧ c.index < (n : Int) ∧ c.index ∉ taken) ∧ (cs.map (·.index)).Nodup := by
  induction cs with
  | nil => intro taken _; simp
  | cons c cs ih =>
    intro taken h
    simp only [fillArray] at h
    split at h
    · cases h
    split at h
    · cases h
    rename_i h1 h2
    obtain ⟨i1, i2⟩ := ih h
    refine ⟨?_, ?_⟩
    · intro x hx
      rcases List.mem_cons.1 hx with rfl | hx
      · exact ⟨by omega, by omega, h2⟩
      · have := i1 x hx
        exact ⟨this.1, this.2.1, fun hm => this.2.2 (List.mem_cons_of_mem _ hm)⟩
    · simp only [List.map_cons, List.nodup_cons]
      refine ⟨?_, i2⟩
      intro hm
      obtain ⟨x, hx, hxe⟩ := List.mem_map.1 hm
      exact (i1 x hx).2.2 (by rw [hxe]; exact List.mem_cons_self)

theorem fillArray_ne_crash (n : Nat) (cs : List CpuRow) : ∀ taken, fillArray n taken cs ≠ .crash := by
  induction cs with
  | nil => intro taken; simp [fillArray]
  | cons c cs ih =>
    intro taken
    simp only [fillArray]
    split
    · simp
    split
    · simp
    · exact ih _

theorem initEndLoom_ok {l : HLoom} (h : initEndLoom l = .ok ()) :
    (∀ p ∈ l.procs, 0 < p.appid) ∧ l.cpus ≠ [] ∧
    (∀ c ∈ l.cpus, 0 ≤ c.index ∧ c.index < (l.cpus.length : Int)) ∧ (l.cpus.map (·.index)).Nodup := by
  unfold initEndLoom at h
  split at h
  · cases h
  split at h
  · cases h
  split at h
  · cases h
  rename_i h1 h2 h3
  obtain ⟨f1, f2⟩ := fillArray_ok _ _ h
  refine ⟨?_, ?_, fun c hc => ⟨(f1 c hc).1, (f1 c hc).2.1⟩, f2⟩
  · intro p hp
    apply Classical.byContradiction
    intro hle
    apply h1
    exact List.any_eq_true.2 ⟨p, hp, decide_eq_true (by omega)⟩
  · intro he; apply h3; rw [he]; rfl

theorem initEndLoom_ne_crash (l : HLoom) : initEndLoom l ≠ .crash := by
  unfold initEndLoom
  split
  · simp
  split
  · simp
  split
  · simp
  · exact fillArray_ne_crash _ _ _

theorem initEnd_ok (ls : List HLoom) : initEnd ls = .ok () → ∀ l ∈ ls, initEndLoom l = .ok () := by
  induction ls with
  | nil => intro _ l hl; cases hl
  | cons x xs ih =>
    intro h l hl
    simp only [initEnd] at h
    split at h
    · rename_i u hx
      rcases List.mem_cons.1 hl with rfl | hl
      · cases u; exact hx
      · exact ih h l hl
    · cases h
    · cases h

theorem initEnd_ne_crash (ls : List HLoom) : initEnd ls ≠ .crash := by
  induction ls with
  | nil => simp [initEnd]
  | cons x xs ih =>
    simp only [initEnd]
    split
    · exact ih
    · simp
    · rename_i h; exact absurd h (initEndLoom_ne_crash _)

theorem reportVersion_ne_crash (ts : List (HProc × ThreadRow)) : reportVersion ts ≠ .crash := by
  induction ts with
  | nil => simp [reportVersion]
  | cons x xs ih =>
    obtain ⟨p, t⟩ := x
    simp only [reportVersion]
    split
    · simp
    split
    · simp
    · exact ih

theorem reportVersion_ok (ts : List (HProc × ThreadRow)) :
    reportVersion ts = .ok () → ∀ x ∈ ts, x.2.hasVersion = true ∧ x.2.hasCommit = true := by
  induction ts with
  | nil => intro _ x hx; cases hx
  | cons y ys ih =>
    obtain ⟨p, t⟩ := y
    intro h x hx
    simp only [reportVersion] at h
    split at h
    · cases h
    split at h
    · cases h
    rename_i h1 h2
    rcases List.mem_cons.1 hx with rfl | hx
    · simp only [Bool.not_eq_true, Bool.not_eq_false] at h1 h2
      exact ⟨h1, h2⟩
    · exact ih h x hx

/-- `finish` never dereferences anything: it returns or fails with a message. -/
theorem finish_ne_crash (sys : Sys) : finish sys ≠ .crash := by
  unfold finish
  cases h1 : mkLooms sys sys.looms with
  | crash => exact absurd h1 (mkLooms_ne_crash _ _)
  | error e => simp [Res.bind]
  | ok ls =>
    simp only [Res.bind]
    cases h2 : initEnd (sortLooms ls).2 with
    | crash => exact absurd h2 (initEnd_ne_crash _)
    | error e => simp
    | ok u =>
      simp only
      cases h3 : reportVersion (Hier.threads ⟨(sortLooms ls).1, (sortLooms ls).2⟩) with
      | crash => exact absurd h3 (reportVersion_ne_crash _)
      | error e => simp
      | ok u => simp

/-- Anatomy of a successful `finish`. -/
theorem finish_ok {sys : Sys} {h : Hier} (hf : finish sys = .ok h) :
    ∃ ls, mkLooms sys sys.looms = .ok ls ∧ h = ⟨(sortLooms ls).1, (sortLooms ls).2⟩ ∧
      initEnd h.looms = .ok () ∧ reportVersion h.threads = .ok () := by
  unfold finish at hf
  cases h1 : mkLooms sys sys.looms with
  | crash => rw [h1] at hf; simp [Res.bind] at hf
  | error e => rw [h1] at hf; simp [Res.bind] at hf
  | ok ls =>
    rw [h1] at hf
    simp only [Res.bind] at hf
    cases h2 : initEnd (sortLooms ls).2 with
    | crash => rw [h2] at hf; simp at hf
    | error e => rw [h2] at hf; simp at hf
    | ok u =>
      rw [h2] at hf
      simp only at hf
      cases h3 : reportVersion (Hier.threads ⟨(sortLooms ls).1, (sortLooms ls).2⟩) with
      | crash => rw [h3] at hf; simp at hf
      | error e => rw [h3] at hf; simp at hf
      | ok u' =>
        rw [h3] at hf
        simp only [Res.ok.injEq] at hf
        subst hf
        cases u; cases u'
        exact ⟨ls, rfl, rfl, h2, h3⟩

theorem sortLooms_perm (ls : List HLoom) : (sortLooms ls).2.Perm ls := by
  unfold sortLooms
  simp only
  split <;> exact sortBy_perm _ _

end Ovni.Emu.System
