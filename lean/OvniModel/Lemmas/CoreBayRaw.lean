import OvniModel.Lemmas.CoreBayOrder

/-
  C20 (second obligation), events that write raw model channels: which track
  outputs can enter the dirty list.  In the two-level network every channel
  appended during the dirty phase is the output of a mux whose select channel or
  one of whose inputs was written by the event.  So an event that writes neither
  a CPU's `th_running` nor the raw channel `i` of any thread leaves the CPU track
  of channel `i` off the dirty list.
-/
namespace Ovni.Emu
open Ovni.Generated

/-- `x` was written by the event, or is the output of a mux with a written
    select channel / input. -/
def Bay.Reached (b : Bay) (x : Nat) : Prop :=
  x ∈ b.dirty ∨ ∃ (mi : Nat) (m : Mux), b.muxes[mi]? = some m ∧ m.out = x ∧
    (m.sel ∈ b.dirty ∨ ∃ (i c : Nat), m.inputs[i]? = some (some c) ∧ c ∈ b.dirty)

theorem Bay.dirtyPhase_reached {b bP : Bay} {L fuel : Nat} (wf : b.WF) (hl : b.Layered L)
    (h : b.dirtyPhase fuel 0 = .ok bP) :
    bP.muxes = b.muxes ∧ ∀ x ∈ bP.dirty, b.Reached x := by
  let P : Bay → Nat → Prop := fun b' _ => b'.muxes = b.muxes ∧ ∀ x ∈ b'.dirty, b.Reached x
  have hsrc : ∀ c, c < L → b.Reached c → c ∈ b.dirty := by
    intro c hcL hr
    rcases hr with h | ⟨mi, m, hm, ho, _⟩
    · exact h
    · have := (hl mi m hm).2.2.1; omega
  have hstep : ∀ (b2 : Bay) (k c : Nat) (b3 : Bay), b2.WF → P b2 k → b2.dirty[k]? = some c →
      b2.propChan (b2.chanFuel c) c 0 = .ok b3 → P b3 (k + 1) := by
    intro b2 k c b3 wf2 hp hk hrun
    have hcm : c ∈ b2.dirty := List.mem_of_getElem? hk
    exact (Bay.propChan_rule c (fun b4 _ => P b4 0 ∧ c ∈ b4.dirty)
      (by
        intro b4 j cb b5 wf4 ⟨⟨q1, q2⟩, hc4⟩ hcb hrun4 _
        have hmem : cb ∈ b4.cbsOf c := List.mem_of_getElem? hcb
        obtain ⟨m', hm', hmux, _, hdd, _⟩ := Bay.runCb_frame wf4 hrun4
        have hm0 : b.muxes[cb.mux]? = some m' := q1 ▸ hm'
        have hnew : b.Reached m'.out := by
          cases cb with
          | muxSelect mj =>
            obtain ⟨m0, h0, hs0⟩ := wf4.selCbOnly c mj hmem
            simp only [Cb.mux] at hm' hm0
            rw [hm'] at h0; cases h0
            have hcL : c < L := hs0 ▸ (hl mj m' hm0).1
            exact Or.inr ⟨mj, m', hm0, rfl, Or.inl (hs0 ▸ hsrc c hcL (q2 c hc4))⟩
          | muxInput mj i =>
            obtain ⟨m0, h0, hi0⟩ := wf4.inCbOnly c mj i hmem
            simp only [Cb.mux] at hm' hm0
            rw [hm'] at h0; cases h0
            have hcL : c < L := (hl mj m' hm0).2.1 i c hi0
            exact Or.inr ⟨mj, m', hm0, rfl, Or.inr ⟨i, c, hi0, hsrc c hcL (q2 c hc4)⟩⟩
        refine ⟨⟨hmux.trans q1, ?_⟩, ?_⟩
        · intro x hx
          rcases hdd with e | e
          · rw [e] at hx; exact q2 x hx
          · rw [e] at hx
            rcases List.mem_append.mp hx with hx | hx
            · exact q2 x hx
            · simp only [List.mem_singleton] at hx; subst hx; exact hnew
        · rcases hdd with e | e <;> rw [e]
          · exact hc4
          · simp [hc4])
      _ b2 0 b3 wf2 ⟨hp, hcm⟩ (Nat.zero_le _) hrun).2.2.1
  have h0 : P b 0 := ⟨rfl, fun x hx => Or.inl hx⟩
  have := (Bay.dirtyPhase_rule P hstep fuel b 0 bP wf h0 (Nat.zero_le _) h).2
  exact this

/-- **Any simulated step, with the dirty phase exposed.**  Like
    `Inv.sys_event`, for a step that writes sources of any class `P`: every
    channel on the dirty list after the dirty phase was written by the step or is
    the output of a mux of the connected bay with a written select / input. -/
theorem Inv.any_event {P : Src → Prop} {e e' : Emu} {b0 b : Bay} (hc : e.shape.connect = .ok b0) (hs : Shaped e)
    (hi : Inv b0 e b) (hsim : SimP P e e') :
    ∃ b1 bP bF em, Bay.Writes (e.shape.okP P) b b1 ∧ Mirrors e' b1 ∧
      b1.dirtyPhase b1.chans.length 0 = .ok bP ∧ b1.propagate = .ok (bF, em) ∧
      Inv b0 e'.flushAll bF ∧ bP.WF ∧ b1.muxes = b0.muxes ∧
      (∀ s ∈ b1.dirty, e.shape.okP P s) ∧ (∀ x ∈ bP.dirty, b1.Reached x) := by
  obtain ⟨hs', hshape, hw⟩ := hsim hs
  obtain ⟨b1, hwP, hm1⟩ := hw b hi.mirrors
  have hw1 : Bay.Writes (· < e.shape.L) b b1 := hwP.mono (fun _ h => Shape.okP_lt h)
  obtain ⟨_, bF, em, hp, hinv⟩ := hi.step_core hc hs' hshape hw1 hm1
  obtain ⟨bP, b2, h1, _, _, _⟩ := Bay.propagate_ok hp
  have hb := Shape.connect_built hc
  obtain ⟨wf1, _, _, hmx1, _, _⟩ := hw1.inv hi.wf
  have hlay1 : b1.Layered e.shape.L := by
    have := hb.topo.layered
    unfold Bay.Layered at this ⊢; rw [hmx1, hi.muxes]; exact this
  have hdsub : ∀ s ∈ b1.dirty, e.shape.okP P s := by
    intro s hsd
    rcases hwP.dirty_sub s hsd with h | h
    · rw [hi.clean.1] at h; cases h
    · exact h
  have wfP : bP.WF := (Bay.dirtyPhase_length wf1 h1).1
  obtain ⟨_, hreach⟩ := Bay.dirtyPhase_reached wf1 hlay1 h1
  exact ⟨b1, bP, bF, em, hwP, hm1, h1, hp, hinv, wfP, hmx1.trans hi.muxes, hdsub, hreach⟩

/-- A written channel id is the id of a written source. -/
theorem Shape.okP_idx {σ : Shape} {P : Src → Prop} {s0 : Src} (hmem : s0 ∈ σ.addrs)
    (h : σ.okP P (σ.idx s0)) : P s0 := by
  obtain ⟨s, hs, hp, he⟩ := h
  have := σ.idx_inj hmem hs he
  subst this; exact hp

/-- **A CPU track stays off the dirty list** when the step writes neither the
    CPU's `th_running` nor channel `i` of model `k` of any thread. -/
theorem Shape.Built.cpuOut_not_reached {σ : Shape} {b0 b1 : Bay} (hb : σ.Built σ.jobs.length b0)
    (hmx : b1.muxes = b0.muxes) {P : Src → Prop} (hd : ∀ s ∈ b1.dirty, σ.okP P s)
    {c k i : Nat} {ms : ModelSpec} (hcl : c < σ.nC) (hk : σ.specs[k]? = some ms) (hil : i < ms.nch)
    (hrun : ¬ P (.run c)) (hraw : ∀ g, ¬ P (.raw g k i)) : ¬ b1.Reached (σ.cpuOut c k i) := by
  have hjob : Job.cpu c k i ∈ σ.jobs := (σ.mem_jobs_cpu c k i).mpr ⟨hcl, ms, hk, hil⟩
  have hj := σ.getElem?_job hjob
  have hjl : σ.jobs.idxOf (Job.cpu c k i) < σ.jobs.length := List.idxOf_lt_length_iff.mpr hjob
  have hmo : σ.muxOf (Job.cpu c k i) (σ.L + σ.jobs.idxOf (Job.cpu c k i)) = some
      { sel := σ.idx (.run c), out := σ.cpuOut c k i, kind := .byIndex,
        inputs := (σ.rawsOf k i).map some, dflt := ms.cpuDflt i } := by
    simp only [Shape.muxOf, hk]; rfl
  obtain ⟨mi0, hmi0⟩ := hb.mem_mux hjl hj hmo
  rintro (hx | ⟨mi, m, hm, ho, hsrc⟩)
  · have := Shape.okP_lt (hd _ hx)
    unfold Shape.cpuOut at this; omega
  · rw [hmx] at hm
    have hmm : mi = mi0 := by
      apply Classical.byContradiction
      intro hne
      exact (hb.topo.layered mi0 _ hmi0).2.2.2 mi m hm hne ho
    subst hmm
    rw [hmi0] at hm; cases hm
    rcases hsrc with hsel | ⟨j, c', hin, hc'⟩
    · exact hrun (Shape.okP_idx ((σ.mem_run c).mpr hcl) (hd _ hsel))
    · simp only [Shape.rawsOf, List.map_map, List.getElem?_map] at hin
      cases hr : (List.range σ.nT)[j]? with
      | none => rw [hr] at hin; cases hin
      | some g =>
        rw [hr] at hin
        simp only [Option.map_some, Function.comp, Option.some.injEq] at hin
        have hg : g < σ.nT := List.mem_range.mp (List.mem_of_getElem? hr)
        subst hin
        exact hraw g (Shape.okP_idx ((σ.mem_raw g k i).mpr ⟨hg, ms, hk, hil⟩) (hd _ hc'))

end Ovni.Emu
