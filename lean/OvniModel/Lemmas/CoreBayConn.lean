import OvniModel.Lemmas.CoreBayIdx
import OvniModel.Lemmas.CoreBayProp

/-
  C06, last composition step (2/4): what `Shape.connect` builds.  After `p`
  jobs the bay is two-level over the `L` source channels, job number `j` owns
  channel `L + j`, the mux list is exactly the list of the jobs' muxes in job
  order, the source channels are untouched, every `mux->selected` is still 0
  and every output is a single DIRTY_WRITE channel.
-/
namespace Ovni.Emu
open Ovni.Generated

/-! ### effect of the two connection steps on channels and `selected` -/

theorem Bay.trackThread_cases {b b' : Bay} {mode sel inp out : Nat}
    (h : b.trackThread mode sel inp = .ok (b', out)) :
    (mode = trackAny ∧ b' = (b.register {}).1 ∧ out = inp) ∨
    ((mode = trackRun ∨ mode = trackAct) ∧ mode ≠ trackAny) := by
  by_cases ha : mode = trackAny
  · left
    unfold Bay.trackThread at h
    simp only [ha, if_true] at h
    injection h with h; injection h with h1 h2
    exact ⟨ha, h1.symm, h2.symm⟩
  · right
    refine ⟨?_, ha⟩
    by_cases hr : mode = trackRun
    · exact Or.inl hr
    · by_cases hc : mode = trackAct
      · exact Or.inr hc
      · unfold Bay.trackThread at h
        simp [ha, hr, hc] at h

theorem Bay.trackThread_chans {b b' : Bay} {mode sel inp out : Nat}
    (hmode : mode = trackRun ∨ mode = trackAct)
    (h : b.trackThread mode sel inp = .ok (b', out)) :
    (∀ c, c < b.chans.length → b'.chans[c]? = b.chans[c]?) ∧
    b'.chans[out]? = some { dirtyWrite := true, allowDup := true } ∧
    b'.selected = b.selected ++ [some 0] ∧ b'.dirty = b.dirty := by
  obtain ⟨rfl, b1, mi, h1, h2⟩ := Bay.trackThread_ok hmode h
  obtain ⟨oc, hoc, _, _, _, _, rfl⟩ := Bay.muxInit_ok h1
  obtain ⟨m, _, _, _, _, rfl⟩ := Bay.muxSetInput_ok h2
  have hoc' : oc = {} := by
    simp only [Bay.register] at hoc
    rw [List.getElem?_append_right (Nat.le_refl _)] at hoc
    simpa using hoc.symm
  subst hoc'
  refine ⟨?_, ?_, ?_, ?_⟩
  · intro c hc
    simp only [Bay.enableCb_chans, Bay.register]
    rw [List.getElem?_set_ne (Nat.ne_of_gt hc), List.getElem?_append_left hc]
  · simp [Bay.register]
  · simp [Bay.register]
  · simp [Bay.register]

theorem Bay.setInputs_chans : ∀ (cs : List Nat) (b b' : Bay) (mi i : Nat),
    b.setInputs mi i cs = .ok b' → b'.chans = b.chans ∧ b'.selected = b.selected ∧ b'.dirty = b.dirty ∧
      b'.cbs = b.cbs := by
  intro cs
  induction cs with
  | nil => intro b b' mi i h; cases h; exact ⟨rfl, rfl, rfl, rfl⟩
  | cons c cs ih =>
    intro b b' mi i h
    rw [Bay.setInputs] at h
    split at h
    · cases h
    · rename_i b1 h1
      obtain ⟨m, _, _, _, _, rfl⟩ := Bay.muxSetInput_ok h1
      have := ih _ b' mi (i + 1) h
      exact this

theorem Bay.trackCpu_chans {b b' : Bay} {sel out : Nat} {raws : List Nat} {dflt : Value}
    (h : b.trackCpu sel raws dflt = .ok (b', out)) :
    (∀ c, c < b.chans.length → b'.chans[c]? = b.chans[c]?) ∧
    b'.chans[out]? = some { dirtyWrite := true, allowDup := true } ∧
    b'.selected = b.selected ++ [some 0] ∧ b'.dirty = b.dirty := by
  obtain ⟨rfl, b1, b2, mi, h1, h2, h3⟩ := Bay.trackCpu_ok h
  obtain ⟨oc, hoc, _, _, _, _, rfl⟩ := Bay.muxInit_ok h1
  obtain ⟨hc2, hs2, hd2, _⟩ := Bay.setInputs_chans _ _ _ _ _ h2
  have hc3 : b'.chans = b2.chans ∧ b'.selected = b2.selected ∧ b'.dirty = b2.dirty := by
    unfold Bay.muxSetDefault at h3
    split at h3
    · cases h3
    · cases h3; exact ⟨rfl, rfl, rfl⟩
  have hoc' : oc = {} := by
    simp only [Bay.register] at hoc
    rw [List.getElem?_append_right (Nat.le_refl _)] at hoc
    simpa using hoc.symm
  subst hoc'
  rw [hc3.1, hc2, hc3.2.1, hs2, hc3.2.2, hd2]
  refine ⟨?_, ?_, ?_, ?_⟩
  · intro c hc
    simp only [Bay.enableCb_chans, Bay.register]
    rw [List.getElem?_set_ne (Nat.ne_of_gt hc), List.getElem?_append_left hc]
  · simp [Bay.register]
  · simp [Bay.register]
  · simp [Bay.register]

/-! ### effect on the callback lists -/

/-- the output channel a select callback writes -/
def Bay.outOfCb (b : Bay) : Cb → Option Nat
  | .muxSelect mi => (b.muxes[mi]?).map (·.out)
  | .muxInput _ _ => none

/-- outputs of the muxes selected by channel `s`, in callback order -/
def Bay.selOuts (b : Bay) (s : Nat) : List Nat := (b.cbsOf s).filterMap b.outOfCb

theorem Bay.muxInit_cbsOf {b b' : Bay} {sel out n mi : Nat} {kind : SelKind} (wf : b.WF)
    (h : b.muxInit sel out kind n = .ok (b', mi)) (s : Nat) :
    b'.cbsOf s = if s = sel then b.cbsOf s ++ [Cb.muxSelect b.muxes.length] else b.cbsOf s := by
  obtain ⟨oc, _, hsel, _, _, _, rfl⟩ := Bay.muxInit_ok h
  have hsl : sel < b.cbs.length := by rw [wf.cbsLen]; exact hsel
  have hnot : Cb.muxSelect b.muxes.length ∉ b.cbsOf sel := by
    intro hm
    obtain ⟨m, hm, _⟩ := wf.selCbOnly sel _ hm
    have := (List.getElem?_eq_some_iff.mp hm).1
    omega
  have key : ∀ (bi : Bay), bi.cbs = b.cbs →
      (bi.enableCb sel (Cb.muxSelect b.muxes.length)).cbsOf s =
        if s = sel then b.cbsOf s ++ [Cb.muxSelect b.muxes.length] else b.cbsOf s := by
    intro bi hbi
    have hcb : ∀ c, bi.cbsOf c = b.cbsOf c := Bay.cbsOf_congr hbi
    by_cases hs : s = sel
    · subst hs
      simp only [if_true]
      rw [Bay.enableCb_cbsOf_eq _ _ (by rw [hbi]; exact hsl), hcb]
      simp [hnot]
    · simp only [hs, if_false]
      rw [Bay.enableCb_cbsOf_ne _ _ hs, hcb]
  exact key _ rfl

theorem Bay.trackThread_cbsOf {b b' : Bay} {mode sel inp out : Nat} (wf : b.WF)
    (hmode : mode = trackRun ∨ mode = trackAct)
    (h : b.trackThread mode sel inp = .ok (b', out)) (s : Nat) :
    b'.cbsOf s = if s = sel then b.cbsOf s ++ [Cb.muxSelect b.muxes.length] else b.cbsOf s := by
  obtain ⟨_, b1, mi, h1, h2⟩ := Bay.trackThread_ok hmode h
  obtain ⟨m, _, _, _, _, rfl⟩ := Bay.muxSetInput_ok h2
  have := Bay.muxInit_cbsOf (wf.register {} rfl) h1 s
  simp only [Bay.register_cbsOf] at this
  exact this

theorem Bay.trackCpu_cbsOf {b b' : Bay} {sel out : Nat} {raws : List Nat} {dflt : Value} (wf : b.WF)
    (h : b.trackCpu sel raws dflt = .ok (b', out)) (s : Nat) :
    b'.cbsOf s = if s = sel then b.cbsOf s ++ [Cb.muxSelect b.muxes.length] else b.cbsOf s := by
  obtain ⟨_, b1, b2, mi, h1, h2, h3⟩ := Bay.trackCpu_ok h
  obtain ⟨_, _, _, hc2⟩ := Bay.setInputs_chans _ _ _ _ _ h2
  have hc3 : b'.cbs = b2.cbs := by
    unfold Bay.muxSetDefault at h3
    split at h3
    · cases h3
    · cases h3; rfl
  have := Bay.muxInit_cbsOf (wf.register {} rfl) h1 s
  simp only [Bay.register_cbsOf] at this
  rw [Bay.cbsOf_congr (hc3.trans hc2)]
  exact this

theorem filterMap_congr' {α β} {f g : α → Option β} : ∀ {l : List α}, (∀ a ∈ l, f a = g a) →
    l.filterMap f = l.filterMap g := by
  intro l
  induction l with
  | nil => intro _; rfl
  | cons a l ih =>
    intro h
    rw [List.filterMap_cons, List.filterMap_cons, h a (by simp), ih (fun x hx => h x (by simp [hx]))]

theorem Bay.selOuts_lt {b : Bay} (wf : b.WF) {s x : Nat} (hx : x ∈ b.selOuts s) : x < b.chans.length := by
  obtain ⟨cb, _, hcb⟩ := List.mem_filterMap.mp hx
  cases cb with
  | muxInput _ _ => cases hcb
  | muxSelect mi =>
    simp only [Bay.outOfCb] at hcb
    cases hm : b.muxes[mi]? with
    | none => rw [hm] at hcb; cases hcb
    | some m => rw [hm] at hcb; cases hcb; exact wf.outLt mi m hm

/-- A connection step appends the new mux's output to the select channel's
    list and leaves the others alone; the lists stay increasing. -/
theorem Bay.selOuts_snoc {b b' : Bay} {sel : Nat} {mnew : Mux} (wf : b.WF)
    (hmx : b'.muxes = b.muxes ++ [mnew]) (hnew : b.chans.length ≤ mnew.out)
    (hcbs : ∀ s, b'.cbsOf s = if s = sel then b.cbsOf s ++ [Cb.muxSelect b.muxes.length] else b.cbsOf s)
    (hasc : ∀ s, (b.selOuts s).Pairwise (· < ·)) (s : Nat) : (b'.selOuts s).Pairwise (· < ·) := by
  have hold : (b.cbsOf s).filterMap b'.outOfCb = b.selOuts s := by
    unfold Bay.selOuts
    apply filterMap_congr'
    intro cb hcb
    cases cb with
    | muxInput _ _ => rfl
    | muxSelect mi =>
      obtain ⟨m, hm, _⟩ := wf.selCbOnly s mi hcb
      have hlt := (List.getElem?_eq_some_iff.mp hm).1
      simp only [Bay.outOfCb, hmx, List.getElem?_append_left hlt]
  unfold Bay.selOuts
  rw [hcbs s]
  by_cases hs : s = sel
  · simp only [hs, if_true, List.filterMap_append]
    rw [← hs, hold]
    have hnewo : [Cb.muxSelect b.muxes.length].filterMap b'.outOfCb = [mnew.out] := by
      simp [Bay.outOfCb, hmx]
    rw [hnewo, List.pairwise_append]
    refine ⟨hasc s, by simp, ?_⟩
    intro x hx y hy
    have := Bay.selOuts_lt wf hx
    simp only [List.mem_singleton] at hy
    omega
  · simp only [hs, if_false]
    rw [hold]; exact hasc s

/-! ### the invariant of the connection loop -/

/-- The muxes of the first `p` jobs, in job order. -/
def Shape.muxList (σ : Shape) (p : Nat) : List Mux :=
  (σ.jobs.take p).zipIdx.filterMap (fun x => σ.muxOf x.1 (σ.L + x.2))

theorem Shape.muxList_succ (σ : Shape) {p : Nat} {job : Job} (h : σ.jobs[p]? = some job) :
    σ.muxList (p + 1) = σ.muxList p ++ (match σ.muxOf job (σ.L + p) with | some m => [m] | none => []) := by
  have hp : p < σ.jobs.length := (List.getElem?_eq_some_iff.mp h).1
  unfold Shape.muxList
  rw [take_succ_of_get h, List.zipIdx_append, List.filterMap_append]
  congr 1
  have : (List.take p σ.jobs).length = p := by rw [List.length_take]; omega
  rw [this]
  simp only [List.zipIdx_cons, List.zipIdx_nil, List.filterMap_cons, List.filterMap_nil, Nat.zero_add]
  split <;> simp_all

theorem Shape.mem_muxList (σ : Shape) {p : Nat} {m : Mux} (h : m ∈ σ.muxList p) :
    ∃ j job, j < p ∧ σ.jobs[j]? = some job ∧ σ.muxOf job (σ.L + j) = some m := by
  unfold Shape.muxList at h
  obtain ⟨⟨job, j⟩, hmem, hm⟩ := List.mem_filterMap.mp h
  have := List.mem_zipIdx_iff_getElem?.mp hmem
  simp only at this
  rw [List.getElem?_take] at this
  split at this
  · exact ⟨j, job, by assumption, this, hm⟩
  · cases this

/-- The tracking mode of a connected thread channel is one `track_th_input_chan` accepts. -/
def Shape.JobOk (σ : Shape) : Job → Prop
  | .th _ k i => ∀ m, σ.specs[k]? = some m →
      m.thTrack.getD i 0 = trackAny ∨ m.thTrack.getD i 0 = trackRun ∨ m.thTrack.getD i 0 = trackAct
  | .cpu _ _ _ => True

structure Shape.Built (σ : Shape) (p : Nat) (b : Bay) : Prop where
  topo : b.Topo σ.L
  len : b.chans.length = σ.L + p
  src : ∀ c, c < σ.L → b.chans[c]? = σ.bay0.chans[c]?
  muxes : b.muxes = σ.muxList p
  selZero : ∀ (mi j : Nat), b.selOf mi = some j → j = 0
  outOk : ∀ (mi : Nat) (m : Mux), b.muxes[mi]? = some m →
    (b.chan m.out).isStack = false ∧ (b.chan m.out).dirtyWrite = true
  dirty : b.dirty = []
  modes : ∀ (j : Nat) (job : Job), j < p → σ.jobs[j]? = some job → σ.JobOk job
  /-- the select callbacks of every channel are in `mux_init` order = increasing output id -/
  selAsc : ∀ (s : Nat), (b.selOuts s).Pairwise (· < ·)

theorem Shape.built_zero (σ : Shape) : σ.Built 0 σ.bay0 := by
  have hmx : σ.bay0.muxes = [] := by simp [Shape.bay0, Bay.registerAll_eq]
  refine ⟨σ.bay0_topo, ?_, fun _ _ => rfl, ?_, ?_, ?_, ?_, ?_, ?_⟩
  · rw [σ.bay0_chans]; simp [Shape.L]
  · rw [hmx]; simp [Shape.muxList]
  · intro mi j h
    have : σ.bay0.selected = [] := by simp [Shape.bay0, Bay.registerAll_eq]
    simp [Bay.selOf, this] at h
  · intro mi m h; rw [hmx] at h; simp at h
  · simp [Shape.bay0, Bay.registerAll_eq]
  · intro j job hj; omega
  · intro s
    have : σ.bay0.selOuts s = [] := by
      unfold Bay.selOuts Bay.outOfCb
      apply List.filterMap_eq_nil_iff.mpr
      intro cb _
      cases cb with
      | muxInput _ _ => rfl
      | muxSelect mi => simp [hmx]
    rw [this]; exact List.Pairwise.nil

theorem Bay.chan_congr {b b' : Bay} {c : Nat} (h : b'.chans[c]? = b.chans[c]?) : b'.chan c = b.chan c := by
  simp [Bay.chan, List.getD_eq_getElem?_getD, h]

private theorem selOf_append_zero {sel : List (Option Nat)} {mi j : Nat}
    (hold : ∀ j, sel.getD mi none = some j → j = 0)
    (h : (sel ++ [some 0]).getD mi none = some j) : j = 0 := by
  simp only [List.getD_eq_getElem?_getD] at h hold
  rcases Nat.lt_or_ge mi sel.length with hl | hl
  · rw [List.getElem?_append_left hl] at h; exact hold j h
  · rw [List.getElem?_append_right hl] at h
    cases hk : mi - sel.length with
    | zero => rw [hk] at h; simp at h; exact h.symm
    | succ n => rw [hk] at h; simp at h

theorem Shape.Built.step {σ : Shape} {p : Nat} {b b' : Bay} {job : Job} {o : Nat}
    (hb : σ.Built p b) (hj : σ.jobs[p]? = some job) (h : σ.runJob b job = .ok (b', o)) :
    σ.Built (p + 1) b' := by
  have hmem : job ∈ σ.jobs := List.mem_of_getElem? hj
  have hml := σ.muxList_succ hj
  have hmodes : σ.JobOk job → ∀ (j' : Nat) (job' : Job), j' < p + 1 → σ.jobs[j']? = some job' → σ.JobOk job' := by
    intro hok j' job' hj' hjob'
    by_cases e : j' = p
    · subst e; rw [hj] at hjob'; cases hjob'; exact hok
    · exact hb.modes j' job' (by omega) hjob'
  cases job with
  | th g k i =>
    obtain ⟨hg, m, hk, hi⟩ := (σ.mem_jobs_th g k i).mp hmem
    simp only [Shape.runJob, hk] at h
    have hst : Src.st g ∈ σ.addrs := (σ.mem_st g).mpr hg
    have hraw : Src.raw g k i ∈ σ.addrs := (σ.mem_raw g k i).mpr ⟨hg, m, hk, hi⟩
    rcases Bay.trackThread_cases h with ⟨ha, rfl, _⟩ | ⟨hmode, hna⟩
    · -- mode ANY: only the track's own channel is registered
      have hmo : σ.muxOf (.th g k i) (σ.L + p) = none := by simp only [Shape.muxOf, hk, ha, if_true]
      rw [hmo] at hml
      refine ⟨hb.topo.register, ?_, ?_, ?_, hb.selZero, ?_, hb.dirty,
        hmodes (fun m' hk' => by rw [hk] at hk'; cases hk'; exact Or.inl ha), ?_⟩
      rotate_right
      · intro s
        have : (b.register {}).1.selOuts s = b.selOuts s := by
          unfold Bay.selOuts; rw [Bay.register_cbsOf]; rfl
        rw [this]; exact hb.selAsc s
      · simp [Bay.register, hb.len]; omega
      · intro c hc
        rw [← hb.src c hc]
        simp only [Bay.register]
        exact List.getElem?_append_left (by rw [hb.len]; omega)
      · show b.muxes = _; rw [hml, hb.muxes]; simp
      · intro mi mx hmx
        have hlt := hb.topo.wf.outLt mi mx hmx
        have : (b.register {}).1.chan mx.out = b.chan mx.out := by
          rw [Bay.register_chan]; simp [Nat.ne_of_lt hlt]
        rw [this]; exact hb.outOk mi mx hmx
    · obtain ⟨t', hout, hmx'⟩ := hb.topo.trackThread hmode (σ.idx_lt hst) (σ.idx_lt hraw)
        (fun e => by have := σ.idx_inj hraw hst e; cases this) h
      obtain ⟨hch, hco, hsel, hdt⟩ := Bay.trackThread_chans hmode h
      have hmo : σ.muxOf (.th g k i) (σ.L + p) = some
          { sel := σ.idx (.st g), out := σ.L + p,
            kind := if m.thTrack.getD i 0 = trackRun then .thRunning else .thActive,
            inputs := [some (σ.idx (.raw g k i))] } := by simp only [Shape.muxOf, hk, hna, if_false]
      rw [hmo] at hml
      have hop : o = σ.L + p := by rw [hout, hb.len]
      have hlen' : b'.chans.length = σ.L + (p + 1) := by
        obtain ⟨_, b1, mi, h1, h2'⟩ := Bay.trackThread_ok hmode h
        obtain ⟨_, _, _, hl1, _⟩ := (hb.topo.register.wf).muxInit h1
        obtain ⟨m0, _, _, _, _, rfl⟩ := Bay.muxSetInput_ok h2'
        show b1.chans.length = _
        rw [hl1]; simp [Bay.register, hb.len]; omega
      refine ⟨t', hlen', ?_, ?_, ?_, ?_, hdt.trans hb.dirty,
        hmodes (fun m' hk' => by rw [hk] at hk'; cases hk'; exact Or.inr hmode),
        Bay.selOuts_snoc hb.topo.wf hmx' (by rw [hout]; exact Nat.le_refl _)
          (Bay.trackThread_cbsOf hb.topo.wf hmode h) hb.selAsc⟩
      · intro c hc; rw [← hb.src c hc]; exact hch c (by rw [hb.len]; omega)
      · rw [hmx', hml, hb.muxes, hop]
      · intro mi j hsj
        simp only [Bay.selOf, hsel] at hsj
        exact selOf_append_zero (fun j hj => hb.selZero mi j hj) hsj
      · intro mi mx hmx
        rw [hmx'] at hmx
        rcases getElem?_append_some hmx with hold | ⟨_, rfl⟩
        · have hlt := hb.topo.wf.outLt mi mx hold
          rw [Bay.chan_congr (hch _ hlt)]; exact hb.outOk mi mx hold
        · simp only
          rw [Bay.chan_of_getElem? hco]; exact ⟨rfl, rfl⟩
  | cpu c k i =>
    obtain ⟨hc, m, hk, hi⟩ := (σ.mem_jobs_cpu c k i).mp hmem
    simp only [Shape.runJob, hk] at h
    split at h
    · have hrun : Src.run c ∈ σ.addrs := (σ.mem_run c).mpr hc
      have hraws : ∀ x ∈ σ.rawsOf k i, x < σ.L ∧ x ≠ σ.idx (.run c) := by
        intro x hx
        obtain ⟨g, hg, rfl⟩ := List.mem_map.mp hx
        have hraw : Src.raw g k i ∈ σ.addrs := (σ.mem_raw g k i).mpr ⟨List.mem_range.mp hg, m, hk, hi⟩
        exact ⟨σ.idx_lt hraw, fun e => by have := σ.idx_inj hraw hrun e; cases this⟩
      obtain ⟨wf', hlay, hno, hlen, hout, hnull, hnullo, hmx'⟩ := hb.topo.trackCpu (σ.idx_lt hrun) hraws h
      obtain ⟨hch, hco, hsel, hdt⟩ := Bay.trackCpu_chans h
      have hmo : σ.muxOf (.cpu c k i) (σ.L + p) = some
          { sel := σ.idx (.run c), out := σ.L + p, kind := .byIndex,
            inputs := (σ.rawsOf k i).map some, dflt := m.cpuDflt i } := by simp [Shape.muxOf, hk]
      rw [hmo] at hml
      have hop : o = σ.L + p := by rw [hout, hb.len]
      have hlen' : b'.chans.length = σ.L + (p + 1) := by
        obtain ⟨_, b1, b2, mi, h1, h2, h3⟩ := Bay.trackCpu_ok h
        obtain ⟨_, _, _, hl1, _⟩ := (hb.topo.register.wf).muxInit h1
        have hc2 := (Bay.setInputs_chans _ _ _ _ _ h2).1
        have hc3 : b'.chans = b2.chans := by
          unfold Bay.muxSetDefault at h3
          split at h3
          · cases h3
          · cases h3; rfl
        rw [hc3, hc2, hl1]; simp [Bay.register, hb.len]; omega
      refine ⟨⟨wf', hlay, hno, ?_, hlen⟩, hlen', ?_, ?_, ?_, ?_, hdt.trans hb.dirty, hmodes trivial,
        Bay.selOuts_snoc hb.topo.wf hmx' (by rw [hout]; exact Nat.le_refl _)
          (Bay.trackCpu_cbsOf hb.topo.wf h) hb.selAsc⟩
      · intro x
        by_cases e : x = o
        · rw [e]; exact hnullo
        · exact hnull x e
      · intro x hx; rw [← hb.src x hx]; exact hch x (by rw [hb.len]; omega)
      · rw [hmx', hml, hb.muxes, hop]
      · intro mi j hsj
        simp only [Bay.selOf, hsel] at hsj
        exact selOf_append_zero (fun j hj => hb.selZero mi j hj) hsj
      · intro mi mx hmx
        rw [hmx'] at hmx
        rcases getElem?_append_some hmx with hold | ⟨_, rfl⟩
        · have hlt := hb.topo.wf.outLt mi mx hold
          rw [Bay.chan_congr (hch _ hlt)]; exact hb.outOk mi mx hold
        · simp only
          rw [Bay.chan_of_getElem? hco]; exact ⟨rfl, rfl⟩
    · cases h

theorem Shape.connectFrom_built (σ : Shape) : ∀ (js pre : List Job) (b bF : Bay),
    σ.jobs = pre ++ js → σ.Built pre.length b → σ.connectFrom b js = .ok bF →
    σ.Built σ.jobs.length bF := by
  intro js
  induction js with
  | nil =>
    intro pre b bF hjobs hb h
    cases h
    rw [hjobs]; simpa using hb
  | cons j js ih =>
    intro pre b bF hjobs hb h
    rw [Shape.connectFrom] at h
    split at h
    · cases h
    · rename_i b' o hrun
      have hj : σ.jobs[pre.length]? = some j := by rw [hjobs]; simp
      have := ih (pre ++ [j]) b' bF (by rw [hjobs]; simp) (by simpa using hb.step hj hrun) h
      exact this

/-- What `emu_connect` has built. -/
theorem Shape.connect_built {σ : Shape} {b0 : Bay} (h : σ.connect = .ok b0) :
    σ.Built σ.jobs.length b0 :=
  σ.connectFrom_built σ.jobs [] σ.bay0 b0 rfl σ.built_zero h

/-! ### consequences -/

theorem Shape.Built.mem_mux {σ : Shape} {p : Nat} {b : Bay} (hb : σ.Built p b) {j : Nat} {job : Job} {m : Mux}
    (hp : j < p) (hj : σ.jobs[j]? = some job) (hm : σ.muxOf job (σ.L + j) = some m) :
    ∃ mi : Nat, b.muxes[mi]? = some m := by
  have : m ∈ b.muxes := by
    rw [hb.muxes]
    unfold Shape.muxList
    refine List.mem_filterMap.mpr ⟨(job, j), ?_, hm⟩
    rw [List.mem_zipIdx_iff_getElem?]
    simp only
    rw [List.getElem?_take]; simp [hp, hj]
  exact List.mem_iff_getElem?.mp this

/-- Shape of every mux of the connected bay. -/
inductive Shape.IsTrack (σ : Shape) : Mux → Prop
  | th (g k i : Nat) (m : ModelSpec) (out : Nat) : g < σ.nT → σ.specs[k]? = some m → i < m.nch →
      (m.thTrack.getD i 0 = trackRun ∨ m.thTrack.getD i 0 = trackAct) →
      σ.IsTrack { sel := σ.idx (.st g), out := out,
                  kind := if m.thTrack.getD i 0 = trackRun then .thRunning else .thActive,
                  inputs := [some (σ.idx (.raw g k i))] }
  | cpu (c k i : Nat) (m : ModelSpec) (out : Nat) : c < σ.nC → σ.specs[k]? = some m → i < m.nch →
      σ.IsTrack { sel := σ.idx (.run c), out := out, kind := .byIndex,
                  inputs := (σ.rawsOf k i).map some, dflt := m.cpuDflt i }

theorem Shape.Built.isTrack {σ : Shape} {p : Nat} {b : Bay} (hb : σ.Built p b) {mi : Nat} {m : Mux}
    (hm : b.muxes[mi]? = some m) : σ.IsTrack m := by
  have hmem : m ∈ σ.muxList p := hb.muxes ▸ List.mem_of_getElem? hm
  obtain ⟨j, job, hjp, hj, hmo⟩ := σ.mem_muxList hmem
  have hjm : job ∈ σ.jobs := List.mem_of_getElem? hj
  have hok := hb.modes j job hjp hj
  cases job with
  | th g k i =>
    obtain ⟨hg, ms, hk, hi⟩ := (σ.mem_jobs_th g k i).mp hjm
    simp only [Shape.muxOf, hk] at hmo
    split at hmo
    · cases hmo
    · rename_i hna
      cases hmo
      refine .th g k i ms _ hg hk hi ?_
      rcases hok ms hk with h | h
      · exact absurd h hna
      · exact h
  | cpu c k i =>
    obtain ⟨hc, ms, hk, hi⟩ := (σ.mem_jobs_cpu c k i).mp hjm
    simp only [Shape.muxOf, hk] at hmo
    cases hmo
    exact .cpu c k i ms _ hc hk hi

end Ovni.Emu
