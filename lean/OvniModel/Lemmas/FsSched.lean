import OvniModel.Lemmas.FsSpec
set_option linter.unusedSimpArgs false

/-! Any interleaving of the threads' calls: a thread's entries only see the
    thread's own calls, in order. -/
namespace Ovni.Rt.Fs

theorem Shuffle.mem {ls : List (List FOp)} {L : List FOp} (h : Shuffle ls L) :
    ∀ op ∈ L, ∃ l ∈ ls, op ∈ l := by
  induction h with
  | done _ => intro op hop; cases hop
  | @take ls op L i rest hi _ ih =>
    intro x hx
    rcases List.mem_cons.mp hx with rfl | hx
    · exact ⟨_, List.mem_of_getElem? hi, by simp⟩
    · obtain ⟨l, hl, hxl⟩ := ih x hx
      rcases List.mem_or_eq_of_mem_set hl with h | rfl
      · exact ⟨l, h, hxl⟩
      · exact ⟨_, List.mem_of_getElem? hi, List.mem_cons_of_mem _ hxl⟩

/-- In an interleaving where every list but the `j`-th is foreign to thread τ,
    the view of τ after any prefix is the view after some prefix of list `j`. -/
theorem shuffle_view (τ : Nat) {ls : List (List FOp)} {L : List FOp} (h : Shuffle ls L) :
    ∀ (j : Nat) (T : List FOp) (v : View), ls[j]? = some T →
      (∀ i l, i ≠ j → ls[i]? = some l → ∀ op ∈ l, Foreign τ op) →
      ∀ k, ∃ k', vrun τ v (L.take k) = vrun τ v (T.take k') := by
  induction h with
  | done _ => intro j T v _ _ k; exact ⟨0, by simp⟩
  | @take ls op L i rest hi _ ih =>
    intro j T v hj hfor k
    cases k with
    | zero => exact ⟨0, by simp⟩
    | succ k0 =>
      simp only [List.take_succ_cons, vrun_cons]
      have hilt : i < ls.length := by
        rcases Nat.lt_or_ge i ls.length with h | h
        · exact h
        · rw [List.getElem?_eq_none h] at hi; cases hi
      by_cases hij : i = j
      · subst hij
        rw [hi] at hj
        cases hj
        obtain ⟨k', hk'⟩ := ih i rest (vstep τ v op) (by simp [List.getElem?_set, hilt])
          (fun i' l hne hl => hfor i' l hne (by rwa [List.getElem?_set_ne (Ne.symm hne)] at hl)) k0
        exact ⟨k' + 1, by simp only [List.take_succ_cons, vrun_cons]; exact hk'⟩
      · have hfo : Foreign τ op := hfor i _ hij hi op (by simp)
        rw [vstep_foreign hfo]
        refine ih j T v (by rw [List.getElem?_set_ne hij]; exact hj) ?_ k0
        intro i' l hne hl
        by_cases hi' : i' = i
        · subst hi'
          simp only [List.getElem?_set, hilt, if_true, Option.some.injEq] at hl
          subst hl
          exact fun x hx => hfor i' _ hne hi x (List.mem_cons_of_mem _ hx)
        · exact hfor i' l hne (by rwa [List.getElem?_set_ne (Ne.symm hi')] at hl)

theorem nodup_getElem_ne {l : List Nat} (h : l.Nodup) {i j : Nat} (hi : i < l.length) (hj : j < l.length)
    (hne : i ≠ j) : l[i] ≠ l[j] := by
  have hp := List.pairwise_iff_getElem.mp (List.nodup_iff_pairwise_ne.mp h)
  rcases Nat.lt_or_gt_of_ne hne with hlt | hgt
  · exact hp i j hi hj hlt
  · exact fun e => hp j i hj hi hgt e.symm

/-- Under any schedule, what a crash leaves of thread `t` is what some prefix
    of `t`'s own calls leaves. -/
theorem view_at_crash_sched (ser : Meta → List Nat) (p : Prog) (L : List FOp) (hL : Schedule ser p L)
    (t : ThreadProg) (ht : t ∈ p.threads) (hnd : (p.threads.map (·.tid)).Nodup) (k : Nat) :
    ∃ k', viewOf (crashStateS p L k) t.tid = vrun t.tid View.empty ((ops (threadCalls ser p t)).take k') := by
  obtain ⟨body, hsh, rfl⟩ := hL
  obtain ⟨j, hjlt, hj⟩ := List.getElem_of_mem ht
  have hown : (p.threads.map fun t => ops (threadCalls ser p t))[j]? = some (ops (threadCalls ser p t)) := by
    simp [List.getElem?_map, List.getElem?_eq_getElem hjlt, hj]
  have hfor : ∀ i l, i ≠ j → (p.threads.map fun t => ops (threadCalls ser p t))[i]? = some l →
      ∀ op ∈ l, Foreign t.tid op := by
    intro i l hne hl
    simp only [List.getElem?_map, Option.map_eq_some_iff] at hl
    obtain ⟨t', ht', rfl⟩ := hl
    have hilt : i < p.threads.length := by
      rcases Nat.lt_or_ge i p.threads.length with h | h
      · exact h
      · rw [List.getElem?_eq_none h] at ht'; cases ht'
    have hti : p.threads[i] = t' := by rw [List.getElem?_eq_getElem hilt] at ht'; exact Option.some.inj ht'
    apply foreign_thread
    intro e
    have h1 := nodup_getElem_ne hnd (i := i) (j := j) (by simpa using hilt) (by simpa using hjlt) hne
    apply h1
    simp [hti, hj, e]
  unfold crashStateS
  rw [viewOf_run, viewOf_init, vrun_take_split _ _ _ _ _ (foreign_procInit _ p) (foreign_procFini _ p)]
  exact shuffle_view t.tid hsh j _ _ hown hfor _

theorem view_of_stranger_sched (ser : Meta → List Nat) (p : Prog) (L : List FOp) (hL : Schedule ser p L)
    (τ : Nat) (h : ∀ t ∈ p.threads, τ ≠ t.tid) (k : Nat) : viewOf (crashStateS p L k) τ = View.empty := by
  obtain ⟨body, hsh, rfl⟩ := hL
  unfold crashStateS
  rw [viewOf_run, viewOf_init]
  apply vrun_foreign
  intro op hop
  have hop := List.mem_of_mem_take hop
  simp only [List.mem_append] at hop
  rcases hop with (h1 | h2) | h3
  · exact foreign_procInit τ p op h1
  · obtain ⟨l, hl, hopl⟩ := hsh.mem op h2
    simp only [List.mem_map] at hl
    obtain ⟨t, ht, rfl⟩ := hl
    exact foreign_thread ser p t (h t ht) op hopl
  · exact foreign_procFini τ p op h3

/-- Running the threads one after the other is one of the schedules. -/
theorem shuffle_flatten (n : Nat) (ls : List (List FOp)) :
    Shuffle (List.replicate n [] ++ ls) ls.flatten := by
  induction ls generalizing n with
  | nil =>
    apply Shuffle.done
    intro l hl
    simp only [List.append_nil] at hl
    exact List.eq_of_mem_replicate hl
  | cons l r ih =>
    induction l with
    | nil =>
      have : List.replicate n ([] : List FOp) ++ [] :: r = List.replicate (n + 1) [] ++ r := by
        rw [List.replicate_succ', List.append_assoc]; rfl
      rw [this]
      exact ih (n + 1)
    | cons op l' ihl =>
      simp only [List.flatten_cons, List.cons_append]
      refine Shuffle.take n l' ?_ ?_
      · rw [List.getElem?_append_right (by simp)]; simp
      · have : (List.replicate n ([] : List FOp) ++ (op :: l') :: r).set n l' = List.replicate n [] ++ l' :: r := by
          rw [List.set_append_right _ _ (by simp)]; simp
        rw [this]
        simpa using ihl

theorem schedule_sequential (ser : Meta → List Nat) (p : Prog) : Schedule ser p (ops (calls ser p)) := by
  refine ⟨ops (p.threads.flatMap (threadCalls ser p)), ?_, by simp [calls, ops]⟩
  have := shuffle_flatten 0 (p.threads.map fun t => ops (threadCalls ser p t))
  have e : ops (p.threads.flatMap (threadCalls ser p)) = (p.threads.map fun t => ops (threadCalls ser p t)).flatten := by
    simp only [ops, List.flatMap, List.map_flatten, List.map_map]; rfl
  rw [e]
  simpa using this

/-- `TInv` after every prefix of every schedule. -/
theorem tinv_at_crash_sched (C : Codec) (p : Prog) (L : List FOp) (hL : Schedule C.ser p L) (hwf : WellFormed p)
    (t : ThreadProg) (ht : t ∈ p.threads) (k : Nat) :
    TInv C t (viewOf (crashStateS p L k) t.tid) := by
  obtain ⟨k', hk'⟩ := view_at_crash_sched C.ser p L hL t ht hwf k
  rw [hk']
  exact thread_tinv C p t k'

/-- From the thread invariants of a state to the C09 conclusion for that state. -/
theorem crash_consistent_of_inv (E : EmuCfg) (C : Codec) (p : Prog) (s : Fs)
    (hinv : ∀ t ∈ p.threads, ∀ r, Safe (viewOf s t.tid) r)
    (hstr : ∀ τ, (∀ t ∈ p.threads, τ ≠ t.tid) → viewOf s τ = View.empty)
    (cut : Path → Nat) (r : Root) (hacc : accepts E C s cut r = true) :
    ∀ tid ∈ visibleStreams s r, s.visible cut (.file r tid .obs) = some (s.flushed tid) := by
  intro tid hvis
  have hj := isSome_of_visibleStream _ r tid hvis
  have hsa : streamAccepted E C s cut r tid = true := by
    simp only [accepts, List.all_eq_true] at hacc
    exact hacc tid hvis
  by_cases hex : ∃ t ∈ p.threads, t.tid = tid
  · obtain ⟨t, ht, rfl⟩ := hex
    have hs := hinv t ht r
    rw [visible_of_view]
    rcases hs with h | ⟨d, h1, h2⟩ | h
    · exfalso
      simp only [streamAccepted, Bool.and_eq_true] at hsa
      have := hsa.2
      rw [visible_of_view, h] at this
      simp at this
    · rw [h1, Fs.flushed_eq]
      simp only [List.take_nil, List.append_nil]
      congr 1
      exact h2.symm
    · exfalso
      have : (viewOf s t.tid).j r = s.get (.file r t.tid .json) := by cases r <;> rfl
      rw [this] at h
      rw [h] at hj
      cases hj
  · exfalso
    have hv := hstr tid (fun t ht e => hex ⟨t, ht, e.symm⟩)
    have : s.get (.file r tid .json) = none := by
      have h2 : (viewOf s tid).j r = none := by rw [hv]; cases r <;> rfl
      cases r <;> exact h2
    rw [this] at hj
    cases hj

theorem finished_after_data_of_inv (C : Codec) (t : ThreadProg) (s : Fs) (inv : Fad C t (viewOf s t.tid))
    (cut : Path → Nat) (j : List Nat) (hj : s.visible cut (.file .fin t.tid .json) = some j)
    (hfin : jsonFinished C j = true) : s.visible cut (.file .fin t.tid .obs) = some t.obsBytes := by
  have hvj : s.get (.file .fin t.tid .json) = (viewOf s t.tid).jf := rfl
  rcases inv with h | ⟨d, pn, m, h1, h2, h3⟩ | h
  · exfalso
    simp only [Fs.visible, hvj, h] at hj
    cases hj
  · exfalso
    simp only [Fs.visible, hvj, h1, Option.some.injEq] at hj
    subst hj
    have hpre : (d ++ pn.take (cut (.file .fin t.tid .json))) <+: C.ser m :=
      List.IsPrefix.trans ((List.prefix_append_right_inj d).mpr (List.take_prefix _ pn)) h3
    by_cases he : d ++ pn.take (cut (.file .fin t.tid .json)) = C.ser m
    · simp only [jsonFinished, he, C.parse_ser, h2] at hfin
      cases hfin
    · simp only [jsonFinished, C.parse_prefix m _ hpre he] at hfin
      cases hfin
  · rw [visible_of_view]
    simp only [View.o, h, List.take_nil, List.append_nil]

end Ovni.Rt.Fs
