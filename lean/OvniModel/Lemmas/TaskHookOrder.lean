import OvniModel.Lemmas.TaskHook
import OvniModel.Lemmas.CoreBayDirtyOrder

/-
  C20: the task hook as TWO groups of writes, in the order of `update_task`:
  first `update_task_ss_channel` (the subsystem channel), then
  `update_task_channels` (body id, task id, type, app id, rank).
-/
set_option linter.unusedSimpArgs false
namespace Ovni.Emu
open Ovni.Generated

/-- the channels of `update_task_channels` (every task channel but the subsystem) -/
def TaskChanIdx.sets (k : TaskChanIdx) : List Nat :=
  k.bodyid.toList ++ [k.taskid, k.typ] ++ k.appid.toList ++ [k.rank]

theorem applyWrites_append {ti mc : Nat} : ∀ (ws1 ws2 : List TaskWr) {e e' : Emu},
    applyWrites e ti mc (ws1 ++ ws2) = .ok e' →
    ∃ e1, applyWrites e ti mc ws1 = .ok e1 ∧ applyWrites e1 ti mc ws2 = .ok e' := by
  intro ws1
  induction ws1 with
  | nil => intro ws2 e e' h; exact ⟨e, rfl, h⟩
  | cons w ws ih =>
    intro ws2 e e' h
    rw [List.cons_append, applyWrites_cons] at h
    rw [applyWrites_cons]
    split at h
    · cases h
    · rename_i e0 h0
      obtain ⟨e1, h1, h2⟩ := ih ws2 h
      exact ⟨e1, h1, h2⟩

theorem taskSets_chans' (k : TaskChanIdx) (P : Ovni.Task.ProcInfo) (vals : Option (Int × Int × Int)) :
    ∀ w ∈ taskSets k P vals, w.chan ∈ k.sets := by
  intro w hw
  unfold taskSets at hw
  unfold TaskChanIdx.sets
  simp only [List.mem_append] at hw ⊢
  rcases hw with ((((hw | hw) | hw)) | hw)
  · cases hb : k.bodyid with
    | none => rw [hb] at hw; cases hw
    | some c =>
      rw [hb] at hw
      simp only [List.mem_singleton] at hw
      subst hw; simp [TaskWr.chan]
  · simp only [List.mem_cons, List.mem_singleton, List.not_mem_nil, or_false] at hw
    rcases hw with rfl | rfl <;> simp [TaskWr.chan]
  · cases ha : k.appid with
    | none => rw [ha] at hw; cases hw
    | some c =>
      rw [ha] at hw
      simp only [List.mem_singleton] at hw
      subst hw; simp [TaskWr.chan]
  · split at hw
    · simp only [List.mem_singleton] at hw
      subst hw; simp [TaskWr.chan]
    · cases hw

/-- **The task hook = the subsystem write, then the `chan_set`s.** -/
theorem taskHook_two_phase {m : Ovni.Task.Model} {P : Ovni.Task.ProcInfo} {ε : Ovni.Task.Emu} {ev : Ovni.Task.Ev}
    {e e' : Emu} {ti a b : Nat} {p : List Nat} (h : taskHook m P ε ev e ti a b p = .ok e') :
    ∃ e1, SimP (rawOf ti [(taskIdx m).ss]) e e1 ∧ SimP (rawOf ti (taskIdx m).sets) e1 e' ∧
      ((∀ th t bp, ev ≠ .task th .x t bp ∧ ev ≠ .task th .e t bp) → e1 = e) := by
  unfold taskHook at h
  simp only at h
  split at h
  · cases h
  · cases ev with
    | typeCreate _ _ _ => simp only at h; cases h; exact ⟨e, SimP.refl _, SimP.refl _, fun _ => rfl⟩
    | taskCreate _ _ _ => simp only at h; cases h; exact ⟨e, SimP.refl _, SimP.refl _, fun _ => rfl⟩
    | ssPush _ _ => cases h
    | ssPop _ _ => cases h
    | task th tv t bp =>
      simp only at h
      split at h
      · cases h
      · split at h
        · cases h
        · unfold taskWrites at h
          obtain ⟨e1, h1, h2⟩ := applyWrites_append _ _ h
          refine ⟨e1, applyWrites_simP _ _ ?_ h1, applyWrites_simP _ _ ?_ h2, ?_⟩
          · intro w hw
            cases tv <;> simp only [List.mem_singleton, List.not_mem_nil] at hw
            · subst hw; simp [TaskWr.chan]
            · subst hw; simp [TaskWr.chan]
          · intro w hw
            generalize Ovni.Task.expand tv _ _ = tr at hw
            cases tr
            all_goals first
              | exact taskSets_chans' _ _ _ w hw
              | (rename_i sys' _
                 cases hn : sys'.runningT th with
                 | none => rw [hn] at hw; cases hw
                 | some x => rw [hn] at hw; exact taskSets_chans' _ _ _ w hw)
          · intro hne
            cases tv with
            | x => exact absurd rfl (hne th t bp).1
            | e => exact absurd rfl (hne th t bp).2
            | p => simp only [applyWrites] at h1; cases h1; rfl
            | r => simp only [applyWrites] at h1; cases h1; rfl

/-- the subsystem channel is not among the channels of `update_task_channels`,
    the task type is, the idle channel is neither -/
theorem task_channel_groups :
    (taskIdx .nosv).ss ∉ (taskIdx .nosv).sets ∧ (taskIdx .nosv).typ ∈ (taskIdx .nosv).sets ∧
    (taskIdx .nanos6).ss ∉ (taskIdx .nanos6).sets ∧ (taskIdx .nanos6).typ ∈ (taskIdx .nanos6).sets ∧
    6 ∉ (taskIdx .nosv).sets ∧ 5 ∉ (taskIdx .nanos6).sets := by decide

end Ovni.Emu
