import OvniModel.Emu.TaskHook
import OvniModel.Lemmas.CoreBayHandlers

/-
  C06 / C20: the task hook (`Emu/TaskHook.lean`) is a sequence of channel
  operations on raw channels of the event's thread — the task channels of its
  model — hence `HookSim`, refined by the set of channels it can write.
-/
set_option linter.unusedSimpArgs false
namespace Ovni.Emu
open Ovni.Generated

/-- `SimP.withChan` with the written source named: channel `i` of thread `ti`. -/
theorem SimP.withChanP {P : Src → Prop} {e e' : Emu} {ti m i : Nat} {f : Chan → Except Err Chan}
    (hP : ∀ k, P (.raw ti k i)) (hf : ChanOp f) (h : Ovni.Emu.withChan e ti m i f = .ok e') : SimP P e e' := by
  unfold Ovni.Emu.withChan at h
  simp only [bind, Except.bind, pure, Except.pure, throw, throwThe, MonadExceptOf.throw] at h
  repeat' split at h
  all_goals first | (cases h; done) | skip
  rename_i _ t ht _ cs hcs _ c hc _ c' hfc
  injection h with h; subst h
  intro hs
  obtain ⟨k, hk⟩ := Thread.getChans_at hcs
  have hnd := hs.keys ht
  have hg : (t.setChans m (cs.set i c')).gindex = ti := hs.thIdx ti t ht
  have hlt : ti < e.threads.length := (List.getElem?_eq_some_iff.mp ht).1
  have hil : i < cs.length := (List.getElem?_eq_some_iff.mp hc).1
  have hthr : (e.setThread (t.setChans m (cs.set i c'))).threads = e.threads.set ti (t.setChans m (cs.set i c')) := by
    simp only [Emu.setThread, hg]
  have hmch := Thread.setChans_getElem? (cs' := cs.set i c') hnd hk
  refine SimP.of_write (fun hs => ⟨⟨?_, hs.cpuIdx, ?_, hs.chars, ?_, ?_⟩, ?_⟩) (.raw ti k i) (hP k) hf
    (by simp only [Emu.src, ht, hk, hc]) hfc ?_ ?_ hs
  · intro g u hu
    rw [hthr] at hu
    rcases getElem?_set_some hu with ⟨rfl, rfl⟩ | ⟨_, h⟩
    · exact hg
    · exact hs.thIdx g u h
  · intro g u hu
    rw [hthr] at hu
    show _ = e.specs.map _
    rcases getElem?_set_some hu with ⟨rfl, rfl⟩ | ⟨_, h⟩
    · rw [← hs.mch g t ht]
      apply List.ext_getElem?
      intro k'
      simp only [List.getElem?_map, hmch]
      by_cases hkk : k' = k
      · subst hkk; simp [hk]
      · simp [hkk]
    · exact hs.mch g u h
  · intro c x hx
    rw [hthr, List.length_set]
    exact hs.run c x hx
  · intro g u hu
    rw [hthr] at hu
    rcases getElem?_set_some hu with ⟨rfl, rfl⟩ | ⟨_, h⟩
    · exact hs.st g t ht
    · exact hs.st g u h
  · simp only [Emu.shape, hthr, List.length_set]; rfl
  · simp only [Emu.src, hthr, List.getElem?_set_self hlt, hmch, if_true, List.getElem?_set_self hil]
  · intro s hne
    cases s with
    | st g =>
      simp only [Emu.src, hthr]
      by_cases hgt : ti = g
      · subst hgt; simp only [List.getElem?_set_self hlt, ht, Option.map_some]; rfl
      · rw [List.getElem?_set_ne hgt]
    | run c => rfl
    | act c => rfl
    | raw g k' i' =>
      simp only [Emu.src, hthr]
      by_cases hgt : ti = g
      · subst hgt
        simp only [List.getElem?_set_self hlt, ht, hmch]
        by_cases hkk : k' = k
        · subst hkk
          simp only [if_true, hk]
          have : i ≠ i' := fun h => hne (by rw [h])
          rw [List.getElem?_set_ne this]
        · simp only [hkk, if_false]
      · rw [List.getElem?_set_ne hgt]

/-- the raw channels `cs` of thread `ti` (any model position) -/
def rawOf (ti : Nat) (cs : List Nat) (s : Src) : Prop := ∃ k i, s = .raw ti k i ∧ i ∈ cs

theorem rawOf_isRaw {ti : Nat} {cs : List Nat} {s : Src} (h : rawOf ti cs s) : s.isRaw := by
  obtain ⟨k, i, rfl, _⟩ := h; trivial

theorem applyWrites_cons (e : Emu) (ti mc : Nat) (w : TaskWr) (ws : List TaskWr) :
    applyWrites e ti mc (w :: ws) =
      match (match w with
        | .set c v => withChan e ti mc c (·.set v)
        | .push c v => withChan e ti mc c (Chan.push e.maxStack · v)
        | .pop c v => withChan e ti mc c (·.pop v)) with
      | .error x => .error x
      | .ok e1 => applyWrites e1 ti mc ws := rfl

/-- `applyWrites` = the listed channel operations, on the listed channels. -/
theorem applyWrites_simP {ti mc : Nat} : ∀ (ws : List TaskWr) {e e' : Emu} (cs : List Nat),
    (∀ w ∈ ws, w.chan ∈ cs) → applyWrites e ti mc ws = .ok e' → SimP (rawOf ti cs) e e' := by
  intro ws
  induction ws with
  | nil => intro e e' cs _ h; cases h; exact SimP.refl _
  | cons w ws ih =>
    intro e e' cs hcs h
    rw [applyWrites_cons] at h
    split at h
    · cases h
    · rename_i e1 h1
      have hw : w.chan ∈ cs := hcs w (by simp)
      have s1 : SimP (rawOf ti cs) e e1 := by
        cases w with
        | set c v => exact SimP.withChanP (fun k => ⟨k, c, rfl, hw⟩) (chanOp_set _) h1
        | push c v => exact SimP.withChanP (fun k => ⟨k, c, rfl, hw⟩) (chanOp_push _ _) h1
        | pop c v => exact SimP.withChanP (fun k => ⟨k, c, rfl, hw⟩) (chanOp_pop _) h1
      exact s1.trans (ih cs (fun w' hw' => hcs w' (by simp [hw'])) h)

theorem taskSets_chans (k : TaskChanIdx) (P : Ovni.Task.ProcInfo) (vals : Option (Int × Int × Int)) :
    ∀ w ∈ taskSets k P vals, w.chan ∈ k.all := by
  intro w hw
  unfold taskSets at hw
  unfold TaskChanIdx.all
  simp only [List.mem_append] at hw ⊢
  rcases hw with ((((hw | hw) | hw)) | hw)
  · cases hb : k.bodyid with
    | none => rw [hb] at hw; cases hw
    | some c =>
      rw [hb] at hw
      simp only [List.mem_singleton] at hw
      subst hw; simp [TaskWr.chan]
  · simp only [List.mem_cons, List.mem_singleton, List.not_mem_nil, or_false] at hw
    rcases hw with rfl | rfl <;> simp [TaskWr.chan]
  · cases ha : k.appid with
    | none => rw [ha] at hw; cases hw
    | some c =>
      rw [ha] at hw
      simp only [List.mem_singleton] at hw
      subst hw; simp [TaskWr.chan]
  · split at hw
    · simp only [List.mem_singleton] at hw
      subst hw; simp [TaskWr.chan]
    · cases hw

theorem taskWrites_chans (m : Ovni.Task.Model) (P : Ovni.Task.ProcInfo) (tv : Ovni.Task.TaskEv)
    (tr : Ovni.Task.Tr) (next : Option (Ovni.Task.Task × Ovni.Task.Body)) :
    ∀ w ∈ taskWrites m P tv tr next, w.chan ∈ (taskIdx m).all := by
  intro w hw
  unfold taskWrites at hw
  simp only [List.mem_append] at hw
  rcases hw with hw | hw
  · have hss : (taskIdx m).ss ∈ (taskIdx m).all := by simp [TaskChanIdx.all]
    cases tv <;> simp only [List.mem_singleton, List.not_mem_nil] at hw
    · subst hw; exact hss
    · subst hw; exact hss
  · cases tr
    all_goals first
      | exact taskSets_chans _ _ _ w hw
      | (cases next with
         | none => cases hw
         | some x => exact taskSets_chans _ _ _ w hw)

/-- **The task hook writes only task channels of its thread.** -/
theorem taskHook_simP {m : Ovni.Task.Model} {P : Ovni.Task.ProcInfo} {ε : Ovni.Task.Emu} {ev : Ovni.Task.Ev}
    {e e' : Emu} {ti a b : Nat} {p : List Nat} (h : taskHook m P ε ev e ti a b p = .ok e') :
    SimP (rawOf ti (taskIdx m).all) e e' := by
  unfold taskHook at h
  simp only at h
  split at h
  · cases h
  · cases ev with
    | typeCreate _ _ _ => simp only at h; cases h; exact SimP.refl _
    | taskCreate _ _ _ => simp only at h; cases h; exact SimP.refl _
    | ssPush _ _ => cases h
    | ssPop _ _ => cases h
    | task th tv t bp =>
      simp only at h
      split at h
      · cases h
      · split at h
        · cases h
        · exact applyWrites_simP _ _ (taskWrites_chans _ _ _ _ _) h

/-- The task hook satisfies the hook hypothesis of `Sim.modelEvent` / `emu_event`. -/
theorem hookSim_task (m : Ovni.Task.Model) (P : Ovni.Task.ProcInfo) (ε : Ovni.Task.Emu) (ev : Ovni.Task.Ev) :
    HookSim (taskHook m P ε ev) := by
  intro e ti a b p e' h
  exact (taskHook_simP h).sim

end Ovni.Emu
