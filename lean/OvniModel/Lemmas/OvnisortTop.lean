import OvniModel.Tools.Ovnisort
import OvniModel.Lemmas.OvnisortSort
import OvniModel.Lemmas.OvnisortRing
import OvniModel.Lemmas.OvnisortInv
/-! `winsort` from the initial state, check mode and the emulator's stream test. -/
namespace Ovni.Ovnisort

theorem init_inv {n : Nat} (hn : 1 ≤ n) : Inv n (WS.init n) [] :=
  ⟨RInv.new n hn, List.Perm.refl _, List.Pairwise.nil⟩

theorem winsort_main {sortFn : List Ev → List Ev} (hf : IsSort sortFn) {n : Nat} (hn : 1 ≤ n)
    {evs : List Ev} (hne : evs ≠ []) (hr : OnlyRegionsUnsorted evs) (hc : ClocksSigned evs) :
    (WithinWindow n evs →
      (winsort sortFn n evs).status = Status.ok ∧ Sorted (winsort sortFn n evs).out ∧
        (winsort sortFn n evs).out.Perm evs) ∧
    (¬ WithinWindow n evs → (winsort sortFn n evs).status = Status.errNoDest) := by
  cases evs with
  | nil => exact absurd rfl hne
  | cons e t =>
    have := wsLoop_main hf hn (e :: t) (WS.init n) [] 0 [] 0 (init_inv hn) (fun _ h => by cases h)
      hc hr (List.Perm.refl _) (by intro h; cases h)
    simp only [List.nil_append] at this
    exact ⟨fun hw => this.1 hw, fun hw => this.2 (Bool.eq_false_iff.2 hw)⟩

theorem checkLoop_eq (last : Nat) (l : List Ev) (back : Bool) :
    checkLoop last l back = (!back && chainOk last l) := by
  induction l generalizing last back with
  | nil => simp [checkLoop, chainOk]
  | cons e t ih =>
    unfold checkLoop chainOk
    rw [ih]
    by_cases h : e.clock < last <;> simp [h]

theorem chainOk_sorted {l : List Ev} : ∀ {last}, chainOk last l = true →
    Sorted l ∧ ∀ e ∈ l, last ≤ e.clock := by
  induction l with
  | nil => intro _ _; exact ⟨List.Pairwise.nil, fun _ h => by cases h⟩
  | cons a t ih =>
    intro last h
    unfold chainOk at h
    split at h
    · cases h
    · rename_i hlt
      obtain ⟨h1, h2⟩ := ih h
      refine ⟨List.pairwise_cons.2 ⟨h2, h1⟩, fun e he => ?_⟩
      rcases List.mem_cons.1 he with rfl | he
      · omega
      · have := h2 e he; omega

theorem stepsMonotone_of_ssorted {l : List Ev} (h : SSorted l) :
    ∀ last : Int, (∀ e ∈ l, last ≤ skey e.clock) → stepsMonotone last l = true := by
  unfold SSorted at h
  induction l with
  | nil => intros; rfl
  | cons a t ih =>
    intro last hl
    rw [List.pairwise_cons] at h
    unfold stepsMonotone
    have := hl a List.mem_cons_self
    simp only [show ¬ (skey a.clock < last) by omega, if_false]
    exact ih h.2 _ h.1


end Ovni.Ovnisort
