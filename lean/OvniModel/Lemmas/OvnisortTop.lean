import OvniModel.Tools.Ovnisort
import OvniModel.Lemmas.OvnisortSort
import OvniModel.Lemmas.OvnisortRing
import OvniModel.Lemmas.OvnisortInv
/-! `winsort` from the initial state, check mode and the emulator's stream test. -/
namespace Ovni.Ovnisort

theorem init_inv {n : Nat} (hn : 1 ≤ n) : Inv n (WS.init n) [] :=
  ⟨RInv.new n hn, List.Perm.refl _, List.Pairwise.nil⟩

theorem winsort_main {sortFn : List Ev → List Ev} (hf : IsSort sortFn) {n : Nat} (hn : 1 ≤ n)
    {evs : List Ev} (hne : evs ≠ []) (hr : OnlyRegionsUnsorted evs) (hc : ClocksSigned evs) :
    (WithinWindow n evs →
      (winsort sortFn n evs).status = Status.ok ∧ Sorted (winsort sortFn n evs).out ∧
        (winsort sortFn n evs).out.Perm evs) ∧
    (¬ WithinWindow n evs → (winsort sortFn n evs).status = Status.errNoDest) := by
  cases evs with
  | nil => exact absurd rfl hne
  | cons e t =>
    have := wsLoop_main hf hn (e :: t) (WS.init n) [] 0 [] 0 true 0 (init_inv hn) (fun _ h => by cases h)
      hc hr (List.Perm.refl _) (by intro h; cases h) rfl (by intro h; cases h) (by intro h; cases h)
    simp only [List.nil_append] at this
    exact ⟨fun hw => this.1 hw, fun hw => this.2 (Bool.eq_false_iff.2 hw)⟩

theorem checkLoop_eq (last : Nat) (l : List Ev) (back : Bool) :
    checkLoop last l back = (!back && chainOk last l) := by
  induction l generalizing last back with
  | nil => simp [checkLoop, chainOk]
  | cons e t ih =>
    unfold checkLoop chainOk
    rw [ih]
    by_cases h : e.clock < last <;> simp [h]

theorem stepsMonotone_of_ssorted {l : List Ev} (h : SSorted l) :
    ∀ last : Int, (∀ e ∈ l, last ≤ skey e.clock) → stepsMonotone last l = true := by
  unfold SSorted at h
  induction l with
  | nil => intros; rfl
  | cons a t ih =>
    intro last hl
    rw [List.pairwise_cons] at h
    unfold stepsMonotone
    have := hl a List.mem_cons_self
    simp only [show ¬ (skey a.clock < last) by omega, if_false]
    exact ih h.2 _ h.1

/-! ### the window condition asked of *every* non-empty region -/

/-- The window condition without the in-place exemption (what the code
    before `region_in_place` needed of every non-empty region). -/
def windowOkAll (n : Nat) : St → List Ev → Nat → List Ev → Bool
  | _, _, _, [] => true
  | St.S, pre, _, e :: rest =>
    windowOkAll n (if e.kind = Kind.start then St.U else St.S) (e :: pre) 0 rest
  | St.U, pre, _, e :: rest =>
    if e.kind = Kind.stop then windowOkAll n St.S (e :: pre) 0 rest
    else windowOkAll n St.X (e :: pre) e.clock rest
  | St.X, pre, m, e :: rest =>
    if e.kind = Kind.stop then windowOkAt n m pre && windowOkAll n St.S (e :: pre) 0 rest
    else windowOkAll n St.X (e :: pre) (min m e.clock) rest

theorem windowOk_of_all (n : Nat) : ∀ (rest : List Ev) (st : St) (pre : List Ev) (m : Nat) (ip : Bool) (last : Nat),
    windowOkAll n st pre m rest = true → windowOk n st pre m ip last rest = true := by
  intro rest
  induction rest with
  | nil => intro st pre m ip last _; cases st <;> rfl
  | cons e rest ih =>
    intro st pre m ip last h
    cases st with
    | S =>
      simp only [windowOkAll] at h
      simp only [windowOk]
      exact ih _ _ _ _ _ h
    | U =>
      simp only [windowOkAll] at h
      simp only [windowOk]
      split
      · rename_i hk; rw [if_pos hk] at h; exact ih _ _ _ _ _ h
      · rename_i hk; rw [if_neg hk] at h; exact ih _ _ _ _ _ h
    | X =>
      simp only [windowOkAll] at h
      simp only [windowOk]
      split
      · rename_i hk
        rw [if_pos hk, Bool.and_eq_true] at h
        rw [Bool.and_eq_true, Bool.or_eq_true]
        exact ⟨Or.inr h.1, ih _ _ _ _ _ h.2⟩
      · rename_i hk; rw [if_neg hk] at h; exact ih _ _ _ _ _ h

/-! ### a stream that is already sorted: no look back, nothing written -/

/-- On a sorted input every closed region is in place, so the loop only
    appends: no precondition on the regions, the ring or `sortFn`. -/
theorem wsLoop_sorted_noop (sortFn : List Ev → List Ev) (trunc : Bool) :
    ∀ (rest : List Ev) (s : WS) (pre : List Ev), Sorted (pre ++ rest) → s.done = pre →
      (s.st = St.U → s.opn < s.done.length) → (s.st = St.X → s.opn < s.done.length) →
      (wsLoop sortFn trunc s rest).out = pre ++ rest ∧
      (wsLoop sortFn trunc s rest).plans = s.plans ∧
      (wsLoop sortFn trunc s rest).status = (if trunc then Status.errStream else Status.ok) := by
  intro rest
  induction rest with
  | nil =>
    intro s pre _ hd _ _
    simp only [wsLoop, List.append_nil]
    exact ⟨hd, trivial, trivial⟩
  | cons e rest ih =>
    intro s pre hs hd hU hX
    have hassoc : pre ++ e :: rest = (pre ++ [e]) ++ rest := by simp
    rw [hassoc] at hs ⊢
    have hlen : s.done.length < (s.done ++ [e]).length := by simp
    cases hst : s.st with
    | S =>
      by_cases hk : e.kind = Kind.start
      · simp only [wsLoop, @wsStep_S_start sortFn s e hst hk]
        exact ih _ (pre ++ [e]) hs (by simp [addEv, hd]) (fun _ => hlen) (by intro h; cases h)
      · simp only [wsLoop, @wsStep_S_other sortFn s e hst hk]
        exact ih _ (pre ++ [e]) hs (by simp [addEv, hd]) (by intro h; simp [addEv, hst] at h)
          (by intro h; simp [addEv, hst] at h)
    | U =>
      have ho := hU hst
      by_cases hk : e.kind = Kind.stop
      · simp only [wsLoop, @wsStep_U_stop sortFn s e hst hk]
        exact ih _ (pre ++ [e]) hs (by simp [addEv, hd]) (by intro h; cases h) (by intro h; cases h)
      · simp only [wsLoop, @wsStep_U_other sortFn s e hst hk]
        exact ih _ (pre ++ [e]) hs (by simp [addEv, hd]) (by intro h; cases h)
          (fun _ => by show s.opn < (s.done ++ [e]).length; omega)
    | X =>
      have ho := hX hst
      by_cases hk : e.kind = Kind.stop
      · have hsd : Sorted s.done := by
          rw [hd]; exact (List.pairwise_append.1 (List.pairwise_append.1 hs).1).1
        have hstep := @wsStep_X_stop sortFn s e hst hk
        rw [exec_inPlace (inPlace_of_sorted ho hsd)] at hstep
        simp only at hstep
        simp only [wsLoop, hstep]
        have := ih (addEv (sortedState s s.done s.ring none) s.done.length e) (pre ++ [e]) hs
          (by simp [addEv, sortedState, hd]) (by intro h; cases h) (by intro h; cases h)
        simpa [addEv, sortedState] using this
      · simp only [wsLoop, @wsStep_X_other sortFn s e hst hk]
        exact ih _ (pre ++ [e]) hs (by simp [addEv, hd]) (by intro h; simp [addEv, hst] at h)
          (fun _ => by show s.opn < (s.done ++ [e]).length; omega)

theorem winsort_sorted_noop (sortFn : List Ev → List Ev) (n : Nat) {evs : List Ev} (hne : evs ≠ [])
    (hs : Sorted evs) (trunc : Bool) :
    (winsort sortFn n evs trunc).out = evs ∧ (winsort sortFn n evs trunc).plans = [] ∧
    (winsort sortFn n evs trunc).status = (if trunc then Status.errStream else Status.ok) := by
  cases evs with
  | nil => exact absurd rfl hne
  | cons e t =>
    have := wsLoop_sorted_noop sortFn trunc (e :: t) (WS.init n) [] (by simpa using hs) rfl
      (by intro h; cases h) (by intro h; cases h)
    have hp : (WS.init n).plans = [] := rfl
    rw [hp] at this
    simpa [winsort] using this

end Ovni.Ovnisort
