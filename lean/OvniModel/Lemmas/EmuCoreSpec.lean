import OvniModel.Lemmas.EmuCoreSteps

/-
  Helper lemmas for C04 / C05, part 4: the logical state (state, cpu) of the
  threads, the static part of the emulator, and the outcome of every handler
  in those terms.
-/
namespace Ovni.Emu

/-! ### logical state, static part -/

/-- the logical state of the threads: (state, cpu) per thread -/
abbrev LState := List (ThState × Option Nat)

def absOf (ths : List Thread) : LState := ths.map (fun t => (t.state, t.cpu))

/-- number of running threads bound to CPU `g` -/
def runCount (s : LState) (g : Nat) : Nat := (s.filter (fun x => x.1 = .running && x.2 == some g)).length

/-- `g` is the global index of a physical CPU -/
def Emu.phys (e : Emu) (g : Nat) : Prop := ∃ c, e.cpus[g]? = some c ∧ c.virt = false

def NoOversub (phys : Nat → Prop) (s : LState) : Prop := ∀ g, phys g → runCount s g ≤ 1

theorem runCount_absOf (ths : List Thread) (g : Nat) :
    runCount (absOf ths) g = (runOf (onCpu ths g)).length := by
  unfold runCount absOf runOf onCpu
  rw [List.filter_map, List.length_map, List.filter_filter]
  rfl

theorem absOf_set (ths : List Thread) (ti : Nat) (t : Thread) :
    absOf (ths.set ti t) = (absOf ths).set ti (t.state, t.cpu) := by
  unfold absOf; rw [List.map_set]

theorem absOf_map_flush (ths : List Thread) : absOf (ths.map Thread.flush) = absOf ths := by
  unfold absOf; rw [List.map_map]; rfl

theorem noOversub_of_wf {e : Emu} (h : WF e) : NoOversub e.phys (absOf e.threads) := by
  rintro g ⟨c, hc, hv⟩
  rw [runCount_absOf]
  exact (h.cpu g c hc).phys hv

/-- what never changes: the hierarchy, identities, enabled models, and the contents of the
    model channels (OH* / OA* events do not touch them) -/
def Cpu.static (c : Cpu) : Nat × Nat × Int × Bool := (c.gindex, c.loom, c.index, c.virt)
def Thread.static (t : Thread) : Nat × Int × Int × Nat × Bool × List (Nat × List (List Value)) :=
  (t.gindex, t.tid, t.pid, t.loom, t.outOfCpu, t.mch.map (fun x => (x.1, x.2.map Chan.vals)))

structure SameStatic (e e' : Emu) : Prop where
  cpus : e'.cpus.map Cpu.static = e.cpus.map Cpu.static
  threads : e'.threads.map Thread.static = e.threads.map Thread.static
  enabled : e'.enabled = e.enabled
  lint : e'.lint = e.lint

theorem SameStatic.refl (e : Emu) : SameStatic e e := ⟨rfl, rfl, rfl, rfl⟩

theorem SameStatic.trans {a b c : Emu} (h1 : SameStatic a b) (h2 : SameStatic b c) : SameStatic a c :=
  ⟨h2.cpus.trans h1.cpus, h2.threads.trans h1.threads, h2.enabled.trans h1.enabled, h2.lint.trans h1.lint⟩

theorem Chan.flush_vals (c : Chan) : c.flush.vals = c.vals := by
  unfold Chan.flush; split <;> rfl

theorem Thread.flush_static (t : Thread) : t.flush.static = t.static := by
  unfold Thread.static Thread.flush
  simp only [List.map_map]
  congr 6
  funext x
  simp only [Function.comp, List.map_map]
  congr 1
  apply List.map_congr_left
  intro c _
  exact Chan.flush_vals c

theorem SameStatic.flushAll (e : Emu) : SameStatic e e.flushAll := by
  rw [Emu.flushAll_eq]
  refine ⟨?_, ?_, rfl, rfl⟩
  · show (e.cpus.map Cpu.flush).map Cpu.static = _
    rw [List.map_map]; rfl
  · show (e.threads.map Thread.flush).map Thread.static = _
    rw [List.map_map]
    apply List.map_congr_left
    intro t _; exact Thread.flush_static t

/-- a step that replaces thread `ti` by one with the same static part and rewrites CPUs keeping
    their static part -/
theorem SameStatic.of_step {e : Emu} {ti : Nat} {t t' : Thread} (ht : e.threads[ti]? = some t)
    (hs : t'.static = t.static) (cpus' : List Cpu) (hc : cpus'.map Cpu.static = e.cpus.map Cpu.static) :
    SameStatic e ({ e with threads := e.threads.set ti t', cpus := cpus' } : Emu) := by
  refine ⟨hc, ?_, rfl, rfl⟩
  show (e.threads.set ti t').map Thread.static = _
  rw [List.map_set, hs]
  apply List.ext_getElem?
  intro i
  by_cases hi : ti = i
  · subst hi
    rw [List.getElem?_set_self (by rw [List.length_map]; exact lt_of_getElem? ht), List.getElem?_map, ht]; rfl
  · rw [List.getElem?_set_ne hi]

theorem map_static_set {cpus : List Cpu} {ci : Nat} {c c' : Cpu} (hc : cpus[ci]? = some c)
    (hs : c'.static = c.static) : (cpus.set ci c').map Cpu.static = cpus.map Cpu.static := by
  rw [List.map_set, hs]
  apply List.ext_getElem?
  intro i
  by_cases hi : ci = i
  · subst hi
    rw [List.getElem?_set_self (by rw [List.length_map]; exact lt_of_getElem? hc), List.getElem?_map, hc]; rfl
  · rw [List.getElem?_set_ne hi]

/-! ### outcome of an accepted step, in logical terms -/

/-- `e'` is a well-formed successor of `e` in which thread `ti` has logical state `x` -/
structure StepOK (e : Emu) (ti : Nat) (x : ThState × Option Nat) (e' : Emu) : Prop where
  wf : WF e'
  abs : absOf e'.threads = (absOf e.threads).set ti x
  static : SameStatic e e'

theorem stepOK_of {e : Emu} {ti : Nat} {t : Thread} (ht : e.threads[ti]? = some t) (t' : Thread)
    (cpus' : List Cpu)
    (hwf : WF ({ e with threads := e.threads.set ti t', cpus := cpus' } : Emu).flushAll)
    (hs : t'.static = t.static) (hc : cpus'.map Cpu.static = e.cpus.map Cpu.static) :
    StepOK e ti (t'.state, t'.cpu) ({ e with threads := e.threads.set ti t', cpus := cpus' } : Emu).flushAll := by
  refine ⟨hwf, ?_, (SameStatic.of_step ht hs cpus' hc).trans (SameStatic.flushAll _)⟩
  rw [Emu.flushAll_eq]
  show absOf ((e.threads.set ti t').map Thread.flush) = _
  rw [absOf_map_flush, absOf_set]

theorem SameStatic.phys {e e' : Emu} (h : SameStatic e e') (g : Nat) : e'.phys g ↔ e.phys g := by
  have key : ∀ (a b : Emu), a.cpus.map Cpu.static = b.cpus.map Cpu.static → a.phys g → b.phys g := by
    rintro a b hab ⟨c, hc, hv⟩
    have h1 : (a.cpus.map Cpu.static)[g]? = some c.static := by rw [List.getElem?_map, hc]; rfl
    rw [hab, List.getElem?_map] at h1
    cases hb : b.cpus[g]? with
    | none => rw [hb] at h1; cases h1
    | some c' =>
      rw [hb] at h1
      have : c'.static = c.static := by simpa using h1
      refine ⟨c', hb, ?_⟩
      have hv' : c'.static.2.2.2 = c.static.2.2.2 := by rw [this]
      exact hv'.trans hv
  exact ⟨key e' e h.cpus, key e e' h.cpus.symm⟩

theorem StepOK.noOversub {e e' : Emu} {ti : Nat} {x : ThState × Option Nat} (h : StepOK e ti x e') :
    NoOversub e.phys ((absOf e.threads).set ti x) := by
  intro g hg
  have := noOversub_of_wf h.wf g ((h.static.phys g).mpr hg)
  rw [h.abs] at this; exact this

/-- when the oversubscription guard of `cpu_update` fires, the logical result has a physical
    CPU with two running threads -/
theorem guard_true_not_noOversub {e : Emu} {ci : Nat} {c : Cpu} (hc : e.cpus[ci]? = some c)
    {thsX ths' : List Thread} {l : List Nat}
    (hag : ∀ i ∈ l, (thsX[i]?).map Thread.key = (ths'[i]?).map Thread.key)
    (hm : Membership ths' ci l) (hg : overGuard thsX l c.virt = true) :
    ¬ NoOversub e.phys (absOf ths') := by
  intro hno
  obtain ⟨hv, hlen⟩ := overGuard_true hg
  have := hno ci ⟨c, hc, hv⟩
  rw [runCount_absOf, ← runOf_length_spec hag hm] at this
  omega

/-- what every handler theorem states: acceptance is exactly "no physical CPU oversubscribed in
    the logical result", and an accepted step yields a well-formed state with that result -/
def Outcome (e : Emu) (ti : Nat) (x : ThState × Option Nat) (r : Except Err Emu) : Prop :=
  ((∃ e1, r = .ok e1) ↔ NoOversub e.phys ((absOf e.threads).set ti x)) ∧
  (∀ e1, r = .ok e1 → StepOK e ti x e1.flushAll)

theorem outcome_of_closed {e : Emu} {ti : Nat} {x : ThState × Option Nat} {r : Except Err Emu} {g : Bool}
    {eok : Emu} (hr : r = if g then .error .oversub else .ok eok)
    (hgt : g = true → ¬ NoOversub e.phys ((absOf e.threads).set ti x))
    (hgf : g = false → StepOK e ti x eok.flushAll) : Outcome e ti x r := by
  cases g with
  | true =>
    simp only [if_true] at hr
    subst hr
    refine ⟨⟨?_, fun hn => absurd hn (hgt rfl)⟩, ?_⟩
    · rintro ⟨e1, he1⟩; cases he1
    · intro e1 he1; cases he1
  | false =>
    simp only [Bool.false_eq_true, if_false] at hr
    subst hr
    have hs := hgf rfl
    refine ⟨⟨fun _ => hs.noOversub, fun _ => ⟨eok, rfl⟩⟩, ?_⟩
    intro e1 he1; cases he1; exact hs

theorem change_outcome {e : Emu} (h : WF e) {ti : Nat} {t : Thread} (ht : e.threads[ti]? = some t)
    (ok : ThState → Bool) (st : ThState) {ci : Nat} (hcpu : t.cpu = some ci) (hok : ok t.state = true)
    (hne : t.state ≠ st) (hl1 : st ≠ .unknown) (hl2 : st ≠ .dead) :
    Outcome e ti (st, some ci) (preThreadChange e ti ok st) := by
  have hth := h.th ti t ht
  obtain ⟨c, hc⟩ : ∃ c, e.cpus[ci]? = some c :=
    ⟨_, List.getElem?_eq_getElem (hth.cpuLt ci hcpu)⟩
  have hcp := h.cpu ci c hc
  refine outcome_of_closed (preThreadChange_eq h ht ok st hcpu hc hok hne hl1) ?_ ?_
  · intro hg
    have := guard_true_not_noOversub hc (thsX := e.threads.set ti (t.withState st)) (fun _ _ => rfl)
      (hcp.mem.set_same ht rfl) hg
    rw [absOf_set] at this
    rw [← hcpu]; exact this
  · intro hg
    have := stepOK_of ht (t.withState st) _ (wf_change h ht hcpu hc hl1 hl2 hg) rfl
      (map_static_set hc rfl)
    rw [← hcpu]; exact this

theorem execute_outcome {e : Emu} (h : WF e) {ti : Nat} {t : Thread} (ht : e.threads[ti]? = some t)
    {payload : List Nat} {ci : Nat} (hlen : 4 ≤ payload.length)
    (hci : loomGetCpu e t.loom (i32At payload 0) = some ci) (hnone : t.cpu = none) :
    Outcome e ti (.running, some ci) (preThreadExecute e ti payload) := by
  have hth := h.th ti t ht
  obtain ⟨c, hc, _⟩ := loomGetCpu_some h hci
  have hcp := h.cpu ci c hc
  have hst : t.state ≠ .running := by
    intro h'
    have := hth.cpuIff.mp hnone
    rw [h'] at this
    rcases this with h'' | h'' <;> cases h''
  refine outcome_of_closed (preThreadExecute_eq h ht hst hlen hci hnone hc) ?_ ?_
  · intro hg
    have := guard_true_not_noOversub hc (thsX := e.threads.set ti (t.executed ci)) (fun _ _ => rfl)
      (hcp.mem.set_add ht (by rw [hnone]; simp) rfl) hg
    rw [absOf_set] at this
    exact this
  · intro hg
    exact stepOK_of ht (t.executed ci) _ (wf_execute h ht hnone hc hg) rfl (map_static_set hc rfl)

theorem end_outcome {e : Emu} (h : WF e) {ti : Nat} {t : Thread} (ht : e.threads[ti]? = some t)
    (hst : t.state = .running ∨ t.state = .cooling) :
    Outcome e ti (.dead, none) (preThreadEnd e ti) := by
  have hth := h.th ti t ht
  obtain ⟨ci, hcpu⟩ : ∃ ci, t.cpu = some ci := by
    cases hcpu : t.cpu with
    | some ci => exact ⟨ci, rfl⟩
    | none =>
      have := hth.cpuIff.mp hcpu
      rcases hst with h' | h' <;> rw [h'] at this <;> rcases this with h'' | h'' <;> cases h''
  obtain ⟨c, hc⟩ : ∃ c, e.cpus[ci]? = some c :=
    ⟨_, List.getElem?_eq_getElem (hth.cpuLt ci hcpu)⟩
  have hcp := h.cpu ci c hc
  have hag : ∀ i ∈ c.threads.erase ti, ((e.threads.set ti (t.withState .dead))[i]?).map Thread.key =
      ((e.threads.set ti t.ended)[i]?).map Thread.key := by
    intro i hi
    have hne : ti ≠ i := by
      intro h'; subst h'
      exact ((hcp.mem.nodup.mem_erase_iff).mp hi).1 rfl
    rw [List.getElem?_set_ne hne, List.getElem?_set_ne hne]
  refine outcome_of_closed (preThreadEnd_eq h ht hst hcpu hc) ?_ ?_
  · intro hg
    have := guard_true_not_noOversub hc hag
      (hcp.mem.set_remove ht (t' := t.ended) (by show (none : Option Nat) ≠ some ci; simp)) hg
    rw [absOf_set] at this
    exact this
  · intro hg
    exact stepOK_of ht t.ended _ (wf_end h ht hcpu hc hg) rfl (map_static_set hc rfl)

theorem migrate_outcome {e : Emu} (h : WF e) {ti : Nat} {t : Thread} (ht : e.threads[ti]? = some t)
    {fr to : Nat} {ct : Cpu} (hcpu : t.cpu = some fr) (hne : fr ≠ to) (hct : e.cpus[to]? = some ct) :
    Outcome e ti (t.state, some to) (migrate e ti fr to) := by
  have hth := h.th ti t ht
  obtain ⟨cf, hcf⟩ : ∃ c, e.cpus[fr]? = some c :=
    ⟨_, List.getElem?_eq_getElem (hth.cpuLt fr hcpu)⟩
  have hpf := h.cpu fr cf hcf
  have hpt := h.cpu to ct hct
  have hne' : t.cpu ≠ some to := by rw [hcpu]; intro h'; exact hne (Option.some.inj h')
  have hcl : migrate e ti fr to =
      if (overGuard e.threads (cf.threads.erase ti) cf.virt || overGuard e.threads (ct.threads ++ [ti]) ct.virt)
      then .error .oversub else .ok (e.migrated ti t fr to cf ct) := by
    rw [migrate_eq h ht hcpu hne hcf hct]
    cases overGuard e.threads (cf.threads.erase ti) cf.virt <;>
      cases overGuard e.threads (ct.threads ++ [ti]) ct.virt <;> rfl
  refine outcome_of_closed hcl ?_ ?_
  · intro hg
    rw [Bool.or_eq_true] at hg
    have habs : absOf (e.threads.set ti (t.withCpu (some to))) = (absOf e.threads).set ti (t.state, some to) :=
      absOf_set _ _ _
    rw [← habs]
    rcases hg with hg | hg
    · exact guard_true_not_noOversub hcf (fun i _ => key_agree_set (t' := t.withCpu (some to)) ht rfl i)
        (hpf.mem.set_remove ht (by show some to ≠ some fr; intro h'; exact hne (Option.some.inj h').symm)) hg
    · exact guard_true_not_noOversub hct (fun i _ => key_agree_set (t' := t.withCpu (some to)) ht rfl i)
        (hpt.mem.set_add ht hne' rfl) hg
  · intro hg
    rw [Bool.or_eq_false_iff] at hg
    refine stepOK_of ht (t.withCpu (some to)) _ (wf_migrate h ht hcpu hne hcf hct hg.1 hg.2) rfl ?_
    have h1 : ∀ cf' : Cpu, (e.cpus.set fr cf')[to]? = some ct := by
      intro cf'; rw [List.getElem?_set_ne hne]; exact hct
    exact (map_static_set (h1 _) (by rfl)).trans (map_static_set hcf (by rfl))


end Ovni.Emu
