import OvniModel.Lemmas.EmuCoreSteps

/-
  Helper lemmas for C04 / C05, part 4: the logical state (state, cpu) of the
  threads, the static part of the emulator, and the outcome of every handler
  in those terms.
-/
set_option linter.unusedSimpArgs false
namespace Ovni.Emu

/-! ### logical state, static part -/

/-- the logical state of the threads: (state, cpu) per thread -/
abbrev LState := List (ThState × Option Nat)

def absOf (ths : List Thread) : LState := ths.map (fun t => (t.state, t.cpu))

/-- number of running threads bound to CPU `g` -/
def runCount (s : LState) (g : Nat) : Nat := (s.filter (fun x => x.1 = .running && x.2 == some g)).length

/-- `g` is the global index of a physical CPU -/
def Emu.phys (e : Emu) (g : Nat) : Prop := ∃ c, e.cpus[g]? = some c ∧ c.virt = false

def NoOversub (phys : Nat → Prop) (s : LState) : Prop := ∀ g, phys g → runCount s g ≤ 1

theorem runCount_absOf (ths : List Thread) (g : Nat) :
    runCount (absOf ths) g = (runOf (onCpu ths g)).length := by
  unfold runCount absOf runOf onCpu
  rw [List.filter_map, List.length_map, List.filter_filter]
  rfl

theorem absOf_set (ths : List Thread) (ti : Nat) (t : Thread) :
    absOf (ths.set ti t) = (absOf ths).set ti (t.state, t.cpu) := by
  unfold absOf; rw [List.map_set]

theorem absOf_map_flush (ths : List Thread) : absOf (ths.map Thread.flush) = absOf ths := by
  unfold absOf; rw [List.map_map]; rfl

theorem noOversub_of_wf {e : Emu} (h : WF e) : NoOversub e.phys (absOf e.threads) := by
  rintro g ⟨c, hc, hv⟩
  rw [runCount_absOf]
  exact (h.cpu g c hc).phys hv

/-- what never changes: the hierarchy, identities, enabled models, run-time channel groups, and the
    contents of the model channels (OH* / OA* events do not touch them) -/
def Cpu.static (c : Cpu) : Nat × Nat × Int × Bool := (c.gindex, c.loom, c.index, c.virt)
def Thread.static (t : Thread) : Nat × Int × Int × Nat × Bool × List (Nat × List (List Value)) :=
  (t.gindex, t.tid, t.pid, t.loom, t.outOfCpu, t.mch.map (fun x => (x.1, x.2.map Chan.vals)))

structure SameStatic (e e' : Emu) : Prop where
  cpus : e'.cpus.map Cpu.static = e.cpus.map Cpu.static
  threads : e'.threads.map Thread.static = e.threads.map Thread.static
  enabled : e'.enabled = e.enabled
  lint : e'.lint = e.lint
  extra : e'.extra = e.extra

theorem SameStatic.refl (e : Emu) : SameStatic e e := ⟨rfl, rfl, rfl, rfl, rfl⟩

theorem SameStatic.trans {a b c : Emu} (h1 : SameStatic a b) (h2 : SameStatic b c) : SameStatic a c :=
  ⟨h2.cpus.trans h1.cpus, h2.threads.trans h1.threads, h2.enabled.trans h1.enabled, h2.lint.trans h1.lint,
    h2.extra.trans h1.extra⟩

theorem Chan.flush_vals (c : Chan) : c.flush.vals = c.vals := by
  unfold Chan.flush; split <;> rfl

theorem Thread.flush_static (t : Thread) : t.flush.static = t.static := by
  unfold Thread.static Thread.flush
  simp only [List.map_map]
  congr 6
  funext x
  simp only [Function.comp, List.map_map]
  congr 1
  apply List.map_congr_left
  intro c _
  exact Chan.flush_vals c

theorem SameStatic.flushAll (e : Emu) : SameStatic e e.flushAll := by
  rw [Emu.flushAll_eq]
  refine ⟨?_, ?_, rfl, rfl, rfl⟩
  · show (e.cpus.map Cpu.flush).map Cpu.static = _
    rw [List.map_map]; rfl
  · show (e.threads.map Thread.flush).map Thread.static = _
    rw [List.map_map]
    apply List.map_congr_left
    intro t _; exact Thread.flush_static t

/-- a step that replaces thread `ti` by one with the same static part and rewrites CPUs keeping
    their static part -/
theorem SameStatic.of_step {e : Emu} {ti : Nat} {t t' : Thread} (ht : e.threads[ti]? = some t)
    (hs : t'.static = t.static) (cpus' : List Cpu) (hc : cpus'.map Cpu.static = e.cpus.map Cpu.static) :
    SameStatic e ({ e with threads := e.threads.set ti t', cpus := cpus' } : Emu) := by
  refine ⟨hc, ?_, rfl, rfl, rfl⟩
  show (e.threads.set ti t').map Thread.static = _
  rw [List.map_set, hs]
  apply List.ext_getElem?
  intro i
  by_cases hi : ti = i
  · subst hi
    rw [List.getElem?_set_self (by rw [List.length_map]; exact lt_of_getElem? ht), List.getElem?_map, ht]; rfl
  · rw [List.getElem?_set_ne hi]

theorem map_static_set {cpus : List Cpu} {ci : Nat} {c c' : Cpu} (hc : cpus[ci]? = some c)
    (hs : c'.static = c.static) : (cpus.set ci c').map Cpu.static = cpus.map Cpu.static := by
  rw [List.map_set, hs]
  apply List.ext_getElem?
  intro i
  by_cases hi : ci = i
  · subst hi
    rw [List.getElem?_set_self (by rw [List.length_map]; exact lt_of_getElem? hc), List.getElem?_map, hc]; rfl
  · rw [List.getElem?_set_ne hi]

/-! ### outcome of an accepted step, in logical terms -/

/-- `e'` is a well-formed successor of `e` in which thread `ti` has logical state `x` -/
structure StepOK (e : Emu) (ti : Nat) (x : ThState × Option Nat) (e' : Emu) : Prop where
  wf : WF e'
  abs : absOf e'.threads = (absOf e.threads).set ti x
  static : SameStatic e e'

theorem stepOK_of {e : Emu} {ti : Nat} {t : Thread} (ht : e.threads[ti]? = some t) (t' : Thread)
    (cpus' : List Cpu)
    (hwf : WF ({ e with threads := e.threads.set ti t', cpus := cpus' } : Emu).flushAll)
    (hs : t'.static = t.static) (hc : cpus'.map Cpu.static = e.cpus.map Cpu.static) :
    StepOK e ti (t'.state, t'.cpu) ({ e with threads := e.threads.set ti t', cpus := cpus' } : Emu).flushAll := by
  refine ⟨hwf, ?_, (SameStatic.of_step ht hs cpus' hc).trans (SameStatic.flushAll _)⟩
  rw [Emu.flushAll_eq]
  show absOf ((e.threads.set ti t').map Thread.flush) = _
  rw [absOf_map_flush, absOf_set]

theorem SameStatic.phys {e e' : Emu} (h : SameStatic e e') (g : Nat) : e'.phys g ↔ e.phys g := by
  have key : ∀ (a b : Emu), a.cpus.map Cpu.static = b.cpus.map Cpu.static → a.phys g → b.phys g := by
    rintro a b hab ⟨c, hc, hv⟩
    have h1 : (a.cpus.map Cpu.static)[g]? = some c.static := by rw [List.getElem?_map, hc]; rfl
    rw [hab, List.getElem?_map] at h1
    cases hb : b.cpus[g]? with
    | none => rw [hb] at h1; cases h1
    | some c' =>
      rw [hb] at h1
      have : c'.static = c.static := by simpa using h1
      refine ⟨c', hb, ?_⟩
      have hv' : c'.static.2.2.2 = c.static.2.2.2 := by rw [this]
      exact hv'.trans hv
  exact ⟨key e' e h.cpus, key e e' h.cpus.symm⟩

theorem StepOK.noOversub {e e' : Emu} {ti : Nat} {x : ThState × Option Nat} (h : StepOK e ti x e') :
    NoOversub e.phys ((absOf e.threads).set ti x) := by
  intro g hg
  have := noOversub_of_wf h.wf g ((h.static.phys g).mpr hg)
  rw [h.abs] at this; exact this

/-- when the oversubscription guard of `cpu_update` fires, the logical result has a physical
    CPU with two running threads -/
theorem guard_true_not_noOversub {e : Emu} {ci : Nat} {c : Cpu} (hc : e.cpus[ci]? = some c)
    {thsX ths' : List Thread} {l : List Nat}
    (hag : ∀ i ∈ l, (thsX[i]?).map Thread.key = (ths'[i]?).map Thread.key)
    (hm : Membership ths' ci l) (hg : overGuard thsX l c.virt = true) :
    ¬ NoOversub e.phys (absOf ths') := by
  intro hno
  obtain ⟨hv, hlen⟩ := overGuard_true hg
  have := hno ci ⟨c, hc, hv⟩
  rw [runCount_absOf, ← runOf_length_spec hag hm] at this
  omega

theorem ChanOK.setv_same {c : Chan} {v : Value} {ign : Bool} (h : ChanOK c v ign) : c.setv v = c := by
  unfold Chan.setv; rw [if_pos h.last]

/-- the state before the flush: the three channels of the changed thread have been written with
    the values of its new logical state (a write of the value a channel already has leaves it
    untouched), every other thread is untouched -/
def Pre (e : Emu) (ti : Nat) (x : ThState × Option Nat) (e1 : Emu) : Prop :=
  (∃ t t1, e.threads[ti]? = some t ∧ e1.threads[ti]? = some t1 ∧ t1.gindex = ti ∧ t1.tid = t.tid ∧
    t1.chState = t.chState.setv (stateVal x.1) ∧ t1.chTid = t.chTid.setv (tidVal x.1 t.tid) ∧
    t1.chCpu = t.chCpu.setv (cpuVal x.2)) ∧
  (∀ j, j ≠ ti → e1.threads[j]? = e.threads[j]?) ∧ e1.enabled = e.enabled

theorem pre_of {e : Emu} {ti : Nat} {t : Thread} (ht : e.threads[ti]? = some t) {n : Nat}
    (_hth : ThreadOK n ti t) (t1 : Thread) (cpus' : List Cpu)
    (x : ThState × Option Nat) (h1 : t1.gindex = ti) (h2 : t1.tid = t.tid)
    (h3 : t1.chState = t.chState.setv (stateVal x.1)) (h4 : t1.chTid = t.chTid.setv (tidVal x.1 t.tid))
    (h5 : t1.chCpu = t.chCpu.setv (cpuVal x.2)) :
    Pre e ti x ({ e with threads := e.threads.set ti t1, cpus := cpus' } : Emu) := by
  refine ⟨⟨t, t1, ht, ?_, h1, h2, h3, h4, h5⟩, fun j hj => ?_, rfl⟩
  · show (e.threads.set ti t1)[ti]? = some t1
    exact List.getElem?_set_self (lt_of_getElem? ht)
  · show (e.threads.set ti t1)[j]? = e.threads[j]?
    exact List.getElem?_set_ne (fun h => hj h.symm)

/-- what every handler theorem states: acceptance is exactly "no physical CPU oversubscribed in
    the logical result", and an accepted step yields a well-formed state with that result -/
def Outcome (e : Emu) (ti : Nat) (x : ThState × Option Nat) (r : Except Err Emu) : Prop :=
  ((∃ e1, r = .ok e1) ↔ NoOversub e.phys ((absOf e.threads).set ti x)) ∧
  (∀ e1, r = .ok e1 → StepOK e ti x e1.flushAll) ∧
  (∀ e1, r = .ok e1 → Pre e ti x e1)

theorem outcome_of_closed {e : Emu} {ti : Nat} {x : ThState × Option Nat} {r : Except Err Emu} {g : Bool}
    {eok : Emu} (hr : r = if g then .error .oversub else .ok eok)
    (hgt : g = true → ¬ NoOversub e.phys ((absOf e.threads).set ti x))
    (hgf : g = false → StepOK e ti x eok.flushAll) (hpre : Pre e ti x eok) : Outcome e ti x r := by
  cases g with
  | true =>
    simp only [if_true] at hr
    subst hr
    refine ⟨⟨?_, fun hn => absurd hn (hgt rfl)⟩, ?_, ?_⟩
    · rintro ⟨e1, he1⟩; cases he1
    · intro e1 he1; cases he1
    · intro e1 he1; cases he1
  | false =>
    simp only [Bool.false_eq_true, if_false] at hr
    subst hr
    have hs := hgf rfl
    refine ⟨⟨fun _ => hs.noOversub, fun _ => ⟨eok, rfl⟩⟩, ?_, ?_⟩
    · intro e1 he1; cases he1; exact hs
    · intro e1 he1; cases he1; exact hpre

theorem change_outcome {e : Emu} (h : WF e) {ti : Nat} {t : Thread} (ht : e.threads[ti]? = some t)
    (ok : ThState → Bool) (st : ThState) {ci : Nat} (hcpu : t.cpu = some ci) (hok : ok t.state = true)
    (hne : t.state ≠ st) (hl1 : st ≠ .unknown) (hl2 : st ≠ .dead) :
    Outcome e ti (st, some ci) (preThreadChange e ti ok st) := by
  have hth := h.th ti t ht
  obtain ⟨c, hc⟩ : ∃ c, e.cpus[ci]? = some c :=
    ⟨_, List.getElem?_eq_getElem (hth.cpuLt ci hcpu)⟩
  have hcp := h.cpu ci c hc
  refine outcome_of_closed (preThreadChange_eq h ht ok st hcpu hc hok hne hl1) ?_ ?_
    (pre_of ht hth (t.withState st) _ _ hth.gidx rfl (by rw [stateVal_of_ne hl1]; rfl) rfl
      (by show t.chCpu = t.chCpu.setv (cpuVal (some ci)); rw [← hcpu, hth.chCpu.setv_same]))
  · intro hg
    have := guard_true_not_noOversub hc (thsX := e.threads.set ti (t.withState st)) (fun _ _ => rfl)
      (hcp.mem.set_same ht rfl) hg
    rw [absOf_set] at this
    rw [← hcpu]; exact this
  · intro hg
    have := stepOK_of ht (t.withState st) _ (wf_change h ht hcpu hc hl1 hl2 hg) rfl
      (map_static_set hc rfl)
    rw [← hcpu]; exact this

theorem execute_outcome {e : Emu} (h : WF e) {ti : Nat} {t : Thread} (ht : e.threads[ti]? = some t)
    {payload : List Nat} {ci : Nat} (hlen : 4 ≤ payload.length)
    (hci : loomGetCpu e t.loom (i32At payload 0) = some ci) (hnone : t.cpu = none) :
    Outcome e ti (.running, some ci) (preThreadExecute e ti payload) := by
  have hth := h.th ti t ht
  obtain ⟨c, hc, _⟩ := loomGetCpu_some h hci
  have hcp := h.cpu ci c hc
  have hst : t.state ≠ .running := by
    intro h'
    have := hth.cpuIff.mp hnone
    rw [h'] at this
    rcases this with h'' | h'' <;> cases h''
  refine outcome_of_closed (preThreadExecute_eq h ht hst hlen hci hnone hc) ?_ ?_
    (pre_of ht hth (t.executed ci) _ _ hth.gidx rfl rfl rfl rfl)
  · intro hg
    have := guard_true_not_noOversub hc (thsX := e.threads.set ti (t.executed ci)) (fun _ _ => rfl)
      (hcp.mem.set_add ht (by rw [hnone]; simp) rfl) hg
    rw [absOf_set] at this
    exact this
  · intro hg
    exact stepOK_of ht (t.executed ci) _ (wf_execute h ht hnone hc hg) rfl (map_static_set hc rfl)

theorem end_outcome {e : Emu} (h : WF e) {ti : Nat} {t : Thread} (ht : e.threads[ti]? = some t)
    (hst : t.state = .running ∨ t.state = .cooling) :
    Outcome e ti (.dead, none) (preThreadEnd e ti) := by
  have hth := h.th ti t ht
  obtain ⟨ci, hcpu⟩ : ∃ ci, t.cpu = some ci := by
    cases hcpu : t.cpu with
    | some ci => exact ⟨ci, rfl⟩
    | none =>
      have := hth.cpuIff.mp hcpu
      rcases hst with h' | h' <;> rw [h'] at this <;> rcases this with h'' | h'' <;> cases h''
  obtain ⟨c, hc⟩ : ∃ c, e.cpus[ci]? = some c :=
    ⟨_, List.getElem?_eq_getElem (hth.cpuLt ci hcpu)⟩
  have hcp := h.cpu ci c hc
  have hag : ∀ i ∈ c.threads.erase ti, ((e.threads.set ti (t.withState .dead))[i]?).map Thread.key =
      ((e.threads.set ti t.ended)[i]?).map Thread.key := by
    intro i hi
    have hne : ti ≠ i := by
      intro h'; subst h'
      exact ((hcp.mem.nodup.mem_erase_iff).mp hi).1 rfl
    rw [List.getElem?_set_ne hne, List.getElem?_set_ne hne]
  refine outcome_of_closed (preThreadEnd_eq h ht hst hcpu hc) ?_ ?_
    (pre_of ht hth t.ended _ _ hth.gidx rfl rfl rfl rfl)
  · intro hg
    have := guard_true_not_noOversub hc hag
      (hcp.mem.set_remove ht (t' := t.ended) (by show (none : Option Nat) ≠ some ci; simp)) hg
    rw [absOf_set] at this
    exact this
  · intro hg
    exact stepOK_of ht t.ended _ (wf_end h ht hcpu hc hg) rfl (map_static_set hc rfl)

theorem migrate_outcome {e : Emu} (h : WF e) {ti : Nat} {t : Thread} (ht : e.threads[ti]? = some t)
    {fr to : Nat} {ct : Cpu} (hcpu : t.cpu = some fr) (hne : fr ≠ to) (hct : e.cpus[to]? = some ct) :
    Outcome e ti (t.state, some to) (migrate e ti fr to) := by
  have hth := h.th ti t ht
  obtain ⟨cf, hcf⟩ : ∃ c, e.cpus[fr]? = some c :=
    ⟨_, List.getElem?_eq_getElem (hth.cpuLt fr hcpu)⟩
  have hpf := h.cpu fr cf hcf
  have hpt := h.cpu to ct hct
  have hne' : t.cpu ≠ some to := by rw [hcpu]; intro h'; exact hne (Option.some.inj h')
  have hcl : migrate e ti fr to =
      if (overGuard e.threads (cf.threads.erase ti) cf.virt || overGuard e.threads (ct.threads ++ [ti]) ct.virt)
      then .error .oversub else .ok (e.migrated ti t fr to cf ct) := by
    rw [migrate_eq h ht hcpu hne hcf hct]
    cases overGuard e.threads (cf.threads.erase ti) cf.virt <;>
      cases overGuard e.threads (ct.threads ++ [ti]) ct.virt <;> rfl
  refine outcome_of_closed hcl ?_ ?_
    (pre_of ht hth (t.withCpu (some to)) _ _ hth.gidx rfl
      (by show t.chState = _; rw [hth.chState.setv_same])
      (by show t.chTid = _; rw [hth.chTid.setv_same]) rfl)
  · intro hg
    rw [Bool.or_eq_true] at hg
    have habs : absOf (e.threads.set ti (t.withCpu (some to))) = (absOf e.threads).set ti (t.state, some to) :=
      absOf_set _ _ _
    rw [← habs]
    rcases hg with hg | hg
    · exact guard_true_not_noOversub hcf (fun i _ => key_agree_set (t' := t.withCpu (some to)) ht rfl i)
        (hpf.mem.set_remove ht (by show some to ≠ some fr; intro h'; exact hne (Option.some.inj h').symm)) hg
    · exact guard_true_not_noOversub hct (fun i _ => key_agree_set (t' := t.withCpu (some to)) ht rfl i)
        (hpt.mem.set_add ht hne' rfl) hg
  · intro hg
    rw [Bool.or_eq_false_iff] at hg
    refine stepOK_of ht (t.withCpu (some to)) _ (wf_migrate h ht hcpu hne hcf hct hg.1 hg.2) rfl ?_
    have h1 : ∀ cf' : Cpu, (e.cpus.set fr cf')[to]? = some ct := by
      intro cf'; rw [List.getElem?_set_ne hne]; exact hct
    exact (map_static_set (h1 _) (by rfl)).trans (map_static_set hcf (by rfl))


/-! ### the initial state -/

theorem chanOK_default : ChanOK ({} : Chan) .null false := ⟨rfl, rfl, rfl, rfl, rfl, rfl, rfl⟩
theorem chanOK_default_ign : ChanOK ({ ignoreDup := true } : Chan) .null true := ⟨rfl, rfl, rfl, rfl, rfl, rfl, rfl⟩

theorem mkEmu_threads_none (threads : List (Int × Int × Nat)) (cpus : List (Nat × Int × Bool))
    (enabled : List Nat) (lint : Bool) (extra : List ModelSpec) {i : Nat} {t : Thread}
    (h : (mkEmu threads cpus enabled lint extra).threads[i]? = some t) :
    t.gindex = i ∧ t.state = .unknown ∧ t.cpu = none ∧ t.outOfCpu = false ∧
    t.chCpu = {} ∧ t.chTid = { ignoreDup := true } ∧ t.chState = {} := by
  unfold mkEmu at h
  simp only [List.getElem?_mapIdx] at h
  cases hx : threads[i]? with
  | none => simp [hx] at h
  | some x =>
    simp [hx] at h
    subst h
    exact ⟨rfl, rfl, rfl, rfl, rfl, rfl, rfl⟩

theorem onCpu_mkEmu (threads : List (Int × Int × Nat)) (cpus : List (Nat × Int × Bool))
    (enabled : List Nat) (lint : Bool) (extra : List ModelSpec) (g : Nat) :
    onCpu (mkEmu threads cpus enabled lint extra).threads g = [] := by
  unfold onCpu
  rw [List.filter_eq_nil_iff]
  intro t ht
  obtain ⟨i, hi⟩ := List.mem_iff_getElem?.mp ht
  have := (mkEmu_threads_none threads cpus enabled lint extra hi).2.2.1
  simp [this]

/-- The emulator built from the hierarchy is well-formed. -/
theorem wf_mkEmu (threads : List (Int × Int × Nat)) (cpus : List (Nat × Int × Bool))
    (enabled : List Nat) (lint : Bool) (extra : List ModelSpec := []) :
    WF (mkEmu threads cpus enabled lint extra) := by
  constructor
  · intro i t ht
    obtain ⟨h1, h2, h3, h4, h5, h6, h7⟩ := mkEmu_threads_none threads cpus enabled lint extra ht
    refine ⟨h1, ?_, ?_, ?_, ?_, ?_, h4⟩
    · rw [h7, h2]; exact chanOK_default
    · rw [h6, h2]; exact chanOK_default_ign
    · rw [h5, h3]; exact chanOK_default
    · rw [h3, h2]; simp
    · intro ci hci; rw [h3] at hci; cases hci
  · intro g c hc
    have hon := onCpu_mkEmu threads cpus enabled lint extra g
    have hc' := hc
    unfold mkEmu at hc'
    simp only [List.getElem?_mapIdx] at hc'
    cases hx : cpus[g]? with
    | none => simp [hx] at hc'
    | some x =>
      simp [hx] at hc'
      subst hc'
      refine ⟨rfl, ⟨List.nodup_nil, ?_⟩, ?_, ?_⟩
      · intro i
        constructor
        · intro h; cases h
        · rintro ⟨t, ht, hcpu⟩
          have := (mkEmu_threads_none threads cpus enabled lint extra ht).2.2.1
          rw [this] at hcpu; cases hcpu
      · rw [hon]
        exact ⟨.null, ⟨chanOK_default_ign, chanOK_default_ign, chanOK_default_ign, chanOK_default_ign,
          chanOK_default_ign⟩, Or.inr ⟨rfl, rfl⟩⟩
      · intro _; rw [hon]; exact Nat.zero_le _


/-! ### `pre_thread`: the transition table the guards implement -/

/-- the model's transition table, read off the guards of `preThread*` -/
def modelNext (st : ThState) (v : Nat) : Option ThState :=
  if v = 120 then (if st = .unknown ∨ st = .dead then some .running else none)
  else if v = 101 then (if st = .running ∨ st = .cooling then some .dead else none)
  else if v = 112 then (if st = .running ∨ st = .cooling then some .paused else none)
  else if v = 114 then (if st = .paused ∨ st = .warming then some .running else none)
  else if v = 99 then (if st = .running then some .cooling else none)
  else if v = 119 then (if st = .paused then some .warming else none)
  else none

/-- the CPU a thread is bound to after OH`v` -/
def cpuAfter (v : Nat) (cur : Option Nat) (target : Nat) : Option Nat :=
  if v = 120 then some target else if v = 101 then none else cur

/-- rejected, or accepted with the given logical result -/
def Verdict (e : Emu) (ti : Nat) (x : Option (ThState × Option Nat)) (r : Except Err Emu) : Prop :=
  match x with
  | none => ∃ err, r = .error err
  | some x => Outcome e ti x r

theorem change_verdict {e : Emu} (h : WF e) {ti : Nat} {t : Thread} (ht : e.threads[ti]? = some t)
    (ok : ThState → Bool) (st : ThState)
    (hspec : ∀ s, ok s = true → s ≠ st ∧ s ≠ .unknown ∧ s ≠ .dead) (hl1 : st ≠ .unknown) (hl2 : st ≠ .dead) :
    Verdict e ti (if ok t.state then some (st, t.cpu) else none) (preThreadChange e ti ok st) := by
  have hth := h.th ti t ht
  cases hok : ok t.state with
  | false => exact ⟨_, preThreadChange_err ht ok st hok⟩
  | true =>
    obtain ⟨h1, h2, h3⟩ := hspec _ hok
    cases hcpu : t.cpu with
    | none =>
      rcases hth.cpuIff.mp hcpu with h' | h'
      · exact absurd h' h2
      · exact absurd h' h3
    | some ci => exact change_outcome h ht ok st hcpu hok h1 hl1 hl2

theorem preThread_verdict {e : Emu} (h : WF e) {ti : Nat} {t : Thread} (ht : e.threads[ti]? = some t)
    {v : Nat} (hv : v ∈ [120, 99, 112, 119, 114, 101]) {payload : List Nat} {ci : Nat}
    (hx : v = 120 → 4 ≤ payload.length ∧ loomGetCpu e t.loom (i32At payload 0) = some ci) :
    Verdict e ti ((modelNext t.state v).map fun st' => (st', cpuAfter v t.cpu ci))
      (preThread e ti v payload) := by
  have hth := h.th ti t ht
  simp only [List.mem_cons, List.not_mem_nil, or_false] at hv
  rcases hv with rfl | rfl | rfl | rfl | rfl | rfl
  · -- execute
    obtain ⟨hlen, hci⟩ := hx rfl
    show Verdict e ti _ (preThreadExecute e ti payload)
    by_cases hnone : t.cpu = none
    · have hs := hth.cpuIff.mp hnone
      have : modelNext t.state 120 = some .running := by unfold modelNext; simp [hs]
      rw [this]
      exact execute_outcome h ht hlen hci hnone
    · have hs : ¬ (t.state = .unknown ∨ t.state = .dead) := fun h' => hnone (hth.cpuIff.mpr h')
      have : modelNext t.state 120 = none := by unfold modelNext; simp [hs]
      rw [this]
      exact preThreadExecute_err_of_cpu h ht payload hnone
  · -- cool
    have := change_verdict h ht (fun s => s = .running) .cooling
      (by intro s hs; simp at hs; subst hs; decide) (by decide) (by decide)
    show Verdict e ti _ (preThreadChange e ti (fun s => s = .running) .cooling)
    unfold modelNext cpuAfter
    by_cases hs : t.state = .running <;> simp [hs] at this ⊢ <;> exact this
  · -- pause
    have := change_verdict h ht (fun s => s = .running || s = .cooling) .paused
      (by intro s hs; simp at hs; rcases hs with hs | hs <;> subst hs <;> decide) (by decide) (by decide)
    show Verdict e ti _ (preThreadChange e ti (fun s => s = .running || s = .cooling) .paused)
    unfold modelNext cpuAfter
    by_cases hs : t.state = .running ∨ t.state = .cooling <;> simp [hs] at this ⊢ <;> exact this
  · -- warm
    have := change_verdict h ht (fun s => s = .paused) .warming
      (by intro s hs; simp at hs; subst hs; decide) (by decide) (by decide)
    show Verdict e ti _ (preThreadChange e ti (fun s => s = .paused) .warming)
    unfold modelNext cpuAfter
    by_cases hs : t.state = .paused <;> simp [hs] at this ⊢ <;> exact this
  · -- resume
    have := change_verdict h ht (fun s => s = .paused || s = .warming) .running
      (by intro s hs; simp at hs; rcases hs with hs | hs <;> subst hs <;> decide) (by decide) (by decide)
    show Verdict e ti _ (preThreadChange e ti (fun s => s = .paused || s = .warming) .running)
    unfold modelNext cpuAfter
    by_cases hs : t.state = .paused ∨ t.state = .warming <;> simp [hs] at this ⊢ <;> exact this
  · -- end
    show Verdict e ti _ (preThreadEnd e ti)
    unfold modelNext cpuAfter
    by_cases hs : t.state = .running ∨ t.state = .cooling
    · simp [hs]
      exact end_outcome h ht hs
    · simp [hs]
      have hs' := not_or.mp hs
      exact ⟨_, preThreadEnd_err ht hs'.1 hs'.2⟩


/-! ### affinity events and the dispatch of `model_event` -/

theorem list_set_same {α} {l : List α} {i : Nat} {a : α} (h : l[i]? = some a) : l.set i a = l := by
  apply List.ext_getElem?
  intro j
  by_cases hj : i = j
  · subst hj; rw [List.getElem?_set_self (lt_of_getElem? h), h]
  · rw [List.getElem?_set_ne hj]

theorem wf_flushAll {e : Emu} (h : WF e) : WF e.flushAll :=
  WF.assemble e e.threads e.cpus (fun i t ht => (h.th i t ht).flush) (fun g c hc => (h.cpu g c hc).flush)

/-- a step that changes nothing -/
theorem outcome_noop {e : Emu} (h : WF e) {ti : Nat} {t : Thread} (ht : e.threads[ti]? = some t) :
    Outcome e ti (t.state, t.cpu) (.ok e) := by
  have habs : (absOf e.threads).set ti (t.state, t.cpu) = absOf e.threads := by
    apply list_set_same
    unfold absOf; rw [List.getElem?_map, ht]; rfl
  have hs : StepOK e ti (t.state, t.cpu) e.flushAll := by
    refine ⟨wf_flushAll h, ?_, SameStatic.flushAll e⟩
    rw [habs, Emu.flushAll_eq]
    exact absOf_map_flush _
  have hth := h.th ti t ht
  refine ⟨⟨fun _ => hs.noOversub, fun _ => ⟨e, rfl⟩⟩, ?_, ?_⟩
  · intro e1 he1; cases he1; exact hs
  · intro e1 he1; cases he1
    exact ⟨⟨t, t, ht, ht, hth.gidx, rfl, by rw [hth.chState.setv_same], by rw [hth.chTid.setv_same],
      by rw [hth.chCpu.setv_same]⟩, fun _ _ => rfl, rfl⟩

/-- OAs: the thread must be active; then it is bound to the named CPU -/
theorem preAffinitySet_verdict {e : Emu} (h : WF e) {ti : Nat} {t : Thread} (ht : e.threads[ti]? = some t)
    {payload : List Nat} {ci : Nat} (hlen : payload.length = 4)
    (hci : loomGetCpu e t.loom (i32At payload 0) = some ci) :
    Verdict e ti (if t.state.isActive then some (t.state, some ci) else none)
      (preAffinitySet e ti payload) := by
  have hth := h.th ti t ht
  unfold preAffinitySet
  simp only [ht]
  cases hcpu : t.cpu with
  | none =>
    have hs := hth.cpuIff.mp hcpu
    have : t.state.isActive = false := by rcases hs with hs | hs <;> rw [hs] <;> rfl
    simp only [this]
    exact ⟨_, rfl⟩
  | some cur =>
    simp only []
    cases hact : t.state.isActive with
    | false => exact ⟨_, rfl⟩
    | true =>
      have hl : ¬ payload.length ≠ 4 := by simp [hlen]
      simp only [Bool.not_true, Bool.false_eq_true, if_false, if_true, hl, hci]
      by_cases hsame : cur = ci
      · simp only [hsame, if_true]
        have := outcome_noop h ht
        rw [hcpu, hsame] at this
        exact this
      · simp only [hsame, if_false]
        obtain ⟨ct, hct, _⟩ := loomGetCpu_some h hci
        exact migrate_outcome h ht hcpu hsame hct

theorem findRemote_mem {e : Emu} {t r : Thread} {tid : Int} (h : findRemote e t tid = some r) :
    r ∈ e.threads := by
  unfold findRemote at h
  cases h1 : e.threads.find? (fun x => x.loom = t.loom && x.pid = t.pid && x.tid = tid) with
  | some x => simp only [h1] at h; cases h; exact List.mem_of_find?_eq_some h1
  | none => simp only [h1] at h; exact List.mem_of_find?_eq_some h

theorem WF.getElem?_of_mem {e : Emu} (h : WF e) {r : Thread} (hr : r ∈ e.threads) :
    e.threads[r.gindex]? = some r := by
  obtain ⟨i, hi⟩ := List.mem_iff_getElem?.mp hr
  rw [(h.th i r hi).gidx]; exact hi

/-- OAr: the target thread must have started and not be dead; it is bound to the named CPU,
    provided that is not the CPU it already has -/
theorem preAffinityRemote_verdict {e : Emu} (h : WF e) {ti : Nat} {t : Thread} (ht : e.threads[ti]? = some t)
    {payload : List Nat} {ci : Nat} {r : Thread} (hlen : payload.length = 8)
    (hr : findRemote e t (i32At payload 1) = some r)
    (hci : loomGetCpu e t.loom (i32At payload 0) = some ci) (hdiff : r.cpu ≠ some ci) :
    Verdict e r.gindex (if r.state = .dead ∨ r.state = .unknown then none else some (r.state, some ci))
      (preAffinityRemote e ti payload) := by
  have hrt := h.getElem?_of_mem (findRemote_mem hr)
  have hth := h.th _ r hrt
  unfold preAffinityRemote
  have hl : ¬ payload.length ≠ 8 := by simp [hlen]
  simp only [ht, hl, if_false, hr]
  by_cases hd : r.state = .dead
  · simp only [hd, if_true, true_or]; exact ⟨_, rfl⟩
  by_cases hu : r.state = .unknown
  · simp only [hd, hu, if_true, if_false, or_true]; exact ⟨_, rfl⟩
  simp only [hd, hu, if_false, or_self]
  cases hcpu : r.cpu with
  | none =>
    rcases hth.cpuIff.mp hcpu with h' | h'
    · exact absurd h' hu
    · exact absurd h' hd
  | some cur =>
    simp only [hci]
    obtain ⟨ct, hct, _⟩ := loomGetCpu_some h hci
    have hne : cur ≠ ci := by intro h'; apply hdiff; rw [hcpu, h']
    exact migrate_outcome h hrt hcpu hne hct

/-- The model (like the implementation) rejects a remote affinity change whose target is the
    CPU the thread is already bound to. -/
theorem preAffinityRemote_same_cpu_err {e : Emu} (h : WF e) {ti : Nat} {t : Thread}
    (ht : e.threads[ti]? = some t) {payload : List Nat} {ci : Nat} {r : Thread}
    (hr : findRemote e t (i32At payload 1) = some r)
    (hci : loomGetCpu e t.loom (i32At payload 0) = some ci) (hsame : r.cpu = some ci) :
    ∃ err, preAffinityRemote e ti payload = .error err := by
  have hrt := h.getElem?_of_mem (findRemote_mem hr)
  unfold preAffinityRemote
  simp only [ht]
  by_cases hl : payload.length ≠ 8
  · rw [if_pos hl]; exact ⟨_, rfl⟩
  rw [if_neg hl]
  simp only [hr]
  by_cases hd : r.state = .dead
  · simp only [hd, if_true]; exact ⟨_, rfl⟩
  by_cases hu : r.state = .unknown
  · simp only [hd, hu, if_true, if_false]; exact ⟨_, rfl⟩
  simp only [hd, hu, if_false, hsame, hci]
  exact migrate_same_cpu_err h hrt hsame


theorem findSpec_ovni : ∃ s, findSpec 79 = some s := ⟨specOvni, rfl⟩

variable (th mh : Emu → Nat → Nat → Nat → List Nat → Except Err Emu)

theorem modelEvent_ovni {e : Emu} (hen : e.enabled.contains 79 = true) (ti c v : Nat) (payload : List Nat) :
    modelEvent e ti 79 c v payload th mh = ovniEvent e ti c v payload (fun e ti v p => mh e ti c v p) := by
  obtain ⟨s, hs⟩ := findSpec_ovni
  unfold modelEvent
  simp only [hs, hen]
  rfl

theorem modelEvent_OH {e : Emu} (h : WF e) (hen : e.enabled.contains 79 = true) {ti : Nat} {t : Thread}
    (ht : e.threads[ti]? = some t) (v : Nat) (payload : List Nat) :
    modelEvent e ti 79 72 v payload th mh = preThread e ti v payload := by
  rw [modelEvent_ovni th mh hen]
  unfold ovniEvent
  simp only [ht, (h.th ti t ht).inCpu]
  rfl

theorem modelEvent_OAs {e : Emu} (h : WF e) (hen : e.enabled.contains 79 = true) {ti : Nat} {t : Thread}
    (ht : e.threads[ti]? = some t) (payload : List Nat) :
    modelEvent e ti 79 65 115 payload th mh = preAffinitySet e ti payload := by
  rw [modelEvent_ovni th mh hen]
  unfold ovniEvent
  simp only [ht, (h.th ti t ht).inCpu]
  rfl

theorem modelEvent_OAr {e : Emu} (h : WF e) (hen : e.enabled.contains 79 = true) {ti : Nat} {t : Thread}
    (ht : e.threads[ti]? = some t) (payload : List Nat) :
    modelEvent e ti 79 65 114 payload th mh = preAffinityRemote e ti payload := by
  rw [modelEvent_ovni th mh hen]
  unfold ovniEvent
  simp only [ht, (h.th ti t ht).inCpu]
  rfl

theorem modelEvent_nothread {e : Emu} (hen : e.enabled.contains 79 = true) {ti : Nat}
    (ht : e.threads[ti]? = none) (c v : Nat) (payload : List Nat) :
    modelEvent e ti 79 c v payload th mh = .error .other := by
  rw [modelEvent_ovni th mh hen]
  unfold ovniEvent
  simp only [ht]
  rfl


/-! ### `finish` -/

theorem finish_ok_iff (e : Emu) :
    finish e = .ok () ↔ (∀ t ∈ e.threads, t.state = .dead) ∧ (e.lint && lintOpen e) = false := by
  unfold finish
  by_cases h1 : e.threads.any (fun t => t.state ≠ .dead) = true
  · simp only [h1, if_true]
    constructor
    · intro h; cases h
    · rintro ⟨h, _⟩
      rw [List.any_eq_true] at h1
      obtain ⟨t, ht, hd⟩ := h1
      simp [h t ht] at hd
  · simp only [h1, if_false]
    have hall : ∀ t ∈ e.threads, t.state = .dead := by
      intro t ht
      rw [List.any_eq_true] at h1
      by_cases hd : t.state = .dead
      · exact hd
      · exact absurd ⟨t, ht, by simp [hd]⟩ h1
    by_cases h2 : (e.lint && lintOpen e) = true
    · simp only [h2, if_true]
      constructor
      · intro h; cases h
      · rintro ⟨_, h⟩; cases h
    · simp only [h2, if_false]
      exact ⟨fun _ => ⟨hall, by simp at h2; simp [h2]⟩, fun _ => rfl⟩

/-- the lint predicate of one thread, as a function of its static part -/
def lintQ (m i : Nat) (k : List (Nat × List (List Value))) : Bool :=
  match (k.find? (·.1 == m)).map (·.2) with
  | some vs => decide ((vs.getD i []).length > 0)
  | none => false

theorem getD_map_vals (cs : List Chan) (i : Nat) : (cs.map Chan.vals).getD i [] = (cs.getD i {}).vals := by
  simp only [List.getD_eq_getElem?_getD, List.getElem?_map]
  cases cs[i]? <;> rfl

theorem lintP_eq (m i : Nat) (t : Thread) :
    (match t.getChans m with
      | some cs => decide ((cs.getD i {}).vals.length > 0)
      | none => false) = lintQ m i t.static.2.2.2.2.2 := by
  unfold lintQ Thread.getChans Thread.static
  simp only [List.find?_map]
  have : ((fun x : Nat × List (List Value) => x.1 == m) ∘ fun x : Nat × List Chan => (x.1, x.2.map Chan.vals)) =
      (fun x : Nat × List Chan => x.1 == m) := rfl
  rw [this]
  cases t.mch.find? (fun x => x.1 == m) with
  | none => rfl
  | some x => simp only [Option.map_some]; rw [getD_map_vals]

theorem lintOpen_static {e e' : Emu} (h : SameStatic e e') : lintOpen e' = lintOpen e := by
  unfold lintOpen
  rw [h.enabled]
  congr 1
  funext spec
  congr 1
  cases spec.lintChan with
  | none => rfl
  | some i =>
    simp only
    have key : ∀ (P : Thread → Bool), (∀ t, P t = lintQ spec.char i t.static.2.2.2.2.2) → ∀ a : Emu,
        a.threads.any P = (a.threads.map Thread.static).any (fun s => lintQ spec.char i s.2.2.2.2.2) := by
      intro P hP a
      rw [List.any_map]
      congr 1
      funext t
      exact hP t
    refine Eq.trans (key _ (fun t => lintP_eq spec.char i t) e') (Eq.trans ?_
      (key _ (fun t => lintP_eq spec.char i t) e).symm)
    rw [h.threads]


/-! ### static lookups are invariant -/

theorem find_static (cpus cpus' : List Cpu) (h : cpus'.map Cpu.static = cpus.map Cpu.static)
    (p : Nat × Nat × Int × Bool → Bool) :
    (cpus'.find? (fun c => p c.static)).map (·.gindex) = (cpus.find? (fun c => p c.static)).map (·.gindex) := by
  have key : ∀ l : List Cpu, (l.find? (fun c => p c.static)).map (·.gindex) =
      ((l.map Cpu.static).find? p).map (·.1) := by
    intro l
    rw [List.find?_map]
    show Option.map _ (l.find? (p ∘ Cpu.static)) = _
    cases l.find? (p ∘ Cpu.static) <;> rfl
  rw [key, key, h]

theorem loomGetCpu_static {e e' : Emu} (h : SameStatic e e') (loom : Nat) (index : Int) :
    loomGetCpu e' loom index = loomGetCpu e loom index := by
  unfold loomGetCpu
  by_cases hi : index = -1
  · simp only [hi, if_true]
    exact find_static e.cpus e'.cpus h.cpus (fun s => s.2.1 = loom && s.2.2.2)
  · simp only [hi, if_false]
    exact find_static e.cpus e'.cpus h.cpus (fun s => s.2.1 = loom && !s.2.2.2 && s.2.2.1 = index)

theorem SameStatic.thread {e e' : Emu} (h : SameStatic e e') {ti : Nat} {t' : Thread}
    (ht : e'.threads[ti]? = some t') : ∃ t, e.threads[ti]? = some t ∧ t'.static = t.static := by
  have h1 : (e'.threads.map Thread.static)[ti]? = some t'.static := by rw [List.getElem?_map, ht]; rfl
  rw [h.threads, List.getElem?_map] at h1
  cases hb : e.threads[ti]? with
  | none => rw [hb] at h1; cases h1
  | some t => rw [hb] at h1; exact ⟨t, rfl, by simpa using h1.symm⟩

theorem SameStatic.symm {e e' : Emu} (h : SameStatic e e') : SameStatic e' e :=
  ⟨h.cpus.symm, h.threads.symm, h.enabled.symm, h.lint.symm, h.extra.symm⟩

theorem static_loom {t t' : Thread} (h : t'.static = t.static) : t'.loom = t.loom := by
  have : t'.static.2.2.2.1 = t.static.2.2.2.1 := by rw [h]
  exact this

theorem static_tid {t t' : Thread} (h : t'.static = t.static) : t'.tid = t.tid := by
  have : t'.static.2.1 = t.static.2.1 := by rw [h]
  exact this


/-! ### inversion: what an accepted event must have carried -/

theorem preThreadExecute_ok_inv {e e1 : Emu} {ti : Nat} {t : Thread} (ht : e.threads[ti]? = some t)
    {payload : List Nat} (h : preThreadExecute e ti payload = .ok e1) :
    4 ≤ payload.length ∧ ∃ ci, loomGetCpu e t.loom (i32At payload 0) = some ci := by
  unfold preThreadExecute at h
  simp only [ht] at h
  by_cases h1 : t.state = .running
  · simp only [h1, if_true] at h; cases h
  by_cases h2 : payload.length < 4
  · simp only [h1, h2, if_true, if_false] at h; cases h
  cases h3 : loomGetCpu e t.loom (i32At payload 0) with
  | none => simp only [h1, h2, h3, if_false] at h; cases h
  | some ci => exact ⟨by omega, ci, rfl⟩

theorem preAffinitySet_ok_inv {e e1 : Emu} {ti : Nat} {t : Thread} (ht : e.threads[ti]? = some t)
    {payload : List Nat} (h : preAffinitySet e ti payload = .ok e1) :
    payload.length = 4 ∧ ∃ ci, loomGetCpu e t.loom (i32At payload 0) = some ci := by
  unfold preAffinitySet at h
  simp only [ht] at h
  cases hcpu : t.cpu with
  | none => simp only [hcpu] at h; cases h
  | some cur =>
    simp only [hcpu] at h
    by_cases h1 : (!t.state.isActive) = true
    · simp only [h1, if_true] at h; cases h
    by_cases h2 : payload.length ≠ 4
    · rw [if_neg h1, if_pos h2] at h; cases h
    cases h3 : loomGetCpu e t.loom (i32At payload 0) with
    | none => rw [if_neg h1, if_neg h2] at h; simp only [h3] at h; cases h
    | some ci => exact ⟨by simpa using h2, ci, rfl⟩

theorem preAffinityRemote_ok_inv {e e1 : Emu} {ti : Nat} {t : Thread} (ht : e.threads[ti]? = some t)
    {payload : List Nat} (h : preAffinityRemote e ti payload = .ok e1) :
    payload.length = 8 ∧ ∃ r ci, findRemote e t (i32At payload 1) = some r ∧
      loomGetCpu e t.loom (i32At payload 0) = some ci := by
  unfold preAffinityRemote at h
  simp only [ht] at h
  by_cases h2 : payload.length ≠ 8
  · rw [if_pos h2] at h; cases h
  rw [if_neg h2] at h
  cases hr : findRemote e t (i32At payload 1) with
  | none => simp only [hr] at h; cases h
  | some r =>
    simp only [hr] at h
    by_cases hd : r.state = .dead
    · simp only [hd, if_true] at h; cases h
    by_cases hu : r.state = .unknown
    · simp only [hd, hu, if_true, if_false] at h; cases h
    simp only [hd, hu, if_false] at h
    cases hcpu : r.cpu with
    | none => simp only [hcpu] at h; cases h
    | some cur =>
      simp only [hcpu] at h
      cases h3 : loomGetCpu e t.loom (i32At payload 0) with
      | none => simp only [h3] at h; cases h
      | some ci => exact ⟨by simpa using h2, r, ci, rfl, rfl⟩


end Ovni.Emu
