import OvniModel.Lemmas.PvPcf

/-
  C13 text level: the event-type section of a .pcf reads back
  (`parsePcfTypes (pcfText p) = some …`), and which (type, value) pairs the
  emulator puts into thread.pcf.
-/
namespace Ovni.Emu.PvText
open Ovni.Emu Ovni.Generated

/-! ### well-formedness -/

/-- **What the round trip needs**: no label contains a newline.  Nothing else:
    labels may be empty, begin or end with blanks, contain digits, be equal to
    `EVENT_TYPE` or `VALUES`; ids and values are arbitrary; ids may repeat.
    - a newline in a type label: the rest of the label is read where `VALUES`
      is expected and the file is unreadable (`rt_fails_type_label`);
    - a newline in a value label: the rest of the label is read as a value
      line, or ends the block if it is empty (`rt_fails_value_label`,
      `rt_truncates_value_label`). -/
def PcfWf (p : Pcf) : Prop := ∀ t ∈ p, '\n' ∉ t.label ∧ ∀ v ∈ t.values, '\n' ∉ v.2

instance (p : Pcf) : Decidable (PcfWf p) := by unfold PcfWf; infer_instance

/-- what the reader returns for a structure -/
def pcfBlocks (p : Pcf) : List PcfBlock := p.map fun t => (t.id, t.label, t.values)

theorem rt_fails_type_label :
    parsePcfTypes (pcfText [{ id := 1, label := ['a', '\n', 'b'] }]) = none := by decide +kernel

theorem rt_fails_value_label :
    parsePcfTypes (pcfText [{ id := 1, label := ['a'], values := [(1, ['x', '\n', 'y'])] }]) = none := by
  decide +kernel

/-- a value label with a blank second line silently ends the block: the file
    is readable but a value is lost -/
theorem rt_truncates_value_label :
    parsePcfTypes (pcfText [{ id := 1, label := ['a'], values := [(1, ['x', '\n']), (2, ['y'])] }]) =
      some [(1, ['a'], [(1, ['x'])])] := by decide +kernel

/-! ### lines -/

/-- the blanks of `%-Wd ` and the label -/
def padLabel (w : Nat) (num label : Text) : Text := List.replicate (w - num.length) ' ' ++ ' ' :: label

/-- the line of a type without its newline -/
def typeLineBody (id : Nat) (label : Text) : Text := ['0', ' '] ++ (natDec id ++ padLabel 10 (natDec id) label)

/-- the line of a value without its newline -/
def valueLineBody (v : Int × Text) : Text := intDec v.1 ++ padLabel 4 (intDec v.1) v.2

theorem pcfTypeLine_eq (id : Nat) (label : Text) : pcfTypeLine id label = typeLineBody id label ++ ['\n'] := by
  simp only [pcfTypeLine, typeLineBody, padLabel, padRight, List.append_assoc, List.cons_append, List.nil_append]

theorem pcfValueLine_eq (v : Int × Text) : pcfValueLine v = valueLineBody v ++ ['\n'] := by
  simp only [pcfValueLine, valueLineBody, padLabel, padRight, List.append_assoc, List.cons_append, List.nil_append]

theorem padLabel_head (w : Nat) (num label : Text) : ∀ c r, padLabel w num label = c :: r → c.isDigit = false := by
  intro c r h
  unfold padLabel at h
  cases hk : w - num.length with
  | zero => rw [hk] at h; cases h; decide
  | succ k => rw [hk, List.replicate_succ] at h; cases h; decide

theorem padLabel_no_nl (w : Nat) (num label : Text) (h : '\n' ∉ label) : '\n' ∉ padLabel w num label := by
  unfold padLabel
  intro hm
  rcases List.mem_append.mp hm with hm | hm
  · exact absurd (List.mem_replicate.mp hm).2 (by decide)
  · rcases List.mem_cons.mp hm with hm | hm
    · revert hm; decide
    · exact h hm

theorem skipPad_padLabel (w : Nat) (num label : Text) : skipPad w num.length (padLabel w num label) = some label := by
  unfold skipPad padLabel
  have e : List.replicate (w - num.length) ' ' ++ ' ' :: label =
      (List.replicate (w - num.length) ' ' ++ [' ']) ++ label := by simp
  rw [e, expect_append]

theorem parsePcfTypeLine_body (id : Nat) (label : Text) :
    parsePcfTypeLine (typeLineBody id label) = some (id, label) := by
  unfold parsePcfTypeLine typeLineBody
  rw [expect_append]
  simp only
  rw [readNat_natDec id _ (padLabel_head _ _ _)]
  simp only
  have e : (natDec id ++ padLabel 10 (natDec id) label).length - (padLabel 10 (natDec id) label).length =
      (natDec id).length := by rw [List.length_append]; omega
  rw [e, skipPad_padLabel]
  rfl

theorem parsePcfValueLine_body (v : Int × Text) : parsePcfValueLine (valueLineBody v) = some v := by
  unfold parsePcfValueLine valueLineBody
  rw [readInt_intDec v.1 _ (padLabel_head _ _ _)]
  simp only
  have e : (intDec v.1 ++ padLabel 4 (intDec v.1) v.2).length - (padLabel 4 (intDec v.1) v.2).length =
      (intDec v.1).length := by rw [List.length_append]; omega
  rw [e, skipPad_padLabel]
  rfl

theorem typeLineBody_no_nl (id : Nat) (label : Text) (h : '\n' ∉ label) : '\n' ∉ typeLineBody id label := by
  unfold typeLineBody
  intro hm
  rcases List.mem_append.mp hm with hm | hm
  · revert hm; decide
  · rcases List.mem_append.mp hm with hm | hm
    · exact natDec_no_nl _ hm
    · exact padLabel_no_nl _ _ _ h hm

theorem valueLineBody_no_nl (v : Int × Text) (h : '\n' ∉ v.2) : '\n' ∉ valueLineBody v := by
  unfold valueLineBody
  intro hm
  rcases List.mem_append.mp hm with hm | hm
  · exact intDec_no_nl _ hm
  · exact padLabel_no_nl _ _ _ h hm

/-- a value line begins with a digit or a minus sign -/
theorem valueLineBody_head (v : Int × Text) : ∃ d t, valueLineBody v = d :: t ∧ d ≠ 'E' := by
  obtain ⟨i, l⟩ := v
  unfold valueLineBody
  cases i with
  | ofNat n =>
    show ∃ d t, natDec n ++ _ = d :: t ∧ d ≠ 'E'
    cases h : natDec n with
    | nil => exact absurd h (natDec_ne_nil n)
    | cons d ds =>
      refine ⟨d, _, rfl, ?_⟩
      intro e
      have := natDec_digits n d (by rw [h]; simp)
      rw [e] at this; revert this; decide
  | negSucc n => exact ⟨'-', _, rfl, by decide⟩

theorem litEventType_head : ∃ t, litEventType = 'E' :: t := ⟨"VENT_TYPE".toList, by decide⟩

theorem valueLineBody_ne (v : Int × Text) : valueLineBody v ≠ [] ∧ valueLineBody v ≠ litEventType := by
  obtain ⟨d, t, e, hd⟩ := valueLineBody_head v
  obtain ⟨t', e'⟩ := litEventType_head
  rw [e, e']
  exact ⟨by simp, fun h => hd (List.cons.inj h).1⟩

theorem typeLineBody_ne (id : Nat) (label : Text) : typeLineBody id label ≠ litEventType := by
  obtain ⟨t', e'⟩ := litEventType_head
  rw [e']
  intro h
  exact absurd (List.cons.inj h).1 (by decide)

theorem litValues_facts : '\n' ∉ litValues ∧ litValues ≠ litEventType ∧ ([] : Text) ≠ litEventType := by decide

/-- the lines of the block of a type: two blank lines (the first one ends
    whatever came before), `EVENT_TYPE`, the type, `VALUES`, the values -/
def blockLines (t : PcfType) : List Text :=
  [] :: [] :: litEventType :: typeLineBody t.id t.label :: litValues :: t.values.map valueLineBody

theorem splitNl_values (vs : List (Int × Text)) (rest : Text) (h : ∀ v ∈ vs, '\n' ∉ v.2) :
    splitNl (vs.flatMap pcfValueLine ++ rest) = vs.map valueLineBody ++ splitNl rest := by
  induction vs with
  | nil => rfl
  | cons v r ih =>
    rw [List.flatMap_cons, pcfValueLine_eq, List.append_assoc, List.append_assoc, List.singleton_append,
      splitNl_line _ _ (valueLineBody_no_nl v (h v (by simp))), ih (fun x hx => h x (by simp [hx]))]
    rfl

theorem pcfTypeText_append (t : PcfType) (rest : Text) :
    pcfTypeText t ++ rest = [] ++ '\n' :: ([] ++ '\n' :: (litEventType ++ '\n' ::
      (typeLineBody t.id t.label ++ '\n' :: (litValues ++ '\n' :: (t.values.flatMap pcfValueLine ++ rest))))) := by
  simp only [pcfTypeText, pcfTypeLine_eq, List.append_assoc, List.cons_append, List.nil_append]

theorem splitNl_types (p : Pcf) (h : PcfWf p) :
    splitNl (p.flatMap pcfTypeText) = p.flatMap blockLines ++ [[]] := by
  induction p with
  | nil => rfl
  | cons t r ih =>
    have ht := h t (by simp)
    rw [List.flatMap_cons, pcfTypeText_append, splitNl_line _ _ (by simp), splitNl_line _ _ (by simp),
      splitNl_line _ _ litEventType_no_nl, splitNl_line _ _ (typeLineBody_no_nl _ _ ht.1),
      splitNl_line _ _ litValues_facts.1, splitNl_values _ _ ht.2, ih (fun x hx => h x (by simp [hx]))]
    simp only [List.flatMap_cons, blockLines, List.cons_append, List.append_assoc]

/-! ### the reader on those lines -/

theorem parsePcfLines_skip (A B : List Text) (h : ∀ l ∈ A, l ≠ litEventType) :
    parsePcfLines (A ++ B) = parsePcfLines B := by
  induction A with
  | nil => rfl
  | cons a r ih =>
    rw [List.cons_append, parsePcfLines, if_neg (h a (by simp)), ih (fun x hx => h x (by simp [hx]))]

theorem pcfValueLines_body (vs : List (Int × Text)) (R : List Text) :
    pcfValueLines (vs.map valueLineBody ++ [] :: R) = some vs := by
  induction vs with
  | nil => simp [pcfValueLines]
  | cons v r ih =>
    rw [List.map_cons, List.cons_append, pcfValueLines, if_neg (valueLineBody_ne v).1, parsePcfValueLine_body, ih]

/-- the lines of the blocks, then the empty piece after the last newline,
    begin with a blank line -/
theorem blocks_head (p : Pcf) : ∃ R, p.flatMap blockLines ++ [[]] = [] :: R := by
  cases p with
  | nil => exact ⟨[], rfl⟩
  | cons t r => exact ⟨_, by simp only [List.flatMap_cons, blockLines, List.cons_append]; rfl⟩

theorem parsePcfLines_blocks (p : Pcf) : parsePcfLines (p.flatMap blockLines ++ [[]]) = some (pcfBlocks p) := by
  induction p with
  | nil => simp [parsePcfLines, pcfBlocks, litValues_facts.2.2]
  | cons t r ih =>
    obtain ⟨R, hR⟩ := blocks_head r
    have e : (t :: r).flatMap blockLines ++ [[]] =
        [] :: [] :: litEventType :: ([typeLineBody t.id t.label, litValues] ++ t.values.map valueLineBody ++
          (r.flatMap blockLines ++ [[]])) := by
      simp only [List.flatMap_cons, blockLines, List.cons_append, List.append_assoc, List.nil_append]
    have hskip : parsePcfLines ([typeLineBody t.id t.label, litValues] ++ t.values.map valueLineBody ++
          (r.flatMap blockLines ++ [[]])) = some (pcfBlocks r) := by
      rw [parsePcfLines_skip _ _ (by
        intro l hl
        rcases List.mem_append.mp hl with hl | hl
        · rcases List.mem_cons.mp hl with rfl | hl
          · exact typeLineBody_ne _ _
          · rcases List.mem_cons.mp hl with rfl | hl
            · exact litValues_facts.2.1
            · cases hl
        · obtain ⟨v, _, rfl⟩ := List.mem_map.mp hl
          exact (valueLineBody_ne v).2), ih]
    have hblock : parsePcfBlock ([typeLineBody t.id t.label, litValues] ++ t.values.map valueLineBody ++
          (r.flatMap blockLines ++ [[]])) = some (t.id, t.label, t.values) := by
      rw [hR]
      simp only [List.cons_append, List.nil_append, parsePcfBlock, if_true, parsePcfTypeLine_body,
        pcfValueLines_body]
    rw [e, parsePcfLines, if_neg litValues_facts.2.2, parsePcfLines, if_neg litValues_facts.2.2, parsePcfLines,
      if_pos rfl, hblock, hskip]
    rfl

/-! ### the header and the colours are skipped -/

/-- header and colours end with a newline … -/
theorem pcfHead_last : (pcfHeader ++ pcfColors).getLast? = some '\n' := by decide +kernel

theorem pcfHead_ends_nl : pcfHeader ++ pcfColors = (pcfHeader ++ pcfColors).dropLast ++ ['\n'] :=
  by
  obtain ⟨ys, e⟩ := List.getLast?_eq_some_iff.mp pcfHead_last
  rw [e, List.dropLast_concat]

/-- … and none of their lines is `EVENT_TYPE` -/
theorem pcfHead_no_event_type : ∀ l ∈ splitNl (pcfHeader ++ pcfColors).dropLast, l ≠ litEventType := by
  decide +kernel

/-- **Round trip of the event-type section of a .pcf.** -/
theorem parsePcfTypes_pcfText (p : Pcf) (h : PcfWf p) : parsePcfTypes (pcfText p) = some (pcfBlocks p) := by
  unfold parsePcfTypes pcfText
  obtain ⟨a, b, h1, h2⟩ := splitNl_append_nl (pcfHeader ++ pcfColors).dropLast (p.flatMap pcfTypeText)
  rw [pcfHead_ends_nl, List.append_assoc, List.singleton_append, h2, ← h1, splitNl_types p h,
    parsePcfLines_skip _ _ pcfHead_no_event_type, parsePcfLines_blocks]

end Ovni.Emu.PvText
