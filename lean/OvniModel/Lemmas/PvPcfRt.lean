import OvniModel.Lemmas.PvPcf

/-
  C13 text level: the event-type section of a .pcf reads back
  (`parsePcfTypes (pcfText p) = some …`), and which (type, value) pairs the
  emulator puts into thread.pcf.
-/
namespace Ovni.Emu.PvText
open Ovni.Emu Ovni.Generated

/-! ### well-formedness -/

/-- **What the round trip needs**: no label contains a newline.  Nothing else:
    labels may be empty, begin or end with blanks, contain digits, be equal to
    `EVENT_TYPE` or `VALUES`; ids and values are arbitrary; ids may repeat.
    - a newline in a type label: the rest of the label is read where `VALUES`
      is expected and the file is unreadable (`rt_fails_type_label`);
    - a newline in a value label: the rest of the label is read as a value
      line, or ends the block if it is empty (`rt_fails_value_label`,
      `rt_truncates_value_label`). -/
def PcfWf (p : Pcf) : Prop := ∀ t ∈ p, '\n' ∉ t.label ∧ ∀ v ∈ t.values, '\n' ∉ v.2

instance (p : Pcf) : Decidable (PcfWf p) := by unfold PcfWf; infer_instance

/-- what the reader returns for a structure -/
def pcfBlocks (p : Pcf) : List PcfBlock := p.map fun t => (t.id, t.label, t.values)

theorem rt_fails_type_label :
    parsePcfTypes (pcfText [{ id := 1, label := ['a', '\n', 'b'] }]) = none := by decide +kernel

theorem rt_fails_value_label :
    parsePcfTypes (pcfText [{ id := 1, label := ['a'], values := [(1, ['x', '\n', 'y'])] }]) = none := by
  decide +kernel

/-- a value label with a blank second line silently ends the block: the file
    is readable but a value is lost -/
theorem rt_truncates_value_label :
    parsePcfTypes (pcfText [{ id := 1, label := ['a'], values := [(1, ['x', '\n']), (2, ['y'])] }]) =
      some [(1, ['a'], [(1, ['x'])])] := by decide +kernel

/-! ### lines -/

/-- the blanks of `%-Wd ` and the label -/
def padLabel (w : Nat) (num label : Text) : Text := List.replicate (w - num.length) ' ' ++ ' ' :: label

/-- the line of a type without its newline -/
def typeLineBody (id : Nat) (label : Text) : Text := ['0', ' '] ++ (natDec id ++ padLabel 10 (natDec id) label)

/-- the line of a value without its newline -/
def valueLineBody (v : Int × Text) : Text := intDec v.1 ++ padLabel 4 (intDec v.1) v.2

theorem pcfTypeLine_eq (id : Nat) (label : Text) : pcfTypeLine id label = typeLineBody id label ++ ['\n'] := by
  simp only [pcfTypeLine, typeLineBody, padLabel, padRight, List.append_assoc, List.cons_append, List.nil_append]

theorem pcfValueLine_eq (v : Int × Text) : pcfValueLine v = valueLineBody v ++ ['\n'] := by
  simp only [pcfValueLine, valueLineBody, padLabel, padRight, List.append_assoc, List.cons_append, List.nil_append]

theorem padLabel_head (w : Nat) (num label : Text) : ∀ c r, padLabel w num label = c :: r → c.isDigit = false := by
  intro c r h
  unfold padLabel at h
  cases hk : w - num.length with
  | zero => rw [hk] at h; cases h; decide
  | succ k => rw [hk, List.replicate_succ] at h; cases h; decide

theorem padLabel_no_nl (w : Nat) (num label : Text) (h : '\n' ∉ label) : '\n' ∉ padLabel w num label := by
  unfold padLabel
  intro hm
  rcases List.mem_append.mp hm with hm | hm
  · exact absurd (List.mem_replicate.mp hm).2 (by decide)
  · rcases List.mem_cons.mp hm with hm | hm
    · revert hm; decide
    · exact h hm

theorem skipPad_padLabel (w : Nat) (num label : Text) : skipPad w num.length (padLabel w num label) = some label := by
  unfold skipPad padLabel
  have e : List.replicate (w - num.length) ' ' ++ ' ' :: label =
      (List.replicate (w - num.length) ' ' ++ [' ']) ++ label := by simp
  rw [e, expect_append]

theorem parsePcfTypeLine_body (id : Nat) (label : Text) :
    parsePcfTypeLine (typeLineBody id label) = some (id, label) := by
  unfold parsePcfTypeLine typeLineBody
  rw [expect_append]
  simp only
  rw [readNat_natDec id _ (padLabel_head _ _ _)]
  simp only
  have e : (natDec id ++ padLabel 10 (natDec id) label).length - (padLabel 10 (natDec id) label).length =
      (natDec id).length := by rw [List.length_append]; omega
  rw [e, skipPad_padLabel]
  rfl

theorem parsePcfValueLine_body (v : Int × Text) : parsePcfValueLine (valueLineBody v) = some v := by
  unfold parsePcfValueLine valueLineBody
  rw [readInt_intDec v.1 _ (padLabel_head _ _ _)]
  simp only
  have e : (intDec v.1 ++ padLabel 4 (intDec v.1) v.2).length - (padLabel 4 (intDec v.1) v.2).length =
      (intDec v.1).length := by rw [List.length_append]; omega
  rw [e, skipPad_padLabel]
  rfl

theorem typeLineBody_no_nl (id : Nat) (label : Text) (h : '\n' ∉ label) : '\n' ∉ typeLineBody id label := by
  unfold typeLineBody
  intro hm
  rcases List.mem_append.mp hm with hm | hm
  · revert hm; decide
  · rcases List.mem_append.mp hm with hm | hm
    · exact natDec_no_nl _ hm
    · exact padLabel_no_nl _ _ _ h hm

theorem valueLineBody_no_nl (v : Int × Text) (h : '\n' ∉ v.2) : '\n' ∉ valueLineBody v := by
  unfold valueLineBody
  intro hm
  rcases List.mem_append.mp hm with hm | hm
  · exact intDec_no_nl _ hm
  · exact padLabel_no_nl _ _ _ h hm

/-- a value line begins with a digit or a minus sign -/
theorem valueLineBody_head (v : Int × Text) : ∃ d t, valueLineBody v = d :: t ∧ d ≠ 'E' := by
  obtain ⟨i, l⟩ := v
  unfold valueLineBody
  cases i with
  | ofNat n =>
    show ∃ d t, natDec n ++ _ = d :: t ∧ d ≠ 'E'
    cases h : natDec n with
    | nil => exact absurd h (natDec_ne_nil n)
    | cons d ds =>
      refine ⟨d, _, rfl, ?_⟩
      intro e
      have := natDec_digits n d (by rw [h]; simp)
      rw [e] at this; revert this; decide
  | negSucc n => exact ⟨'-', _, rfl, by decide⟩

theorem litEventType_head : ∃ t, litEventType = 'E' :: t := ⟨"VENT_TYPE".toList, by decide⟩

theorem valueLineBody_ne (v : Int × Text) : valueLineBody v ≠ [] ∧ valueLineBody v ≠ litEventType := by
  obtain ⟨d, t, e, hd⟩ := valueLineBody_head v
  obtain ⟨t', e'⟩ := litEventType_head
  rw [e, e']
  exact ⟨by simp, fun h => hd (List.cons.inj h).1⟩

theorem typeLineBody_ne (id : Nat) (label : Text) : typeLineBody id label ≠ litEventType := by
  obtain ⟨t', e'⟩ := litEventType_head
  rw [e']
  intro h
  exact absurd (List.cons.inj h).1 (by decide)

theorem litValues_facts : '\n' ∉ litValues ∧ litValues ≠ litEventType ∧ ([] : Text) ≠ litEventType := by decide

/-- the lines of the block of a type: two blank lines (the first one ends
    whatever came before), `EVENT_TYPE`, the type, `VALUES`, the values -/
def blockLines (t : PcfType) : List Text :=
  [] :: [] :: litEventType :: typeLineBody t.id t.label :: litValues :: t.values.map valueLineBody

theorem splitNl_values (vs : List (Int × Text)) (rest : Text) (h : ∀ v ∈ vs, '\n' ∉ v.2) :
    splitNl (vs.flatMap pcfValueLine ++ rest) = vs.map valueLineBody ++ splitNl rest := by
  induction vs with
  | nil => rfl
  | cons v r ih =>
    rw [List.flatMap_cons, pcfValueLine_eq, List.append_assoc, List.append_assoc, List.singleton_append,
      splitNl_line _ _ (valueLineBody_no_nl v (h v (by simp))), ih (fun x hx => h x (by simp [hx]))]
    rfl

theorem pcfTypeText_append (t : PcfType) (rest : Text) :
    pcfTypeText t ++ rest = [] ++ '\n' :: ([] ++ '\n' :: (litEventType ++ '\n' ::
      (typeLineBody t.id t.label ++ '\n' :: (litValues ++ '\n' :: (t.values.flatMap pcfValueLine ++ rest))))) := by
  simp only [pcfTypeText, pcfTypeLine_eq, List.append_assoc, List.cons_append, List.nil_append]

theorem splitNl_types (p : Pcf) (h : PcfWf p) :
    splitNl (p.flatMap pcfTypeText) = p.flatMap blockLines ++ [[]] := by
  induction p with
  | nil => rfl
  | cons t r ih =>
    have ht := h t (by simp)
    rw [List.flatMap_cons, pcfTypeText_append, splitNl_line _ _ (by simp), splitNl_line _ _ (by simp),
      splitNl_line _ _ litEventType_no_nl, splitNl_line _ _ (typeLineBody_no_nl _ _ ht.1),
      splitNl_line _ _ litValues_facts.1, splitNl_values _ _ ht.2, ih (fun x hx => h x (by simp [hx]))]
    simp only [List.flatMap_cons, blockLines, List.cons_append, List.append_assoc]

/-! ### the reader on those lines -/

theorem parsePcfLines_skip (A B : List Text) (h : ∀ l ∈ A, l ≠ litEventType) :
    parsePcfLines (A ++ B) = parsePcfLines B := by
  induction A with
  | nil => rfl
  | cons a r ih =>
    rw [List.cons_append, parsePcfLines, if_neg (h a (by simp)), ih (fun x hx => h x (by simp [hx]))]

theorem pcfValueLines_body (vs : List (Int × Text)) (R : List Text) :
    pcfValueLines (vs.map valueLineBody ++ [] :: R) = some vs := by
  induction vs with
  | nil => simp [pcfValueLines]
  | cons v r ih =>
    rw [List.map_cons, List.cons_append, pcfValueLines, if_neg (valueLineBody_ne v).1, parsePcfValueLine_body, ih]

/-- the lines of the blocks, then the empty piece after the last newline,
    begin with a blank line -/
theorem blocks_head (p : Pcf) : ∃ R, p.flatMap blockLines ++ [[]] = [] :: R := by
  cases p with
  | nil => exact ⟨[], rfl⟩
  | cons t r => exact ⟨_, by simp only [List.flatMap_cons, blockLines, List.cons_append]; rfl⟩

theorem parsePcfLines_blocks (p : Pcf) : parsePcfLines (p.flatMap blockLines ++ [[]]) = some (pcfBlocks p) := by
  induction p with
  | nil => simp [parsePcfLines, pcfBlocks, litValues_facts.2.2]
  | cons t r ih =>
    obtain ⟨R, hR⟩ := blocks_head r
    have e : (t :: r).flatMap blockLines ++ [[]] =
        [] :: [] :: litEventType :: ([typeLineBody t.id t.label, litValues] ++ t.values.map valueLineBody ++
          (r.flatMap blockLines ++ [[]])) := by
      simp only [List.flatMap_cons, blockLines, List.cons_append, List.append_assoc, List.nil_append]
    have hskip : parsePcfLines ([typeLineBody t.id t.label, litValues] ++ t.values.map valueLineBody ++
          (r.flatMap blockLines ++ [[]])) = some (pcfBlocks r) := by
      rw [parsePcfLines_skip _ _ (by
        intro l hl
        rcases List.mem_append.mp hl with hl | hl
        · rcases List.mem_cons.mp hl with rfl | hl
          · exact typeLineBody_ne _ _
          · rcases List.mem_cons.mp hl with rfl | hl
            · exact litValues_facts.2.1
            · cases hl
        · obtain ⟨v, _, rfl⟩ := List.mem_map.mp hl
          exact (valueLineBody_ne v).2), ih]
    have hblock : parsePcfBlock ([typeLineBody t.id t.label, litValues] ++ t.values.map valueLineBody ++
          (r.flatMap blockLines ++ [[]])) = some (t.id, t.label, t.values) := by
      rw [hR]
      simp only [List.cons_append, List.nil_append, parsePcfBlock, if_true, parsePcfTypeLine_body,
        pcfValueLines_body]
    rw [e, parsePcfLines, if_neg litValues_facts.2.2, parsePcfLines, if_neg litValues_facts.2.2, parsePcfLines,
      if_pos rfl, hblock, hskip]
    rfl

/-! ### the header and the colours are skipped -/

/-- header and colours end with a newline … -/
theorem pcfHead_last : (pcfHeader ++ pcfColors).getLast? = some '\n' := by decide +kernel

theorem pcfHead_ends_nl : pcfHeader ++ pcfColors = (pcfHeader ++ pcfColors).dropLast ++ ['\n'] :=
  by
  obtain ⟨ys, e⟩ := List.getLast?_eq_some_iff.mp pcfHead_last
  rw [e, List.dropLast_concat]

/-- … and none of their lines is `EVENT_TYPE` -/
theorem pcfHead_no_event_type : ∀ l ∈ splitNl (pcfHeader ++ pcfColors).dropLast, l ≠ litEventType := by
  decide +kernel

/-- **Round trip of the event-type section of a .pcf.** -/
theorem parsePcfTypes_pcfText (p : Pcf) (h : PcfWf p) : parsePcfTypes (pcfText p) = some (pcfBlocks p) := by
  unfold parsePcfTypes pcfText
  obtain ⟨a, b, h1, h2⟩ := splitNl_append_nl (pcfHeader ++ pcfColors).dropLast (p.flatMap pcfTypeText)
  rw [pcfHead_ends_nl, List.append_assoc, List.singleton_append, h2, ← h1, splitNl_types p h,
    parsePcfLines_skip _ _ pcfHead_no_event_type, parsePcfLines_blocks]

/-! ### which (type, value) pairs a structure labels, and what every `pcf_add_*` keeps -/

/-- the structure has a type `id` with a label for `v` -/
def HasVal (p : Pcf) (id : Nat) (v : Int) : Prop := ∃ t ∈ p, t.id = id ∧ ∃ l, (v, l) ∈ t.values

/-- nothing labelled in `p` is lost in `p'` -/
def Ext (p p' : Pcf) : Prop := ∀ id v, HasVal p id v → HasVal p' id v

theorem Ext.refl (p : Pcf) : Ext p p := fun _ _ h => h
theorem Ext.trans {p q r : Pcf} (h1 : Ext p q) (h2 : Ext q r) : Ext p r := fun id v h => h2 id v (h1 id v h)

/-- the values the text labels for a type are those of the structure -/
theorem hasVal_text {p : Pcf} (hwf : PcfWf p) {id : Nat} {v : Int} (h : HasVal p id v) :
    v ∈ pcfValuesOf (pcfText p) id := by
  obtain ⟨t, ht, hid, l, hl⟩ := h
  unfold pcfValuesOf
  rw [parsePcfTypes_pcfText p hwf]
  simp only [List.mem_flatMap, List.mem_filter, List.mem_map]
  refine ⟨(t.id, t.label, t.values), ⟨?_, by simp [hid]⟩, (v, l), hl, rfl⟩
  exact List.mem_map.mpr ⟨t, ht, rfl⟩

theorem pcfAddType_ext {p p' : Pcf} {id : Nat} {label : Text} (h : pcfAddType p id label = .ok p') : Ext p p' := by
  unfold pcfAddType at h
  split at h
  · cases h
  · split at h
    · cases h
    · cases h
      rintro id v ⟨t, ht, r⟩
      exact ⟨t, List.mem_append_left _ ht, r⟩

theorem pcfAddValue_ext {p p' : Pcf} {id : Nat} {v : Int} {label : Text} (h : pcfAddValue p id v label = .ok p') :
    Ext p p' ∧ HasVal p' id v := by
  unfold pcfAddValue at h
  split at h
  · cases h
  · rename_i t hfind
    split at h
    · cases h
    · split at h
      · cases h
      · cases h
        constructor
        · rintro id0 v0 ⟨t0, ht0, hid0, l0, hl0⟩
          refine ⟨_, List.mem_map.mpr ⟨t0, ht0, rfl⟩, ?_, l0, ?_⟩
          · split <;> exact hid0
          · split
            · exact List.mem_append_left _ hl0
            · exact hl0
        · have hmem := List.mem_of_find?_eq_some hfind
          have hid := List.find?_some hfind
          refine ⟨_, List.mem_map.mpr ⟨t, hmem, rfl⟩, ?_, label, ?_⟩
          · rw [if_pos hid]; simpa using hid
          · rw [if_pos hid]; simp

theorem pcfAddValues_ext {id : Nat} : ∀ (vs : List (Int × Text)) {p p' : Pcf},
    pcfAddValues p id vs = .ok p' → Ext p p' ∧ ∀ v ∈ vs, HasVal p' id v.1 := by
  intro vs
  induction vs with
  | nil => intro p p' h; simp only [pcfAddValues, Except.ok.injEq] at h; subst h; exact ⟨Ext.refl _, by simp⟩
  | cons v r ih =>
    intro p p' h
    obtain ⟨v, l⟩ := v
    simp only [pcfAddValues] at h
    cases ha : pcfAddValue p id v l with
    | error e => rw [ha] at h; cases h
    | ok p1 =>
      rw [ha] at h
      obtain ⟨e1, hv⟩ := pcfAddValue_ext ha
      obtain ⟨e2, hr⟩ := ih h
      refine ⟨e1.trans e2, ?_⟩
      intro x hx
      rcases List.mem_cons.mp hx with rfl | hx
      · exact e2 _ _ hv
      · exact hr x hx

theorem pcfCreateType_ext {p p' : Pcf} {type mode : Nat} {pre : String} {vals : List (Int × String)}
    (h : pcfCreateType p type mode pre vals = .ok p') :
    Ext p p' ∧ ∀ v ∈ vals, HasVal p' type v.1 := by
  unfold pcfCreateType at h
  simp only at h
  split at h
  · cases h
  · cases ha : pcfAddType p type (pre.toList ++ [' '] ++ (pcfSuffix mode).toList) with
    | error e => rw [ha] at h; cases h
    | ok p1 =>
      rw [ha] at h
      obtain ⟨e2, hv⟩ := pcfAddValues_ext _ h
      refine ⟨(pcfAddType_ext ha).trans e2, ?_⟩
      intro v hv'
      exact hv (v.1, v.2.toList) (List.mem_map.mpr ⟨v, hv', rfl⟩)

theorem pcfInitModel_ext (types tracks : List Nat) (info : PcfInfo) : ∀ (is : List Nat) {p p' : Pcf},
    pcfInitModel types tracks info is p = .ok p' →
    Ext p p' ∧ ∀ i ∈ is, ∀ v ∈ info.labels.getD i [], HasVal p' (types.getD i 0) v.1 := by
  intro is
  induction is with
  | nil => intro p p' h; simp only [pcfInitModel, Except.ok.injEq] at h; subst h; exact ⟨Ext.refl _, by simp⟩
  | cons i r ih =>
    intro p p' h
    simp only [pcfInitModel] at h
    cases ha : pcfCreateType p (types.getD i 0) (tracks.getD i 0) (info.prefixes.getD i "") (info.labels.getD i []) with
    | error e => rw [ha] at h; cases h
    | ok p1 =>
      rw [ha] at h
      obtain ⟨e1, hv⟩ := pcfCreateType_ext ha
      obtain ⟨e2, hr⟩ := ih h
      refine ⟨e1.trans e2, ?_⟩
      intro j hj
      rcases List.mem_cons.mp hj with rfl | hj
      · intro v hv'; exact e2 _ _ (hv v hv')
      · exact hr j hj

theorem pcfInitMarks_ext : ∀ (ms : List MarkType) {p p' : Pcf}, pcfInitMarks ms p = .ok p' → Ext p p' := by
  intro ms
  induction ms with
  | nil => intro p p' h; simp only [pcfInitMarks, Except.ok.injEq] at h; subst h; exact Ext.refl _
  | cons t r ih =>
    intro p p' h
    simp only [pcfInitMarks] at h
    cases ha : pcfAddType p (prvOvniMark + t.type.toNat) t.title.toList with
    | error e => rw [ha] at h; cases h
    | ok p1 =>
      rw [ha] at h
      simp only at h
      cases hb : pcfAddValues p1 (prvOvniMark + t.type.toNat) (t.labels.map fun v => (v.1, v.2.toList)) with
      | error e => rw [hb] at h; cases h
      | ok p2 =>
        rw [hb] at h
        exact ((pcfAddType_ext ha).trans (pcfAddValues_ext _ hb).1).trans (ih h)

/-- the models: nothing is lost, and every value of the label table of channel
    `i` of an enabled model is labelled under the type of that channel -/
theorem pcfInitModels_ext (cpu : Bool) (marks : List MarkType) : ∀ (ss : List ModelSpec) {p p' : Pcf},
    pcfInitModels cpu marks ss p = .ok p' →
    Ext p p' ∧ ∀ s ∈ ss, s.char ≠ markGroup → ∀ info, pcfInfo s.char = some info → ∀ i < s.nch,
      ∀ v ∈ info.labels.getD i [], HasVal p' ((if cpu then info.cpuType else s.pvtType).getD i 0) v.1 := by
  intro ss
  induction ss with
  | nil => intro p p' h; simp only [pcfInitModels, Except.ok.injEq] at h; subst h; exact ⟨Ext.refl _, by simp⟩
  | cons s r ih =>
    intro p p' h
    simp only [pcfInitModels] at h
    by_cases hm : s.char = markGroup
    · rw [if_pos hm] at h
      cases ha : pcfInitMarks marks p with
      | error e => rw [ha] at h; cases h
      | ok p1 =>
        rw [ha] at h
        obtain ⟨e2, hr⟩ := ih h
        refine ⟨(pcfInitMarks_ext _ ha).trans e2, ?_⟩
        intro s' hs'
        rcases List.mem_cons.mp hs' with rfl | hs'
        · intro hne; exact absurd hm hne
        · exact hr s' hs'
    · rw [if_neg hm] at h
      cases hi : pcfInfo s.char with
      | none => rw [hi] at h; cases h
      | some info =>
        rw [hi] at h
        simp only at h
        cases ha : pcfInitModel (if cpu then info.cpuType else s.pvtType) (if cpu then s.cpuTrack else s.thTrack)
            info (List.range s.nch) p with
        | error e => rw [ha] at h; cases h
        | ok p1 =>
          rw [ha] at h
          obtain ⟨e1, hv⟩ := pcfInitModel_ext _ _ _ _ ha
          obtain ⟨e2, hr⟩ := ih h
          refine ⟨e1.trans e2, ?_⟩
          intro s' hs'
          rcases List.mem_cons.mp hs' with rfl | hs'
          · intro _ info' hinfo' i hi' v hv'
            rw [hi] at hinfo'
            cases hinfo'
            exact e2 _ _ (hv i (List.mem_range.mpr hi') v hv')
          · exact hr s' hs'

theorem pcfSysTypes_ext : ∀ (l : List (Nat × String × List (Int × String))) {p p' : Pcf},
    pcfSysTypes l p = .ok p' → Ext p p' ∧ ∀ x ∈ l, ∀ v ∈ x.2.2, HasVal p' x.1 v.1 := by
  intro l
  induction l with
  | nil => intro p p' h; simp only [pcfSysTypes, Except.ok.injEq] at h; subst h; exact ⟨Ext.refl _, by simp⟩
  | cons x r ih =>
    intro p p' h
    obtain ⟨ty, name, vals⟩ := x
    simp only [pcfSysTypes] at h
    cases ha : pcfAddType p ty name.toList with
    | error e => rw [ha] at h; cases h
    | ok p1 =>
      rw [ha] at h
      simp only at h
      cases hb : pcfAddValues p1 ty (vals.map fun v => (v.1, v.2.toList)) with
      | error e => rw [hb] at h; cases h
      | ok p2 =>
        rw [hb] at h
        obtain ⟨e1, hv⟩ := pcfAddValues_ext _ hb
        obtain ⟨e2, hr⟩ := ih h
        refine ⟨((pcfAddType_ext ha).trans e1).trans e2, ?_⟩
        intro y hy
        rcases List.mem_cons.mp hy with rfl | hy
        · intro v hv'
          exact e2 _ _ (hv (v.1, v.2.toList) (List.mem_map.mpr ⟨v, hv', rfl⟩))
        · exact hr y hy

theorem pcfTaskTypes_ext {id : Nat} : ∀ (ts : List (Int × Text)) {p p' : Pcf},
    pcfTaskTypes p id ts = .ok p' → Ext p p' := by
  intro ts
  induction ts with
  | nil => intro p p' h; simp only [pcfTaskTypes, Except.ok.injEq] at h; subst h; exact Ext.refl _
  | cons t r ih =>
    intro p p' h
    obtain ⟨gid, label⟩ := t
    simp only [pcfTaskTypes] at h
    split at h
    · split at h
      · exact ih h
      · cases h
    · cases ha : pcfAddValue p id gid label with
      | error e => rw [ha] at h; cases h
      | ok p1 => rw [ha] at h; exact (pcfAddValue_ext ha).1.trans (ih h)

theorem pcfFinishTasks_go_ext {ty : Nat} : ∀ (ps : List (List (Int × Text))) {p p' : Pcf},
    pcfFinishTasks.go ty ps p = .ok p' → Ext p p' := by
  intro ps
  induction ps with
  | nil => intro p p' h; simp only [pcfFinishTasks.go, Except.ok.injEq] at h; subst h; exact Ext.refl _
  | cons ts r ih =>
    intro p p' h
    simp only [pcfFinishTasks.go] at h
    cases ha : pcfTaskTypes p ty ts with
    | error e => rw [ha] at h; cases h
    | ok p1 => rw [ha] at h; exact (pcfTaskTypes_ext _ ha).trans (ih h)

theorem pcfFinishTasks_ext : ∀ (l : List (Nat × List (List (Int × Text)))) {p p' : Pcf},
    pcfFinishTasks l p = .ok p' → Ext p p' := by
  intro l
  induction l with
  | nil => intro p p' h; simp only [pcfFinishTasks, Except.ok.injEq] at h; subst h; exact Ext.refl _
  | cons x r ih =>
    intro p p' h
    obtain ⟨ch, procs⟩ := x
    simp only [pcfFinishTasks] at h
    cases ht : taskTypeOf ch with
    | none => rw [ht] at h; cases h
    | some ty =>
      rw [ht] at h
      simp only at h
      cases ha : pcfFinishTasks.go ty procs p with
      | error e => rw [ha] at h; cases h
      | ok p1 => rw [ha] at h; exact (pcfFinishTasks_go_ext _ ha).trans (ih h)

/-- **What thread.pcf labels**: the values of the three thread types
    (`threadPcfTypes`: the six thread states), `gindex + 1` of every CPU under
    the affinity type, and for every enabled model every value of the label
    table of each of its channels under the type of that channel. -/
theorem threadPcf_hasVal {e : Emu} {n : Names} {p : Pcf} (h : threadPcf e n = .ok p) :
    (∀ x ∈ threadPcfTypes, ∀ v ∈ x.2.2, HasVal p x.1 v.1) ∧
    (∀ g < e.cpus.length, HasVal p prvThreadCpu ((g : Int) + 1)) ∧
    (∀ s ∈ connectOrder e.enabled e.extra, s.char ≠ markGroup → ∀ info, pcfInfo s.char = some info → ∀ i < s.nch,
      ∀ v ∈ info.labels.getD i [], HasVal p (s.pvtType.getD i 0) v.1) := by
  unfold threadPcf at h
  cases h1 : pcfSysTypes threadPcfTypes [] with
  | error er => rw [h1] at h; cases h
  | ok p1 =>
    rw [h1] at h
    simp only at h
    cases h2 : pcfAddValues p1 prvThreadCpu ((cpuNames e n).mapIdx fun g nm => ((g : Int) + 1, nm)) with
    | error er => rw [h2] at h; cases h
    | ok p2 =>
      rw [h2] at h
      simp only at h
      cases h3 : pcfInitModels false n.marks (connectOrder e.enabled e.extra) p2 with
      | error er => rw [h3] at h; cases h
      | ok p3 =>
        rw [h3] at h
        obtain ⟨_, a1⟩ := pcfSysTypes_ext _ h1
        obtain ⟨e2, a2⟩ := pcfAddValues_ext _ h2
        obtain ⟨e3, a3⟩ := pcfInitModels_ext _ _ _ h3
        have e4 := pcfFinishTasks_ext _ h
        refine ⟨fun x hx v hv => e4 _ _ (e3 _ _ (e2 _ _ (a1 x hx v hv))), ?_, ?_⟩
        · intro g hg
          have hlen : g < (cpuNames e n).length := by simpa [cpuNames] using hg
          refine e4 _ _ (e3 _ _ (a2 (((g : Int) + 1), (cpuNames e n)[g]) ?_))
          exact List.mem_mapIdx.mpr ⟨g, hlen, rfl⟩
        · intro s hs hne info hinfo i hi v hv
          have := a3 s hs hne info hinfo i hi v hv
          exact e4 _ _ this

/-! ### the structures the emulator builds are well formed

Every label of thread.pcf / cpu.pcf comes from a fixed table of the emulator
(checked by evaluation), from a CPU name (`cpuName_no_nl`) or from the trace
metadata: mark titles and labels, task type labels — those are the only
hypotheses (`NamesWf`). -/

/-- no newline in the labels that come from the metadata -/
def NamesWf (n : Names) : Prop :=
  (∀ m ∈ n.marks, '\n' ∉ m.title.toList ∧ ∀ l ∈ m.labels, '\n' ∉ l.2.toList) ∧
  ∀ x ∈ n.tasks, ∀ ps ∈ x.2, ∀ t ∈ ps, '\n' ∉ t.2

instance (n : Names) : Decidable (NamesWf n) := by unfold NamesWf; infer_instance

theorem pcfAddType_wf {p p' : Pcf} {id : Nat} {label : Text} (hp : PcfWf p) (hl : '\n' ∉ label)
    (h : pcfAddType p id label = .ok p') : PcfWf p' := by
  unfold pcfAddType at h
  split at h
  · cases h
  · split at h
    · cases h
    · cases h
      intro t ht
      rcases List.mem_append.mp ht with ht | ht
      · exact hp t ht
      · rw [List.mem_singleton.mp ht]; exact ⟨hl, by simp⟩

theorem pcfAddValue_wf {p p' : Pcf} {id : Nat} {v : Int} {label : Text} (hp : PcfWf p) (hl : '\n' ∉ label)
    (h : pcfAddValue p id v label = .ok p') : PcfWf p' := by
  unfold pcfAddValue at h
  split at h
  · cases h
  · split at h
    · cases h
    · split at h
      · cases h
      · cases h
        intro t ht
        obtain ⟨t0, ht0, rfl⟩ := List.mem_map.mp ht
        split
        · refine ⟨(hp t0 ht0).1, ?_⟩
          intro x hx
          rcases List.mem_append.mp hx with hx | hx
          · exact (hp t0 ht0).2 x hx
          · rw [List.mem_singleton.mp hx]; exact hl
        · exact hp t0 ht0

theorem pcfAddValues_wf {id : Nat} : ∀ (vs : List (Int × Text)) {p p' : Pcf}, PcfWf p → (∀ v ∈ vs, '\n' ∉ v.2) →
    pcfAddValues p id vs = .ok p' → PcfWf p' := by
  intro vs
  induction vs with
  | nil => intro p p' hp _ h; simp only [pcfAddValues, Except.ok.injEq] at h; subst h; exact hp
  | cons v r ih =>
    intro p p' hp hl h
    obtain ⟨v, l⟩ := v
    simp only [pcfAddValues] at h
    cases ha : pcfAddValue p id v l with
    | error e => rw [ha] at h; cases h
    | ok p1 =>
      rw [ha] at h
      exact ih (pcfAddValue_wf hp (hl (v, l) (by simp)) ha) (fun x hx => hl x (by simp [hx])) h

/-- no newline in a string of the emulator's tables -/
def strOk (s : String) : Bool := s.toList.all (· != '\n')

theorem strOk_no_nl {s : String} (h : strOk s = true) : '\n' ∉ s.toList := by
  intro hm
  have := List.all_eq_true.mp h _ hm
  revert this; decide

def valsOk (vals : List (Int × String)) : Bool := vals.all fun l => strOk l.2

theorem valsOk_no_nl {vals : List (Int × String)} (h : valsOk vals = true) :
    ∀ v ∈ vals.map (fun v => (v.1, v.2.toList)), '\n' ∉ v.2 := by
  intro v hv
  obtain ⟨w, hw, rfl⟩ := List.mem_map.mp hv
  exact strOk_no_nl (List.all_eq_true.mp h w hw)

def infoOk (i : PcfInfo) : Bool := i.prefixes.all strOk && i.labels.all valsOk

theorem pcfSuffix_ok (mode : Nat) : strOk (pcfSuffix mode) = true := by
  unfold pcfSuffix
  split
  · decide
  · split <;> decide

theorem pcfCreateType_wf {p p' : Pcf} {type mode : Nat} {pre : String} {vals : List (Int × String)}
    (hp : PcfWf p) (hpre : strOk pre = true) (hv : valsOk vals = true)
    (h : pcfCreateType p type mode pre vals = .ok p') : PcfWf p' := by
  unfold pcfCreateType at h
  simp only at h
  split at h
  · cases h
  · cases ha : pcfAddType p type (pre.toList ++ [' '] ++ (pcfSuffix mode).toList) with
    | error e => rw [ha] at h; cases h
    | ok p1 =>
      rw [ha] at h
      refine pcfAddValues_wf _ (pcfAddType_wf hp ?_ ha) (valsOk_no_nl hv) h
      intro hm
      rcases List.mem_append.mp hm with hm | hm
      · rcases List.mem_append.mp hm with hm | hm
        · exact strOk_no_nl hpre hm
        · revert hm; decide
      · exact strOk_no_nl (pcfSuffix_ok mode) hm

theorem getD_all {α : Type} (l : List α) (f : α → Bool) (i : Nat) (d : α) (hl : l.all f = true) (hd : f d = true) :
    f (l.getD i d) = true := by
  rw [List.getD_eq_getElem?_getD]
  cases hg : l[i]? with
  | none => exact hd
  | some x => exact List.all_eq_true.mp hl x (List.mem_of_getElem? hg)

theorem pcfInitModel_wf (types tracks : List Nat) (info : PcfInfo) (hi : infoOk info = true) :
    ∀ (is : List Nat) {p p' : Pcf}, PcfWf p → pcfInitModel types tracks info is p = .ok p' → PcfWf p' := by
  have hi' := Bool.and_eq_true_iff.mp hi
  intro is
  induction is with
  | nil => intro p p' hp h; simp only [pcfInitModel, Except.ok.injEq] at h; subst h; exact hp
  | cons i r ih =>
    intro p p' hp h
    simp only [pcfInitModel] at h
    cases ha : pcfCreateType p (types.getD i 0) (tracks.getD i 0) (info.prefixes.getD i "") (info.labels.getD i []) with
    | error e => rw [ha] at h; cases h
    | ok p1 =>
      rw [ha] at h
      exact ih (pcfCreateType_wf hp (getD_all _ _ _ _ hi'.1 (by decide)) (getD_all _ _ _ _ hi'.2 (by decide)) ha) h

theorem pcfInitMarks_wf : ∀ (ms : List MarkType) {p p' : Pcf}, PcfWf p →
    (∀ m ∈ ms, '\n' ∉ m.title.toList ∧ ∀ l ∈ m.labels, '\n' ∉ l.2.toList) →
    pcfInitMarks ms p = .ok p' → PcfWf p' := by
  intro ms
  induction ms with
  | nil => intro p p' hp _ h; simp only [pcfInitMarks, Except.ok.injEq] at h; subst h; exact hp
  | cons t r ih =>
    intro p p' hp hm h
    simp only [pcfInitMarks] at h
    cases ha : pcfAddType p (prvOvniMark + t.type.toNat) t.title.toList with
    | error e => rw [ha] at h; cases h
    | ok p1 =>
      rw [ha] at h
      simp only at h
      cases hb : pcfAddValues p1 (prvOvniMark + t.type.toNat) (t.labels.map fun v => (v.1, v.2.toList)) with
      | error e => rw [hb] at h; cases h
      | ok p2 =>
        rw [hb] at h
        have ht := hm t (by simp)
        refine ih (pcfAddValues_wf _ (pcfAddType_wf hp ht.1 ha) ?_ hb) (fun x hx => hm x (by simp [hx])) h
        intro v hv
        obtain ⟨w, hw, rfl⟩ := List.mem_map.mp hv
        exact ht.2 w hw

theorem info_ok_ovni : infoOk ⟨Ovni.pcfPrefix, Ovni.labels, Ovni.cpuPvtType⟩ = true := by decide +kernel
theorem info_ok_nanos6 : infoOk ⟨Nanos6.pcfPrefix, Nanos6.labels, Nanos6.cpuPvtType⟩ = true := by decide +kernel
theorem info_ok_nosv : infoOk ⟨Nosv.pcfPrefix, Nosv.labels, Nosv.cpuPvtType⟩ = true := by decide +kernel
theorem info_ok_nodes : infoOk ⟨Nodes.pcfPrefix, Nodes.labels, Nodes.cpuPvtType⟩ = true := by decide +kernel
theorem info_ok_tampi : infoOk ⟨Tampi.pcfPrefix, Tampi.labels, Tampi.cpuPvtType⟩ = true := by decide +kernel
theorem info_ok_mpi : infoOk ⟨Mpi.pcfPrefix, Mpi.labels, Mpi.cpuPvtType⟩ = true := by decide +kernel
theorem info_ok_kernel : infoOk ⟨Kernel.pcfPrefix, Kernel.labels, Kernel.cpuPvtType⟩ = true := by decide +kernel
theorem info_ok_openmp : infoOk ⟨Openmp.pcfPrefix, Openmp.labels, Openmp.cpuPvtType⟩ = true := by decide +kernel

/-- the label tables of the eight models contain no newline (regenerated tables) -/
theorem pcfInfo_ok {ch : Nat} {info : PcfInfo} (h : pcfInfo ch = some info) : infoOk info = true := by
  unfold pcfInfo at h
  split at h
  · cases h; exact info_ok_ovni
  split at h
  · cases h; exact info_ok_nanos6
  split at h
  · cases h; exact info_ok_nosv
  split at h
  · cases h; exact info_ok_nodes
  split at h
  · cases h; exact info_ok_tampi
  split at h
  · cases h; exact info_ok_mpi
  split at h
  · cases h; exact info_ok_kernel
  split at h
  · cases h; exact info_ok_openmp
  cases h

theorem pcfInitModels_wf (cpu : Bool) (marks : List MarkType)
    (hm : ∀ m ∈ marks, '\n' ∉ m.title.toList ∧ ∀ l ∈ m.labels, '\n' ∉ l.2.toList) :
    ∀ (ss : List ModelSpec) {p p' : Pcf}, PcfWf p → pcfInitModels cpu marks ss p = .ok p' → PcfWf p' := by
  intro ss
  induction ss with
  | nil => intro p p' hp h; simp only [pcfInitModels, Except.ok.injEq] at h; subst h; exact hp
  | cons s r ih =>
    intro p p' hp h
    simp only [pcfInitModels] at h
    by_cases hmk : s.char = markGroup
    · rw [if_pos hmk] at h
      cases ha : pcfInitMarks marks p with
      | error e => rw [ha] at h; cases h
      | ok p1 => rw [ha] at h; exact ih (pcfInitMarks_wf _ hp hm ha) h
    · rw [if_neg hmk] at h
      cases hi : pcfInfo s.char with
      | none => rw [hi] at h; cases h
      | some info =>
        rw [hi] at h
        simp only at h
        cases ha : pcfInitModel (if cpu then info.cpuType else s.pvtType) (if cpu then s.cpuTrack else s.thTrack)
            info (List.range s.nch) p with
        | error e => rw [ha] at h; cases h
        | ok p1 => rw [ha] at h; exact ih (pcfInitModel_wf _ _ _ (pcfInfo_ok hi) _ hp ha) h

def sysOk (l : List (Nat × String × List (Int × String))) : Bool := l.all fun x => strOk x.2.1 && valsOk x.2.2

theorem pcfSysTypes_wf : ∀ (l : List (Nat × String × List (Int × String))) {p p' : Pcf}, PcfWf p → sysOk l = true →
    pcfSysTypes l p = .ok p' → PcfWf p' := by
  intro l
  induction l with
  | nil => intro p p' hp _ h; simp only [pcfSysTypes, Except.ok.injEq] at h; subst h; exact hp
  | cons x r ih =>
    intro p p' hp hl h
    obtain ⟨ty, name, vals⟩ := x
    simp only [pcfSysTypes] at h
    unfold sysOk at hl
    rw [List.all_cons] at hl
    obtain ⟨hx, hr⟩ := Bool.and_eq_true_iff.mp hl
    obtain ⟨hx1, hx2⟩ := Bool.and_eq_true_iff.mp hx
    cases ha : pcfAddType p ty name.toList with
    | error e => rw [ha] at h; cases h
    | ok p1 =>
      rw [ha] at h
      simp only at h
      cases hb : pcfAddValues p1 ty (vals.map fun v => (v.1, v.2.toList)) with
      | error e => rw [hb] at h; cases h
      | ok p2 =>
        rw [hb] at h
        exact ih (pcfAddValues_wf _ (pcfAddType_wf hp (strOk_no_nl hx1) ha) (valsOk_no_nl hx2) hb) hr h

theorem pcfTaskTypes_wf {id : Nat} : ∀ (ts : List (Int × Text)) {p p' : Pcf}, PcfWf p → (∀ t ∈ ts, '\n' ∉ t.2) →
    pcfTaskTypes p id ts = .ok p' → PcfWf p' := by
  intro ts
  induction ts with
  | nil => intro p p' hp _ h; simp only [pcfTaskTypes, Except.ok.injEq] at h; subst h; exact hp
  | cons t r ih =>
    intro p p' hp hl h
    obtain ⟨gid, label⟩ := t
    simp only [pcfTaskTypes] at h
    have hr : ∀ t ∈ r, '\n' ∉ t.2 := fun x hx => hl x (by simp [hx])
    split at h
    · split at h
      · exact ih hp hr h
      · cases h
    · cases ha : pcfAddValue p id gid label with
      | error e => rw [ha] at h; cases h
      | ok p1 => rw [ha] at h; exact ih (pcfAddValue_wf hp (hl (gid, label) (by simp)) ha) hr h

theorem pcfFinishTasks_go_wf {ty : Nat} : ∀ (ps : List (List (Int × Text))) {p p' : Pcf}, PcfWf p →
    (∀ ts ∈ ps, ∀ t ∈ ts, '\n' ∉ t.2) → pcfFinishTasks.go ty ps p = .ok p' → PcfWf p' := by
  intro ps
  induction ps with
  | nil => intro p p' hp _ h; simp only [pcfFinishTasks.go, Except.ok.injEq] at h; subst h; exact hp
  | cons ts r ih =>
    intro p p' hp hl h
    simp only [pcfFinishTasks.go] at h
    cases ha : pcfTaskTypes p ty ts with
    | error e => rw [ha] at h; cases h
    | ok p1 =>
      rw [ha] at h
      exact ih (pcfTaskTypes_wf _ hp (hl ts (by simp)) ha) (fun x hx => hl x (by simp [hx])) h

theorem pcfFinishTasks_wf : ∀ (l : List (Nat × List (List (Int × Text)))) {p p' : Pcf}, PcfWf p →
    (∀ x ∈ l, ∀ ps ∈ x.2, ∀ t ∈ ps, '\n' ∉ t.2) → pcfFinishTasks l p = .ok p' → PcfWf p' := by
  intro l
  induction l with
  | nil => intro p p' hp _ h; simp only [pcfFinishTasks, Except.ok.injEq] at h; subst h; exact hp
  | cons x r ih =>
    intro p p' hp hl h
    obtain ⟨ch, procs⟩ := x
    simp only [pcfFinishTasks] at h
    cases ht : taskTypeOf ch with
    | none => rw [ht] at h; cases h
    | some ty =>
      rw [ht] at h
      simp only at h
      cases ha : pcfFinishTasks.go ty procs p with
      | error e => rw [ha] at h; cases h
      | ok p1 =>
        rw [ha] at h
        exact ih (pcfFinishTasks_go_wf _ hp (hl (ch, procs) (by simp)) ha) (fun y hy => hl y (by simp [hy])) h

theorem sysTypes_ok : sysOk threadPcfTypes = true ∧ sysOk cpuPcfTypes = true := by decide +kernel

theorem pcfWf_nil : PcfWf [] := by intro t ht; cases ht

theorem cpuNames_no_nl (e : Emu) (n : Names) : ∀ nm ∈ cpuNames e n, '\n' ∉ nm := by
  intro nm hnm
  simp only [cpuNames, List.mem_mapIdx] at hnm
  obtain ⟨i, _, rfl⟩ := hnm
  exact cpuName_no_nl _ _ _

/-- **thread.pcf is well formed** whenever the metadata labels are. -/
theorem threadPcf_wf {e : Emu} {n : Names} {p : Pcf} (hn : NamesWf n) (h : threadPcf e n = .ok p) : PcfWf p := by
  unfold threadPcf at h
  cases h1 : pcfSysTypes threadPcfTypes [] with
  | error er => rw [h1] at h; cases h
  | ok p1 =>
    rw [h1] at h
    simp only at h
    cases h2 : pcfAddValues p1 prvThreadCpu ((cpuNames e n).mapIdx fun g nm => ((g : Int) + 1, nm)) with
    | error er => rw [h2] at h; cases h
    | ok p2 =>
      rw [h2] at h
      simp only at h
      cases h3 : pcfInitModels false n.marks (connectOrder e.enabled e.extra) p2 with
      | error er => rw [h3] at h; cases h
      | ok p3 =>
        rw [h3] at h
        refine pcfFinishTasks_wf _ (pcfInitModels_wf _ _ hn.1 _ (pcfAddValues_wf _
          (pcfSysTypes_wf _ pcfWf_nil sysTypes_ok.1 h1) ?_ h2) h3) hn.2 h
        intro v hv
        obtain ⟨g, hg, rfl⟩ := List.mem_mapIdx.mp hv
        exact cpuNames_no_nl e n _ (List.getElem_mem hg)

/-- **cpu.pcf is well formed** whenever the metadata labels are. -/
theorem cpuPcf_wf {e : Emu} {n : Names} {p : Pcf} (hn : NamesWf n) (h : cpuPcf e n = .ok p) : PcfWf p := by
  unfold cpuPcf at h
  cases h1 : pcfSysTypes cpuPcfTypes [] with
  | error er => rw [h1] at h; cases h
  | ok p1 =>
    rw [h1] at h
    simp only at h
    cases h3 : pcfInitModels true n.marks (connectOrder e.enabled e.extra) p1 with
    | error er => rw [h3] at h; cases h
    | ok p3 =>
      rw [h3] at h
      exact pcfFinishTasks_wf _ (pcfInitModels_wf _ _ hn.1 _ (pcfSysTypes_wf _ pcfWf_nil sysTypes_ok.2 h1) h3) hn.2 h

end Ovni.Emu.PvText
