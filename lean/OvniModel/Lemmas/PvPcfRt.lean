import OvniModel.Lemmas.PvPcf

/-
  C13 text level: the event-type section of a .pcf reads back
  (`parsePcfTypes (pcfText p) = some …`), and which (type, value) pairs the
  emulator puts into thread.pcf.
-/
namespace Ovni.Emu.PvText
open Ovni.Emu Ovni.Generated

/-! ### well-formedness -/

/-- **What the round trip needs**: no label contains a newline.  Nothing else:
    labels may be empty, begin or end with blanks, contain digits, be equal to
    `EVENT_TYPE` or `VALUES`; ids and values are arbitrary; ids may repeat.
    - a newline in a type label: the rest of the label is read where `VALUES`
      is expected and the file is unreadable (`rt_fails_type_label`);
    - a newline in a value label: the rest of the label is read as a value
      line, or ends the block if it is empty (`rt_fails_value_label`,
      `rt_truncates_value_label`). -/
def PcfWf (p : Pcf) : Prop := ∀ t ∈ p, '\n' ∉ t.label ∧ ∀ v ∈ t.values, '\n' ∉ v.2

instance (p : Pcf) : Decidable (PcfWf p) := by unfold PcfWf; infer_instance

/-- what the reader returns for a structure -/
def pcfBlocks (p : Pcf) : List PcfBlock := p.map fun t => (t.id, t.label, t.values)

theorem rt_fails_type_label :
    parsePcfTypes (pcfText [{ id := 1, label := ['a', '\n', 'b'] }]) = none := by decide +kernel

theorem rt_fails_value_label :
    parsePcfTypes (pcfText [{ id := 1, label := ['a'], values := [(1, ['x', '\n', 'y'])] }]) = none := by
  decide +kernel

/-- a value label with a blank second line silently ends the block: the file
    is readable but a value is lost -/
theorem rt_truncates_value_label :
    parsePcfTypes (pcfText [{ id := 1, label := ['a'], values := [(1, ['x', '\n']), (2, ['y'])] }]) =
      some [(1, ['a'], [(1, ['x'])])] := by decide +kernel

/-! ### lines -/

/-- the blanks of `%-Wd ` and the label -/
def padLabel (w : Nat) (num label : Text) : Text := List.replicate (w - num.length) ' ' ++ ' ' :: label

/-- the line of a type without its newline -/
def typeLineBody (id : Nat) (label : Text) : Text := ['0', ' '] ++ (natDec id ++ padLabel 10 (natDec id) label)

/-- the line of a value without its newline -/
def valueLineBody (v : Int × Text) : Text := intDec v.1 ++ padLabel 4 (intDec v.1) v.2

theorem pcfTypeLine_eq (id : Nat) (label : Text) : pcfTypeLine id label = typeLineBody id label ++ ['\n'] := by
  simp only [pcfTypeLine, typeLineBody, padLabel, padRight, List.append_assoc, List.cons_append, List.nil_append]

theorem pcfValueLine_eq (v : Int × Text) : pcfValueLine v = valueLineBody v ++ ['\n'] := by
  simp only [pcfValueLine, valueLineBody, padLabel, padRight, List.append_assoc, List.cons_append, List.nil_append]

theorem padLabel_head (w : Nat) (num label : Text) : ∀ c r, padLabel w num label = c :: r → c.isDigit = false := by
  intro c r h
  unfold padLabel at h
  cases hk : w - num.length with
  | zero => rw [hk] at h; cases h; decide
  | succ k => rw [hk, List.replicate_succ] at h; cases h; decide

theorem padLabel_no_nl (w : Nat) (num label : Text) (h : '\n' ∉ label) : '\n' ∉ padLabel w num label := by
  unfold padLabel
  intro hm
  rcases List.mem_append.mp hm with hm | hm
  · exact absurd (List.mem_replicate.mp hm).2 (by decide)
  · rcases List.mem_cons.mp hm with hm | hm
    · revert hm; decide
    · exact h hm

theorem skipPad_padLabel (w : Nat) (num label : Text) : skipPad w num.length (padLabel w num label) = some label := by
  unfold skipPad padLabel
  have e : List.replicate (w - num.length) ' ' ++ ' ' :: label =
      (List.replicate (w - num.length) ' ' ++ [' ']) ++ label := by simp
  rw [e, expect_append]

theorem parsePcfTypeLine_body (id : Nat) (label : Text) :
    parsePcfTypeLine (typeLineBody id label) = some (id, label) := by
  unfold parsePcfTypeLine typeLineBody
  rw [expect_append]
  simp only
  rw [readNat_natDec id _ (padLabel_head _ _ _)]
  simp only
  have e : (natDec id ++ padLabel 10 (natDec id) label).length - (padLabel 10 (natDec id) label).length =
      (natDec id).length := by rw [List.length_append]; omega
  rw [e, skipPad_padLabel]
  rfl

theorem parsePcfValueLine_body (v : Int × Text) : parsePcfValueLine (valueLineBody v) = some v := by
  unfold parsePcfValueLine valueLineBody
  rw [readInt_intDec v.1 _ (padLabel_head _ _ _)]
  simp only
  have e : (intDec v.1 ++ padLabel 4 (intDec v.1) v.2).length - (padLabel 4 (intDec v.1) v.2).length =
      (intDec v.1).length := by rw [List.length_append]; omega
  rw [e, skipPad_padLabel]
  rfl

theorem typeLineBody_no_nl (id : Nat) (label : Text) (h : '\n' ∉ label) : '\n' ∉ typeLineBody id label := by
  unfold typeLineBody
  intro hm
  rcases List.mem_append.mp hm with hm | hm
  · revert hm; decide
  · rcases List.mem_append.mp hm with hm | hm
    · exact natDec_no_nl _ hm
    · exact padLabel_no_nl _ _ _ h hm

theorem valueLineBody_no_nl (v : Int × Text) (h : '\n' ∉ v.2) : '\n' ∉ valueLineBody v := by
  unfold valueLineBody
  intro hm
  rcases List.mem_append.mp hm with hm | hm
  · exact intDec_no_nl _ hm
  · exact padLabel_no_nl _ _ _ h hm

/-- a value line begins with a digit or a minus sign -/
theorem valueLineBody_head (v : Int × Text) : ∃ d t, valueLineBody v = d :: t ∧ d ≠ 'E' := by
  obtain ⟨i, l⟩ := v
  unfold valueLineBody
  cases i with
  | ofNat n =>
    show ∃ d t, natDec n ++ _ = d :: t ∧ d ≠ 'E'
    cases h : natDec n with
    | nil => exact absurd h (natDec_ne_nil n)
    | cons d ds =>
      refine ⟨d, _, rfl, ?_⟩
      intro e
      have := natDec_digits n d (by rw [h]; simp)
      rw [e] at this; revert this; decide
  | negSucc n => exact ⟨'-', _, rfl, by decide⟩

theorem litEventType_head : ∃ t, litEventType = 'E' :: t := ⟨"VENT_TYPE".toList, by decide⟩

theorem valueLineBody_ne (v : Int × Text) : valueLineBody v ≠ [] ∧ valueLineBody v ≠ litEventType := by
  obtain ⟨d, t, e, hd⟩ := valueLineBody_head v
  obtain ⟨t', e'⟩ := litEventType_head
  rw [e, e']
  exact ⟨by simp, fun h => hd (List.cons.inj h).1⟩

theorem typeLineBody_ne (id : Nat) (label : Text) : typeLineBody id label ≠ litEventType := by
  obtain ⟨t', e'⟩ := litEventType_head
  rw [e']
  intro h
  exact absurd (List.cons.inj h).1 (by decide)

theorem litValues_facts : '\n' ∉ litValues ∧ litValues ≠ litEventType ∧ ([] : Text) ≠ litEventType := by decide

/-- the lines of the block of a type: two blank lines (the first one ends
    whatever came before), `EVENT_TYPE`, the type, `VALUES`, the values -/
def blockLines (t : PcfType) : List Text :=
  [] :: [] :: litEventType :: typeLineBody t.id t.label :: litValues :: t.values.map valueLineBody

theorem splitNl_values (vs : List (Int × Text)) (rest : Text) (h : ∀ v ∈ vs, '\n' ∉ v.2) :
    splitNl (vs.flatMap pcfValueLine ++ rest) = vs.map valueLineBody ++ splitNl rest := by
  induction vs with
  | nil => rfl
  | cons v r ih =>
    rw [List.flatMap_cons, pcfValueLine_eq, List.append_assoc, List.append_assoc, List.singleton_append,
      splitNl_line _ _ (valueLineBody_no_nl v (h v (by simp))), ih (fun x hx => h x (by simp [hx]))]
    rfl

theorem pcfTypeText_append (t : PcfType) (rest : Text) :
    pcfTypeText t ++ rest = [] ++ '\n' :: ([] ++ '\n' :: (litEventType ++ '\n' ::
      (typeLineBody t.id t.label ++ '\n' :: (litValues ++ '\n' :: (t.values.flatMap pcfValueLine ++ rest))))) := by
  simp only [pcfTypeText, pcfTypeLine_eq, List.append_assoc, List.cons_append, List.nil_append]

theorem splitNl_types (p : Pcf) (h : PcfWf p) :
    splitNl (p.flatMap pcfTypeText) = p.flatMap blockLines ++ [[]] := by
  induction p with
  | nil => rfl
  | cons t r ih =>
    have ht := h t (by simp)
    rw [List.flatMap_cons, pcfTypeText_append, splitNl_line _ _ (by simp), splitNl_line _ _ (by simp),
      splitNl_line _ _ litEventType_no_nl, splitNl_line _ _ (typeLineBody_no_nl _ _ ht.1),
      splitNl_line _ _ litValues_facts.1, splitNl_values _ _ ht.2, ih (fun x hx => h x (by simp [hx]))]
    simp only [List.flatMap_cons, blockLines, List.cons_append, List.append_assoc]

/-! ### the reader on those lines -/

theorem parsePcfLines_skip (A B : List Text) (h : ∀ l ∈ A, l ≠ litEventType) :
    parsePcfLines (A ++ B) = parsePcfLines B := by
  induction A with
  | nil => rfl
  | cons a r ih =>
    rw [List.cons_append, parsePcfLines, if_neg (h a (by simp)), ih (fun x hx => h x (by simp [hx]))]

theorem pcfValueLines_body (vs : List (Int × Text)) (R : List Text) :
    pcfValueLines (vs.map valueLineBody ++ [] :: R) = some vs := by
  induction vs with
  | nil => simp [pcfValueLines]
  | cons v r ih =>
    rw [List.map_cons, List.cons_append, pcfValueLines, if_neg (valueLineBody_ne v).1, parsePcfValueLine_body, ih]

/-- the lines of the blocks, then the empty piece after the last newline,
    begin with a blank line -/
theorem blocks_head (p : Pcf) : ∃ R, p.flatMap blockLines ++ [[]] = [] :: R := by
  cases p with
  | nil => exact ⟨[], rfl⟩
  | cons t r => exact ⟨_, by simp only [List.flatMap_cons, blockLines, List.cons_append]; rfl⟩

theorem parsePcfLines_blocks (p : Pcf) : parsePcfLines (p.flatMap blockLines ++ [[]]) = some (pcfBlocks p) := by
  induction p with
  | nil => simp [parsePcfLines, pcfBlocks, litValues_facts.2.2]
  | cons t r ih =>
    obtain ⟨R, hR⟩ := blocks_head r
    have e : (t :: r).flatMap blockLines ++ [[]] =
        [] :: [] :: litEventType :: ([typeLineBody t.id t.label, litValues] ++ t.values.map valueLineBody ++
          (r.flatMap blockLines ++ [[]])) := by
      simp only [List.flatMap_cons, blockLines, List.cons_append, List.append_assoc, List.nil_append]
    have hskip : parsePcfLines ([typeLineBody t.id t.label, litValues] ++ t.values.map valueLineBody ++
          (r.flatMap blockLines ++ [[]])) = some (pcfBlocks r) := by
      rw [parsePcfLines_skip _ _ (by
        intro l hl
        rcases List.mem_append.mp hl with hl | hl
        · rcases List.mem_cons.mp hl with rfl | hl
          · exact typeLineBody_ne _ _
          · rcases List.mem_cons.mp hl with rfl | hl
            · exact litValues_facts.2.1
            · cases hl
        · obtain ⟨v, _, rfl⟩ := List.mem_map.mp hl
          exact (valueLineBody_ne v).2), ih]
    have hblock : parsePcfBlock ([typeLineBody t.id t.label, litValues] ++ t.values.map valueLineBody ++
          (r.flatMap blockLines ++ [[]])) = some (t.id, t.label, t.values) := by
      rw [hR]
      simp only [List.cons_append, List.nil_append, parsePcfBlock, if_true, parsePcfTypeLine_body,
        pcfValueLines_body]
    rw [e, parsePcfLines, if_neg litValues_facts.2.2, parsePcfLines, if_neg litValues_facts.2.2, parsePcfLines,
      if_pos rfl, hblock, hskip]
    rfl

/-! ### the header and the colours are skipped -/

/-- header and colours end with a newline … -/
theorem pcfHead_last : (pcfHeader ++ pcfColors).getLast? = some '\n' := by decide +kernel

theorem pcfHead_ends_nl : pcfHeader ++ pcfColors = (pcfHeader ++ pcfColors).dropLast ++ ['\n'] :=
  by
  obtain ⟨ys, e⟩ := List.getLast?_eq_some_iff.mp pcfHead_last
  rw [e, List.dropLast_concat]

/-- … and none of their lines is `EVENT_TYPE` -/
theorem pcfHead_no_event_type : ∀ l ∈ splitNl (pcfHeader ++ pcfColors).dropLast, l ≠ litEventType := by
  decide +kernel

/-- **Round trip of the event-type section of a .pcf.** -/
theorem parsePcfTypes_pcfText (p : Pcf) (h : PcfWf p) : parsePcfTypes (pcfText p) = some (pcfBlocks p) := by
  unfold parsePcfTypes pcfText
  obtain ⟨a, b, h1, h2⟩ := splitNl_append_nl (pcfHeader ++ pcfColors).dropLast (p.flatMap pcfTypeText)
  rw [pcfHead_ends_nl, List.append_assoc, List.singleton_append, h2, ← h1, splitNl_types p h,
    parsePcfLines_skip _ _ pcfHead_no_event_type, parsePcfLines_blocks]

/-! ### which (type, value) pairs a structure labels, and what every `pcf_add_*` keeps -/

/-- the structure has a type `id` with a label for `v` -/
def HasVal (p : Pcf) (id : Nat) (v : Int) : Prop := ∃ t ∈ p, t.id = id ∧ ∃ l, (v, l) ∈ t.values

/-- nothing labelled in `p` is lost in `p'` -/
def Ext (p p' : Pcf) : Prop := ∀ id v, HasVal p id v → HasVal p' id v

theorem Ext.refl (p : Pcf) : Ext p p := fun _ _ h => h
theorem Ext.trans {p q r : Pcf} (h1 : Ext p q) (h2 : Ext q r) : Ext p r := fun id v h => h2 id v (h1 id v h)

/-- the values the text labels for a type are those of the structure -/
theorem hasVal_text {p : Pcf} (hwf : PcfWf p) {id : Nat} {v : Int} (h : HasVal p id v) :
    v ∈ pcfValuesOf (pcfText p) id := by
  obtain ⟨t, ht, hid, l, hl⟩ := h
  unfold pcfValuesOf
  rw [parsePcfTypes_pcfText p hwf]
  simp only [List.mem_flatMap, List.mem_filter, List.mem_map]
  refine ⟨(t.id, t.label, t.values), ⟨?_, by simp [hid]⟩, (v, l), hl, rfl⟩
  exact List.mem_map.mpr ⟨t, ht, rfl⟩

theorem pcfAddType_ext {p p' : Pcf} {id : Nat} {label : Text} (h : pcfAddType p id label = .ok p') : Ext p p' := by
  unfold pcfAddType at h
  split at h
  · cases h
  · split at h
    · cases h
    · cases h
      rintro id v ⟨t, ht, r⟩
      exact ⟨t, List.mem_append_left _ ht, r⟩

theorem pcfAddValue_ext {p p' : Pcf} {id : Nat} {v : Int} {label : Text} (h : pcfAddValue p id v label = .ok p') :
    Ext p p' ∧ HasVal p' id v := by
  unfold pcfAddValue at h
  split at h
  · cases h
  · rename_i t hfind
    split at h
    · cases h
    · split at h
      · cases h
      · cases h
        constructor
        · rintro id0 v0 ⟨t0, ht0, hid0, l0, hl0⟩
          refine ⟨_, List.mem_map.mpr ⟨t0, ht0, rfl⟩, ?_, l0, ?_⟩
          · split <;> exact hid0
          · split
            · exact List.mem_append_left _ hl0
            · exact hl0
        · have hmem := List.mem_of_find?_eq_some hfind
          have hid := List.find?_some hfind
          refine ⟨_, List.mem_map.mpr ⟨t, hmem, rfl⟩, ?_, label, ?_⟩
          · rw [if_pos hid]; simpa using hid
          · rw [if_pos hid]; simp

theorem pcfAddValues_ext {id : Nat} : ∀ (vs : List (Int × Text)) {p p' : Pcf},
    pcfAddValues p id vs = .ok p' → Ext p p' ∧ ∀ v ∈ vs, HasVal p' id v.1 := by
  intro vs
  induction vs with
  | nil => intro p p' h; simp only [pcfAddValues, Except.ok.injEq] at h; subst h; exact ⟨Ext.refl _, by simp⟩
  | cons v r ih =>
    intro p p' h
    obtain ⟨v, l⟩ := v
    simp only [pcfAddValues] at h
    cases ha : pcfAddValue p id v l with
    | error e => rw [ha] at h; cases h
    | ok p1 =>
      rw [ha] at h
      obtain ⟨e1, hv⟩ := pcfAddValue_ext ha
      obtain ⟨e2, hr⟩ := ih h
      refine ⟨e1.trans e2, ?_⟩
      intro x hx
      rcases List.mem_cons.mp hx with rfl | hx
      · exact e2 _ _ hv
      · exact hr x hx

theorem pcfCreateType_ext {p p' : Pcf} {type mode : Nat} {pre : String} {vals : List (Int × String)}
    (h : pcfCreateType p type mode pre vals = .ok p') :
    Ext p p' ∧ ∀ v ∈ vals, HasVal p' type v.1 := by
  unfold pcfCreateType at h
  simp only at h
  split at h
  · cases h
  · cases ha : pcfAddType p type (pre.toList ++ [' '] ++ (pcfSuffix mode).toList) with
    | error e => rw [ha] at h; cases h
    | ok p1 =>
      rw [ha] at h
      obtain ⟨e2, hv⟩ := pcfAddValues_ext _ h
      refine ⟨(pcfAddType_ext ha).trans e2, ?_⟩
      intro v hv'
      exact hv (v.1, v.2.toList) (List.mem_map.mpr ⟨v, hv', rfl⟩)

theorem pcfInitModel_ext (types tracks : List Nat) (info : PcfInfo) : ∀ (is : List Nat) {p p' : Pcf},
    pcfInitModel types tracks info is p = .ok p' →
    Ext p p' ∧ ∀ i ∈ is, ∀ v ∈ info.labels.getD i [], HasVal p' (types.getD i 0) v.1 := by
  intro is
  induction is with
  | nil => intro p p' h; simp only [pcfInitModel, Except.ok.injEq] at h; subst h; exact ⟨Ext.refl _, by simp⟩
  | cons i r ih =>
    intro p p' h
    simp only [pcfInitModel] at h
    cases ha : pcfCreateType p (types.getD i 0) (tracks.getD i 0) (info.prefixes.getD i "") (info.labels.getD i []) with
    | error e => rw [ha] at h; cases h
    | ok p1 =>
      rw [ha] at h
      obtain ⟨e1, hv⟩ := pcfCreateType_ext ha
      obtain ⟨e2, hr⟩ := ih h
      refine ⟨e1.trans e2, ?_⟩
      intro j hj
      rcases List.mem_cons.mp hj with rfl | hj
      · intro v hv'; exact e2 _ _ (hv v hv')
      · exact hr j hj

theorem pcfInitMarks_ext : ∀ (ms : List MarkType) {p p' : Pcf}, pcfInitMarks ms p = .ok p' → Ext p p' := by
  intro ms
  induction ms with
  | nil => intro p p' h; simp only [pcfInitMarks, Except.ok.injEq] at h; subst h; exact Ext.refl _
  | cons t r ih =>
    intro p p' h
    simp only [pcfInitMarks] at h
    cases ha : pcfAddType p (prvOvniMark + t.type.toNat) t.title.toList with
    | error e => rw [ha] at h; cases h
    | ok p1 =>
      rw [ha] at h
      simp only at h
      cases hb : pcfAddValues p1 (prvOvniMark + t.type.toNat) (t.labels.map fun v => (v.1, v.2.toList)) with
      | error e => rw [hb] at h; cases h
      | ok p2 =>
        rw [hb] at h
        exact ((pcfAddType_ext ha).trans (pcfAddValues_ext _ hb).1).trans (ih h)

/-- the models: nothing is lost, and every value of the label table of channel
    `i` of an enabled model is labelled under the type of that channel -/
theorem pcfInitModels_ext (cpu : Bool) (marks : List MarkType) : ∀ (ss : List ModelSpec) {p p' : Pcf},
    pcfInitModels cpu marks ss p = .ok p' →
    Ext p p' ∧ ∀ s ∈ ss, s.char ≠ markGroup → ∀ info, pcfInfo s.char = some info → ∀ i < s.nch,
      ∀ v ∈ info.labels.getD i [], HasVal p' ((if cpu then info.cpuType else s.pvtType).getD i 0) v.1 := by
  intro ss
  induction ss with
  | nil => intro p p' h; simp only [pcfInitModels, Except.ok.injEq] at h; subst h; exact ⟨Ext.refl _, by simp⟩
  | cons s r ih =>
    intro p p' h
    simp only [pcfInitModels] at h
    by_cases hm : s.char = markGroup
    · rw [if_pos hm] at h
      cases ha : pcfInitMarks marks p with
      | error e => rw [ha] at h; cases h
      | ok p1 =>
        rw [ha] at h
        obtain ⟨e2, hr⟩ := ih h
        refine ⟨(pcfInitMarks_ext _ ha).trans e2, ?_⟩
        intro s' hs'
        rcases List.mem_cons.mp hs' with rfl | hs'
        · intro hne; exact absurd hm hne
        · exact hr s' hs'
    · rw [if_neg hm] at h
      cases hi : pcfInfo s.char with
      | none => rw [hi] at h; cases h
      | some info =>
        rw [hi] at h
        simp only at h
        cases ha : pcfInitModel (if cpu then info.cpuType else s.pvtType) (if cpu then s.cpuTrack else s.thTrack)
            info (List.range s.nch) p with
        | error e => rw [ha] at h; cases h
        | ok p1 =>
          rw [ha] at h
          obtain ⟨e1, hv⟩ := pcfInitModel_ext _ _ _ _ ha
          obtain ⟨e2, hr⟩ := ih h
          refine ⟨e1.trans e2, ?_⟩
          intro s' hs'
          rcases List.mem_cons.mp hs' with rfl | hs'
          · intro _ info' hinfo' i hi' v hv'
            rw [hi] at hinfo'
            cases hinfo'
            exact e2 _ _ (hv i (List.mem_range.mpr hi') v hv')
          · exact hr s' hs'

theorem pcfSysTypes_ext : ∀ (l : List (Nat × String × List (Int × String))) {p p' : Pcf},
    pcfSysTypes l p = .ok p' → Ext p p' ∧ ∀ x ∈ l, ∀ v ∈ x.2.2, HasVal p' x.1 v.1 := by
  intro l
  induction l with
  | nil => intro p p' h; simp only [pcfSysTypes, Except.ok.injEq] at h; subst h; exact ⟨Ext.refl _, by simp⟩
  | cons x r ih =>
    intro p p' h
    obtain ⟨ty, name, vals⟩ := x
    simp only [pcfSysTypes] at h
    cases ha : pcfAddType p ty name.toList with
    | error e => rw [ha] at h; cases h
    | ok p1 =>
      rw [ha] at h
      simp only at h
      cases hb : pcfAddValues p1 ty (vals.map fun v => (v.1, v.2.toList)) with
      | error e => rw [hb] at h; cases h
      | ok p2 =>
        rw [hb] at h
        obtain ⟨e1, hv⟩ := pcfAddValues_ext _ hb
        obtain ⟨e2, hr⟩ := ih h
        refine ⟨((pcfAddType_ext ha).trans e1).trans e2, ?_⟩
        intro y hy
        rcases List.mem_cons.mp hy with rfl | hy
        · intro v hv'
          exact e2 _ _ (hv (v.1, v.2.toList) (List.mem_map.mpr ⟨v, hv', rfl⟩))
        · exact hr y hy

theorem pcfTaskTypes_ext {id : Nat} : ∀ (ts : List (Int × Text)) {p p' : Pcf},
    pcfTaskTypes p id ts = .ok p' → Ext p p' := by
  intro ts
  induction ts with
  | nil => intro p p' h; simp only [pcfTaskTypes, Except.ok.injEq] at h; subst h; exact Ext.refl _
  | cons t r ih =>
    intro p p' h
    obtain ⟨gid, label⟩ := t
    simp only [pcfTaskTypes] at h
    split at h
    · split at h
      · exact ih h
      · cases h
    · cases ha : pcfAddValue p id gid label with
      | error e => rw [ha] at h; cases h
      | ok p1 => rw [ha] at h; exact (pcfAddValue_ext ha).1.trans (ih h)

theorem pcfFinishTasks_go_ext {ty : Nat} : ∀ (ps : List (List (Int × Text))) {p p' : Pcf},
    pcfFinishTasks.go ty ps p = .ok p' → Ext p p' := by
  intro ps
  induction ps with
  | nil => intro p p' h; simp only [pcfFinishTasks.go, Except.ok.injEq] at h; subst h; exact Ext.refl _
  | cons ts r ih =>
    intro p p' h
    simp only [pcfFinishTasks.go] at h
    cases ha : pcfTaskTypes p ty ts with
    | error e => rw [ha] at h; cases h
    | ok p1 => rw [ha] at h; exact (pcfTaskTypes_ext _ ha).trans (ih h)

theorem pcfFinishTasks_ext : ∀ (l : List (Nat × List (List (Int × Text)))) {p p' : Pcf},
    pcfFinishTasks l p = .ok p' → Ext p p' := by
  intro l
  induction l with
  | nil => intro p p' h; simp only [pcfFinishTasks, Except.ok.injEq] at h; subst h; exact Ext.refl _
  | cons x r ih =>
    intro p p' h
    obtain ⟨ch, procs⟩ := x
    simp only [pcfFinishTasks] at h
    cases ht : taskTypeOf ch with
    | none => rw [ht] at h; cases h
    | some ty =>
      rw [ht] at h
      simp only at h
      cases ha : pcfFinishTasks.go ty procs p with
      | error e => rw [ha] at h; cases h
      | ok p1 => rw [ha] at h; exact (pcfFinishTasks_go_ext _ ha).trans (ih h)

/-- **What thread.pcf labels**: the values of the three thread types
    (`threadPcfTypes`: the six thread states), `gindex + 1` of every CPU under
    the affinity type, and for every enabled model every value of the label
    table of each of its channels under the type of that channel. -/
theorem threadPcf_hasVal {e : Emu} {n : Names} {p : Pcf} (h : threadPcf e n = .ok p) :
    (∀ x ∈ threadPcfTypes, ∀ v ∈ x.2.2, HasVal p x.1 v.1) ∧
    (∀ g < e.cpus.length, HasVal p prvThreadCpu ((g : Int) + 1)) ∧
    (∀ s ∈ connectOrder e.enabled e.extra, s.char ≠ markGroup → ∀ info, pcfInfo s.char = some info → ∀ i < s.nch,
      ∀ v ∈ info.labels.getD i [], HasVal p (s.pvtType.getD i 0) v.1) := by
  unfold threadPcf at h
  cases h1 : pcfSysTypes threadPcfTypes [] with
  | error er => rw [h1] at h; cases h
  | ok p1 =>
    rw [h1] at h
    simp only at h
    cases h2 : pcfAddValues p1 prvThreadCpu ((cpuNames e n).mapIdx fun g nm => ((g : Int) + 1, nm)) with
    | error er => rw [h2] at h; cases h
    | ok p2 =>
      rw [h2] at h
      simp only at h
      cases h3 : pcfInitModels false n.marks (connectOrder e.enabled e.extra) p2 with
      | error er => rw [h3] at h; cases h
      | ok p3 =>
        rw [h3] at h
        obtain ⟨_, a1⟩ := pcfSysTypes_ext _ h1
        obtain ⟨e2, a2⟩ := pcfAddValues_ext _ h2
        obtain ⟨e3, a3⟩ := pcfInitModels_ext _ _ _ h3
        have e4 := pcfFinishTasks_ext _ h
        refine ⟨fun x hx v hv => e4 _ _ (e3 _ _ (e2 _ _ (a1 x hx v hv))), ?_, ?_⟩
        · intro g hg
          have hlen : g < (cpuNames e n).length := by simpa [cpuNames] using hg
          refine e4 _ _ (e3 _ _ (a2 (((g : Int) + 1), (cpuNames e n)[g]) ?_))
          exact List.mem_mapIdx.mpr ⟨g, hlen, rfl⟩
        · intro s hs hne info hinfo i hi v hv
          have := a3 s hs hne info hinfo i hi v hv
          exact e4 _ _ this

end Ovni.Emu.PvText
