import OvniModel.Lemmas.MarkMerge

/-!
  Helper lemmas for C17: the metadata that the runtime builds with
  `ovni_mark_type` / `ovni_mark_label`, seen as mark definitions by the
  emulator.
-/
namespace Ovni.Emu.MarkL
open Ovni.Emu Ovni.Rt.Mark

/-- what `ovni_mark_type` / `ovni_mark_label` store in `stream.json` for one
    type (`chan_type` is written as "stack" or "single") -/
def defOfType (td : TypeDef) : MarkIn :=
  { type := td.type, title := some td.title, chanType := some (ctName td.stack), labels := td.labels }

/-- the `ovni.mark` object of one thread as the emulator reads it -/
def metaToDefs (m : Meta) : List MarkIn := m.map defOfType

/-- metadata reachable from the empty object by successful calls only -/
inductive Reachable : Meta → Prop
  | init : Reachable []
  | type {m m' : Meta} (ty : Int) (flags : Nat) (title : String) :
      Reachable m → markType m ty flags title = some m' → Reachable m'
  | label {m m' : Meta} (ty v : Int) (l : String) :
      Reachable m → markLabel m ty v l = some m' → Reachable m'

/-- invariant of the runtime metadata -/
structure RtInv (m : Meta) : Prop where
  types_nodup : (m.map (·.type)).Nodup
  range : ∀ td ∈ m, 0 ≤ td.type ∧ td.type < 100
  keys : ∀ td ∈ m, KeysNodup td.labels

theorem rtInv_nil : RtInv [] where
  types_nodup := List.nodup_nil
  range := fun _ h => by cases h
  keys := fun _ h => by cases h

theorem find_some {m : Meta} {ty : Int} {td : TypeDef} (h : find m ty = some td) :
    td ∈ m ∧ td.type = ty := by
  unfold find at h
  exact ⟨List.mem_of_find?_eq_some h, by simpa using List.find?_some h⟩

theorem find_none {m : Meta} {ty : Int} (h : find m ty = none) : ∀ td ∈ m, td.type ≠ ty := by
  unfold find at h
  intro td htd
  simpa using List.find?_eq_none.mp h td htd

/-- inversion of a successful `ovni_mark_type` -/
theorem markType_some_inv {m m' : Meta} {ty : Int} {flags : Nat} {title : String}
    (h : markType m ty flags title = some m') :
    0 ≤ ty ∧ ty < 100 ∧ find m ty = none ∧
      m' = m ++ [{ type := ty, title := title, stack := flags % 2 = 1 }] := by
  unfold markType at h
  split at h
  · cases h
  · rename_i hr
    split at h
    · cases h
    · split at h
      · cases h
      · rename_i hf
        injection h with h
        have hr' : ¬ (ty < 0 ∨ ty ≥ 100) := by simpa using hr
        refine ⟨by omega, by omega, ?_, h.symm⟩
        cases hfm : find m ty with
        | none => rfl
        | some td => rw [hfm] at hf; exact absurd rfl hf

/-- row update of `ovni_mark_label` -/
def addRt (ty v : Int) (l : String) (x : TypeDef) : TypeDef :=
  if x.type == ty then { x with labels := x.labels ++ [(v, l)] } else x

theorem addRt_type (ty v : Int) (l : String) (x : TypeDef) : (addRt ty v l x).type = x.type := by
  unfold addRt; split <;> rfl

theorem addRt_eq {ty : Int} (v : Int) (l : String) {x : TypeDef} (h : x.type = ty) :
    (addRt ty v l x).labels = x.labels ++ [(v, l)] := by
  unfold addRt; rw [if_pos (by simpa using h)]

theorem addRt_ne {ty : Int} (v : Int) (l : String) {x : TypeDef} (h : x.type ≠ ty) :
    addRt ty v l x = x := by
  unfold addRt; rw [if_neg (by simpa using h)]

/-- inversion of a successful `ovni_mark_label` -/
theorem markLabel_some_inv {m m' : Meta} {ty v : Int} {l : String}
    (h : markLabel m ty v l = some m') :
    ∃ td, find m ty = some td ∧ (∀ p ∈ td.labels, p.1 ≠ v) ∧ m' = m.map (addRt ty v l) := by
  unfold markLabel at h
  split at h
  · cases h
  · split at h
    · cases h
    · split at h
      · cases h
      · split at h
        · cases h
        · rename_i td hf
          split at h
          · cases h
          · rename_i hany
            injection h with h
            refine ⟨td, hf, ?_, h.symm⟩
            intro p hp hv
            apply hany
            rw [List.any_eq_true]
            exact ⟨p, hp, by simpa using hv⟩

theorem rtInv_markType {m m' : Meta} {ty : Int} {flags : Nat} {title : String} (hI : RtInv m)
    (h : markType m ty flags title = some m') : RtInv m' := by
  obtain ⟨h0, h1, hf, rfl⟩ := markType_some_inv h
  have hfresh := find_none hf
  refine ⟨?_, ?_, ?_⟩
  · rw [List.map_append, List.nodup_append]
    refine ⟨hI.types_nodup, by simp, ?_⟩
    intro a ha b hb
    obtain ⟨t, htm, rfl⟩ := List.mem_map.mp ha
    simp only [List.map_cons, List.map_nil, List.mem_cons, List.not_mem_nil, or_false] at hb
    subst hb
    exact hfresh t htm
  · intro td htd
    rcases List.mem_append.mp htd with h | h
    · exact hI.range td h
    · rw [List.mem_singleton.mp h]; exact ⟨h0, h1⟩
  · intro td htd
    rcases List.mem_append.mp htd with h | h
    · exact hI.keys td h
    · rw [List.mem_singleton.mp h]; exact keysNodup_nil

theorem rtInv_markLabel {m m' : Meta} {ty v : Int} {l : String} (hI : RtInv m)
    (h : markLabel m ty v l = some m') : RtInv m' := by
  obtain ⟨td, hf, hv, rfl⟩ := markLabel_some_inv h
  obtain ⟨htd, hty⟩ := find_some hf
  refine ⟨?_, ?_, ?_⟩
  · have : (m.map (addRt ty v l)).map (·.type) = m.map (·.type) := by
      rw [List.map_map]
      apply List.map_congr_left
      intro x _
      exact addRt_type ty v l x
    rw [this]; exact hI.types_nodup
  · intro x hx
    obtain ⟨y, hy, rfl⟩ := List.mem_map.mp hx
    rw [addRt_type]; exact hI.range y hy
  · intro x hx
    obtain ⟨y, hy, rfl⟩ := List.mem_map.mp hx
    by_cases hyt : y.type = ty
    · have : y = td :=
        eq_of_nodup_map (fun x : TypeDef => x.type) (l := m) hI.types_nodup hy htd (hyt.trans hty.symm)
      subst this
      rw [addRt_eq v l hyt]
      exact keysNodup_snoc (hI.keys y hy) hv
    · rw [addRt_ne v l hyt]; exact hI.keys y hy

theorem Reachable.inv {m : Meta} (h : Reachable m) : RtInv m := by
  induction h with
  | init => exact rtInv_nil
  | type ty flags title _ hs ih => exact rtInv_markType ih hs
  | label ty v l _ hs ih => exact rtInv_markLabel ih hs

/-! ### Runtime metadata against the emulator's specification -/

theorem mem_metaToDefs {m : Meta} {d : MarkIn} : d ∈ metaToDefs m ↔ ∃ td ∈ m, d = defOfType td := by
  unfold metaToDefs
  rw [List.mem_map]
  constructor
  · rintro ⟨td, h, rfl⟩; exact ⟨td, h, rfl⟩
  · rintro ⟨td, h, rfl⟩; exact ⟨td, h, rfl⟩

theorem wellFormed_defOfType {td : TypeDef} (h0 : 0 ≤ td.type) (h1 : td.type < 100)
    (hk : KeysNodup td.labels) : WellFormed (defOfType td) := by
  refine ⟨h0, h1, rfl, ?_, hk.agree_self⟩
  show some (ctName td.stack) = some "single" ∨ some (ctName td.stack) = some "stack"
  rcases ctName_valid td.stack with h | h
  · exact Or.inl (by rw [h])
  · exact Or.inr (by rw [h])

/-- two threads' metadata agree: same title, channel type and compatible labels
    for every type both define -/
def MetaAgree (m₁ m₂ : Meta) : Prop :=
  ∀ a ∈ m₁, ∀ b ∈ m₂, a.type = b.type →
    a.title = b.title ∧ a.stack = b.stack ∧ LabelsAgree a.labels b.labels

instance (m₁ m₂ : Meta) : Decidable (MetaAgree m₁ m₂) := by unfold MetaAgree; infer_instance

theorem agree_defOfType_iff (a b : TypeDef) :
    Agree (defOfType a) (defOfType b) ↔
      (a.type = b.type → a.title = b.title ∧ a.stack = b.stack ∧ LabelsAgree a.labels b.labels) := by
  unfold Agree
  show (a.type = b.type → some a.title = some b.title ∧ some (ctName a.stack) = some (ctName b.stack) ∧
      LabelsAgree a.labels b.labels) ↔ _
  constructor
  · intro h ht
    obtain ⟨h1, h2, h3⟩ := h ht
    injection h1 with h1
    injection h2 with h2
    have := congrArg (fun s => decide (s = "stack")) h2
    simp only [decide_ctName] at this
    exact ⟨h1, this, h3⟩
  · intro h ht
    obtain ⟨h1, h2, h3⟩ := h ht
    exact ⟨by rw [h1], by rw [h2], h3⟩

theorem RtInv.metaAgree_self {m : Meta} (hI : RtInv m) : MetaAgree m m := by
  intro a ha b hb hty
  have : a = b := eq_of_nodup_map (fun x : TypeDef => x.type) (l := m) hI.types_nodup ha hb hty
  subst this
  exact ⟨rfl, rfl, (hI.keys a ha).agree_self⟩

theorem mem_flatten_metas {ms : List Meta} {d : MarkIn} :
    d ∈ (ms.map metaToDefs).flatten ↔ ∃ m ∈ ms, ∃ td ∈ m, d = defOfType td := by
  rw [List.mem_flatten]
  constructor
  · rintro ⟨l, hl, hd⟩
    obtain ⟨m, hm, rfl⟩ := List.mem_map.mp hl
    exact ⟨m, hm, mem_metaToDefs.mp hd⟩
  · rintro ⟨m, hm, h⟩
    exact ⟨metaToDefs m, List.mem_map_of_mem hm, mem_metaToDefs.mpr h⟩

/-- the metadata of several threads, each satisfying the runtime invariant,
    are jointly consistent exactly when they agree pairwise -/
theorem consistent_metas_iff {ms : List Meta} (hI : ∀ m ∈ ms, RtInv m) :
    Consistent (ms.map metaToDefs).flatten ↔ ∀ m₁ ∈ ms, ∀ m₂ ∈ ms, MetaAgree m₁ m₂ := by
  constructor
  · intro hC m₁ h₁ m₂ h₂ a ha b hb
    have := hC.2 (defOfType a) (mem_flatten_metas.mpr ⟨m₁, h₁, a, ha, rfl⟩)
      (defOfType b) (mem_flatten_metas.mpr ⟨m₂, h₂, b, hb, rfl⟩)
    exact (agree_defOfType_iff a b).mp this
  · intro hA
    constructor
    · intro d hd
      obtain ⟨m, hm, td, htd, rfl⟩ := mem_flatten_metas.mp hd
      obtain ⟨h0, h1⟩ := (hI m hm).range td htd
      exact wellFormed_defOfType h0 h1 ((hI m hm).keys td htd)
    · intro d hd d' hd'
      obtain ⟨m, hm, a, ha, rfl⟩ := mem_flatten_metas.mp hd
      obtain ⟨m', hm', b, hb, rfl⟩ := mem_flatten_metas.mp hd'
      exact (agree_defOfType_iff a b).mpr (hA m hm m' hm' a ha b hb)

end Ovni.Emu.MarkL
