import OvniModel.Lemmas.CoreBayConn
import OvniModel.Lemmas.BayTrack
import OvniModel.Emu.Prv

/-
  C06, last composition step (3/4): the handlers of the reference emulator
  (`Emu/Core.lean`) only perform channel operations, and on the source channels
  those are `Bay.Writes`.

  `Emu.src e s` reads source channel `s` out of the emulator state;
  `Mirrors e b`: every source channel of the bay IS the emulator's channel
  (whole `Chan`: values, `last_value`, dirty flag, properties);
  `Sim e e'`: from any bay mirroring `e` a sequence of writes to source channels
  leads to a bay mirroring `e'`.  `Sim` is proved for every primitive
  (`Emu.setThread` after thread.c operations, `Emu.setCpu` after `cpu_update`,
  `withChan`) and composed along the handlers.
-/
namespace Ovni.Emu
open Ovni.Generated

-- `Emu.specs` (Emu/Prv.lean): the channel specs the emulator was created with (`mkEmu`, `records`).

def Emu.shape (e : Emu) : Shape := ⟨e.threads.length, e.cpus.length, e.specs⟩

/-- Source channel `s` of the emulator state. -/
def Emu.src (e : Emu) : Src → Option Chan
  | .st g => (e.threads[g]?).map (·.chState)
  | .run c => (e.cpus[c]?).map (·.chThrun)
  | .act c => (e.cpus[c]?).map (·.chThact)
  | .raw g k i =>
    match e.threads[g]? with
    | none => none
    | some t =>
      match t.mch[k]? with
      | none => none
      | some x => x.2[i]?

/-- `th_running` holds null or the global index of an existing thread. -/
def RunOk (n : Nat) : Value → Prop
  | .null => True
  | .int k => 0 ≤ k ∧ k.toNat < n

/-- Structural invariant of the emulator state: `gindex` is the position,
    every thread has the channel groups of the specs (same order, same sizes),
    model characters are distinct, `th_running` names an existing thread. -/
structure Shaped (e : Emu) : Prop where
  thIdx : ∀ (g : Nat) (t : Thread), e.threads[g]? = some t → t.gindex = g
  cpuIdx : ∀ (c : Nat) (x : Cpu), e.cpus[c]? = some x → x.gindex = c
  mch : ∀ (g : Nat) (t : Thread), e.threads[g]? = some t →
    t.mch.map (fun x => (x.1, x.2.length)) = e.specs.map (fun s => (s.char, s.nch))
  chars : (e.specs.map (·.char)).Nodup
  run : ∀ (c : Nat) (x : Cpu), e.cpus[c]? = some x → RunOk e.threads.length x.chThrun.cur
  /-- the state channel shows the thread state (`thread_set_state` is the only writer) -/
  st : ∀ (g : Nat) (t : Thread), e.threads[g]? = some t →
    StateChan t.chState.cur t.state ∧ t.chState.ignoreDup = false

/-- Every source channel of the bay is the emulator's channel. -/
def Mirrors (e : Emu) (b : Bay) : Prop :=
  ∀ (s : Src) (ch : Chan), e.src s = some ch → b.chans[e.shape.idx s]? = some ch

theorem Shaped.mch_at {e : Emu} (hs : Shaped e) {g k : Nat} {t : Thread} {x : Nat × List Chan}
    (ht : e.threads[g]? = some t) (hx : t.mch[k]? = some x) :
    ∃ m, e.specs[k]? = some m ∧ m.char = x.1 ∧ m.nch = x.2.length := by
  have h := hs.mch g t ht
  have h1 : (t.mch.map (fun x => (x.1, x.2.length)))[k]? = some (x.1, x.2.length) := by
    rw [List.getElem?_map, hx]; rfl
  rw [h, List.getElem?_map] at h1
  cases hm : e.specs[k]? with
  | none => rw [hm] at h1; cases h1
  | some m =>
    rw [hm] at h1
    simp only [Option.map_some, Option.some.injEq, Prod.mk.injEq] at h1
    exact ⟨m, rfl, h1.1, h1.2⟩

theorem Shaped.mch_of_spec {e : Emu} (hs : Shaped e) {g k : Nat} {t : Thread} {m : ModelSpec}
    (ht : e.threads[g]? = some t) (hm : e.specs[k]? = some m) :
    ∃ cs, t.mch[k]? = some (m.char, cs) ∧ cs.length = m.nch := by
  have h := hs.mch g t ht
  have h1 : (e.specs.map (fun s => (s.char, s.nch)))[k]? = some (m.char, m.nch) := by
    rw [List.getElem?_map, hm]; rfl
  rw [← h, List.getElem?_map] at h1
  cases hx : t.mch[k]? with
  | none => rw [hx] at h1; cases h1
  | some x =>
    rw [hx] at h1
    simp only [Option.map_some, Option.some.injEq, Prod.mk.injEq] at h1
    obtain ⟨c, cs⟩ := x
    simp only at h1
    exact ⟨cs, by rw [h1.1], h1.2⟩

/-- A source the emulator has is a source of its shape. -/
theorem Shaped.src_mem {e : Emu} (hs : Shaped e) {s : Src} {ch : Chan} (h : e.src s = some ch) :
    s ∈ e.shape.addrs := by
  cases s with
  | st g =>
    rw [Shape.mem_st]
    simp only [Emu.src] at h
    cases ht : e.threads[g]? with
    | none => rw [ht] at h; cases h
    | some t => exact (List.getElem?_eq_some_iff.mp ht).1
  | run c =>
    rw [Shape.mem_run]
    simp only [Emu.src] at h
    cases ht : e.cpus[c]? with
    | none => rw [ht] at h; cases h
    | some t => exact (List.getElem?_eq_some_iff.mp ht).1
  | act c =>
    rw [Shape.mem_act]
    simp only [Emu.src] at h
    cases ht : e.cpus[c]? with
    | none => rw [ht] at h; cases h
    | some t => exact (List.getElem?_eq_some_iff.mp ht).1
  | raw g k i =>
    rw [Shape.mem_raw]
    simp only [Emu.src] at h
    cases ht : e.threads[g]? with
    | none => rw [ht] at h; cases h
    | some t =>
      rw [ht] at h
      simp only at h
      cases hx : t.mch[k]? with
      | none => rw [hx] at h; cases h
      | some x =>
        rw [hx] at h
        simp only at h
        obtain ⟨m, hm, _, hn⟩ := hs.mch_at ht hx
        exact ⟨(List.getElem?_eq_some_iff.mp ht).1, m, hm, by
          rw [hn]; exact (List.getElem?_eq_some_iff.mp h).1⟩

/-- thread state / CPU `th_running`, `th_active` (written by the ovni thread and affinity events) -/
def Src.isSys : Src → Prop
  | .raw _ _ _ => False
  | _ => True

/-- raw model channels (written by the models' own events) -/
def Src.isRaw : Src → Prop
  | .raw _ _ _ => True
  | _ => False

/-- channel ids of the sources of class `P` -/
def Shape.okP (σ : Shape) (P : Src → Prop) (c : Nat) : Prop := ∃ s, s ∈ σ.addrs ∧ P s ∧ c = σ.idx s

theorem Shape.okP_lt {σ : Shape} {P : Src → Prop} {c : Nat} (h : σ.okP P c) : c < σ.L := by
  obtain ⟨s, hs, _, rfl⟩ := h; exact σ.idx_lt hs

/-- `e'` is reachable from `e` by channel operations on sources of class `P`
    that the bay can replay. -/
def SimP (P : Src → Prop) (e e' : Emu) : Prop :=
  Shaped e → Shaped e' ∧ e'.shape = e.shape ∧
    ∀ b, Mirrors e b → ∃ b1, Bay.Writes (e.shape.okP P) b b1 ∧ Mirrors e' b1

/-- any source channels -/
def Sim (e e' : Emu) : Prop := SimP (fun _ => True) e e'

theorem SimP.refl {P : Src → Prop} (e : Emu) : SimP P e e := fun hs => ⟨hs, rfl, fun b hm => ⟨b, .nil b, hm⟩⟩

theorem SimP.trans {P : Src → Prop} {e e1 e2 : Emu} (h1 : SimP P e e1) (h2 : SimP P e1 e2) : SimP P e e2 := by
  intro hs
  obtain ⟨hs1, hsh1, hw1⟩ := h1 hs
  obtain ⟨hs2, hsh2, hw2⟩ := h2 hs1
  refine ⟨hs2, hsh2.trans hsh1, fun b hm => ?_⟩
  obtain ⟨b1, w1, m1⟩ := hw1 b hm
  obtain ⟨b2, w2, m2⟩ := hw2 b1 m1
  rw [hsh1] at w2
  exact ⟨b2, w1.trans w2, m2⟩

theorem SimP.mono {P Q : Src → Prop} {e e' : Emu} (hpq : ∀ s, P s → Q s) (h : SimP P e e') : SimP Q e e' := by
  intro hs
  obtain ⟨hs1, hsh1, hw1⟩ := h hs
  refine ⟨hs1, hsh1, fun b hm => ?_⟩
  obtain ⟨b1, w1, m1⟩ := hw1 b hm
  exact ⟨b1, w1.mono (fun c ⟨s, h1, h2, h3⟩ => ⟨s, h1, hpq s h2, h3⟩), m1⟩

theorem SimP.sim {P : Src → Prop} {e e' : Emu} (h : SimP P e e') : Sim e e' := h.mono (fun _ _ => trivial)

theorem Sim.refl (e : Emu) : Sim e e := SimP.refl e
theorem Sim.trans {e e1 e2 : Emu} (h1 : Sim e e1) (h2 : Sim e1 e2) : Sim e e2 := SimP.trans h1 h2

theorem Bay.write1 {b : Bay} {c : Nat} {ch ch' : Chan} {f : Chan → Except Err Chan}
    (hc : b.chans[c]? = some ch) (hfc : f ch = .ok ch') :
    ∃ b1, b.write c f = .ok b1 ∧ b1.chans[c]? = some ch' ∧ ∀ c', c' ≠ c → b1.chans[c']? = b.chans[c']? := by
  have hlt : c < b.chans.length := (List.getElem?_eq_some_iff.mp hc).1
  refine ⟨{ b with chans := b.chans.set c ch',
                    dirty := if !ch.dirty && ch'.dirty then b.dirty ++ [c] else b.dirty }, ?_, ?_, ?_⟩
  · unfold Bay.write; rw [hc]; simp only [hfc]
  · simp [hlt]
  · intro c' hne; simp [List.getElem?_set_ne (Ne.symm hne)]

/-- Nothing mirrored changes. -/
theorem SimP.of_same {P : Src → Prop} {e e' : Emu} (hsh : Shaped e → Shaped e' ∧ e'.shape = e.shape)
    (hsrc : ∀ s, e'.src s = e.src s) : SimP P e e' := by
  intro hs
  obtain ⟨hs', hshape⟩ := hsh hs
  refine ⟨hs', hshape, fun b hm => ⟨b, .nil b, ?_⟩⟩
  intro s ch h
  rw [hshape]; rw [hsrc] at h; exact hm s ch h

/-- One channel operation on source `s0`. -/
theorem SimP.of_write {P : Src → Prop} {e e' : Emu} (hsh : Shaped e → Shaped e' ∧ e'.shape = e.shape) (s0 : Src)
    (hP : P s0) {ch ch' : Chan} {f : Chan → Except Err Chan} (hf : ChanOp f)
    (h0 : e.src s0 = some ch) (hfc : f ch = .ok ch') (h0' : e'.src s0 = some ch')
    (hsrc : ∀ s, s ≠ s0 → e'.src s = e.src s) : SimP P e e' := by
  intro hs
  obtain ⟨hs', hshape⟩ := hsh hs
  refine ⟨hs', hshape, fun b hm => ?_⟩
  have hmem0 := hs.src_mem h0
  obtain ⟨b1, hw, h1, h2⟩ := Bay.write1 (hm s0 ch h0) hfc
  refine ⟨b1, .snoc (.nil b) ⟨s0, hmem0, hP, rfl⟩ hf hw, ?_⟩
  intro s c h
  rw [hshape]
  by_cases hne : s = s0
  · subst hne; rw [h0'] at h; cases h; exact h1
  · rw [hsrc s hne] at h
    have hmem := hs.src_mem h
    rw [h2 _ (fun e' => hne (e.shape.idx_inj hmem hmem0 e'))]
    exact hm s c h

/-! ### `Emu.src` after the primitive updates -/

theorem Emu.src_setThread {e : Emu} {ti : Nat} {t t' : Thread} (ht : e.threads[ti]? = some t)
    (hg : t'.gindex = ti) (hmch : t'.mch = t.mch) (s : Src) (hne : s ≠ .st ti) :
    (e.setThread t').src s = e.src s := by
  have hlt : ti < e.threads.length := (List.getElem?_eq_some_iff.mp ht).1
  cases s with
  | st g =>
    have : ti ≠ g := fun h => hne (by rw [h])
    simp only [Emu.src, Emu.setThread, hg, List.getElem?_set_ne this]
  | run c => rfl
  | act c => rfl
  | raw g k i =>
    simp only [Emu.src, Emu.setThread, hg]
    by_cases h : ti = g
    · subst h; simp only [List.getElem?_set_self hlt, ht, hmch]
    · rw [List.getElem?_set_ne h]

theorem Emu.src_setThread_st {e : Emu} {ti : Nat} {t t' : Thread} (ht : e.threads[ti]? = some t)
    (hg : t'.gindex = ti) : (e.setThread t').src (.st ti) = some t'.chState := by
  have hlt : ti < e.threads.length := (List.getElem?_eq_some_iff.mp ht).1
  simp only [Emu.src, Emu.setThread, hg, List.getElem?_set_self hlt, Option.map_some]

theorem Shaped.setThread {e : Emu} (hs : Shaped e) {ti : Nat} {t t' : Thread} (ht : e.threads[ti]? = some t)
    (hg : t'.gindex = ti) (hmch : t'.mch = t.mch)
    (hst : StateChan t'.chState.cur t'.state ∧ t'.chState.ignoreDup = false) :
    Shaped (e.setThread t') ∧ (e.setThread t').shape = e.shape := by
  have hlt : ti < e.threads.length := (List.getElem?_eq_some_iff.mp ht).1
  have hspecs : (e.setThread t').specs = e.specs := rfl
  have hthr : (e.setThread t').threads = e.threads.set ti t' := by simp [Emu.setThread, hg]
  refine ⟨⟨?_, hs.cpuIdx, ?_, hs.chars, ?_, ?_⟩, ?_⟩
  · intro g u hu
    rw [hthr] at hu
    rcases getElem?_set_some hu with ⟨rfl, rfl⟩ | ⟨_, h⟩
    · exact hg
    · exact hs.thIdx g u h
  · intro g u hu
    rw [hthr] at hu
    rw [hspecs]
    rcases getElem?_set_some hu with ⟨rfl, rfl⟩ | ⟨_, h⟩
    · rw [hmch]; exact hs.mch g t ht
    · exact hs.mch g u h
  · intro c x hx
    rw [hthr, List.length_set]
    exact hs.run c x hx
  · intro g u hu
    rw [hthr] at hu
    rcases getElem?_set_some hu with ⟨rfl, rfl⟩ | ⟨_, h⟩
    · exact hst
    · exact hs.st g u h
  · simp only [Emu.shape, hthr, List.length_set]; rfl

/-- `thread_set_state` & co. stored back: one operation on the state channel. -/
theorem SimP.setThread {P : Src → Prop} {e : Emu} {ti : Nat} {t t' : Thread} (hP : P (.st ti))
    (ht : e.threads[ti]? = some t)
    (hg : t'.gindex = t.gindex) (hmch : t'.mch = t.mch)
    {f : Chan → Except Err Chan} (hf : ChanOp f) (hfc : f t.chState = .ok t'.chState)
    (hst : t.chState.ignoreDup = false → StateChan t'.chState.cur t'.state) :
    SimP P e (e.setThread t') := by
  intro hs
  have hgi : t'.gindex = ti := hg.trans (hs.thIdx ti t ht)
  exact SimP.of_write (fun hs => hs.setThread ht hgi hmch
      ⟨hst (hs.st ti t ht).2, by rw [(hf _ _ hfc).2.2.2.2]; exact (hs.st ti t ht).2⟩) (.st ti) hP hf
    (by simp only [Emu.src, ht, Option.map_some]) hfc (Emu.src_setThread_st ht hgi)
    (fun s hne => Emu.src_setThread ht hgi hmch s hne) hs

/-- A thread update that touches no mirrored channel. -/
theorem SimP.setThread_same {P : Src → Prop} {e : Emu} {ti : Nat} {t t' : Thread} (ht : e.threads[ti]? = some t)
    (hg : t'.gindex = t.gindex) (hmch : t'.mch = t.mch) (hst : t'.chState = t.chState)
    (hstate : t'.state = t.state) :
    SimP P e (e.setThread t') := by
  intro hs
  have hgi : t'.gindex = ti := hg.trans (hs.thIdx ti t ht)
  refine SimP.of_same (fun hs => hs.setThread ht hgi hmch (by rw [hst, hstate]; exact hs.st ti t ht))
    (fun s => ?_) hs
  by_cases hne : s = .st ti
  · subst hne
    rw [Emu.src_setThread_st ht hgi, hst]
    simp only [Emu.src, ht, Option.map_some]
  · exact Emu.src_setThread ht hgi hmch s hne

theorem Emu.src_setCpu {e : Emu} {ci : Nat} {c c' : Cpu} (_hc : e.cpus[ci]? = some c)
    (hg : c'.gindex = ci) (s : Src) (hr : s ≠ .run ci) (ha : s ≠ .act ci) :
    (e.setCpu c').src s = e.src s := by
  cases s with
  | st g => rfl
  | raw g k i => rfl
  | run x =>
    have : ci ≠ x := fun h => hr (by rw [h])
    simp only [Emu.src, Emu.setCpu, hg, List.getElem?_set_ne this]
  | act x =>
    have : ci ≠ x := fun h => ha (by rw [h])
    simp only [Emu.src, Emu.setCpu, hg, List.getElem?_set_ne this]

theorem Emu.src_setCpu_run {e : Emu} {ci : Nat} {c c' : Cpu} (hc : e.cpus[ci]? = some c)
    (hg : c'.gindex = ci) : (e.setCpu c').src (.run ci) = some c'.chThrun ∧
      (e.setCpu c').src (.act ci) = some c'.chThact := by
  have hlt : ci < e.cpus.length := (List.getElem?_eq_some_iff.mp hc).1
  simp only [Emu.src, Emu.setCpu, hg, List.getElem?_set_self hlt, Option.map_some, and_self]

theorem Shaped.setCpu {e : Emu} (hs : Shaped e) {ci : Nat} {c c' : Cpu} (hc : e.cpus[ci]? = some c)
    (hg : c'.gindex = ci) (hrun : RunOk e.threads.length c'.chThrun.cur) :
    Shaped (e.setCpu c') ∧ (e.setCpu c').shape = e.shape := by
  have hcp : (e.setCpu c').cpus = e.cpus.set ci c' := by simp [Emu.setCpu, hg]
  refine ⟨⟨hs.thIdx, ?_, hs.mch, hs.chars, ?_, hs.st⟩, ?_⟩
  · intro g u hu
    rw [hcp] at hu
    rcases getElem?_set_some hu with ⟨rfl, rfl⟩ | ⟨_, h⟩
    · exact hg
    · exact hs.cpuIdx g u h
  · intro g u hu
    rw [hcp] at hu
    show RunOk e.threads.length _
    rcases getElem?_set_some hu with ⟨rfl, rfl⟩ | ⟨_, h⟩
    · exact hrun
    · exact hs.run g u h
  · simp only [Emu.shape, hcp, List.length_set]; rfl

/-- `cpu_update` stored back: one operation on `th_running`, one on `th_active`. -/
theorem SimP.setCpu {P : Src → Prop} {e : Emu} {ci : Nat} {c c' : Cpu} (hPr : P (.run ci)) (hPa : P (.act ci))
    (hc : e.cpus[ci]? = some c)
    (hg : c'.gindex = c.gindex)
    {f1 f2 : Chan → Except Err Chan} (hf1 : ChanOp f1) (hf2 : ChanOp f2)
    (h1 : f1 c.chThrun = .ok c'.chThrun) (h2 : f2 c.chThact = .ok c'.chThact)
    (hrun : RunOk e.threads.length c'.chThrun.cur) : SimP P e (e.setCpu c') := by
  intro hs
  have hgi : c'.gindex = ci := hg.trans (hs.cpuIdx ci c hc)
  -- intermediate state: only `th_running` written
  let c1 : Cpu := { c with chThrun := c'.chThrun }
  have hg1 : c1.gindex = ci := hs.cpuIdx ci c hc
  have hlt : ci < e.cpus.length := (List.getElem?_eq_some_iff.mp hc).1
  have hc1 : (e.setCpu c1).cpus[ci]? = some c1 := by
    simp only [Emu.setCpu, hg1, List.getElem?_set_self hlt]
  have hfin : (e.setCpu c1).setCpu c' = e.setCpu c' := by
    simp only [Emu.setCpu, hg1, hgi, List.set_set]
  have s1 : SimP P e (e.setCpu c1) :=
    SimP.of_write (fun hs => hs.setCpu hc hg1 hrun) (.run ci) hPr hf1
      (by simp only [Emu.src, hc, Option.map_some]) h1 (Emu.src_setCpu_run hc hg1).1
      (fun s hne => by
        by_cases ha : s = .act ci
        · subst ha
          rw [(Emu.src_setCpu_run hc hg1).2]
          simp only [Emu.src, hc, Option.map_some]; rfl
        · exact Emu.src_setCpu hc hg1 s hne ha)
  have s2 : SimP P (e.setCpu c1) (e.setCpu c') := by
    rw [← hfin]
    refine SimP.of_write (fun hs1 => hs1.setCpu hc1 hgi hrun) (.act ci) hPa hf2
      (by simp only [Emu.src, hc1, Option.map_some]; rfl) h2 (Emu.src_setCpu_run hc1 hgi).2
      (fun s hne => ?_)
    by_cases hr : s = .run ci
    · subst hr
      rw [(Emu.src_setCpu_run hc1 hgi).1]
      simp only [Emu.src, hc1, Option.map_some]; rfl
    · exact Emu.src_setCpu hc1 hgi s hr hne
  exact (s1.trans s2) hs

end Ovni.Emu
