import OvniModel.Tools.Ovnisort
import OvniModel.Lemmas.OvnisortSort
import OvniModel.Lemmas.OvnisortRing
/-! The invariant of `stream_winsort` under the preconditions of C16. -/
namespace Ovni.Ovnisort

theorem clockAt_eq {buf : List Ev} {i : Nat} (h : i < buf.length) : clockAt buf i = buf[i].clock := by
  unfold clockAt
  rw [List.getD_eq_getElem?_getD, List.getElem?_eq_getElem h]; rfl

theorem forall_mem_drop {buf : List Ev} {j c : Nat}
    (h : ∀ i, j ≤ i → i < buf.length → c ≤ clockAt buf i) : ∀ y ∈ buf.drop j, c ≤ y.clock := by
  intro y hy
  obtain ⟨i, hi, rfl⟩ := List.getElem_of_mem hy
  rw [List.getElem_drop]
  rw [List.length_drop] at hi
  have := h (j + i) (by omega) (by omega)
  rwa [clockAt_eq (by omega)] at this

theorem Sorted.snoc {l : List Ev} {e : Ev} (h : Sorted l) (he : ∀ x ∈ l, x.clock ≤ e.clock) :
    Sorted (l ++ [e]) := by
  unfold Sorted at *
  rw [List.pairwise_append]
  refine ⟨h, List.pairwise_singleton _ _, fun a ha b hb => ?_⟩
  rw [List.mem_singleton] at hb; subst hb; exact he a ha

theorem geCount_append (m : Nat) (a b : List Ev) : geCount m (a ++ b) = geCount m a + geCount m b := by
  unfold geCount; rw [List.filter_append, List.length_append]

theorem geCount_all {m : Nat} {l : List Ev} (h : ∀ y ∈ l, m ≤ y.clock) : geCount m l = l.length := by
  unfold geCount
  rw [List.filter_eq_self.2]
  intro a ha; simpa using h a ha

theorem geCount_none {m : Nat} {l : List Ev} (h : ∀ y ∈ l, y.clock < m) : geCount m l = 0 := by
  unfold geCount
  rw [List.length_eq_zero_iff, List.filter_eq_nil_iff]
  intro a ha; have := h a ha; simp; omega

theorem geCount_perm {m : Nat} {a b : List Ev} (h : a.Perm b) : geCount m a = geCount m b := by
  unfold geCount; exact (h.filter _).length_eq

theorem windowOkAt_perm {n m : Nat} {a b : List Ev} (h : a.Perm b) : windowOkAt n m a = windowOkAt n m b := by
  unfold windowOkAt; rw [geCount_perm h, h.length_eq]

theorem regionMin_le {buf : List Ev} {bad0 : Nat} : ∀ y ∈ buf.drop bad0, regionMin buf bad0 ≤ y.clock :=
  minClock_le_mem _ _

/-- What `execute_sort_plan` does under the invariant, in terms of the window
    condition. -/
theorem execAbs_spec {sortFn : List Ev → List Ev} (hf : IsSort sortFn) {n : Nat} (hn : 0 < n)
    {buf : List Ev} {bad0 : Nat} (hb : bad0 < buf.length) (hs : Sorted (buf.take bad0))
    (hc : ∀ e ∈ buf, e.clock < 2 ^ 63) :
    (windowOkAt n (regionMin buf bad0) buf = true →
      ∃ first, execAbs sortFn n buf bad0 =
          (Status.ok, buf.take first ++ sortFn (buf.drop first), some (first, buf.length)) ∧
        Sorted (buf.take first ++ sortFn (buf.drop first))) ∧
    (windowOkAt n (regionMin buf bad0) buf = false →
      execAbs sortFn n buf bad0 = (Status.errNoDest, buf, none)) := by
  have hreg := @regionMin_le buf bad0
  unfold execAbs
  generalize regionMin buf bad0 = m at *
  have hsorted : ∀ first, Sorted (sortFn (buf.drop first)) := fun first =>
    (hf _).2.sorted (fun e he => hc e (List.mem_of_mem_drop ((hf _).1.mem_iff.1 he)))
  have hchain : ∀ first, chainOk 0 (sortFn (buf.drop first)) = true := fun first =>
    chainOk_of_sorted (hsorted first) 0 (fun _ _ => Nat.zero_le _)
  cases hsc : scanBack buf m (min buf.length (n - 1)) buf.length with
  | some j =>
    obtain ⟨hj1, hj2, hj3, hj4⟩ := scanBack_some hsc (by omega)
    have hfo : firstOf n buf m = some j := by unfold firstOf; rw [hsc]
    have hjb : j < bad0 := by
      rcases Nat.lt_or_ge j bad0 with h | h
      · exact h
      · have hmem : buf[j] ∈ buf.drop bad0 := by
          rw [List.mem_iff_getElem]
          refine ⟨j - bad0, by rw [List.length_drop]; omega, ?_⟩
          rw [List.getElem_drop]; congr 1; omega
        have := hreg _ hmem
        rw [clockAt_eq hj1] at hj3; omega
    have hQ : ∀ y ∈ buf.drop (j + 1), m ≤ y.clock := forall_mem_drop (fun i h1 h2 => hj4 i (by omega) h2)
    have hsplit : buf.drop j = buf[j] :: buf.drop (j + 1) := List.drop_eq_getElem_cons hj1
    have hP1 : Sorted (buf.take (j + 1)) := by
      have : buf.take (j + 1) = (buf.take bad0).take (j + 1) := by
        rw [List.take_take]; congr 1; omega
      rw [this]; exact List.Pairwise.sublist (List.take_sublist _ _) hs
    have hP1' : buf.take (j + 1) = buf.take j ++ [buf[j]] := by
      rw [List.take_succ_eq_append_getElem hj1]
    rw [hP1'] at hP1
    unfold Sorted at hP1
    rw [List.pairwise_append] at hP1
    have hPd : ∀ x ∈ buf.take j, x.clock ≤ buf[j].clock := fun x hx => hP1.2.2 x hx _ (List.mem_singleton.2 rfl)
    have hdm : buf[j].clock < m := by rwa [clockAt_eq hj1] at hj3
    constructor
    · intro _
      refine ⟨j, by simp only [hfo, hchain, if_true], ?_⟩
      unfold Sorted
      rw [List.pairwise_append]
      refine ⟨hP1.1, hsorted j, fun a ha b hb => ?_⟩
      have hb' := (hf _).1.mem_iff.1 hb
      rw [hsplit] at hb'
      rcases List.mem_cons.1 hb' with rfl | hb'
      · exact hPd a ha
      · have := hPd a ha; have := hQ b hb'; omega
    · intro hw
      exfalso
      -- the window condition holds in this case
      have hg : geCount m buf = buf.length - j - 1 := by
        conv => lhs; rw [← List.take_append_drop j buf, hsplit]
        rw [geCount_append, geCount_none (fun y hy => by have := hPd y hy; omega)]
        have : geCount m (buf[j] :: buf.drop (j + 1)) = geCount m (buf.drop (j + 1)) := by
          unfold geCount
          rw [List.filter_cons]
          simp [show ¬ (m ≤ buf[j].clock) by omega]
        rw [this, geCount_all hQ, List.length_drop]; omega
      unfold windowOkAt at hw
      rw [hg] at hw
      simp at hw
      omega
  | none =>
    have hn4 := scanBack_none hsc (by omega)
    have hge : min buf.length (n - 1) ≤ geCount m buf := by
      conv => rhs; rw [← List.take_append_drop (buf.length - min buf.length (n - 1)) buf]
      rw [geCount_append, geCount_all (forall_mem_drop hn4), List.length_drop]
      omega
    by_cases hk : buf.length + 1 < n
    · have hfo : firstOf n buf m = some 0 := by unfold firstOf; rw [hsc]; simp [hk]
      constructor
      · intro _
        refine ⟨0, by simp only [hfo, hchain, if_true], ?_⟩
        simp only [List.take_zero, List.nil_append]
        exact hsorted 0
      · intro hw
        unfold windowOkAt at hw
        simp [hk] at hw
    · have hfo : firstOf n buf m = none := by unfold firstOf; rw [hsc]; simp [hk]
      constructor
      · intro hw
        exfalso
        unfold windowOkAt at hw
        simp [hk] at hw
        omega
      · intro _
        simp only [hfo]

/-! ### region_in_place -/

/-- clock of the last event of `l` (`c` if there is none) -/
def endClock (c : Nat) : List Ev → Nat
  | [] => c
  | e :: l => endClock e.clock l

theorem endClock_append (c : Nat) (a b : List Ev) : endClock c (a ++ b) = endClock (endClock c a) b := by
  induction a generalizing c with
  | nil => rfl
  | cons x t ih => exact ih x.clock

theorem endClock_snoc (c : Nat) (l : List Ev) (e : Ev) : endClock c (l ++ [e]) = e.clock := by
  rw [endClock_append]; rfl

theorem endClock_ne_nil {l : List Ev} (h : l ≠ []) (c c' : Nat) : endClock c l = endClock c' l := by
  cases l with
  | nil => exact absurd rfl h
  | cons x t => rfl

theorem endClock_drop {l : List Ev} {j : Nat} (h : j < l.length) (c c' : Nat) :
    endClock c (l.drop j) = endClock c' l := by
  conv => rhs; rw [← List.take_append_drop j l, endClock_append]
  apply endClock_ne_nil
  intro h0
  have := congrArg List.length h0
  rw [List.length_drop] at this
  simp at this; omega

theorem chainOk_snoc (c : Nat) (l : List Ev) (e : Ev) :
    chainOk c (l ++ [e]) = (chainOk c l && decide (endClock c l ≤ e.clock)) := by
  induction l generalizing c with
  | nil =>
    simp only [List.nil_append, chainOk, endClock, Bool.true_and]
    by_cases h : e.clock < c
    · have : ¬ (c ≤ e.clock) := by omega
      simp [h, this]
    · have : c ≤ e.clock := by omega
      simp [h, this]
  | cons x t ih =>
    simp only [List.cons_append, chainOk, endClock]
    split
    · rfl
    · exact ih x.clock

theorem regionInPlace_eq (buf : List Ev) (opn : Nat) :
    regionInPlace buf opn = chainOk (clockAt buf opn) (buf.drop opn) := inPlaceLoop_eq _ _

/-- right after the `OU[` marker the region is (trivially) in place -/
theorem regionInPlace_single {l : List Ev} {opn : Nat} (h : opn + 1 = l.length) : regionInPlace l opn = true := by
  have hlt : opn < l.length := by omega
  rw [regionInPlace_eq, List.drop_eq_getElem_cons hlt, clockAt_eq hlt,
    List.drop_of_length_le (by omega)]
  simp [chainOk]

theorem regionInPlace_snoc {l : List Ev} {opn : Nat} (e : Ev) (h : opn < l.length) :
    regionInPlace (l ++ [e]) opn = (regionInPlace l opn && decide (endClock 0 l ≤ e.clock)) := by
  rw [regionInPlace_eq, regionInPlace_eq]
  have h1 : clockAt (l ++ [e]) opn = clockAt l opn := by
    rw [clockAt_eq (by rw [List.length_append]; omega), clockAt_eq h, List.getElem_append_left h]
  rw [h1, List.drop_append_of_le_length (by omega), chainOk_snoc, endClock_drop h _ 0]

/-- a sorted prefix up to the marker followed by a region in place is sorted -/
theorem sorted_of_inPlace {l : List Ev} {opn : Nat} (h : opn < l.length) (hs : Sorted (l.take (opn + 1)))
    (hip : regionInPlace l opn = true) : Sorted l := by
  rw [regionInPlace_eq, clockAt_eq h] at hip
  obtain ⟨h1, h2⟩ := chainOk_sorted hip
  rw [List.take_succ_eq_append_getElem h] at hs
  unfold Sorted at hs ⊢
  rw [List.pairwise_append] at hs
  rw [← List.take_append_drop opn l, List.pairwise_append]
  refine ⟨hs.1, h1, fun a ha b hb => ?_⟩
  have := hs.2.2 a ha _ (List.mem_singleton.2 rfl)
  have := h2 b hb
  omega

theorem inPlace_of_sorted {l : List Ev} {opn : Nat} (h : opn < l.length) (hs : Sorted l) :
    regionInPlace l opn = true := by
  rw [regionInPlace_eq, clockAt_eq h]
  have hd : Sorted (l.drop opn) := List.Pairwise.sublist (List.drop_sublist _ _) hs
  apply chainOk_of_sorted hd
  intro x hx
  rw [List.drop_eq_getElem_cons h] at hx hd
  rcases List.mem_cons.1 hx with rfl | hx
  · exact Nat.le_refl _
  · exact (List.pairwise_cons.1 hd).1 x hx

/-- `execute_sort_plan` on a region in place: nothing happens -/
theorem exec_inPlace {sortFn : List Ev → List Ev} {buf : List Ev} {r : Ring} {opn bad0 : Nat}
    (h : regionInPlace buf opn = true) : executeSortPlan sortFn buf r opn bad0 = (Status.ok, buf, r, none) := by
  unfold executeSortPlan; rw [if_pos h]

theorem exec_notInPlace {sortFn : List Ev → List Ev} {buf : List Ev} {r : Ring} {opn bad0 : Nat}
    (h : regionInPlace buf opn = false) : executeSortPlan sortFn buf r opn bad0 = sortRegion sortFn buf r bad0 := by
  unfold executeSortPlan; rw [if_neg (by rw [h]; exact Bool.false_ne_true)]

/-! ### the loop invariant -/

structure Inv (n : Nat) (s : WS) (pre : List Ev) : Prop where
  ring : RInv n s.ring s.done.length
  perm : s.done.Perm pre
  srt : match s.st with
    | St.S => Sorted s.done
    | St.U => Sorted s.done
    | St.X => s.bad0 < s.done.length ∧ Sorted (s.done.take s.bad0)

theorem clockAt_snoc_lt {l : List Ev} {e : Ev} {i : Nat} (h : i < l.length) :
    clockAt (l ++ [e]) i = clockAt l i := by
  rw [clockAt_eq (by rw [List.length_append]; omega), clockAt_eq h, List.getElem_append_left h]

theorem clockAt_snoc_eq {l : List Ev} {e : Ev} : clockAt (l ++ [e]) l.length = e.clock := by
  rw [clockAt_eq (by rw [List.length_append]; simp)]
  simp

theorem regionMin_start (l : List Ev) (e : Ev) : regionMin (l ++ [e]) l.length = e.clock := by
  unfold regionMin
  rw [clockAt_snoc_eq, List.drop_left' rfl]
  simp [minClock]

theorem regionMin_snoc {l : List Ev} {e : Ev} {b : Nat} (h : b < l.length) :
    regionMin (l ++ [e]) b = min (regionMin l b) e.clock := by
  unfold regionMin
  rw [clockAt_snoc_lt h, List.drop_append_of_le_length (by omega), minClock_snoc]

theorem perm_snoc {a b : List Ev} (e : Ev) (h : a.Perm b) : (a ++ [e]).Perm (b ++ [e]) :=
  List.Perm.append_right _ h

theorem perm_cons_snoc {p pre : List Ev} (e : Ev) (h : p.Perm pre) : (e :: p).Perm (pre ++ [e]) :=
  (List.Perm.cons e h).trans (List.perm_append_singleton e pre).symm

/-- the state after `ring_add(r, ev)` (event index `k`) and advancing the cursor -/
def addEv (s : WS) (k : Nat) (e : Ev) : WS :=
  { s with ring := ringAdd s.ring k, done := s.done ++ [e] }

/-- the state after a successful `execute_sort_plan` -/
def sortedState (s : WS) (buf' : List Ev) (r' : Ring) (p : Option (Nat × Nat)) : WS :=
  { s with done := buf', ring := r', st := St.S, opn := 0, bad0 := 0, plans := s.plans ++ p.toList }

theorem wsStep_S_start {sortFn s e} (h : s.st = St.S) (hk : e.kind = Kind.start) :
    wsStep sortFn s e = .ok (addEv { s with st := St.U, opn := s.done.length } s.done.length e) := by
  simp [wsStep, h, hk, addEv]

theorem wsStep_S_other {sortFn s e} (h : s.st = St.S) (hk : e.kind ≠ Kind.start) :
    wsStep sortFn s e = .ok (addEv s s.done.length e) := by
  simp [wsStep, h, hk, addEv]

theorem wsStep_U_stop {sortFn s e} (h : s.st = St.U) (hk : e.kind = Kind.stop) :
    wsStep sortFn s e =
      .ok (addEv { s with st := St.S, emptyRegions := s.emptyRegions + 1 } s.done.length e) := by
  simp [wsStep, h, hk, addEv]

theorem wsStep_U_other {sortFn s e} (h : s.st = St.U) (hk : e.kind ≠ Kind.stop) :
    wsStep sortFn s e = .ok (addEv { s with st := St.X, bad0 := s.done.length } s.done.length e) := by
  simp [wsStep, h, hk, addEv]

theorem wsStep_X_other {sortFn s e} (h : s.st = St.X) (hk : e.kind ≠ Kind.stop) :
    wsStep sortFn s e = .ok (addEv s s.done.length e) := by
  simp [wsStep, h, hk, addEv]

theorem wsStep_X_stop {sortFn s e} (h : s.st = St.X) (hk : e.kind = Kind.stop) :
    wsStep sortFn s e =
      match executeSortPlan sortFn s.done s.ring s.opn s.bad0 with
      | (Status.ok, buf', r', p) => .ok (addEv (sortedState s buf' r' p) s.done.length e)
      | (st, buf', _, p) => .error (st, buf', s.plans ++ p.toList) := by
  simp only [wsStep, h, hk, addEv, sortedState]
  simp
  rfl

theorem Inv.add {n s pre e k} (hn : 0 < n) (hk : k = s.done.length)
    (hr : RInv n s.ring s.done.length) (hp : s.done.Perm pre)
    (hsrt : match s.st with
      | St.S => Sorted (s.done ++ [e])
      | St.U => Sorted (s.done ++ [e])
      | St.X => s.bad0 < (s.done ++ [e]).length ∧ Sorted ((s.done ++ [e]).take s.bad0)) :
    Inv n (addEv s k e) (pre ++ [e]) := by
  subst hk
  refine ⟨?_, perm_snoc e hp, hsrt⟩
  show RInv n (ringAdd s.ring s.done.length) (s.done ++ [e]).length
  rw [List.length_append]
  exact ringAdd_inv hn hr

theorem wsLoop_main {sortFn : List Ev → List Ev} (hf : IsSort sortFn) {n : Nat} (hn : 0 < n) :
    ∀ (rest : List Ev) (s : WS) (pre : List Ev) (mx : Nat) (p : List Ev) (m : Nat) (ip : Bool) (last : Nat),
      Inv n s pre →
      (∀ x ∈ pre, x.clock ≤ mx) →
      (∀ x ∈ pre ++ rest, x.clock < 2 ^ 63) →
      regionsOk s.st mx rest = true →
      p.Perm pre →
      (s.st = St.X → m = regionMin s.done s.bad0) →
      last = endClock 0 s.done →
      (s.st = St.U → s.opn + 1 = s.done.length) →
      (s.st = St.X → s.opn + 1 = s.bad0 ∧ ip = regionInPlace s.done s.opn) →
      (windowOk n s.st p m ip last rest = true →
        (wsLoop sortFn false s rest).status = Status.ok ∧ Sorted (wsLoop sortFn false s rest).out ∧
          (wsLoop sortFn false s rest).out.Perm (pre ++ rest)) ∧
      (windowOk n s.st p m ip last rest = false → (wsLoop sortFn false s rest).status = Status.errNoDest) := by
  intro rest
  induction rest with
  | nil =>
    intro s pre mx p m ip last hinv hmx hclk hreg hp hm _ _ _
    have hst : s.st = St.S := by
      unfold regionsOk at hreg
      simpa using hreg
    have hsrt := hinv.srt
    rw [hst] at hsrt
    simp only [wsLoop, List.append_nil]
    refine ⟨fun _ => ⟨by simp, hsrt, hinv.perm⟩, fun h => ?_⟩
    unfold windowOk at h; cases h
  | cons e rest ih =>
    intro s pre mx p m ip last hinv hmx hclk hreg hp hm hlast hU hX
    have hassoc : pre ++ e :: rest = (pre ++ [e]) ++ rest := by simp
    have hmx' : ∀ x ∈ pre ++ [e], x.clock ≤ max mx e.clock := by
      intro x hx
      rcases List.mem_append.1 hx with hx | hx
      · have := hmx x hx; omega
      · rw [List.mem_singleton] at hx; subst hx; omega
    have hclk' : ∀ x ∈ (pre ++ [e]) ++ rest, x.clock < 2 ^ 63 := by rw [← hassoc]; exact hclk
    have hdone_le : ∀ x ∈ s.done, x.clock ≤ mx := fun x hx => hmx x (hinv.perm.mem_iff.1 hx)
    have hp' : (e :: p).Perm (pre ++ [e]) := perm_cons_snoc e hp
    have hlast' : ∀ d : List Ev, e.clock = endClock 0 (d ++ [e]) := fun d => (endClock_snoc 0 d e).symm
    have hsrtv := hinv.srt
    rw [hassoc]
    cases hst : s.st with
    | S =>
      rw [hst] at hreg hsrtv
      simp only [regionsOk, Bool.and_eq_true, decide_eq_true_eq] at hreg
      have hsn : Sorted (s.done ++ [e]) := hsrtv.snoc (fun x hx => by have := hdone_le x hx; omega)
      by_cases hk : e.kind = Kind.start
      · have hstep := @wsStep_S_start sortFn s e hst hk
        have hinv' : Inv n (addEv { s with st := St.U, opn := s.done.length } s.done.length e) (pre ++ [e]) :=
          Inv.add (s := { s with st := St.U, opn := s.done.length }) hn rfl hinv.ring hinv.perm hsn
        have := ih _ (pre ++ [e]) (max mx e.clock) (e :: p) 0 true e.clock hinv' hmx' hclk'
          (by simpa [addEv, hk] using hreg.2) hp' (by intro h; cases h) (hlast' _)
          (by intro _; show s.done.length + 1 = (s.done ++ [e]).length; simp)
          (by intro h; cases h)
        simp only [wsLoop, hstep, windowOk, hk, if_true]
        exact this
      · have hstep := @wsStep_S_other sortFn s e hst hk
        have hinv' : Inv n (addEv s s.done.length e) (pre ++ [e]) := by
          apply Inv.add hn rfl hinv.ring hinv.perm; rw [hst]; exact hsn
        have := ih _ (pre ++ [e]) (max mx e.clock) (e :: p) 0 true e.clock hinv' hmx' hclk'
          (by simpa [addEv, hk, hst] using hreg.2) hp' (by intro h; simp [addEv, hst] at h) (hlast' _)
          (by intro h; simp [addEv, hst] at h) (by intro h; simp [addEv, hst] at h)
        simp only [wsLoop, hstep, windowOk, hk, if_false]
        simpa [addEv, hst] using this
    | U =>
      rw [hst] at hreg hsrtv
      have hopn := hU hst
      by_cases hk : e.kind = Kind.stop
      · simp only [regionsOk, hk, if_true, Bool.and_eq_true, decide_eq_true_eq] at hreg
        have hsn : Sorted (s.done ++ [e]) := hsrtv.snoc (fun x hx => by have := hdone_le x hx; omega)
        have hstep := @wsStep_U_stop sortFn s e hst hk
        have hinv' : Inv n (addEv { s with st := St.S, emptyRegions := s.emptyRegions + 1 } s.done.length e)
            (pre ++ [e]) :=
          Inv.add (s := { s with st := St.S, emptyRegions := s.emptyRegions + 1 }) hn rfl
            hinv.ring hinv.perm hsn
        have := ih _ (pre ++ [e]) (max mx e.clock) (e :: p) 0 true e.clock hinv' hmx' hclk'
          (by simpa [addEv] using hreg.2) hp' (by intro h; cases h) (hlast' _)
          (by intro h; cases h) (by intro h; cases h)
        simp only [wsLoop, hstep, windowOk, hk, if_true]
        exact this
      · simp only [regionsOk, hk, if_false] at hreg
        have hstep := @wsStep_U_other sortFn s e hst hk
        have hinv' : Inv n (addEv { s with st := St.X, bad0 := s.done.length } s.done.length e) (pre ++ [e]) :=
          Inv.add (s := { s with st := St.X, bad0 := s.done.length }) hn rfl hinv.ring hinv.perm
            (by
              show s.done.length < (s.done ++ [e]).length ∧ Sorted ((s.done ++ [e]).take s.done.length)
              rw [List.take_left' rfl, List.length_append]
              exact ⟨by simp, hsrtv⟩)
        have hipe : decide (last ≤ e.clock) = regionInPlace (s.done ++ [e]) s.opn := by
          rw [regionInPlace_snoc e (by omega), regionInPlace_single hopn, Bool.true_and, hlast]
        have := ih _ (pre ++ [e]) (max mx e.clock) (e :: p) e.clock (decide (last ≤ e.clock)) e.clock
          hinv' hmx' hclk' (by simpa [addEv] using hreg) hp'
          (by intro _; show e.clock = regionMin (s.done ++ [e]) s.done.length; rw [regionMin_start])
          (hlast' _) (by intro h; cases h) (by intro _; exact ⟨hopn, hipe⟩)
        simp only [wsLoop, hstep, windowOk, hk, if_false]
        exact this
    | X =>
      rw [hst] at hreg hsrtv
      have hmeq : m = regionMin s.done s.bad0 := hm hst
      obtain ⟨hopn, hip⟩ := hX hst
      by_cases hk : e.kind = Kind.stop
      · simp only [regionsOk, hk, if_true, Bool.and_eq_true, decide_eq_true_eq] at hreg
        have hstep := @wsStep_X_stop sortFn s e hst hk
        cases hipv : ip with
        | true =>
          -- region already in place: execute_sort_plan returns at once
          rw [hipv] at hip
          rw [exec_inPlace hip.symm] at hstep
          simp only at hstep
          have hsd : Sorted s.done :=
            sorted_of_inPlace (by omega) (by rw [hopn]; exact hsrtv.2) hip.symm
          have hinv' : Inv n (addEv (sortedState s s.done s.ring none) s.done.length e) (pre ++ [e]) := by
            refine Inv.add (s := sortedState s s.done s.ring none) hn rfl hinv.ring hinv.perm ?_
            show Sorted (s.done ++ [e])
            exact hsd.snoc (fun x hx => by have := hdone_le x hx; omega)
          have := ih _ (pre ++ [e]) (max mx e.clock) (e :: p) 0 true e.clock hinv' hmx' hclk'
            (by simpa [addEv, sortedState] using hreg.2) hp' (by intro h; cases h) (hlast' _)
            (by intro h; cases h) (by intro h; cases h)
          simp only [wsLoop, hstep, windowOk, hk, if_true, Bool.true_or, Bool.true_and]
          exact this
        | false =>
        rw [hipv] at hip
        rw [exec_notInPlace hip.symm] at hstep
        have hlenf : ∀ l, (sortFn l).length = l.length := fun l => (hf l).1.length_eq
        have hexec := exec_eq sortFn s.done s.bad0 hn hinv.ring (by omega) hlenf
        have hdclk : ∀ x ∈ s.done, x.clock < 2 ^ 63 := fun x hx =>
          hclk x (List.mem_append_left _ (hinv.perm.mem_iff.1 hx))
        have hspec := execAbs_spec hf hn hsrtv.1 hsrtv.2 hdclk
        have hwp : windowOkAt n m p = windowOkAt n (regionMin s.done s.bad0) s.done := by
          rw [hmeq]; exact windowOkAt_perm (hp.trans hinv.perm.symm)
        simp only [windowOk, hk, if_true, hwp, Bool.false_or]
        cases hw : windowOkAt n (regionMin s.done s.bad0) s.done with
        | true =>
          obtain ⟨first, hex, hsb⟩ := hspec.1 hw
          rw [hex] at hexec
          have hpermb : (s.done.take first ++ sortFn (s.done.drop first)).Perm s.done := by
            conv => rhs; rw [← List.take_append_drop first s.done]
            exact List.Perm.append_left _ (hf _).1
          rw [hexec] at hstep
          simp only at hstep
          have hinv' : Inv n (addEv (sortedState s (s.done.take first ++ sortFn (s.done.drop first)) s.ring
              (some (first, s.done.length))) s.done.length e) (pre ++ [e]) := by
            refine Inv.add (s := sortedState s (s.done.take first ++ sortFn (s.done.drop first)) s.ring
              (some (first, s.done.length))) hn hpermb.length_eq.symm ?_ (hpermb.trans hinv.perm) ?_
            · show RInv n s.ring (s.done.take first ++ sortFn (s.done.drop first)).length
              rw [hpermb.length_eq]; exact hinv.ring
            · show Sorted ((s.done.take first ++ sortFn (s.done.drop first)) ++ [e])
              exact hsb.snoc (fun x hx => by have := hdone_le x (hpermb.mem_iff.1 hx); omega)
          have := ih _ (pre ++ [e]) (max mx e.clock) (e :: p) 0 true e.clock hinv' hmx' hclk'
            (by simpa [addEv, sortedState] using hreg.2) hp' (by intro h; cases h) (hlast' _)
            (by intro h; cases h) (by intro h; cases h)
          simp only [wsLoop, hstep, Bool.true_and]
          exact this
        | false =>
          have hex := hspec.2 hw
          rw [hex] at hexec
          rw [hexec] at hstep
          simp only at hstep
          simp only [wsLoop, hstep, Bool.false_and]
          exact ⟨fun h => (by cases h), fun _ => trivial⟩
      · simp only [regionsOk, hk, if_false] at hreg
        have hstep := @wsStep_X_other sortFn s e hst hk
        have hinv' : Inv n (addEv s s.done.length e) (pre ++ [e]) := by
          apply Inv.add hn rfl hinv.ring hinv.perm
          rw [hst]
          rw [List.take_append_of_le_length (by omega), List.length_append]
          exact ⟨by omega, hsrtv.2⟩
        have hipe : (ip && decide (last ≤ e.clock)) = regionInPlace (s.done ++ [e]) s.opn := by
          rw [regionInPlace_snoc e (by omega), ← hip, hlast]
        have := ih _ (pre ++ [e]) (max mx e.clock) (e :: p) (min m e.clock) (ip && decide (last ≤ e.clock))
          e.clock hinv' hmx' hclk' (by simpa [addEv, hst] using hreg) hp'
          (by intro _; show min m e.clock = regionMin (s.done ++ [e]) s.bad0
              rw [regionMin_snoc hsrtv.1, hmeq])
          (hlast' _) (by intro h; simp [addEv, hst] at h) (by intro _; exact ⟨hopn, hipe⟩)
        simp only [wsLoop, hstep, windowOk, hk, if_false]
        simpa [addEv, hst] using this

end Ovni.Ovnisort
