import OvniModel.Emu.View

/-
  Helper lemmas for C04 / C05, part 1: channels, the three thread operations of
  thread.c and `cpu_update` in closed form.

  `ChanOK c v ign` = "c is a flushed single channel holding v".  On such a
  channel `Chan.set` has a closed form (`Chan.setv`); flushing the result gives
  a `ChanOK` channel holding the new value.
-/
namespace Ovni.Emu

/-! ### channels -/

/-- what a successful `Chan.set` on a clean channel produces -/
def Chan.setv (c : Chan) (v : Value) : Chan :=
  if c.last = v then c
  else { c with vals := (match v with | .null => [] | _ => [v]), dirty := true }

/-- a flushed (clean) single channel whose value is `v` -/
structure ChanOK (c : Chan) (v : Value) (ign : Bool) : Prop where
  single : c.isStack = false
  clean : c.dirty = false
  last : c.last = v
  cur : c.cur = v
  noDup : c.allowDup = false
  ign : c.ignoreDup = ign
  noDw : c.dirtyWrite = false

theorem Chan.cur_single (v : Value) (c : Chan) :
    ({ c with vals := (match v with | .null => [] | _ => [v]), dirty := true } : Chan).cur = v := by
  cases v <;> rfl

/-- `chan_set` on a clean `CHAN_IGNORE_DUP` channel never fails -/
theorem Chan.set_ign {c : Chan} {w : Value} (h : ChanOK c w true) (v : Value) :
    c.set v = .ok (c.setv v) := by
  unfold Chan.set Chan.setv
  simp only [h.single, h.clean, h.noDup, h.ign, h.noDw]
  by_cases hv : c.last = v <;> simp [hv] <;> cases v <;> rfl

/-- `chan_set` on a clean channel without `IGNORE_DUP`: the only failure is the duplicate value -/
theorem Chan.set_noign {c : Chan} {w : Value} (h : ChanOK c w false) (v : Value) :
    c.set v = if w = v then .error .chanDup else .ok (c.setv v) := by
  unfold Chan.set Chan.setv
  simp only [h.single, h.clean, h.noDup, h.ign, h.noDw, h.last]
  by_cases hv : w = v <;> simp [hv] <;> cases v <;> rfl

theorem ChanOK.flush_eq {c : Chan} {v : Value} {ign : Bool} (h : ChanOK c v ign) : c.flush = c := by
  unfold Chan.flush; simp [h.clean]

theorem ChanOK.flush {c : Chan} {v : Value} {ign : Bool} (h : ChanOK c v ign) : ChanOK c.flush v ign := by
  rw [h.flush_eq]; exact h

theorem ChanOK.setv_cur {c : Chan} {w : Value} {ign : Bool} (h : ChanOK c w ign) (v : Value) :
    (c.setv v).cur = v := by
  unfold Chan.setv
  by_cases hv : c.last = v
  · simp only [hv, if_true]; rw [h.cur, ← h.last, hv]
  · simp only [hv, if_false]; exact Chan.cur_single v c

theorem ChanOK.setv_dirty {c : Chan} {w : Value} {ign : Bool} (h : ChanOK c w ign) (v : Value) :
    (c.setv v).dirty = decide (w ≠ v) := by
  unfold Chan.setv
  by_cases hv : c.last = v
  · simp only [hv, if_true]; rw [h.clean]; rw [h.last] at hv; simp [hv]
  · simp only [hv, if_false]; rw [h.last] at hv; simp [hv]

/-- after the flush that ends the step the written channel is clean and holds the new value -/
theorem ChanOK.setv_flush {c : Chan} {w : Value} {ign : Bool} (h : ChanOK c w ign) (v : Value) :
    ChanOK (c.setv v).flush v ign := by
  have hc := h.setv_cur v
  unfold Chan.setv at hc ⊢
  by_cases hv : c.last = v
  · simp only [hv, if_true] at hc ⊢
    rw [h.flush_eq]
    exact { h with last := hv, cur := hc }
  · simp only [hv, if_false] at hc ⊢
    unfold Chan.flush
    simp only [if_true]
    refine ⟨h.single, rfl, hc, ?_, h.noDup, h.ign, h.noDw⟩
    exact Chan.cur_single v c

/-! ### thread.c in closed form -/

theorem ThState.code_inj {a b : ThState} (h : ((a.code : Nat) : Int) = (b.code : Int)) : a = b := by
  cases a <;> cases b <;> first | rfl | (exact absurd h (by decide))

def tidVal (st : ThState) (tid : Int) : Value := if st.isActive then .int tid else .null

theorem Thread.setState_eq {t : Thread} {w : Value}
    (hS : ChanOK t.chState (.int t.state.code) false) (hT : ChanOK t.chTid w true) (st : ThState) :
    t.setState st =
      if t.cpu.isNone then .error .noCpu
      else if t.state = st then .error .chanDup
      else .ok { t with state := st, chState := t.chState.setv (.int st.code),
                        chTid := t.chTid.setv (tidVal st t.tid) } := by
  unfold Thread.setState
  by_cases hc : t.cpu.isNone
  · simp [hc]; rfl
  · simp only [hc]
    rw [Chan.set_noign hS, Chan.set_ign hT]
    by_cases hs : t.state = st
    · simp [hs]; rfl
    · have : ¬ (Value.int (t.state.code : Int) = Value.int (st.code : Int)) := by
        intro h; injection h with h; exact hs (ThState.code_inj h)
      simp [this, hs]
      rfl

def cpuVal : Option Nat → Value
  | none => .null
  | some c => .int c

theorem Thread.setCpu_eq {t : Thread} (hC : ChanOK t.chCpu (cpuVal t.cpu) false) (ci : Nat) :
    t.setCpu ci =
      if t.cpu.isSome then .error .state
      else .ok { t with cpu := some ci, chCpu := t.chCpu.setv (.int ci) } := by
  unfold Thread.setCpu
  by_cases hc : t.cpu.isSome
  · simp [hc]; rfl
  · simp only [hc]
    rw [Chan.set_noign hC]
    have : t.cpu = none := by simpa using hc
    simp [this, cpuVal]
    rfl

theorem Thread.unsetCpu_eq {t : Thread} (hC : ChanOK t.chCpu (cpuVal t.cpu) false) :
    t.unsetCpu =
      if t.cpu.isNone then .error .noCpu
      else .ok { t with cpu := none, chCpu := t.chCpu.setv .null } := by
  unfold Thread.unsetCpu
  by_cases hc : t.cpu.isNone
  · simp [hc]; rfl
  · simp only [hc]
    rw [Chan.set_noign hC]
    cases hcpu : t.cpu with
    | none => simp [hcpu] at hc
    | some k => simp [cpuVal]; rfl

/-- `thread_migrate_cpu` to the CPU the thread already has is the duplicate-value error -/
theorem Thread.migrateCpu_eq {t : Thread} (hC : ChanOK t.chCpu (cpuVal t.cpu) false) (ci : Nat) :
    t.migrateCpu ci =
      if t.cpu.isNone then .error .noCpu
      else if t.cpu = some ci then .error .chanDup
      else .ok { t with cpu := some ci, chCpu := t.chCpu.setv (.int ci) } := by
  unfold Thread.migrateCpu
  by_cases hc : t.cpu.isNone
  · simp [hc]; rfl
  · simp only [hc]
    rw [Chan.set_noign hC]
    cases hcpu : t.cpu with
    | none => simp [hcpu] at hc
    | some k =>
      by_cases hk : k = ci
      · simp [cpuVal, hk]; rfl
      · have : ¬ (Value.int (k : Int) = Value.int (ci : Int)) := by
          intro h; injection h with h; exact hk (by omega)
        simp [cpuVal, hk, this]; rfl

/-! ### cpu.c: `cpu_update` in closed form -/

def uniq (l : List Thread) (f : Thread → Int) : Value :=
  match l with
  | [t] => .int (f t)
  | _ => .null

def runOf (bound : List Thread) : List Thread := bound.filter (fun t => t.state = .running)
def actOf (bound : List Thread) : List Thread := bound.filter (fun t => t.state.isActive)
def boundOf (ths : List Thread) (l : List Nat) : List Thread := l.filterMap (fun g => ths[g]?)

def Cpu.withVals (c : Cpu) (bound : List Thread) : Cpu :=
  { c with chTid := c.chTid.setv (uniq (runOf bound) (·.tid)),
           chPid := c.chPid.setv (uniq (runOf bound) (·.pid)),
           chThrun := c.chThrun.setv (uniq (runOf bound) (fun t => (t.gindex : Int))),
           chNrun := c.chNrun.setv (.int (runOf bound).length),
           chThact := c.chThact.setv (uniq (actOf bound) (fun t => (t.gindex : Int))) }

structure CpuChansOK (c : Cpu) (vn vp vt vr va : Value) : Prop where
  nrun : ChanOK c.chNrun vn true
  pid : ChanOK c.chPid vp true
  tid : ChanOK c.chTid vt true
  thrun : ChanOK c.chThrun vr true
  thact : ChanOK c.chThact va true

theorem cpuUpdate_eq {c : Cpu} {vn vp vt vr va : Value} (h : CpuChansOK c vn vp vt vr va) (ths : List Thread) :
    cpuUpdate ths c =
      if (runOf (boundOf ths c.threads)).length > 1 && !c.virt then .error .oversub
      else .ok (c.withVals (boundOf ths c.threads)) := by
  unfold cpuUpdate
  simp only [Chan.set_ign h.nrun, Chan.set_ign h.pid, Chan.set_ign h.tid, Chan.set_ign h.thrun, Chan.set_ign h.thact]
  show (if ((runOf (boundOf ths c.threads)).length > 1 && !c.virt) = true then _ else _) = _
  by_cases ho : ((runOf (boundOf ths c.threads)).length > 1 && !c.virt) = true
  · simp only [ho, if_true]; rfl
  · simp only [ho]
    simp only [Bool.false_eq_true, if_false]
    unfold Cpu.withVals uniq runOf actOf boundOf
    generalize List.filter (fun t : Thread => decide (t.state = ThState.running)) _ = r
    generalize List.filter (fun t : Thread => t.state.isActive) _ = a
    rcases r with _ | ⟨t, _ | ⟨t', r⟩⟩ <;> rfl

end Ovni.Emu
