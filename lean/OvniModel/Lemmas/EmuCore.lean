import OvniModel.Emu.View

/-
  Helper lemmas for C04 / C05, part 1: channels, the three thread operations of
  thread.c and `cpu_update` in closed form.

  `ChanOK c v ign` = "c is a flushed single channel holding v".  On such a
  channel `Chan.set` has a closed form (`Chan.setv`); flushing the result gives
  a `ChanOK` channel holding the new value.
-/
namespace Ovni.Emu

/-! ### channels -/

/-- what a successful `Chan.set` on a clean channel produces -/
def Chan.setv (c : Chan) (v : Value) : Chan :=
  if c.last = v then c
  else { c with vals := (match v with | .null => [] | _ => [v]), dirty := true }

/-- a flushed (clean) single channel whose value is `v` -/
structure ChanOK (c : Chan) (v : Value) (ign : Bool) : Prop where
  single : c.isStack = false
  clean : c.dirty = false
  last : c.last = v
  cur : c.cur = v
  noDup : c.allowDup = false
  ign : c.ignoreDup = ign
  noDw : c.dirtyWrite = false

theorem Chan.cur_single (v : Value) (c : Chan) :
    ({ c with vals := (match v with | .null => [] | _ => [v]), dirty := true } : Chan).cur = v := by
  cases v <;> rfl

/-- `chan_set` on a clean `CHAN_IGNORE_DUP` channel never fails -/
theorem Chan.set_ign {c : Chan} {w : Value} (h : ChanOK c w true) (v : Value) :
    c.set v = .ok (c.setv v) := by
  unfold Chan.set Chan.setv
  simp only [h.single, h.clean, h.noDup, h.ign, h.noDw]
  by_cases hv : c.last = v <;> simp [hv] <;> cases v <;> rfl

/-- `chan_set` on a clean channel without `IGNORE_DUP`: the only failure is the duplicate value -/
theorem Chan.set_noign {c : Chan} {w : Value} (h : ChanOK c w false) (v : Value) :
    c.set v = if w = v then .error .chanDup else .ok (c.setv v) := by
  unfold Chan.set Chan.setv
  simp only [h.single, h.clean, h.noDup, h.ign, h.noDw, h.last]
  by_cases hv : w = v <;> simp [hv] <;> cases v <;> rfl

theorem ChanOK.flush_eq {c : Chan} {v : Value} {ign : Bool} (h : ChanOK c v ign) : c.flush = c := by
  unfold Chan.flush; simp [h.clean]

theorem ChanOK.flush {c : Chan} {v : Value} {ign : Bool} (h : ChanOK c v ign) : ChanOK c.flush v ign := by
  rw [h.flush_eq]; exact h

theorem ChanOK.setv_cur {c : Chan} {w : Value} {ign : Bool} (h : ChanOK c w ign) (v : Value) :
    (c.setv v).cur = v := by
  unfold Chan.setv
  by_cases hv : c.last = v
  · simp only [hv, if_true]; rw [h.cur, ← h.last, hv]
  · simp only [hv, if_false]; exact Chan.cur_single v c

theorem ChanOK.setv_dirty {c : Chan} {w : Value} {ign : Bool} (h : ChanOK c w ign) (v : Value) :
    (c.setv v).dirty = decide (w ≠ v) := by
  unfold Chan.setv
  by_cases hv : c.last = v
  · simp only [hv, if_true]; rw [h.clean]; rw [h.last] at hv; simp [hv]
  · simp only [hv, if_false]; rw [h.last] at hv; simp [hv]

/-- after the flush that ends the step the written channel is clean and holds the new value -/
theorem ChanOK.setv_flush {c : Chan} {w : Value} {ign : Bool} (h : ChanOK c w ign) (v : Value) :
    ChanOK (c.setv v).flush v ign := by
  have hc := h.setv_cur v
  unfold Chan.setv at hc ⊢
  by_cases hv : c.last = v
  · simp only [hv, if_true] at hc ⊢
    rw [h.flush_eq]
    exact { h with last := hv, cur := hc }
  · simp only [hv, if_false] at hc ⊢
    unfold Chan.flush
    simp only [if_true]
    refine ⟨h.single, rfl, hc, ?_, h.noDup, h.ign, h.noDw⟩
    exact Chan.cur_single v c

/-! ### thread.c in closed form -/

theorem ThState.code_inj {a b : ThState} (h : ((a.code : Nat) : Int) = (b.code : Int)) : a = b := by
  cases a <;> cases b <;> first | rfl | (exact absurd h (by decide))

def tidVal (st : ThState) (tid : Int) : Value := if st.isActive then .int tid else .null

def cpuVal : Option Nat → Value
  | none => .null
  | some c => .int c

/-- the thread after a successful `thread_set_state` -/
def Thread.withState (t : Thread) (st : ThState) : Thread :=
  { t with state := st, chState := t.chState.setv (.int st.code), chTid := t.chTid.setv (tidVal st t.tid) }

/-- the thread after a successful `thread_set_cpu` / `thread_unset_cpu` / `thread_migrate_cpu` -/
def Thread.withCpu (t : Thread) (cpu : Option Nat) : Thread :=
  { t with cpu := cpu, chCpu := t.chCpu.setv (cpuVal cpu) }

/-- value of the state channel: nothing before the first execute, then the state's code -/
def stateVal (st : ThState) : Value := if st = .unknown then .null else .int st.code

theorem stateVal_of_ne {st : ThState} (h : st ≠ .unknown) : stateVal st = .int st.code := by
  unfold stateVal; simp [h]

theorem stateVal_eq_iff {s st : ThState} (hst : st ≠ .unknown) : stateVal s = .int st.code ↔ s = st := by
  unfold stateVal
  by_cases hs : s = .unknown
  · simp only [hs, if_true]
    constructor
    · intro h; cases h
    · intro h; exact absurd h.symm hst
  · simp only [hs, if_false]
    constructor
    · intro h; injection h with h; exact ThState.code_inj h
    · intro h; rw [h]

theorem Thread.setState_eq {t : Thread} {w : Value}
    (hS : ChanOK t.chState (stateVal t.state) false) (hT : ChanOK t.chTid w true) {st : ThState}
    (hst : st ≠ .unknown) :
    t.setState st =
      if t.cpu.isNone then .error .noCpu
      else if t.state = st then .error .chanDup
      else .ok (t.withState st) := by
  unfold Thread.setState
  by_cases hc : t.cpu.isNone
  · simp [hc]; rfl
  · simp only [hc]
    rw [Chan.set_noign hS, Chan.set_ign hT]
    by_cases hs : t.state = st
    · simp [hs, stateVal_of_ne hst]; rfl
    · have : ¬ (stateVal t.state = Value.int (st.code : Int)) := by
        intro h; exact hs ((stateVal_eq_iff hst).mp h)
      simp [this, hs]
      rfl

theorem Thread.setCpu_eq {t : Thread} (hC : ChanOK t.chCpu (cpuVal t.cpu) false) (ci : Nat) :
    t.setCpu ci =
      if t.cpu.isSome then .error .state
      else .ok (t.withCpu (some ci)) := by
  unfold Thread.setCpu
  by_cases hc : t.cpu.isSome
  · simp [hc]; rfl
  · simp only [hc]
    rw [Chan.set_noign hC]
    have : t.cpu = none := by simpa using hc
    simp [this, cpuVal]
    rfl

theorem Thread.unsetCpu_eq {t : Thread} (hC : ChanOK t.chCpu (cpuVal t.cpu) false) :
    t.unsetCpu =
      if t.cpu.isNone then .error .noCpu
      else .ok (t.withCpu none) := by
  unfold Thread.unsetCpu
  by_cases hc : t.cpu.isNone
  · simp [hc]; rfl
  · simp only [hc]
    rw [Chan.set_noign hC]
    cases hcpu : t.cpu with
    | none => simp [hcpu] at hc
    | some k => simp [cpuVal]; rfl

/-- `thread_migrate_cpu` to the CPU the thread already has is the duplicate-value error -/
theorem Thread.migrateCpu_eq {t : Thread} (hC : ChanOK t.chCpu (cpuVal t.cpu) false) (ci : Nat) :
    t.migrateCpu ci =
      if t.cpu.isNone then .error .noCpu
      else if t.cpu = some ci then .error .chanDup
      else .ok (t.withCpu (some ci)) := by
  unfold Thread.migrateCpu
  by_cases hc : t.cpu.isNone
  · simp [hc]; rfl
  · simp only [hc]
    rw [Chan.set_noign hC]
    cases hcpu : t.cpu with
    | none => simp [hcpu] at hc
    | some k =>
      by_cases hk : k = ci
      · simp [cpuVal, hk]; rfl
      · have : ¬ (Value.int (k : Int) = Value.int (ci : Int)) := by
          intro h; injection h with h; exact hk (by omega)
        simp [cpuVal, hk, this]; rfl

/-! ### cpu.c: `cpu_update` in closed form -/

def uniq (l : List Thread) (f : Thread → Int) : Value :=
  match l with
  | [t] => .int (f t)
  | _ => .null

def runOf (bound : List Thread) : List Thread := bound.filter (fun t => t.state = .running)
def actOf (bound : List Thread) : List Thread := bound.filter (fun t => t.state.isActive)
def boundOf (ths : List Thread) (l : List Nat) : List Thread := l.filterMap (fun g => ths[g]?)

def Cpu.withVals (c : Cpu) (bound : List Thread) : Cpu :=
  { c with chTid := c.chTid.setv (uniq (runOf bound) (·.tid)),
           chPid := c.chPid.setv (uniq (runOf bound) (·.pid)),
           chThrun := c.chThrun.setv (uniq (runOf bound) (fun t => (t.gindex : Int))),
           chNrun := c.chNrun.setv (.int (runOf bound).length),
           chThact := c.chThact.setv (uniq (actOf bound) (fun t => (t.gindex : Int))) }

structure CpuChansOK (c : Cpu) (vn vp vt vr va : Value) : Prop where
  nrun : ChanOK c.chNrun vn true
  pid : ChanOK c.chPid vp true
  tid : ChanOK c.chTid vt true
  thrun : ChanOK c.chThrun vr true
  thact : ChanOK c.chThact va true

theorem cpuUpdate_eq {c : Cpu} {vn vp vt vr va : Value} (h : CpuChansOK c vn vp vt vr va) (ths : List Thread) :
    cpuUpdate ths c =
      if (runOf (boundOf ths c.threads)).length > 1 && !c.virt then .error .oversub
      else .ok (c.withVals (boundOf ths c.threads)) := by
  unfold cpuUpdate
  simp only [Chan.set_ign h.nrun, Chan.set_ign h.pid, Chan.set_ign h.tid, Chan.set_ign h.thrun, Chan.set_ign h.thact]
  show (if ((runOf (boundOf ths c.threads)).length > 1 && !c.virt) = true then _ else _) = _
  by_cases ho : ((runOf (boundOf ths c.threads)).length > 1 && !c.virt) = true
  · simp only [ho, if_true]; rfl
  · simp only [ho]
    simp only [Bool.false_eq_true, if_false]
    unfold Cpu.withVals uniq runOf actOf boundOf
    generalize List.filter (fun t : Thread => decide (t.state = ThState.running)) _ = r
    generalize List.filter (fun t : Thread => t.state.isActive) _ = a
    rcases r with _ | ⟨t, _ | ⟨t', r⟩⟩ <;> rfl

/-! ### list utilities -/

theorem filter_set_irrelevant {α} (p : α → Bool) (b : α) :
    ∀ (l : List α) (i : Nat) (a : α), l[i]? = some a → p a = false → p b = false →
      (l.set i b).filter p = l.filter p
  | [], _, _, h, _, _ => by simp at h
  | x :: xs, 0, a, h, ha, hb => by
    simp at h; subst h
    simp [ha, hb]
  | x :: xs, i + 1, a, h, ha, hb => by
    simp at h
    simp [List.filter_cons, filter_set_irrelevant p b xs i a h ha hb]

theorem range_filter_filterMap {α} (p : α → Bool) (ths : List α) :
    ∀ n, n ≤ ths.length →
      ((List.range n).filter (fun i => (ths[i]?).any p)).filterMap (fun i => ths[i]?) = (ths.take n).filter p
  | 0, _ => by simp
  | n + 1, h => by
    have ih := range_filter_filterMap p ths n (by omega)
    have hn : n < ths.length := by omega
    rw [List.range_succ, List.filter_append, List.filterMap_append, ih, List.take_add_one,
      List.filter_append]
    congr 1
    simp [List.getElem?_eq_getElem hn, List.filter_cons]
    by_cases hp : p ths[n] = true <;> simp [hp, List.getElem?_eq_getElem hn]

/-- the threads listed by a duplicate-free index list that contains exactly the
    indices of the threads satisfying `p` are a permutation of `ths.filter p` -/
theorem filterMap_perm_filter {α} (p : α → Bool) (ths : List α) (l : List Nat) (hnd : l.Nodup)
    (hmem : ∀ i, i ∈ l ↔ ∃ t, ths[i]? = some t ∧ p t = true) :
    (l.filterMap (fun i => ths[i]?)).Perm (ths.filter p) := by
  have h1 : l.Perm ((List.range ths.length).filter (fun i => (ths[i]?).any p)) := by
    rw [List.perm_ext_iff_of_nodup hnd (List.nodup_range.filter _)]
    intro i
    rw [hmem, List.mem_filter, List.mem_range]
    constructor
    · rintro ⟨t, ht, hp⟩
      have hi : i < ths.length := by
        rcases Nat.lt_or_ge i ths.length with h | h
        · exact h
        · rw [List.getElem?_eq_none h] at ht; cases ht
      exact ⟨hi, by simp [ht, hp]⟩
    · rintro ⟨hi, hp⟩
      rw [List.getElem?_eq_getElem hi] at hp
      exact ⟨ths[i], List.getElem?_eq_getElem hi, by simpa using hp⟩
  have h2 := h1.filterMap (fun i => ths[i]?)
  rw [range_filter_filterMap p ths ths.length (Nat.le_refl _), List.take_length] at h2
  exact h2


/-! ### `cpu_update` only reads state / tid / pid / gindex of the listed threads,
    and only up to the order of the list -/

/-- what `cpu_update` reads of a thread -/
def Thread.key (t : Thread) : ThState × Int × Int × Nat := (t.state, t.tid, t.pid, t.gindex)

def uniqK (l : List (ThState × Int × Int × Nat)) (f : ThState × Int × Int × Nat → Int) : Value :=
  match l with
  | [k] => .int (f k)
  | _ => .null

theorem uniq_key (l : List Thread) (f : ThState × Int × Int × Nat → Int) :
    uniq l (fun t => f t.key) = uniqK (l.map Thread.key) f := by
  rcases l with _ | ⟨t, _ | ⟨t', r⟩⟩ <;> rfl

theorem runOf_key (b : List Thread) :
    (runOf b).map Thread.key = (b.map Thread.key).filter (fun k => k.1 = .running) := by
  unfold runOf; rw [List.filter_map]; rfl

theorem actOf_key (b : List Thread) :
    (actOf b).map Thread.key = (b.map Thread.key).filter (fun k => k.1.isActive) := by
  unfold actOf; rw [List.filter_map]; rfl

theorem runOf_length_key (b : List Thread) :
    (runOf b).length = ((b.map Thread.key).filter (fun k => k.1 = .running)).length := by
  rw [← runOf_key, List.length_map]

theorem uniq_congr_key (f : ThState × Int × Int × Nat → Int) {l l' : List Thread}
    (h : l.map Thread.key = l'.map Thread.key) :
    uniq l (fun t => f t.key) = uniq l' (fun t => f t.key) := by
  rw [uniq_key, uniq_key, h]

/-- the five values of `cpu_update` depend on the bound threads only through their keys -/
theorem vals_congr_key {b b' : List Thread} (h : b.map Thread.key = b'.map Thread.key) :
    (runOf b).length = (runOf b').length ∧
    uniq (runOf b) (·.pid) = uniq (runOf b') (·.pid) ∧
    uniq (runOf b) (·.tid) = uniq (runOf b') (·.tid) ∧
    uniq (runOf b) (fun t => (t.gindex : Int)) = uniq (runOf b') (fun t => (t.gindex : Int)) ∧
    uniq (actOf b) (fun t => (t.gindex : Int)) = uniq (actOf b') (fun t => (t.gindex : Int)) := by
  have hr : (runOf b).map Thread.key = (runOf b').map Thread.key := by rw [runOf_key, runOf_key, h]
  have ha : (actOf b).map Thread.key = (actOf b').map Thread.key := by rw [actOf_key, actOf_key, h]
  refine ⟨?_, uniq_congr_key (fun k => k.2.2.1) hr, uniq_congr_key (fun k => k.2.1) hr,
    uniq_congr_key (fun k => (k.2.2.2 : Int)) hr, uniq_congr_key (fun k => (k.2.2.2 : Int)) ha⟩
  rw [runOf_length_key, runOf_length_key, h]

theorem withVals_congr (c : Cpu) {b b' : List Thread} (h : b.map Thread.key = b'.map Thread.key) :
    c.withVals b = c.withVals b' := by
  obtain ⟨e1, e2, e3, e4, e5⟩ := vals_congr_key h
  unfold Cpu.withVals
  rw [e1, e2, e3, e4, e5]

theorem uniq_perm {l l' : List Thread} (h : l.Perm l') (f : Thread → Int) : uniq l f = uniq l' f := by
  rcases l with _ | ⟨t, _ | ⟨t', r⟩⟩
  · rw [List.nil_perm.mp h]
  · rw [List.singleton_perm.mp h]
  · have hl := h.length_eq
    rcases l' with _ | ⟨u, _ | ⟨u', r'⟩⟩
    · simp at hl
    · simp at hl
    · rfl

theorem withVals_perm (c : Cpu) {b b' : List Thread} (h : b.Perm b') : c.withVals b = c.withVals b' := by
  have hr : (runOf b).Perm (runOf b') := h.filter _
  have ha : (actOf b).Perm (actOf b') := h.filter _
  unfold Cpu.withVals
  rw [uniq_perm hr, uniq_perm hr, uniq_perm hr, uniq_perm ha, hr.length_eq]

theorem boundOf_key_congr {ths ths2 : List Thread} :
    ∀ (l : List Nat), (∀ i ∈ l, (ths[i]?).map Thread.key = (ths2[i]?).map Thread.key) →
      (boundOf ths l).map Thread.key = (boundOf ths2 l).map Thread.key
  | [], _ => rfl
  | i :: l, h => by
    have ih := boundOf_key_congr l (fun j hj => h j (List.mem_cons_of_mem _ hj))
    have hi := h i (List.mem_cons_self)
    unfold boundOf at ih ⊢
    simp only [List.filterMap_cons]
    cases h1 : ths[i]? <;> cases h2 : ths2[i]? <;> simp [h1, h2] at hi ⊢
    · exact ih
    · exact ⟨hi, ih⟩

/-- the threads whose `cpu` field names CPU `g` (the specification's notion of "bound to") -/
def onCpu (ths : List Thread) (g : Nat) : List Thread := ths.filter (fun t => t.cpu == some g)

/-- the CPU's thread list lists exactly the threads whose `cpu` field names it, once each -/
structure Membership (ths : List Thread) (g : Nat) (l : List Nat) : Prop where
  nodup : l.Nodup
  mem : ∀ i, i ∈ l ↔ ∃ t, ths[i]? = some t ∧ t.cpu = some g

theorem boundOf_perm_onCpu {ths : List Thread} {g : Nat} {l : List Nat} (h : Membership ths g l) :
    (boundOf ths l).Perm (onCpu ths g) := by
  apply filterMap_perm_filter (fun t => t.cpu == some g) ths l h.nodup
  intro i; rw [h.mem]; simp

/-- `cpu_update` evaluated on thread table `ths` with list `l` computes the values the
    specification reads off `ths2`, when `ths` and `ths2` agree on what `cpu_update` reads -/
theorem withVals_spec (c : Cpu) {ths ths2 : List Thread} {g : Nat} {l : List Nat}
    (hagree : ∀ i ∈ l, (ths[i]?).map Thread.key = (ths2[i]?).map Thread.key)
    (hm : Membership ths2 g l) :
    c.withVals (boundOf ths l) = c.withVals (onCpu ths2 g) := by
  rw [withVals_congr c (boundOf_key_congr l hagree)]
  exact withVals_perm c (boundOf_perm_onCpu hm)

theorem runOf_length_spec {ths ths2 : List Thread} {g : Nat} {l : List Nat}
    (hagree : ∀ i ∈ l, (ths[i]?).map Thread.key = (ths2[i]?).map Thread.key)
    (hm : Membership ths2 g l) :
    (runOf (boundOf ths l)).length = (runOf (onCpu ths2 g)).length := by
  rw [runOf_length_key, boundOf_key_congr l hagree, ← runOf_length_key]
  exact ((boundOf_perm_onCpu hm).filter _).length_eq


end Ovni.Emu
