import OvniModel.Lemmas.CoreBay

/-
  C06: which muxes are still *virgin*.  `Inv` only says "in sync or virgin" for
  every mux.  A CPU track with a non-null default (the idle channel of nOS-V /
  Nanos6) is virgin exactly until the CPU's `th_running` is written for the
  first time; every other mux is in sync at every instant.  `fresh c` is the
  ghost "`th_running` of CPU `c` has not been written since `emu_connect`".
-/
namespace Ovni.Emu
open Ovni.Generated

/-- `m` is a CPU track with a non-null default on a CPU that is still fresh. -/
def Shape.isFresh (σ : Shape) (fresh : Nat → Bool) (m : Mux) : Prop :=
  m.dflt ≠ .null ∧ ∃ c, c < σ.nC ∧ m.sel = σ.idx (.run c) ∧ fresh c = true

/-- Fresh CPU tracks with a default are virgin, all other muxes are in sync. -/
def FreshInv (σ : Shape) (b : Bay) (fresh : Nat → Bool) : Prop :=
  ∀ (mi : Nat) (m : Mux), b.muxes[mi]? = some m →
    (σ.isFresh fresh m → b.Virgin mi m) ∧ (¬ σ.isFresh fresh m → b.MuxSync false mi m)

/-- `fresh` after an event: a CPU stays fresh while its `th_running` is not written. -/
def Shape.freshStep (σ : Shape) (fresh : Nat → Bool) (b1 : Bay) : Nat → Bool :=
  fun c => fresh c && !(b1.chan (σ.idx (.run c))).dirty

/-- Right after `emu_connect` every CPU is fresh. -/
theorem FreshInv.connected {e : Emu} {b0 b : Bay} (hc : e.shape.connect = .ok b0) (hb0 : b = b0) :
    FreshInv e.shape b (fun _ => true) := by
  subst hb0
  have hb := Shape.connect_built hc
  intro mi m hm
  have hv : b.Virgin mi m := ⟨hb.topo.allNull _, hb.topo.allNull _, fun c i => hb.topo.noIn c mi i⟩
  refine ⟨fun _ => hv, fun hn => ?_⟩
  apply hv.sync
  cases hb.isTrack hm with
  | th g k i ms out _ _ _ _ => rfl
  | cpu c k i ms out hcl _ _ =>
    apply Classical.byContradiction
    intro hd
    exact hn ⟨hd, c, hcl, rfl, rfl⟩

/-- **One event.**  `FreshInv` is preserved with `freshStep`: a virgin mux whose
    select channel is not written stays virgin (none of its callbacks runs); one
    whose select channel is written is in sync afterwards; a mux in sync stays
    in sync. -/
theorem FreshInv.step {e : Emu} {b0 b b1 bF : Bay} {em : List (Nat × Value)} {fresh : Nat → Bool}
    (hc : e.shape.connect = .ok b0) (hi : Inv b0 e b) (hf : FreshInv e.shape b fresh)
    (hw1 : Bay.Writes (· < e.shape.L) b b1) (hp : b1.propagate = .ok (bF, em)) :
    FreshInv e.shape bF (e.shape.freshStep fresh b1) := by
  have hbuilt := Shape.connect_built hc
  have hlay : b.Layered e.shape.L := by
    have := hbuilt.topo.layered
    unfold Bay.Layered at this ⊢; rw [hi.muxes]; exact this
  obtain ⟨wf1, hcbs1, hsel1, hmx1, hkeep1, hclean1⟩ := hw1.inv hi.wf
  obtain ⟨wf2, hcl2, hmx2⟩ := Bay.propagate_wf wf1 hp
  have hsrcNotOut : ∀ c, c < e.shape.L → ∀ (mj : Nat) (m' : Mux), b.muxes[mj]? = some m' → m'.out ≠ c := by
    intro c hc' mj m' hm'
    have := (hlay mj m' hm').2.2.1
    omega
  intro mi m hm
  have hm1' : b1.muxes[mi]? = some m := by rw [← hmx2]; exact hm
  have hm0 : b.muxes[mi]? = some m := by rw [← hmx1]; exact hm1'
  have hfr : b.Frame mi m := hlay.frame mi m hm0
  have hfr1 : b1.Frame mi m := hfr.congr hmx1
  have hout : e.shape.L ≤ m.out := (hlay mi m hm0).2.2.1
  have hselL : m.sel < e.shape.L := (hlay mi m hm0).1
  have hsyncStep : b.MuxSync false mi m → bF.MuxSync false mi m := by
    intro hsync
    obtain ⟨hweak1, hpre1⟩ :=
      (hw1.mono (fun c (hc' : c < e.shape.L) => (by omega : c ≠ m.out))).pre hi.wf hsync
    exact (Bay.propagate_sync wf1 hm1' hfr1 hweak1 hpre1 hp).2.2.2
  have hvirStep : b.Virgin mi m → ((b1.chan m.sel).dirty = true → bF.MuxSync false mi m) ∧
      ((b1.chan m.sel).dirty = false → bF.Virgin mi m) := by
    rintro ⟨v1, v2, v3⟩
    have hno1 : ∀ (c i : Nat), Cb.muxInput mi i ∉ b1.cbsOf c := by
      intro c i; rw [Bay.cbsOf_congr hcbs1]; exact v3 c i
    have hweak1 : b1.Weak mi m := by
      rintro i ⟨c, _, hcm⟩; exact absurd hcm (hno1 c i)
    refine ⟨fun hd => ?_, fun hd => ?_⟩
    · exact (Bay.propagate_sync (strong := false) wf1 hm1' hfr1 hweak1 (Or.inl hd) hp).2.2.2
    · obtain ⟨q1, _, q3⟩ := Bay.propagate_idle wf1 hm1' hfr1 ⟨hd, hno1⟩ hp
      refine ⟨?_, ?_, q3⟩
      · rw [Bay.propagate_raw wf1 hp m.sel (fun mj m' hm' => by
          rw [hmx1] at hm'; exact hsrcNotOut _ hselL mj m' hm'), hclean1 _ hd]
        exact v1
      · rw [q1, hkeep1 m.out (by omega)]; exact v2
  constructor
  · -- still fresh: was fresh and `th_running` not written
    rintro ⟨hd, c, hcl, hsel, hfc⟩
    unfold Shape.freshStep at hfc
    simp only [Bool.and_eq_true, Bool.not_eq_eq_eq_not, Bool.not_true] at hfc
    have hvir := (hf mi m hm0).1 ⟨hd, c, hcl, hsel, hfc.1⟩
    exact (hvirStep hvir).2 (by rw [hsel]; exact hfc.2)
  · intro hn
    by_cases hold : e.shape.isFresh fresh m
    · obtain ⟨hd, c, hcl, hsel, hfc⟩ := hold
      have hvir := (hf mi m hm0).1 ⟨hd, c, hcl, hsel, hfc⟩
      cases hdd : (b1.chan m.sel).dirty with
      | true => exact (hvirStep hvir).1 hdd
      | false =>
        exfalso
        apply hn
        refine ⟨hd, c, hcl, hsel, ?_⟩
        unfold Shape.freshStep
        rw [hfc, ← hsel, hdd]; rfl
    · exact hsyncStep ((hf mi m hm0).2 hold)

/-- A fresh CPU's `th_running` is still null. -/
theorem FreshInv.sel_null {σ : Shape} {b : Bay} {fresh : Nat → Bool} (hf : FreshInv σ b fresh) {mi : Nat} {m : Mux}
    (hm : b.muxes[mi]? = some m) (h : σ.isFresh fresh m) : (b.chan m.sel).cur = .null ∧ (b.chan m.out).cur = .null :=
  ⟨((hf mi m hm).1 h).1, ((hf mi m hm).1 h).2.1⟩

end Ovni.Emu

namespace Ovni.Emu

/-- Only the CPUs of the hierarchy matter. -/
theorem FreshInv.congr {σ : Shape} {b : Bay} {f f' : Nat → Bool} (h : ∀ c, c < σ.nC → f c = f' c)
    (hf : FreshInv σ b f) : FreshInv σ b f' := by
  have key : ∀ m, σ.isFresh f' m ↔ σ.isFresh f m := by
    intro m
    constructor
    · rintro ⟨hd, c, hcl, hsel, hfc⟩; exact ⟨hd, c, hcl, hsel, by rw [h c hcl]; exact hfc⟩
    · rintro ⟨hd, c, hcl, hsel, hfc⟩; exact ⟨hd, c, hcl, hsel, by rw [← h c hcl]; exact hfc⟩
  intro mi m hm
  exact ⟨fun hx => (hf mi m hm).1 ((key m).mp hx), fun hx => (hf mi m hm).2 (fun hy => hx ((key m).mpr hy))⟩

end Ovni.Emu

namespace Ovni.Emu

/-- Without mux defaults no CPU track is ever "fresh": the ghost is irrelevant. -/
theorem FreshInv.of_null_defaults {σ : Shape} {b : Bay} {f f' : Nat → Bool}
    (hn : ∀ (mi : Nat) (m : Mux), b.muxes[mi]? = some m → m.dflt = .null) (hf : FreshInv σ b f) :
    FreshInv σ b f' := by
  intro mi m hm
  have h1 : ¬ σ.isFresh f m := fun h => h.1 (hn mi m hm)
  have h2 : ¬ σ.isFresh f' m := fun h => h.1 (hn mi m hm)
  exact ⟨fun h => absurd h h2, fun _ => (hf mi m hm).2 h1⟩

end Ovni.Emu
