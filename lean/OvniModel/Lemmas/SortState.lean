import OvniModel.Lemmas.Sort

/-! Helper lemmas for `Props/C20.lean`: the `sort_cb_input` state machine. -/
namespace Ovni.Emu.Sort

/-! ### list facts -/

theorem sorted_erase (l : List Int) (a : Int) (h : Sorted l) : Sorted (l.erase a) :=
  List.Pairwise.sublist (List.erase_sublist ..) h

theorem sorted_replicate (n : Nat) (v : Int) : Sorted (List.replicate n v) := by
  induction n with
  | zero => exact List.Pairwise.nil
  | succ k ih =>
    rw [List.replicate_succ]
    apply List.pairwise_cons.2
    refine ⟨?_, ih⟩
    intro z hz
    have := (List.mem_replicate.1 hz).2
    omega

/-- Setting slot `i` = removing the old content of the slot and adding the new. -/
theorem set_perm_erase (l : List Int) (i : Nat) (v : Int) (h : i < l.length) :
    (l.set i v).Perm (v :: l.erase (rd l i)) := by
  induction l generalizing i with
  | nil => simp at h
  | cons a t ih =>
    cases i with
    | zero => simp [rd]
    | succ j =>
      have hj : j < t.length := by simpa using h
      have e : rd (a :: t) (j + 1) = rd t j := by simp [rd]
      rw [e, List.set_cons_succ]
      by_cases ha : a = rd t j
      · -- erasing removes the head; the tail still contains it at slot j
        rw [← ha, List.erase_cons_head]
        have h1 := ih j hj
        rw [← ha] at h1
        -- a :: t.set j v ~ a :: v :: t.erase a ~ v :: a :: t.erase a ~ v :: t
        have hmem : a ∈ t := by
          rw [ha]; simp [rd, List.getD_eq_getElem?_getD, hj]
        exact ((List.Perm.cons a h1).trans (List.Perm.swap v a _)).trans
          (List.Perm.cons v (List.perm_cons_erase hmem).symm)
      · have : (a :: t).erase (rd t j) = a :: t.erase (rd t j) := by
          simp [ha]
        rw [this]
        exact (List.Perm.cons a (ih j hj)).trans (List.Perm.swap v a _)

theorem rd_mem (l : List Int) (i : Nat) (h : i < l.length) : rd l i ∈ l := by
  simp [rd, List.getD_eq_getElem?_getD, h]

theorem set_rd_self (l : List Int) (i : Nat) : l.set i (rd l i) = l := by
  induction l generalizing i with
  | nil => rfl
  | cons a t ih =>
    cases i with
    | zero => simp [rd]
    | succ j =>
      have e : rd (a :: t) (j + 1) = rd t j := by simp [rd]
      rw [e, List.set_cons_succ, ih]

theorem set_ge (l : List Int) (i : Nat) (v : Int) (h : l.length ≤ i) : l.set i v = l := by
  induction l generalizing i with
  | nil => rfl
  | cons a t ih =>
    cases i with
    | zero => simp at h
    | succ j => rw [List.set_cons_succ, ih j (by simpa using h)]

/-! ### the output loop -/

theorem writeLoop_outs (s : List Int) : ∀ (i : Nat) (o : List Value), s.length = o.length →
    (writeLoop i s o).1 = s.map Value.int := by
  induction s with
  | nil => intro i o h; cases o with
    | nil => rfl
    | cons _ _ => simp at h
  | cons x xs ih =>
    intro i o h
    cases o with
    | nil => simp at h
    | cons y ys =>
      have hl : xs.length = ys.length := by simpa using h
      simp only [writeLoop, List.map_cons]
      split
      next he => rw [ih _ _ hl, he]
      next => rw [ih _ _ hl]

/-- The write log: `(j, v)` is logged iff slot `j` (counted from the starting
    index `i`) gets `v` and did not hold `int v` before. -/
theorem writeLoop_log (s : List Int) : ∀ (i : Nat) (o : List Value) (j : Nat) (v : Int),
    s.length = o.length →
    ((j, v) ∈ (writeLoop i s o).2 ↔
      i ≤ j ∧ s[j - i]? = some v ∧ ∃ ov, o[j - i]? = some ov ∧ ov ≠ Value.int v) := by
  induction s with
  | nil =>
    intro i o j v h
    cases o with
    | nil => simp [writeLoop]
    | cons _ _ => simp at h
  | cons x xs ih =>
    intro i o j v h
    cases o with
    | nil => simp at h
    | cons y ys =>
      have hl : xs.length = ys.length := by simpa using h
      have IH := ih (i + 1) ys j v hl
      simp only [writeLoop]
      by_cases hji : j = i
      · subst hji
        have hno : ¬ (j, v) ∈ (writeLoop (j + 1) xs ys).2 := by
          rw [IH]; omega
        split
        next he =>
          subst he
          simp only [hno, false_iff]
          simp
        next hne =>
          simp only [List.mem_cons, hno, or_false, Prod.mk.injEq, true_and]
          simp only [Nat.sub_self, List.getElem?_cons_zero, Option.some.injEq, Nat.le_refl, true_and]
          constructor
          · intro hv; subst hv; exact ⟨rfl, y, rfl, hne⟩
          · intro ⟨hv, _⟩; exact hv.symm
      · have key : (i ≤ j ∧ (x :: xs)[j - i]? = some v ∧
            ∃ ov, (y :: ys)[j - i]? = some ov ∧ ov ≠ Value.int v) ↔
            (i + 1 ≤ j ∧ xs[j - (i + 1)]? = some v ∧
              ∃ ov, ys[j - (i + 1)]? = some ov ∧ ov ≠ Value.int v) := by
          constructor
          · intro ⟨h1, h2, h3⟩
            have hlt : i < j := by omega
            obtain ⟨k, hk⟩ : ∃ k, j - i = k + 1 := ⟨j - i - 1, by omega⟩
            have hk' : j - (i + 1) = k := by omega
            rw [hk] at h2 h3
            rw [hk']
            exact ⟨by omega, by simpa using h2, by simpa using h3⟩
          · intro ⟨h1, h2, h3⟩
            obtain ⟨k, hk⟩ : ∃ k, j - i = k + 1 := ⟨j - i - 1, by omega⟩
            have hk' : j - (i + 1) = k := by omega
            rw [hk'] at h2 h3
            rw [hk]
            exact ⟨by omega, by simpa using h2, by simpa using h3⟩
        rw [key, ← IH]
        split
        next => rfl
        next =>
          simp only [List.mem_cons, Prod.mk.injEq]
          constructor
          · rintro (⟨h1, _⟩ | h)
            · exact absurd h1 hji
            · exact h
          · intro h; exact Or.inr h

/-- Writes happen in increasing index order, at most one per output. -/
theorem writeLoop_increasing (s : List Int) : ∀ (i : Nat) (o : List Value),
    ((writeLoop i s o).2.map Prod.fst).Pairwise (· < ·) ∧
    ∀ p ∈ (writeLoop i s o).2, i ≤ p.1 := by
  induction s with
  | nil => intro i o; simp [writeLoop]
  | cons x xs ih =>
    intro i o
    cases o with
    | nil => simp [writeLoop]
    | cons y ys =>
      have IH := ih (i + 1) ys
      simp only [writeLoop]
      split
      · exact ⟨IH.1, fun p hp => by have := IH.2 p hp; omega⟩
      · refine ⟨?_, ?_⟩
        · simp only [List.map_cons]
          apply List.pairwise_cons.2
          refine ⟨?_, IH.1⟩
          intro z hz
          obtain ⟨p, hp, rfl⟩ := List.mem_map.1 hz
          have := IH.2 p hp
          omega
        · intro p hp
          rcases List.mem_cons.1 hp with rfl | hp
          · exact Nat.le_refl _
          · have := IH.2 p hp; omega

/-! ### invariant of the state machine -/

/-- What `sort_cb_input` maintains.  Before the first change (`copied = 0`) the
    arrays are still the zeroed `calloc` memory and the outputs are `NULL`. -/
structure Inv (s : State) : Prop where
  lenV : s.values.length = s.n
  lenS : s.sorted.length = s.n
  lenO : s.outs.length = s.n
  cop : s.copied = true →
    Sorted s.sorted ∧ s.sorted.Perm s.values ∧ s.outs = s.sorted.map Value.int
  fresh : s.copied = false →
    s.values = List.replicate s.n 0 ∧ s.outs = List.replicate s.n Value.null

theorem inv_init (n : Nat) : Inv (init n) := by
  constructor <;> simp [init]

theorem cbInput_same (qs : List Int → List Int) (s : State) (index : Nat) (cur : Value)
    (h : rd s.values index = cur.toInt ∨ s.n ≤ index) : cbInput qs s index cur = (s, []) := by
  unfold cbInput
  simp only [h, if_true]

theorem cbInput_change (qs : List Int → List Int) (s : State) (index : Nat) (cur : Value)
    (h : ¬ (rd s.values index = cur.toInt ∨ s.n ≤ index)) :
    cbInput qs s index cur =
      ({ s with values := s.values.set index cur.toInt,
                sorted := nextSorted qs s index cur.toInt, copied := true,
                outs := (writeLoop 0 (nextSorted qs s index cur.toInt) s.outs).1 },
       (writeLoop 0 (nextSorted qs s index cur.toInt) s.outs).2) := by
  unfold cbInput
  simp only [h, if_false]

theorem step_sorted (qs : List Int → List Int) (hq : IsSort qs) (s : State) (hi : Inv s)
    (index : Nat) (new : Int) (hidx : index < s.n) (hne : rd s.values index ≠ new) :
    Sorted (nextSorted qs s index new) ∧
      (nextSorted qs s index new).Perm (s.values.set index new) := by
  have hlt : index < s.values.length := by rw [hi.lenV]; exact hidx
  unfold nextSorted
  cases hc : s.copied with
  | false =>
    simp only [Bool.false_eq_true, if_false]
    exact hq _
  | true =>
    obtain ⟨h1, h2, _⟩ := hi.cop hc
    have hm : rd s.values index ∈ s.sorted := h2.mem_iff.2 (rd_mem _ _ hlt)
    simp only [if_true, sortReplace_eq s.sorted _ new h1 hm hne]
    refine ⟨insertSorted_sorted _ _ (sorted_erase _ _ h1), ?_⟩
    exact (insertSorted_perm _ _).trans
      ((List.Perm.cons new (h2.erase _)).trans (set_perm_erase _ _ _ hlt).symm)

theorem inv_step (qs : List Int → List Int) (hq : IsSort qs) (s : State) (hi : Inv s)
    (index : Nat) (cur : Value) : Inv (cbInput qs s index cur).1 := by
  by_cases hcond : rd s.values index = cur.toInt ∨ s.n ≤ index
  · rw [cbInput_same qs s index cur hcond]; exact hi
  · rw [cbInput_change qs s index cur hcond]
    have hne : rd s.values index ≠ cur.toInt := fun h => hcond (Or.inl h)
    have hidx : index < s.n := by
      apply Classical.byContradiction; intro h; exact hcond (Or.inr (by omega))
    obtain ⟨hs1, hs2⟩ := step_sorted qs hq s hi index cur.toInt hidx hne
    have hlenV : (s.values.set index cur.toInt).length = s.n := by simp [hi.lenV]
    have hlenS := hs2.length_eq
    rw [hlenV] at hlenS
    have hwl := writeLoop_outs _ 0 s.outs (by rw [hlenS, hi.lenO])
    constructor
    · exact hlenV
    · exact hlenS
    · simp only [hwl, List.length_map]; exact hlenS
    · intro _
      exact ⟨hs1, hs2, hwl⟩
    · intro h; simp at h

theorem inv_run (qs : List Int → List Int) (hq : IsSort qs) (evs : List (Nat × Value)) :
    ∀ s, Inv s → Inv (run qs s evs) := by
  induction evs with
  | nil => intro s h; exact h
  | cons e es ih => intro s h; exact ih _ (inv_step qs hq s h e.1 e.2)

/-- `values` follows the inputs. -/
theorem values_step (qs : List Int → List Int) (s : State) (hi : Inv s) (index : Nat) (cur : Value) :
    (cbInput qs s index cur).1.values = s.values.set index cur.toInt := by
  by_cases hcond : rd s.values index = cur.toInt ∨ s.n ≤ index
  · rw [cbInput_same qs s index cur hcond]
    rcases hcond with h | h
    · rw [← h, set_rd_self]
    · rw [set_ge]; rw [hi.lenV]; exact h
  · rw [cbInput_change qs s index cur hcond]

theorem values_run (qs : List Int → List Int) (hq : IsSort qs) (evs : List (Nat × Value)) :
    ∀ s, Inv s →
      (run qs s evs).values = evs.foldl (fun acc e => acc.set e.1 e.2.toInt) s.values := by
  induction evs with
  | nil => intro s _; rfl
  | cons e es ih =>
    intro s h
    simp only [run, List.foldl_cons]
    rw [ih _ (inv_step qs hq s h e.1 e.2), values_step qs s h]

/-- What the rows show is a sorted permutation of `values`, in every state. -/
theorem rows_of_inv (s : State) (hi : Inv s) : Sorted (rows s) ∧ (rows s).Perm s.values := by
  cases hc : s.copied with
  | true =>
    obtain ⟨h1, h2, h3⟩ := hi.cop hc
    have : rows s = s.sorted := by
      simp only [rows, h3, List.map_map]
      have : (Value.toInt ∘ Value.int) = id := by funext x; rfl
      rw [this, List.map_id]
    rw [this]; exact ⟨h1, h2⟩
  | false =>
    obtain ⟨h1, h2⟩ := hi.fresh hc
    have : rows s = List.replicate s.n 0 := by
      simp only [rows, h2, List.map_replicate]; rfl
    rw [this, h1]
    exact ⟨sorted_replicate _ _, List.Perm.refl _⟩

/-! ### `isort` is a legitimate `qsort` -/

theorem isort_isSort : IsSort isort := by
  intro l
  induction l with
  | nil => exact ⟨List.Pairwise.nil, List.Perm.refl _⟩
  | cons x xs ih =>
    exact ⟨insertSorted_sorted _ _ ih.1, (insertSorted_perm _ _).trans (List.Perm.cons x ih.2)⟩

end Ovni.Emu.Sort
