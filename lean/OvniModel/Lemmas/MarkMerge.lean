import OvniModel.Lemmas.MarkLabels

/-!
  Helper lemmas for C17: the merge of mark definitions (`parse_mark` over all
  definitions of all threads) against an order-free specification.

  * `WellFormed`, `Agree`, `Consistent` — the specification (symmetric, no
    reference to any order).
  * `Rep tab defs` — the table `tab` *represents* the set of definitions `defs`:
    one row per type that occurs, common title / channel type, label set = the
    union.  `Rep` is preserved by every successful `parseMark` (`rep_step`),
    implies `Consistent` (`rep_consistent`) and, together with `Consistent` of
    the extended list, implies that the next `parseMark` succeeds
    (`step_complete`).
-/
namespace Ovni.Emu.MarkL
open Ovni.Emu

/-! ### Specification -/

/-- one definition on its own: type in [0,100), a title, a known channel type,
    no two different labels for one value -/
def WellFormed (d : MarkIn) : Prop :=
  0 ≤ d.type ∧ d.type < 100 ∧ d.title.isSome = true ∧
  (d.chanType = some "single" ∨ d.chanType = some "stack") ∧ LabelsAgree d.labels d.labels

/-- two definitions: if they define the same type they have the same title,
    the same channel type, and agree on every value both label -/
def Agree (d d' : MarkIn) : Prop :=
  d.type = d'.type → d.title = d'.title ∧ d.chanType = d'.chanType ∧ LabelsAgree d.labels d'.labels

/-- the whole collection: each definition well formed, every pair agrees -/
def Consistent (defs : List MarkIn) : Prop :=
  (∀ d ∈ defs, WellFormed d) ∧ (∀ d ∈ defs, ∀ d' ∈ defs, Agree d d')

instance (d : MarkIn) : Decidable (WellFormed d) := by unfold WellFormed; infer_instance
instance (d d' : MarkIn) : Decidable (Agree d d') := by unfold Agree; infer_instance
instance (defs : List MarkIn) : Decidable (Consistent defs) := by unfold Consistent; infer_instance

theorem Agree.symm {d d' : MarkIn} (h : Agree d d') : Agree d' d := by
  intro ht
  obtain ⟨h1, h2, h3⟩ := h ht.symm
  exact ⟨h1.symm, h2.symm, h3.symm⟩

/-- `Consistent` only depends on which definitions occur, not on their order
    or multiplicity. -/
theorem Consistent.of_subset {l₁ l₂ : List MarkIn} (hs : ∀ d, d ∈ l₁ → d ∈ l₂)
    (h : Consistent l₂) : Consistent l₁ :=
  ⟨fun d hd => h.1 d (hs d hd), fun d hd d' hd' => h.2 d (hs d hd) d' (hs d' hd')⟩

theorem consistent_congr {l₁ l₂ : List MarkIn} (hs : ∀ d, d ∈ l₁ ↔ d ∈ l₂) :
    Consistent l₁ ↔ Consistent l₂ :=
  ⟨Consistent.of_subset fun d => (hs d).mpr, Consistent.of_subset fun d => (hs d).mp⟩

/-! ### `parse_mark`, normal form -/

/-- the string stored under "chan_type" for a stack / single channel -/
def ctName (b : Bool) : String := if b then "stack" else "single"

theorem ctName_decide {ct : String} (h : ct = "single" ∨ ct = "stack") :
    ctName (decide (ct = "stack")) = ct := by
  rcases h with rfl | rfl <;> decide

theorem decide_ctName (b : Bool) : decide (ctName b = "stack") = b := by
  cases b <;> decide

theorem ctName_valid (b : Bool) : ctName b = "single" ∨ ctName b = "stack" := by
  cases b
  · exact Or.inl rfl
  · exact Or.inr rfl

/-- row update of `parse_mark` for an existing type -/
def upd (ty : Int) (ls : List (Int × String)) (x : MarkType) : MarkType :=
  if x.type == ty then { x with labels := ls } else x

theorem upd_type (ty : Int) (ls : List (Int × String)) (x : MarkType) : (upd ty ls x).type = x.type := by
  unfold upd; split <;> rfl
theorem upd_title (ty : Int) (ls : List (Int × String)) (x : MarkType) : (upd ty ls x).title = x.title := by
  unfold upd; split <;> rfl
theorem upd_stack (ty : Int) (ls : List (Int × String)) (x : MarkType) : (upd ty ls x).stack = x.stack := by
  unfold upd; split <;> rfl
theorem upd_labels_eq {ty : Int} (ls : List (Int × String)) {x : MarkType} (h : x.type = ty) :
    (upd ty ls x).labels = ls := by
  unfold upd; rw [if_pos (by simpa using h)]
theorem upd_ne {ty : Int} (ls : List (Int × String)) {x : MarkType} (h : x.type ≠ ty) :
    upd ty ls x = x := by
  unfold upd; rw [if_neg (by simpa using h)]

theorem map_upd_types (ty : Int) (ls : List (Int × String)) (tab : List MarkType) :
    (tab.map (upd ty ls)).map (·.type) = tab.map (·.type) := by
  rw [List.map_map]
  apply List.map_congr_left
  intro x _
  exact upd_type ty ls x

theorem parseMark_bad_range {tab : List MarkType} {d : MarkIn} (h : d.type < 0 ∨ d.type ≥ 100) :
    parseMark tab d = .error .other := by
  unfold parseMark
  rw [if_pos (by simpa using h)]

theorem parseMark_no_title {tab : List MarkType} {d : MarkIn} (h : d.title = none) :
    ∃ e, parseMark tab d = .error e := by
  unfold parseMark
  split
  · exact ⟨_, rfl⟩
  · rw [h]; exact ⟨_, rfl⟩

theorem parseMark_no_ctype {tab : List MarkType} {d : MarkIn} (h : d.chanType = none) :
    ∃ e, parseMark tab d = .error e := by
  unfold parseMark
  split
  · exact ⟨_, rfl⟩
  · rw [h]; cases d.title <;> exact ⟨_, rfl⟩

theorem parseMark_bad_ctype {tab : List MarkType} {d : MarkIn} {ct : String} (hc : d.chanType = some ct)
    (h1 : ct ≠ "single") (h2 : ct ≠ "stack") : ∃ e, parseMark tab d = .error e := by
  unfold parseMark
  split
  · exact ⟨_, rfl⟩
  · rw [hc]
    cases d.title with
    | none => exact ⟨_, rfl⟩
    | some title =>
      simp only
      have : (ct ≠ "single" && ct ≠ "stack") = true := by simp [h1, h2]
      rw [if_pos this]; exact ⟨_, rfl⟩

/-- `parse_mark` once the per-definition guards have passed -/
theorem parseMark_core {tab : List MarkType} {d : MarkIn} {title ct : String}
    (h0 : 0 ≤ d.type) (h1 : d.type < 100) (ht : d.title = some title) (hc : d.chanType = some ct)
    (hct : ct = "single" ∨ ct = "stack") :
    parseMark tab d =
      match tab.find? (·.type == d.type) with
      | none =>
        match addLabels [] d.labels with
        | .error e => .error e
        | .ok ls => .ok (tab ++ [{ type := d.type, title := title, stack := decide (ct = "stack"), labels := ls }])
      | some t =>
        if t.title ≠ title then .error .other
        else if t.stack ≠ decide (ct = "stack") then .error .other
        else match addLabels t.labels d.labels with
          | .error e => .error e
          | .ok ls => .ok (tab.map (upd d.type ls)) := by
  unfold parseMark
  have hr : ¬ ((d.type < 0 || d.type ≥ 100) = true) := by
    simp only [Bool.or_eq_true, decide_eq_true_eq, not_or]; omega
  rw [if_neg hr, ht, hc]
  have hv : ¬ ((ct ≠ "single" && ct ≠ "stack") = true) := by
    rcases hct with rfl | rfl <;> decide
  simp only
  rw [if_neg hv]
  rfl

/-- the per-definition guards, from a successful `parse_mark` -/
theorem parseMark_ok_guards {tab tab' : List MarkType} {d : MarkIn} (h : parseMark tab d = .ok tab') :
    0 ≤ d.type ∧ d.type < 100 ∧ ∃ title ct, d.title = some title ∧ d.chanType = some ct ∧
      (ct = "single" ∨ ct = "stack") := by
  by_cases hr : d.type < 0 ∨ d.type ≥ 100
  · rw [parseMark_bad_range hr] at h; cases h
  · have h0 : 0 ≤ d.type := by omega
    have h1 : d.type < 100 := by omega
    refine ⟨h0, h1, ?_⟩
    cases ht : d.title with
    | none => obtain ⟨e, he⟩ := parseMark_no_title (tab := tab) ht; rw [he] at h; cases h
    | some title =>
      cases hc : d.chanType with
      | none => obtain ⟨e, he⟩ := parseMark_no_ctype (tab := tab) hc; rw [he] at h; cases h
      | some ct =>
        refine ⟨title, ct, rfl, rfl, ?_⟩
        by_cases c1 : ct = "single"
        · exact Or.inl c1
        · by_cases c2 : ct = "stack"
          · exact Or.inr c2
          · obtain ⟨e, he⟩ := parseMark_bad_ctype (tab := tab) hc c1 c2; rw [he] at h; cases h

/-- inversion of a successful `parse_mark` -/
theorem parseMark_ok_inv {tab tab' : List MarkType} {d : MarkIn} (h : parseMark tab d = .ok tab') :
    0 ≤ d.type ∧ d.type < 100 ∧ ∃ title ct, d.title = some title ∧ d.chanType = some ct ∧
      (ct = "single" ∨ ct = "stack") ∧
      ((tab.find? (·.type == d.type) = none ∧ ∃ ls, addLabels [] d.labels = .ok ls ∧
          tab' = tab ++ [{ type := d.type, title := title, stack := decide (ct = "stack"), labels := ls }]) ∨
       (∃ t, tab.find? (·.type == d.type) = some t ∧ t.title = title ∧ t.stack = decide (ct = "stack") ∧
          ∃ ls, addLabels t.labels d.labels = .ok ls ∧ tab' = tab.map (upd d.type ls))) := by
  obtain ⟨h0, h1, title, ct, ht, hc, hct⟩ := parseMark_ok_guards h
  refine ⟨h0, h1, title, ct, ht, hc, hct, ?_⟩
  rw [parseMark_core h0 h1 ht hc hct] at h
  split at h
  · rename_i hf
    left
    refine ⟨hf, ?_⟩
    split at h
    · cases h
    · rename_i ls hl
      injection h with h
      exact ⟨ls, hl, h.symm⟩
  · rename_i t hf
    right
    refine ⟨t, hf, ?_⟩
    split at h
    · cases h
    · rename_i htt
      split at h
      · cases h
      · rename_i hst
        split at h
        · cases h
        · rename_i ls hl
          injection h with h
          exact ⟨Classical.not_not.mp htt, Classical.not_not.mp hst, ls, hl, h.symm⟩

theorem find_type_some {tab : List MarkType} {ty : Int} {t : MarkType}
    (h : tab.find? (·.type == ty) = some t) : t ∈ tab ∧ t.type = ty :=
  ⟨List.mem_of_find?_eq_some h, by simpa using List.find?_some h⟩

theorem find_type_none {tab : List MarkType} {ty : Int}
    (h : tab.find? (·.type == ty) = none) : ∀ t ∈ tab, t.type ≠ ty := by
  intro t ht
  simpa using List.find?_eq_none.mp h t ht

/-! ### The representation invariant -/

/-- `tab` represents the set of definitions `defs` -/
structure Rep (tab : List MarkType) (defs : List MarkIn) : Prop where
  /-- one row per type -/
  types_nodup : (tab.map (·.type)).Nodup
  /-- no value labelled twice in a row -/
  keys : ∀ t ∈ tab, KeysNodup t.labels
  /-- every row comes from some definition -/
  used : ∀ t ∈ tab, ∃ d ∈ defs, d.type = t.type
  /-- every definition is in range and has its row, with its title and channel type -/
  covers : ∀ d ∈ defs, 0 ≤ d.type ∧ d.type < 100 ∧
    ∃ t ∈ tab, t.type = d.type ∧ d.title = some t.title ∧ d.chanType = some (ctName t.stack)
  /-- labels of a row = union of the labels of the definitions of its type -/
  labels : ∀ t ∈ tab, ∀ p, p ∈ t.labels ↔ ∃ d ∈ defs, d.type = t.type ∧ p ∈ d.labels

theorem rep_nil : Rep [] [] where
  types_nodup := List.nodup_nil
  keys := fun _ h => by cases h
  used := fun _ h => by cases h
  covers := fun _ h => by cases h
  labels := fun _ h => by cases h

theorem Rep.row_unique {tab : List MarkType} {defs : List MarkIn} (hR : Rep tab defs)
    {t t' : MarkType} (ht : t ∈ tab) (ht' : t' ∈ tab) (h : t.type = t'.type) : t = t' :=
  eq_of_nodup_map (fun x : MarkType => x.type) (l := tab) hR.types_nodup ht ht' h

/-- step, first definition of a type: a new row is appended -/
theorem rep_step_new {tab : List MarkType} {ds : List MarkIn} {d : MarkIn} {title ct : String}
    {ls : List (Int × String)} (hR : Rep tab ds) (h0 : 0 ≤ d.type) (h1 : d.type < 100)
    (ht : d.title = some title) (hc : d.chanType = some ct) (hct : ct = "single" ∨ ct = "stack")
    (hf : tab.find? (·.type == d.type) = none) (hl : addLabels [] d.labels = .ok ls) :
    Rep (tab ++ [{ type := d.type, title := title, stack := decide (ct = "stack"), labels := ls }])
      (ds ++ [d]) := by
  have hfresh := find_type_none hf
  obtain ⟨hkl, hml⟩ := addLabels_sound keysNodup_nil hl
  have memTab : ∀ {t : MarkType}, t ∈ tab ++ [{ type := d.type, title := title, stack := decide (ct = "stack"), labels := ls }] →
      t ∈ tab ∨ t = { type := d.type, title := title, stack := decide (ct = "stack"), labels := ls } := by
    intro t h
    simpa using h
  have memDs : ∀ {x : MarkIn}, x ∈ ds ++ [d] → x ∈ ds ∨ x = d := by
    intro x h
    simpa using h
  refine ⟨?_, ?_, ?_, ?_, ?_⟩
  · rw [List.map_append, List.nodup_append]
    refine ⟨hR.types_nodup, by simp, ?_⟩
    intro a ha b hb
    obtain ⟨t, htm, rfl⟩ := List.mem_map.mp ha
    simp only [List.map_cons, List.map_nil, List.mem_cons, List.not_mem_nil, or_false] at hb
    subst hb
    exact hfresh t htm
  · intro t htm
    rcases memTab htm with h | rfl
    · exact hR.keys t h
    · exact hkl
  · intro t htm
    rcases memTab htm with h | rfl
    · obtain ⟨d0, hd0, he⟩ := hR.used t h
      exact ⟨d0, List.mem_append_left _ hd0, he⟩
    · exact ⟨d, List.mem_append_right _ (List.mem_singleton.mpr rfl), rfl⟩
  · intro x hx
    rcases memDs hx with h | rfl
    · obtain ⟨a, b, t, htm, e1, e2, e3⟩ := hR.covers x h
      exact ⟨a, b, t, List.mem_append_left _ htm, e1, e2, e3⟩
    · refine ⟨h0, h1, _, List.mem_append_right _ (List.mem_singleton.mpr rfl), rfl, ht, ?_⟩
      rw [hc, ctName_decide hct]
  · intro t htm p
    rcases memTab htm with h | rfl
    · rw [hR.labels t h p]
      constructor
      · rintro ⟨x, hx, e1, e2⟩
        exact ⟨x, List.mem_append_left _ hx, e1, e2⟩
      · rintro ⟨x, hx, e1, e2⟩
        rcases memDs hx with hx' | rfl
        · exact ⟨x, hx', e1, e2⟩
        · exact absurd e1.symm (hfresh t h)
    · rw [hml p]
      constructor
      · rintro (hp | hp)
        · cases hp
        · exact ⟨d, List.mem_append_right _ (List.mem_singleton.mpr rfl), rfl, hp⟩
      · rintro ⟨x, hx, e1, e2⟩
        rcases memDs hx with hx' | rfl
        · obtain ⟨_, _, t, htm', e3, _, _⟩ := hR.covers x hx'
          exact absurd (e3.trans e1) (hfresh t htm')
        · exact Or.inr e2

/-- step, further definition of a known type: the row's labels are extended -/
theorem rep_step_old {tab : List MarkType} {ds : List MarkIn} {d : MarkIn} {title ct : String}
    {ls : List (Int × String)} {t : MarkType} (hR : Rep tab ds)
    (ht : d.title = some title) (hc : d.chanType = some ct) (hct : ct = "single" ∨ ct = "stack")
    (hf : tab.find? (·.type == d.type) = some t) (htt : t.title = title)
    (hst : t.stack = decide (ct = "stack")) (hl : addLabels t.labels d.labels = .ok ls) :
    Rep (tab.map (upd d.type ls)) (ds ++ [d]) := by
  obtain ⟨htm, hty⟩ := find_type_some hf
  obtain ⟨hkl, hml⟩ := addLabels_sound (hR.keys t htm) hl
  obtain ⟨d0, hd0, hd0t⟩ := hR.used t htm
  obtain ⟨h0, h1, _⟩ := hR.covers d0 hd0
  have memDs : ∀ {x : MarkIn}, x ∈ ds ++ [d] → x ∈ ds ∨ x = d := by
    intro x h
    simpa using h
  refine ⟨?_, ?_, ?_, ?_, ?_⟩
  · rw [map_upd_types]; exact hR.types_nodup
  · intro t' ht'
    obtain ⟨x, hx, rfl⟩ := List.mem_map.mp ht'
    by_cases hxt : x.type = d.type
    · rw [upd_labels_eq ls hxt]; exact hkl
    · rw [upd_ne ls hxt]; exact hR.keys x hx
  · intro t' ht'
    obtain ⟨x, hx, rfl⟩ := List.mem_map.mp ht'
    obtain ⟨d1, hd1, he⟩ := hR.used x hx
    exact ⟨d1, List.mem_append_left _ hd1, by rw [upd_type]; exact he⟩
  · intro x hx
    rcases memDs hx with h | rfl
    · obtain ⟨a, b, t0, htm0, e1, e2, e3⟩ := hR.covers x h
      refine ⟨a, b, upd d.type ls t0, List.mem_map_of_mem htm0, ?_, ?_, ?_⟩
      · rw [upd_type]; exact e1
      · rw [upd_title]; exact e2
      · rw [upd_stack]; exact e3
    · refine ⟨by omega, by omega, upd x.type ls t, List.mem_map_of_mem htm, ?_, ?_, ?_⟩
      · rw [upd_type]; exact hty
      · rw [upd_title, htt]; exact ht
      · rw [upd_stack, hst, hc, ctName_decide hct]
  · intro t' ht' p
    obtain ⟨x, hx, rfl⟩ := List.mem_map.mp ht'
    rw [upd_type]
    by_cases hxt : x.type = d.type
    · have hxe : x = t := hR.row_unique hx htm (hxt.trans hty.symm)
      subst hxe
      rw [upd_labels_eq ls hxt, hml p, hR.labels x hx p]
      constructor
      · rintro (⟨y, hy, e1, e2⟩ | hp)
        · exact ⟨y, List.mem_append_left _ hy, e1, e2⟩
        · exact ⟨d, List.mem_append_right _ (List.mem_singleton.mpr rfl), hxt.symm, hp⟩
      · rintro ⟨y, hy, e1, e2⟩
        rcases memDs hy with hy' | rfl
        · exact Or.inl ⟨y, hy', e1, e2⟩
        · exact Or.inr e2
    · rw [upd_ne ls hxt, hR.labels x hx p]
      constructor
      · rintro ⟨y, hy, e1, e2⟩
        exact ⟨y, List.mem_append_left _ hy, e1, e2⟩
      · rintro ⟨y, hy, e1, e2⟩
        rcases memDs hy with hy' | rfl
        · exact ⟨y, hy', e1, e2⟩
        · exact absurd e1.symm hxt

/-- every successful `parse_mark` keeps the representation -/
theorem rep_step {tab tab' : List MarkType} {ds : List MarkIn} {d : MarkIn} (hR : Rep tab ds)
    (h : parseMark tab d = .ok tab') : Rep tab' (ds ++ [d]) := by
  obtain ⟨h0, h1, title, ct, ht, hc, hct, hcase⟩ := parseMark_ok_inv h
  rcases hcase with ⟨hf, ls, hl, rfl⟩ | ⟨t, hf, htt, hst, ls, hl, rfl⟩
  · exact rep_step_new hR h0 h1 ht hc hct hf hl
  · exact rep_step_old hR ht hc hct hf htt hst hl

theorem rep_parseMarks : ∀ {r : List MarkIn} {tab tab' : List MarkType} {ds : List MarkIn},
    Rep tab ds → parseMarks tab r = .ok tab' → Rep tab' (ds ++ r)
  | [], tab, tab', ds, hR, h => by
    unfold parseMarks at h
    injection h with h
    subst h
    rw [List.append_nil]; exact hR
  | d :: r, tab, tab', ds, hR, h => by
    unfold parseMarks at h
    split at h
    · cases h
    · rename_i tab1 h1
      have := rep_parseMarks (rep_step hR h1) h
      rwa [List.append_assoc, List.singleton_append] at this

/-- a represented set of definitions is consistent -/
theorem rep_consistent {tab : List MarkType} {ds : List MarkIn} (hR : Rep tab ds) : Consistent ds := by
  constructor
  · intro d hd
    obtain ⟨h0, h1, t, htm, e1, e2, e3⟩ := hR.covers d hd
    refine ⟨h0, h1, by rw [e2]; rfl, ?_, ?_⟩
    · rw [e3]
      rcases ctName_valid t.stack with h | h
      · exact Or.inl (by rw [h])
      · exact Or.inr (by rw [h])
    · intro p hp q hq
      have hs := (hR.keys t htm).agree_self
      exact hs p ((hR.labels t htm p).mpr ⟨d, hd, e1.symm, hp⟩) q ((hR.labels t htm q).mpr ⟨d, hd, e1.symm, hq⟩)
  · intro d hd d' hd' hty
    obtain ⟨_, _, t, htm, e1, e2, e3⟩ := hR.covers d hd
    obtain ⟨_, _, t', htm', e1', e2', e3'⟩ := hR.covers d' hd'
    have : t = t' := hR.row_unique htm htm' (by rw [e1, e1', hty])
    subst this
    refine ⟨by rw [e2, e2'], by rw [e3, e3'], ?_⟩
    intro p hp q hq
    have hs := (hR.keys t htm).agree_self
    exact hs p ((hR.labels t htm p).mpr ⟨d, hd, e1.symm, hp⟩) q ((hR.labels t htm q).mpr ⟨d', hd', e1'.symm, hq⟩)

/-- if the definitions seen so far together with the next one are consistent,
    `parse_mark` accepts the next one -/
theorem step_complete {tab : List MarkType} {ds : List MarkIn} {d : MarkIn} (hR : Rep tab ds)
    (hC : Consistent (ds ++ [d])) : ∃ tab', parseMark tab d = .ok tab' := by
  have hdm : d ∈ ds ++ [d] := List.mem_append_right _ (List.mem_singleton.mpr rfl)
  obtain ⟨h0, h1, hti, hct, hself⟩ := hC.1 d hdm
  obtain ⟨title, ht⟩ := Option.isSome_iff_exists.mp hti
  obtain ⟨ct, hc, hctv⟩ : ∃ ct, d.chanType = some ct ∧ (ct = "single" ∨ ct = "stack") := by
    rcases hct with h | h
    · exact ⟨_, h, Or.inl rfl⟩
    · exact ⟨_, h, Or.inr rfl⟩
  rw [parseMark_core h0 h1 ht hc hctv]
  cases hf : tab.find? (·.type == d.type) with
  | none =>
    simp only
    obtain ⟨ls, hl⟩ := addLabels_complete (ls := []) keysNodup_nil
      (fun p hp => by cases hp) hself
    rw [hl]
    exact ⟨_, rfl⟩
  | some t =>
    simp only
    obtain ⟨htm, hty⟩ := find_type_some hf
    obtain ⟨d0, hd0, hd0t⟩ := hR.used t htm
    obtain ⟨_, _, t0, htm0, e1, e2, e3⟩ := hR.covers d0 hd0
    have : t0 = t := hR.row_unique htm0 htm (e1.trans hd0t)
    subst this
    obtain ⟨a1, a2, _⟩ := hC.2 d0 (List.mem_append_left _ hd0) d hdm (hd0t.trans hty)
    have htt : t0.title = title := by
      rw [e2, ht] at a1
      injection a1
    have hst : t0.stack = decide (ct = "stack") := by
      rw [e3, hc] at a2
      injection a2 with a2
      rw [← a2, decide_ctName]
    have hag : LabelsAgree t0.labels d.labels := by
      intro p hp q hq
      obtain ⟨d1, hd1, e4, hp1⟩ := (hR.labels t0 htm p).mp hp
      exact (hC.2 d1 (List.mem_append_left _ hd1) d hdm (e4.trans hty)).2.2 p hp1 q hq
    obtain ⟨ls, hl⟩ := addLabels_complete (hR.keys t0 htm) hag hself
    rw [if_neg (by simp [htt]), if_neg (by simp [hst]), hl]
    exact ⟨_, rfl⟩

theorem parseMarks_complete : ∀ {r : List MarkIn} {tab : List MarkType} {ds : List MarkIn},
    Rep tab ds → Consistent (ds ++ r) → ∃ tab', parseMarks tab r = .ok tab'
  | [], tab, _, _, _ => ⟨tab, by unfold parseMarks; rfl⟩
  | d :: r, tab, ds, hR, hC => by
    have hC1 : Consistent (ds ++ [d]) := hC.of_subset (by
      intro x hx
      rcases List.mem_append.mp hx with h | h
      · exact List.mem_append_left _ h
      · exact List.mem_append_right _ (List.mem_cons.mpr (Or.inl (List.mem_singleton.mp h))))
    obtain ⟨tab1, h1⟩ := step_complete hR hC1
    have hC2 : Consistent ((ds ++ [d]) ++ r) := by
      rwa [List.append_assoc, List.singleton_append]
    obtain ⟨tab', h2⟩ := parseMarks_complete (rep_step hR h1) hC2
    refine ⟨tab', ?_⟩
    unfold parseMarks
    rw [h1]
    exact h2

/-! ### Two tables that represent the same set of definitions -/

/-- same types, titles, channel types and label sets; only the order of rows
    and of labels inside a row may differ -/
def TabEquiv (tab tab' : List MarkType) : Prop :=
  (tab.map (·.type)).Perm (tab'.map (·.type)) ∧
  ∀ t ∈ tab, ∀ t' ∈ tab', t.type = t'.type →
    t.title = t'.title ∧ t.stack = t'.stack ∧ t.labels.Perm t'.labels

theorem rep_equiv {tab tab' : List MarkType} {ds ds' : List MarkIn} (hm : ∀ d, d ∈ ds' ↔ d ∈ ds)
    (hR : Rep tab ds) (hR' : Rep tab' ds') : TabEquiv tab tab' := by
  constructor
  · rw [List.perm_ext_iff_of_nodup hR.types_nodup hR'.types_nodup]
    intro ty
    constructor
    · intro h
      obtain ⟨t, htm, rfl⟩ := List.mem_map.mp h
      obtain ⟨d, hd, e⟩ := hR.used t htm
      obtain ⟨_, _, t', htm', e', _⟩ := hR'.covers d ((hm d).mpr hd)
      exact List.mem_map.mpr ⟨t', htm', e'.trans e⟩
    · intro h
      obtain ⟨t, htm, rfl⟩ := List.mem_map.mp h
      obtain ⟨d, hd, e⟩ := hR'.used t htm
      obtain ⟨_, _, t', htm', e', _⟩ := hR.covers d ((hm d).mp hd)
      exact List.mem_map.mpr ⟨t', htm', e'.trans e⟩
  · intro t htm t' htm' hty
    obtain ⟨d, hd, e⟩ := hR.used t htm
    obtain ⟨_, _, t1, htm1, e1, e2, e3⟩ := hR.covers d hd
    have : t1 = t := hR.row_unique htm1 htm (e1.trans e)
    subst this
    obtain ⟨_, _, t2, htm2, f1, f2, f3⟩ := hR'.covers d ((hm d).mpr hd)
    have : t2 = t' := hR'.row_unique htm2 htm' (f1.trans (e.trans hty))
    subst this
    refine ⟨?_, ?_, ?_⟩
    · rw [e2] at f2; injection f2
    · rw [e3] at f3
      injection f3 with f3
      have := congrArg (fun s => decide (s = "stack")) f3
      simpa [decide_ctName] using this
    · rw [List.perm_ext_iff_of_nodup (hR.keys t1 htm).nodup (hR'.keys t2 htm').nodup]
      intro p
      rw [hR.labels t1 htm p, hR'.labels t2 htm' p]
      constructor
      · rintro ⟨x, hx, g1, g2⟩
        exact ⟨x, (hm x).mpr hx, g1.trans hty, g2⟩
      · rintro ⟨x, hx, g1, g2⟩
        exact ⟨x, (hm x).mp hx, g1.trans hty.symm, g2⟩

end Ovni.Emu.MarkL
