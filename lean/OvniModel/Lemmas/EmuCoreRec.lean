import OvniModel.Lemmas.EmuCoreHist

/-
  Helper lemmas for C04 / C05, part 6: the Paraver records of a step
  (`records`, `threadRecords`, `emitRaw`): what a successful emission contains.
-/
set_option linter.unusedSimpArgs false
namespace Ovni.Emu
open Ovni.Generated

theorem collect_ok : ∀ {l : List (Except Err (List PrvRec))} {rs : List PrvRec}, collect l = .ok rs →
    ∀ x ∈ l, ∃ r, x = .ok r ∧ ∀ y ∈ r, y ∈ rs
  | [], _, _, x, hx => by cases hx
  | a :: l, rs, h, x, hx => by
    unfold collect at h
    cases ha : a with
    | error err => rw [ha] at h; cases h
    | ok r =>
      rw [ha] at h
      simp only at h
      cases hl : collect l with
      | error err => rw [hl] at h; cases h
      | ok rs' =>
        rw [hl] at h
        simp only at h
        have hrs : rs = r ++ rs' := by injection h with h; exact h.symm
        rcases List.mem_cons.mp hx with rfl | hx'
        · exact ⟨r, ha, fun y hy => by rw [hrs]; exact List.mem_append_left _ hy⟩
        · obtain ⟨r2, h2, h3⟩ := collect_ok hl x hx'
          exact ⟨r2, h2, fun y hy => by rw [hrs]; exact List.mem_append_right _ (h3 y hy)⟩

/-- a dirty raw channel emits exactly one record, with the converted current value -/
theorem emitRaw_dirty_ok {file row type flags : Nat} {c : Chan} {r : List PrvRec} (hd : c.dirty = true)
    (h : emitRaw file row type flags c = .ok r) :
    ∃ v, prvValue flags c.cur = .ok v ∧ r = [⟨file, row, type, v⟩] := by
  unfold emitRaw at h
  simp only [hd, if_true] at h
  cases hv : prvValue flags c.cur with
  | error err => rw [hv] at h; cases h
  | ok v =>
    rw [hv] at h
    exact ⟨v, rfl, by injection h with h; exact h.symm⟩

/-- the three raw records of a thread row are part of the step's records -/
theorem records_thread {old new : Emu} {rs : List PrvRec} (h : records old new = .ok rs) {t : Thread}
    (ht : t ∈ new.threads) :
    (∃ r, emitRaw 0 (t.gindex + 1) prvThreadCpu prvNext t.chCpu = .ok r ∧ ∀ y ∈ r, y ∈ rs) ∧
    (∃ r, emitRaw 0 (t.gindex + 1) prvThreadTid 0 t.chTid = .ok r ∧ ∀ y ∈ r, y ∈ rs) ∧
    (∃ r, emitRaw 0 (t.gindex + 1) prvThreadState prvSkipDup t.chState = .ok r ∧ ∀ y ∈ r, y ∈ rs) := by
  unfold records at h
  obtain ⟨r, hr, hsub⟩ := collect_ok h
    (threadRecords ((allSpecs.filter fun s => new.enabled.contains s.char) ++ new.extra)
      (old.threads.getD t.gindex t) t)
    (List.mem_append_left _ (List.mem_map.mpr ⟨t, ht, rfl⟩))
  unfold threadRecords at hr
  have h1 := collect_ok hr (emitRaw 0 (t.gindex + 1) prvThreadCpu prvNext t.chCpu)
    (List.mem_append_left _ (by simp))
  have h2 := collect_ok hr (emitRaw 0 (t.gindex + 1) prvThreadTid 0 t.chTid)
    (List.mem_append_left _ (by simp))
  have h3 := collect_ok hr (emitRaw 0 (t.gindex + 1) prvThreadState prvSkipDup t.chState)
    (List.mem_append_left _ (by simp))
  obtain ⟨r1, e1, s1⟩ := h1
  obtain ⟨r2, e2, s2⟩ := h2
  obtain ⟨r3, e3, s3⟩ := h3
  exact ⟨⟨r1, e1, fun y hy => hsub y (s1 y hy)⟩, ⟨r2, e2, fun y hy => hsub y (s2 y hy)⟩,
    ⟨r3, e3, fun y hy => hsub y (s3 y hy)⟩⟩

theorem modelNext_ne {s s' : ThState} {v : Nat} (h : modelNext s v = some s') : s' ≠ .unknown ∧ s' ≠ s := by
  unfold modelNext at h
  cases s <;> cases s' <;> simp at h ⊢ <;> (repeat' split at h) <;> simp_all

theorem stateVal_ne {s s' : ThState} (h1 : s' ≠ .unknown) (h2 : s' ≠ s) : stateVal s ≠ stateVal s' := by
  rw [stateVal_of_ne h1]
  intro h
  exact h2 ((stateVal_eq_iff h1).mp h).symm

theorem prvValue_state {s : ThState} (h : s ≠ .unknown) : prvValue prvSkipDup (stateVal s) = .ok s.code := by
  cases s <;> first | exact absurd rfl h | rfl

/-- the three raw records of a CPU row are part of the step's records -/
theorem records_cpu {old new : Emu} {rs : List PrvRec} (h : records old new = .ok rs) {c : Cpu}
    (hc : c ∈ new.cpus) :
    (∃ r, emitRaw 1 (c.gindex + 1) prvCpuPid 0 c.chPid = .ok r ∧ ∀ y ∈ r, y ∈ rs) ∧
    (∃ r, emitRaw 1 (c.gindex + 1) prvCpuTid 0 c.chTid = .ok r ∧ ∀ y ∈ r, y ∈ rs) ∧
    (∃ r, emitRaw 1 (c.gindex + 1) prvCpuNrun prvZero c.chNrun = .ok r ∧ ∀ y ∈ r, y ∈ rs) := by
  unfold records at h
  obtain ⟨r, hr, hsub⟩ := collect_ok h
    (cpuRecords ((allSpecs.filter fun s => new.enabled.contains s.char) ++ new.extra) old new
      (old.cpus.getD c.gindex c) c)
    (List.mem_append_right _ (List.mem_map.mpr ⟨c, hc, rfl⟩))
  unfold cpuRecords at hr
  have h1 := collect_ok hr (emitRaw 1 (c.gindex + 1) prvCpuPid 0 c.chPid) (List.mem_append_left _ (by simp))
  have h2 := collect_ok hr (emitRaw 1 (c.gindex + 1) prvCpuTid 0 c.chTid) (List.mem_append_left _ (by simp))
  have h3 := collect_ok hr (emitRaw 1 (c.gindex + 1) prvCpuNrun prvZero c.chNrun) (List.mem_append_left _ (by simp))
  obtain ⟨r1, e1, s1⟩ := h1
  obtain ⟨r2, e2, s2⟩ := h2
  obtain ⟨r3, e3, s3⟩ := h3
  exact ⟨⟨r1, e1, fun y hy => hsub y (s1 y hy)⟩, ⟨r2, e2, fun y hy => hsub y (s2 y hy)⟩,
    ⟨r3, e3, fun y hy => hsub y (s3 y hy)⟩⟩

theorem Chan.flush_cur (c : Chan) : c.flush.cur = c.cur := by
  unfold Chan.flush; split <;> rfl

end Ovni.Emu
