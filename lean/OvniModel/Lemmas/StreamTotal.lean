import OvniModel.Lemmas.Stream

/-! Helper lemmas for C19: invariant of the (repaired) cursor, bounds of its
    memory accesses, progress and termination. -/
set_option linter.unusedSimpArgs false
namespace Ovni.Emu.Stream

/-- Cursor invariant: the offset is inside the file and, when an event is
    loaded, its header was validated and the whole event fits. -/
def Inv (g : Garbage) (buf : List Nat) (c : Cur) : Prop :=
  0 ≤ c.offset ∧ c.offset ≤ (buf.length : Int) ∧
  (c.hasEv = true → Fixed.HdrOk g buf c.offset ∧ c.offset + evSizeC g buf c.offset ≤ (buf.length : Int))

theorem hdrOk_facts (g : Garbage) (buf : List Nat) (off : Int) (h0 : 0 ≤ off) (hk : Fixed.HdrOk g buf off) :
    12 ≤ evSizeC g buf off ∧ evSizeC g buf off < 2147483648 ∧
    ∀ r ∈ evSizeReads g buf off, r.inBounds buf.length := by
  obtain ⟨h12, hj⟩ := hk
  unfold evSizeC payloadSizeC evSizeReads
  by_cases j : isJumboF (flagsAt g buf off) = true
  · obtain ⟨h16, hs⟩ := hj j
    rw [if_pos j, if_pos j]
    rw [wrap32_id (4 + (jumboSizeAt g buf off : Int)) (by omega) (by omega), wrap32_id _ (by omega) (by omega)]
    refine ⟨by omega, by omega, ?_⟩
    intro r hr
    simp only [List.mem_cons, List.not_mem_nil, or_false] at hr
    rcases hr with rfl | rfl <;> simp only [Read.inBounds] <;> omega
  · rw [if_neg j, if_neg j]
    have := nibSize_le (flagsAt g buf off)
    rw [wrap32_id _ (by omega) (by omega)]
    refine ⟨by omega, by omega, ?_⟩
    intro r hr
    simp only [List.mem_cons, List.not_mem_nil, or_false] at hr
    subst hr
    simp only [Read.inBounds]; omega

/-- Memory accesses of the second half of `stream_step` when the header is inside. -/
theorem loadEv_reads (g : Garbage) (buf : List Nat) (c : Cur) (off1 : Int) (r1 : List Read)
    (h0 : 0 ≤ off1) (hk : Fixed.HdrOk g buf off1) (hr1 : ∀ r ∈ r1, r.inBounds buf.length) :
    ∀ r ∈ (loadEv g buf c off1 r1).2.2, r.inBounds buf.length := by
  obtain ⟨h12s, _, hrd⟩ := hdrOk_facts g buf off1 h0 hk
  have hclk : Read.inBounds buf.length (off1 + 4, 8) := by
    have := hk.1; simp only [Read.inBounds]; omega
  unfold loadEv
  simp only
  split
  · intro r hr
    rcases List.mem_append.mp hr with h | h
    · exact hr1 r h
    · exact hrd r h
  · split
    all_goals
      intro r hr
      simp only [List.mem_append, List.mem_cons, List.not_mem_nil, or_false] at hr
      rcases hr with (h | h) | h
      · exact hr1 r h
      · exact hrd r h
      · subst h; exact hclk

theorem loadEv_ok (g : Garbage) (buf : List Nat) (c : Cur) (off1 : Int) (r1 : List Read) (c' : Cur)
    (rd : List Read) (h0 : 0 ≤ off1) (hk : Fixed.HdrOk g buf off1)
    (h : loadEv g buf c off1 r1 = (.ok, c', rd)) :
    c'.offset = off1 ∧ c'.hasEv = true ∧ c'.active = c.active ∧ c'.unsorted = c.unsorted ∧ Inv g buf c' := by
  unfold loadEv at h
  simp only at h
  split at h
  · exact nomatch h
  · rename_i hfit
    split at h
    · exact nomatch h
    · simp only [Prod.mk.injEq, true_and] at h
      obtain ⟨rfl, _⟩ := h
      refine ⟨rfl, rfl, rfl, rfl, h0, ?_, fun _ => ⟨hk, by simp only; omega⟩⟩
      have := hk.1
      simp only; omega

/-- If the repaired loader delivers an event, its guards established `HdrOk`
    and it behaved as the original loader. -/
theorem Fixed.loadEv_ok (g : Garbage) (buf : List Nat) (c : Cur) (off1 : Int) (r1 : List Read) (c' : Cur)
    (rd : List Read) (h : Fixed.loadEv g buf c off1 r1 = (.ok, c', rd)) :
    Fixed.HdrOk g buf off1 ∧ Stream.loadEv g buf c off1 r1 = (.ok, c', rd) := by
  unfold Fixed.loadEv at h
  split at h
  · exact nomatch h
  · rename_i h12
    simp only at h
    split at h
    · exact nomatch h
    · rename_i h16
      split at h
      · exact nomatch h
      · rename_i hsz
        refine ⟨⟨by omega, fun j => ⟨?_, ?_⟩⟩, h⟩
        · by_cases hx : (buf.length : Int) - off1 < 16
          · exact absurd ⟨j, hx⟩ h16
          · omega
        · by_cases hx : (jumboSizeAt g buf off1 : Int) > 2147483647 - 16
          · exact absurd ⟨j, hx⟩ hsz
          · omega

/-- Every access of the repaired loader is inside the stream — with no
    assumption on the bytes at all. -/
theorem Fixed.loadEv_reads (g : Garbage) (buf : List Nat) (c : Cur) (off1 : Int) (r1 : List Read)
    (h0 : 0 ≤ off1) (hr1 : ∀ r ∈ r1, r.inBounds buf.length) :
    ∀ r ∈ (Fixed.loadEv g buf c off1 r1).2.2, r.inBounds buf.length := by
  unfold Fixed.loadEv
  split
  · exact hr1
  · rename_i h12
    simp only
    have hfl : Read.inBounds buf.length (off1, 1) := by simp only [Read.inBounds]; omega
    split
    · intro r hr
      simp only [List.mem_append, List.mem_cons, List.not_mem_nil, or_false] at hr
      rcases hr with h | h
      · exact hr1 r h
      · subst h; exact hfl
    · rename_i h16
      split
      · rename_i hsz
        have : Read.inBounds buf.length (off1 + 12, 4) := by
          have : ¬ ((buf.length : Int) - off1 < 16) := fun hx => h16 ⟨hsz.1, hx⟩
          simp only [Read.inBounds]; omega
        intro r hr
        simp only [List.mem_append, List.mem_cons, List.not_mem_nil, or_false] at hr
        rcases hr with h | h | h
        · exact hr1 r h
        · subst h; exact hfl
        · subst h; exact this
      · rename_i hsz
        apply Stream.loadEv_reads g buf c off1 r1 h0 _ hr1
        refine ⟨by omega, fun j => ⟨?_, ?_⟩⟩
        · by_cases hx : (buf.length : Int) - off1 < 16
          · exact absurd ⟨j, hx⟩ h16
          · omega
        · by_cases hx : (jumboSizeAt g buf off1 : Int) > 2147483647 - 16
          · exact absurd ⟨j, hx⟩ hsz
          · omega

/-! ### one call of the repaired `stream_step` -/

theorem nextOff_bounds (g : Garbage) (buf : List Nat) (c : Cur) (hi : Inv g buf c) :
    0 ≤ nextOff g buf c ∧ nextOff g buf c ≤ (buf.length : Int) ∧
    (c.hasEv = true → c.offset + 12 ≤ nextOff g buf c) ∧ (c.hasEv = false → nextOff g buf c = c.offset) := by
  obtain ⟨h0, h1, h2⟩ := hi
  unfold nextOff
  cases hh : c.hasEv
  · simp; omega
  · obtain ⟨hk, hfit⟩ := h2 hh
    obtain ⟨h12, _, _⟩ := hdrOk_facts g buf c.offset h0 hk
    simp; omega

theorem r1_inBounds (g : Garbage) (buf : List Nat) (c : Cur) (hi : Inv g buf c) :
    ∀ r ∈ (if c.hasEv = true then evSizeReads g buf c.offset else []), r.inBounds buf.length := by
  obtain ⟨h0, h1, h2⟩ := hi
  cases hh : c.hasEv
  · simp
  · simp only [if_true]
    exact (hdrOk_facts g buf c.offset h0 (h2 hh).1).2.2

/-- All accesses of one call are inside the stream. -/
theorem Fixed.step_reads (g : Garbage) (buf : List Nat) (c : Cur) (hi : Inv g buf c) :
    ∀ r ∈ (Fixed.streamStep g buf c).2.2, r.inBounds buf.length := by
  obtain ⟨hn0, hn1, _, _⟩ := nextOff_bounds g buf c hi
  have hr1 := r1_inBounds g buf c hi
  unfold Fixed.streamStep
  split
  · simp
  · simp only
    split
    · exact hr1
    · split
      · exact hr1
      · exact Fixed.loadEv_reads g buf c _ _ hn0 hr1

/-- A successful call keeps the invariant and moves forward by at least one header. -/
theorem Fixed.step_ok (g : Garbage) (buf : List Nat) (c c' : Cur) (rd : List Read) (hi : Inv g buf c)
    (h : Fixed.streamStep g buf c = (.ok, c', rd)) :
    Inv g buf c' ∧ c'.hasEv = true ∧ c'.active = true ∧ c'.offset = nextOff g buf c ∧
    nextOff g buf c + 12 ≤ nextOff g buf c' ∧ nextOff g buf c' ≤ (buf.length : Int) := by
  obtain ⟨hn0, hn1, _, _⟩ := nextOff_bounds g buf c hi
  unfold Fixed.streamStep at h
  split at h
  · exact nomatch h
  · rename_i hact
    simp only at h
    split at h
    · exact nomatch h
    · split at h
      · exact nomatch h
      · obtain ⟨hk, hl⟩ := Fixed.loadEv_ok g buf c _ _ c' rd h
        obtain ⟨ho, he, ha, _, hinv⟩ := Stream.loadEv_ok g buf c _ _ c' rd hn0 hk hl
        obtain ⟨_, hb1, hb2, _⟩ := nextOff_bounds g buf c' hinv
        refine ⟨hinv, he, ?_, ho, ?_, hb1⟩
        · rw [ha]; simpa using hact
        · have := hb2 he; omega

/-! ### the whole loop of the repaired cursor -/

theorem Fixed.run_reads (g : Garbage) (buf : List Nat) :
    ∀ (fuel : Nat) (c : Cur), Inv g buf c → ∀ r ∈ Fixed.runReads g buf fuel c, r.inBounds buf.length := by
  intro fuel
  induction fuel with
  | zero => intro c _ r hr; simp [Fixed.runReads, readsWith] at hr
  | succ n ih =>
    intro c hi r hr
    have hsr := Fixed.step_reads g buf c hi
    unfold Fixed.runReads readsWith at hr
    split at hr
    · rename_i c' rd heq
      rw [heq] at hsr
      rcases List.mem_append.mp hr with h | h
      · exact hsr r h
      · exact ih c' (Fixed.step_ok g buf c c' rd hi heq).1 r h
    · rename_i res c' rd _ heq
      rw [heq] at hsr
      exact hsr r hr

theorem Fixed.run_terminates (g : Garbage) (buf : List Nat) :
    ∀ (fuel : Nat) (c : Cur), Inv g buf c → (buf.length : Int) - nextOff g buf c < 12 * (fuel : Int) →
      Fixed.run g buf fuel c ≠ .running := by
  intro fuel
  induction fuel with
  | zero =>
    intro c hi h
    have := (nextOff_bounds g buf c hi).2.1
    omega
  | succ n ih =>
    intro c hi h
    unfold Fixed.run runWith
    split
    · rename_i c' rd heq
      obtain ⟨hi', _, _, _, hadv, _⟩ := Fixed.step_ok g buf c c' rd hi heq
      exact ih c' hi' (by omega)
    · exact fun h => nomatch h
    · exact fun h => nomatch h

theorem Fixed.steps_bound (g : Garbage) (buf : List Nat) :
    ∀ (fuel : Nat) (c : Cur), Inv g buf c →
      12 * (Fixed.runSteps g buf fuel c : Int) ≤ (buf.length : Int) - nextOff g buf c := by
  intro fuel
  induction fuel with
  | zero =>
    intro c hi
    have := (nextOff_bounds g buf c hi).2.1
    simp [Fixed.runSteps, stepsWith]; omega
  | succ n ih =>
    intro c hi
    have hb := (nextOff_bounds g buf c hi).2.1
    unfold Fixed.runSteps stepsWith
    split
    · rename_i c' rd heq
      obtain ⟨hi', _, _, _, hadv, _⟩ := Fixed.step_ok g buf c c' rd hi heq
      have := ih c' hi'
      unfold Fixed.runSteps at this
      push_cast
      omega
    · simp; omega

/-- The cursor `load_obs` returns satisfies the invariant. -/
theorem loadObs_inv (g : Garbage) (buf : List Nat) (u : Bool) (c : Cur) (h : loadObs buf u = .ok c) :
    Inv g buf c ∧ c.offset = 8 ∧ c.hasEv = false := by
  unfold loadObs at h
  split at h
  · exact nomatch h
  · split at h
    · exact nomatch h
    · rename_i h8
      split at h
      · exact nomatch h
      · simp only [Except.ok.injEq] at h
        subst h
        refine ⟨⟨by simp, by simp only; omega, by simp⟩, rfl, rfl⟩

/-! ### when does the current code coincide with the repaired one -/

/-- The guards the repair adds would pass for this call. -/
def StepGuard (g : Garbage) (buf : List Nat) (c : Cur) : Prop :=
  c.active = true → ¬ (c.hasEv = true ∧ nextOff g buf c ≥ (buf.length : Int)) →
    Fixed.HdrOk g buf (nextOff g buf c)

instance (g : Garbage) (buf : List Nat) (c : Cur) : Decidable (StepGuard g buf c) := by
  unfold StepGuard; exact inferInstance

theorem step_eq_fixed (g : Garbage) (buf : List Nat) (c : Cur) (hg : StepGuard g buf c) :
    streamStep g buf c = Fixed.streamStep g buf c := by
  unfold streamStep Fixed.streamStep
  split
  · rfl
  · rename_i hact
    simp only
    split
    · rfl
    · rename_i h1
      split
      · rfl
      · rename_i h2
        have hk : Fixed.HdrOk g buf (nextOff g buf c) := by
          apply hg (by simpa using hact)
          intro ⟨he, hge⟩
          rcases Int.lt_or_eq_of_le hge with h | h
          · exact h1 ⟨he, h⟩
          · exact h2 ⟨he, h.symm⟩
        rw [Fixed.loadEv_eq g buf c _ _ hk]

/-- The guards pass at every call of a run of at most `fuel` calls (decidable:
    it is a finite computation on the input bytes). -/
def guardedB (g : Garbage) (buf : List Nat) : Nat → Cur → Bool
  | 0, _ => true
  | fuel + 1, c =>
    decide (StepGuard g buf c) &&
      match streamStep g buf c with
      | (.ok, c', _) => guardedB g buf fuel c'
      | _ => true

theorem run_eq_fixed (g : Garbage) (buf : List Nat) :
    ∀ (fuel : Nat) (c : Cur), guardedB g buf fuel c = true →
      run g buf fuel c = Fixed.run g buf fuel c ∧ runReads g buf fuel c = Fixed.runReads g buf fuel c ∧
      runSteps g buf fuel c = Fixed.runSteps g buf fuel c := by
  intro fuel
  induction fuel with
  | zero => intro c _; exact ⟨rfl, rfl, rfl⟩
  | succ n ih =>
    intro c hgd
    unfold guardedB at hgd
    rw [Bool.and_eq_true] at hgd
    obtain ⟨hg, hrest⟩ := hgd
    have heq := step_eq_fixed g buf c (of_decide_eq_true hg)
    unfold run Fixed.run runReads Fixed.runReads runSteps Fixed.runSteps runWith readsWith stepsWith
    rw [← heq]
    split
    · rename_i c' rd hs
      rw [hs] at hrest
      obtain ⟨a, b, d⟩ := ih c' hrest
      unfold run Fixed.run at a
      unfold runReads Fixed.runReads at b
      unfold runSteps Fixed.runSteps at d
      simp only [hs]
      exact ⟨a, by rw [b], by rw [d]⟩
    · rename_i hs; simp only [hs]; exact ⟨trivial, trivial, trivial⟩
    · rename_i hs; simp only [hs]; exact ⟨trivial, trivial, trivial⟩

/-! ### the repaired cursor does not depend on memory outside the stream -/

theorem hdr_indep (g g' : Garbage) (buf : List Nat) (off : Int) (h0 : 0 ≤ off) (hk : Fixed.HdrOk g buf off) :
    flagsAt g buf off = flagsAt g' buf off ∧ evSizeC g buf off = evSizeC g' buf off ∧
    evSizeReads g buf off = evSizeReads g' buf off ∧ clockAt g buf off = clockAt g' buf off ∧
    Fixed.HdrOk g' buf off := by
  obtain ⟨h12, hj⟩ := hk
  have hf : flagsAt g buf off = flagsAt g' buf off := byteAt_inb g g' buf off h0 (by omega)
  have hc : clockAt g buf off = clockAt g' buf off := by
    unfold clockAt; rw [readLE_inb g g' buf 8 (off + 4) (by omega) (by omega)]
  by_cases j : isJumboF (flagsAt g buf off) = true
  · obtain ⟨h16, hs⟩ := hj j
    have hz : jumboSizeAt g buf off = jumboSizeAt g' buf off := by
      unfold jumboSizeAt; rw [readLE_inb g g' buf 4 (off + 12) (by omega) (by omega)]
    refine ⟨hf, ?_, ?_, hc, ⟨h12, fun _ => ⟨h16, by rw [← hz]; exact hs⟩⟩⟩
    · unfold evSizeC payloadSizeC; rw [← hf, ← hz]
    · unfold evSizeReads; rw [← hf]
  · refine ⟨hf, ?_, ?_, hc, ⟨h12, fun j' => absurd (hf ▸ j') j⟩⟩
    · unfold evSizeC payloadSizeC; rw [← hf, if_neg j, if_neg j]
    · unfold evSizeReads; rw [← hf]

theorem loadEv_indep (g g' : Garbage) (buf : List Nat) (c : Cur) (off1 : Int) (r1 : List Read)
    (h0 : 0 ≤ off1) (hk : Fixed.HdrOk g buf off1) : loadEv g buf c off1 r1 = loadEv g' buf c off1 r1 := by
  obtain ⟨_, hs, hr, hc, _⟩ := hdr_indep g g' buf off1 h0 hk
  unfold loadEv
  rw [hs, hr, hc]

theorem Fixed.loadEv_indep (g g' : Garbage) (buf : List Nat) (c : Cur) (off1 : Int) (r1 : List Read)
    (h0 : 0 ≤ off1) : Fixed.loadEv g buf c off1 r1 = Fixed.loadEv g' buf c off1 r1 := by
  unfold Fixed.loadEv
  by_cases h12 : (buf.length : Int) - off1 < 12
  · simp only [if_pos h12]
  · simp only [if_neg h12]
    have hf : flagsAt g buf off1 = flagsAt g' buf off1 := byteAt_inb g g' buf off1 h0 (by omega)
    rw [← hf]
    by_cases j : isJumboF (flagsAt g buf off1) = true
    · by_cases h16 : (buf.length : Int) - off1 < 16
      · have e : isJumboF (flagsAt g buf off1) = true ∧ (buf.length : Int) - off1 < 16 := ⟨j, h16⟩
        simp only [if_pos e]
      · have e : ¬ (isJumboF (flagsAt g buf off1) = true ∧ (buf.length : Int) - off1 < 16) := fun h => h16 h.2
        simp only [if_neg e]
        have hz : jumboSizeAt g buf off1 = jumboSizeAt g' buf off1 := by
          unfold jumboSizeAt; rw [readLE_inb g g' buf 4 (off1 + 12) (by omega) (by omega)]
        rw [← hz]
        by_cases hsz : (jumboSizeAt g buf off1 : Int) > 2147483647 - 16
        · have e2 : isJumboF (flagsAt g buf off1) = true ∧ (jumboSizeAt g buf off1 : Int) > 2147483647 - 16 := ⟨j, hsz⟩
          simp only [if_pos e2]
        · have e2 : ¬ (isJumboF (flagsAt g buf off1) = true ∧ (jumboSizeAt g buf off1 : Int) > 2147483647 - 16) :=
            fun h => hsz h.2
          simp only [if_neg e2]
          exact Stream.loadEv_indep g g' buf c off1 r1 h0 ⟨by omega, fun _ => ⟨by omega, by omega⟩⟩
    · have e : ¬ (isJumboF (flagsAt g buf off1) = true ∧ (buf.length : Int) - off1 < 16) := fun h => j h.1
      have e2 : ¬ (isJumboF (flagsAt g buf off1) = true ∧ (jumboSizeAt g buf off1 : Int) > 2147483647 - 16) :=
        fun h => j h.1
      have e3 : ¬ (isJumboF (flagsAt g buf off1) = true ∧ (jumboSizeAt g' buf off1 : Int) > 2147483647 - 16) :=
        fun h => j h.1
      simp only [if_neg e, if_neg e2, if_neg e3]
      exact Stream.loadEv_indep g g' buf c off1 r1 h0 ⟨by omega, fun j' => absurd j' j⟩

theorem inv_indep (g g' : Garbage) (buf : List Nat) (c : Cur) (hi : Inv g buf c) :
    Inv g' buf c ∧ nextOff g buf c = nextOff g' buf c ∧
    (if c.hasEv = true then evSizeReads g buf c.offset else []) =
      (if c.hasEv = true then evSizeReads g' buf c.offset else []) := by
  obtain ⟨h0, h1, h2⟩ := hi
  cases hh : c.hasEv
  · exact ⟨⟨h0, h1, fun h => by rw [hh] at h; exact nomatch h⟩, by simp [nextOff, hh], by simp⟩
  · obtain ⟨hk, hfit⟩ := h2 hh
    obtain ⟨_, hs, hr, _, hk'⟩ := hdr_indep g g' buf c.offset h0 hk
    refine ⟨⟨h0, h1, fun _ => ⟨hk', by rw [← hs]; exact hfit⟩⟩, by simp [nextOff, hh, hs], by simp [hr]⟩

/-- One call of the repaired `stream_step` is a function of the file contents only. -/
theorem Fixed.step_indep (g g' : Garbage) (buf : List Nat) (c : Cur) (hi : Inv g buf c) :
    Fixed.streamStep g buf c = Fixed.streamStep g' buf c := by
  obtain ⟨hn0, _, _, _⟩ := nextOff_bounds g buf c hi
  obtain ⟨_, hn, hr⟩ := inv_indep g g' buf c hi
  unfold Fixed.streamStep
  simp only
  rw [← hn, ← hr, Fixed.loadEv_indep g g' buf c _ _ hn0]

theorem runWith_congr (s1 s2 : Cur → Res × Cur × List Read) (P : Cur → Prop)
    (hstep : ∀ c, P c → s1 c = s2 c) (hpres : ∀ c c' rd, P c → s1 c = (.ok, c', rd) → P c') :
    ∀ (fuel : Nat) (c : Cur), P c →
      runWith s1 fuel c = runWith s2 fuel c ∧ readsWith s1 fuel c = readsWith s2 fuel c := by
  intro fuel
  induction fuel with
  | zero => intro c _; exact ⟨rfl, rfl⟩
  | succ n ih =>
    intro c hc
    have heq := hstep c hc
    match hs : s1 c with
    | (.ok, c', rd) =>
      have hs2 : s2 c = (.ok, c', rd) := by rw [← heq]; exact hs
      obtain ⟨a, b⟩ := ih c' (hpres c c' rd hc hs)
      simp only [runWith, readsWith, hs, hs2]
      exact ⟨a, by rw [b]⟩
    | (.eof, c', rd) =>
      have hs2 : s2 c = (.eof, c', rd) := by rw [← heq]; exact hs
      simp only [runWith, readsWith, hs, hs2]
      exact ⟨trivial, trivial⟩
    | (.err e, c', rd) =>
      have hs2 : s2 c = (.err e, c', rd) := by rw [← heq]; exact hs
      simp only [runWith, readsWith, hs, hs2]
      exact ⟨trivial, trivial⟩

theorem Fixed.run_indep (g g' : Garbage) (buf : List Nat) (fuel : Nat) (c : Cur) (hi : Inv g buf c) :
    Fixed.run g buf fuel c = Fixed.run g' buf fuel c ∧
    Fixed.runReads g buf fuel c = Fixed.runReads g' buf fuel c :=
  runWith_congr (Fixed.streamStep g buf) (Fixed.streamStep g' buf) (Inv g buf)
    (fun c hc => Fixed.step_indep g g' buf c hc)
    (fun c c' rd hc hs => (Fixed.step_ok g buf c c' rd hc hs).1) fuel c hi

end Ovni.Emu.Stream
