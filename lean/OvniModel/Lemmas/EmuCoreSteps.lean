import OvniModel.Lemmas.EmuCoreWF

/-
  Helper lemmas for C04 / C05, part 3: the handlers of ovni/event.c in closed
  form on well-formed states, and preservation of the invariant.
-/
namespace Ovni.Emu

/-! ### the generic step lemma -/

def Emu.withThread (e : Emu) (ti : Nat) (t : Thread) : Emu := { e with threads := e.threads.set ti t }

/-- how a step may leave CPU `g`: untouched while the changed thread is not (and was not) bound to
    it, or rewritten by `cpu_update` over a list that is the membership list of the final table -/
inductive CpuStep (ths : List Thread) (ti : Nat) (t t' : Thread) (g : Nat) (c : Cpu) : Cpu → Prop where
  | keep : t.cpu ≠ some g → t'.cpu ≠ some g → CpuStep ths ti t t' g c c
  | update (l : List Nat) (thsX : List Thread) :
      (∀ i ∈ l, (thsX[i]?).map Thread.key = ((ths.set ti t')[i]?).map Thread.key) →
      Membership (ths.set ti t') g l →
      (c.virt = false → (runOf (boundOf thsX l)).length ≤ 1) →
      CpuStep ths ti t t' g c (({ c with threads := l } : Cpu).withVals (boundOf thsX l))

theorem WF.step {e : Emu} (h : WF e) {ti : Nat} {t : Thread} (ht : e.threads[ti]? = some t)
    (t' : Thread) (cpus' : List Cpu) (hlen : cpus'.length = e.cpus.length)
    (hT : ThreadOK e.cpus.length ti t'.flush)
    (hC : ∀ g c', cpus'[g]? = some c' → ∃ c, e.cpus[g]? = some c ∧ CpuStep e.threads ti t t' g c c') :
    WF ({ e with threads := e.threads.set ti t', cpus := cpus' } : Emu).flushAll := by
  apply WF.assemble
  · intro i u hu
    rw [hlen]
    by_cases hi : ti = i
    · subst hi
      rw [List.getElem?_set_self (lt_of_getElem? ht)] at hu
      cases hu; exact hT
    · rw [List.getElem?_set_ne hi] at hu
      exact (h.th i u hu).flush
  · intro g c' hc'
    obtain ⟨c, hc, hs⟩ := hC g c' hc'
    have hok := h.cpu g c hc
    cases hs with
    | keep h1 h2 => exact (hok.set_other ht h1 h2).flush
    | update l thsX hag hm hph =>
      obtain ⟨vn, vp, vt, vr, va, hch⟩ := hok.vals.clean
      exact cpuOK_after_update (c := { c with threads := l })
        ⟨vn, vp, vt, vr, va, ⟨hch.nrun, hch.pid, hch.tid, hch.thrun, hch.thact⟩⟩ hok.gidx hag hm hph


/-! ### pause / resume / cool / warm -/

theorem Emu.setThread_eq (e : Emu) {t : Thread} {ti : Nat} (hg : t.gindex = ti) :
    e.setThread t = e.withThread ti t := by
  unfold Emu.setThread Emu.withThread; rw [hg]

theorem Thread.setState_ok {n g : Nat} {t : Thread} (h : ThreadOK n g t) {ci : Nat} (hcpu : t.cpu = some ci)
    {st : ThState} (hne : t.state ≠ st) (hst : st ≠ .unknown) : t.setState st = .ok (t.withState st) := by
  rw [Thread.setState_eq h.chState h.chTid hst]
  simp only [hcpu, hne, Option.isNone_some, Bool.false_eq_true, if_false]

theorem preThreadChange_eq {e : Emu} (h : WF e) {ti : Nat} {t : Thread} (ht : e.threads[ti]? = some t)
    (ok : ThState → Bool) (st : ThState) {ci : Nat} {c : Cpu} (hcpu : t.cpu = some ci)
    (hc : e.cpus[ci]? = some c) (hok : ok t.state = true) (hne : t.state ≠ st) (hl1 : st ≠ .unknown) :
    preThreadChange e ti ok st =
      if overGuard (e.threads.set ti (t.withState st)) c.threads c.virt then .error .oversub
      else .ok ((e.withThread ti (t.withState st)).updCpu ci c c.threads) := by
  have hth := h.th ti t ht
  have hcp := h.cpu ci c hc
  unfold preThreadChange
  simp only [ht, hok, Thread.setState_ok hth hcpu hne hl1]
  have h1 : (t.withState st).cpu = some ci := hcpu
  have h2 : e.setThread (t.withState st) = e.withThread ti (t.withState st) :=
    Emu.setThread_eq e hth.gidx
  show (match (t.withState st).cpu with
    | some ci => cpuRefresh (e.setThread (t.withState st)) ci
    | _ => throw Err.noCpu) = _
  rw [h1, h2]
  exact cpuRefresh_eq (e := e.withThread ti (t.withState st)) hc hcp.gidx hcp.vals.clean

theorem overGuard_false {ths : List Thread} {l : List Nat} {virt : Bool}
    (h : overGuard ths l virt = false) (hv : virt = false) : (runOf (boundOf ths l)).length ≤ 1 := by
  unfold overGuard at h
  simp [hv] at h
  exact h

theorem overGuard_true {ths : List Thread} {l : List Nat} {virt : Bool}
    (h : overGuard ths l virt = true) : virt = false ∧ 1 < (runOf (boundOf ths l)).length := by
  unfold overGuard at h
  simp at h
  exact ⟨h.2, h.1⟩

theorem ThreadOK.withState_flush {n g : Nat} {t : Thread} (h : ThreadOK n g t) {ci : Nat}
    (hcpu : t.cpu = some ci) {st : ThState} (hl1 : st ≠ .unknown) (hl2 : st ≠ .dead) :
    ThreadOK n g (t.withState st).flush :=
  { gidx := h.gidx
    chState := by
      show ChanOK _ (stateVal st) false
      rw [stateVal_of_ne hl1]; exact h.chState.setv_flush _
    chTid := h.chTid.setv_flush _
    chCpu := h.chCpu.flush
    cpuIff := by
      show t.cpu = none ↔ (st = .unknown ∨ st = .dead)
      rw [hcpu]; simp [hl1, hl2]
    cpuLt := h.cpuLt
    inCpu := h.inCpu }

/-- the CPUs after one CPU has been rewritten: every other entry is the old one -/
theorem cpus_set_cases {cpus : List Cpu} {ci g : Nat} {cnew c' : Cpu} (h : (cpus.set ci cnew)[g]? = some c') :
    (g = ci ∧ c' = cnew) ∨ (g ≠ ci ∧ cpus[g]? = some c') := by
  by_cases hg : ci = g
  · subst hg
    rw [List.getElem?_set] at h
    simp at h
    exact Or.inl ⟨rfl, h.2.symm⟩
  · rw [List.getElem?_set_ne hg] at h
    exact Or.inr ⟨fun h' => hg h'.symm, h⟩

theorem wf_change {e : Emu} (h : WF e) {ti : Nat} {t : Thread} (ht : e.threads[ti]? = some t)
    {st : ThState} {ci : Nat} {c : Cpu} (hcpu : t.cpu = some ci) (hc : e.cpus[ci]? = some c)
    (hl1 : st ≠ .unknown) (hl2 : st ≠ .dead)
    (hg : overGuard (e.threads.set ti (t.withState st)) c.threads c.virt = false) :
    WF ((e.withThread ti (t.withState st)).updCpu ci c c.threads).flushAll := by
  have hth := h.th ti t ht
  have hcp := h.cpu ci c hc
  refine WF.step h ht (t.withState st) _ (List.length_set ..) (hth.withState_flush hcpu hl1 hl2) ?_
  intro g c' hc'
  rcases cpus_set_cases hc' with ⟨rfl, rfl⟩ | ⟨hne, hold⟩
  · refine ⟨c, hc, CpuStep.update c.threads _ (fun _ _ => rfl) (hcp.mem.set_same ht rfl) ?_⟩
    exact overGuard_false hg
  · refine ⟨c', hold, CpuStep.keep ?_ ?_⟩
    · rw [hcpu]; intro h'; exact hne (Option.some.inj h').symm
    · show t.cpu ≠ some g
      rw [hcpu]; intro h'; exact hne (Option.some.inj h').symm


/-! ### execute -/

theorem loomGetCpu_some {e : Emu} (h : WF e) {loom : Nat} {index : Int} {ci : Nat}
    (hl : loomGetCpu e loom index = some ci) : ∃ c, e.cpus[ci]? = some c ∧ c.loom = loom := by
  unfold loomGetCpu at hl
  have key : ∀ (p : Cpu → Bool), (∀ c, p c = true → c.loom = loom) →
      (e.cpus.find? p).map (·.gindex) = some ci → ∃ c, e.cpus[ci]? = some c ∧ c.loom = loom := by
    intro p hp hf
    cases hfind : e.cpus.find? p with
    | none => simp [hfind] at hf
    | some c =>
      simp [hfind] at hf
      have hm := List.mem_of_find?_eq_some hfind
      obtain ⟨j, hj⟩ := List.mem_iff_getElem?.mp hm
      have := (h.cpu j c hj).gidx
      rw [← hf, this]
      exact ⟨c, hj, hp c (List.find?_some hfind)⟩
  by_cases hi : index = -1
  · simp only [hi, if_true] at hl
    exact key _ (by intro c hc; simp at hc; exact hc.1) hl
  · simp only [hi, if_false] at hl
    exact key _ (by intro c hc; simp at hc; exact hc.1.1) hl

/-- the thread after a successful execute on CPU `ci` -/
def Thread.executed (t : Thread) (ci : Nat) : Thread := (t.withCpu (some ci)).withState .running

theorem preThreadExecute_eq {e : Emu} (h : WF e) {ti : Nat} {t : Thread} (ht : e.threads[ti]? = some t)
    {payload : List Nat} {ci : Nat} {c : Cpu} (hst : t.state ≠ .running) (hlen : 4 ≤ payload.length)
    (hci : loomGetCpu e t.loom (i32At payload 0) = some ci) (hnone : t.cpu = none)
    (hc : e.cpus[ci]? = some c) :
    preThreadExecute e ti payload =
      if overGuard (e.threads.set ti (t.executed ci)) (c.threads ++ [ti]) c.virt then .error .oversub
      else .ok ((e.withThread ti (t.executed ci)).updCpu ci c (c.threads ++ [ti])) := by
  have hth := h.th ti t ht
  have hcp := h.cpu ci c hc
  have hnotin : c.threads.contains ti = false := by
    have := hcp.mem.not_mem ht (by rw [hnone]; simp)
    simpa using this
  unfold preThreadExecute
  have hl : ¬ payload.length < 4 := by omega
  simp only [ht, hst, hl, hci, Thread.setCpu_eq hth.chCpu, hnone]
  have h1 : (t.withCpu (some ci)).setState .running = .ok (t.executed ci) := by
    rw [Thread.setState_eq (t := t.withCpu (some ci)) hth.chState hth.chTid (by decide)]
    have : (t.withCpu (some ci)).state ≠ .running := hst
    have h' : (t.withCpu (some ci)).cpu = some ci := rfl
    simp only [h', this, Option.isNone_some, Bool.false_eq_true, if_false]
    rfl
  show ((t.withCpu (some ci)).setState .running >>= fun t2 => cpuAddThread (e.setThread t2) ci ti) = _
  rw [h1]
  show cpuAddThread (e.setThread (t.executed ci)) ci ti = _
  rw [Emu.setThread_eq e (show (t.executed ci).gindex = ti from hth.gidx)]
  rw [cpuAddThread_eq (e := e.withThread ti (t.executed ci)) hc hcp.gidx hcp.vals.clean ti]
  simp only [hnotin, Bool.false_eq_true, if_false]
  rfl

theorem ThreadOK.executed_flush {n g : Nat} {t : Thread} (h : ThreadOK n g t) {ci : Nat} (hlt : ci < n) :
    ThreadOK n g (t.executed ci).flush :=
  { gidx := h.gidx
    chState := h.chState.setv_flush _
    chTid := h.chTid.setv_flush _
    chCpu := h.chCpu.setv_flush _
    cpuIff := by
      show some ci = none ↔ (ThState.running = .unknown ∨ ThState.running = .dead)
      simp
    cpuLt := by
      intro k hk
      have : some ci = some k := hk
      cases this; exact hlt
    inCpu := h.inCpu }

theorem wf_execute {e : Emu} (h : WF e) {ti : Nat} {t : Thread} (ht : e.threads[ti]? = some t)
    {ci : Nat} {c : Cpu} (hnone : t.cpu = none) (hc : e.cpus[ci]? = some c)
    (hg : overGuard (e.threads.set ti (t.executed ci)) (c.threads ++ [ti]) c.virt = false) :
    WF ((e.withThread ti (t.executed ci)).updCpu ci c (c.threads ++ [ti])).flushAll := by
  have hth := h.th ti t ht
  have hcp := h.cpu ci c hc
  refine WF.step h ht (t.executed ci) _ (List.length_set ..) (hth.executed_flush (lt_of_getElem? hc)) ?_
  intro g c' hc'
  rcases cpus_set_cases hc' with ⟨rfl, rfl⟩ | ⟨hne, hold⟩
  · refine ⟨c, hc, CpuStep.update (c.threads ++ [ti]) _ (fun _ _ => rfl)
      (hcp.mem.set_add ht (by rw [hnone]; simp) rfl) ?_⟩
    exact overGuard_false hg
  · refine ⟨c', hold, CpuStep.keep (by rw [hnone]; simp) ?_⟩
    show some ci ≠ some g
    intro h'; exact hne (Option.some.inj h').symm

/-- execute on a thread that already has a CPU (running, cooling, paused, warming) is an error -/
theorem preThreadExecute_err_of_cpu {e : Emu} (h : WF e) {ti : Nat} {t : Thread}
    (ht : e.threads[ti]? = some t) (payload : List Nat) (hsome : t.cpu ≠ none) :
    ∃ err, preThreadExecute e ti payload = .error err := by
  have hth := h.th ti t ht
  unfold preThreadExecute
  simp only [ht]
  by_cases h1 : t.state = .running
  · exact ⟨_, by simp only [h1, if_true]; rfl⟩
  by_cases h2 : payload.length < 4
  · exact ⟨_, by simp only [h1, h2, if_true, if_false]; rfl⟩
  cases h3 : loomGetCpu e t.loom (i32At payload 0) with
  | none => exact ⟨_, by simp only [h1, h2, if_false]; rfl⟩
  | some ci =>
    refine ⟨.state, ?_⟩
    simp only [h1, h2, if_false, Thread.setCpu_eq hth.chCpu]
    cases hcpu : t.cpu with
    | none => exact absurd hcpu hsome
    | some k => rfl


/-! ### end -/

theorem ok_bind {α β} (x : α) (f : α → Except Err β) : (Except.ok x >>= f) = f x := rfl


/-- the thread after a successful end -/
def Thread.ended (t : Thread) : Thread := (t.withState .dead).withCpu none

/-- the emulator after a successful end of thread `ti` (old value `t`) bound to CPU `ci` (old value `c`) -/
def Emu.ended (e : Emu) (ti : Nat) (t : Thread) (ci : Nat) (c : Cpu) : Emu :=
  { e with threads := e.threads.set ti t.ended,
           cpus := e.cpus.set ci (({ c with threads := c.threads.erase ti } : Cpu).withVals
             (boundOf (e.threads.set ti (t.withState .dead)) (c.threads.erase ti))) }

theorem preThreadEnd_eq {e : Emu} (h : WF e) {ti : Nat} {t : Thread} (ht : e.threads[ti]? = some t)
    {ci : Nat} {c : Cpu} (hst : t.state = .running ∨ t.state = .cooling) (hcpu : t.cpu = some ci)
    (hc : e.cpus[ci]? = some c) :
    preThreadEnd e ti =
      if overGuard (e.threads.set ti (t.withState .dead)) (c.threads.erase ti) c.virt then .error .oversub
      else .ok (e.ended ti t ci c) := by
  have hth := h.th ti t ht
  have hcp := h.cpu ci c hc
  have hin : c.threads.contains ti = true := by
    have := hcp.mem.mem_of ht hcpu
    simpa using this
  have hne : t.state ≠ .dead := by rcases hst with h' | h' <;> rw [h'] <;> decide
  have hg : ¬ ((t.state ≠ .running && t.state ≠ .cooling) = true) := by
    rcases hst with h' | h' <;> rw [h'] <;> decide
  unfold preThreadEnd
  simp only [ht, hg, Bool.false_eq_true, if_false, Thread.setState_ok hth hcpu hne (by decide)]
  simp only [ok_bind, show (t.withState .dead).cpu = some ci from hcpu]
  rw [Emu.setThread_eq e (show (t.withState .dead).gindex = ti from hth.gidx)]
  rw [cpuRemoveThread_eq (e := e.withThread ti (t.withState .dead)) hc hcp.gidx hcp.vals.clean ti]
  simp only [hin, Bool.not_true, Bool.false_eq_true, if_false]
  have hu : (t.withState .dead).unsetCpu = .ok t.ended := by
    rw [Thread.unsetCpu_eq (t := t.withState .dead) hth.chCpu]
    rw [show (t.withState .dead).cpu = some ci from hcpu]
    rfl
  by_cases ho : overGuard (e.threads.set ti (t.withState .dead)) (c.threads.erase ti) c.virt = true
  · have ho' : overGuard (e.withThread ti (t.withState .dead)).threads (c.threads.erase ti) c.virt = true := ho
    rw [if_pos ho, if_pos ho']; rfl
  · have ho' : ¬ overGuard (e.withThread ti (t.withState .dead)).threads (c.threads.erase ti) c.virt = true := ho
    rw [if_neg ho, if_neg ho']
    simp only [ok_bind, hu]
    show Except.ok _ = Except.ok _
    congr 1
    rw [Emu.setThread_eq _ (show t.ended.gindex = ti from hth.gidx)]
    unfold Emu.ended Emu.withThread Emu.updCpu
    simp only [List.set_set]

theorem ThreadOK.ended_flush {n g : Nat} {t : Thread} (h : ThreadOK n g t) : ThreadOK n g t.ended.flush :=
  { gidx := h.gidx
    chState := h.chState.setv_flush _
    chTid := h.chTid.setv_flush _
    chCpu := h.chCpu.setv_flush _
    cpuIff := by
      show (none : Option Nat) = none ↔ (ThState.dead = .unknown ∨ ThState.dead = .dead)
      simp
    cpuLt := by
      intro k hk
      have : (none : Option Nat) = some k := hk
      cases this
    inCpu := h.inCpu }

theorem wf_end {e : Emu} (h : WF e) {ti : Nat} {t : Thread} (ht : e.threads[ti]? = some t)
    {ci : Nat} {c : Cpu} (hcpu : t.cpu = some ci) (hc : e.cpus[ci]? = some c)
    (hg : overGuard (e.threads.set ti (t.withState .dead)) (c.threads.erase ti) c.virt = false) :
    WF (e.ended ti t ci c).flushAll := by
  have hth := h.th ti t ht
  have hcp := h.cpu ci c hc
  refine WF.step h ht t.ended _ (List.length_set ..) hth.ended_flush ?_
  intro g c' hc'
  rcases cpus_set_cases hc' with ⟨rfl, rfl⟩ | ⟨hne, hold⟩
  · refine ⟨c, hc, CpuStep.update (c.threads.erase ti) _ ?_
      (hcp.mem.set_remove ht (by show (none : Option Nat) ≠ some g; simp)) (overGuard_false hg)⟩
    intro i hi
    have hne : ti ≠ i := by
      intro h'; subst h'
      exact ((hcp.mem.nodup.mem_erase_iff).mp hi).1 rfl
    rw [List.getElem?_set_ne hne, List.getElem?_set_ne hne]
  · refine ⟨c', hold, CpuStep.keep ?_ (by show (none : Option Nat) ≠ some g; simp)⟩
    rw [hcpu]; intro h'; exact hne (Option.some.inj h').symm

/-- end in a state other than running / cooling is the state error -/
theorem preThreadEnd_err {e : Emu} {ti : Nat} {t : Thread} (ht : e.threads[ti]? = some t)
    (h1 : t.state ≠ .running) (h2 : t.state ≠ .cooling) : preThreadEnd e ti = .error .state := by
  unfold preThreadEnd
  simp only [ht]
  have : (t.state ≠ .running && t.state ≠ .cooling) = true := by simp [h1, h2]
  simp only [this, if_true]; rfl

/-- pause / resume / cool / warm in a state the guard does not allow is the state error -/
theorem preThreadChange_err {e : Emu} {ti : Nat} {t : Thread} (ht : e.threads[ti]? = some t)
    (ok : ThState → Bool) (st : ThState) (hok : ok t.state = false) :
    preThreadChange e ti ok st = .error .state := by
  unfold preThreadChange
  simp only [ht, hok]; rfl


/-! ### affinity: cpu_migrate_thread + thread_migrate_cpu -/

theorem cpuAddThread_threads {e e' : Emu} {ci ti : Nat} (h : cpuAddThread e ci ti = .ok e') :
    e'.threads = e.threads := by
  unfold cpuAddThread at h
  cases hc : e.cpus[ci]? with
  | none => simp [hc] at h
  | some c =>
    simp only [hc] at h
    by_cases hin : c.threads.contains ti = true
    · simp only [hin, if_true] at h; cases h
    · simp only [hin] at h
      cases hu : cpuUpdate e.threads { c with threads := c.threads ++ [ti] } with
      | error err => simp only [hu] at h; cases h
      | ok c' =>
        simp only [hu] at h
        have : e.setCpu c' = e' := by injection h
        rw [← this]; rfl

theorem cpuRemoveThread_threads {e e' : Emu} {ci ti : Nat} (h : cpuRemoveThread e ci ti = .ok e') :
    e'.threads = e.threads := by
  unfold cpuRemoveThread at h
  cases hc : e.cpus[ci]? with
  | none => simp [hc] at h
  | some c =>
    simp only [hc] at h
    by_cases hin : (!c.threads.contains ti) = true
    · simp only [hin, if_true] at h; cases h
    · simp only [hin] at h
      cases hu : cpuUpdate e.threads { c with threads := c.threads.erase ti } with
      | error err => simp only [hu] at h; cases h
      | ok c' =>
        simp only [hu] at h
        have : e.setCpu c' = e' := by injection h
        rw [← this]; rfl

/-- The implementation (and the model) reject a migration whose target is the thread's
    current CPU: when both `cpu_update`s go through, `thread_migrate_cpu` writes the value the
    affinity channel already has. -/
theorem migrate_same_cpu_err {e : Emu} (h : WF e) {ti : Nat} {t : Thread} (ht : e.threads[ti]? = some t)
    {ci : Nat} (hcpu : t.cpu = some ci) : ∃ err, migrate e ti ci ci = .error err := by
  have hth := h.th ti t ht
  unfold migrate
  cases h1 : cpuRemoveThread e ci ti with
  | error err => exact ⟨err, rfl⟩
  | ok e1 =>
    simp only [ok_bind]
    cases h2 : cpuAddThread e1 ci ti with
    | error err => exact ⟨err, rfl⟩
    | ok e2 =>
      have hths : e2.threads[ti]? = some t := by
        rw [cpuAddThread_threads h2, cpuRemoveThread_threads h1]; exact ht
      refine ⟨.chanDup, ?_⟩
      simp only [ok_bind, hths]
      rw [Thread.migrateCpu_eq hth.chCpu, hcpu]
      simp
      rfl

/-- the emulator after thread `ti` (old value `t`) moved from CPU `fr` (old `cf`) to `to` (old `ct`) -/
def Emu.migrated (e : Emu) (ti : Nat) (t : Thread) (fr to : Nat) (cf ct : Cpu) : Emu :=
  { e with
    threads := e.threads.set ti (t.withCpu (some to)),
    cpus := (e.cpus.set fr (({ cf with threads := cf.threads.erase ti } : Cpu).withVals
               (boundOf e.threads (cf.threads.erase ti)))).set to
            (({ ct with threads := ct.threads ++ [ti] } : Cpu).withVals (boundOf e.threads (ct.threads ++ [ti]))) }

theorem migrate_eq {e : Emu} (h : WF e) {ti : Nat} {t : Thread} (ht : e.threads[ti]? = some t)
    {fr to : Nat} {cf ct : Cpu} (hcpu : t.cpu = some fr) (hne : fr ≠ to)
    (hcf : e.cpus[fr]? = some cf) (hct : e.cpus[to]? = some ct) :
    migrate e ti fr to =
      if overGuard e.threads (cf.threads.erase ti) cf.virt then .error .oversub
      else if overGuard e.threads (ct.threads ++ [ti]) ct.virt then .error .oversub
      else .ok (e.migrated ti t fr to cf ct) := by
  have hth := h.th ti t ht
  have hpf := h.cpu fr cf hcf
  have hpt := h.cpu to ct hct
  have hin : cf.threads.contains ti = true := by
    have := hpf.mem.mem_of ht hcpu
    simpa using this
  have hnotin : ct.threads.contains ti = false := by
    have := hpt.mem.not_mem ht (by rw [hcpu]; intro h'; exact hne (Option.some.inj h'))
    simpa using this
  unfold migrate
  rw [cpuRemoveThread_eq hcf hpf.gidx hpf.vals.clean ti]
  simp only [hin, Bool.not_true, Bool.false_eq_true, if_false]
  by_cases ho1 : overGuard e.threads (cf.threads.erase ti) cf.virt = true
  · rw [if_pos ho1, if_pos ho1]; rfl
  · rw [if_neg ho1, if_neg ho1]
    simp only [ok_bind]
    have hct1 : (e.updCpu fr cf (cf.threads.erase ti)).cpus[to]? = some ct := by
      show (e.cpus.set fr _)[to]? = some ct
      rw [List.getElem?_set_ne hne]; exact hct
    rw [cpuAddThread_eq (e := e.updCpu fr cf (cf.threads.erase ti)) hct1 hpt.gidx hpt.vals.clean ti]
    simp only [hnotin, Bool.false_eq_true, if_false]
    show (if overGuard e.threads (ct.threads ++ [ti]) ct.virt = true then _ else _) >>= _ = _
    by_cases ho2 : overGuard e.threads (ct.threads ++ [ti]) ct.virt = true
    · rw [if_pos ho2, if_pos ho2]; rfl
    · rw [if_neg ho2, if_neg ho2]
      simp only [ok_bind]
      have hths : ((e.updCpu fr cf (cf.threads.erase ti)).updCpu to ct (ct.threads ++ [ti])).threads[ti]? = some t := ht
      simp only [hths]
      have hm : t.migrateCpu to = .ok (t.withCpu (some to)) := by
        rw [Thread.migrateCpu_eq hth.chCpu, hcpu]
        have : ¬ (some fr = some to) := fun h' => hne (Option.some.inj h')
        simp only [this, Option.isNone_some, Bool.false_eq_true, if_false]
      simp only [hm, ok_bind]
      show Except.ok _ = Except.ok _
      congr 1
      rw [Emu.setThread_eq _ (show (t.withCpu (some to)).gindex = ti from hth.gidx)]
      rfl

theorem key_agree_set {ths : List Thread} {ti : Nat} {t t' : Thread} (ht : ths[ti]? = some t)
    (hk : t'.key = t.key) (i : Nat) :
    (ths[i]?).map Thread.key = ((ths.set ti t')[i]?).map Thread.key := by
  by_cases hi : ti = i
  · subst hi
    rw [List.getElem?_set_self (lt_of_getElem? ht), ht]
    simp [hk]
  · rw [List.getElem?_set_ne hi]

theorem ThreadOK.withCpu_flush {n g : Nat} {t : Thread} (h : ThreadOK n g t) {fr to : Nat}
    (hcpu : t.cpu = some fr) (hlt : to < n) : ThreadOK n g (t.withCpu (some to)).flush :=
  { gidx := h.gidx
    chState := h.chState.flush
    chTid := h.chTid.flush
    chCpu := h.chCpu.setv_flush _
    cpuIff := by
      have := h.cpuIff
      rw [hcpu] at this
      show some to = none ↔ (t.state = .unknown ∨ t.state = .dead)
      simpa using this
    cpuLt := by
      intro k hk
      have : some to = some k := hk
      cases this; exact hlt
    inCpu := h.inCpu }

theorem wf_migrate {e : Emu} (h : WF e) {ti : Nat} {t : Thread} (ht : e.threads[ti]? = some t)
    {fr to : Nat} {cf ct : Cpu} (hcpu : t.cpu = some fr) (hne : fr ≠ to)
    (hcf : e.cpus[fr]? = some cf) (hct : e.cpus[to]? = some ct)
    (hg1 : overGuard e.threads (cf.threads.erase ti) cf.virt = false)
    (hg2 : overGuard e.threads (ct.threads ++ [ti]) ct.virt = false) :
    WF (e.migrated ti t fr to cf ct).flushAll := by
  have hth := h.th ti t ht
  have hpf := h.cpu fr cf hcf
  have hpt := h.cpu to ct hct
  refine WF.step h ht (t.withCpu (some to)) _ (by rw [List.length_set, List.length_set])
    (hth.withCpu_flush hcpu (lt_of_getElem? hct)) ?_
  intro g c' hc'
  rcases cpus_set_cases hc' with ⟨rfl, rfl⟩ | ⟨hne2, hold⟩
  · refine ⟨ct, hct, CpuStep.update (ct.threads ++ [ti]) e.threads (fun i _ => key_agree_set (t' := t.withCpu (some g)) ht rfl i)
      (hpt.mem.set_add ht (by rw [hcpu]; intro h'; exact hne (Option.some.inj h')) rfl)
      (overGuard_false hg2)⟩
  · rcases cpus_set_cases hold with ⟨rfl, rfl⟩ | ⟨hne1, hold1⟩
    · refine ⟨cf, hcf, CpuStep.update (cf.threads.erase ti) e.threads (fun i _ => key_agree_set (t' := t.withCpu (some to)) ht rfl i)
        (hpf.mem.set_remove ht ?_) (overGuard_false hg1)⟩
      show some to ≠ some g
      intro h'; exact hne2 (Option.some.inj h').symm
    · refine ⟨c', hold1, CpuStep.keep ?_ ?_⟩
      · rw [hcpu]; intro h'; exact hne1 (Option.some.inj h').symm
      · show some to ≠ some g
        intro h'; exact hne2 (Option.some.inj h').symm


end Ovni.Emu
