import OvniModel.Lemmas.SystemUnion

/-! Assembly of the C15 results about `build` (helper lemmas). -/
namespace Ovni.Emu.System

/-! ### The fixed lookup never dereferences NULL -/

theorem loadCpuEntry_fixed_ne_crash (n : Str) (cpus : List CpuRow) (e : Int × Int) :
    loadCpuEntry .fixed n cpus e ≠ .crash := by
  unfold loadCpuEntry
  simp only
  split
  · simp
  split
  · simp
  split
  · split <;> simp
  · have hg : getCpuEarly .fixed cpus n e.1 ≠ .crash := by
      simp only [getCpuEarly]; split <;> simp
    split
    · rename_i h; exact absurd h hg
    · simp
    · simp
    · split <;> simp

theorem loadCpuList_fixed_ne_crash (n : Str) (es : List (Int × Int)) :
    ∀ cpus, loadCpuList .fixed n cpus es ≠ .crash := by
  induction es with
  | nil => intro cpus; simp [loadCpuList]
  | cons e es ih =>
    intro cpus
    simp only [loadCpuList]
    split
    · exact ih _
    · simp
    · rename_i h; exact absurd h (loadCpuEntry_fixed_ne_crash _ _ _)

theorem loadCpus_fixed_ne_crash (n : Str) (cpus : List CpuRow) (o : Option (List (Int × Int))) :
    loadCpus .fixed n cpus o ≠ .crash := by
  cases o with
  | none => simp [loadCpus]
  | some es =>
    cases es with
    | nil => simp [loadCpus]
    | cons e es => simp only [loadCpus]; exact loadCpuList_fixed_ne_crash _ _ _

theorem step_fixed_ne_crash (sys : Sys) (s : StreamMeta) : step .fixed sys s ≠ .crash := by
  cases hpart : s.tp.part with
  | none => unfold step; simp [hpart]
  | some p =>
    by_cases hthr : p = sThread
    · subst hthr
      cases hloom : s.tp.loom with
      | none => unfold step createLoom; simp [hpart, hloom, Res.bind]
      | some n =>
        rw [step_thread hpart hloom]
        cases hls : loomsStep sys.looms n with
        | crash => exact absurd hls (loomsStep_ne_crash _ _)
        | error e => simp [Res.bind]
        | ok ls =>
        simp only [Res.bind]
        cases hcs : loadCpus .fixed n sys.cpus s.cpus with
        | crash => exact absurd hcs (loadCpus_fixed_ne_crash _ _ _)
        | error e => simp
        | ok cs =>
        simp only
        cases hps : createProc sys.procs n s with
        | crash => exact absurd hps (createProc_ne_crash _ _ _)
        | error e => simp
        | ok ps =>
        simp only
        cases hts : createThread sys.threads n s with
        | crash => exact absurd hts (createThread_ne_crash _ _ _)
        | error e => simp
        | ok ts => simp
    · rw [step_other hpart hthr]; simp

theorem createFrom_fixed_ne_crash (r : List StreamMeta) : ∀ sys, createFrom .fixed sys r ≠ .crash := by
  induction r with
  | nil => intro sys; simp [createFrom]
  | cons s r ih =>
    intro sys
    simp only [createFrom]
    split
    · exact ih _
    · simp
    · rename_i h; exact absurd h (step_fixed_ne_crash _ _)

/-- With the lookup by index among the CPUs already merged, `build` never crashes. -/
theorem build_fixed_ne_crash (ss : List StreamMeta) : build .fixed ss ≠ .crash := by
  unfold build create
  cases h : createFrom .fixed Sys.empty (load ss) with
  | crash => exact absurd h (createFrom_fixed_ne_crash _ _)
  | error e => simp [Res.bind]
  | ok sys => simp only [Res.bind]; exact finish_ne_crash sys

/-! ### Anatomy of `build` -/

theorem build_ok {m : Mode} {ss : List StreamMeta} {h : Hier} (hb : build m ss = .ok h) :
    ∃ sys, create m (load ss) = .ok sys ∧ finish sys = .ok h := by
  unfold build at hb
  cases hc : create m (load ss) with
  | crash => rw [hc] at hb; simp [Res.bind] at hb
  | error e => rw [hc] at hb; simp [Res.bind] at hb
  | ok sys => rw [hc] at hb; exact ⟨sys, rfl, hb⟩

theorem build_crash {m : Mode} {ss : List StreamMeta} (hb : build m ss = .crash) :
    create m (load ss) = .crash := by
  unfold build at hb
  cases hc : create m (load ss) with
  | crash => rfl
  | error e => rw [hc] at hb; simp [Res.bind] at hb
  | ok sys => rw [hc] at hb; exact absurd hb (finish_ne_crash sys)

/-- A successful `build` means the union has none of the contradictions. -/
theorem build_ok_noConflict {m : Mode} {ss : List StreamMeta} {h : Hier} (hb : build m ss = .ok h) :
    CreateOK (load ss) ∧ IndexOK (cpuFacts (load ss)) := by
  obtain ⟨sys, hc, hf⟩ := build_ok hb
  exact ⟨create_ok_CreateOK hc, finish_ok_IndexOK (create_ok hc) hf⟩

/-- One direction of union invariance: a successful build is reproduced by any
    other presentation of the same union, unless that one crashes. -/
theorem build_ok_transfer {m m' : Mode} {ss ss' : List StreamMeta} {h : Hier}
    (hd : RelpathsDistinct ss) (hu : SameUnion ss ss') (hc' : build m' ss' ≠ .crash)
    (hb : build m ss = .ok h) : build m' ss' = .ok h := by
  have hul := hu.load hd
  obtain ⟨sys, hc, hf⟩ := build_ok hb
  obtain ⟨k1, k2⟩ := build_ok_noConflict hb
  have k1' := k1.transfer hul
  have k2' := k2.transfer hul
  cases hcr : create m' (load ss') with
  | crash =>
    exfalso; apply hc'
    unfold build; rw [hcr]; rfl
  | error e => exact absurd ⟨k1', k2'⟩ (create_error hcr)
  | ok sys' =>
    have := finish_eq_of_sameUnion (create_ok hc) (create_ok hcr) hul
    unfold build
    rw [hcr]
    simp only [Res.bind]
    rw [← this]; exact hf

theorem SameUnion.symm {ss ss' : List StreamMeta} (h : SameUnion ss ss') : SameUnion ss' ss :=
  ⟨h.1.symm, h.2.1.symm, h.2.2.1.symm, h.2.2.2.symm⟩

theorem SameUnion.of_perm {ss ss' : List StreamMeta} (h : ss.Perm ss') : SameUnion ss ss' :=
  ⟨h.map _, SameSet.of_perm (h.flatMap_right _), SameSet.of_perm (h.flatMap_right _),
   SameSet.of_perm (h.flatMap_right _)⟩

theorem okPart_eq_of_transfer {a b : Res Hier}
    (h1 : ∀ h, a = .ok h → b = .ok h) (h2 : ∀ h, b = .ok h → a = .ok h) : a.okPart = b.okPart := by
  cases a with
  | ok x => rw [h1 x rfl]
  | error e =>
    cases b with
    | ok y => have := h2 y rfl; cases this
    | error e' => rfl
    | crash => rfl
  | crash =>
    cases b with
    | ok y => have := h2 y rfl; cases this
    | error e' => rfl
    | crash => rfl

/-- The enumeration order is irrelevant, crash or not. -/
theorem load_eq_of_perm {ss ss' : List StreamMeta} (hp : ss.Perm ss') (hd : RelpathsDistinct ss) :
    load ss = load ss' := by
  unfold load
  apply sortBy_eq_of_perm
  · intro a b; exact leStr_total _ _
  · intro a b c; exact leStr_trans _ _ _
  · exact hp
  · intro a b ha hb h1 h2
    exact eq_of_nodup_map hd ha hb (leStr_antisymm _ _ h1 h2)

end Ovni.Emu.System
