import OvniModel.Lemmas.BayBuild
import OvniModel.Generated.Consts

/-
  C06: the thread / CPU connection steps (`track_connect_thread` for one
  channel, `connect_cpu` for one channel) keep a bay well formed, two-level,
  quiet — so the network the emulator builds satisfies the frame condition of
  every mux.
-/
namespace Ovni.Emu
open Ovni.Generated

/-- The facts carried along while the network is being connected. -/
structure Bay.Topo (b : Bay) (L : Nat) : Prop where
  wf : b.WF
  layered : b.Layered L
  noIn : b.NoInputCbs
  allNull : b.AllNull
  len : L ≤ b.chans.length

theorem set_append_last {α} (l : List α) (a x : α) : (l ++ [a]).set l.length x = l ++ [x] := by
  rw [List.set_append_right _ _ (Nat.le_refl _)]; simp

theorem getElem?_append_some {α} {l : List α} {a x : α} {k : Nat} (h : (l ++ [a])[k]? = some x) :
    l[k]? = some x ∨ (k = l.length ∧ x = a) := by
  rcases Nat.lt_or_ge k l.length with hl | hl
  · rw [List.getElem?_append_left hl] at h; exact Or.inl h
  · rw [List.getElem?_append_right hl] at h
    cases hk : k - l.length with
    | zero => rw [hk] at h; simp at h; exact Or.inr ⟨by omega, h.symm⟩
    | succ n => rw [hk] at h; simp at h

/-- Adding a mux with a fresh output above `L` and sources below `L`. -/
theorem Bay.Layered.snoc {muxes : List Mux} {L n : Nat} {mnew : Mux}
    (hold : ∀ (mi : Nat) (m : Mux), muxes[mi]? = some m →
      m.sel < L ∧ (∀ (i c : Nat), m.inputs[i]? = some (some c) → c < L) ∧ L ≤ m.out ∧ m.out < n ∧
      ∀ (mj : Nat) (m' : Mux), muxes[mj]? = some m' → mj ≠ mi → m'.out ≠ m.out)
    (hsel : mnew.sel < L) (hin : ∀ (i c : Nat), mnew.inputs[i]? = some (some c) → c < L)
    (hout : mnew.out = n) (hL : L ≤ n) :
    ∀ (mi : Nat) (m : Mux), (muxes ++ [mnew])[mi]? = some m →
      m.sel < L ∧ (∀ (i c : Nat), m.inputs[i]? = some (some c) → c < L) ∧ L ≤ m.out ∧
      ∀ (mj : Nat) (m' : Mux), (muxes ++ [mnew])[mj]? = some m' → mj ≠ mi → m'.out ≠ m.out := by
  intro mi m hm
  rcases getElem?_append_some hm with h | ⟨rfl, rfl⟩
  · obtain ⟨h1, h2, h3, h4, h5⟩ := hold mi m h
    refine ⟨h1, h2, h3, ?_⟩
    intro mj m' hm' hne
    rcases getElem?_append_some hm' with h' | ⟨_, rfl⟩
    · exact h5 mj m' h' hne
    · omega
  · refine ⟨hsel, hin, by omega, ?_⟩
    intro mj m' hm' hne
    rcases getElem?_append_some hm' with h' | ⟨e, _⟩
    · have := (hold mj m' h').2.2.2.1; omega
    · exact absurd e hne

theorem Bay.trackThread_ok {b b' : Bay} {mode sel inp out : Nat}
    (hmode : mode = trackRun ∨ mode = trackAct)
    (h : b.trackThread mode sel inp = .ok (b', out)) :
    out = b.chans.length ∧ ∃ b1 mi,
      (b.register {}).1.muxInit sel out (if mode = trackRun then .thRunning else .thActive) 1 = .ok (b1, mi) ∧
      b1.muxSetInput mi 0 inp = .ok b' := by
  unfold Bay.trackThread at h
  have hna : mode ≠ trackAny := by rcases hmode with rfl | rfl <;> decide
  simp only [hna, if_false] at h
  have hk : (if mode = trackRun then some SelKind.thRunning
      else if mode = trackAct then some SelKind.thActive else none) =
      some (if mode = trackRun then SelKind.thRunning else SelKind.thActive) := by
    rcases hmode with rfl | rfl <;> simp [trackRun, trackAct]
  rw [hk] at h
  simp only at h
  split at h
  · cases h
  · rename_i b1 mi h1
    split at h
    · cases h
    · rename_i b2 h2
      cases h
      exact ⟨rfl, b1, mi, h1, h2⟩

theorem Bay.Topo.register {b : Bay} {L : Nat} (t : b.Topo L) :
    (b.register {}).1.Topo L := by
  refine ⟨t.wf.register _ rfl, t.layered, ?_, ?_, ?_⟩
  · intro c mj i; rw [Bay.register_cbsOf]; exact t.noIn c mj i
  · intro c; rw [Bay.register_chan]; split
    · rfl
    · exact t.allNull c
  · have : (b.register {}).1.chans.length = b.chans.length + 1 := by simp [Bay.register]
    rw [this]; exact Nat.le_succ_of_le t.len

/-- `mux_init` on a fresh (just registered, last) output channel. -/
theorem Bay.Topo.muxInit {b b1 : Bay} {L sel n mi : Nat} {kind : SelKind} (t : b.Topo L)
    (hsel : sel < L) (hout : L + 1 ≤ b.chans.length)
    (hfresh : ∀ (mj : Nat) (m' : Mux), b.muxes[mj]? = some m' → m'.out < b.chans.length - 1)
    (h : b.muxInit sel (b.chans.length - 1) kind n = .ok (b1, mi)) :
    b1.Topo L ∧ mi = b.muxes.length ∧
    b1.muxes = b.muxes ++ [{ sel := sel, out := b.chans.length - 1, kind := kind,
                              inputs := List.replicate n none }] := by
  obtain ⟨wf1, hmi, hmx, hlen, hch, hcb⟩ := t.wf.muxInit h
  refine ⟨⟨wf1, ?_, ?_, ?_, by rw [hlen]; exact t.len⟩, hmi, hmx⟩
  · unfold Bay.Layered; rw [hmx]
    apply Bay.Layered.snoc (n := b.chans.length - 1)
    · intro mj m hm
      obtain ⟨h1, h2, h3, h4⟩ := t.layered mj m hm
      exact ⟨h1, h2, h3, hfresh mj m hm, h4⟩
    · exact hsel
    · intro i c hi; simp [List.getElem?_replicate] at hi
    · rfl
    · omega
  · intro c mj i hc; exact t.noIn c mj i ((hcb c mj i).mp hc)
  · intro c; rw [(hch c).1]; exact t.allNull c

/-- The thread-track step keeps the topology facts and appends a `ThreadTrack`-shaped mux. -/
theorem Bay.Topo.trackThread {b b' : Bay} {L mode sel inp out : Nat} (t : b.Topo L)
    (hmode : mode = trackRun ∨ mode = trackAct) (hsel : sel < L) (hinp : inp < L) (hne : inp ≠ sel)
    (h : b.trackThread mode sel inp = .ok (b', out)) :
    b'.Topo L ∧ out = b.chans.length ∧
    b'.muxes = b.muxes ++ [{ sel := sel, out := out,
                             kind := (if mode = trackRun then .thRunning else .thActive),
                             inputs := [some inp] }] := by
  obtain ⟨rfl, b1, mi, h1, h2⟩ := Bay.trackThread_ok hmode h
  have t0 := t.register
  have hl0 : (b.register {}).1.chans.length = b.chans.length + 1 := by simp [Bay.register]
  have hout0 : b.chans.length = (b.register {}).1.chans.length - 1 := by rw [hl0]; rfl
  rw [hout0] at h1
  obtain ⟨t1, rfl, hmx1⟩ := t0.muxInit hsel (by rw [hl0]; have := t.len; omega)
    (by
      intro mj m' hm'
      have := t.wf.outLt mj m' hm'
      rw [hl0]; omega) h1
  have hm1 : b1.muxes[(b.register {}).1.muxes.length]? =
      some { sel := sel, out := (b.register {}).1.chans.length - 1,
             kind := (if mode = trackRun then .thRunning else .thActive), inputs := List.replicate 1 none } := by
    rw [hmx1]; simp
  obtain ⟨wf2, hch2, hcb2, _, _, m, hm, hmx2⟩ := t1.wf.muxSetInput h2 (by
    intro m hm; rw [hm1] at hm; cases hm; exact hne)
  rw [hm1] at hm; cases hm
  have hmuxes : b'.muxes = b.muxes ++
      [Mux.mk sel b.chans.length (if mode = trackRun then .thRunning else .thActive) [some inp] .null] := by
    rw [hmx2, hmx1, ← hout0]
    exact set_append_last _ _ _
  refine ⟨⟨wf2, ?_, ?_, ?_, by rw [hch2]; exact t1.len⟩, rfl, hmuxes⟩
  · unfold Bay.Layered; rw [hmuxes]
    apply Bay.Layered.snoc (n := b.chans.length)
    · intro mj m hm
      obtain ⟨g1, g2, g3, g4⟩ := t.layered mj m hm
      exact ⟨g1, g2, g3, t.wf.outLt mj m hm, g4⟩
    · exact hsel
    · intro i c hi
      match i, hi with
      | 0, hi => simp at hi; omega
      | _ + 1, hi => simp at hi
    · rfl
    · exact t.len
  · intro c mj i hc; rw [Bay.cbsOf_congr hcb2] at hc; exact t1.noIn c mj i hc
  · intro c; simp only [Bay.chan, hch2]; exact t1.allNull c

/-! ### the CPU step -/

theorem Bay.setInputs_eff : ∀ (cs : List Nat) (b b' : Bay) (mi i : Nat) (m : Mux) (done : List (Option Nat)),
    b.WF → b.muxes[mi]? = some m → done.length = i →
    m.inputs = done ++ List.replicate cs.length none → (∀ c ∈ cs, c ≠ m.sel) →
    b.setInputs mi i cs = .ok b' →
    b'.WF ∧ b'.chans = b.chans ∧ b'.cbs = b.cbs ∧ b'.selected = b.selected ∧ b'.dirty = b.dirty ∧
    b'.muxes = b.muxes.set mi { m with inputs := done ++ cs.map some } := by
  intro cs
  induction cs with
  | nil =>
    intro b b' mi i m done wf hm _ hin _ h
    cases h
    refine ⟨wf, rfl, rfl, rfl, rfl, ?_⟩
    have : ({ m with inputs := done ++ ([] : List Nat).map some } : Mux) = m := by
      cases m; simp at hin ⊢; exact hin.symm
    rw [this]
    obtain ⟨hlt, e⟩ := List.getElem?_eq_some_iff.mp hm
    rw [← e]; exact (List.set_getElem_self hlt).symm
  | cons c cs ih =>
    intro b b' mi i m done wf hm hlen hin hne h
    rw [Bay.setInputs] at h
    split at h
    · cases h
    · rename_i b1 h1
      obtain ⟨wf1, hch, hcb, hsl, hdt, m0, hm0, hmx⟩ := wf.muxSetInput h1 (by
        intro m' hm'; rw [hm] at hm'; cases hm'; exact hne c (by simp))
      rw [hm] at hm0; cases hm0
      have hmilt : mi < b.muxes.length := (List.getElem?_eq_some_iff.mp hm).1
      have hset : m.inputs.set i (some c) = (done ++ [some c]) ++ List.replicate cs.length none := by
        rw [hin, ← hlen, List.set_append_right _ _ (Nat.le_refl _)]
        simp [List.replicate_succ]
      have hm1 : b1.muxes[mi]? = some { m with inputs := m.inputs.set i (some c) } := by
        rw [hmx]; simp [hmilt]
      obtain ⟨wf', g1, g2, g3, g4, g5⟩ := ih b1 b' mi (i + 1) _ (done ++ [some c]) wf1 hm1
        (by simp [hlen]) hset (by intro c' hc'; exact hne c' (by simp [hc'])) h
      refine ⟨wf', g1.trans hch, g2.trans hcb, g3.trans hsl, g4.trans hdt, ?_⟩
      rw [g5, hmx, List.set_set]
      simp [List.append_assoc]

theorem Bay.trackCpu_ok {b b' : Bay} {sel out : Nat} {raws : List Nat} {dflt : Value}
    (h : b.trackCpu sel raws dflt = .ok (b', out)) :
    out = b.chans.length ∧ ∃ b1 b2 mi,
      (b.register {}).1.muxInit sel out .byIndex raws.length = .ok (b1, mi) ∧
      b1.setInputs mi 0 raws = .ok b2 ∧ b2.muxSetDefault mi dflt = .ok b' := by
  unfold Bay.trackCpu at h
  simp only at h
  split at h
  · cases h
  · rename_i b1 mi h1
    split at h
    · cases h
    · rename_i b2 h2
      split at h
      · cases h
      · rename_i b3 h3
        cases h
        exact ⟨rfl, b1, b2, mi, h1, h2, h3⟩

/-- The CPU-track step keeps the topology facts and appends a `CpuTrack`-shaped mux. -/
theorem Bay.Topo.trackCpu {b b' : Bay} {L sel out : Nat} {raws : List Nat} {dflt : Value} (t : b.Topo L)
    (hsel : sel < L) (hraws : ∀ c ∈ raws, c < L ∧ c ≠ sel)
    (h : b.trackCpu sel raws dflt = .ok (b', out)) :
    b'.WF ∧ b'.Layered L ∧ b'.NoInputCbs ∧ L ≤ b'.chans.length ∧ out = b.chans.length ∧
    (∀ c, c ≠ out → (b'.chan c).cur = .null) ∧ (b'.chan out).cur = .null ∧
    b'.muxes = b.muxes ++ [{ sel := sel, out := out, kind := .byIndex, inputs := raws.map some,
                             dflt := dflt }] := by
  obtain ⟨rfl, b1, b2, mi, h1, h2, h3⟩ := Bay.trackCpu_ok h
  have t0 := t.register
  have hl0 : (b.register {}).1.chans.length = b.chans.length + 1 := by simp [Bay.register]
  have hout0 : b.chans.length = (b.register {}).1.chans.length - 1 := by rw [hl0]; rfl
  rw [hout0] at h1
  obtain ⟨t1, rfl, hmx1⟩ := t0.muxInit hsel (by rw [hl0]; have := t.len; omega)
    (by
      intro mj m' hm'
      have := t.wf.outLt mj m' hm'
      rw [hl0]; omega) h1
  have hm1 : b1.muxes[(b.register {}).1.muxes.length]? =
      some { sel := sel, out := (b.register {}).1.chans.length - 1, kind := .byIndex,
             inputs := List.replicate raws.length none } := by
    rw [hmx1]; simp
  obtain ⟨wf2, hch2, hcb2, hsl2, hdt2, hmx2⟩ := Bay.setInputs_eff raws b1 b2 _ 0 _ [] t1.wf hm1 rfl
    (by simp) (fun c hc => (hraws c hc).2) h2
  obtain ⟨wf3, hch3, hcb3, _, _, m3, hm3, hmx3⟩ := wf2.muxSetDefault h3
  have hmilt : (b.register {}).1.muxes.length < b1.muxes.length := by rw [hmx1]; simp
  rw [hmx2] at hm3
  simp [hmilt] at hm3
  subst hm3
  have hmuxes : b'.muxes = b.muxes ++ [Mux.mk sel b.chans.length .byIndex (raws.map some) dflt] := by
    rw [hmx3, hmx2, List.set_set, hmx1, ← hout0]
    exact set_append_last _ _ _
  have hnull : ∀ c, (b'.chan c).cur = .null := by
    intro c; simp only [Bay.chan, hch3, hch2]; exact t1.allNull c
  refine ⟨wf3, ?_, ?_, by rw [hch3, hch2]; exact t1.len, rfl, fun c _ => hnull c, hnull _, hmuxes⟩
  · unfold Bay.Layered; rw [hmuxes]
    apply Bay.Layered.snoc (n := b.chans.length)
    · intro mj m hm
      obtain ⟨g1, g2, g3, g4⟩ := t.layered mj m hm
      exact ⟨g1, g2, g3, t.wf.outLt mj m hm, g4⟩
    · exact hsel
    · intro i c hi
      simp only [List.getElem?_map] at hi
      cases hr : raws[i]? with
      | none => simp [hr] at hi
      | some r =>
        simp [hr] at hi; subst hi
        exact (hraws r (List.mem_of_getElem? hr)).1
    · rfl
    · exact t.len
  · intro c mj i hc
    rw [Bay.cbsOf_congr hcb3, Bay.cbsOf_congr hcb2] at hc
    exact t1.noIn c mj i hc

end Ovni.Emu
