import OvniModel.Lemmas.TaskCoupleSets
import OvniModel.Lemmas.TaskCoupleSrc

/-
  C06, the coupling between the task layer and the thread channels (3/3): the
  invariant `Coupled` and its preservation by every accepted event.

  `Coupled tm k e ε`: `k` is the position of the model `tm` (nOS-V / Nanos6) in
  the spec list of `e`; for every thread the real subsystem channel holds the
  stack `ε.ss` and the real task channels hold `ε.ch` (all flushed, with the
  duplicate policies of setup.c).
-/
set_option linter.unusedSimpArgs false
namespace Ovni.Emu
open Ovni.Generated

/-- the channel spec of a task model -/
def specOf : Ovni.Task.Model → ModelSpec
  | .nosv => specNosv
  | .nanos6 => specNanos6

/-- **The coupling invariant.** -/
structure Coupled (tm : Ovni.Task.Model) (k : Nat) (e : Emu) (ε : Ovni.Task.Emu) : Prop where
  maxStack : e.maxStack = maxChanStack
  ss : ∀ ti, ti < e.threads.length →
    ∃ c, e.src (.raw ti k (taskIdx tm).ss) = some c ∧ StackIs c tm.cfg.dupSs (ε.ss ti)
  single : ∀ ti, ti < e.threads.length → ∀ f ∈ taskFields tm,
    ∃ c, e.src (.raw ti k f.1) = some c ∧ SingleIs c f.2.1 (f.2.2 (ε.ch ti))

/-- Assembly: the coupled channels of `e1` (before the flush) are the old ones
    or the result of a coupled operation. -/
theorem Coupled.next {tm : Ovni.Task.Model} {k : Nat} {e e1 : Emu} {ε ε' : Ovni.Task.Emu} (hc : Coupled tm k e ε)
    (hlen : e1.threads.length = e.threads.length) (hms : e1.maxStack = e.maxStack)
    (hss : ∀ ti c, ti < e.threads.length → e.src (.raw ti k (taskIdx tm).ss) = some c →
      StackIs c tm.cfg.dupSs (ε.ss ti) →
      ∃ c1, e1.src (.raw ti k (taskIdx tm).ss) = some c1 ∧ StackIs c1.flush tm.cfg.dupSs (ε'.ss ti))
    (hsingle : ∀ ti f c, ti < e.threads.length → f ∈ taskFields tm → e.src (.raw ti k f.1) = some c →
      SingleIs c f.2.1 (f.2.2 (ε.ch ti)) →
      ∃ c1, e1.src (.raw ti k f.1) = some c1 ∧ SingleIs c1.flush f.2.1 (f.2.2 (ε'.ch ti))) :
    Coupled tm k e1.flushAll ε' := by
  have hl : e1.flushAll.threads.length = e.threads.length := by
    simp only [Emu.flushAll, List.length_map]; exact hlen
  refine ⟨hms.trans hc.maxStack, ?_, ?_⟩
  · intro ti hti
    rw [hl] at hti
    obtain ⟨c, h1, h2⟩ := hc.ss ti hti
    obtain ⟨c1, h3, h4⟩ := hss ti c hti h1 h2
    exact ⟨c1.flush, by rw [Emu.src_flushAll, h3]; rfl, h4⟩
  · intro ti hti f hf
    rw [hl] at hti
    obtain ⟨c, h1, h2⟩ := hc.single ti hti f hf
    obtain ⟨c1, h3, h4⟩ := hsingle ti f c hti hf h1 h2
    exact ⟨c1.flush, by rw [Emu.src_flushAll, h3]; rfl, h4⟩

/-- A step that keeps the coupled channels and the copy. -/
theorem Coupled.keep {tm : Ovni.Task.Model} {k : Nat} {e e1 : Emu} {ε ε' : Ovni.Task.Emu} (hc : Coupled tm k e ε)
    (hlen : e1.threads.length = e.threads.length) (hms : e1.maxStack = e.maxStack)
    (hkeep : ∀ g i ch, e.src (.raw g k i) = some ch → e1.src (.raw g k i) = some ch)
    (hch : ε'.ch = ε.ch) (hs : ε'.ss = ε.ss) : Coupled tm k e1.flushAll ε' :=
  hc.next hlen hms (fun ti c _ h1 h2 => ⟨c, hkeep _ _ _ h1, by rw [hs]; exact h2.flush⟩)
    (fun ti f c _ _ h1 h2 => ⟨c, hkeep _ _ _ h1, by rw [hch]; exact h2.flush⟩)

/-! ### the task hook -/

/-- **The task hook preserves the coupling**: every channel operation it performs
    on the thread's channels is the operation `Ovni.Task.Emu.step` performed on
    the copy. -/
theorem coupled_taskHook {tm : Ovni.Task.Model} {P : Ovni.Task.ProcInfo} {ε ε' : Ovni.Task.Emu} {ev : Ovni.Task.Ev}
    {e e1 : Emu} {ti mc a k : Nat} {p : List Nat} {ms : ModelSpec} (hs : Shaped e) (hk : e.specs[k]? = some ms)
    (hmc : ms.char = mc) (hcp : Coupled tm k e ε)
    (h : taskHook tm P ε ev e ti mc a p = .ok e1) (hε : Ovni.Task.Emu.step tm P ε ev = .ok ε') :
    Coupled tm k e1.flushAll ε' := by
  unfold taskHook at h
  simp only [hε] at h
  cases ev with
  | ssPush _ _ => cases h
  | ssPop _ _ => cases h
  | typeCreate ty hh fits =>
    simp only at h; cases h
    have : ε'.ch = ε.ch ∧ ε'.ss = ε.ss := by
      simp only [Ovni.Task.Emu.step] at hε
      split at hε
      · cases hε
      · injection hε with hε; subst hε; exact ⟨rfl, rfl⟩
    exact hcp.keep rfl rfl (fun _ _ _ h => h) this.1 this.2
  | taskCreate par t ty =>
    simp only at h; cases h
    have : ε'.ch = ε.ch ∧ ε'.ss = ε.ss := by
      simp only [Ovni.Task.Emu.step] at hε
      split at hε
      · injection hε with hε; subst hε; exact ⟨rfl, rfl⟩
      · split at hε
        · cases hε
        · injection hε with hε; subst hε; exact ⟨rfl, rfl⟩
    exact hcp.keep rfl rfl (fun _ _ _ h => h) this.1 this.2
  | task th tv t bp =>
    simp only at h
    split at h
    · cases h
    · rename_i hth
      have hth' : th = ti := Classical.byContradiction hth
      subst hth'
      split at h
      · cases h
      · rename_i sys' hsys
        simp only [Ovni.Task.Emu.step] at hε
        obtain ⟨σ', ss', ch', h1, h2, h3, _, rfl⟩ := Ovni.Task.updateTask_ok.mp hε
        rw [hsys] at h1; cases h1
        have hnd := taskWrites_nodup tm P tv
          (Ovni.Task.expand tv (ε.sys.runningT th).isSome (sys'.runningT th).isSome) (sys'.runningT th)
        rw [taskWrites_eq] at h hnd
        obtain ⟨hs1, hsh1, hw, hfr⟩ := applyWrites_src _ hs hk hmc hnd h
        obtain ⟨vals, hsp, hch'⟩ := updateChannels_res h3
        have hms := applyWrites_maxStack _ h
        have hlen : e1.threads.length = e.threads.length := congrArg Shape.nT hsh1
        refine hcp.next hlen hms ?_ ?_
        · -- the subsystem channel
          intro g c hg hsrc hst
          by_cases hgt : g = th
          · subst hgt
            simp only [Ovni.Task.updFn, if_true]
            have hnoset : ∀ w ∈ setPart tm P
                (Ovni.Task.expand tv (ε.sys.runningT g).isSome (sys'.runningT g).isSome) (sys'.runningT g),
                Src.raw g k (taskIdx tm).ss ≠ Src.raw g k w.chan := by
              intro w hw hq
              injection hq with _ _ hq
              exact setPart_not_ss tm P _ _ w hw hq.symm
            cases tv with
            | x =>
              obtain ⟨c0, c', q1, q2, q3⟩ := hw (TaskWr.push (taskIdx tm).ss (.int tm.cfg.stTaskBody))
                (by simp [ssPart])
              simp only [TaskWr.chan] at q1 q3
              rw [hsrc] at q1; cases q1
              simp only [wrOp, hcp.maxStack] at q2
              obtain ⟨r1, r2⟩ := hst.push_spec q2
              simp only [Ovni.Task.updateSs, r1] at h2
              cases h2
              exact ⟨c', q3, r2⟩
            | e =>
              obtain ⟨c0, c', q1, q2, q3⟩ := hw (TaskWr.pop (taskIdx tm).ss (.int tm.cfg.stTaskBody))
                (by simp [ssPart])
              simp only [TaskWr.chan] at q1 q3
              rw [hsrc] at q1; cases q1
              simp only [wrOp] at q2
              obtain ⟨r, _, r1, r2⟩ := hst.pop_spec q2
              simp only [Ovni.Task.updateSs, r1] at h2
              cases h2
              exact ⟨c', q3, r2⟩
            | p =>
              simp only [Ovni.Task.updateSs] at h2; cases h2
              refine ⟨c, ?_, hst.flush⟩
              rw [hfr _ (fun w hw => by
                simp only [ssPart, List.nil_append] at hw
                exact hnoset w hw)]
              exact hsrc
            | r =>
              simp only [Ovni.Task.updateSs] at h2; cases h2
              refine ⟨c, ?_, hst.flush⟩
              rw [hfr _ (fun w hw => by
                simp only [ssPart, List.nil_append] at hw
                exact hnoset w hw)]
              exact hsrc
          · simp only [Ovni.Task.updFn, hgt, if_false]
            refine ⟨c, ?_, hst.flush⟩
            rw [hfr _ (fun w _ hq => by injection hq with hq; exact hgt hq)]
            exact hsrc
        · -- the single channels
          intro g f c hg hf hsrc hsi
          by_cases hgt : g = th
          · subst hgt
            simp only [Ovni.Task.updFn, if_true]
            rcases taskSets_fields tm P (ε.ch g) vals f hf with ⟨v, hmem, hval⟩ | ⟨hno, hval⟩
            · obtain ⟨c0, c', q1, q2, q3⟩ := hw (TaskWr.set f.1 (ofOpt v))
                (List.mem_append_right _ (hsp ▸ hmem))
              simp only [TaskWr.chan] at q1 q3
              rw [hsrc] at q1; cases q1
              simp only [wrOp] at q2
              obtain ⟨_, r2⟩ := hsi.set_spec q2
              refine ⟨c', q3, ?_⟩
              rw [hch', hval]; exact r2
            · refine ⟨c, ?_, ?_⟩
              · rw [hfr _ (fun w hw hq => by
                  injection hq with _ _ hq
                  rcases List.mem_append.mp hw with hw | hw
                  · have : w.chan = (taskIdx tm).ss := by
                      cases tv <;> simp only [ssPart, List.mem_singleton, List.not_mem_nil] at hw <;> subst hw <;> rfl
                    exact ss_not_field tm f hf (hq.trans this)
                  · rw [hsp] at hw
                    exact hno w hw hq.symm)]
                exact hsrc
              · rw [hch', hval]; exact hsi.flush
          · simp only [Ovni.Task.updFn, hgt, if_false]
            refine ⟨c, ?_, hsi.flush⟩
            rw [hfr _ (fun w _ hq => by injection hq with hq; exact hgt hq)]
            exact hsrc

/-! ### the table events of the same model -/

/-- the event of the task layer that a table event of the model is: a row on
    the subsystem channel is a push / pop of the copy -/
def ssEvOf (tm : Ovni.Task.Model) (ti m c v : Nat) : Option Ovni.Task.Ev :=
  if m = (specOf tm).char then
    match (specOf tm).table.find? (fun r => r.1 == c && r.2.1 == v) with
    | some (_, _, ch, act, st) =>
      if ch = (taskIdx tm).ss then
        (if act = 1 then some (.ssPush ti st) else if act = 2 then some (.ssPop ti st) else none)
      else none
    | none => none
  else none

/-- the hook of an event (`none`: not a task event) -/
def hookOpt (tm : Ovni.Task.Model) (P : Ovni.Task.ProcInfo) (ε : Ovni.Task.Emu) :
    Option Ovni.Task.Ev → Emu → Nat → Nat → Nat → List Nat → Except Err Emu
  | some x => taskHook tm P ε x
  | none => fun _ _ _ _ _ => .error .unknownEvent

/-- the task state after an event -/
def advanceOpt (tm : Ovni.Task.Model) (P : Ovni.Task.ProcInfo) (ε : Ovni.Task.Emu) :
    Option Ovni.Task.Ev → Ovni.Task.Emu
  | some x => (match Ovni.Task.Emu.step tm P ε x with | .ok ε' => ε' | .error _ => ε)
  | none => ε

theorem specOf_ooc (tm : Ovni.Task.Model) : (specOf tm).outOfCpu = [] := by cases tm <;> rfl

/-- no table row of nOS-V / Nanos6 names a single-valued task channel -/
theorem table_rows_not_fields (tm : Ovni.Task.Model) :
    ∀ r ∈ (specOf tm).table, ∀ f ∈ taskFields tm, r.2.2.1 ≠ f.1 := by
  cases tm <;> decide

theorem Coupled.lt_of_src {e : Emu} (hs : Shaped e) {g k i : Nat} {c : Chan} (h : e.src (.raw g k i) = some c) :
    g < e.threads.length :=
  ((e.shape.mem_raw g k i).mp (hs.src_mem h)).1

/-- **A table event of the model preserves the coupling**: a row on the
    subsystem channel pushes / pops the real channel exactly when `ssPush` /
    `ssPop` accept it on the copy; the other rows (idle, thread type) touch no
    task channel. -/
theorem coupled_tableEvent {tm : Ovni.Task.Model} {P : Ovni.Task.ProcInfo} {ε : Ovni.Task.Emu} {e e1 : Emu}
    {ti c v k : Nat} (hs : Shaped e) (hk : e.specs[k]? = some (specOf tm)) (hcp : Coupled tm k e ε)
    (h : Ovni.Emu.tableEvent e ti (specOf tm) c v = .ok e1) :
    Coupled tm k e1.flushAll (advanceOpt tm P ε (ssEvOf tm ti (specOf tm).char c v)) := by
  obtain ⟨rc, rv, ch, act, st, hf, hcase⟩ := tableEvent_op (specOf_ooc tm) h
  have hrow := table_rows_not_fields tm _ (List.mem_of_find?_eq_some hf)
  simp only at hrow
  have hssev : ssEvOf tm ti (specOf tm).char c v =
      if ch = (taskIdx tm).ss then
        (if act = 1 then some (.ssPush ti st) else if act = 2 then some (.ssPop ti st) else none)
      else none := by
    simp only [ssEvOf, if_true, hf]
  rw [hssev]
  -- a write on channel `ch` of thread `ti`
  have hwrite : ∀ {f : Chan → Except Err Chan}, ChanOp f → Ovni.Emu.withChan e ti (specOf tm).char ch f = .ok e1 →
      ∃ c0 c1, e.src (.raw ti k ch) = some c0 ∧ f c0 = .ok c1 ∧ e1.src (.raw ti k ch) = some c1 ∧
        (∀ s, s ≠ .raw ti k ch → e1.src s = e.src s) ∧ e1.threads.length = e.threads.length ∧
        e1.maxStack = e.maxStack := by
    intro f hfo hw
    obtain ⟨c0, c1, a1, a2, a3, a4⟩ := withChan_src hs hk rfl hw
    obtain ⟨_, hsh⟩ := (SimP.withChan hfo hw) hs |>.imp id (·.1)
    exact ⟨c0, c1, a1, a2, a3, a4, congrArg Shape.nT hsh, withChan_maxStack hw⟩
  -- a write on a channel that is not the subsystem channel keeps everything coupled
  have hother : ch ≠ (taskIdx tm).ss → ∀ {f : Chan → Except Err Chan}, ChanOp f →
      Ovni.Emu.withChan e ti (specOf tm).char ch f = .ok e1 → Coupled tm k e1.flushAll ε := by
    intro hne f hfo hw
    obtain ⟨c0, c1, _, _, _, a4, hlen, hms⟩ := hwrite hfo hw
    refine hcp.next hlen hms (fun g c _ h1 h2 => ⟨c, ?_, h2.flush⟩) (fun g f c _ hff h1 h2 => ⟨c, ?_, h2.flush⟩)
    · rw [a4 _ (fun hq => by injection hq with _ _ hq; exact hne hq.symm)]; exact h1
    · rw [a4 _ (fun hq => by injection hq with _ _ hq; exact hrow f hff hq.symm)]; exact h1
  by_cases hch : ch = (taskIdx tm).ss
  · rw [if_pos hch]
    subst hch
    rcases hcase with ⟨ha, rfl⟩ | ⟨ha, hw⟩ | ⟨ha, hw⟩ | ⟨ha, hw⟩
    · -- IGN
      subst ha
      simp only [show ¬ (4 = 1) by decide, show ¬ (4 = 2) by decide, if_false, advanceOpt]
      exact hcp.keep rfl rfl (fun _ _ _ h => h) rfl rfl
    · -- PUSH
      subst ha
      simp only [if_true, advanceOpt]
      obtain ⟨c0, c1, a1, a2, a3, a4, hlen, hms⟩ := hwrite (chanOp_push _ _) hw
      have hti := Coupled.lt_of_src hs a1
      obtain ⟨c, b1, b2⟩ := hcp.ss ti hti
      rw [a1] at b1; cases b1
      rw [hcp.maxStack] at a2
      obtain ⟨r1, r2⟩ := b2.push_spec a2
      simp only [Ovni.Task.Emu.step, r1]
      refine hcp.next hlen hms ?_ ?_
      · intro g c hg h1 h2
        by_cases hgt : g = ti
        · subst hgt
          rw [a1] at h1; cases h1
          simp only [Ovni.Task.updFn, if_true]
          exact ⟨c1, a3, r2⟩
        · simp only [Ovni.Task.updFn, hgt, if_false]
          refine ⟨c, ?_, h2.flush⟩
          rw [a4 _ (fun hq => by injection hq with hq; exact hgt hq)]; exact h1
      · intro g f c hg hff h1 h2
        refine ⟨c, ?_, h2.flush⟩
        rw [a4 _ (fun hq => by injection hq with _ _ hq; exact ss_not_field tm f hff hq)]; exact h1
    · -- POP
      subst ha
      simp only [show ¬ (2 = 1) by decide, if_false, if_true, advanceOpt]
      obtain ⟨c0, c1, a1, a2, a3, a4, hlen, hms⟩ := hwrite (chanOp_pop _) hw
      have hti := Coupled.lt_of_src hs a1
      obtain ⟨c, b1, b2⟩ := hcp.ss ti hti
      rw [a1] at b1; cases b1
      obtain ⟨r, _, r1, r2⟩ := b2.pop_spec a2
      simp only [Ovni.Task.Emu.step, r1]
      refine hcp.next hlen hms ?_ ?_
      · intro g c hg h1 h2
        by_cases hgt : g = ti
        · subst hgt
          rw [a1] at h1; cases h1
          simp only [Ovni.Task.updFn, if_true]
          exact ⟨c1, a3, r2⟩
        · simp only [Ovni.Task.updFn, hgt, if_false]
          refine ⟨c, ?_, h2.flush⟩
          rw [a4 _ (fun hq => by injection hq with hq; exact hgt hq)]; exact h1
      · intro g f c hg hff h1 h2
        refine ⟨c, ?_, h2.flush⟩
        rw [a4 _ (fun hq => by injection hq with _ _ hq; exact ss_not_field tm f hff hq)]; exact h1
    · -- SET on a stack channel: refused by `chan_set`
      exfalso
      obtain ⟨c0, c1, a1, a2, _⟩ := hwrite (chanOp_set _) hw
      have hti := Coupled.lt_of_src hs a1
      obtain ⟨c, b1, b2⟩ := hcp.ss ti hti
      rw [a1] at b1; cases b1
      unfold Chan.set at a2
      simp only [b2.isSt, if_true] at a2
      cases a2
  · rw [if_neg hch]
    simp only [advanceOpt]
    rcases hcase with ⟨_, rfl⟩ | ⟨_, hw⟩ | ⟨_, hw⟩ | ⟨_, hw⟩
    · exact hcp.keep rfl rfl (fun _ _ _ h => h) rfl rfl
    · exact hother hch (chanOp_push _ _) hw
    · exact hother hch (chanOp_pop _) hw
    · exact hother hch (chanOp_set _) hw

/-! ### every event -/

/-- `model_event` hands the event to the task layer -/
def routedTo (m c : Nat) : Bool :=
  m != 79 && (match findSpec m with | some s => s.taskCats.contains c | none => false)

/-- **The decoded event fits the raw one**: a task event (routed to the hook)
    belongs to the model `tm` of this task layer; any other event is decoded as
    the subsystem push / pop its table row is (`ssEvOf`), or not at all. -/
def DecodedOk (tm : Ovni.Task.Model) (ti m c v : Nat) (tev : Option Ovni.Task.Ev) : Prop :=
  if routedTo m c = true then m = (specOf tm).char else tev = ssEvOf tm ti m c v

theorem findSpec_specOf (tm : Ovni.Task.Model) : findSpec (specOf tm).char = some (specOf tm) := by
  cases tm <;> rfl

theorem findSpec_char {m : Nat} {spec : ModelSpec} (h : findSpec m = some spec) : spec.char = m := by
  unfold findSpec at h
  have := List.find?_some h
  exact eq_of_beq this

theorem specOf_char_ne (tm : Ovni.Task.Model) : (specOf tm).char ≠ 79 ∧ (specOf tm).char ≠ markGroup := by
  cases tm <;> decide

theorem hookSim_hookOpt (tm : Ovni.Task.Model) (P : Ovni.Task.ProcInfo) (ε : Ovni.Task.Emu)
    (tev : Option Ovni.Task.Ev) : HookSim (hookOpt tm P ε tev) := by
  cases tev with
  | some x => exact hookSim_task tm P ε x
  | none => exact hookSim_none

/-- **One event of the reference emulator preserves the coupling.**  `b`: any bay
    mirroring `e` (only used to read off which channels a handler leaves alone). -/
theorem coupled_modelEvent {tm : Ovni.Task.Model} {P : Ovni.Task.ProcInfo} {tab : List MarkType} {ε : Ovni.Task.Emu}
    {e e1 : Emu} {b : Bay} {ti m c v k : Nat} {p : List Nat} {tev : Option Ovni.Task.Ev}
    (hs : Shaped e) (hm : Mirrors e b) (hk : e.specs[k]? = some (specOf tm)) (hcp : Coupled tm k e ε)
    (hd : DecodedOk tm ti m c v tev)
    (h : Ovni.Emu.modelEvent e ti m c v p (hookOpt tm P ε tev) (fun e ti _ v p => markEvent tab e ti v p) = .ok e1) :
    Coupled tm k e1.flushAll (advanceOpt tm P ε tev) := by
  obtain ⟨_, hsh, _⟩ := (Sim.modelEvent (hookSim_hookOpt tm P ε tev) (hookSim_mark tab) h) hs
  have hlen : e1.threads.length = e.threads.length := congrArg Shape.nT hsh
  have hms : e1.maxStack = e.maxStack := by
    refine modelEvent_maxStack ?_ (fun e ti a b p e' h => markEvent_maxStack h) h
    intro e0 ti0 a0 b0 p0 e' h0
    cases tev with
    | some x => exact taskHook_maxStack (b := b0) (p := p0) h0
    | none => cases h0
  unfold Ovni.Emu.modelEvent at h
  simp only [bind, Except.bind, pure, Except.pure, throw, throwThe, MonadExceptOf.throw] at h
  cases hfs : findSpec m with
  | none => simp only [hfs] at h; cases h
  | some spec =>
    simp only [hfs] at h
    have hsc := findSpec_char hfs
    split at h
    · cases h
    · split at h
      · -- the ovni model
        rename_i h79
        subst h79
        have hr : routedTo 79 c = false := by simp [routedTo]
        have htev : tev = none := by
          have := hd
          simp only [DecodedOk, hr, Bool.false_eq_true, if_false] at this
          rw [this]
          simp only [ssEvOf, (specOf_char_ne tm).1.symm, if_false]
        subst htev
        exact hcp.keep hlen hms
          (ovniEvent_keep hs hm hk (specOf_char_ne tm).1 (specOf_char_ne tm).2 h) rfl rfl
      · rename_i h79
        split at h
        · -- a task event
          rename_i hcat
          have hr : routedTo m c = true := by
            simp only [routedTo, hfs, hcat, Bool.and_true, bne_iff_ne, ne_eq]; exact h79
          have hmm : m = (specOf tm).char := by
            have := hd
            simp only [DecodedOk, hr, if_true] at this
            exact this
          repeat' split at h
          all_goals first | (cases h; done) | skip
          cases tev with
          | none => cases h
          | some x =>
            simp only [hookOpt] at h
            cases hst : Ovni.Task.Emu.step tm P ε x with
            | error err =>
              exfalso
              unfold taskHook at h
              simp only [hst] at h
              cases h
            | ok ε' =>
              simp only [advanceOpt, hst]
              exact coupled_taskHook hs hk hmm.symm hcp h hst
        · -- a table event
          rename_i hcat
          have hr : routedTo m c = false := by
            simp only [routedTo, hfs]
            cases hb : spec.taskCats.contains c with
            | true => exact absurd hb hcat
            | false => simp
          have htev : tev = ssEvOf tm ti m c v := by
            have := hd
            simp only [DecodedOk, hr, Bool.false_eq_true, if_false] at this
            exact this
          subst htev
          by_cases hmm : m = (specOf tm).char
          · subst hmm
            rw [findSpec_specOf] at hfs
            cases hfs
            exact coupled_tableEvent hs hk hcp h
          · have : ssEvOf tm ti m c v = none := by simp only [ssEvOf, hmm, if_false]
            rw [this]
            exact hcp.keep hlen hms
              (RawKeep.of_char (SimP.tableEventK h) hs hm hk (fun hq => hmm (by rw [← hsc, ← hq]))) rfl rfl

/-! ### the initial state -/

/-- **Right after `emu_connect` the copy agrees with the channels**: all task
    channels are null / empty, with the stack / duplicate properties of setup.c
    (`Ovni.Task.Cfg` reads the same generated `chan_dup[]`). -/
theorem coupled_init (tm : Ovni.Task.Model) (threads : List (Int × Int × Nat)) (cpus : List (Nat × Int × Bool))
    (enabled : List Nat) (lint : Bool) (extra : List ModelSpec) {k : Nat}
    (hk : (mkEmu threads cpus enabled lint extra).specs[k]? = some (specOf tm)) :
    Coupled tm k (mkEmu threads cpus enabled lint extra) Ovni.Task.Emu.init := by
  have hsrc : ∀ ti i, ti < (mkEmu threads cpus enabled lint extra).threads.length → i < (specOf tm).nch →
      (mkEmu threads cpus enabled lint extra).src (.raw ti k i) = some ((specOf tm).freshChans.getD i {}) := by
    intro ti i hti hi
    simp only [mkEmu, List.length_mapIdx] at hti
    have hspecs : (mkEmu threads cpus enabled lint extra).specs =
        allSpecs.filter (fun s => enabled.contains s.char) ++ extra := rfl
    rw [hspecs] at hk
    simp only [Emu.src, mkEmu, List.getElem?_mapIdx, List.getElem?_eq_getElem hti, Option.map_some,
      List.getElem?_map, hk]
    have hl : i < (specOf tm).freshChans.length := by
      simp [ModelSpec.freshChans]; exact hi
    rw [List.getElem?_eq_getElem hl, List.getD_eq_getElem?_getD, List.getElem?_eq_getElem hl]
    rfl
  refine ⟨rfl, ?_, ?_⟩
  · intro ti hti
    refine ⟨_, hsrc ti _ hti (by cases tm <;> decide), ?_⟩
    cases tm <;> exact ⟨by rfl, by rfl, by rfl, by rfl, by rfl, by rfl⟩
  · intro ti hti f hf
    refine ⟨_, hsrc ti _ hti (by revert f; cases tm <;> decide), ?_⟩
    revert f
    cases tm
    all_goals
      intro f hf
      simp only [taskFields, taskIdx, TaskChanIdx.nosv, TaskChanIdx.nanos6, List.append_assoc, List.cons_append,
        List.nil_append, List.mem_cons, List.not_mem_nil, or_false] at hf
      rcases hf with rfl | rfl | rfl | rfl | rfl <;> exact ⟨by rfl, by rfl, by rfl, by rfl, by rfl, by rfl⟩

end Ovni.Emu
