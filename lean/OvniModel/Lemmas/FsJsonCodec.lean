import OvniModel.Rt.Fs
import OvniModel.Props.Json

/-!
# The `Codec` of the crash model (C09 / C10) instantiated with the parson model

`Rt/Fs.lean` takes parson as a parameter: a serializer and a parser with the
two hypotheses `parse_ser` (what was serialized parses back) and `parse_prefix`
(no proper prefix of it parses).  Here both are *proved* for
`json_serialize_to_string_pretty` / `json_parse_file_with_comments` as modelled
in `OvniModel/Json.lean` (`Props/Json.roundtrip`, `Props/Json.truncation_rejected`).

The abstract metadata `⟨finished, body⟩` is written as the object
`{"version": 3, "ovni": {"body": "<decimal digits>", "finished": 1}}`
(`finished` only when set, as `ovni_thread_free` does).
-/
namespace Ovni.Rt.Fs
open Ovni.Json

def kVersion : List Nat := [118, 101, 114, 115, 105, 111, 110]      -- "version"
def kOvni : List Nat := [111, 118, 110, 105]                        -- "ovni"
def kBody : List Nat := [98, 111, 100, 121]                         -- "body"
def kFinished : List Nat := [102, 105, 110, 105, 115, 104, 101, 100] -- "finished"
def pBody : List Nat := kOvni ++ 46 :: kBody                        -- "ovni.body"
def pFinished : List Nat := kOvni ++ 46 :: kFinished                -- "ovni.finished"

/-- the JSON value of an abstract metadata record -/
def encodeMeta (m : Meta) : Json :=
  .object [(kVersion, .number 3 0),
           (kOvni, .object ((kBody, .string (natDec m.body)) ::
                            (if m.finished then [(kFinished, .number 1 0)] else [])))]

/-- what `thread_load_metadata` reads back (`json_object_dotget_number(meta, "ovni.finished") == 1`) -/
def decodeMeta (j : Json) : Option Meta :=
  match getStringFull (dotget j pBody) with
  | some s => some ⟨getNumber (dotget j pFinished) == (1, 0), digitsVal s⟩
  | none => none

theorem natDec_strOk (n : Nat) : strOk (natDec n) = true := by
  simp only [strOk, List.all_eq_true, decide_eq_true_eq]
  intro c hc
  have := natDec_digits n c hc
  simp [isDigit] at this
  omega

theorem encodeMeta_writable (m : Meta) : Writable (encodeMeta m) := by
  obtain ⟨f, b⟩ := m
  unfold Writable
  cases f <;>
    simp [encodeMeta, wr, wrMembers, keysNodup, keyOk, natDec_strOk, kVersion, kOvni, kBody, kFinished, maxNesting,
      pow2_53]

theorem decode_encode (m : Meta) : decodeMeta (encodeMeta m) = some m := by
  obtain ⟨f, b⟩ := m
  cases f <;>
    simp [decodeMeta, encodeMeta, dotget, dotgetSegs, Json.get?, assoc, getStringFull, getNumber, digitsVal_natDec,
      pBody, pFinished, kVersion, kOvni, kBody, kFinished, splitDots]

/-- parson (as modelled) as the `Codec` of the crash model: both hypotheses are theorems. -/
def jsonCodec : Codec where
  ser m := serializePretty (encodeMeta m)
  parse bytes := match parse bytes with | .ok j => decodeMeta j | _ => none
  parse_ser m := by
    simp only [Ovni.Props.Json.roundtrip _ (encodeMeta_writable m), decode_encode]
  parse_prefix m c hp hne := by
    simp only [Ovni.Props.Json.truncation_rejected _ (encodeMeta_writable m) rfl c hp hne]

end Ovni.Rt.Fs
