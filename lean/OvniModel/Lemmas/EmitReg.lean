import OvniModel.Lemmas.EmitWalk

/-
  C06 (emit side, 2/4): ONE registered channel, one event.  `emit` of prv.c on
  a channel that went from `vo` to `vn` (dirty or not) against `emitView vo vn`
  of View.lean: same failure, and `emitView` writes exactly the lines of `emit`
  that change what the row shows.
-/
set_option linter.unusedSimpArgs false
namespace Ovni.Emu
open Ovni.Generated

/-- the channel has one of the three duplicate policies (all generated specs do) -/
def DupOk (flags : Nat) : Prop :=
  hasFlag flags prvEmitDup = true ∨ hasFlag flags prvSkipDup = true ∨ hasFlag flags prvSkipDupNull = true

/-- no `PRV_ZERO`: then distinct channel values give distinct Paraver values -/
def NoZero (flags : Nat) : Prop := hasFlag flags prvZero = false

instance (f : Nat) : Decidable (DupOk f) := by unfold DupOk; infer_instance
instance (f : Nat) : Decidable (NoZero f) := by unfold NoZero; infer_instance

/-- `prvValue` succeeds (as a Bool, for `decide`) -/
def prvOkB (f : Nat) (v : Value) : Bool :=
  match prvValue f v with
  | .ok _ => true
  | .error _ => false

theorem prvOkB_ok {f : Nat} {v : Value} (h : prvOkB f v = true) : ∃ x, prvValue f v = .ok x := by
  unfold prvOkB at h
  cases hp : prvValue f v with
  | ok x => exact ⟨x, rfl⟩
  | error e => rw [hp] at h; cases h

theorem prvValue_error {f : Nat} {v : Value} {x : Err} (h : prvValue f v = .error x) : x = .prvZero := by
  unfold prvValue at h
  cases v with
  | null => cases h
  | int i =>
    simp only at h
    generalize (if f / prvNext % 2 = 1 then i + 1 else i) = val at h
    by_cases hc : (decide (f / prvZero % 2 = 0) && decide (val = 0)) = true
    · rw [if_pos hc] at h; injection h with h; exact h.symm
    · rw [if_neg hc] at h; cases h

/-- without `PRV_ZERO`: null is 0, an integer is shifted by `PRV_NEXT` and must not become 0 -/
theorem prvValue_int_noZero {f : Nat} (hz : NoZero f) (i : Int) :
    prvValue f (.int i) =
      if i + (if f / prvNext % 2 = 1 then 1 else 0) = 0 then .error .prvZero
      else .ok (i + (if f / prvNext % 2 = 1 then 1 else 0)) := by
  have hz' : (f / prvZero) % 2 = 0 := by
    unfold NoZero hasFlag at hz
    have := of_decide_eq_false hz
    omega
  unfold prvValue
  simp only [hz', decide_true, Bool.true_and, decide_eq_true_eq]
  by_cases hn : f / prvNext % 2 = 1
  · simp only [hn, if_true]
  · simp only [hn, if_false, Int.add_zero]

theorem prvValue_inj {f : Nat} (hz : NoZero f) {a b : Value} {x : Int} (ha : prvValue f a = .ok x)
    (hb : prvValue f b = .ok x) : a = b := by
  cases a with
  | null =>
    cases b with
    | null => rfl
    | int j =>
      rw [prvValue_int_noZero hz] at hb
      have ha' : (0 : Int) = x := by unfold prvValue at ha; injection ha
      by_cases hc : j + (if f / prvNext % 2 = 1 then 1 else 0) = 0
      · rw [if_pos hc] at hb; cases hb
      · rw [if_neg hc] at hb; injection hb with hb; omega
  | int i =>
    rw [prvValue_int_noZero hz] at ha
    by_cases hc : i + (if f / prvNext % 2 = 1 then 1 else 0) = 0
    · rw [if_pos hc] at ha; cases ha
    · rw [if_neg hc] at ha
      injection ha with ha
      cases b with
      | null =>
        have hb' : (0 : Int) = x := by unfold prvValue at hb; injection hb
        omega
      | int j =>
        rw [prvValue_int_noZero hz] at hb
        by_cases hc2 : j + (if f / prvNext % 2 = 1 then 1 else 0) = 0
        · rw [if_pos hc2] at hb; cases hb
        · rw [if_neg hc2] at hb; injection hb with hb
          have : i = j := by omega
          rw [this]

/-- `last_value` is consistent with the channel value `v`: never set on a
    `PRV_EMITDUP` registration, else unset or equal to `v`. -/
def LvOk (flags : Nat) (lv : Option Value) (v : Value) : Prop :=
  (hasFlag flags prvEmitDup = true → lv = none) ∧ (lv = none ∨ lv = some v)

/-- what the row shows after the lines `c` of one callback -/
def tvNew (tv : Int) : List PrvRec → Int
  | [] => tv
  | l :: _ => l.value

/-- what the callback of a registration does in an event: nothing when its
    channel is not dirty -/
def emitIf (r : PrvReg) (d : Bool) (lv : Option Value) (vn : Value) : Except Err (Option Value × List PrvRec) :=
  if d then emitOne r lv vn else .ok (lv, [])

theorem emitWrite_ok {r : PrvReg} {lv : Option Value} {v : Value} {x : Int} (h : prvValue r.flags v = .ok x) :
    emitWrite r lv v = .ok (lv, [r.line x]) := by
  unfold emitWrite; rw [h]

theorem emitWrite_error {r : PrvReg} {lv : Option Value} {v : Value} {x : Err} (h : prvValue r.flags v = .error x) :
    emitWrite r lv v = .error x := by
  unfold emitWrite; rw [h]

theorem emitView_same (file row type flags : Nat) (v : Value) : emitView file row type flags v v = .ok [] := by
  unfold emitView; simp only [if_true]; rfl

theorem emitView_ne_ok {file row type flags : Nat} {vo vn : Value} (hne : vo ≠ vn) {x : Int}
    (h : prvValue flags vn = .ok x) : emitView file row type flags vo vn = .ok [⟨file, row, type, x⟩] := by
  unfold emitView; simp only [hne, if_false, h, bind, Except.bind, pure, Except.pure]

theorem emitView_ne_error {file row type flags : Nat} {vo vn : Value} (hne : vo ≠ vn) {x : Err}
    (h : prvValue flags vn = .error x) : emitView file row type flags vo vn = .error x := by
  unfold emitView; simp only [hne, if_false, h, bind, Except.bind]

/-- `emit` with a non-duplicate value (or `last_value` unset) converts and writes. -/
theorem emitOne_fresh {r : PrvReg} {lv : Option Value} {v : Value} (hl : LvOk r.flags lv v')
    (hne : lv = none ∨ v' ≠ v) :
    emitOne r lv v = emitWrite r (if hasFlag r.flags prvEmitDup then lv else some v) v := by
  unfold emitOne
  by_cases he : hasFlag r.flags prvEmitDup = true
  · simp only [he, if_true]
  · simp only [he, if_false]
    have : lv ≠ some v := by
      rcases hne with h | h
      · rw [h]; simp
      · rcases hl.2 with h2 | h2
        · rw [h2]; simp
        · rw [h2]; simpa using h
    simp only [this, if_false]
    rfl

/-- **One registration, one event.**  `vo` / `vn`: value of the channel before
    the event / after the dirty phase; `d`: the channel is on the dirty list
    (`d = false → vn = vo`); `lv`: `last_value`; `tv`: what the row shows.

    * `emit` fails iff `emitView vo vn` does (forbidden value 0, same error);
    * otherwise `emitView` writes the lines of `emit` that change the row
      (`emit` may write one more line, repeating `tv`: a first emission, a
      `PRV_EMITDUP` or a non-null `PRV_SKIPDUPNULL` duplicate);
    * the invariants hold again for `vn`. -/
theorem emit_vs_view {r : PrvReg} {d : Bool} {lv : Option Value} {vo vn : Value} {tv : Int}
    (hdup : DupOk r.flags) (hz : NoZero r.flags) (hlv : LvOk r.flags lv vo)
    (htv : prvValue r.flags vo = .ok tv) (hd : d = false → vn = vo) :
    (∀ x, emitView r.file r.row r.type r.flags vo vn = .error x → emitIf r d lv vn = .error x) ∧
    (∀ x, emitIf r d lv vn = .error x → emitView r.file r.row r.type r.flags vo vn = .error x) ∧
    (∀ m, emitView r.file r.row r.type r.flags vo vn = .ok m →
      ∃ lv' c, emitIf r d lv vn = .ok (lv', c) ∧ LvOk r.flags lv' vn ∧
        prvValue r.flags vn = .ok (tvNew tv c) ∧ m = c.filter (fun l => l.value != tv) ∧ c.length ≤ 1) := by
  by_cases hvv : vo = vn
  · -- the value did not change
    subst hvv
    rw [emitView_same]
    refine ⟨fun x h => (by cases h), ?_, ?_⟩
    · intro x h
      exfalso
      unfold emitIf at h
      cases d with
      | false => simp at h
      | true =>
        simp only [if_true] at h
        unfold emitOne at h
        by_cases he : hasFlag r.flags prvEmitDup = true
        · simp only [he, if_true, emitWrite_ok htv] at h; cases h
        · simp only [he, if_false] at h
          by_cases hl : lv = some vo
          · simp only [hl, if_true] at h
            by_cases h1 : hasFlag r.flags prvSkipDup = true
            · simp only [h1, if_true] at h; cases h
            · simp only [h1, if_false] at h
              have h2 : hasFlag r.flags prvSkipDupNull = true := by
                rcases hdup with h | h | h
                · exact absurd h he
                · exact absurd h h1
                · exact h
              simp only [h2, if_true] at h
              by_cases hn : vo = Value.null
              · rw [if_pos hn] at h; cases h
              · rw [if_neg hn, emitWrite_ok htv] at h; cases h
          · simp only [hl, if_false, emitWrite_ok htv] at h; cases h
    · intro m hm
      injection hm with hm; subst hm
      unfold emitIf
      cases d with
      | false => exact ⟨lv, [], rfl, hlv, htv, rfl, by simp⟩
      | true =>
        simp only [if_true]
        have hfil : ([r.line tv] : List PrvRec).filter (fun l => l.value != tv) = [] := by
          simp [PrvReg.line]
        unfold emitOne
        by_cases he : hasFlag r.flags prvEmitDup = true
        · simp only [he, if_true, emitWrite_ok htv]
          exact ⟨lv, _, rfl, hlv, htv, hfil.symm, by simp⟩
        · simp only [he, if_false]
          by_cases hl : lv = some vo
          · simp only [hl, if_true]
            by_cases h1 : hasFlag r.flags prvSkipDup = true
            · simp only [h1, if_true]
              exact ⟨_, [], rfl, hl ▸ hlv, htv, rfl, by simp⟩
            · simp only [h1, if_false]
              have h2 : hasFlag r.flags prvSkipDupNull = true := by
                rcases hdup with h | h | h
                · exact absurd h he
                · exact absurd h h1
                · exact h
              simp only [h2, if_true]
              by_cases hn : vo = Value.null
              · rw [if_pos hn]
                exact ⟨_, [], rfl, hl ▸ hlv, htv, rfl, by simp⟩
              · rw [if_neg hn, emitWrite_ok htv]
                exact ⟨_, _, rfl, ⟨fun h => absurd h he, Or.inr rfl⟩, htv, hfil.symm, by simp⟩
          · simp only [hl, if_false, emitWrite_ok htv]
            exact ⟨_, _, rfl, ⟨fun h => absurd h he, Or.inr rfl⟩, htv, hfil.symm, by simp⟩
  · -- the value changed: the channel is dirty and the value is no duplicate
    have hdt : d = true := by
      cases d with
      | true => rfl
      | false => exact absurd (hd rfl).symm hvv
    subst hdt
    have hone : emitIf r true lv vn =
        emitWrite r (if hasFlag r.flags prvEmitDup then lv else some vn) vn := by
      unfold emitIf; simp only [if_true]
      exact emitOne_fresh hlv (Or.inr hvv)
    have hlv' : LvOk r.flags (if hasFlag r.flags prvEmitDup then lv else some vn) vn := by
      by_cases he : hasFlag r.flags prvEmitDup = true
      · simp only [he, if_true]; exact ⟨fun _ => hlv.1 he, Or.inl (hlv.1 he)⟩
      · simp only [he, if_false]; exact ⟨fun h => absurd h he, Or.inr rfl⟩
    cases hp : prvValue r.flags vn with
    | error y =>
      rw [emitView_ne_error hvv hp, hone, emitWrite_error hp]
      exact ⟨fun x h => (by injection h with h; rw [h]), fun x h => (by injection h with h; rw [h]), fun m h => (by cases h)⟩
    | ok x =>
      rw [emitView_ne_ok hvv hp, hone, emitWrite_ok hp]
      refine ⟨fun _ h => (by cases h), fun _ h => (by cases h), ?_⟩
      intro m hm
      injection hm with hm; subst hm
      have hxt : x ≠ tv := fun e => hvv (prvValue_inj hz htv (e ▸ hp))
      refine ⟨_, _, rfl, hlv', rfl, ?_, by simp⟩
      simp [PrvReg.line, hxt]

end Ovni.Emu
