import OvniModel.Lemmas.SysRows
import OvniModel.Lemmas.EmitRecords

/-
  C06 (emit side): the emit callbacks of the system channels write exactly
  `sysRecords` — no redundant line: a dirty system channel always holds a value
  different from the last one emitted (`SysOk`), so `emit` never sees a
  duplicate there (its "duplicated value" error cannot occur although these
  registrations have no duplicate policy).
-/
set_option linter.unusedSimpArgs false
namespace Ovni.Emu
open Ovni.Generated

/-- a flushed system channel and the `last_value` of its registration -/
def Good (ch : Chan) (lv : Option Value) : Prop :=
  SysOk ch ∧ ch.dirty = false ∧ ch.cur = ch.last ∧ (lv = none ∨ lv = some ch.cur)

/-- `last_value` after the callback -/
def lvNew (ch : Chan) (lv : Option Value) : Option Value := if ch.dirty then some ch.cur else lv

theorem emitSys1_eq {r : PrvReg} {ch ch' : Chan} {lv : Option Value} (hg : Good ch lv) (hs : ChS ch ch')
    (hne : hasFlag r.flags prvEmitDup = false) :
    emitSys1 r ch' lv =
      match emitRaw r.file r.row r.type r.flags ch' with
      | .error e => .error e
      | .ok ls => .ok (lvNew ch' lv, ls) := by
  obtain ⟨g1, g2, g3, g4⟩ := hg
  unfold emitSys1 emitRaw lvNew
  cases hd : ch'.dirty with
  | false => simp only [Bool.false_eq_true, if_false, pure, Except.pure]
  | true =>
    simp only [if_true]
    have hok := hs.1 g1
    have hne2 : lv ≠ some ch'.cur := by
      have hc : ch'.cur ≠ ch'.last := hok.2.2.2 hd
      rw [hs.2.1, ← g3] at hc
      rcases g4 with h | h
      · rw [h]; simp
      · rw [h]; intro e; injection e with e; exact hc e.symm
    unfold emitOne
    simp only [hne, Bool.false_eq_true, if_false, hne2]
    unfold emitWrite
    cases hp : prvValue r.flags ch'.cur with
    | error e => simp only [bind, Except.bind]
    | ok x => simp only [bind, Except.bind, pure, Except.pure, PrvReg.line]

theorem good_flush {ch ch' : Chan} {lv : Option Value} (hg : Good ch lv) (hs : ChS ch ch') :
    Good ch'.flush (lvNew ch' lv) := by
  obtain ⟨g1, g2, g3, g4⟩ := hg
  unfold lvNew
  cases hd : ch'.dirty with
  | false =>
    have := hs.2.2 hd
    subst this
    simp only [Bool.false_eq_true, if_false]
    rw [Chan.flush_of_clean hd]
    exact ⟨g1, g2, g3, g4⟩
  | true =>
    simp only [if_true]
    have hok := hs.1 g1
    have hfl : ch'.flush = { ch' with last := ch'.cur, dirty := false } := by simp [Chan.flush, hd]
    refine ⟨?_, by rw [hfl], ?_, Or.inr (by rw [Chan.flush_cur])⟩
    · rw [hfl]; exact ⟨hok.1, hok.2.1, hok.2.2.1, fun h => by cases h⟩
    · rw [Chan.flush_cur, hfl]

theorem sysFlags_noEmitDup : hasFlag prvNext prvEmitDup = false ∧ hasFlag 0 prvEmitDup = false ∧
    hasFlag prvSkipDup prvEmitDup = false ∧ hasFlag prvZero prvEmitDup = false := by decide

/-! ### one row -/

def GoodT (t : Thread) (l : Lv3) : Prop := Good t.chCpu l.1 ∧ Good t.chTid l.2.1 ∧ Good t.chState l.2.2
def GoodC (x : Cpu) (l : Lv3) : Prop := Good x.chPid l.1 ∧ Good x.chTid l.2.1 ∧ Good x.chNrun l.2.2

def newT (t : Thread) (l : Lv3) : Lv3 := (lvNew t.chCpu l.1, lvNew t.chTid l.2.1, lvNew t.chState l.2.2)
def newC (x : Cpu) (l : Lv3) : Lv3 := (lvNew x.chPid l.1, lvNew x.chTid l.2.1, lvNew x.chNrun l.2.2)

theorem three_eq (r1 r2 r3 : Except Err (List PrvRec)) (n1 n2 n3 : Option Value) :
    (match (match r1 with
        | .error e => (.error e : Except Err (Option Value × List PrvRec))
        | .ok ls => .ok (n1, ls)) with
      | .error e => (.error e : Except Err (Lv3 × List PrvRec))
      | .ok (a, la) =>
        match (match r2 with
          | .error e => (.error e : Except Err (Option Value × List PrvRec))
          | .ok ls => .ok (n2, ls)) with
        | .error e => .error e
        | .ok (b, lb) =>
          match (match r3 with
            | .error e => (.error e : Except Err (Option Value × List PrvRec))
            | .ok ls => .ok (n3, ls)) with
          | .error e => .error e
          | .ok (c, lc) => .ok ((a, b, c), la ++ (lb ++ (lc ++ [])))) =
    match collect [r1, r2, r3] with
    | .error e => .error e
    | .ok s => .ok ((n1, n2, n3), s) := by
  simp only [collect_cons]
  cases r1 <;> cases r2 <;> cases r3 <;> rfl

theorem thSysEmit_eq {t t' : Thread} {l : Lv3} (hg : GoodT t l) (hs : ThSys t t') :
    thSysEmit t' l =
      match collect (thSysList t') with
      | .error e => .error e
      | .ok s => .ok (newT t' l, s) := by
  unfold thSysEmit thSysList newT
  rw [emitSys1_eq (r := ⟨0, 0, t'.gindex + 1, prvThreadCpu, prvNext⟩) hg.1 hs.2.1 sysFlags_noEmitDup.1,
    emitSys1_eq (r := ⟨0, 0, t'.gindex + 1, prvThreadTid, 0⟩) hg.2.1 hs.2.2.1 sysFlags_noEmitDup.2.1,
    emitSys1_eq (r := ⟨0, 0, t'.gindex + 1, prvThreadState, prvSkipDup⟩) hg.2.2 hs.2.2.2 sysFlags_noEmitDup.2.2.1]
  exact three_eq _ _ _ _ _ _

theorem cpuSysEmit_eq {x x' : Cpu} {l : Lv3} (hg : GoodC x l) (hs : CpuSys x x') :
    cpuSysEmit x' l =
      match collect (cpuSysList x') with
      | .error e => .error e
      | .ok s => .ok (newC x' l, s) := by
  unfold cpuSysEmit cpuSysList newC
  rw [emitSys1_eq (r := ⟨0, 1, x'.gindex + 1, prvCpuPid, 0⟩) hg.1 hs.2.1 sysFlags_noEmitDup.2.1,
    emitSys1_eq (r := ⟨0, 1, x'.gindex + 1, prvCpuTid, 0⟩) hg.2.1 hs.2.2.1 sysFlags_noEmitDup.2.1,
    emitSys1_eq (r := ⟨0, 1, x'.gindex + 1, prvCpuNrun, prvZero⟩) hg.2.2 hs.2.2.2 sysFlags_noEmitDup.2.2.2]
  exact three_eq _ _ _ _ _ _

/-! ### all rows -/

def newRows {α} (new : α → Lv3 → Lv3) : List α → List Lv3 → List Lv3
  | [], _ => []
  | a :: as, ls => new a (ls.headD (none, none, none)) :: newRows new as ls.tail

theorem getD_tail (ls : List Lv3) (g : Nat) :
    ls.tail.getD g (none, none, none) = ls.getD (g + 1) (none, none, none) := by
  cases ls with
  | nil => rfl
  | cons a as => rfl

theorem headD_getD (ls : List Lv3) : ls.headD (none, none, none) = ls.getD 0 (none, none, none) := by
  cases ls <;> rfl

theorem newRows_getElem? {α} (new : α → Lv3 → Lv3) : ∀ (rows : List α) (ls : List Lv3) (g : Nat) (a : α),
    rows[g]? = some a → (newRows new rows ls).getD g (none, none, none) = new a (ls.getD g (none, none, none))
  | [], _, _, _, h => by cases h
  | b :: bs, ls, 0, a, h => by
    simp only [List.getElem?_cons_zero, Option.some.injEq] at h
    subst h
    simp only [newRows, List.getD_cons_zero, headD_getD]
  | b :: bs, ls, g + 1, a, h => by
    simp only [List.getElem?_cons_succ] at h
    simp only [newRows, List.getD_cons_succ]
    rw [newRows_getElem? new bs ls.tail g a h, getD_tail]

theorem rowsEmit_collect {α} (f : α → Lv3 → Except Err (Lv3 × List PrvRec))
    (lst : α → List (Except Err (List PrvRec))) (new : α → Lv3 → Lv3) : ∀ (rows : List α) (ls : List Lv3),
    (∀ (g : Nat) (a : α), rows[g]? = some a →
      f a (ls.getD g (none, none, none)) =
        match collect (lst a) with
        | .error e => .error e
        | .ok s => .ok (new a (ls.getD g (none, none, none)), s)) →
    rowsEmit f rows ls =
      match collect (rows.flatMap lst) with
      | .error e => .error e
      | .ok s => .ok (newRows new rows ls, s)
  | [], _, _ => rfl
  | a :: as, ls, h => by
    have h0 := h 0 a rfl
    rw [← headD_getD] at h0
    have ih := rowsEmit_collect f lst new as ls.tail (fun g a' hg => by
      rw [getD_tail]; exact h (g + 1) a' (by simpa using hg))
    rw [rowsEmit, h0, List.flatMap_cons, collect_append, ih]
    cases collect (lst a) with
    | error e => rfl
    | ok s =>
      simp only
      cases collect (as.flatMap lst) with
      | error e => rfl
      | ok s' => rfl

/-- the `last_value`s of the system registrations are consistent with the
    (flushed) system channels of `e` -/
def SysInv (e : Emu) (tl cl : List Lv3) : Prop :=
  (∀ (g : Nat) (t : Thread), e.threads[g]? = some t → GoodT t (tl.getD g (none, none, none))) ∧
  (∀ (c : Nat) (x : Cpu), e.cpus[c]? = some x → GoodC x (cl.getD c (none, none, none)))

/-- **The system rows.**  If the handlers took the system channels from `e`
    (flushed, `SysInv`) to `e'` by `chan_set`s (`SysRel`), the emit callbacks of
    the system channels fail iff `sysRecords e'` fails, otherwise write exactly
    `sysRecords e'`; and `SysInv` holds again after the flush. -/
theorem sysEmit_eq {e e' : Emu} {tl cl : List Lv3} (hi : SysInv e tl cl) (hr : SysRel e e') :
    sysEmit e' tl cl =
      (match sysRecords e' with
      | .error x => .error x
      | .ok s => .ok (newRows newT e'.threads tl, newRows newC e'.cpus cl, s)) ∧
    SysInv e'.flushAll (newRows newT e'.threads tl) (newRows newC e'.cpus cl) := by
  obtain ⟨hl, hm, hth, hcp⟩ := hr
  have told : ∀ (g : Nat) (t' : Thread), e'.threads[g]? = some t' → ∃ t, e.threads[g]? = some t := by
    intro g t' h
    have : g < e.threads.length := by rw [← hl]; exact (List.getElem?_eq_some_iff.mp h).1
    exact ⟨_, List.getElem?_eq_getElem this⟩
  have cold : ∀ (g : Nat) (x' : Cpu), e'.cpus[g]? = some x' → ∃ x, e.cpus[g]? = some x := by
    intro g x' h
    have : g < e.cpus.length := by rw [← hm]; exact (List.getElem?_eq_some_iff.mp h).1
    exact ⟨_, List.getElem?_eq_getElem this⟩
  constructor
  · have h1 := rowsEmit_collect thSysEmit thSysList newT e'.threads tl (fun g t' ht' => by
      obtain ⟨t, ht⟩ := told g t' ht'
      exact thSysEmit_eq (hi.1 g t ht) (hth g t t' ht ht'))
    have h2 := rowsEmit_collect cpuSysEmit cpuSysList newC e'.cpus cl (fun g x' hx' => by
      obtain ⟨x, hx⟩ := cold g x' hx'
      exact cpuSysEmit_eq (hi.2 g x hx) (hcp g x x' hx hx'))
    unfold sysEmit sysRecords
    rw [h1, h2, collect_append]
    cases collect (e'.threads.flatMap thSysList) with
    | error e => rfl
    | ok s =>
      simp only
      cases collect (e'.cpus.flatMap cpuSysList) with
      | error e => rfl
      | ok s' => rfl
  · constructor
    · intro g tF htF
      simp only [Emu.flushAll, List.getElem?_map] at htF
      cases ht' : e'.threads[g]? with
      | none => rw [ht'] at htF; cases htF
      | some t' =>
        rw [ht'] at htF
        simp only [Option.map_some, Option.some.injEq] at htF
        subst htF
        obtain ⟨t, ht⟩ := told g t' ht'
        rw [newRows_getElem? newT _ _ g t' ht']
        have hg := hi.1 g t ht
        have hs := hth g t t' ht ht'
        exact ⟨good_flush hg.1 hs.2.1, good_flush hg.2.1 hs.2.2.1, good_flush hg.2.2 hs.2.2.2⟩
    · intro g xF hxF
      simp only [Emu.flushAll, List.getElem?_map] at hxF
      cases hx' : e'.cpus[g]? with
      | none => rw [hx'] at hxF; cases hxF
      | some x' =>
        rw [hx'] at hxF
        simp only [Option.map_some, Option.some.injEq] at hxF
        subst hxF
        obtain ⟨x, hx⟩ := cold g x' hx'
        rw [newRows_getElem? newC _ _ g x' hx']
        have hg := hi.2 g x hx
        have hs := hcp g x x' hx hx'
        exact ⟨good_flush hg.1 hs.2.1, good_flush hg.2.1 hs.2.2.1, good_flush hg.2.2 hs.2.2.2⟩

end Ovni.Emu
