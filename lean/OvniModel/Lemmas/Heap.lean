import OvniModel.Emu.Heap

/-! Helper lemmas for the heap model (`Emu/Heap.lean`): index/path
    arithmetic, shape, order and multiset invariants. -/
namespace Ovni.Heap

/-! ### `heap_get_move` computes the bits of the index below its leading one -/

theorem pow_log2_step (n : Nat) (h : 2 ≤ n) : 2 ^ Nat.log2 n = 2 * 2 ^ Nat.log2 (n / 2) := by
  rw [Nat.log2_def n]
  simp only [h, if_true, Nat.pow_succ]
  omega

theorem pow_log2_bounds (n : Nat) (h : 1 ≤ n) : 2 ^ Nat.log2 n ≤ n ∧ n < 2 * 2 ^ Nat.log2 n := by
  constructor
  · exact Nat.log2_self_le (by omega)
  · have := @Nat.lt_log2_self n
    rw [Nat.pow_succ] at this
    omega

theorem getMove_two : getMove 2 = (1, false) := by decide
theorem getMove_three : getMove 3 = (1, true) := by decide

theorem getMove_half (n : Nat) (h : 4 ≤ n) :
    getMove (n / 2) = ((getMove n).1 / 2, (getMove n).2) ∧ (getMove n).1 % 2 = n % 2 ∧
      2 ≤ (getMove n).1 ∧ (getMove n).1 < n := by
  have h1 := pow_log2_step n (by omega)
  have h2 := pow_log2_step (n / 2) (by omega)
  have hb := pow_log2_bounds (n / 2 / 2) (by omega)
  generalize 2 ^ Nat.log2 (n / 2 / 2) = b at h1 h2 hb
  have e1 : 2 * (2 * b) / 2 = 2 * b := by omega
  have e2 : 2 * b / 2 = b := by omega
  unfold getMove
  simp only [h1, h2, e1, e2]
  split <;> split
  · refine ⟨?_, ?_, ?_, ?_⟩ <;> simp only [Prod.mk.injEq, and_true] <;> omega
  · exfalso; omega
  · exfalso; omega
  · refine ⟨?_, ?_, ?_, ?_⟩ <;> simp only [Prod.mk.injEq, and_true] <;> omega

theorem getMove_lt (n : Nat) (h : 2 ≤ n) : 1 ≤ (getMove n).1 ∧ (getMove n).1 < n := by
  by_cases h4 : 4 ≤ n
  · have := getMove_half n h4; omega
  · have : n = 2 ∨ n = 3 := by omega
    rcases this with rfl | rfl
    · rw [getMove_two]; omega
    · rw [getMove_three]; omega

theorem pathFuel_one (f : Nat) : pathFuel f 1 = [] := by
  cases f <;> simp [pathFuel]

/-- The loop bound is immaterial once it is at least the index. -/
theorem pathFuel_fuel (f : Nat) : ∀ n f', 1 ≤ n → n ≤ f → n ≤ f' → pathFuel f n = pathFuel f' n := by
  induction f with
  | zero => intro n f' h1 h2; omega
  | succ f ih =>
    intro n f' h1 h2 h3
    cases f' with
    | zero => omega
    | succ f' =>
      unfold pathFuel
      by_cases hn : n = 1
      · simp [hn]
      · simp only [hn, if_false]
        have := getMove_lt n (by omega)
        rw [ih (getMove n).1 f' (by omega) (by omega) (by omega)]

theorem pathFuel_step (f : Nat) : ∀ n, 2 ≤ n → n ≤ f →
    pathFuel f n = pathFuel f (n / 2) ++ [decide (n % 2 = 1)] := by
  induction f with
  | zero => intro n h1 h2; omega
  | succ f ih =>
    intro n h1 h2
    by_cases h4 : 4 ≤ n
    · have hh := getMove_half n h4
      have e1 : pathFuel (f + 1) n = (getMove n).2 :: pathFuel f (getMove n).1 := by
        rw [pathFuel]; simp only [show n ≠ 1 by omega, if_false]
      have e2 : pathFuel (f + 1) (n / 2) = (getMove (n / 2)).2 :: pathFuel f (getMove (n / 2)).1 := by
        rw [pathFuel]; simp only [show n / 2 ≠ 1 by omega, if_false]
      rw [e1, e2, ih (getMove n).1 (by omega) (by omega), hh.1]
      simp only [List.cons_append, hh.2.1]
    · have : n = 2 ∨ n = 3 := by omega
      rcases this with rfl | rfl
      · show pathFuel (f + 1) 2 = pathFuel (f + 1) 1 ++ _
        rw [pathFuel_one, pathFuel]; simp [getMove_two, pathFuel_one]
      · show pathFuel (f + 1) 3 = pathFuel (f + 1) 1 ++ _
        rw [pathFuel_one, pathFuel]; simp [getMove_three, pathFuel_one]

theorem path_one : path 1 = [] := pathFuel_one 1

/-- The last move to node `n` is its parity, the moves before lead to `n/2`. -/
theorem path_step (n : Nat) (h : 2 ≤ n) : path n = path (n / 2) ++ [decide (n % 2 = 1)] := by
  unfold path
  rw [pathFuel_step n n h (Nat.le_refl _)]
  rw [pathFuel_fuel n (n / 2) (n / 2) (by omega) (by omega) (Nat.le_refl _)]

/-! ### Index of a move list; `path` and `idx` are inverse bijections -/

def idxFrom (k : Nat) (p : List Bool) : Nat := p.foldl (fun a b => 2 * a + (if b then 1 else 0)) k

/-- 1-based index of the node reached from the root by the moves `p`. -/
def idx (p : List Bool) : Nat := idxFrom 1 p

theorem idx_nil : idx [] = 1 := rfl

theorem idx_snoc (p : List Bool) (b : Bool) : idx (p ++ [b]) = 2 * idx p + (if b then 1 else 0) := by
  simp [idx, idxFrom, List.foldl_append]

theorem idxFrom_ge (p : List Bool) : ∀ k, k ≤ idxFrom k p := by
  induction p with
  | nil => intro k; exact Nat.le_refl _
  | cons b p ih =>
    intro k
    have := ih (2 * k + (if b then 1 else 0))
    simp only [idxFrom, List.foldl_cons] at this ⊢
    omega

theorem idx_pos (p : List Bool) : 1 ≤ idx p := idxFrom_ge p 1

theorem idx_cons_ge (b : Bool) (q : List Bool) : 2 ≤ idx (b :: q) := by
  have := idxFrom_ge q (2 * 1 + (if b then 1 else 0))
  simp only [idx, idxFrom, List.foldl_cons] at this ⊢
  omega

theorem idx_path : ∀ n, 1 ≤ n → idx (path n) = n := by
  intro n
  induction n using Nat.strongRecOn with
  | _ n ih =>
    intro h
    by_cases h2 : 2 ≤ n
    · rw [path_step n h2, idx_snoc, ih (n / 2) (by omega) (by omega)]
      by_cases hp : n % 2 = 1 <;> simp [hp] <;> omega
    · have : n = 1 := by omega
      subst this; rw [path_one]; rfl

theorem path_idx (p : List Bool) : path (idx p) = p := by
  generalize hl : p.length = len
  induction len generalizing p with
  | zero =>
    have : p = [] := List.eq_nil_of_length_eq_zero hl
    subst this; exact path_one
  | succ len ih =>
    rcases List.eq_nil_or_concat p with hp | ⟨q, b, hp⟩
    · subst hp; simp at hl
    · subst hp
      rw [List.concat_eq_append] at hl ⊢
      have hq : q.length = len := by simp at hl; omega
      have := idx_pos q
      rw [idx_snoc, path_step _ (by omega)]
      have e1 : (2 * idx q + if b then 1 else 0) / 2 = idx q := by cases b <;> simp <;> omega
      have e2 : decide ((2 * idx q + if b then 1 else 0) % 2 = 1) = b := by
        cases b <;> simp <;> omega
      rw [e1, e2, ih q hq]

theorem idx_eq_iff (q : List Bool) (n : Nat) (h : 1 ≤ n) : idx q = n ↔ q = path n := by
  constructor
  · intro e; rw [← e, path_idx]
  · intro e; rw [e, idx_path n h]

/-! ### Shape -/

variable {α : Type}

/-- The node reached by the moves exists. -/
def hasPath : Tree α → List Bool → Prop
  | .nil, _ => False
  | .node _ _ _, [] => True
  | .node l _ _, false :: p => hasPath l p
  | .node _ _ r, true :: p => hasPath r p

/-- Shape invariant of `heap.h`: the tree has exactly the nodes `1 … n` of the
    complete binary tree (stated extensionally over move lists). -/
def Shape (t : Tree α) (n : Nat) : Prop := ∀ p, hasPath t p ↔ idx p ≤ n

theorem hasPath_nil (p : List Bool) : ¬ hasPath (Tree.nil : Tree α) p := by
  cases p <;> simp [hasPath]

theorem hasPath_prefix : ∀ (p q : List Bool) (t : Tree α), hasPath t (p ++ q) → hasPath t p := by
  intro p
  induction p with
  | nil => intro q t h; cases t with
    | nil => exact absurd h (hasPath_nil _)
    | node l x r => trivial
  | cons b p ih =>
    intro q t h
    cases t with
    | nil => exact absurd h (hasPath_nil _)
    | node l x r =>
      cases b
      · exact ih q l h
      · exact ih q r h

theorem shape_nil_iff {t : Tree α} {n : Nat} (h : Shape t n) : t = .nil ↔ n = 0 := by
  have := h []
  rw [idx_nil] at this
  cases t with
  | nil => simp [hasPath] at this; simp; omega
  | node l x r => simp [hasPath] at this; simp; omega

theorem shape_empty : Shape (Tree.nil : Tree α) 0 := by
  intro p
  have := idx_pos p
  constructor
  · intro h; exact absurd h (hasPath_nil _)
  · intro h; omega

/-! ### `heap_insert`: shape -/

theorem bubble_paths (gt : α → α → Bool) (x : α) (c : Tree α) (fl : Bool) (y : α) (q : List Bool) :
    hasPath (bubble gt x c fl y).1 q ↔ hasPath c q := by
  unfold bubble
  split
  · cases q with
    | nil => simp [hasPath]
    | cons b q => cases b <;> simp [hasPath]
  · exact Iff.rfl

theorem insAt_paths (gt : α → α → Bool) (x : α) : ∀ (p : List Bool) (t t' : Tree α) (fl : Bool),
    insAt gt x p t = some (t', fl) → ∀ q, hasPath t' q ↔ (hasPath t q ∨ q = p) := by
  intro p
  induction p with
  | nil =>
    intro t t' fl h q
    cases t with
    | nil =>
      simp only [insAt, Option.some.injEq, Prod.mk.injEq] at h
      rw [← h.1]
      cases q with
      | nil => simp [hasPath]
      | cons b q => cases b <;> simp [hasPath]
    | node l y r => simp [insAt] at h
  | cons b p ih =>
    intro t t' fl h q
    cases t with
    | nil => simp [insAt] at h
    | node l y r =>
      cases b with
      | false =>
        simp only [insAt] at h
        split at h
        · cases h
        · rename_i l' fl0 hl
          simp only [Option.some.injEq, Prod.mk.injEq] at h
          rw [← h.1]
          cases q with
          | nil => simp [hasPath]
          | cons c q =>
            cases c
            · simp only [hasPath, bubble_paths, ih l l' fl0 hl q, List.cons.injEq, true_and]
            · simp [hasPath]
      | true =>
        simp only [insAt] at h
        split at h
        · cases h
        · rename_i r' fl0 hr
          simp only [Option.some.injEq, Prod.mk.injEq] at h
          rw [← h.1]
          cases q with
          | nil => simp [hasPath]
          | cons c q =>
            cases c
            · simp [hasPath]
            · simp only [hasPath, bubble_paths, ih r r' fl0 hr q, List.cons.injEq, true_and]

/-- The insertion walk cannot `die` when the parent exists and the slot is free. -/
theorem insAt_some (gt : α → α → Bool) (x : α) (b : Bool) : ∀ (p : List Bool) (t : Tree α),
    hasPath t p → ¬ hasPath t (p ++ [b]) → ∃ r, insAt gt x (p ++ [b]) t = some r := by
  intro p
  induction p with
  | nil =>
    intro t h1 h2
    cases t with
    | nil => exact absurd h1 (hasPath_nil _)
    | node l y r =>
      cases b with
      | false =>
        cases l with
        | nil => simp [insAt]
        | node _ _ _ => simp [hasPath] at h2
      | true =>
        cases r with
        | nil => simp [insAt]
        | node _ _ _ => simp [hasPath] at h2
  | cons c p ih =>
    intro t h1 h2
    cases t with
    | nil => exact absurd h1 (hasPath_nil _)
    | node l y r =>
      cases c with
      | false =>
        obtain ⟨r0, hr0⟩ := ih l h1 h2
        simp [insAt, hr0]
      | true =>
        obtain ⟨r0, hr0⟩ := ih r h1 h2
        simp [insAt, hr0]

/-- `heap_insert` on a well-shaped heap never dies and yields the shape of `n+1`. -/
theorem insert_shape (gt : α → α → Bool) (h : Heap α) (x : α) (hs : Shape h.root h.size) :
    ∃ h', insert gt h x = some h' ∧ h'.size = h.size + 1 ∧ Shape h'.root h'.size ∧
      ((h.root = .nil ∧ h'.root = .node .nil x .nil) ∨
       (∃ p fl, insAt gt x p h.root = some (h'.root, fl))) := by
  unfold insert
  cases hr : h.root with
  | nil =>
    have hz : h.size = 0 := (shape_nil_iff hs).1 hr
    refine ⟨_, rfl, rfl, ?_, Or.inl ⟨rfl, rfl⟩⟩
    intro q
    simp only [hz]
    cases q with
    | nil => simp [hasPath, idx_nil]
    | cons b q =>
      have : 2 ≤ idx (b :: q) := by
        have := idxFrom_ge q (2 * 1 + (if b then 1 else 0))
        simp only [idx, idxFrom, List.foldl_cons] at this ⊢
        omega
      cases b <;> simp [hasPath] <;> omega
  | node l y r =>
    have hn : 1 ≤ h.size := by
      have := shape_nil_iff hs
      rw [hr] at this
      simp at this; omega
    simp only
    rw [← hr]
    have hnz : ¬ ((h.size + 1) / 2 = 0) := by omega
    simp only [hnz, if_false]
    have hpe : path ((h.size + 1) / 2) ++ [decide ((h.size + 1) % 2 = 1)] = path (h.size + 1) :=
      (path_step (h.size + 1) (by omega)).symm
    have hpar : hasPath h.root (path ((h.size + 1) / 2)) := by
      rw [hs, idx_path _ (by omega)]; omega
    have hfree : ¬ hasPath h.root (path ((h.size + 1) / 2) ++ [decide ((h.size + 1) % 2 = 1)]) := by
      rw [hpe, hs, idx_path _ (by omega)]; omega
    obtain ⟨⟨t', fl⟩, hins⟩ := insAt_some gt x _ _ _ hpar hfree
    rw [hins]
    refine ⟨_, rfl, rfl, ?_, Or.inr ⟨_, fl, hins⟩⟩
    intro q
    simp only
    rw [insAt_paths gt x _ _ _ _ hins q, hpe, hs q, ← idx_eq_iff q (h.size + 1) (by omega)]
    omega

/-! ### `heap_insert`: the new element, multiset and heap order -/

theorem bubble_swap (gt : α → α → Bool) (x : α) (cl cr : Tree α) (z y : α) (fl : Bool)
    (h : (fl && gt x y) = true) :
    bubble gt x (.node cl z cr) fl y = (.node cl y cr, x, true) := by
  simp [bubble, h]

theorem bubble_stay (gt : α → α → Bool) (x : α) (c : Tree α) (y : α) (fl : Bool)
    (h : ¬ (fl && gt x y) = true) : bubble gt x c fl y = (c, y, false) := by
  unfold bubble
  split
  · rename_i h'; exact absurd h' h
  · rfl

/-- While the flag is up, the new element is the root of the rebuilt subtree. -/
theorem insAt_root (gt : α → α → Bool) (x : α) : ∀ (p : List Bool) (t t' : Tree α) (fl : Bool),
    insAt gt x p t = some (t', fl) → ∃ cl z cr, t' = .node cl z cr ∧ (fl = true → z = x) := by
  intro p
  induction p with
  | nil =>
    intro t t' fl h
    cases t with
    | nil =>
      simp only [insAt, Option.some.injEq, Prod.mk.injEq] at h
      exact ⟨.nil, x, .nil, h.1.symm, fun _ => rfl⟩
    | node l y r => simp [insAt] at h
  | cons b p ih =>
    intro t t' fl h
    cases t with
    | nil => simp [insAt] at h
    | node l y r =>
      cases b with
      | false =>
        simp only [insAt] at h
        split at h
        · cases h
        · rename_i l' fl0 hl
          simp only [Option.some.injEq, Prod.mk.injEq] at h
          obtain ⟨cl, z, cr, e, hz⟩ := ih l l' fl0 hl
          subst e
          by_cases hc : (fl0 && gt x y) = true
          · rw [bubble_swap gt x cl cr z y fl0 hc] at h
            exact ⟨_, _, _, h.1.symm, fun _ => rfl⟩
          · rw [bubble_stay gt x _ y fl0 hc] at h
            refine ⟨_, _, _, h.1.symm, fun hf => ?_⟩
            rw [← h.2] at hf; cases hf
      | true =>
        simp only [insAt] at h
        split at h
        · cases h
        · rename_i r' fl0 hl
          simp only [Option.some.injEq, Prod.mk.injEq] at h
          obtain ⟨cl, z, cr, e, hz⟩ := ih r r' fl0 hl
          subst e
          by_cases hc : (fl0 && gt x y) = true
          · rw [bubble_swap gt x cl cr z y fl0 hc] at h
            exact ⟨_, _, _, h.1.symm, fun _ => rfl⟩
          · rw [bubble_stay gt x _ y fl0 hc] at h
            refine ⟨_, _, _, h.1.symm, fun hf => ?_⟩
            rw [← h.2] at hf; cases hf

theorem insAt_perm (gt : α → α → Bool) (x : α) : ∀ (p : List Bool) (t t' : Tree α) (fl : Bool),
    insAt gt x p t = some (t', fl) → t'.toList.Perm (x :: t.toList) := by
  intro p
  induction p with
  | nil =>
    intro t t' fl h
    cases t with
    | nil =>
      simp only [insAt, Option.some.injEq, Prod.mk.injEq] at h
      rw [← h.1]; exact List.Perm.refl _
    | node l y r => simp [insAt] at h
  | cons b p ih =>
    intro t t' fl h
    cases t with
    | nil => simp [insAt] at h
    | node l y r =>
      cases b with
      | false =>
        simp only [insAt] at h
        split at h
        · cases h
        · rename_i l' fl0 hl
          simp only [Option.some.injEq, Prod.mk.injEq] at h
          have hp := ih l l' fl0 hl
          obtain ⟨cl, z, cr, e, hz⟩ := insAt_root gt x p l l' fl0 hl
          subst e
          by_cases hc : (fl0 && gt x y) = true
          · rw [bubble_swap gt x cl cr z y fl0 hc] at h
            have hf : fl0 = true := by cases fl0 <;> simp_all
            have := hz hf; subst this
            rw [← h.1]
            simp only [Tree.toList, List.cons_append] at hp ⊢
            have hp' := (List.Perm.cons_inv hp)
            exact List.Perm.cons _ (List.Perm.cons _ (List.Perm.append_right _ hp'))
          · rw [bubble_stay gt x _ y fl0 hc] at h
            rw [← h.1]
            simp only [Tree.toList] at hp ⊢
            exact (List.Perm.cons _ (List.Perm.append_right _ hp)).trans (List.Perm.swap _ _ _)
      | true =>
        simp only [insAt] at h
        split at h
        · cases h
        · rename_i r' fl0 hl
          simp only [Option.some.injEq, Prod.mk.injEq] at h
          have hp := ih r r' fl0 hl
          obtain ⟨cl, z, cr, e, hz⟩ := insAt_root gt x p r r' fl0 hl
          subst e
          by_cases hc : (fl0 && gt x y) = true
          · rw [bubble_swap gt x cl cr z y fl0 hc] at h
            have hf : fl0 = true := by cases fl0 <;> simp_all
            have := hz hf; subst this
            rw [← h.1]
            simp only [Tree.toList] at hp ⊢
            have hp' := (List.Perm.cons_inv hp)
            refine List.Perm.cons _ ?_
            exact (List.Perm.append_left _ ((List.Perm.cons y hp'))).trans List.perm_middle
          · rw [bubble_stay gt x _ y fl0 hc] at h
            rw [← h.1]
            simp only [Tree.toList] at hp ⊢
            refine (List.Perm.cons _ (List.Perm.append_left _ hp)).trans ?_
            exact (List.Perm.cons _ List.perm_middle).trans (List.Perm.swap _ _ _)

/-! ### Heap order -/

/-- The root (if any) has a key not above `k`. -/
def rootLe (key : α → Int) (t : Tree α) (k : Int) : Prop := ∀ x, t.rootVal = some x → key x ≤ k

/-- Max-heap order: no child is above its parent (in `key`). -/
def Ordered (key : α → Int) : Tree α → Prop
  | .nil => True
  | .node l x r => rootLe key l (key x) ∧ rootLe key r (key x) ∧ Ordered key l ∧ Ordered key r

theorem rootLe_nil (key : α → Int) (k : Int) : rootLe key (.nil : Tree α) k := by
  intro x h; cases h

theorem rootLe_node (key : α → Int) (l r : Tree α) (x : α) (k : Int) :
    rootLe key (.node l x r) k ↔ key x ≤ k := by
  constructor
  · intro h; exact h x rfl
  · intro h y hy; cases hy; exact h

theorem rootLe_mono (key : α → Int) (t : Tree α) (a b : Int) (h : rootLe key t a) (hab : a ≤ b) :
    rootLe key t b := fun x hx => Int.le_trans (h x hx) hab

/-- The comparison handed to the heap is "strictly greater key". -/
def GtKey (gt : α → α → Bool) (key : α → Int) : Prop := ∀ a b, gt a b = true ↔ key b < key a

theorem insAt_ordered (gt : α → α → Bool) (key : α → Int) (hgt : GtKey gt key) (x : α) :
    ∀ (p : List Bool) (t t' : Tree α) (fl : Bool), Ordered key t → insAt gt x p t = some (t', fl) →
      Ordered key t' ∧ (fl = false → ∀ b, rootLe key t b → rootLe key t' b) ∧
      (fl = true → ∃ cl cr, t' = .node cl x cr ∧ ∀ b, rootLe key t b → rootLe key cl b ∧ rootLe key cr b) := by
  intro p
  induction p with
  | nil =>
    intro t t' fl ho h
    cases t with
    | nil =>
      simp only [insAt, Option.some.injEq, Prod.mk.injEq] at h
      rw [← h.1, ← h.2]
      refine ⟨⟨rootLe_nil _ _, rootLe_nil _ _, trivial, trivial⟩, (fun hf => by cases hf), fun _ => ?_⟩
      exact ⟨_, _, rfl, fun b _ => ⟨rootLe_nil _ _, rootLe_nil _ _⟩⟩
    | node l y r => simp [insAt] at h
  | cons c p ih =>
    intro t t' fl ho h
    cases t with
    | nil => simp [insAt] at h
    | node l y r =>
      obtain ⟨hl, hr, hol, hor⟩ := ho
      cases c with
      | false =>
        simp only [insAt] at h
        split at h
        · cases h
        · rename_i l' fl0 hins
          simp only [Option.some.injEq, Prod.mk.injEq] at h
          obtain ⟨ho', hA, hB⟩ := ih l l' fl0 hol hins
          obtain ⟨cl, z, cr, e, hz⟩ := insAt_root gt x p l l' fl0 hins
          subst e
          by_cases hc : (fl0 && gt x y) = true
          · rw [bubble_swap gt x cl cr z y fl0 hc] at h
            dsimp only at h
            have hf : fl0 = true := by cases fl0 <;> simp_all
            have hg : key y < key x := (hgt x y).1 (by simpa [hf] using hc)
            obtain ⟨cl', cr', e', hB'⟩ := hB hf
            cases e'
            obtain ⟨h1, h2, h3, h4⟩ := ho'
            rw [← h.1, ← h.2]
            refine ⟨⟨?_, ?_, ⟨(hB' _ hl).1, (hB' _ hl).2, h3, h4⟩, hor⟩, (fun hf' => by cases hf'), fun _ => ?_⟩
            · rw [rootLe_node]; omega
            · exact rootLe_mono key r _ _ hr (by omega)
            · refine ⟨_, _, rfl, fun b hb => ?_⟩
              rw [rootLe_node] at hb
              exact ⟨by rw [rootLe_node]; exact hb, rootLe_mono key r _ _ hr hb⟩
          · rw [bubble_stay gt x _ y fl0 hc] at h
            dsimp only at h
            rw [← h.1, ← h.2]
            refine ⟨⟨?_, hr, ho', hor⟩, fun _ b hb => ?_, (fun hf' => by cases hf')⟩
            · cases hf : fl0 with
              | false => exact hA hf _ hl
              | true =>
                obtain ⟨cl', cr', e', _⟩ := hB hf
                cases e'
                have : ¬ key y < key x := fun hk => hc (by simp [hf, (hgt x y).2 hk])
                rw [rootLe_node]; omega
            · rw [rootLe_node] at hb ⊢; exact hb
      | true =>
        simp only [insAt] at h
        split at h
        · cases h
        · rename_i r' fl0 hins
          simp only [Option.some.injEq, Prod.mk.injEq] at h
          obtain ⟨ho', hA, hB⟩ := ih r r' fl0 hor hins
          obtain ⟨cl, z, cr, e, hz⟩ := insAt_root gt x p r r' fl0 hins
          subst e
          by_cases hc : (fl0 && gt x y) = true
          · rw [bubble_swap gt x cl cr z y fl0 hc] at h
            dsimp only at h
            have hf : fl0 = true := by cases fl0 <;> simp_all
            have hg : key y < key x := (hgt x y).1 (by simpa [hf] using hc)
            obtain ⟨cl', cr', e', hB'⟩ := hB hf
            cases e'
            obtain ⟨h1, h2, h3, h4⟩ := ho'
            rw [← h.1, ← h.2]
            refine ⟨⟨?_, ?_, hol, ⟨(hB' _ hr).1, (hB' _ hr).2, h3, h4⟩⟩, (fun hf' => by cases hf'), fun _ => ?_⟩
            · exact rootLe_mono key l _ _ hl (by omega)
            · rw [rootLe_node]; omega
            · refine ⟨_, _, rfl, fun b hb => ?_⟩
              rw [rootLe_node] at hb
              exact ⟨rootLe_mono key l _ _ hl hb, by rw [rootLe_node]; exact hb⟩
          · rw [bubble_stay gt x _ y fl0 hc] at h
            dsimp only at h
            rw [← h.1, ← h.2]
            refine ⟨⟨hl, ?_, hol, ho'⟩, fun _ b hb => ?_, (fun hf' => by cases hf')⟩
            · cases hf : fl0 with
              | false => exact hA hf _ hr
              | true =>
                obtain ⟨cl', cr', e', _⟩ := hB hf
                cases e'
                have : ¬ key y < key x := fun hk => hc (by simp [hf, (hgt x y).2 hk])
                rw [rootLe_node]; omega
            · rw [rootLe_node] at hb ⊢; exact hb

/-- Every element is below the root of an ordered tree. -/
theorem ordered_le_root (key : α → Int) : ∀ (t : Tree α), Ordered key t →
    ∀ k, rootLe key t k → ∀ y ∈ t.toList, key y ≤ k := by
  intro t
  induction t with
  | nil => intro _ k _ y hy; cases hy
  | node l x r ihl ihr =>
    intro ho k hk y hy
    obtain ⟨hl, hr, hol, hor⟩ := ho
    rw [rootLe_node] at hk
    simp only [Tree.toList, List.mem_cons, List.mem_append] at hy
    rcases hy with rfl | hy | hy
    · exact hk
    · exact ihl hol k (rootLe_mono key l _ _ hl hk) y hy
    · exact ihr hor k (rootLe_mono key r _ _ hr hk) y hy

/-! ### `heap_max_heapify` -/

theorem rootVal_some {t : Tree α} {a : α} (h : t.rootVal = some a) : ∃ l r, t = .node l a r := by
  cases t with
  | nil => cases h
  | node l x r => cases h; exact ⟨l, r, rfl⟩

/-- The three outcomes of one `heap_max_heapify` call, with the comparisons
    that led there. -/
theorem sift_cases (gt : α → α → Bool) (l r : Tree α) (y x : α) :
    (sift gt (.node l y r) x = .node l x r ∧ (∀ lx, l.rootVal = some lx → gt lx x = false) ∧
      (∀ rx, r.rootVal = some rx → gt rx x = false)) ∨
    (∃ lx, l.rootVal = some lx ∧ gt lx x = true ∧ (∀ rx, r.rootVal = some rx → gt rx lx = false) ∧
      sift gt (.node l y r) x = .node (sift gt l x) lx r) ∨
    (∃ rx, r.rootVal = some rx ∧
      ((∃ lx, l.rootVal = some lx ∧ gt lx x = true ∧ gt rx lx = true) ∨
       ((∀ lx, l.rootVal = some lx → gt lx x = false) ∧ gt rx x = true)) ∧
      sift gt (.node l y r) x = .node l rx (sift gt r x)) := by
  rw [sift]
  split
  · rename_i h1 h2
    left; simp [h1, h2]
  · rename_i lx h1 h2
    by_cases hg : gt lx x = true
    · right; left; exact ⟨lx, h1, hg, by simp [h2], by simp [hg]⟩
    · left; simp [h1, h2, hg]
  · rename_i rx h1 h2
    by_cases hg : gt rx x = true
    · right; right; exact ⟨rx, h2, Or.inr ⟨by simp [h1], hg⟩, by simp [hg]⟩
    · left; simp [h1, h2, hg]
  · rename_i lx rx h1 h2
    by_cases hg : gt lx x = true
    · by_cases hg2 : gt rx lx = true
      · right; right; exact ⟨rx, h2, Or.inl ⟨lx, h1, hg, hg2⟩, by simp [hg, hg2]⟩
      · right; left; refine ⟨lx, h1, hg, ?_, by simp [hg, hg2]⟩
        intro rx' e; rw [h2] at e; cases e; simpa using hg2
    · by_cases hg3 : gt rx x = true
      · right; right; refine ⟨rx, h2, Or.inr ⟨?_, hg3⟩, by simp [hg, hg3]⟩
        intro lx' e; rw [h1] at e; cases e; simpa using hg
      · left; simp [h1, h2, hg, hg3]

theorem sift_paths (gt : α → α → Bool) : ∀ (t : Tree α) (x : α) (q : List Bool),
    hasPath (sift gt t x) q ↔ hasPath t q := by
  intro t
  induction t with
  | nil => intro x q; simp [sift]
  | node l y r ihl ihr =>
    intro x q
    rcases sift_cases gt l r y x with ⟨e, _, _⟩ | ⟨lx, _, _, _, e⟩ | ⟨rx, _, _, e⟩ <;> rw [e]
    · cases q with
      | nil => simp [hasPath]
      | cons b q => cases b <;> simp [hasPath]
    · cases q with
      | nil => simp [hasPath]
      | cons b q => cases b <;> simp [hasPath, ihl]
    · cases q with
      | nil => simp [hasPath]
      | cons b q => cases b <;> simp [hasPath, ihr]

/-- The elements below the root. -/
def kids : Tree α → List α
  | .nil => []
  | .node l _ r => l.toList ++ r.toList

theorem toList_of_rootVal {t : Tree α} {a : α} (h : t.rootVal = some a) : t.toList = a :: kids t := by
  obtain ⟨l, r, rfl⟩ := rootVal_some h; rfl

theorem sift_perm (gt : α → α → Bool) : ∀ (t : Tree α) (x : α), t ≠ .nil →
    (sift gt t x).toList.Perm (x :: kids t) := by
  intro t
  induction t with
  | nil => intro x h; exact absurd rfl h
  | node l y r ihl ihr =>
    intro x _
    rcases sift_cases gt l r y x with ⟨e, _, _⟩ | ⟨lx, hl, _, _, e⟩ | ⟨rx, hr, _, e⟩ <;> rw [e]
    · exact List.Perm.refl _
    · have hne : l ≠ .nil := by intro h; rw [h] at hl; cases hl
      have := ihl x hne
      simp only [Tree.toList, kids, toList_of_rootVal hl]
      refine (List.Perm.cons _ (List.Perm.append_right _ this)).trans ?_
      exact List.Perm.swap _ _ _
    · have hne : r ≠ .nil := by intro h; rw [h] at hr; cases hr
      have := ihr x hne
      simp only [Tree.toList, kids, toList_of_rootVal hr]
      refine (List.Perm.cons _ (List.Perm.append_left _ this)).trans ?_
      refine (List.Perm.cons _ List.perm_middle).trans ?_
      refine (List.Perm.swap _ _ _).trans ?_
      exact List.Perm.cons _ (List.perm_middle.symm)

/-- `heap_max_heapify` restores the order when both subtrees are ordered. -/
theorem sift_ordered (gt : α → α → Bool) (key : α → Int) (hgt : GtKey gt key) :
    ∀ (t : Tree α) (x : α) (l : Tree α) (y : α) (r : Tree α), t = .node l y r →
      Ordered key l → Ordered key r →
      Ordered key (sift gt t x) ∧
      ∀ b, key x ≤ b → rootLe key l b → rootLe key r b → rootLe key (sift gt t x) b := by
  intro t
  induction t with
  | nil => intro x l y r h; cases h
  | node l0 y0 r0 ihl ihr =>
    intro x l y r h hol hor
    simp only [Tree.node.injEq] at h
    obtain ⟨rfl, rfl, rfl⟩ := h
    have le_of_not (a b : α) (h : gt a b = false) : key a ≤ key b := by
      have h1 : ¬ key b < key a := fun hk => by
        have := (hgt a b).2 hk
        rw [h] at this; cases this
      omega
    rcases sift_cases gt l0 r0 y0 x with ⟨e, h1, h2⟩ | ⟨lx, hl, hg, h2, e⟩ | ⟨rx, hr, hc, e⟩ <;> rw [e]
    · refine ⟨⟨fun a ha => le_of_not _ _ (h1 a ha), fun a ha => le_of_not _ _ (h2 a ha), hol, hor⟩, ?_⟩
      intro b hb _ _; rw [rootLe_node]; exact hb
    · obtain ⟨ll, lr, rfl⟩ := rootVal_some hl
      obtain ⟨k1, k2, k3, k4⟩ := hol
      have hx : key x < key lx := (hgt lx x).1 hg
      obtain ⟨o1, o2⟩ := ihl x ll lx lr rfl k3 k4
      refine ⟨⟨o2 _ (by omega) k1 k2, fun a ha => le_of_not _ _ (h2 a ha), o1, hor⟩, ?_⟩
      intro b _ hlb _
      rw [rootLe_node] at hlb ⊢; exact hlb
    · obtain ⟨rl, rr, rfl⟩ := rootVal_some hr
      obtain ⟨k1, k2, k3, k4⟩ := hor
      have hx : key x < key rx ∧ ∀ a, l0.rootVal = some a → key a ≤ key rx := by
        rcases hc with ⟨lx, hl, g1, g2⟩ | ⟨g1, g2⟩
        · have a1 := (hgt lx x).1 g1
          have a2 := (hgt rx lx).1 g2
          refine ⟨by omega, fun a ha => ?_⟩
          rw [hl] at ha; cases ha; omega
        · have a2 := (hgt rx x).1 g2
          refine ⟨a2, fun a ha => ?_⟩
          have := le_of_not _ _ (g1 a ha); omega
      obtain ⟨o1, o2⟩ := ihr x rl rx rr rfl k3 k4
      refine ⟨⟨hx.2, o2 _ (by omega) k1 k2, hol, o1⟩, ?_⟩
      intro b _ _ hrb
      rw [rootLe_node] at hrb ⊢; exact hrb

/-! ### Detaching the last node -/

theorem removeLeaf_some : ∀ (p : List Bool) (t : Tree α), hasPath t p →
    ¬ hasPath t (p ++ [false]) → ¬ hasPath t (p ++ [true]) → ∃ c t', removeLeaf p t = some (c, t') := by
  intro p
  induction p with
  | nil =>
    intro t h h1 h2
    cases t with
    | nil => exact absurd h (hasPath_nil _)
    | node l x r =>
      cases l with
      | node _ _ _ => simp [hasPath] at h1
      | nil =>
        cases r with
        | node _ _ _ => simp [hasPath] at h2
        | nil => exact ⟨x, .nil, rfl⟩
  | cons b p ih =>
    intro t h h1 h2
    cases t with
    | nil => exact absurd h (hasPath_nil _)
    | node l x r =>
      cases b with
      | false =>
        obtain ⟨c, t', e⟩ := ih l h h1 h2
        exact ⟨c, .node t' x r, by simp [removeLeaf, e]⟩
      | true =>
        obtain ⟨c, t', e⟩ := ih r h h1 h2
        exact ⟨c, .node l x t', by simp [removeLeaf, e]⟩

theorem removeLeaf_nil_inv {t : Tree α} {c : α} {t' : Tree α} (h : removeLeaf [] t = some (c, t')) :
    t = .node .nil c .nil ∧ t' = .nil := by
  cases t with
  | nil => simp [removeLeaf] at h
  | node l x r =>
    cases l with
    | node _ _ _ => simp [removeLeaf] at h
    | nil =>
      cases r with
      | node _ _ _ => simp [removeLeaf] at h
      | nil =>
        simp only [removeLeaf, Option.some.injEq, Prod.mk.injEq] at h
        rw [h.1, h.2]; exact ⟨rfl, rfl⟩

theorem removeLeaf_paths : ∀ (p : List Bool) (t : Tree α) (c : α) (t' : Tree α),
    removeLeaf p t = some (c, t') → ∀ q, hasPath t' q ↔ (hasPath t q ∧ q ≠ p) := by
  intro p
  induction p with
  | nil =>
    intro t c t' h q
    obtain ⟨rfl, rfl⟩ := removeLeaf_nil_inv h
    cases q with
    | nil => simp [hasPath]
    | cons b q => cases b <;> simp [hasPath]
  | cons b p ih =>
    intro t c t' h q
    cases t with
    | nil => simp [removeLeaf] at h
    | node l x r =>
      cases b with
      | false =>
        simp only [removeLeaf] at h
        split at h
        · rename_i c0 l' e
          simp only [Option.some.injEq, Prod.mk.injEq] at h
          rw [← h.2]
          cases q with
          | nil => simp [hasPath]
          | cons d q => cases d <;> simp [hasPath, ih l c0 l' e q]
        · cases h
      | true =>
        simp only [removeLeaf] at h
        split at h
        · rename_i c0 r' e
          simp only [Option.some.injEq, Prod.mk.injEq] at h
          rw [← h.2]
          cases q with
          | nil => simp [hasPath]
          | cons d q => cases d <;> simp [hasPath, ih r c0 r' e q]
        · cases h

theorem removeLeaf_perm : ∀ (p : List Bool) (t : Tree α) (c : α) (t' : Tree α),
    removeLeaf p t = some (c, t') → t.toList.Perm (c :: t'.toList) := by
  intro p
  induction p with
  | nil =>
    intro t c t' h
    obtain ⟨rfl, rfl⟩ := removeLeaf_nil_inv h
    exact List.Perm.refl _
  | cons b p ih =>
    intro t c t' h
    cases t with
    | nil => simp [removeLeaf] at h
    | node l x r =>
      cases b with
      | false =>
        simp only [removeLeaf] at h
        split at h
        · rename_i c0 l' e
          simp only [Option.some.injEq, Prod.mk.injEq] at h
          rw [← h.2, ← h.1]
          simp only [Tree.toList]
          exact (List.Perm.cons _ (List.Perm.append_right _ (ih l c0 l' e))).trans (List.Perm.swap _ _ _)
        · cases h
      | true =>
        simp only [removeLeaf] at h
        split at h
        · rename_i c0 r' e
          simp only [Option.some.injEq, Prod.mk.injEq] at h
          rw [← h.2, ← h.1]
          simp only [Tree.toList]
          refine (List.Perm.cons _ (List.Perm.append_left _ (ih r c0 r' e))).trans ?_
          exact (List.Perm.cons _ List.perm_middle).trans (List.Perm.swap _ _ _)
        · cases h

theorem removeLeaf_ordered (key : α → Int) : ∀ (p : List Bool) (t : Tree α) (c : α) (t' : Tree α),
    Ordered key t → removeLeaf p t = some (c, t') →
    Ordered key t' ∧ ∀ b, rootLe key t b → rootLe key t' b := by
  intro p
  induction p with
  | nil =>
    intro t c t' _ h
    obtain ⟨rfl, rfl⟩ := removeLeaf_nil_inv h
    exact ⟨trivial, fun b _ => rootLe_nil _ _⟩
  | cons b p ih =>
    intro t c t' ho h
    cases t with
    | nil => simp [removeLeaf] at h
    | node l x r =>
      obtain ⟨hl, hr, hol, hor⟩ := ho
      cases b with
      | false =>
        simp only [removeLeaf] at h
        split at h
        · rename_i c0 l' e
          simp only [Option.some.injEq, Prod.mk.injEq] at h
          rw [← h.2]
          obtain ⟨o1, o2⟩ := ih l c0 l' hol e
          exact ⟨⟨o2 _ hl, hr, o1, hor⟩, fun b hb => by rw [rootLe_node] at hb ⊢; exact hb⟩
        · cases h
      | true =>
        simp only [removeLeaf] at h
        split at h
        · rename_i c0 r' e
          simp only [Option.some.injEq, Prod.mk.injEq] at h
          rw [← h.2]
          obtain ⟨o1, o2⟩ := ih r c0 r' hor e
          exact ⟨⟨hl, o2 _ hr, hol, o1⟩, fun b hb => by rw [rootLe_node] at hb ⊢; exact hb⟩
        · cases h

theorem removeLeaf_keeps_root (b : Bool) (p : List Bool) (l r : Tree α) (m c : α) (t' : Tree α)
    (h : removeLeaf (b :: p) (.node l m r) = some (c, t')) : ∃ l' r', t' = .node l' m r' := by
  cases b with
  | false =>
    simp only [removeLeaf] at h
    split at h
    · simp only [Option.some.injEq, Prod.mk.injEq] at h; exact ⟨_, _, h.2.symm⟩
    · cases h
  | true =>
    simp only [removeLeaf] at h
    split at h
    · simp only [Option.some.injEq, Prod.mk.injEq] at h; exact ⟨_, _, h.2.symm⟩
    · cases h

/-! ### `heap_pop_max` on a well-shaped heap -/

theorem hasPath_root (t : Tree α) : hasPath t [] ↔ t ≠ .nil := by
  cases t <;> simp [hasPath]

theorem sift_root_irrel (gt : α → α → Bool) (l r : Tree α) (a b x : α) :
    sift gt (.node l a r) x = sift gt (.node l b r) x := by
  rw [sift, sift]

theorem shape_size_pos {t : Tree α} {n : Nat} (hs : Shape t n) {l r : Tree α} {m : α}
    (hr : t = .node l m r) : 1 ≤ n := by
  have := shape_nil_iff hs
  rw [hr] at this
  simp at this; omega

/-- On a well-shaped non-empty heap `heap_pop_max` never dies, returns the
    root, and the new tree is: empty (size 1), or the tree with its last node
    detached and that node's element floated down from the root. -/
theorem popMax_shape (gt : α → α → Bool) (h : Heap α) (l r : Tree α) (m : α)
    (hs : Shape h.root h.size) (hr : h.root = .node l m r) :
    ∃ t', popMax gt h = some (some m, ⟨t', h.size - 1⟩) ∧
      ((h.size = 1 ∧ t' = .nil) ∨
       (2 ≤ h.size ∧ ∃ c l' r', removeLeaf (path h.size) (.node l m r) = some (c, .node l' m r') ∧
          t' = sift gt (.node l' m r') c)) := by
  have hn : 1 ≤ h.size := shape_size_pos hs hr
  have hidx := idx_path h.size hn
  have hsz : ¬ h.size = 0 := by omega
  rw [hr] at hs
  unfold popMax
  rw [hr]
  simp only [hsz, if_false]
  generalize path h.size = p at hidx
  rcases p with _ | ⟨b, _ | ⟨b2, rest⟩⟩
  · -- the root is the last node
    refine ⟨.nil, rfl, Or.inl ⟨?_, rfl⟩⟩
    rw [← hidx]; rfl
  · cases b with
    | false =>
      have h2 : h.size = 2 := by rw [← hidx]; rfl
      have p1 := hs [false]
      have p2 := hs [false, false]
      have p3 := hs [false, true]
      have p4 := hs [true]
      simp only [hasPath, hasPath_root, h2, show idx [false] = 2 from rfl,
        show idx [false, false] = 4 from rfl, show idx [false, true] = 5 from rfl,
        show idx [true] = 3 from rfl] at p1 p2 p3 p4
      cases l with
      | nil => simp at p1
      | node cl c cr =>
        simp only [hasPath, hasPath_root] at p2 p3
        have e1 : cl = .nil := by
          cases cl with
          | nil => rfl
          | node _ _ _ => simp at p2
        have e2 : cr = .nil := by
          cases cr with
          | nil => rfl
          | node _ _ _ => simp at p3
        have e3 : r = .nil := by
          cases r with
          | nil => rfl
          | node _ _ _ => simp at p4
        subst e1 e2 e3
        refine ⟨_, rfl, Or.inr ⟨by omega, c, .nil, .nil, ?_, ?_⟩⟩
        · simp [removeLeaf]
        · exact sift_root_irrel gt _ _ _ _ _
    | true =>
      have h2 : h.size = 3 := by rw [← hidx]; rfl
      have p2 := hs [true, false]
      have p3 := hs [true, true]
      have p4 := hs [true]
      simp only [hasPath, hasPath_root, h2, show idx [true, false] = 6 from rfl,
        show idx [true, true] = 7 from rfl, show idx [true] = 3 from rfl] at p2 p3 p4
      cases r with
      | nil => simp at p4
      | node cl c cr =>
        simp only [hasPath, hasPath_root] at p2 p3
        have e1 : cl = .nil := by
          cases cl with
          | nil => rfl
          | node _ _ _ => simp at p2
        have e2 : cr = .nil := by
          cases cr with
          | nil => rfl
          | node _ _ _ => simp at p3
        subst e1 e2
        refine ⟨_, rfl, Or.inr ⟨by omega, c, l, .nil, ?_, ?_⟩⟩
        · simp [removeLeaf]
        · exact sift_root_irrel gt _ _ _ _ _
  · have hge : 2 ≤ h.size := by
      have := idx_cons_ge b (b2 :: rest)
      omega
    have hp : hasPath (Tree.node l m r) (b :: b2 :: rest) := by rw [hs, hidx]; exact Nat.le_refl _
    have hc1 : ¬ hasPath (Tree.node l m r) ((b :: b2 :: rest) ++ [false]) := by
      rw [hs, idx_snoc, hidx]; simp; omega
    have hc2 : ¬ hasPath (Tree.node l m r) ((b :: b2 :: rest) ++ [true]) := by
      rw [hs, idx_snoc, hidx]; simp; omega
    obtain ⟨c, t', e⟩ := removeLeaf_some _ _ hp hc1 hc2
    obtain ⟨l', r', rfl⟩ := removeLeaf_keeps_root _ _ _ _ _ _ _ e
    refine ⟨sift gt (.node l' m r') c, ?_, Or.inr ⟨hge, c, l', r', e, rfl⟩⟩
    cases b <;> simp only [e]

/-! ### The two operations preserve the whole invariant -/

/-- `heap_insert`: never dies on a well-shaped heap; shape, order and
    multiset (old elements plus the new one) are maintained. -/
theorem insert_inv (gt : α → α → Bool) (key : α → Int) (hgt : GtKey gt key) (h : Heap α) (x : α)
    (hs : Shape h.root h.size) (ho : Ordered key h.root) :
    ∃ h', insert gt h x = some h' ∧ h'.size = h.size + 1 ∧ Shape h'.root h'.size ∧
      Ordered key h'.root ∧ h'.root.toList.Perm (x :: h.root.toList) := by
  obtain ⟨h', e, hsz, hs', hc⟩ := insert_shape gt h x hs
  refine ⟨h', e, hsz, hs', ?_⟩
  rcases hc with ⟨e1, e2⟩ | ⟨p, fl, hins⟩
  · rw [e1, e2]
    exact ⟨⟨rootLe_nil _ _, rootLe_nil _ _, trivial, trivial⟩, List.Perm.refl _⟩
  · exact ⟨(insAt_ordered gt key hgt x p _ _ fl ho hins).1, insAt_perm gt x p _ _ fl hins⟩

theorem popMax_empty (gt : α → α → Bool) (h : Heap α) (hr : h.root = .nil) :
    popMax gt h = some (none, h) := by
  unfold popMax; rw [hr]

/-- `heap_pop_max` on a non-empty well-shaped ordered heap: never dies,
    returns an element that is maximal among all elements, and leaves a
    well-shaped ordered heap holding exactly the other elements. -/
theorem popMax_inv (gt : α → α → Bool) (key : α → Int) (hgt : GtKey gt key) (h : Heap α)
    (hs : Shape h.root h.size) (ho : Ordered key h.root) (hne : h.root ≠ .nil) :
    ∃ m h', popMax gt h = some (some m, h') ∧ h'.size = h.size - 1 ∧ Shape h'.root h'.size ∧
      Ordered key h'.root ∧ h.root.toList.Perm (m :: h'.root.toList) ∧
      (∀ y ∈ h.root.toList, key y ≤ key m) := by
  cases hr : h.root with
  | nil => exact absurd hr hne
  | node l m r =>
    obtain ⟨t', e, hc⟩ := popMax_shape gt h l r m hs hr
    have hmax : ∀ y ∈ (Tree.node l m r).toList, key y ≤ key m := by
      rw [hr] at ho
      exact ordered_le_root key _ ho (key m) (by rw [rootLe_node]; exact Int.le_refl _)
    refine ⟨m, ⟨t', h.size - 1⟩, e, rfl, ?_, ?_, ?_, hmax⟩
    · -- shape
      rcases hc with ⟨h1, rfl⟩ | ⟨h2, c, l', r', hrm, rfl⟩
      · simp only [h1]; exact shape_empty
      · intro q
        simp only
        rw [sift_paths, removeLeaf_paths _ _ _ _ hrm q, ← hr, hs q]
        have := idx_eq_iff q h.size (by omega)
        constructor
        · intro ⟨a, b⟩
          have : idx q ≠ h.size := fun hh => b (this.1 hh)
          omega
        · intro a
          refine ⟨by omega, fun hh => ?_⟩
          have := this.2 hh
          omega
    · rcases hc with ⟨h1, rfl⟩ | ⟨h2, c, l', r', hrm, rfl⟩
      · trivial
      · rw [hr] at ho
        obtain ⟨o1, _⟩ := removeLeaf_ordered key _ _ _ _ ho hrm
        exact (sift_ordered gt key hgt _ c l' m r' rfl o1.2.2.1 o1.2.2.2).1
    · rcases hc with ⟨h1, rfl⟩ | ⟨h2, c, l', r', hrm, rfl⟩
      · -- size 1: no children
        rw [hr] at hs
        have p1 := hs [false]
        have p2 := hs [true]
        simp only [hasPath, hasPath_root, h1, show idx [false] = 2 from rfl,
          show idx [true] = 3 from rfl] at p1 p2
        have e1 : l = .nil := by
          cases l with
          | nil => rfl
          | node _ _ _ => simp at p1
        have e2 : r = .nil := by
          cases r with
          | nil => rfl
          | node _ _ _ => simp at p2
        subst e1 e2
        exact List.Perm.refl _
      · have p1 := removeLeaf_perm _ _ _ _ hrm
        have p2 := sift_perm gt (.node l' m r') c (by simp)
        simp only [Tree.toList, kids] at p1 p2 ⊢
        exact (p1.trans (List.Perm.swap _ _ _)).trans (List.Perm.cons _ p2.symm)

end Ovni.Heap
