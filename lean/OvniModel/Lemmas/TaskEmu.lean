import OvniModel.Lemmas.Task
/-! Helper lemmas for C07, event level: frame properties, the nesting invariant,
    the thread view invariant of `update_task`. -/
namespace Ovni.Task
open Spec

/-- What a task record keeps for ever. -/
def Task.same (T T' : Task) : Prop := T'.id = T.id ∧ T'.gid = T.gid ∧ T'.flags = T.flags ∧ T'.typeId = T.typeId

theorem bodyExecute_frame {σ σ' : Sys} {s t b : Nat} {B : Body} (h : bodyExecute σ s t b B = .ok σ') :
    σ'.tasks = σ.tasks ∧ σ'.types = σ.types := by
  obtain ⟨B1, _, _, _, _, rfl⟩ := bodyExecute_ok.1 h
  exact ⟨rfl, rfl⟩

theorem bodyPause_frame {σ σ' : Sys} {s t b : Nat} {B : Body} (h : bodyPause σ s t b B = .ok σ') :
    σ'.tasks = σ.tasks ∧ σ'.types = σ.types := by
  unfold bodyPause at h
  split at h
  · cases h
  · split at h
    · cases h
    · split at h
      · cases h
      · cases h; exact ⟨rfl, rfl⟩

theorem bodyResume_frame {σ σ' : Sys} {s t b : Nat} {B : Body} (h : bodyResume σ s t b B = .ok σ') :
    σ'.tasks = σ.tasks ∧ σ'.types = σ.types := by
  unfold bodyResume at h
  split at h
  · cases h
  · split at h
    · cases h
    · cases h; exact ⟨rfl, rfl⟩

theorem bodyEnd_frame {σ σ' : Sys} {s t b : Nat} {B : Body} (h : bodyEnd σ s t b B = .ok σ') :
    σ'.tasks = σ.tasks ∧ σ'.types = σ.types := by
  unfold bodyEnd at h
  split at h
  · cases h
  · split at h
    · cases h
    · cases h; exact ⟨rfl, rfl⟩

/-- Every operation keeps the known tasks, with their id, type and flags, and the known types. -/
theorem step_frame {σ σ' : Sys} {op : Op} (inv : Inv σ) (h : step σ op = .ok σ') :
    (∀ i T, σ.tasks i = some T → ∃ T', σ'.tasks i = some T' ∧ T.same T') ∧
    (∀ ty g, σ.types ty = some g → σ'.types ty = some g) := by
  have triv : ∀ {σ' : Sys}, σ'.tasks = σ.tasks ∧ σ'.types = σ.types →
      (∀ i T, σ.tasks i = some T → ∃ T', σ'.tasks i = some T' ∧ T.same T') ∧
      (∀ ty g, σ.types ty = some g → σ'.types ty = some g) := by
    intro σ' ⟨h1, h2⟩
    rw [h1, h2]
    exact ⟨fun i T hT => ⟨T, hT, rfl, rfl, rfl, rfl⟩, fun _ _ h => h⟩
  cases op with
  | typeCreate ty gid =>
    simp only [step, taskTypeCreate] at h
    split at h
    · cases h
    · split at h
      · cases h
      · split at h
        · cases h
        · rename_i hne _ _
          cases h
          refine ⟨fun i T hT => ⟨T, hT, rfl, rfl, rfl, rfl⟩, ?_⟩
          intro ty' g hg
          simp only [Sys.setType]
          split
          · subst_vars; rw [hg] at hne; simp at hne
          · exact hg
  | create ty t f =>
    simp only [step, taskCreate] at h
    split at h
    · cases h
    · rename_i hne
      split at h
      · cases h
      · cases h
        refine ⟨?_, fun _ _ h => h⟩
        intro i T hT
        refine ⟨T, ?_, rfl, rfl, rfl, rfl⟩
        simp only [Sys.setTask]
        split
        · subst_vars; rw [hT] at hne; simp at hne
        · exact hT
  | exec s t b =>
    simp only [step, taskExecute] at h
    split at h
    · cases h
    · rename_i T hT
      split at h
      · exact triv (bodyExecute_frame h)
      · split at h
        · cases h
        · rename_i σ1 B1 hc
          obtain ⟨h1, h2⟩ := bodyExecute_frame h
          rw [h1, h2]
          unfold createBody at hc
          split at hc
          · cases hc
          · split at hc
            · cases hc
            · cases hc
              refine ⟨?_, fun _ _ h => h⟩
              intro i Ti hTi
              simp only [Sys.setTask, Sys.setBody]
              split
              · rename_i hi
                have := inv.taskId t T hT
                subst hi
                rw [this] at hTi; rw [hT] at hTi; cases hTi
                exact ⟨_, rfl, rfl, rfl, rfl, rfl⟩
              · exact ⟨Ti, hTi, rfl, rfl, rfl, rfl⟩
  | pause s t b =>
    simp only [step, taskPause] at h
    split at h
    · cases h
    · split at h
      · cases h
      · exact triv (bodyPause_frame h)
  | resume s t b =>
    simp only [step, taskResume] at h
    split at h
    · cases h
    · split at h
      · cases h
      · exact triv (bodyResume_frame h)
  | end_ s t b =>
    simp only [step, taskEnd] at h
    split at h
    · cases h
    · split at h
      · cases h
      · exact triv (bodyEnd_frame h)

/-- Structural facts about reachable specification states (consequences of `Inv`). -/
structure AInv (a : Abs) : Prop where
  nodup : ∀ s, (a.stack s).Nodup
  memPhase : ∀ s t b, (t, b) ∈ a.stack s → a.phase t b = some .running ∨ a.phase t b = some .paused
  unique : ∀ s s' t b, (t, b) ∈ a.stack s → (t, b) ∈ a.stack s' → s = s'
  phaseFlags : ∀ t b p, a.phase t b = some p → ∃ f, a.flags t = some f

theorem ainv_of_inv {σ : Sys} (inv : Inv σ) : AInv (abs σ) := by
  constructor
  · exact inv.nodup
  · intro s t b hm
    obtain ⟨B, hB, hs⟩ := (inv.onStack t b s).1 hm
    have := (inv.stackState t b B hB).1 (by rw [hs]; simp)
    rw [abs_phase hB]
    rcases this with h | h <;> rw [h]
    · exact .inl rfl
    · exact .inr rfl
  · intro s s' t b h1 h2
    obtain ⟨B, hB, hs⟩ := (inv.onStack t b s).1 h1
    obtain ⟨B', hB', hs'⟩ := (inv.onStack t b s').1 h2
    rw [hB] at hB'; cases hB'; rw [hs] at hs'; cases hs'; rfl
  · intro t b p hp
    obtain ⟨B, hB, _⟩ := bodyOfPhase hp
    obtain ⟨_, _, T, hT, _⟩ := inv.body t b B hB
    exact ⟨T.flags, abs_flags.2 ⟨T, hT, rfl⟩⟩

/-- Nesting only over a paused body unless relaxed, as a state invariant: every
    body below another one in a thread's stack is paused, or its task relaxes
    the nesting rule. -/
def Below (a : Abs) : Prop :=
  ∀ s r rest, a.stack s = r :: rest → ∀ x ∈ rest,
    a.phase x.1 x.2 = some .paused ∨ ∃ f, a.flags x.1 = some f ∧ f.relax = true

theorem below_init : Below Abs.init := by
  intro s r rest h; simp [Abs.init] at h

theorem below_exec {a : Abs} {s t b : Nat} (ai : AInv a) (hb : Below a)
    (hnot : ∀ s', (t, b) ∉ a.stack s') (hcan : a.canStart s) :
    Below ((a.setPhase t b .running).setStack s ((t, b) :: a.stack s)) := by
  intro s0 r rest hst x hx
  have hxne : x ∈ a.stack s0 → x ≠ (t, b) := fun hm he => hnot s0 (he ▸ hm)
  simp only [Abs.setStack, Abs.setPhase] at hst ⊢
  by_cases hs : s0 = s
  · subst hs
    simp only [if_true, List.cons.injEq] at hst
    obtain ⟨rfl, rfl⟩ := hst
    have hne : ¬(x.1 = t ∧ x.2 = b) := fun h => hxne hx (Prod.ext h.1 h.2)
    rw [if_neg hne]
    cases hl : a.stack s0 with
    | nil => rw [hl] at hx; cases hx
    | cons x0 rest0 =>
      rw [hl] at hx
      rcases List.mem_cons.1 hx with rfl | hx'
      · have hm : (x.1, x.2) ∈ a.stack s0 := by rw [hl]; exact List.mem_cons_self
        rcases ai.memPhase s0 x.1 x.2 hm with hr | hp
        · right; exact hcan x.1 x.2 (by unfold Abs.isTop; rw [hl]; rfl) hr
        · left; exact hp
      · exact hb s0 x0 rest0 hl x hx'
  · rw [if_neg hs] at hst
    have hm : x ∈ a.stack s0 := by rw [hst]; exact List.mem_cons_of_mem _ hx
    have hne : ¬(x.1 = t ∧ x.2 = b) := fun h => hxne hm (Prod.ext h.1 h.2)
    rw [if_neg hne]
    exact hb s0 r rest hst x hx

theorem below_step {a a' : Abs} {op : Op} (ai : AInv a) (hb : Below a) (h : Step a op a') : Below a' := by
  cases h with
  | typeCreate _ _ => exact hb
  | @create ty t f hfl _ =>
    intro s r rest hst x hx
    rcases hb s r rest hst x hx with h | ⟨f0, hf0, hr⟩
    · exact .inl h
    · right
      refine ⟨f0, ?_, hr⟩
      simp only [Abs.addTask]
      split
      · rename_i he; rw [he, hfl] at hf0; cases hf0
      · exact hf0
  | execFirst _ _ hph _ hcan =>
    apply below_exec ai hb _ hcan
    intro s' hm
    rcases ai.memPhase s' _ _ hm with h | h <;> rw [hph] at h <;> cases h
  | execAgain _ hph _ hcan =>
    apply below_exec ai hb _ hcan
    intro s' hm
    rcases ai.memPhase s' _ _ hm with h | h <;> rw [hph] at h <;> cases h
  | @pause s t b f _ _ _ htop =>
    intro s0 r rest hst x hx
    simp only [Abs.setPhase] at hst ⊢
    split
    · exact .inl rfl
    · exact hb s0 r rest hst x hx
  | @resume s t b _ htop =>
    intro s0 r rest hst x hx
    simp only [Abs.setPhase] at hst ⊢
    have hne : ¬(x.1 = t ∧ x.2 = b) := by
      intro he
      have hx' : (t, b) ∈ rest := by rw [← he.1, ← he.2]; exact hx
      have hm0 : (t, b) ∈ a.stack s0 := by rw [hst]; exact List.mem_cons_of_mem _ hx'
      have hm : (t, b) ∈ a.stack s := List.mem_of_mem_head? (by unfold Abs.isTop at htop; rw [htop]; rfl)
      have := ai.unique s0 s t b hm0 hm
      subst this
      unfold Abs.isTop at htop
      rw [hst] at htop
      simp only [List.head?_cons, Option.some.injEq] at htop
      have nd := ai.nodup s0
      rw [hst, htop] at nd
      exact (List.nodup_cons.1 nd).1 hx'
    rw [if_neg hne]
    exact hb s0 r rest hst x hx
  | @end_ s t b _ htop =>
    intro s0 r rest hst x hx
    simp only [Abs.setPhase, Abs.setStack] at hst ⊢
    have hm : (t, b) ∈ a.stack s := List.mem_of_mem_head? (by unfold Abs.isTop at htop; rw [htop]; rfl)
    by_cases hs : s0 = s
    · subst hs
      rw [if_pos rfl] at hst
      cases hl : a.stack s0 with
      | nil => rw [hl] at hst; cases hst
      | cons y tl =>
        rw [hl] at hst
        simp only [List.tail_cons] at hst
        unfold Abs.isTop at htop
        rw [hl] at htop
        simp only [List.head?_cons, Option.some.injEq] at htop
        subst htop
        have nd := ai.nodup s0
        rw [hl, hst] at nd
        have hne : ¬(x.1 = t ∧ x.2 = b) := by
          intro he
          have hx' : (t, b) ∈ r :: rest := by rw [← he.1, ← he.2]; exact List.mem_cons_of_mem _ hx
          exact (List.nodup_cons.1 nd).1 hx'
        rw [if_neg hne]
        exact hb s0 (t, b) (r :: rest) (by rw [hl, hst]) x (List.mem_cons_of_mem _ hx)
    · rw [if_neg hs] at hst
      have hne : ¬(x.1 = t ∧ x.2 = b) := by
        intro he
        have hx' : (t, b) ∈ rest := by rw [← he.1, ← he.2]; exact hx
        have hm0 : (t, b) ∈ a.stack s0 := by rw [hst]; exact List.mem_cons_of_mem _ hx'
        exact hs (ai.unique s0 s t b hm0 hm)
      rw [if_neg hne]
      exact hb s0 r rest hst x hx
/-- `proc->rank + 1`, or null without rank -/
def rankVal (P : ProcInfo) : Option Int := if P.rank ≥ 0 then some (P.rank + 1) else none

/-- What a thread's task channels must show for a given running body. -/
def showVals (m : Model) (P : ProcInfo) (t gid b : Nat) : Chans :=
  match m with
  | .nosv => ⟨some t, some gid, some b, some P.appid, rankVal P⟩
  | .nanos6 => ⟨some t, some gid, none, none, rankVal P⟩

def viewOf (m : Model) (P : ProcInfo) : Option (Task × Body) → Chans
  | none => Chans.null
  | some (T, B) => showVals m P T.id T.gid B.id

theorem nanos6_dups : Cfg.nanos6.dupType = true ∧ Cfg.nanos6.dupRank = true := by decide

theorem nosv_body : Cfg.nosv.stTaskBody = 11 ∧ Cfg.nanos6.stTaskBody = 1 := ⟨rfl, rfl⟩

theorem chanSet_ok {dup : Bool} {cur v : Option Int} (h : dup = true ∨ cur ≠ v) :
    chanSet dup cur v = .ok v := by
  unfold chanSet
  rcases h with h | h
  · simp [h]
  · simp [h]

theorem chanShow_null (m : Model) (P : ProcInfo) (T : Task) (B : Body) :
    chanShow m P Chans.null T B = .ok (viewOf m P (some (T, B))) := by
  cases m <;>
  · simp only [chanShow, Chans.null, viewOf, showVals, rankVal]
    by_cases hr : P.rank ≥ 0 <;>
      simp [hr, chanSet_ok, bind, Except.bind, pure, Except.pure]

theorem chanStopped_view (m : Model) (P : ProcInfo) (T : Task) (B : Body) :
    chanStopped m P (viewOf m P (some (T, B))) = .ok Chans.null := by
  cases m <;>
  · simp only [chanStopped, Chans.null, viewOf, showVals, rankVal]
    by_cases hr : P.rank ≥ 0 <;>
      simp [hr, chanSet_ok, bind, Except.bind, pure, Except.pure]

theorem chanShow_switch6 (P : ProcInfo) (Tp T : Task) (Bp B : Body) (hne : Tp.id ≠ T.id) :
    chanShow .nanos6 P (viewOf .nanos6 P (some (Tp, Bp))) T B = .ok (viewOf .nanos6 P (some (T, B))) := by
  have hd := nanos6_dups
  have h1 : chanSet Cfg.nanos6.dupTaskid (some (Tp.id : Int)) (some (T.id : Int)) = .ok (some (T.id : Int)) :=
    chanSet_ok (.inr (by simp; omega))
  simp only [chanShow, viewOf, showVals, rankVal, Model.cfg]
  by_cases hr : P.rank ≥ 0 <;>
    simp [hr, h1, chanSet_ok, hd.1, hd.2, bind, Except.bind, pure, Except.pure]

/-- The running body of a thread in terms of keys. -/
theorem runningT_some {σ : Sys} (inv : Inv σ) {s : Nat} {T : Task} {B : Body} :
    σ.runningT s = some (T, B) ↔
      ∃ t b, (σ.stacks s).head? = some (t, b) ∧ σ.bodies t b = some B ∧ B.state = .running ∧
        σ.tasks t = some T := by
  unfold Sys.runningT Sys.running
  cases hh : (σ.stacks s).head? with
  | none => simp
  | some r =>
    obtain ⟨t, b⟩ := r
    cases hB : σ.bodies t b with
    | none => simp [hB]
    | some B0 =>
      by_cases hr : B0.state = .running
      · cases hT : σ.tasks t with
        | none =>
          obtain ⟨_, _, T0, hT0, _⟩ := inv.body t b B0 hB
          rw [hT] at hT0; cases hT0
        | some T0 =>
          simp only [hB, hr, if_true, hT, Option.some.injEq, Prod.mk.injEq]
          constructor
          · rintro ⟨rfl, rfl⟩; exact ⟨t, b, ⟨rfl, rfl⟩, hB, hr, hT⟩
          · rintro ⟨t', b', ⟨rfl, rfl⟩, hB', _, hT'⟩
            rw [hB] at hB'; cases hB'; rw [hT] at hT'; cases hT'; exact ⟨rfl, rfl⟩
      · simp only [hB, if_neg hr, reduceCtorEq, false_iff, not_exists, not_and]
        rintro t' b' he hB' hr'
        cases he; rw [hB] at hB'; cases hB'; exact absurd hr' hr

theorem runningT_none {σ : Sys} (inv : Inv σ) {s : Nat} :
    σ.runningT s = none ↔
      ∀ t b, (σ.stacks s).head? = some (t, b) → (abs σ).phase t b ≠ some .running := by
  constructor
  · intro h t b hh hph
    obtain ⟨B, hB, hst⟩ := bodyOfPhase hph
    obtain ⟨_, _, T, hT, _⟩ := inv.body t b B hB
    have := (runningT_some inv (s := s) (T := T) (B := B)).2 ⟨t, b, hh, hB, phaseOf_running.1 hst, hT⟩
    rw [h] at this; cases this
  · intro h
    cases hr : σ.runningT s with
    | none => rfl
    | some p =>
      obtain ⟨T, B⟩ := p
      obtain ⟨t, b, hh, hB, hst, _⟩ := (runningT_some inv).1 hr
      exact absurd (by rw [abs_phase hB, hst]; rfl) (h t b hh)

/-- The view of a thread only depends on the top key, its phase and its task's gid. -/
theorem view_char {σ : Sys} (inv : Inv σ) (m : Model) (P : ProcInfo) (s : Nat) :
    viewOf m P (σ.runningT s) =
      match (σ.stacks s).head? with
      | none => Chans.null
      | some (t, b) =>
        if (abs σ).phase t b = some .running then
          match σ.tasks t with
          | some T => showVals m P t T.gid b
          | none => Chans.null
        else Chans.null := by
  cases hr : σ.runningT s with
  | some p =>
    obtain ⟨T, B⟩ := p
    obtain ⟨t, b, hh, hB, hst, hT⟩ := (runningT_some inv).1 hr
    simp only [hh, abs_phase hB, hst, phaseOf, if_true, hT, viewOf]
    rw [inv.taskId t T hT, inv.bodyId t b B hB]
  | none =>
    have h := (runningT_none inv).1 hr
    cases hh : (σ.stacks s).head? with
    | none => rfl
    | some r =>
      obtain ⟨t, b⟩ := r
      simp only [viewOf, if_neg (h t b hh)]

/-- Invariant of the event-level state. -/
structure EInv (m : Model) (P : ProcInfo) (ε : Emu) : Prop where
  inv : Inv ε.sys
  below : Below (abs ε.sys)
  flags : ∀ t T, ε.sys.tasks t = some T → ∃ par, T.flags = createFlags m par
  gid : ∀ t T, ε.sys.tasks t = some T → T.gid ≠ 0
  typeGid : ∀ ty g, ε.sys.types ty = some g → g ≠ 0
  noZero : ∀ b, ε.sys.bodies 0 b = none
  one : m = .nanos6 → ∀ t b B, ε.sys.bodies t b = some B → b = 1
  view : ∀ th, ε.ch th = viewOf m P (ε.sys.runningT th)

def eabs (ε : Emu) : EAbs := ⟨abs ε.sys, ε.ss⟩

/-- The task.h call made by a state event. -/
def opOf (v : TaskEv) (th t b : Nat) : Op :=
  match v with
  | .x => .exec th t b
  | .e => .end_ th t b
  | .p => .pause th t b
  | .r => .resume th t b

theorem no_relax_nosv {par : Bool} : (createFlags .nosv par).relax = false := by
  cases par <;> rfl

theorem stacks_of_abs {σ' : Sys} {a : Abs} (h : abs σ' = a) : σ'.stacks = a.stack := by
  rw [← h]; rfl

/-- Channel update of an execute event. -/
theorem chan_exec {m : Model} {P : ProcInfo} {ε : Emu} {σ' : Sys} {th t b : Nat}
    (hP : 0 < P.appid) (ei : EInv m P ε) (hb1 : m = .nanos6 → b = 1)
    (hs : step ε.sys (.exec th t b) = .ok σ') (ht : t ≠ 0) :
    ∃ T' B', σ'.runningT th = some (T', B') ∧ B'.state = .running ∧
      updateChannels m P (ε.ch th) (expand .x (ε.sys.runningT th).isSome true)
        (ε.sys.runningT th) (some (T', B')) = .ok (viewOf m P (some (T', B'))) := by
  obtain ⟨inv', st⟩ := step_sound ei.inv hs
  have ai := ainv_of_inv ei.inv
  generalize ha' : abs σ' = a' at st
  -- common facts of both execute rules
  have key : ∀ f, (abs ε.sys).flags t = some f →
      (∀ s', (t, b) ∉ ε.sys.stacks s') → (abs ε.sys).canStart th →
      a' = ((abs ε.sys).setPhase t b .running).setStack th ((t, b) :: (abs ε.sys).stack th) →
      ∃ T' B', σ'.runningT th = some (T', B') ∧ B'.state = .running ∧
        updateChannels m P (ε.ch th) (expand .x (ε.sys.runningT th).isSome true)
          (ε.sys.runningT th) (some (T', B')) = .ok (viewOf m P (some (T', B'))) := by
    intro f hf hnot hcan hEq
    subst hEq
    obtain ⟨T, hT, rfl⟩ := abs_flags.1 hf
    have hst' : σ'.stacks th = (t, b) :: ε.sys.stacks th := by
      rw [stacks_of_abs ha']; simp [Abs.setStack, Abs.setPhase, abs]
    have hph' : (abs σ').phase t b = some .running := by
      rw [ha']; simp [Abs.setStack, Abs.setPhase]
    obtain ⟨B', hB', hrun⟩ := bodyOfPhase hph'
    rw [phaseOf_running] at hrun
    obtain ⟨T', hT', hsame⟩ := (step_frame ei.inv hs).1 t T hT
    have hnext : σ'.runningT th = some (T', B') :=
      (runningT_some inv').2 ⟨t, b, by rw [hst']; rfl, hB', hrun, hT'⟩
    have hid' : T'.id = t := inv'.taskId t T' hT'
    have hgid' : T'.gid ≠ 0 := by rw [hsame.2.1]; exact ei.gid t T hT
    refine ⟨T', B', hnext, hrun, ?_⟩
    cases hprev : ε.sys.runningT th with
    | none =>
      simp only [Option.isSome_none, expand, Bool.false_eq_true, if_false, updateChannels, chanRunning]
      rw [if_neg (by omega), if_neg hgid', if_neg (by omega)]
      rw [ei.view th, hprev]
      exact chanShow_null m P T' B'
    | some p =>
      obtain ⟨Tp, Bp⟩ := p
      obtain ⟨tp, bp, hh, hBp, hrp, hTp⟩ := (runningT_some ei.inv).1 hprev
      have hrel := hcan tp bp hh (by rw [abs_phase hBp, hrp]; rfl)
      obtain ⟨fp, hfp, hrelax⟩ := hrel
      obtain ⟨Tp2, hTp2, rfl⟩ := abs_flags.1 hfp
      rw [hTp] at hTp2; cases hTp2
      obtain ⟨par, hpar⟩ := ei.flags tp Tp hTp
      cases m with
      | nosv => rw [hpar, no_relax_nosv] at hrelax; cases hrelax
      | nanos6 =>
        have hb : b = 1 := hb1 rfl
        have hbp : bp = 1 := ei.one rfl tp bp Bp hBp
        have hmem : (tp, bp) ∈ ε.sys.stacks th := List.mem_of_mem_head? (by rw [hh]; rfl)
        have hne : Tp.id ≠ T'.id := by
          rw [ei.inv.taskId tp Tp hTp, hid']
          intro he
          subst he hb hbp
          exact hnot th hmem
        have h1 : samePtr .nanos6 Tp Bp T' B' = false := by simp [samePtr, hne]
        have h2 : ¬ T'.id = 0 := by omega
        simp only [Option.isSome_some, expand, if_true, updateChannels, chanSwitch, h1,
          Bool.false_eq_true, if_false, h2, hgid']
        rw [ei.view th, hprev]
        exact chanShow_switch6 P Tp T' Bp B' hne
  cases st with
  | execFirst hf _ hph _ hcan =>
    apply key _ hf _ hcan rfl
    intro s' hm
    rcases ai.memPhase s' _ _ hm with h | h <;> rw [hph] at h <;> cases h
  | execAgain hf hph _ hcan =>
    apply key _ hf _ hcan rfl
    intro s' hm
    rcases ai.memPhase s' _ _ hm with h | h <;> rw [hph] at h <;> cases h

theorem phase_of_abs {σ' : Sys} {a : Abs} (h : abs σ' = a) (i j : Nat) :
    (abs σ').phase i j = a.phase i j := by rw [h]

/-- Channel update of an end event. -/
theorem chan_end {m : Model} {P : ProcInfo} {ε : Emu} {σ' : Sys} {th t b : Nat}
    (ei : EInv m P ε) (hs : step ε.sys (.end_ th t b) = .ok σ') (w : Bool) :
    updateChannels m P (ε.ch th) (expand .e w (σ'.runningT th).isSome)
      (ε.sys.runningT th) (σ'.runningT th) = .ok (viewOf m P (σ'.runningT th)) := by
  obtain ⟨inv', st⟩ := step_sound ei.inv hs
  have ai := ainv_of_inv ei.inv
  generalize ha' : abs σ' = a' at st
  cases st with
  | end_ hph htop =>
    obtain ⟨B, hB, hrun⟩ := bodyOfPhase hph
    rw [phaseOf_running] at hrun
    obtain ⟨_, _, T, hT, _⟩ := ei.inv.body t b B hB
    have hprev : ε.sys.runningT th = some (T, B) := (runningT_some ei.inv).2 ⟨t, b, htop, hB, hrun, hT⟩
    have hst' : σ'.stacks th = (ε.sys.stacks th).tail := by
      rw [stacks_of_abs ha']; simp [Abs.setStack, Abs.setPhase, abs]
    cases hnext : σ'.runningT th with
    | none =>
      simp only [Option.isSome_none, expand, Bool.false_eq_true, if_false, updateChannels]
      rw [ei.view th, hprev]
      exact chanStopped_view m P T B
    | some p =>
      obtain ⟨Tn, Bn⟩ := p
      obtain ⟨tn, bn, hh, hBn, hrn, hTn⟩ := (runningT_some inv').1 hnext
      -- the old stack is (t,b) :: (tn,bn) :: _
      have htop' : (ε.sys.stacks th).head? = some (t, b) := htop
      cases hl : ε.sys.stacks th with
      | nil => rw [hl] at htop'; cases htop'
      | cons x0 tl =>
        rw [hl] at htop'
        simp only [List.head?_cons, Option.some.injEq] at htop'
        subst htop'
        rw [hst', hl, List.tail_cons] at hh
        cases htl : tl with
        | nil => rw [htl] at hh; cases hh
        | cons x1 tl2 =>
          rw [htl] at hh
          simp only [List.head?_cons, Option.some.injEq] at hh
          subst hh
          have nd := ei.inv.nodup th
          rw [hl, htl] at nd
          have hne : ¬(tn = t ∧ bn = b) := by
            rintro ⟨rfl, rfl⟩
            exact (List.nodup_cons.1 nd).1 List.mem_cons_self
          have hphn : (abs ε.sys).phase tn bn = some .running := by
            have := phase_of_abs ha' tn bn
            simp only [Abs.setStack, Abs.setPhase, if_neg hne] at this
            rw [← this, abs_phase hBn, hrn]; rfl
          have hbel := ei.below th (t, b) ((tn, bn) :: tl2) (by rw [← htl]; exact hl) (tn, bn) List.mem_cons_self
          rcases hbel with hp | ⟨fn, hfn, hrelax⟩
          · rw [hphn] at hp; cases hp
          · obtain ⟨Tn0, hTn0, rfl⟩ := abs_flags.1 hfn
            obtain ⟨par, hpar⟩ := ei.flags tn Tn0 hTn0
            cases m with
            | nosv => rw [hpar, no_relax_nosv] at hrelax; cases hrelax
            | nanos6 =>
              obtain ⟨Bn0, hBn0, _⟩ := bodyOfPhase hphn
              have hbn : bn = 1 := ei.one rfl tn bn Bn0 hBn0
              have hb : b = 1 := ei.one rfl t b B hB
              have htn0 : tn ≠ 0 := by
                intro h0; subst h0; rw [ei.noZero bn] at hBn0; cases hBn0
              obtain ⟨Tn2, hTn2, hsame⟩ := (step_frame ei.inv hs).1 tn Tn0 hTn0
              rw [hTn] at hTn2; cases hTn2
              have hidn : Tn.id = tn := inv'.taskId tn Tn hTn
              have hid : T.id = t := ei.inv.taskId t T hT
              have hne' : T.id ≠ Tn.id := by
                rw [hid, hidn]; intro he; subst he hbn hb; exact hne ⟨rfl, rfl⟩
              have h1 : samePtr .nanos6 T B Tn Bn = false := by simp [samePtr, hne']
              have h2 : ¬ Tn.id = 0 := by omega
              have h3 : ¬ Tn.gid = 0 := by rw [hsame.2.1]; exact ei.gid tn Tn0 hTn0
              simp only [Option.isSome_some, expand, if_true, updateChannels, hprev, chanSwitch, h1,
                Bool.false_eq_true, if_false, h2, h3]
              rw [ei.view th, hprev]
              exact chanShow_switch6 P T Tn B Bn hne'

/-- Channel update of a pause event. -/
theorem chan_pause {m : Model} {P : ProcInfo} {ε : Emu} {σ' : Sys} {th t b : Nat}
    (ei : EInv m P ε) (hs : step ε.sys (.pause th t b) = .ok σ') (w w' : Bool) :
    σ'.runningT th = none ∧
    updateChannels m P (ε.ch th) (expand .p w w')
      (ε.sys.runningT th) (σ'.runningT th) = .ok (viewOf m P (σ'.runningT th)) := by
  obtain ⟨inv', st⟩ := step_sound ei.inv hs
  generalize ha' : abs σ' = a' at st
  cases st with
  | pause hf hp hph htop =>
    obtain ⟨B, hB, hrun⟩ := bodyOfPhase hph
    rw [phaseOf_running] at hrun
    obtain ⟨_, _, T, hT, _⟩ := ei.inv.body t b B hB
    have hprev : ε.sys.runningT th = some (T, B) := (runningT_some ei.inv).2 ⟨t, b, htop, hB, hrun, hT⟩
    have hst' : σ'.stacks th = ε.sys.stacks th := by
      rw [stacks_of_abs ha']; simp [Abs.setPhase, abs]
    have hnext : σ'.runningT th = none := by
      apply (runningT_none inv').2
      intro t' b' hh
      rw [hst'] at hh
      have : (ε.sys.stacks th).head? = some (t, b) := htop
      rw [this] at hh; cases hh
      rw [phase_of_abs ha']; simp [Abs.setPhase]
    refine ⟨hnext, ?_⟩
    rw [hnext]
    simp only [expand, updateChannels]
    rw [ei.view th, hprev]
    exact chanStopped_view m P T B

/-- Channel update of a resume event. -/
theorem chan_resume {m : Model} {P : ProcInfo} {ε : Emu} {σ' : Sys} {th t b : Nat}
    (hP : 0 < P.appid) (ei : EInv m P ε) (hs : step ε.sys (.resume th t b) = .ok σ') (w w' : Bool) :
    updateChannels m P (ε.ch th) (expand .r w w')
      (ε.sys.runningT th) (σ'.runningT th) = .ok (viewOf m P (σ'.runningT th)) := by
  obtain ⟨inv', st⟩ := step_sound ei.inv hs
  generalize ha' : abs σ' = a' at st
  cases st with
  | resume hph htop =>
    obtain ⟨B, hB, hpau⟩ := bodyOfPhase hph
    rw [phaseOf_paused] at hpau
    obtain ⟨_, _, T, hT, _⟩ := ei.inv.body t b B hB
    have hprev : ε.sys.runningT th = none := by
      apply (runningT_none ei.inv).2
      intro t' b' hh
      have : (ε.sys.stacks th).head? = some (t, b) := htop
      rw [this] at hh; cases hh
      rw [hph]; simp
    have hst' : σ'.stacks th = ε.sys.stacks th := by
      rw [stacks_of_abs ha']; simp [Abs.setPhase, abs]
    have hph' : (abs σ').phase t b = some .running := by
      rw [ha']; simp [Abs.setPhase]
    obtain ⟨B', hB', hrun⟩ := bodyOfPhase hph'
    rw [phaseOf_running] at hrun
    obtain ⟨T', hT', hsame⟩ := (step_frame ei.inv hs).1 t T hT
    have hnext : σ'.runningT th = some (T', B') :=
      (runningT_some inv').2 ⟨t, b, by rw [hst']; exact htop, hB', hrun, hT'⟩
    have ht0 : t ≠ 0 := by intro h0; subst h0; rw [ei.noZero b] at hB; cases hB
    have hid' : T'.id = t := inv'.taskId t T' hT'
    have h2 : ¬ T'.id = 0 := by omega
    have h3 : ¬ T'.gid = 0 := by rw [hsame.2.1]; exact ei.gid t T hT
    have h4 : ¬ (m = .nosv ∧ P.appid ≤ 0) := by omega
    rw [hnext]
    simp only [expand, updateChannels, chanRunning, h2, h3, h4, if_false]
    rw [ei.view th, hprev]
    exact chanShow_null m P T' B'

end Ovni.Task
